(* Reference semantics of grol, value layer (C01): 64-bit integers with explicit wrap-around, an exact
   dyadic model of binary64 (no rounding is ever performed: an operation whose true result is not
   representable answers None = "inexact", and the driver skips the case), byte strings, immutable
   arrays and maps (association lists sorted in the language's key order), comparison, indexing,
   slicing and the text form of values.  NO proofs here (see proofs/RefEval_proofs.v). *)
From Coq Require Import List ZArith NArith Bool.
From GrolModel Require Import Ast.
Import ListNotations.
Open Scope Z_scope.

(* ------------------------------------------------------------------ integers *)
Definition two63 : Z := 9223372036854775808.
Definition two64 : Z := 18446744073709551616.
Definition min_int : Z := - two63.
Definition max_int : Z := two63 - 1.
Definition wrap64 (z : Z) : Z := ((z + two63) mod two64) - two63.
Definition in_int64 (z : Z) : Prop := min_int <= z <= max_int.
(* the uint64 image of an int64 *)
Definition uimage (z : Z) : Z := z mod two64.

Definition int_add (a b : Z) : Z := wrap64 (a + b).
Definition int_sub (a b : Z) : Z := wrap64 (a - b).
Definition int_mul (a b : Z) : Z := wrap64 (a * b).
Definition int_neg (a : Z) : Z := wrap64 (- a).
(* None = language error (zero divisor, negative shift count) *)
Definition int_div (a b : Z) : option Z := if b =? 0 then None else Some (wrap64 (Z.quot a b)).
Definition int_mod (a b : Z) : option Z := if b =? 0 then None else Some (wrap64 (Z.rem a b)).
Definition int_shl (a b : Z) : option Z :=
  if b <? 0 then None else if 64 <=? b then Some 0 else Some (wrap64 (a * 2 ^ b)).
Definition int_shr (a b : Z) : option Z :=
  if b <? 0 then None else if 64 <=? b then Some 0 else Some (wrap64 (uimage a / 2 ^ b)).
Definition int_and (a b : Z) : Z := Z.land a b.
Definition int_or (a b : Z) : Z := Z.lor a b.
Definition int_xor (a b : Z) : Z := Z.lxor a b.
Definition int_not (a : Z) : Z := Z.lnot a.

(* ------------------------------------------------------------------ floats *)
(* FFin neg m e denotes (-1)^neg * m * 2^e; normal form: m odd, or m = 0 and e = 0 (the sign of zero is kept) *)
Inductive fl : Type := FNaN | FInf (neg : bool) | FFin (neg : bool) (m : N) (e : Z).

Fixpoint pos_strip (p : positive) (e : Z) : positive * Z :=
  match p with xO q => pos_strip q (e + 1) | _ => (p, e) end.

Definition fnorm (neg : bool) (m : N) (e : Z) : fl :=
  match m with
  | N0 => FFin neg 0 0
  | Npos p => let (q, e') := pos_strip p e in FFin neg (Npos q) e'
  end.

(* m odd (or zero): is m * 2^e a binary64 number (normal or subnormal)? *)
Definition representable (m : N) (e : Z) : bool :=
  match m with
  | N0 => true
  | _ => let k := Z.of_N (N.size m) in (k <=? 53) && (e + k - 1 <=? 1023) && (-1074 <=? e)
  end.

Definition fchk (neg : bool) (m : N) (e : Z) : option fl :=
  match fnorm neg m e with
  | FFin n m' e' => if representable m' e' then Some (FFin n m' e') else None
  | x => Some x
  end.

Definition fsigned (neg : bool) (m : N) : Z := if neg then - Z.of_N m else Z.of_N m.

Definition fl_of_bits (b : N) : fl :=
  let sign := N.testbit b 63 in
  let ex := N.land (N.shiftr b 52) 2047 in
  let fr := N.land b 4503599627370495 in
  if (ex =? 2047)%N then (if (fr =? 0)%N then FInf sign else FNaN)
  else if (ex =? 0)%N then fnorm sign fr (-1074)
  else fnorm sign (fr + 4503599627370496) (Z.of_N ex - 1075).

Definition nan_bits : N := 9221120237041090561. (* 0x7ff8000000000001: the one NaN both sides print *)
Definition sign_bit (s : bool) : N := if s then 9223372036854775808%N else 0%N.

(* inverse of fl_of_bits on representable normal forms *)
Definition bits_of_fl (f : fl) : N :=
  match f with
  | FNaN => nan_bits
  | FInf s => (sign_bit s + 9218868437227405312)%N
  | FFin s m e =>
      match m with
      | N0 => sign_bit s
      | _ =>
        let k := Z.of_N (N.size m) in
        let E := e + k - 1 in
        if -1022 <=? E
        then (sign_bit s + N.shiftl (Z.to_N (E + 1023)) 52 + (N.shiftl m (Z.to_N (53 - k)) - 4503599627370496))%N
        else (sign_bit s + N.shiftl m (Z.to_N (e + 1074)))%N
      end
  end.

Definition fneg (a : fl) : fl :=
  match a with FNaN => FNaN | FInf s => FInf (negb s) | FFin s m e => FFin (negb s) m e end.

Definition fadd (a b : fl) : option fl :=
  match a, b with
  | FNaN, _ | _, FNaN => Some FNaN
  | FInf s1, FInf s2 => if Bool.eqb s1 s2 then Some (FInf s1) else Some FNaN
  | FInf s, _ | _, FInf s => Some (FInf s)
  | FFin s1 m1 e1, FFin s2 m2 e2 =>
      if (m1 =? 0)%N && (m2 =? 0)%N then Some (FFin (s1 && s2) 0 0)
      else if (m1 =? 0)%N then Some b
      else if (m2 =? 0)%N then Some a
      else
        let e := Z.min e1 e2 in
        let z := fsigned s1 m1 * 2 ^ (e1 - e) + fsigned s2 m2 * 2 ^ (e2 - e) in
        if z =? 0 then Some (FFin false 0 0) else fchk (z <? 0) (Z.to_N (Z.abs z)) e
  end.

Definition fsub (a b : fl) : option fl := fadd a (fneg b).

Definition fmul (a b : fl) : option fl :=
  match a, b with
  | FNaN, _ | _, FNaN => Some FNaN
  | FInf s1, FInf s2 => Some (FInf (xorb s1 s2))
  | FInf s1, FFin s2 m _ | FFin s2 m _, FInf s1 => if (m =? 0)%N then Some FNaN else Some (FInf (xorb s1 s2))
  | FFin s1 m1 e1, FFin s2 m2 e2 => fchk (xorb s1 s2) (m1 * m2) (e1 + e2)
  end.

Definition fdiv (a b : fl) : option fl :=
  match a, b with
  | FNaN, _ | _, FNaN => Some FNaN
  | FInf _, FInf _ => Some FNaN
  | FInf s1, FFin s2 _ _ => Some (FInf (xorb s1 s2))
  | FFin s1 _ _, FInf s2 => Some (FFin (xorb s1 s2) 0 0)
  | FFin s1 m1 e1, FFin s2 m2 e2 =>
      if (m2 =? 0)%N then (if (m1 =? 0)%N then Some FNaN else Some (FInf (xorb s1 s2)))
      else if (m1 =? 0)%N then Some (FFin (xorb s1 s2) 0 0)
      else
        (* both in normal form (odd mantissas): the quotient is dyadic iff m2 divides m1 *)
        match fnorm s1 m1 e1, fnorm s2 m2 e2 with
        | FFin _ n1 x1, FFin _ n2 x2 =>
            if (N.modulo n1 n2 =? 0)%N then fchk (xorb s1 s2) (N.div n1 n2) (x1 - x2) else None
        | _, _ => None
        end
  end.

(* Go math.Mod: result has the sign of the dividend; exact *)
Definition fmod (a b : fl) : option fl :=
  match a, b with
  | FNaN, _ | _, FNaN => Some FNaN
  | FInf _, _ => Some FNaN
  | FFin _ _ _, FInf _ => Some a
  | FFin s1 m1 e1, FFin s2 m2 e2 =>
      if (m2 =? 0)%N then Some FNaN
      else
        let e := Z.min e1 e2 in
        let x := Z.of_N m1 * 2 ^ (e1 - e) in
        let y := Z.of_N m2 * 2 ^ (e2 - e) in
        fchk s1 (Z.to_N (Z.modulo x y)) e
  end.

(* the order used by the language (Go cmp.Compare): NaN below everything and equal to itself, -0 = +0 *)
Definition fcmp (a b : fl) : comparison :=
  match a, b with
  | FNaN, FNaN => Eq
  | FNaN, _ => Lt
  | _, FNaN => Gt
  | FInf s1, FInf s2 => if s1 then (if s2 then Eq else Lt) else (if s2 then Gt else Eq)
  | FInf s, _ => if s then Lt else Gt
  | _, FInf s => if s then Gt else Lt
  | FFin s1 m1 e1, FFin s2 m2 e2 =>
      let e := Z.min e1 e2 in
      Z.compare (fsigned s1 m1 * 2 ^ (e1 - e)) (fsigned s2 m2 * 2 ^ (e2 - e))
  end.

(* an integer as an exact dyadic (used for comparisons: no rounding) *)
Definition fl_of_int_exact (z : Z) : fl := FFin (z <? 0) (Z.to_N (Z.abs z)) 0.
(* float64(int64): None when rounding would be needed *)
Definition fl_of_int (z : Z) : option fl := fchk (z <? 0) (Z.to_N (Z.abs z)) 0.

(* ------------------------------------------------------------------ decimal text *)
Fixpoint digits_fuel (fuel : nat) (n : N) (acc : bytes) : bytes :=
  match fuel with
  | O => acc
  | S f =>
      let acc' := (48 + N.modulo n 10)%N :: acc in
      let q := N.div n 10 in
      if (q =? 0)%N then acc' else digits_fuel f q acc'
  end.
Definition dec_of_N (n : N) : bytes := digits_fuel (S (N.to_nat (N.size n))) n [].
Definition dec_of_Z (z : Z) : bytes :=
  if z <? 0 then 45%N :: dec_of_N (Z.to_N (- z)) else dec_of_N (Z.to_N z).

Fixpoint strip_trailing_zeros_rev (l : bytes) : bytes :=   (* l is reversed: drops leading '0's *)
  match l with
  | c :: r => if (c =? 48)%N then strip_trailing_zeros_rev r else l
  | [] => []
  end.
Definition sig_digits (d : bytes) : nat := length (strip_trailing_zeros_rev (rev d)).

Fixpoint zeros (n : nat) : bytes := match n with O => [] | S k => 48%N :: zeros k end.

(* strconv.FormatFloat(v,'f',-1,64), defined only where the exact decimal expansion has at most 15
   significant digits (then it is the shortest representation that round-trips) *)
Definition fl_dec (f : fl) : option bytes :=
  match f with
  | FNaN => Some [78; 97; 78]%N
  | FInf s => Some ((if s then 45 else 43) :: [73; 110; 102])%N
  | FFin s m e =>
      let sg := if s then [45%N] else [] in
      if (m =? 0)%N then Some (sg ++ [48%N])
      else if 0 <=? e then
        let d := dec_of_N (m * 2 ^ Z.to_N e)%N in
        if Nat.leb (sig_digits d) 15 then Some (sg ++ d) else None
      else
        let k := Z.to_nat (- e) in
        let d := dec_of_N (m * 5 ^ N.of_nat k)%N in
        if Nat.leb (length d) 15 then
          (if Nat.ltb k (length d)
           then Some (sg ++ firstn (length d - k) d ++ [46%N] ++ skipn (length d - k) d)
           else Some (sg ++ [48; 46]%N ++ zeros (k - length d) ++ d))
        else None
  end.

(* ------------------------------------------------------------------ values *)
Inductive value : Type :=
| VInt (z : Z)
| VFloat (f : fl)
| VBool (b : bool)
| VNil
| VStr (s : bytes)
| VArr (l : list value)
| VMap (kv : list (value * value))
| VFun (fid : nat) (name : option bytes) (params : list bytes) (variadic : bool) (body : node) (env : nat)
| VOpaque. (* the text of an error message produced by the evaluator itself: not part of the property *)

(* type ordinal used for the cross-type order (object.Type) *)
Definition type_ord (v : value) : Z :=
  match v with
  | VInt _ => 1 | VFloat _ => 2 | VBool _ => 3 | VNil => 4 | VFun _ _ _ _ _ _ => 7
  | VStr _ => 8 | VOpaque => 8 | VArr _ => 9 | VMap _ => 10
  end.

Fixpoint bytes_cmp (a b : bytes) : comparison :=
  match a, b with
  | [], [] => Eq
  | [], _ => Lt
  | _, [] => Gt
  | x :: a', y :: b' => match N.compare x y with Eq => bytes_cmp a' b' | c => c end
  end.
Definition bytes_eqb (a b : bytes) : bool := match bytes_cmp a b with Eq => true | _ => false end.

(* object.Cmp; None = not decided by the reference (functions are ordered by their printed text) *)
Fixpoint vcmp (a b : value) {struct a} : option comparison :=
  match a, b with
  | VInt x, VInt y => Some (Z.compare x y)
  | VInt x, VFloat g => Some (fcmp (fl_of_int_exact x) g)
  | VFloat f, VInt y => Some (fcmp f (fl_of_int_exact y))
  | VFloat f, VFloat g => Some (fcmp f g)
  | VBool x, VBool y => Some (if Bool.eqb x y then Eq else if x then Gt else Lt)
  | VNil, VNil => Some Eq
  | VStr x, VStr y => Some (bytes_cmp x y)
  | VOpaque, _ | _, VOpaque => None
  | VFun _ _ _ _ _ _, VFun _ _ _ _ _ _ => None
  | VArr l1, VArr l2 =>
      match Nat.compare (length l1) (length l2) with
      | Eq =>
        (fix go (l1 l2 : list value) {struct l1} : option comparison :=
           match l1, l2 with
           | x :: r1, y :: r2 => match vcmp x y with Some Eq => go r1 r2 | c => c end
           | _, _ => Some Eq
           end) l1 l2
      | c => Some c
      end
  | VMap m1, VMap m2 =>
      match Nat.compare (length m1) (length m2) with
      | Eq =>
        (fix go (m1 m2 : list (value * value)) {struct m1} : option comparison :=
           match m1, m2 with
           | (k1, v1) :: r1, (k2, v2) :: r2 =>
               match vcmp k1 k2 with
               | Some Eq => match vcmp v1 v2 with Some Eq => go r1 r2 | c => c end
               | c => c
               end
           | _, _ => Some Eq
           end) m1 m2
      | c => Some c
      end
  | _, _ => Some (Z.compare (type_ord a) (type_ord b))
  end.

(* object.Equals: same type (integer and float are different types) and Cmp = 0 *)
Definition same_type (a b : value) : bool := type_ord a =? type_ord b.
Definition vequals (a b : value) : option bool :=
  match a, b with
  | VOpaque, _ | _, VOpaque => None
  | _, _ =>
    if same_type a b then
      match vcmp a b with Some Eq => Some true | Some _ => Some false | None => None end
    else Some false
  end.

(* ------------------------------------------------------------------ maps: sorted association lists *)
Definition vmap := list (value * value).

Fixpoint mget (m : vmap) (k : value) : option (option value) :=   (* None = undecided order *)
  match m with
  | [] => Some None
  | (k', v) :: r =>
      match vcmp k' k with
      | None => None
      | Some Eq => Some (Some v)
      | Some Gt => Some None
      | Some Lt => mget r k
      end
  end.

(* an existing equivalent key keeps its first spelling ({1:1, 1.0:2} is {1:2}) *)
Fixpoint mset (m : vmap) (k v : value) : option vmap :=
  match m with
  | [] => Some [(k, v)]
  | (k', v') :: r =>
      match vcmp k' k with
      | None => None
      | Some Eq => Some ((k', v) :: r)
      | Some Gt => Some ((k, v) :: m)
      | Some Lt => match mset r k v with Some r' => Some ((k', v') :: r') | None => None end
      end
  end.

Fixpoint mdel (m : vmap) (k : value) : option (vmap * bool) :=
  match m with
  | [] => Some ([], false)
  | (k', v') :: r =>
      match vcmp k' k with
      | None => None
      | Some Eq => Some (r, true)
      | Some Gt => Some (m, false)
      | Some Lt => match mdel r k with Some (r', c) => Some ((k', v') :: r', c) | None => None end
      end
  end.

Fixpoint mappend (m : vmap) (r : vmap) : option vmap :=
  match r with
  | [] => Some m
  | (k, v) :: r' => match mset m k v with Some m' => mappend m' r' | None => None end
  end.

Definition str_key : value := VStr [107; 101; 121]%N.           (* "key" *)
Definition str_value : value := VStr [118; 97; 108; 117; 101]%N. (* "value" *)
Definition str_err : value := VStr [101; 114; 114]%N.            (* "err" *)
Definition pair_map (k v : value) : value := VMap [(str_key, k); (str_value, v)].

(* ------------------------------------------------------------------ indexing and slicing *)
(* position of index i in a sequence of length len: negative counts from the end; None = outside *)
Definition norm_index (len i : Z) : option nat :=
  let j := if i <? 0 then len + i else i in
  if (j <? 0) || (len <=? j) then None else Some (Z.to_nat j).

Definition seq_index {A : Type} (l : list A) (i : Z) : option A :=
  match norm_index (Z.of_nat (length l)) i with
  | None => None
  | Some n => nth_error l n
  end.

Definition clamp (len j : Z) : Z := if j <? 0 then 0 else if len <? j then len else j.
(* bounds of x[l:r] (r = None: to the end): negative bounds count from the end; an inverted range is an
   error (None); bounds outside the sequence are clamped to it *)
Definition slice_bounds (len l : Z) (r : option Z) : option (nat * nat) :=
  let l1 := if l <? 0 then len + l else l in
  let r1 := match r with None => len | Some r0 => if r0 <? 0 then len + r0 else r0 end in
  if r1 <? l1 then None
  else let l2 := clamp len l1 in let r2 := clamp len r1 in Some (Z.to_nat l2, Z.to_nat (r2 - l2)).

Definition seq_slice {A : Type} (xs : list A) (l : Z) (r : option Z) : option (list A) :=
  match slice_bounds (Z.of_nat (length xs)) l r with
  | None => None
  | Some (start, n) => Some (firstn n (skipn start xs))
  end.

Fixpoint repeat_list {A : Type} (n : nat) (l : list A) : list A :=
  match n with O => [] | S k => l ++ repeat_list k l end.

Fixpoint int_range (n : nat) (from : Z) : list value :=
  match n with O => [] | S k => VInt from :: int_range k (from + 1) end.

Definition all_ascii (s : bytes) : bool := forallb (fun c => (c <? 128)%N) s.

(* ------------------------------------------------------------------ runes (UTF-8, RFC 3629) *)
(* first / rest / for over a string work on runes: a valid UTF-8 sequence is one rune, any byte that does not
   start one (lone continuation or lead byte, truncated, overlong, surrogate, above U+10FFFF, 0xff) is one rune
   U+FFFD, written back as its three bytes ef bf bd *)
Definition is_cont (b : N) : bool := ((128 <=? b) && (b <=? 191))%N.
Definition in_rng (lo b hi : N) : bool := ((lo <=? b) && (b <=? hi))%N.

(* length of the valid sequence at the head of s; None if the first byte does not start one *)
Definition utf8_size (s : bytes) : option nat :=
  match s with
  | [] => None
  | b0 :: r =>
      if (b0 <? 128)%N then Some 1%nat
      else if in_rng 194 b0 223 then
        match r with b1 :: _ => if is_cont b1 then Some 2%nat else None | _ => None end
      else if in_rng 224 b0 239 then
        match r with
        | b1 :: b2 :: _ =>
            if in_rng (if (b0 =? 224)%N then 160 else 128) b1 (if (b0 =? 237)%N then 159 else 191) && is_cont b2
            then Some 3%nat else None
        | _ => None
        end
      else if in_rng 240 b0 244 then
        match r with
        | b1 :: b2 :: b3 :: _ =>
            if in_rng (if (b0 =? 240)%N then 144 else 128) b1 (if (b0 =? 244)%N then 143 else 191)
               && is_cont b2 && is_cont b3
            then Some 4%nat else None
        | _ => None
        end
      else None
  end.

Definition rune_error : bytes := [239; 191; 189]%N.

(* the first rune (re-encoded) and what follows it *)
Definition split_rune (s : bytes) : bytes * bytes :=
  match utf8_size s with
  | Some k => (firstn k s, skipn k s)
  | None => (rune_error, tl s)
  end.

(* the runes of s, each as its UTF-8 bytes (fuel = length of s always suffices) *)
Fixpoint runes_fuel (fuel : nat) (s : bytes) : list bytes :=
  match fuel, s with
  | _, [] => []
  | O, _ => []
  | S f, _ => let (r, t) := split_rune s in r :: runes_fuel f t
  end.
Definition runes (s : bytes) : list bytes := runes_fuel (length s) s.
(* string([]rune(s)) *)
Definition reencode (s : bytes) : bytes := concat (runes s).

(* ------------------------------------------------------------------ text form of values (Inspect) *)
Definition hexdig (n : N) : N := if (n <? 10)%N then (48 + n)%N else (87 + n)%N.
Definition esc_x (c : N) (q : bytes) : bytes := (92 :: 120 :: hexdig (c / 16) :: hexdig (N.modulo c 16) :: q)%N.

(* code point of a valid UTF-8 sequence (the bytes of one rune) *)
Definition decode_cp (r : bytes) : N :=
  match r with
  | [b0] => b0
  | [b0; b1] => ((b0 - 192) * 64 + (b1 - 128))%N
  | [b0; b1; b2] => ((b0 - 224) * 4096 + (b1 - 128) * 64 + (b2 - 128))%N
  | [b0; b1; b2; b3] => ((b0 - 240) * 262144 + (b1 - 128) * 4096 + (b2 - 128) * 64 + (b3 - 128))%N
  | _ => 0%N
  end.

(* unicode.IsPrint on a FROZEN part of Unicode (the harness checks this table against Go's strconv.IsPrint on every
   run); None = a code point whose printability the reference does not define.  Not printable although valid:
   the C1 controls, no-break space, soft hyphen, zero width and directional marks, line / paragraph separators,
   word joiner and invisible operators, the byte order mark, private use. *)
Definition rune_printable (cp : N) : option bool :=
  if in_rng 128 cp 159 then Some false
  else if (cp =? 160)%N || (cp =? 173)%N then Some false
  else if in_rng 161 cp 383 then Some true                 (* Latin-1 Supplement, Latin Extended-A *)
  else if in_rng 1040 cp 1103 then Some true               (* Cyrillic A..ya *)
  else if in_rng 8203 cp 8207 then Some false              (* U+200B..U+200F *)
  else if in_rng 8232 cp 8238 then Some false              (* U+2028..U+202E *)
  else if in_rng 8288 cp 8292 then Some false              (* U+2060..U+2064 *)
  else if (cp =? 8364)%N || (cp =? 8211)%N || (cp =? 8212)%N then Some true  (* euro sign, dashes *)
  else if in_rng 12353 cp 12435 then Some true             (* Hiragana a..n *)
  else if in_rng 19968 cp 40869 then Some true             (* CJK unified ideographs U+4E00..U+9FA5 *)
  else if in_rng 57344 cp 63743 then Some false            (* private use U+E000..U+F8FF *)
  else if (cp =? 65279)%N then Some false                  (* U+FEFF *)
  else if (cp =? 65533)%N then Some true                   (* U+FFFD *)
  else if in_rng 128512 cp 128591 then Some true           (* emoticons U+1F600..U+1F64F *)
  else if in_rng 983040 cp 1048573 then Some false         (* supplementary private use area A *)
  else None.

Fixpoint hex_digits (n : nat) (v : N) (acc : bytes) : bytes :=
  match n with O => acc | S k => hex_digits k (v / 16) (hexdig (N.modulo v 16) :: acc) end.

(* strconv.Quote: ASCII as Go does; a byte that starts no valid UTF-8 sequence is \xNN; a valid multi-byte
   character is kept when printable and written \uXXXX / \UXXXXXXXX when not (on the frozen table, else None).
   fuel = length of the string always suffices. *)
Fixpoint quote_fuel (fuel : nat) (s : bytes) : option bytes :=
  match s with
  | [] => Some [34%N]
  | c :: r =>
      match fuel with
      | O => None
      | S f =>
          if (c <? 128)%N then
            match quote_fuel f r with
            | None => None
            | Some q =>
                if (c =? 34)%N then Some (92 :: 34 :: q)%N
                else if (c =? 92)%N then Some (92 :: 92 :: q)%N
                else if (32 <=? c)%N && (c <? 127)%N then Some (c :: q)
                else if (c =? 7)%N then Some (92 :: 97 :: q)%N
                else if (c =? 8)%N then Some (92 :: 98 :: q)%N
                else if (c =? 12)%N then Some (92 :: 102 :: q)%N
                else if (c =? 10)%N then Some (92 :: 110 :: q)%N
                else if (c =? 13)%N then Some (92 :: 114 :: q)%N
                else if (c =? 9)%N then Some (92 :: 116 :: q)%N
                else if (c =? 11)%N then Some (92 :: 118 :: q)%N
                else Some (esc_x c q)
            end
          else
            match utf8_size s with
            | None => match quote_fuel f r with Some q => Some (esc_x c q) | None => None end
            | Some k =>
                let cp := decode_cp (firstn k s) in
                match rune_printable cp, quote_fuel f (skipn k s) with
                | Some true, Some q => Some (firstn k s ++ q)
                | Some false, Some q =>
                    if (cp <? 65536)%N then Some ((92 :: 117 :: hex_digits 4 cp []) ++ q)%N
                    else Some ((92 :: 85 :: hex_digits 8 cp []) ++ q)%N
                | _, _ => None
                end
            end
      end
  end.
Definition quote_body (s : bytes) : option bytes := quote_fuel (length s) s.
Definition quote (s : bytes) : option bytes :=
  match quote_body s with Some q => Some (34%N :: q) | None => None end.

Definition b_true : bytes := [116; 114; 117; 101]%N.
Definition b_false : bytes := [102; 97; 108; 115; 101]%N.
Definition b_nil : bytes := [110; 105; 108]%N.

Fixpoint inspect (v : value) : option bytes :=
  match v with
  | VInt z => Some (dec_of_Z z)
  | VFloat f => fl_dec f
  | VBool b => Some (if b then b_true else b_false)
  | VNil => Some b_nil
  | VStr s => quote s
  | VArr l =>
      match
        (fix go (l : list value) (first : bool) : option bytes :=
           match l with
           | [] => Some [93%N]
           | x :: r =>
               match inspect x, go r false with
               | Some a, Some b => Some ((if first then [] else [44%N]) ++ a ++ b)
               | _, _ => None
               end
           end) l true
      with Some b => Some (91%N :: b) | None => None end
  | VMap m =>
      match
        (fix go (m : list (value * value)) (first : bool) : option bytes :=
           match m with
           | [] => Some [125%N]
           | (k, x) :: r =>
               match inspect k, inspect x, go r false with
               | Some a, Some b, Some c => Some ((if first then [] else [44%N]) ++ a ++ [58%N] ++ b ++ c)
               | _, _, _ => None
               end
           end) m true
      with Some b => Some (123%N :: b) | None => None end
  | VFun _ _ _ _ _ _ => None
  | VOpaque => None
  end.

(* print / println / error: a string prints its bytes, everything else its text form *)
Definition display (v : value) : option bytes :=
  match v with VStr s => Some s | _ => inspect v end.

(* does a value contain a piece the reference does not define (error-message text)? *)
Fixpoint has_opaque (v : value) : bool :=
  match v with
  | VOpaque => true
  | VArr l => (fix go (l : list value) : bool := match l with [] => false | x :: r => has_opaque x || go r end) l
  | VMap m =>
      (fix go (m : list (value * value)) : bool :=
         match m with [] => false | (k, x) :: r => has_opaque k || has_opaque x || go r end) m
  | _ => false
  end.
