(* The front end as one function: bytes -> tokens (Lexer model) -> tree (Parser model) -> text
   (Printer model), and the print->parse round trip used by C02 / C03. No proofs here. *)
From Coq Require Import List ZArith NArith Bool.
From GrolGen Require Import Gen_Consts.
From GrolModel Require Import Ast Lexer Parser Printer AstWf.
Import ListNotations.

Definition to_ptok (t : ltok) : ptok :=
  mkPtok (mkTok (lt_type t) (lt_lit t)) (lt_ws t) (lt_nl t).

Definition end_type (lineMode : bool) : Z := if lineMode then token_EOL else token_EOF.

Definition front_tokens (lineMode : bool) (src : bytes) : list ptok := map to_ptok (lex_all lineMode src).

(* lexer.Unterminated(): in line mode the line ended inside a string - the end-of-line token then
   starts before the end of the input (it spans the unterminated string).  The flag is set when the
   lexer REACHES that point, i.e. when the parser has pulled the end marker (pr_all_lexed). *)
Definition unterminated (lineMode : bool) (src : bytes) : bool :=
  lineMode &&
  existsb (fun t => Z.eqb (lt_type t) token_EOL && Nat.ltb (lt_start t) (List.length src)) (lex_all lineMode src).

(* parser.New + ParseProgram + Errors() + ContinuationNeeded() (= continuationNeeded || l.Unterminated()) *)
Definition front_parse (conv : numconv) (lineMode : bool) (src : bytes) : poutcome :=
  let toks := front_tokens lineMode src in
  match parse_program conv (default_fuel toks) (end_type lineMode) toks with
  | POk r => POk (mkPres (pr_tree r) (pr_errs r) (pr_cont r || (pr_all_lexed r && unterminated lineMode src)) (pr_all_lexed r))
  | other => other
  end.

(* a parse is clean when it reports no error and asks for no continuation *)
Definition clean (r : presult) : bool :=
  match pr_errs r with [] => negb (pr_cont r) | _ => false end.

(* structural equality of trees, modulo the layout flags of comments *)
Definition tok_eq := tok_eqb.
Fixpoint node_eqb (a b : node) {struct a} : bool :=
  let oe := fun (x y : option node) =>
    match x, y with Some m, Some n => node_eqb m n | None, None => true | _, _ => false end in
  let le := fix go (x y : list (option node)) {struct x} : bool :=
    match x, y with
    | [], [] => true
    | p :: x', q :: y' =>
      match p, q with
      | Some m, Some n => node_eqb m n && go x' y'
      | None, None => go x' y'
      | _, _ => false
      end
    | _, _ => false
    end in
  let ole := fun (x y : option (list (option node))) =>
    match x, y with Some p, Some q => le p q | None, None => true | _, _ => false end in
  let ote := fun (x y : option tok) =>
    match x, y with Some p, Some q => tok_eqb p q | None, None => true | _, _ => false end in
  match a, b with
  | NIdent t, NIdent u => tok_eqb t u
  | NInt t v, NInt u w => tok_eqb t u && Z.eqb v w
  | NFloat t v, NFloat u w => tok_eqb t u && N.eqb v w
  | NString t, NString u => tok_eqb t u
  | NBool t v, NBool u w => tok_eqb t u && Bool.eqb v w
  | NComment t _ _, NComment u _ _ => tok_eqb t u   (* the two layout flags are not part of structural identity (C03's subject) *)
  | NControl t, NControl u => tok_eqb t u
  | NReturn t v, NReturn u w => tok_eqb t u && oe v w
  | NStmts l, NStmts m => le l m
  | NPrefix t r, NPrefix u s => tok_eqb t u && oe r s
  | NPostfix t p, NPostfix u q => tok_eqb t u && tok_eqb p q
  | NInfix t l r, NInfix u m s => tok_eqb t u && oe l m && oe r s
  | NFor t c b, NFor u d e => tok_eqb t u && oe c d && oe b e
  | NIf t c x y, NIf u d z w => tok_eqb t u && oe c d && oe x z && oe y w
  | NBuiltin t ps, NBuiltin u qs => tok_eqb t u && ole ps qs
  | NFunc t nm ps bd v l, NFunc u nm' qs bd' v' l' =>
    tok_eqb t u && ote nm nm' && ole ps qs && oe bd bd' && Bool.eqb v v' && Bool.eqb l l'
  | NCall t f x, NCall u g y => tok_eqb t u && oe f g && ole x y
  | NArray t e, NArray u f => tok_eqb t u && ole e f
  | NIndex t l i, NIndex u m j => tok_eqb t u && oe l m && oe i j
  | NMap t ps, NMap u qs =>
    tok_eqb t u &&
    (fix go (x y : list (option node * option node)) {struct x} : bool :=
       match x, y with
       | [], [] => true
       | (k, v) :: x', (k', v') :: y' =>
         match k, k' with
         | Some m, Some n => node_eqb m n
         | None, None => true
         | _, _ => false
         end &&
         match v, v' with
         | Some m, Some n => node_eqb m n
         | None, None => true
         | _, _ => false
         end && go x' y'
       | _, _ => false
       end) ps qs
  | NMacro t ps bd, NMacro u qs bd' => tok_eqb t u && ole ps qs && oe bd bd'
  | _, _ => false
  end.

(* drop comments (compact mode omits them by design) *)
Fixpoint strip_comments (n : node) {struct n} : node :=
  let so := fun (x : option node) => match x with Some m => Some (strip_comments m) | None => None end in
  let sl := fix go (l : list (option node)) {struct l} : list (option node) :=
    match l with
    | [] => []
    | Some (NComment _ _ _) :: r => go r
    | Some m :: r => Some (strip_comments m) :: go r
    | None :: r => None :: go r
    end in
  (* expression lists cannot contain comments as separate elements in a clean tree; map only *)
  let ml := fix go (l : list (option node)) {struct l} : list (option node) :=
    match l with [] => [] | x :: r => so x :: go r end in
  let mol := fun (x : option (list (option node))) => match x with Some l => Some (ml l) | None => None end in
  match n with
  | NReturn t v => NReturn t (so v)
  | NStmts l => NStmts (sl l)
  | NPrefix t r => NPrefix t (so r)
  | NInfix t l r => NInfix t (so l) (so r)
  | NFor t c b => NFor t (so c) (so b)
  | NIf t c a b => NIf t (so c) (so a) (so b)
  | NBuiltin t ps => NBuiltin t (mol ps)
  | NFunc t nm ps b v l => NFunc t nm (mol ps) (so b) v l
  | NCall t f a => NCall t (so f) (mol a)
  | NArray t e => NArray t (mol e)
  | NIndex t l i => NIndex t (so l) (so i)
  | NMap t ps =>
    NMap t ((fix go (l : list (option node * option node)) {struct l} :=
               match l with [] => [] | (k, v) :: r => (so k, so v) :: go r end) ps)
  | NMacro t ps b => NMacro t (mol ps) (so b)
  | other => other
  end.

Inductive rt_result : Type :=
| RtSame            (* re-parses cleanly to the same tree (modulo comments in compact mode) *)
| RtDiffers         (* re-parses cleanly to a different tree *)
| RtRejected        (* the printed text is not accepted (errors / continuation / panic) *)
| RtPrintPanic      (* the printer panicked *)
| RtNotClean.       (* the source itself is not accepted: nothing to check *)

(* print -> parse round trip of a source text in one print mode *)
Definition roundtrip (conv : numconv) (compact : bool) (src : bytes) : rt_result * option bytes :=
  match front_parse conv false src with
  | POk r =>
    if clean r then
      match print_program compact false (pr_tree r) with
      | None => (RtPrintPanic, None)
      | Some txt =>
        match front_parse conv false txt with
        | POk r2 =>
          if clean r2 then
            let t1 := if compact then strip_comments (NStmts (pr_tree r)) else NStmts (pr_tree r) in
            if node_eqb t1 (NStmts (pr_tree r2)) then (RtSame, Some txt) else (RtDiffers, Some txt)
          else (RtRejected, Some txt)
        | _ => (RtRejected, Some txt)
        end
      end
    else (RtNotClean, None)
  | _ => (RtNotClean, None)
  end.

(* the formatter as a function on source text: None = the source is not accepted (or the printer panicked) *)
Definition format (conv : numconv) (compact : bool) (src : bytes) : option bytes :=
  match front_parse conv false src with
  | POk r => if clean r then print_program compact false (pr_tree r) else None
  | _ => None
  end.

Fixpoint beqb (a b : bytes) : bool :=
  match a, b with
  | [], [] => true
  | x :: a', y :: b' => N.eqb x y && beqb a' b'
  | _, _ => false
  end.

(* formatting formatted text returns it unchanged *)
Definition idempotent_on (conv : numconv) (compact : bool) (src : bytes) : bool :=
  match format conv compact src with
  | None => true
  | Some t1 => match format conv compact t1 with Some t2 => beqb t1 t2 | None => false end
  end.
