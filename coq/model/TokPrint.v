(* The expression fragment of the positive round-trip theorem of C02, and its token-level rendering.
   ex        : one-token operands (identifiers, integer / float / string literals, true / false, break / continue),
               prefix operators, binary infix operators, calls f(a, b), index expressions a[i]
   to_node   : the syntax tree of an ex
   toks c e  : the tokens the formatter emits for e when ExpressionPrecedence = c (parentheses exactly
               where PrefixExpression / InfixExpression / CallExpression / IndexExpression.PrettyPrint put them);
               each token carries a flag "glued": no white space may precede it (the `(` of a call and the
               `[` of an index expression, which the formatter always prints adjacent to the callee / operand)
   No proofs in this file. *)
From Coq Require Import List ZArith NArith Bool String.
From GrolGen Require Import Gen_Consts Gen_Prec Gen_ParserTables.
From GrolModel Require Import Ast Parser.
Import ListNotations.
Local Open Scope Z_scope.

(* one-token operands *)
Inductive atom : Type :=
| AId | AInt (v : Z) | AFloat (bits : N) | AStr | ABool | ACtl.

Inductive ex : Type :=
| EAtom (t : tok) (a : atom)
| EPre (op : tok) (e : ex)
| EBin (op : tok) (l r : ex)
| ECall (t : tok) (f : ex) (args : list ex)      (* t: the `(` token *)
| EIndex (t : tok) (l i : ex).                   (* t: the `[` token *)

Definition atom_node (t : tok) (a : atom) : node :=
  match a with
  | AId => NIdent t
  | AInt v => NInt t v
  | AFloat b => NFloat t b
  | AStr => NString t
  | ABool => NBool t (Z.eqb (ttype t) token_TRUE)
  | ACtl => NControl t
  end.

Fixpoint to_node (e : ex) : node :=
  match e with
  | EAtom t a => atom_node t a
  | EPre op r => NPrefix op (Some (to_node r))
  | EBin op l r => NInfix op (Some (to_node l)) (Some (to_node r))
  | ECall t f args => NCall t (Some (to_node f)) (Some (map (fun a => Some (to_node a)) args))
  | EIndex t l i => NIndex t (Some (to_node l)) (Some (to_node i))
  end.

(* the level above which the parser's expression loop no longer extends the expression *)
Definition lvl (e : ex) : Z :=
  match e with
  | EBin op _ _ => precedence_of (ttype op)
  | EPre _ _ => ast_PREFIX
  | ECall _ _ _ | EIndex _ _ _ => ast_CALL
  | EAtom _ _ => 100
  end.

Definition LP : tok := mkTok token_LPAREN [40%N].
Definition RP : tok := mkTok token_RPAREN [41%N].
Definition LB : tok := mkTok token_LBRACKET [91%N].
Definition RB : tok := mkTok token_RBRACKET [93%N].
Definition CM : tok := mkTok token_COMMA [44%N].

Definition is_plus (t : tok) : bool := Z.eqb (ttype t) token_PLUS.

(* does e get parentheses when printed with ExpressionPrecedence = c ? *)
Definition paren (c : Z) (e : ex) : bool :=
  match e with
  | EBin op _ _ => precedence_of (ttype op) <? c
  | EPre _ _ => ast_PREFIX <=? c
  | EIndex t _ _ => precedence_of (ttype t) <? c
  | ECall _ _ _ | EAtom _ _ => false
  end.

(* the precedence in effect when the right operand of [op] is printed (fix 38a934c) *)
Definition right_ctx (op : tok) (r : ex) : Z :=
  let q := precedence_of (ttype op) in
  match r with
  | EBin rop _ _ => if is_plus op && is_plus rop then q else q + 1
  | _ => q
  end.

(* a token and its "glued" flag *)
Definition mtok : Type := (tok * bool)%type.
Definition pl (t : tok) : mtok := (t, false).

Fixpoint body (e : ex) : list mtok :=
  let wrap := fun (c : Z) (x : ex) (b : list mtok) => if paren c x then pl LP :: b ++ [pl RP] else b in
  match e with
  | EAtom t _ => [pl t]
  | EPre op r => pl op :: wrap ast_PREFIX r (body r)
  | EBin op l r =>
    let q := precedence_of (ttype op) in
    wrap q l (body l) ++ [pl op] ++ wrap (right_ctx op r) r (body r)
  | ECall t f args =>
    wrap ast_CALL f (body f) ++ [(t, true)]
    ++ (fix go (l : list ex) : list mtok :=
          match l with
          | [] => []
          | a :: rest => wrap ast_LOWEST a (body a) ++ match rest with [] => [] | _ => pl CM :: go rest end
          end) args
    ++ [pl RP]
  | EIndex t l i =>
    wrap (precedence_of (ttype t)) l (body l) ++ [(t, true)] ++ wrap ast_LOWEST i (body i) ++ [pl RB]
  end.

Definition toks (c : Z) (e : ex) : list mtok :=
  if paren c e then pl LP :: body e ++ [pl RP] else body e.

(* the argument list of a call, as the formatter prints it *)
Fixpoint arg_toks (l : list ex) : list mtok :=
  match l with
  | [] => []
  | a :: rest => toks ast_LOWEST a ++ match rest with [] => [] | _ => pl CM :: arg_toks rest end
  end.

(* well-formed fragment trees: token types as the parser dispatches them, literals consistent with the
   number oracle, and the one recorded finding of the fragment excluded (a + (b + c)) *)
Definition is_prefix_op (ty : Z) : bool :=
  match table_get prefix_fns ty with Some fn => String.eqb fn "parsePrefixExpression" | None => false end.
Definition is_bin_op (ty : Z) : bool :=
  match table_get infix_fns ty with Some fn => String.eqb fn "parseInfixExpression" | None => false end.

Definition has_prefix_fn (ty : Z) (fn : string) : bool :=
  match table_get prefix_fns ty with Some g => String.eqb g fn | None => false end.

Definition atom_wf (conv : numconv) (t : tok) (a : atom) : bool :=
  match a with
  | AId => Z.eqb (ttype t) token_IDENT
  | AInt v => Z.eqb (ttype t) token_INT && match conv_int conv (tlit t) with Some w => Z.eqb v w | None => false end
  | AFloat b => Z.eqb (ttype t) token_FLOAT && match conv_float conv (tlit t) with Some w => N.eqb b w | None => false end
  | AStr => Z.eqb (ttype t) token_STRING
  | ABool => Z.eqb (ttype t) token_TRUE || Z.eqb (ttype t) token_FALSE
  | ACtl => has_prefix_fn (ttype t) "parseControlExpression"
  end.

Fixpoint wf_ex (conv : numconv) (e : ex) : bool :=
  match e with
  | EAtom t a => atom_wf conv t a
  | EPre op r => is_prefix_op (ttype op) && wf_ex conv r
  | EBin op l r =>
    is_bin_op (ttype op) && wf_ex conv l && wf_ex conv r
    && negb (match r with EBin rop _ _ => is_plus op && is_plus rop | _ => false end)
  | ECall t f args => Z.eqb (ttype t) token_LPAREN && wf_ex conv f && forallb (wf_ex conv) args
  | EIndex t l i => Z.eqb (ttype t) token_LBRACKET && wf_ex conv l && wf_ex conv i
  end.

(* recognise the fragment inside the general tree type *)
Fixpoint of_node (n : node) : option ex :=
  match n with
  | NIdent t => Some (EAtom t AId)
  | NInt t v => Some (EAtom t (AInt v))
  | NFloat t b => Some (EAtom t (AFloat b))
  | NString t => Some (EAtom t AStr)
  | NBool t v => if Bool.eqb v (Z.eqb (ttype t) token_TRUE) then Some (EAtom t ABool) else None
  | NControl t => Some (EAtom t ACtl)
  | NPrefix op (Some r) => match of_node r with Some e => Some (EPre op e) | None => None end
  | NInfix op (Some l) (Some r) =>
    match of_node l, of_node r with Some a, Some b => Some (EBin op a b) | _, _ => None end
  | NCall t (Some f) (Some args) =>
    match of_node f,
          (fix go (l : list (option node)) : option (list ex) :=
             match l with
             | [] => Some []
             | Some a :: r => match of_node a, go r with Some e, Some es => Some (e :: es) | _, _ => None end
             | None :: _ => None
             end) args with
    | Some fe, Some es => Some (ECall t fe es)
    | _, _ => None
    end
  | NIndex t (Some l) (Some i) =>
    match of_node l, of_node i with Some a, Some b => Some (EIndex t a b) | _, _ => None end
  | _ => None
  end.

Definition plain_toks (l : list mtok) : list tok := map fst l.

(* the token sequence the theorem fragment_program_roundtrip speaks about, for a program that consists of
   one fragment expression; None when the program is not of that shape *)
Definition frag_tokens (conv : numconv) (stmts : list (option node)) : option (list tok) :=
  match stmts with
  | [Some n] =>
    match of_node n with
    | Some e => if wf_ex conv e then Some (plain_toks (body e)) else None
    | None => None
    end
  | _ => None
  end.

(* programs that are sequences of fragment expression statements.  [fresh_type]: the type-level part of the
   condition under which a following statement cannot continue the previous one (Roundtrip_expr.starts_fresh;
   an opening parenthesis additionally needs white space in front of it, which every print mode emits
   between statements) *)
Definition fresh_type (ty : Z) : bool :=
  match table_get postfix_fns ty with Some _ => false | None => true end
  && negb (Z.eqb ty token_LAMBDA)
  && (Z.leb (precedence_of ty) ast_LOWEST || Z.eqb ty token_LPAREN).

Fixpoint frag_exprs (conv : numconv) (stmts : list (option node)) : option (list ex) :=
  match stmts with
  | [] => Some []
  | Some n :: rest =>
    match of_node n, frag_exprs conv rest with
    | Some e, Some es => if wf_ex conv e then Some (e :: es) else None
    | _, _ => None
    end
  | None :: _ => None
  end.

(* None: not a fragment program; Some None: a fragment program outside the domain of the theorem (a
   following statement starts with a token that continues the previous statement: the recorded finding
   statement-starts-with-prefix-operator); Some (Some ts): the token sequence of the theorem *)
Definition frag_prog_tokens (conv : numconv) (stmts : list (option node)) : option (option (list tok)) :=
  match stmts, frag_exprs conv stmts with
  | _ :: _, Some es =>
    if forallb (fun e => match body e with t :: _ => fresh_type (ttype (fst t)) | [] => false end) (tl es)
    then Some (Some (List.concat (map (fun e => plain_toks (body e)) es)))
    else Some None
  | _, _ => None
  end.
