(* Model of object.Cmp / object.Equals / TypeEqual / areIntFloat (object/object.go), of the comparison
   operators of eval.evalInfixExpression and of the min / max extensions (extensions/extension.go).
   Executable Gallina, no proofs here.  Models the tree AFTER the two `fix:` commits of C12
   (Cmp total on RETURN/QUOTE/MACRO by Inspect() text; exact int64/float64 comparison).

   Numbers.  Every Integer and every Float denotes a point of the ordered carrier
       NaN  <  -Inf  <  exact rationals  <  +Inf          (cmp.Compare's order on float64: NaN first,
                                                            NaN = NaN, -0 = +0)
   [nkey_of_int] / [nkey_of_fl] give the point, [nkey_cmp] compares two points; Integer/Integer is
   Z.compare as in the code.  [cmp_int_float_go] is a second, code-shaped rendering of the repaired
   object.cmpIntFloat (NaN, range check, integral part, then fractional part); proofs/Cmp_proofs.v
   shows it equals the carrier comparison on every int64, and the driver prints both.

   Go failure modes are explicit: [GoPanic] is returned where Cmp panics (a type listed in the
   generated object_Cmp_panic_types) or where a Go type assertion would fail. *)
From Coq Require Import List ZArith NArith QArith Bool.
From GrolGen Require Import Gen_Consts Gen_Cmp.
From GrolModel Require Import Values.
Import ListNotations.
Local Close Scope Q_scope.
Local Open Scope Z_scope.

Inductive outcome (A : Type) : Type :=
| Val (a : A)
| GoPanic.
Arguments Val {A} a.
Arguments GoPanic {A}.

(* ---------------------------------------------------------------- numbers *)
Inductive nkey : Type := KNaN | KNegInf | KFin (q : Q) | KPosInf.

(* (-1)^neg * m * 2^e as an exact rational *)
Definition q_of_fin (neg : bool) (m : N) (e : Z) : Q :=
  let z := if neg then - Z.of_N m else Z.of_N m in
  match e with
  | Zneg p => Qmake z (Pos.pow 2 p)
  | _ => inject_Z (z * 2 ^ e)
  end.

Definition nkey_of_int (z : Z) : nkey := KFin (inject_Z z).

Definition nkey_of_fl (f : fl) : nkey :=
  match f with
  | FNaN => KNaN
  | FInf true => KNegInf
  | FInf false => KPosInf
  | FFin neg m e => KFin (q_of_fin neg m e)
  end.

Definition nrank (k : nkey) : Z :=
  match k with KNaN => 0 | KNegInf => 1 | KFin _ => 2 | KPosInf => 3 end.

Definition nkey_cmp (a b : nkey) : comparison :=
  match a, b with
  | KFin p, KFin q => Qcompare p q
  | _, _ => Z.compare (nrank a) (nrank b)
  end.

(* The repaired Go code, shape for shape:
     func cmpIntFloat(i int64, f float64) int {
        if f != f { return 1 }                       // NaN sorts first
        if f >= 0x1p63 { return -1 }                 // includes +Inf
        if f < -0x1p63 { return 1 }                  // includes -Inf
        t := math.Trunc(f)                           // now exactly an int64
        if c := cmp.Compare(i, int64(t)); c != 0 { return c }
        return cmp.Compare(0, f-t)                   // the fractional part decides
     }
   trunc and the fractional part of (-1)^neg * m * 2^e: *)
Definition fin_trunc (neg : bool) (m : N) (e : Z) : Z :=
  let a := match e with
           | Zneg p => Z.of_N m / 2 ^ (Zpos p)
           | _ => Z.of_N m * 2 ^ e
           end in
  if neg then - a else a.

(* sign of the fractional part f - trunc(f): Eq when integral, else Lt for negative f, Gt for positive f *)
Definition fin_frac_sign (neg : bool) (m : N) (e : Z) : comparison :=
  match e with
  | Zneg p => if Z.eqb (Z.of_N m mod 2 ^ (Zpos p)) 0 then Eq else if neg then Lt else Gt
  | _ => Eq
  end.

Definition two63 : Z := 9223372036854775808.

Definition cmp_int_float_go (i : Z) (f : fl) : comparison :=
  match f with
  | FNaN => Gt
  | FInf neg => if neg then Gt else Lt
  | FFin neg m e =>
      let t := fin_trunc neg m e in
      let fs := fin_frac_sign neg m e in
      if Z.leb two63 t then Lt                                   (* f >= 2^63 *)
      else if Z.ltb t (- two63) || (Z.eqb t (- two63) && match fs with Lt => true | _ => false end)
           then Gt                                                (* f < -2^63 *)
      else match Z.compare i t with
           | Eq => CompOpp fs                                     (* cmp.Compare(0, f-t) *)
           | c => c
           end
  end.

(* ---------------------------------------------------------------- strings, booleans, lists *)
(* Go string comparison: bytewise, a proper prefix is smaller *)
Fixpoint bytes_cmp (a b : list N) : comparison :=
  match a, b with
  | [], [] => Eq
  | [], _ :: _ => Lt
  | _ :: _, [] => Gt
  | x :: a', y :: b' => match N.compare x y with Eq => bytes_cmp a' b' | c => c end
  end.

Definition bool_cmp (a b : bool) : comparison :=
  if Bool.eqb a b then Eq else if a then Gt else Lt.

(* the loops `for i, l := range a1.Elements() { if c := Cmp(l, a2Els[i]); c != 0 { return c } }`;
   only ever called on lists of equal length (lengths are compared first); a length mismatch here
   would be Go's index-out-of-range *)
Section LexO.
  Context {A : Type} (f : A -> A -> outcome comparison).
  Fixpoint lex_o (la lb : list A) : outcome comparison :=
    match la, lb with
    | [], [] => Val Eq
    | x :: la', y :: lb' =>
        match f x y with
        | Val Eq => lex_o la' lb'
        | r => r
        end
    | _, _ => GoPanic
    end.
End LexO.

Definition cmp_panics (t : Z) : bool := existsb (Z.eqb t) object_Cmp_panic_types.

Definition are_int_float (a b : Z) : bool :=
  Z.eqb (Z.min a b) object_INTEGER && Z.eqb (Z.max a b) object_FLOAT.

Definition nat_cmp_then (n m : nat) (k : outcome comparison) : outcome comparison :=
  if Nat.ltb n m then Val Lt else if Nat.ltb m n then Val Gt else k.

(* func Cmp(ei, ej Object) int   (-1 / 0 / 1  =  Lt / Eq / Gt) *)
Fixpoint cmp (a b : value) {struct a} : outcome comparison :=
  let ti := type_of a in
  let tj := type_of b in
  if are_int_float ti tj then
    match a, b with
    | VInt x, VFloat f => Val (nkey_cmp (nkey_of_int x) (nkey_of_fl f))
    | VFloat f, VInt x => Val (nkey_cmp (nkey_of_fl f) (nkey_of_int x))
    | _, _ => GoPanic                      (* failing type assertion *)
    end
  else if Z.ltb ti tj then Val Lt
  else if Z.ltb tj ti then Val Gt
  else if cmp_panics ti then GoPanic
  else
    match a, b with
    | VInt x, VInt y => Val (Z.compare x y)
    | VFloat x, VFloat y => Val (nkey_cmp (nkey_of_fl x) (nkey_of_fl y))
    | VBool x, VBool y => Val (bool_cmp x y)
    | VNil, VNil => Val Eq
    | VStr x, VStr y => Val (bytes_cmp x y)
    | VTxt _ x, VTxt _ y => Val (bytes_cmp x y)
    | VArr x, VArr y => nat_cmp_then (length x) (length y) (lex_o cmp x y)
    | VMap x, VMap y =>
        nat_cmp_then (length x) (length y)
          (lex_o (fun p q => match cmp (fst p) (fst q) with
                             | Val Eq => cmp (snd p) (snd q)
                             | r => r
                             end) x y)
    | _, _ => GoPanic                      (* failing type assertion *)
    end.

(* func Equals(left, right Object) bool: TypeEqual (on dereferenced values: same ordinal) and Cmp == 0 *)
Definition equals (a b : value) : outcome bool :=
  if Z.eqb (type_of a) (type_of b) then
    match cmp a b with
    | Val Eq => Val true
    | Val _ => Val false
    | GoPanic => GoPanic
    end
  else Val false.

(* evalInfixExpression: > is Cmp == 1, < is Cmp == -1, >= is Cmp >= 0, <= is Cmp <= 0 *)
Definition omap {A B} (f : A -> B) (o : outcome A) : outcome B :=
  match o with Val a => Val (f a) | GoPanic => GoPanic end.
Definition op_gt (a b : value) : outcome bool := omap (fun c => match c with Gt => true | _ => false end) (cmp a b).
Definition op_lt (a b : value) : outcome bool := omap (fun c => match c with Lt => true | _ => false end) (cmp a b).
Definition op_ge (a b : value) : outcome bool := omap (fun c => match c with Lt => false | _ => true end) (cmp a b).
Definition op_le (a b : value) : outcome bool := omap (fun c => match c with Gt => false | _ => true end) (cmp a b).
Definition op_eq (a b : value) : outcome bool := equals a b.
Definition op_ne (a b : value) : outcome bool := omap negb (equals a b).

(* min / max extensions: minV := args[0]; for a in args[1:] { if Cmp(a, minV) < 0 { minV = a } } *)
Fixpoint vmin (cur : value) (rest : list value) : outcome value :=
  match rest with
  | [] => Val cur
  | a :: rest' =>
      match cmp a cur with
      | Val Lt => vmin a rest'
      | Val _ => vmin cur rest'
      | GoPanic => GoPanic
      end
  end.
Fixpoint vmax (cur : value) (rest : list value) : outcome value :=
  match rest with
  | [] => Val cur
  | a :: rest' =>
      match cmp a cur with
      | Val Gt => vmax a rest'
      | Val _ => vmax cur rest'
      | GoPanic => GoPanic
      end
  end.

(* the total three-way comparison used as key order by model/Maps.v.  The GoPanic branch cannot be
   taken: proofs/Cmp_proofs.v (cmp_never_panics) shows cmp always returns Val. *)
Definition cmp_c (a b : value) : comparison :=
  match cmp a b with Val c => c | GoPanic => Gt end.
