(* Audited classification of the panic-capable sites inventoried by gen/gen_panicsites.go
   (coq/gen/Gen_PanicSites.v, regenerated from /repo on every run).  No proofs here.

   Every generated entry (package, file, function, kind, count) must be matched by an audited entry with
   the same key and an audited count >= the generated one, or belong to a file whose total of that kind does not
   exceed the reviewed total (sites moved between functions of one file); [panic_sites_accounted] computes that.  A new
   panic-capable site in an unaudited function, a new kind of site in an audited function, or one more site
   of an audited kind than was reviewed makes it false, and the obligation C07 `panic_sites_accounted`
   (vm_compute) fails by name.  Removing sites never breaks it.

   Classes
     GuardedByModel : the operation and the checks in front of it are modelled in model/Arith.v or
                      model/Guards.v and the absence of a Go panic is a theorem (proofs/Arith_proofs.v)
     Unreachable    : cannot panic for any program text; the reason names the dominating check / invariant
                      that was read in the source (NOT machine-checked: decided by the C07 sweep and generators)
     ResourceGuard  : one of the two documented guards (max depth, memory budget)
     FrontEnd       : lexer / parser / printer code that runs before evaluation: covered by C08 / C16
     OtherProperty  : internal assertion owned by another property's model (register file C05, Cmp C12)  *)
From Coq Require Import List ZArith Bool String.
From GrolGen Require Import Gen_PanicSites.
Import ListNotations.
Local Open Scope string_scope.

Inductive pclass : Type := GuardedByModel | Unreachable | ResourceGuard | FrontEnd | OtherProperty.

Record audit : Type := A {
  a_pkg : string; a_file : string; a_fn : string; a_kind : string; a_count : Z;
  a_class : pclass; a_reason : string }.

Definition G := GuardedByModel.
Definition U := Unreachable.
Definition R := ResourceGuard.
Definition FE := FrontEnd.
Definition OP := OtherProperty.

Definition audited : list audit := [
  (* ---------------------------------------------------------------- ast/ast.go (printer; also reached by Inspect of functions/quotes) *)
  A "ast" "ast.go" "IfExpression.printElse" "indexc" 2 FE "Statements[0] after len(Statements)==1 on the same && chain";
  A "ast" "ast.go" "MapLiteral.PrettyPrint" "index" 2 FE "map lookups: Pairs[key] for key in Order (parser and Modify keep them in sync), Precedences[COLON]";
  A "ast" "ast.go" "PrefixExpression.PrettyPrint" "index" 1 FE "out.last[len-1] after out.last != """"";
  A "ast" "ast.go" "PrefixExpression.PrettyPrint" "indexc" 3 FE "lit[0] after lit != """" (short-circuit)";
  A "ast" "ast.go" "PrintState.Print" "indexc" 2 FE "s[0] after s != """" on the enclosing if";
  A "ast" "ast.go" "PrintState.Print" "repeat" 1 FE "strings.Repeat(tab, IndentLevel-1) only when IndentLevel > 1";
  A "ast" "ast.go" "PrintState.String" "assert" 1 FE "Out is the *strings.Builder installed by NewPrintState in every caller of String()";
  A "ast" "ast.go" "PrintState.needParen" "index" 1 FE "map lookup Precedences[type]";
  A "ast" "ast.go" "PrintState.needParen" "panic" 1 FE "precedence table total on infix/prefix/index tokens (C08 print_total, Gen_Prec)";
  (* ---------------------------------------------------------------- ast/modify.go *)
  A "ast" "modify.go" "Modify" "assert" 5 U "nc.(*Statements)/nb.(*Statements): none of the three callbacks (ModifyRegister, ExpandMacros, evalUnquoteCalls) replaces a *Statements; parameters use the checked form since f881ef4";
  A "ast" "modify.go" "Modify" "index" 14 U "indices range over len() of the slice just made with make(len) / map store / (fix 4ad1aa4) a comma-ok map lookup of the key that is stored on the next line: keys are node pointers, hashable";
  A "ast" "modify.go" "Modify" "panic" 1 U "key taken from node.Order is always in node.Pairs (parser/Modify insert both together)";
  A "ast" "priority_string.go" "Priority.String" "index" 2 FE "stringer: guarded by i >= len(_Priority_index)-1 test";
  A "ast" "priority_string.go" "Priority.String" "slice" 1 FE "stringer: offsets from the constant index table";
  A "ast" "priority_string.go" "_" "index" 14 FE "stringer compile-time constant checks, never executed with out of range";
  (* ---------------------------------------------------------------- eval/eval.go *)
  A "eval" "eval.go" "GetFloatValue" "assert" 3 U "each assertion under case o.Type() of that very type";
  A "eval" "eval.go" "Int64Value" "assert" 2 U "each assertion under case o.Type() of that very type";
  A "eval" "eval.go" "State.applyExtension" "assert" 2 G "f.(Extension) after Type()==EXTENSION; arg.(Integer) after Type()==INTEGER: Arith.validate_loop";
  A "eval" "eval.go" "State.applyExtension" "index" 5 G "args[l-1] after l>0; ArgTypes[i] after i < len(ArgTypes); args[i] with i from range args: Arith.apply_ext_validate";
  A "eval" "eval.go" "State.applyExtension" "slice" 1 G "args[:l-1] after l > 0";
  A "eval" "eval.go" "State.deleteMapEntry" "assert" 1 U "obj.(Map) after obj.Type()==MAP (only SmallMap/*BigMap have that type)";
  A "eval" "eval.go" "State.evalArrayInfixExpression" "slice" 1 U "leftVal[:len:len] full slice expression of its own length";
  A "eval" "eval.go" "State.evalAssignment" "assert" 2 U "Left.(*Identifier) under Value().Type()==IDENT, Left.(*Register) under REGISTER: only those node types carry these token types";
  A "eval" "eval.go" "State.evalBuiltin" "assert" 1 U "val.(Error) after rt == ERROR";
  A "eval" "eval.go" "State.evalBuiltin" "indexc" 3 U "Parameters[0] after argCheck (min 1 argument unless println, which tests minV > 0)";
  A "eval" "eval.go" "State.evalExpressions" "assert" 1 U "evaluated.(Error) after Type()==ERROR";
  A "eval" "eval.go" "State.evalFloatInfixExpression" "div" 1 U "float64 division: no panic in Go (Inf/NaN)";
  A "eval" "eval.go" "State.evalForExpression" "assert" 3 U "condition.(*Register)/(Integer) under the matching Type() case; nextEval.(ReturnValue) under Type()==RETURN";
  A "eval" "eval.go" "State.evalForInteger" "assert" 1 U "nextEval.(ReturnValue) under Type()==RETURN";
  A "eval" "eval.go" "State.evalForList" "assert" 1 U "nextEval.(ReturnValue) under Type()==RETURN";
  A "eval" "eval.go" "State.evalForSpecialForms" "assert" 4 U "Right.(*InfixExpression) under token COLON; v.(*Register)/(Integer) under the matching Type() case";
  A "eval" "eval.go" "State.evalIdentifier" "index" 1 U "map lookup Extensions[name]";
  A "eval" "eval.go" "State.evalIndexAssigment" "assert" 1 U "val.(Map) under Type()==MAP";
  A "eval" "eval.go" "State.evalIndexAssigment" "index" 1 G "elements[idx] after 0 <= idx < Len: Arith.index_assign";
  A "eval" "eval.go" "State.evalIndexExpression" "assert" 1 U "Index.(*InfixExpression) under token COLON";
  A "eval" "eval.go" "State.evalIndexExpressionIdx" "assert" 1 G "left.(String) under Type()==STRING";
  A "eval" "eval.go" "State.evalIndexExpressionIdx" "index" 1 G "str[idx] after the bounds test: Arith.index_expr";
  A "eval" "eval.go" "State.evalIndexRangeExpression" "assert" 1 G "left.(String) under case STRING";
  A "eval" "eval.go" "State.evalIndexRangeExpression" "slice" 2 G "str[l:r], Elements[l:r] after normalisation and clamp: Arith.index_range";
  A "eval" "eval.go" "State.evalIntegerInfixExpression" "div" 2 G "after rightVal == 0 test: Arith.int_infix";
  A "eval" "eval.go" "State.evalIntegerInfixExpression" "shift" 2 G "after rightVal < 0 test: Arith.int_infix";
  A "eval" "eval.go" "State.evalInternal" "assert" 1 U "f.(Extension) after f.Type()==EXTENSION";
  A "eval" "eval.go" "State.evalInternal" "index" 1 U "map lookup Extensions[name]";
  A "eval" "eval.go" "State.evalMapInfixExpression" "assert" 2 U "left/right.(Map) after both Type()==MAP in evalInfixExpression";
  A "eval" "eval.go" "State.evalMapLiteral" "index" 1 U "map lookup Pairs[keyNode]";
  A "eval" "eval.go" "State.evalMinusPrefixOperatorExpression" "assert" 3 U "under the matching Type() case";
  A "eval" "eval.go" "State.evalPipe" "assert" 1 U "left.(String) after left.Type()==STRING at the only call site";
  A "eval" "eval.go" "State.evalPrintLogError" "assert" 1 U "r.(String) after Type()==STRING";
  A "eval" "eval.go" "State.evalStringInfixExpression" "assert" 2 U "left.(String) after Type()==STRING in evalInfixExpression; right.(String) after Type()==STRING";
  A "eval" "eval.go" "State.evalStringInfixExpression" "repeat" 1 G "after rightVal < 0 test and MustBeOk on the overflow-checked size: Arith.string_repeat";
  A "eval" "eval.go" "State.extendFunctionEnv" "assert" 1 U "pval.(Integer) after Type()==INTEGER";
  A "eval" "eval.go" "State.extendFunctionEnv" "index" 4 U "args[len-1] after len(args) > 0; args[paramIdx] after len(args) == len(params)";
  A "eval" "eval.go" "State.extendFunctionEnv" "slice" 4 U "params[:n] with n = len-1 >= 0 (a variadic function has its .. parameter); args[:len-1] after len > 0; args[n:], args[:n] after len(args) >= n";
  A "eval" "eval.go" "ModifyRegister" "indexc" 1 U "Parameters[0] after len(Parameters) > 0 on the same && chain";
  A "eval" "eval.go" "evalArrayIndexExpression" "index" 1 G "Elements[idx] after 0 <= idx <= maxV: Arith.index_expr";
  A "eval" "eval.go" "evalMapIndexExpression" "assert" 1 U "assoc.(Map) after Type()==MAP at the only call site";
  A "eval" "eval_api.go" "State.Eval" "panic" 1 R "max depth guard: Guards.step GuardDepth";
  A "eval" "macro_expension.go" "State.DefineMacros" "assert" 1 U "programNode.(*Statements): ParseProgram always returns *Statements";
  A "eval" "macro_expension.go" "State.DefineMacros" "index" 1 U "Statements[i] with i < len tested by the loop condition";
  A "eval" "macro_expension.go" "State.DefineMacros" "slice" 2 U "Statements[:i], [i+1:] with i < len";
  A "eval" "macro_expension.go" "addMacro" "assert" 1 U "assign.Left.(*Identifier): isMacroDefinition requires an *Identifier on the left since 76a124e";
  A "eval" "macro_expension.go" "extendMacroEnv" "index" 1 U "args[paramIdx] after len(args) == len(macro.Parameters) in ExpandMacros";
  A "eval" "memo.go" "Cache.Get" "index" 2 U "key.Args[i] after len(args) <= MaxArgs; map lookup with a key whose dynamic types passed object.Hashable";
  A "eval" "memo.go" "Cache.Set" "index" 2 U "as Cache.Get";
  A "eval" "quote_unquote.go" "State.evalUnquoteCalls" "indexc" 1 U "Parameters[0] after len(Parameters) == 1";
  A "eval" "stack.go" "LimitStack" "make" 1 U "make(limit+1) with limit = 10";
  A "eval" "stack.go" "LimitStack" "slice" 2 U "stack[:limit], stack[len-limit:] after len(stack) > limit";
  A "eval" "stack.go" "State.Stack" "make" 2 U "make(0, 10), make(0, len(frames)) / make(0, 11): constants and an existing length";
  A "eval" "stack.go" "State.Stack" "slice" 2 U "frames[:half], frames[len-half:] after len(frames) > limit = 2*half";
  (* ---------------------------------------------------------------- lexer (front end) *)
  A "lexer" "lexer.go" "Lexer.CurrentLine" "slice" 2 FE "C08 error_line_in_bounds / C16 position invariants";
  A "lexer" "lexer.go" "Lexer.NextToken" "slice" 1 FE "input[start:] with start <= pos <= len (C16)";
  A "lexer" "lexer.go" "Lexer.peekChar" "index" 1 FE "input[pos] after pos < len test (C16)";
  A "lexer" "lexer.go" "Lexer.peekChar" "panic" 1 FE "pos never negative (C16 tiling invariant)";
  A "lexer" "lexer.go" "Lexer.readBlockComment" "slice" 1 FE "input[pos:l.pos] with pos <= l.pos <= len (C16)";
  A "lexer" "lexer.go" "Lexer.readIdentifier" "slice" 1 FE "as above";
  A "lexer" "lexer.go" "Lexer.readLineComment" "slice" 1 FE "as above";
  A "lexer" "lexer.go" "Lexer.readNumber" "slice" 7 FE "as above (errPos between pos and l.pos)";
  (* ---------------------------------------------------------------- object/interp.go (registration, start-up only) *)
  A "object" "interp.go" "AddIdentifier" "index" 1 U "map store";
  A "object" "interp.go" "CreateFunction" "index" 2 U "map lookup / store";
  A "object" "interp.go" "CreateFunction" "indexc" 2 U "dotSplit[0], [1] after len(dotSplit) == 2; start-up only";
  A "object" "interp.go" "IsExtraFunction" "index" 1 U "map lookup";
  A "object" "interp.go" "Unwrap" "index" 1 U "res[i] with i from range objs, res made with len(objs)";
  A "object" "interp.go" "isConstantAndExtraIdentifier" "index" 1 U "map lookup";
  (* ---------------------------------------------------------------- object/memory.go *)
  A "object" "memory.go" "MakeObjectSlice" "make" 1 G "after MustBeOk(n): Arith.make_object_slice (n >= 0 at every call site: lengths, checked products, lg >= 0)";
  A "object" "memory.go" "MustBeOk" "panic" 1 R "memory budget guard: Arith.must_be_ok";
  A "object" "memory.go" "SizeMul" "div" 1 G "MaxInt/a after a > 0: Arith.size_mul";
  (* ---------------------------------------------------------------- object/object.go *)
  A "object" "object.go" "BigArray.Less" "index" 2 U "sort.Sort indices are < Len()";
  A "object" "object.go" "BigArray.Swap" "index" 4 U "sort.Sort indices are < Len()";
  A "object" "object.go" "BigMap.Append" "make" 1 R "after MustBeOk(2*nl), nl = sum of two existing lengths";
  A "object" "object.go" "BigMap.Delete" "slice" 3 U "kv[idx:], kv[idx+1:], kv[:len-1] with idx a found position";
  A "object" "object.go" "BigMap.First" "indexc" 1 U "kv[0] after len(kv) == 0 test";
  A "object" "object.go" "BigMap.Range" "slice" 3 G "kv[l:r] with 0 <= l <= r <= Len from evalIndexRangeExpression: Arith.index_range (map case)";
  A "object" "object.go" "BigMap.Rest" "slice" 3 U "kv[1:] after len(kv) > 1";
  A "object" "object.go" "BigMap.Set" "index" 1 U "kv[i] with i found by BinarySearchFunc";
  A "object" "object.go" "BigMap.Unwrap" "index" 1 U "Go map store keyed by UnwrapHashable (basic value or string)";
  A "object" "object.go" "BigMap.get" "index" 1 U "kv[i] with i found by BinarySearchFunc";
  A "object" "object.go" "Cmp" "assert" 22 OP "each under the switch on the (equal) types: C12 cmp_never_panics";
  A "object" "object.go" "Cmp" "index" 3 OP "m2Els[i], a2Els[i] after equal Len(): C12";
  A "object" "object.go" "Cmp" "panic" 1 OP "REFERENCE/REGISTER dereferenced by Value() first; QUOTE/MACRO/RETURN: C12 (quote(1)==quote(2) repaired there)";
  A "object" "object.go" "Elements" "index" 2 U "res[i] with i from range, res made with that length";
  A "object" "object.go" "Elements" "make" 1 U "make(len of an existing map)";
  A "object" "object.go" "Elements" "slice" 1 U "smallKV[:len] with len <= MaxSmallMap";
  A "object" "object.go" "Error.Inspect" "indexc" 1 U "Stack[0] after len(Stack) == 1";
  A "object" "object.go" "Extension.Usage" "index" 2 U "ArgTypes[i-1] for i <= MinArgs <= len(ArgTypes) (checked by CreateFunction); ArgTypes[MinArgs] after len > MinArgs";
  A "object" "object.go" "First" "indexc" 2 U "after len == 0 tests";
  A "object" "object.go" "First" "slice" 1 U "[]rune(s)[:1] after s != """"";
  A "object" "object.go" "Function.lambdaPrint" "indexc" 1 U "Statements[0] after len(Statements) != 1 short-circuit";
  A "object" "object.go" "Hashable" "assert" 1 U "o.(Float) under case FLOAT";
  A "object" "object.go" "Identical" "assert" 8 U "(fix 865033d added a.(Function) / b.(Function) under case FUNC: only Function has type FUNC) a.(T) / b.(T) under case a.Type() of that very type after a.Type()==b.Type(); Type() is faithful to the Go type (REFERENCE and REGISTER are types of their own; only SmallMap/*BigMap have type MAP)";
  A "object" "object.go" "Identical" "index" 3 U "ae[i]/be[i] and am[i]/bm[i] with i from range over ae / am after len(ae)==len(be), len(am)==len(bm)";
  A "object" "object.go" "Hashable" "slice" 2 U "smallArr[:len], smallKV[:len] with len <= capacity by construction";
  A "object" "object.go" "lambdaBodyNeedsBraces" "index" 1 U "map lookup ast.Precedences[type]";
  A "object" "object.go" "MakePair" "indexc" 1 U "constant index into a fixed array";
  A "object" "object.go" "MakeQuad" "indexc" 2 U "constant index into a fixed array";
  A "object" "object.go" "NewMapSize" "make" 1 U "make(size = number of literal pairs)";
  A "object" "object.go" "Range" "slice" 3 U "each after an explicit l < 0 || r > len test";
  A "object" "object.go" "Reference.ObjValue" "index" 1 U "map lookup (comma-ok since dce865f)";
  A "object" "object.go" "Reference.ObjValue" "panic" 1 U "Self reference: makeRef / update never store a reference to its own (env, name)";
  A "object" "object.go" "Register.Int64" "index" 1 OP "registers[Idx], Idx < NumRegisters by MakeRegister: C05";
  A "object" "object.go" "Register.ObjValue" "index" 1 OP "as Register.Int64";
  A "object" "object.go" "Register.Ptr" "index" 1 OP "as Register.Int64";
  A "object" "object.go" "Rest" "slice" 3 U "each after a len <= 1 test";
  A "object" "object.go" "SmallArray.Elements" "slice" 1 U "smallArr[:len], len <= MaxSmallArray by NewArray";
  A "object" "object.go" "SmallArray.Inspect" "slice" 1 U "as above";
  A "object" "object.go" "SmallArray.JSON" "slice" 1 U "as above";
  A "object" "object.go" "SmallArray.Unwrap" "slice" 1 U "as above";
  A "object" "object.go" "SmallMap.Append" "make" 1 R "after MustBeOk(2*nl)";
  A "object" "object.go" "SmallMap.Append" "slice" 3 U "smallKV[:len] with len <= MaxSmallMap";
  A "object" "object.go" "SmallMap.Delete" "index" 3 U "i+1 < len <= MaxSmallMap; smallKV[len] after len-- (len < MaxSmallMap)";
  A "object" "object.go" "SmallMap.First" "indexc" 1 U "after len == 0 test";
  A "object" "object.go" "SmallMap.Inspect" "index" 2 U "i < len";
  A "object" "object.go" "SmallMap.JSON" "slice" 1 U "smallKV[:len]";
  A "object" "object.go" "SmallMap.Range" "slice" 1 G "smallKV[l:r] with 0 <= l <= r <= len <= 4: Arith.index_range (map case)";
  A "object" "object.go" "SmallMap.Rest" "slice" 2 U "after len <= 1 test";
  A "object" "object.go" "SmallMap.Set" "index" 4 U "positions < len after the len > MaxSmallMap switch to BigMap: C11";
  A "object" "object.go" "SmallMap.Set" "make" 1 U "make(0, len) with len = MaxSmallMap+1";
  A "object" "object.go" "SmallMap.Set" "slice" 2 U "smallKV[:i], [i:len-1] with i <= len-1 <= MaxSmallMap";
  A "object" "object.go" "SmallMap.Unwrap" "index" 1 U "Go map store keyed by UnwrapHashable";
  A "object" "object.go" "SmallMap.Unwrap" "make" 1 U "make(map, len)";
  A "object" "object.go" "SmallMap.Unwrap" "slice" 1 U "smallKV[:len]";
  A "object" "object.go" "SmallMap.get" "index" 2 U "i < len";
  A "object" "object.go" "SmallMap.mapElements" "slice" 1 U "smallKV[:len]";
  A "object" "object.go" "UnwrapStringKeys" "make" 1 U "make(map, len)";
  A "object" "object.go" "Value" "panic" 1 U "Too many references: makeRef stores the original reference, never a reference to a reference, so chains have length 1";
  (* ---------------------------------------------------------------- object/state.go *)
  A "object" "state.go" "Environment.Delete" "index" 1 U "map lookup";
  A "object" "state.go" "Environment.getStored" "index" 1 U "map lookup";
  A "object" "state.go" "Environment.Info" "index" 1 U "allKeys[e.depth-1] with allKeys = make(depth of the starting env); NewFunctionEnvironment sets depth = outer.depth+1, so depths strictly decrease along outer";
  A "object" "state.go" "Environment.Info" "make" 1 U "make(depth), make(len(store))";
  A "object" "state.go" "Environment.IsRef" "index" 1 U "map lookup";
  A "object" "state.go" "Environment.MakeRegister" "index" 1 OP "registers[numReg] after HasRegisters(): C05";
  A "object" "state.go" "Environment.MakeRegister" "panic" 1 OP "No more registers: C05 register-file balance";
  A "object" "state.go" "Environment.ReleaseRegister" "panic" 1 OP "non last register: C05 register-file balance";
  A "object" "state.go" "Environment.SaveGlobals" "assert" 1 U "v.(Function) after Type()==FUNC";
  A "object" "state.go" "Environment.SaveGlobals" "index" 2 U "map lookups e.store[k], e.store[f.Name.Literal()] (a missing key yields the zero value)";
  A "object" "state.go" "Environment.SetNoChecks" "index" 2 U "map lookup / store";
  A "object" "state.go" "Environment.create" "index" 1 U "map store";
  A "object" "state.go" "Environment.makeRef" "index" 3 U "map lookups / store";
  A "object" "state.go" "Environment.update" "index" 1 U "map store";
  A "object" "type_string.go" "Type.String" "index" 2 U "stringer: guarded by i >= len(_Type_index)-1";
  A "object" "type_string.go" "Type.String" "slice" 1 U "stringer: offsets from the constant index table";
  A "object" "type_string.go" "_" "index" 17 U "stringer compile-time constant checks";
  (* ---------------------------------------------------------------- parser (front end) *)
  A "parser" "parser.go" "Parser.ErrorLine" "repeat" 1 FE "strings.Repeat(space, max(0, errPos-1)): C08 error_line_in_bounds";
  A "parser" "parser.go" "Parser.curPrecedence" "index" 1 FE "map lookup";
  A "parser" "parser.go" "Parser.parseComment" "panic" 1 FE "C08 parse_never_panics";
  A "parser" "parser.go" "Parser.parseExpression" "index" 2 FE "map lookups of parse functions";
  A "parser" "parser.go" "Parser.parseIdentifier" "index" 1 FE "map lookup";
  A "parser" "parser.go" "Parser.parseMapLiteral" "index" 1 FE "map store";
  A "parser" "parser.go" "Parser.peekPrecedence" "index" 1 FE "map lookup";
  A "parser" "parser.go" "Parser.registerInfix" "index" 1 FE "map store";
  A "parser" "parser.go" "Parser.registerPostfix" "index" 1 FE "map store";
  A "parser" "parser.go" "Parser.registerPrefix" "index" 1 FE "map store";
  (* ---------------------------------------------------------------- repl *)
  A "repl" "completion.go" "AutoComplete.autoCompleteCallback" "indexc" 1 U "commands[0] after len(commands) == 0 test; interactive terminal only (C20)";
  A "repl" "completion.go" "AutoComplete.autoCompleteCallback" "slice" 2 U "line[:pos] with pos from the terminal; commands[0][:l] with l the common prefix length (C20)";
  A "repl" "repl.go" "EvalAll" "slice" 1 U "what[IndexByte+1:]: IndexByte >= -1 so the bound is in 0..len";
  A "repl" "repl.go" "Interactive" "index" 1 U "h[idx-1] after 1 <= idx <= len(h)";
  A "repl" "repl.go" "extractHistoryNumber" "indexc" 1 U "input[0] after len(input) > 1";
  A "repl" "repl.go" "extractHistoryNumber" "slice" 1 U "input[1:] after len(input) > 1"
].

Definition key_eqb (s : string * string * string * string * Z) (a : audit) : bool :=
  match s with
  | (pkg, file, fn, kind, n) =>
      String.eqb pkg (a_pkg a) && String.eqb file (a_file a) && String.eqb fn (a_fn a)
      && String.eqb kind (a_kind a) && Z.leb n (a_count a)
  end.

(* Second chance for an entry that has no audited entry of its own function: the sites of that kind reviewed in that FILE have
   only moved (a helper was extracted, a function renamed or split, two merged) when the file has, in total, no more sites of
   the kind than were reviewed.  An equivalent rewrite inside one file then keeps the obligation; one more site of a kind than
   the review saw in the file still breaks it.  (Sites are counted after the translator has dropped the forms that cannot
   panic, see gen/gen_panicsites.go; the audited counts are kept equal to the generated ones, so there is no slack.) *)
Definition gen_file_kind_total (pkg file kind : string) : Z :=
  fold_left (fun acc s => match s with
    | (p, f, _, k, n) => if String.eqb p pkg && String.eqb f file && String.eqb k kind then (acc + n)%Z else acc end) panic_sites 0%Z.
Definition aud_file_kind_total (pkg file kind : string) : Z :=
  fold_left (fun acc a =>
    if String.eqb (a_pkg a) pkg && String.eqb (a_file a) file && String.eqb (a_kind a) kind then (acc + a_count a)%Z else acc) audited 0%Z.
Definition moved_within_file (s : string * string * string * string * Z) : bool :=
  match s with
  | (pkg, file, _, kind, _) => Z.leb (gen_file_kind_total pkg file kind) (aud_file_kind_total pkg file kind)
  end.

(* Third chance: functions moved to another (possibly new) file of the same package - a file split, a regrouping - leave the
   PACKAGE total of the kind unchanged.  What the audit can notice is a site that was not there when the code was reviewed;
   with the counts kept exact, one more site of a kind anywhere in the package still makes the package total exceed the
   reviewed total, whatever the file and function it sits in. *)
Definition gen_pkg_kind_total (pkg kind : string) : Z :=
  fold_left (fun acc s => match s with
    | (p, _, _, k, n) => if String.eqb p pkg && String.eqb k kind then (acc + n)%Z else acc end) panic_sites 0%Z.
Definition aud_pkg_kind_total (pkg kind : string) : Z :=
  fold_left (fun acc a =>
    if String.eqb (a_pkg a) pkg && String.eqb (a_kind a) kind then (acc + a_count a)%Z else acc) audited 0%Z.
Definition moved_within_package (s : string * string * string * string * Z) : bool :=
  match s with
  | (pkg, _, _, kind, _) => Z.leb (gen_pkg_kind_total pkg kind) (aud_pkg_kind_total pkg kind)
  end.

Definition site_covered (s : string * string * string * string * Z) : bool :=
  existsb (key_eqb s) audited || moved_within_file s || moved_within_package s.

(* no slack: the review counts exactly the sites the translator finds on the audited tree *)
Definition audit_slack : list (string * string * string * Z * Z) :=
  flat_map (fun a =>
    let g := fold_left (fun acc s => match s with
      | (p, f, fn, k, n) => if String.eqb p (a_pkg a) && String.eqb f (a_file a) && String.eqb fn (a_fn a) && String.eqb k (a_kind a)
                            then (acc + n)%Z else acc end) panic_sites 0%Z in
    if Z.eqb g (a_count a) then [] else [(a_file a, a_fn a, a_kind a, a_count a, g)]) audited.

Definition unaccounted_sites : list (string * string * string * string * Z) :=
  filter (fun s => negb (site_covered s)) panic_sites.

Definition panic_sites_accounted : bool :=
  match unaccounted_sites with [] => true | _ => false end.

(* how many sites fall in each class (reported in the evidence through the OCaml driver) *)
Definition class_of (s : string * string * string * string * Z) : option pclass :=
  match find (key_eqb s) audited with Some a => Some (a_class a) | None => None end.
Definition count_class (c : pclass) : Z :=
  fold_left (fun acc s =>
    match s, class_of s with
    | (_, _, _, _, n), Some c' =>
        match c, c' with
        | GuardedByModel, GuardedByModel | Unreachable, Unreachable | ResourceGuard, ResourceGuard
        | FrontEnd, FrontEnd | OtherProperty, OtherProperty => (acc + n)%Z
        | _, _ => acc
        end
    | _, None => acc
    end) panic_sites 0%Z.
