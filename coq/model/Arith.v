(* Model of the evaluator's integer / index / size arithmetic with Go's failure modes explicit.
   Executable Gallina, NO proofs here.  Mirrors (after the fix: commits listed in notes/C07.md):

     eval/eval.go     evalIntegerInfixExpression, evalIndexRangeExpression, evalIndexExpressionIdx,
                      evalArrayIndexExpression, evalIndexAssigment (array case), evalStringInfixExpression (repeat),
                      evalArrayInfixExpression (repeat and concat), applyExtension (argument validation loop)
     object/memory.go SizeOk, MustBeOk, MakeObjectSlice, SizeMul

   Layering.  The section "Go primitives" says what the Go operation itself does, including the run-time
   panic it raises when its precondition fails (these are facts about Go, never about grol).  The evaluator
   functions are transliterations of the Go functions that CALL those primitives after whatever checks
   the Go source performs; whether a GoPanic can come out is therefore a theorem (proofs/Arith_proofs.v),
   not a definition.  The [_pinned] variants are the code as it was before the repairs; they are kept
   for the refutation witnesses.

   int64 is Z with an explicit [wrap64]; `int` is identified with int64 (64-bit platform, the translator
   evaluates bits.UintSize as 64).  The memory budget [free] is the value FreeMemory() returns
   (GOMEMLIMIT - HeapAlloc), a parameter of every function that consults the guard. *)
From Coq Require Import List ZArith Bool.
From GrolGen Require Import Gen_Consts.
Import ListNotations.
Local Open Scope Z_scope.

Inductive panic_kind : Type :=
| PDivZero          (* runtime error: integer divide by zero *)
| PNegShift         (* runtime error: negative shift amount *)
| PSliceBounds      (* runtime error: slice bounds out of range *)
| PIndexRange       (* runtime error: index out of range *)
| PMakeSlice        (* runtime error: makeslice: len/cap out of range *)
| PRepeatCount      (* strings: negative Repeat count *)
| PRepeatOverflow.  (* strings: Repeat output length overflow *)

Inductive guard_kind : Type := GMaxDepth | GMemory.

Inductive outcome (A : Type) : Type :=
| Val (a : A)
| LangError                 (* an object.Error value: a language-level error *)
| GoPanic (k : panic_kind)  (* a Go run-time panic that is not one of the two documented guards *)
| Guard (g : guard_kind).   (* panic("max depth ...") / panic("would exceed memory ...") *)
Arguments Val {A} a.
Arguments LangError {A}.
Arguments GoPanic {A} k.
Arguments Guard {A} g.

Definition bind {A B} (o : outcome A) (f : A -> outcome B) : outcome B :=
  match o with
  | Val a => f a
  | LangError => LangError
  | GoPanic k => GoPanic k
  | Guard g => Guard g
  end.

Definition is_go_panic {A} (o : outcome A) : bool :=
  match o with GoPanic _ => true | _ => false end.

(* ------------------------------------------------------------------ 64-bit integers *)
Definition two63 : Z := 9223372036854775808.
Definition two64 : Z := 18446744073709551616.
Definition min_int : Z := - two63.
Definition max_int : Z := two63 - 1.
Definition in_int64 (z : Z) : Prop := min_int <= z <= max_int.
Definition in_int64b (z : Z) : bool := (min_int <=? z) && (z <=? max_int).
Definition wrap64 (z : Z) : Z := (z + two63) mod two64 - two63.
(* uint64(x) of an int64 *)
Definition to_u64 (z : Z) : Z := z mod two64.

(* ------------------------------------------------------------------ Go primitives *)
(* heapAddrBits = 48 on linux/amd64: makeslice panics when elemsize*cap > maxAlloc or cap < 0 *)
Definition max_alloc : Z := 281474976710656.

Definition go_quo (a b : Z) : outcome Z :=
  if b =? 0 then GoPanic PDivZero else Val (wrap64 (Z.quot a b)).   (* min_int / -1 wraps to min_int *)
Definition go_rem (a b : Z) : outcome Z :=
  if b =? 0 then GoPanic PDivZero else Val (Z.rem a b).
Definition go_shl (a n : Z) : outcome Z :=
  if n <? 0 then GoPanic PNegShift else Val (if 64 <=? n then 0 else wrap64 (a * 2 ^ n)).
(* int64(uint64(a) >> n) *)
Definition go_shr_u (a n : Z) : outcome Z :=
  if n <? 0 then GoPanic PNegShift else Val (if 64 <=? n then 0 else wrap64 (to_u64 a / 2 ^ n)).
(* make([]Object, 0, cap) *)
Definition go_make_objs (cap : Z) : outcome unit :=
  if (cap <? 0) || (max_alloc <? cap * object_ObjectSize) then GoPanic PMakeSlice else Val tt.
(* x[lo:hi] on a string / slice of length (= capacity here) len *)
Definition go_slice (len lo hi : Z) : outcome (Z * Z) :=
  if (0 <=? lo) && (lo <=? hi) && (hi <=? len) then Val (lo, hi) else GoPanic PSliceBounds.
(* x[i] *)
Definition go_index (len i : Z) : outcome Z :=
  if (0 <=? i) && (i <? len) then Val i else GoPanic PIndexRange.
(* strings.Repeat(s, count) with len(s) = len: the length of the result *)
Definition go_repeat (len count : Z) : outcome Z :=
  if count <? 0 then GoPanic PRepeatCount
  else if max_int <? len * count then GoPanic PRepeatOverflow
  else Val (len * count).

(* ------------------------------------------------------------------ object/memory.go *)
Definition small_size : Z := 256.   (* "no checks for small slices" *)

(* SizeOk after the repair: int64(n) < free/ObjectSize *)
Definition size_ok (free n : Z) : bool :=
  (n <=? small_size) || ((0 <=? free) && (n <? Z.quot free object_ObjectSize)).
(* SizeOk as pinned: (int64(n) * ObjectSize) < free, the product wraps *)
Definition size_ok_pinned (free n : Z) : bool :=
  (n <=? small_size) || ((0 <=? free) && (wrap64 (n * object_ObjectSize) <? free)).

(* MustBeOk: [free] stands for the better of the two readings (before / after runtime.GC()) *)
Definition must_be_ok (free n : Z) : outcome unit :=
  if size_ok free n then Val tt else Guard GMemory.
Definition must_be_ok_pinned (free n : Z) : outcome unit :=
  if size_ok_pinned free n then Val tt else Guard GMemory.

Definition make_object_slice (free n : Z) : outcome unit :=
  bind (must_be_ok free n) (fun _ => go_make_objs n).
Definition make_object_slice_pinned (free n : Z) : outcome unit :=
  bind (must_be_ok_pinned free n) (fun _ => go_make_objs n).

(* SizeMul(a, b): a*b, or MaxInt when the product does not fit *)
Definition size_mul (a b : Z) : Z :=
  if (0 <? a) && (Z.quot max_int a <? b) then max_int else wrap64 (a * b).

(* ------------------------------------------------------------------ evalIntegerInfixExpression *)
Inductive iop : Type :=
| IAdd | ISub | IMul | IDiv | IMod | IShl | IShr | IAnd | IOr | IXor | IRange | IUnknown.

(* by token type ordinal (Gen_Consts: regenerated from token/token.go) *)
Definition iop_of_token (t : Z) : iop :=
  if t =? token_PLUS then IAdd else if t =? token_MINUS then ISub
  else if t =? token_ASTERISK then IMul else if t =? token_SLASH then IDiv
  else if t =? token_PERCENT then IMod else if t =? token_LEFTSHIFT then IShl
  else if t =? token_RIGHTSHIFT then IShr else if t =? token_BITAND then IAnd
  else if t =? token_BITOR then IOr else if t =? token_BITXOR then IXor
  else if t =? token_COLON then IRange else IUnknown.

Inductive ires : Type :=
| RInt (z : Z)
| RRange (lo hi : Z).     (* the array [lo, lo+1, .., hi-1] *)

Definition ret_int (o : outcome Z) : outcome ires := bind o (fun z => Val (RInt z)).

Definition int_infix (free : Z) (op : iop) (a b : Z) : outcome ires :=
  match op with
  | IAdd => Val (RInt (wrap64 (a + b)))
  | ISub => Val (RInt (wrap64 (a - b)))
  | IMul => Val (RInt (wrap64 (a * b)))
  | IDiv => if b =? 0 then LangError else ret_int (go_quo a b)
  | IMod => if b =? 0 then LangError else ret_int (go_rem a b)
  | IShl => if b <? 0 then LangError else ret_int (go_shl a b)
  | IShr => if b <? 0 then LangError else ret_int (go_shr_u a b)
  | IAnd => Val (RInt (Z.land a b))
  | IOr => Val (RInt (Z.lor a b))
  | IXor => Val (RInt (Z.lxor a b))
  | IRange =>
      let lg := wrap64 (b - a) in
      if (lg <? 0) || (b <? a) then LangError
      else bind (make_object_slice free lg) (fun _ => Val (RRange a b))
  | IUnknown => LangError
  end.

Definition int_infix_pinned (free : Z) (op : iop) (a b : Z) : outcome ires :=
  match op with
  | IDiv => ret_int (go_quo a b)
  | IMod => ret_int (go_rem a b)
  | IShl => ret_int (go_shl a b)
  | IShr => ret_int (go_shr_u a b)
  | IRange =>
      let lg := wrap64 (b - a) in
      if lg <? 0 then LangError
      else bind (make_object_slice_pinned free lg) (fun _ => Val (RRange a b))
  | _ => int_infix free op a b
  end.

(* ------------------------------------------------------------------ index and range index *)
Inductive ckind : Type := CString | CArray | CMap | CNil | COther.

(* object.Len: -1 for values that have no length *)
Definition obj_len (k : ckind) (len : Z) : Z :=
  match k with COther => -1 | CNil => 0 | _ => len end.

(* an index operand after evaluation *)
Inductive idxv : Type := XInt (z : Z) | XNil | XOther.
(* the right bound of x[l:r] *)
Inductive rbound : Type := RAbsent | RBound (v : idxv).

Inductive sres : Type := SRange (lo hi : Z) | SNull.

Definition is_int_idx (v : idxv) : bool := match v with XInt _ => true | _ => false end.
(* Int64Value: (-1, false) for non integers *)
Definition int64_value (v : idxv) : Z := match v with XInt z => z | _ => -1 end.

Definition index_range_gen (clamp : bool) (k : ckind) (len : Z) (l : idxv) (r : rbound) : outcome sres :=
  let r_int := match r with RAbsent => true | RBound v => is_int_idx v end in
  if negb (is_int_idx l && r_int) then LangError else
  let num := obj_len k len in
  let l0 := int64_value l in
  let l1 := if l0 <? 0 then wrap64 (num + l0) else l0 in
  let r1 := match r with
            | RAbsent => num
            | RBound v => let r0 := int64_value v in if r0 <? 0 then wrap64 (num + r0) else r0
            end in
  if r1 <? l1 then LangError else
  let l2 := if clamp then Z.max (Z.min l1 num) 0 else Z.min l1 num in
  let r2 := if clamp then Z.max (Z.min r1 num) 0 else Z.min r1 num in
  match k with
  | CString | CArray | CMap => bind (go_slice len l2 r2) (fun p => Val (SRange (fst p) (snd p)))
  | CNil => Val SNull
  | COther => LangError
  end.

Definition index_range := index_range_gen true.          (* evalIndexRangeExpression, repaired *)
Definition index_range_pinned := index_range_gen false.  (* as pinned: no lower clamp *)

Inductive xres : Type := XElem (i : Z) | XNull | XMapLookup.

(* evalIndexExpressionIdx (+ evalArrayIndexExpression) *)
Definition index_expr (k : ckind) (len : Z) (i : idxv) : outcome xres :=
  let is_int := match i with XOther => false | _ => true end in
  let idx := match i with XNil => 0 | XInt z => z | XOther => -1 end in
  match k with
  | CString =>
      if is_int then
        let idx1 := if idx <? 0 then wrap64 (len + idx) else idx in
        if (idx1 <? 0) || (len <=? idx1) then Val XNull
        else bind (go_index len idx1) (fun j => Val (XElem j))
      else LangError
  | CArray =>
      if is_int then
        let maxv := len - 1 in
        let idx1 := if idx <? 0 then wrap64 (maxv + 1 + idx) else idx in
        if (idx1 <? 0) || (maxv <? idx1) then Val XNull
        else bind (go_index len idx1) (fun j => Val (XElem j))
      else LangError
  | CMap => Val XMapLookup
  | CNil => Val XNull
  | COther => LangError
  end.

(* evalIndexAssigment, array case: the element position that is written *)
Definition index_assign (len : Z) (i : idxv) : outcome Z :=
  match i with
  | XInt idx =>
      let idx1 := if idx <? 0 then wrap64 (len + idx) else idx in
      if (idx1 <? 0) || (len <=? idx1) then LangError else go_index len idx1
  | _ => LangError
  end.

(* ------------------------------------------------------------------ repeat / concat *)
(* "s" * r : length of the result *)
Definition string_repeat (free len r : Z) : outcome Z :=
  let n := size_mul len r in
  if r <? 0 then LangError
  else bind (must_be_ok free (Z.quot n object_ObjectSize)) (fun _ => go_repeat len r).
Definition string_repeat_pinned (free len r : Z) : outcome Z :=
  let n := wrap64 (len * r) in
  if r <? 0 then LangError
  else bind (must_be_ok_pinned free (Z.quot n object_ObjectSize)) (fun _ => go_repeat len r).

(* [..] * r : number of elements appended by the `for range rightVal` loop *)
Definition array_repeat (free len r : Z) : outcome Z :=
  if r <? 0 then LangError
  else if len =? 0 then Val 0          (* nothing to repeat: returns the (empty) left operand, no loop *)
  else bind (make_object_slice free (size_mul len r)) (fun _ => Val (len * r)).
Definition array_repeat_pinned (free len r : Z) : outcome Z :=
  if r <? 0 then LangError
  else bind (make_object_slice_pinned free (wrap64 (len * r))) (fun _ => Val (len * r)).

(* "s" + "t" : MustBeOk((len(s)+len(t))/ObjectSize) since d1518d2 (no check at all as pinned) *)
Definition string_concat (free l1 l2 : Z) : outcome Z :=
  bind (must_be_ok free (Z.quot (wrap64 (l1 + l2)) object_ObjectSize)) (fun _ => Val (l1 + l2)).
Definition string_concat_pinned (free l1 l2 : Z) : outcome Z := Val (l1 + l2).

(* [..] + x for a non-array x : MustBeOk(len+1) since d373dd4 (no check as pinned: the append copies the whole left operand) *)
Definition array_append_elem (free l : Z) : outcome Z :=
  bind (must_be_ok free (wrap64 (l + 1))) (fun _ => Val (l + 1)).
Definition array_append_elem_pinned (free l : Z) : outcome Z := Val (l + 1).

(* [..] + [..] *)
Definition array_concat (free l1 l2 : Z) : outcome Z :=
  bind (must_be_ok free (wrap64 (l1 + l2))) (fun _ => Val (l1 + l2)).

(* ------------------------------------------------------------------ applyExtension validation *)
(* an argument as applyExtension sees it: its Type() ordinal, the Type() of what object.Value() yields
   (differs only for REFERENCE), and, for an array, the (ty, under) of its elements (used by the expansion
   of a trailing array for MaxArgs = -1) *)
Record earg : Type := mk_earg { ea_ty : Z; ea_under : Z; ea_elems : list (Z * Z) }.

Definition earg_of_elem (p : Z * Z) : earg := mk_earg (fst p) (snd p) [].

Fixpoint last_opt {A} (l : list A) : option A :=
  match l with [] => None | [x] => Some x | _ :: l' => last_opt l' end.

Definition expand_variadic (maxa : Z) (args : list earg) : list earg :=
  if maxa =? -1 then
    match last_opt args with
    | Some a => if ea_ty a =? object_ARRAY then removelast args ++ map earg_of_elem (ea_elems a) else args
    | None => args
    end
  else args.

(* the `for i, arg := range args` loop: returns the (possibly promoted / dereferenced) arguments *)
Fixpoint validate_loop (types : list Z) (args : list earg) : outcome (list earg) :=
  match args with
  | [] => Val []
  | a :: args' =>
    match types with
    | [] => Val (a :: args')                                   (* i >= len(ArgTypes): break *)
    | t :: types' =>
      if t =? object_ANY then bind (validate_loop types' args') (fun r => Val (a :: r))
      else
        let ty := ea_under a in                                  (* arg = object.Value(arg) *)
        if (t =? object_FLOAT) && (ty =? object_INTEGER) then
          bind (validate_loop types' args') (fun r => Val (mk_earg object_FLOAT object_FLOAT [] :: r))
        else if t =? ty then
          bind (validate_loop types' args') (fun r => Val (mk_earg ty ty (ea_elems a) :: r))
        else LangError
    end
  end.

Definition apply_ext_validate (mina maxa : Z) (types : list Z) (args : list earg) : outcome (list earg) :=
  let args1 := expand_variadic maxa args in
  let l := Z.of_nat (length args1) in
  if l <? mina then LangError
  else if negb (maxa =? -1) && (maxa <? l) then LangError
  else validate_loop types args1.
