(* Syntax trees of /repo/ast/ast.go as a Gallina inductive (shared by Parser, Printer, Eval, Macro).
   A child is an [option] exactly where the Go field can hold nil after a parse that reported an
   error or asked for a continuation (the parser model keeps those paths).
   Tokens are (type ordinal, literal bytes); ordinals come from the generated Gen_Consts.v. *)
From Coq Require Import List ZArith NArith Bool.
Import ListNotations.

Definition byte := N.
Definition bytes := list N.

Record tok : Type := mkTok { ttype : Z; tlit : bytes }.

Definition tok_eqb (a b : tok) : bool :=
  Z.eqb (ttype a) (ttype b) &&
  (fix eq (x y : bytes) : bool :=
     match x, y with
     | [], [] => true
     | p :: x', q :: y' => N.eqb p q && eq x' y'
     | _, _ => false
     end) (tlit a) (tlit b).

Inductive node : Type :=
| NIdent    (t : tok)                                          (* ast.Identifier (also `..`) *)
| NInt      (t : tok) (v : Z)                                   (* ast.IntegerLiteral, Val int64 *)
| NFloat    (t : tok) (bits : N)                                (* ast.FloatLiteral, Val as IEEE-754 bits *)
| NString   (t : tok)                                           (* ast.StringLiteral (value = literal) *)
| NBool     (t : tok) (v : bool)                                (* ast.Boolean *)
| NComment  (t : tok) (same_prev same_next : bool)              (* ast.Comment *)
| NControl  (t : tok)                                           (* ast.ControlExpression: break / continue *)
| NReturn   (t : tok) (v : option node)                         (* ast.ReturnStatement *)
| NStmts    (l : list (option node))                            (* ast.Statements (token is nil) *)
| NPrefix   (t : tok) (right : option node)                     (* ast.PrefixExpression *)
| NPostfix  (t : tok) (prev : tok)                              (* ast.PostfixExpression *)
| NInfix    (t : tok) (left right : option node)                (* ast.InfixExpression *)
| NFor      (t : tok) (cond : option node) (body : option node) (* ast.ForExpression; body is an NStmts *)
| NIf       (t : tok) (cond csq alt : option node)             (* ast.IfExpression *)
| NBuiltin  (t : tok) (params : option (list (option node)))    (* ast.Builtin; None = nil slice after a failed list *)
| NFunc     (t : tok) (name : option tok) (params : option (list (option node))) (body : option node)
            (variadic is_lambda : bool)                         (* ast.FunctionLiteral *)
| NCall     (t : tok) (fn : option node) (args : option (list (option node)))  (* ast.CallExpression *)
| NArray    (t : tok) (elems : option (list (option node)))     (* ast.ArrayLiteral *)
| NIndex    (t : tok) (left idx : option node)                  (* ast.IndexExpression, `[` or `.` *)
| NMap      (t : tok) (pairs : list (option node * option node))(* ast.MapLiteral: Order with Pairs[key] *)
| NMacro    (t : tok) (params : option (list (option node))) (body : option node). (* ast.MacroLiteral *)

(* the token of a node (Go: n.Value()); Statements has a nil token *)
Definition node_tok (n : node) : option tok :=
  match n with
  | NIdent t | NInt t _ | NFloat t _ | NString t | NBool t _ | NComment t _ _ | NControl t
  | NReturn t _ | NPrefix t _ | NPostfix t _ | NInfix t _ _ | NFor t _ _ | NIf t _ _ _
  | NBuiltin t _ | NFunc t _ _ _ _ _ | NCall t _ _ | NArray t _ | NIndex t _ _ | NMap t _
  | NMacro t _ _ => Some t
  | NStmts _ => None
  end.
