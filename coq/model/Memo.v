(* Memo.v - executable model of grol's automatic memoization MECHANISM (C04).

   What is modelled (faithful to /repo as it is after the C04 `fix:` commits):
     eval/memo.go      Cache.Get / Cache.Set: key = function text + at most MaxArgs hashable arguments,
                       Go map-key equality on the arguments ([value_goeq]: +0 = -0, NaN <> NaN),
                       object.Hashable ([hashable]: -0 and NaN are not hashable, References are not,
                       arrays only when small and made of hashable elements, functions never);
     eval/eval.go      applyFunction: cache lookup BEFORE the arity check, per-call output buffer written once to
                       the caller's writer, before/after comparison of the new frame's miss counter, propagation of a
                       miss to the caller (TriggerNoCache on the caller's frame), errors not cached, results that
                       are or contain functions not cached, Cache.Set; evalDelete: TriggerNoCache + ResetCache;
                       applyExtension: DontCache => TriggerNoCache; print/log/error builtins
                       (log writes to LogOut directly: it is NOT captured in the per-call buffer);
     object/state.go   Environment.Get / makeRef / SetNoChecks / update / Delete / NewFunctionEnvironment:
                       which lookups create References, which of them count as misses (constants and functions
                       found in the ROOT environment do not; anything found in an enclosing function's frame does;
                       every write through a reference does), same-closure recursion parenting on the caller frame
                       (a definition index stands for one function literal: the harness shares equal literals).
   The miss counter of a frame is only ever compared "moved / did not move" for the frame of the running call,
   so it is threaded functionally: every evaluation returns the number of misses it added to the CURRENT frame
   ([r_miss]); the counter at any time is [before + r_miss].  The cantCache flag is no longer read by the
   evaluator (every miss propagates) and is not modelled.

   Variadic functions (last parameter "..") and catch(e).err are modelled ([call_shape], [ECatchErr]).
   The programs are a small expression language (the generator of harness/cmd/C04 prints it as grol source);
   function literals refer to a definition table [fdef] whose [fd_key] is the REAL cache key text computed by
   object.SetCacheKey on the parsed literal.  Registers are not modelled (C05 says they are unobservable).
   No proofs in this file. *)
From Coq Require Import List ZArith NArith Bool Arith.
From GrolGen Require Import Gen_Consts.
Import ListNotations.

Definition byte := N.
Definition bytes := list byte.
Definition ident := bytes.

Fixpoint bytes_eqb (a b : bytes) : bool :=
  match a, b with
  | [], [] => true
  | x :: a', y :: b' => N.eqb x y && bytes_eqb a' b'
  | _, _ => false
  end.

(* ---- object.Constant: all-caps identifiers (digits and '_' allowed after the first character) ---- *)
Fixpoint constant_tail (s : bytes) : bool :=
  match s with
  | [] => true
  | c :: s' =>
      (if N.eqb c 95 || (N.leb 48 c && N.leb c 57) then true else N.leb 65 c && N.leb c 90) && constant_tail s'
  end.
Definition constant_name (s : bytes) : bool :=
  match s with
  | [] => true
  | c :: s' => N.leb 65 c && N.leb c 90 && constant_tail s'
  end.

(* ---- values ---- *)
(* floats: the two zeros, NaN, whole numbers z.0 and halves z + 1/2 (enough for key equality and printing) *)
Inductive fl := FPosZero | FNegZero | FNaN | FWhole (z : Z) | FHalf (z : Z).

Inductive value :=
| VInt (z : Z)
| VFlt (f : fl)
| VStr (s : bytes)
| VBool (b : bool)
| VNil
| VArr (l : list value)
| VFun (d env : nat)      (* definition index, captured frame *)
| VErr (m : bytes).

Definition fl_num (f : fl) : option Z :=      (* twice the value *)
  match f with
  | FPosZero | FNegZero => Some 0%Z
  | FNaN => None
  | FWhole z => Some (2 * z)%Z
  | FHalf z => Some (2 * z + 1)%Z
  end.
(* Go == on float64 *)
Definition fl_goeq (a b : fl) : bool :=
  match fl_num a, fl_num b with
  | Some x, Some y => Z.eqb x y
  | _, _ => false
  end.
(* object.Hashable on a Float after the repair: not NaN, not -0 *)
Definition fl_hashable (f : fl) : bool :=
  match f with
  | FNaN | FNegZero => false
  | FWhole z => negb (Z.eqb z 0)     (* 0.0 is written FPosZero; FWhole 0 is not a canonical form *)
  | _ => true
  end.

(* Go == on the interface values used as cache-key slots (only ever applied to hashable values) *)
Fixpoint value_goeq (a b : value) : bool :=
  match a, b with
  | VInt x, VInt y => Z.eqb x y
  | VFlt f, VFlt g => fl_goeq f g
  | VStr s, VStr t => bytes_eqb s t
  | VBool x, VBool y => Bool.eqb x y
  | VNil, VNil => true
  | VArr l, VArr m =>
      (fix go (l m : list value) : bool :=
         match l, m with
         | [], [] => true
         | x :: l', y :: m' => value_goeq x y && go l' m'
         | _, _ => false
         end) l m
  | _, _ => false
  end.
Fixpoint values_goeq (l m : list value) : bool :=
  match l, m with
  | [], [] => true
  | x :: l', y :: m' => value_goeq x y && values_goeq l' m'
  | _, _ => false
  end.

Fixpoint hashable (v : value) : bool :=
  match v with
  | VInt _ | VStr _ | VBool _ | VNil => true
  | VFlt f => fl_hashable f
  | VArr l => (Z.leb (Z.of_nat (length l)) object_MaxSmallArray)
              && (fix all (l : list value) : bool := match l with [] => true | x :: l' => hashable x && all l' end) l
  | VFun _ _ | VErr _ => false
  end.

(* object.HasFunction *)
Fixpoint has_function (v : value) : bool :=
  match v with
  | VFun _ _ => true
  | VArr l => (fix any (l : list value) : bool := match l with [] => false | x :: l' => has_function x || any l' end) l
  | _ => false
  end.

Definition is_err (v : value) : bool := match v with VErr _ => true | _ => false end.
Definition is_fun (v : value) : bool := match v with VFun _ _ => true | _ => false end.

(* ---- printing (Inspect / print form) ---- *)
Fixpoint digits (fuel : nat) (n : N) (acc : bytes) : bytes :=
  match fuel with
  | O => acc
  | S f => let acc' := (48 + N.modulo n 10)%N :: acc in
           if N.eqb (N.div n 10) 0 then acc' else digits f (N.div n 10) acc'
  end.
Definition dec_N (n : N) : bytes := digits (S (N.to_nat (N.log2 n))) n [].
Definition dec_Z (z : Z) : bytes :=
  if Z.ltb z 0 then 45%N :: dec_N (Z.to_N (- z)) else dec_N (Z.to_N z).

Definition inspect_fl (f : fl) : bytes :=
  match f with
  | FPosZero => [48%N]
  | FNegZero => [45%N; 48%N]
  | FNaN => [78%N; 97%N; 78%N]
  | FWhole z => dec_Z z
  | FHalf z => (if Z.ltb z 0 then 45%N :: dec_N (Z.to_N (- z - 1)) else dec_N (Z.to_N z)) ++ [46%N; 53%N]
  end.

Fixpoint join (sep : bytes) (l : list bytes) : bytes :=
  match l with
  | [] => []
  | [x] => x
  | x :: l' => x ++ sep ++ join sep l'
  end.

(* Inspect; None for values whose text is not modelled (functions, errors) *)
Fixpoint inspect (v : value) : option bytes :=
  match v with
  | VInt z => Some (dec_Z z)
  | VFlt f => Some (inspect_fl f)
  | VStr s => Some (34%N :: s ++ [34%N])
  | VBool true => Some [116%N; 114%N; 117%N; 101%N]
  | VBool false => Some [102%N; 97%N; 108%N; 115%N; 101%N]
  | VNil => Some [110%N; 105%N; 108%N]
  | VArr l =>
      match (fix all (l : list value) : option (list bytes) :=
               match l with
               | [] => Some []
               | x :: l' => match inspect x, all l' with Some a, Some b => Some (a :: b) | _, _ => None end
               end) l with
      | Some parts => Some (91%N :: join [44%N] parts ++ [93%N])
      | None => None
      end
  | VFun _ _ | VErr _ => None
  end.
(* what print() writes for one argument: strings raw, everything else Inspect *)
Definition print_form (v : value) : option bytes :=
  match v with
  | VStr s => Some s
  | _ => inspect v
  end.

(* ---- programs ---- *)
Inductive binop := OAdd | OSub | OLt.
Inductive extk := XRand1 | XTimePos.        (* rand(1)  /  (time.now()>0) : DontCache extensions with a fixed value *)

Inductive expr :=
| ELit (v : value)                    (* literal *)
| EVar (x : ident)                    (* identifier (also `self`) *)
| EAssign (x : ident) (e : expr)      (* x = e *)
| EFun (d : nat)                      (* function literal = definition d; a named one binds its name *)
| ECall (f : expr) (args : list expr)
| EArr (es : list expr)               (* [e1,...] *)
| EBin (o : binop) (a b : expr)
| EIf (c a b : expr)                  (* if c {a} else {b} *)
| ESeq (a b : expr)                   (* a  b  (statement sequence) *)
| EPrint (es : list expr)             (* print(e1,...) *)
| ELog (s : bytes)                    (* log("s") *)
| EError (s : bytes)                  (* error("s") *)
| EExt (k : extk)
| EDel (x : ident)                    (* del(x) *)
| ECatchErr (e : expr).               (* catch(e).err *)

Record fdef := mkDef {
  fd_key : bytes;                (* object.Function.CacheKey: compact print without the name *)
  fd_name : option ident;
  fd_params : list ident;
  fd_body : expr }.

(* ---- environments ---- *)
Inductive cell := CVal (v : value) | CRef (x : ident) (env : nat).
Record frame := mkFrame {
  fr_store : list (ident * cell);
  fr_outer : option nat;
  fr_depth : nat;
  fr_fn : option (nat * nat);     (* the function running in this frame: definition, captured frame *)
  fr_key : bytes }.               (* Environment.cacheKey *)
Definition heap := list frame.

Record centry := mkCe { ce_key : bytes; ce_args : list value; ce_res : value; ce_out : bytes }.
Record state := mkState { st_heap : heap; st_cache : list centry }.

Definition root_frame : frame := mkFrame [] None 0 None [].
Definition init_state : state := mkState [root_frame] [].

(* ---- event log (tree shaped: the events of a call's body are nested in the call node) ---- *)
Inductive disp :=
| DHit          (* served from the cache *)
| DStored       (* result remembered *)
| DOff          (* would have been remembered, but the cache is switched off *)
| DMiss         (* the frame's miss counter moved: not remembered, caller poisoned *)
| DErr          (* error result: not remembered *)
| DFun          (* result is or contains a function: not remembered *)
| DKey          (* more than MaxArgs arguments or an unhashable one: Cache.Set returns early *)
| DSetup.       (* wrong number of arguments / constant parameter clash: body not run *)
Inductive poison := PExt | PDel.
Inductive event :=
| EvAccess (x : ident) (counted : bool)    (* lookup or write through a reference to an outer binding *)
| EvPoison (p : poison)                    (* DontCache extension, del *)
| EvCall (key : bytes) (args : list value) (inner : list event) (before after : nat) (res : value) (out : bytes) (d : disp).

(* ---- results ---- *)
Inductive outcome := OVal (v : value) | OStuck | OFuel.
Record res := mkRes {
  r_oc : outcome;
  r_ref : bool;            (* the Go value is an object.Reference (identifier resolved up-stack) *)
  r_out : bytes;           (* written to the current s.Out *)
  r_log : bytes;           (* written to s.LogOut *)
  r_tr : list event;
  r_miss : nat }.          (* misses added to the current frame *)

Definition val_res (v : value) : res := mkRes (OVal v) false [] [] [] 0.
Definition stuck_res : res := mkRes OStuck false [] [] [] 0.
Definition fuel_res : res := mkRes OFuel false [] [] [] 0.
(* r1 happened, then r2: outcome of r2 *)
Definition then_res (r1 r2 : res) : res :=
  mkRes (r_oc r2) (r_ref r2) (r_out r1 ++ r_out r2) (r_log r1 ++ r_log r2) (r_tr r1 ++ r_tr r2) (r_miss r1 + r_miss r2).
Definition with_oc (r : res) (o : outcome) (isref : bool) : res :=
  mkRes o isref (r_out r) (r_log r) (r_tr r) (r_miss r).

Definition b2n (b : bool) : nat := if b then 1 else 0.

(* ---- store helpers ---- *)
Fixpoint find_cell (s : list (ident * cell)) (x : ident) : option cell :=
  match s with
  | [] => None
  | (y, c) :: s' => if bytes_eqb y x then Some c else find_cell s' x
  end.
Fixpoint put_cell (s : list (ident * cell)) (x : ident) (c : cell) : list (ident * cell) :=
  match s with
  | [] => [(x, c)]
  | (y, c0) :: s' => if bytes_eqb y x then (y, c) :: s' else (y, c0) :: put_cell s' x c
  end.
Fixpoint remove_cell (s : list (ident * cell)) (x : ident) : list (ident * cell) :=
  match s with
  | [] => []
  | (y, c0) :: s' => if bytes_eqb y x then s' else (y, c0) :: remove_cell s' x
  end.
Fixpoint update_nth {A} (l : list A) (i : nat) (f : A -> A) : list A :=
  match l, i with
  | [], _ => []
  | a :: l', O => f a :: l'
  | a :: l', S i' => a :: update_nth l' i' f
  end.
Definition with_store (f : frame) (s : list (ident * cell)) : frame :=
  mkFrame s (fr_outer f) (fr_depth f) (fr_fn f) (fr_key f).
Definition set_cell (h : heap) (e : nat) (x : ident) (c : cell) : heap :=
  update_nth h e (fun f => with_store f (put_cell (fr_store f) x c)).
Definition del_cell (h : heap) (e : nat) (x : ident) : heap :=
  update_nth h e (fun f => with_store f (remove_cell (fr_store f) x)).
Definition depth_of (h : heap) (e : nat) : nat :=
  match nth_error h e with Some f => fr_depth f | None => 0 end.
Definition deref (h : heap) (x : ident) (e : nat) : option value :=
  match nth_error h e with
  | Some f => match find_cell (fr_store f) x with Some (CVal v) => Some v | _ => None end
  | None => None
  end.

Definition self_name : ident := [115%N; 101%N; 108%N; 102%N].
Definition info_name : ident := [105%N; 110%N; 102%N; 111%N].
Definition dots_name : ident := [46%N; 46%N].       (* ".." : the variadic parameter and the array bound to it *)

(* does the miss counter move?  (makeRef / Get after the repairs) *)
Definition counted (h : heap) (x : ident) (e : nat) (obj : option value) : bool :=
  negb (Nat.eqb (depth_of h e) 0)
  || (negb (constant_name x) && negb (match obj with Some v => is_fun v | None => false end)).

(* makeRef's walk up the `outer` chain *)
Inductive walk_result := WFound (x : ident) (e : nat) | WNone | WStuck.
Fixpoint walk (fuel : nat) (h : heap) (e : nat) (x : ident) : walk_result :=
  match fuel with
  | O => WStuck
  | S f =>
      match nth_error h e with
      | None => WStuck
      | Some fe =>
          match fr_outer fe with
          | None => WNone
          | Some o =>
              match nth_error h o with
              | None => WStuck
              | Some fo =>
                  match find_cell (fr_store fo) x with
                  | None => walk f h o x
                  | Some (CVal _) => WFound x o
                  | Some (CRef x' e') => WFound x' e'
                  end
              end
          end
      end
  end.

Definition own_name (defs : list fdef) (f : frame) (x : ident) : bool :=
  match fr_fn f with
  | Some (d, _) => match nth_error defs d with
                   | Some fd => match fd_name fd with Some n => bytes_eqb n x | None => false end
                   | None => false
                   end
  | None => false
  end.

(* Environment.Get *)
Inductive get_result :=
| GFound (v : value) (isref : bool) (h : heap) (dm : nat) (evs : list event)
| GNotFound
| GStuck.
Definition get (defs : list fdef) (h : heap) (fr : nat) (x : ident) : get_result :=
  if bytes_eqb x info_name then GStuck else
  match nth_error h fr with
  | None => GStuck
  | Some f =>
      if bytes_eqb x self_name then
        match fr_fn f with Some (d, e) => GFound (VFun d e) false h 0 [] | None => GNotFound end
      else if own_name defs f x then
        match fr_fn f with Some (d, e) => GFound (VFun d e) false h 0 [] | None => GStuck end
      else
        match find_cell (fr_store f) x with
        | Some (CVal v) => GFound v false h 0 []
        | Some (CRef x' e') =>
            match deref h x' e' with
            | None => GStuck
            | Some v => let c := counted h x' e' (Some v) in GFound v true h (b2n c) [EvAccess x c]
            end
        | None =>
            match fr_outer f with
            | None => GNotFound
            | Some _ =>
                match walk (length h) h fr x with
                | WNone => GNotFound
                | WStuck => GStuck
                | WFound x' e' =>
                    match deref h x' e' with
                    | None => GStuck
                    | Some v => let c := counted h x e' (Some v) in
                                GFound v true (set_cell h fr x (CRef x' e')) (b2n c) [EvAccess x c]
                    end
                end
            end
        end
  end.

Definition set_heap (st : state) (h : heap) : state := mkState h (st_cache st).
Definition err_msg : bytes := [101%N].

(* Environment.SetNoChecks(name, val, create=false) *)
Definition set_nochecks (st : state) (fr : nat) (x : ident) (v : value) : res * state :=
  let h := st_heap st in
  match nth_error h fr with
  | None => (stuck_res, st)
  | Some f =>
      match find_cell (fr_store f) x with
      | Some (CRef x' e') =>   (* update through the reference: always a miss *)
          (mkRes (OVal v) false [] [] [EvAccess x true] 1, set_heap st (set_cell h e' x' (CVal v)))
      | Some (CVal _) => (val_res v, set_heap st (set_cell h fr x (CVal v)))
      | None =>
          match fr_outer f with
          | None => (val_res v, set_heap st (set_cell h fr x (CVal v)))
          | Some _ =>
              match walk (length h) h fr x with
              | WStuck => (stuck_res, st)
              | WNone => (val_res v, set_heap st (set_cell h fr x (CVal v)))
              | WFound x' e' =>
                  let c := counted h x e' (deref h x' e') in
                  let h1 := set_cell h fr x (CRef x' e') in
                  (mkRes (OVal v) false [] [] [EvAccess x c; EvAccess x true] (b2n c + 1),
                   set_heap st (set_cell h1 e' x' (CVal v)))
              end
          end
      end
  end.

(* Environment.CreateOrSet(name, val, create=false): constants can only be set once (to an equal value) *)
Definition assign (defs : list fdef) (st : state) (fr : nat) (x : ident) (v : value) : res * state :=
  if constant_name x then
    match get defs (st_heap st) fr x with
    | GStuck => (stuck_res, st)
    | GNotFound => set_nochecks st fr x v
    | GFound old isref h' dm evs =>
        let st' := set_heap st h' in
        let pre := mkRes (OVal VNil) false [] [] evs dm in
        if isref || negb (value_goeq old v) then (with_oc pre (OVal (VErr err_msg)) false, st')
        else let (r, st'') := set_nochecks st' fr x v in (then_res pre r, st'')
    end
  else set_nochecks st fr x v.

(* Environment.Delete: removes the first entry found along the outer chain *)
Fixpoint del_walk (fuel : nat) (h : heap) (e : nat) (x : ident) : option heap :=
  match fuel with
  | O => None
  | S f =>
      match nth_error h e with
      | None => None
      | Some fe =>
          match find_cell (fr_store fe) x with
          | Some _ => Some (del_cell h e x)
          | None => match fr_outer fe with Some o => del_walk f h o x | None => None end
          end
      end
  end.

(* ---- the cache ---- *)
Definition arg_hashable (a : value * bool) : bool := negb (snd a) && hashable (fst a).
Definition key_ok (args : list (value * bool)) : bool :=
  Z.leb (Z.of_nat (length args)) eval_MaxArgs && forallb arg_hashable args.
Definition ce_match (key : bytes) (vals : list value) (ce : centry) : bool :=
  bytes_eqb (ce_key ce) key && values_goeq (ce_args ce) vals.
Definition cache_get (c : list centry) (key : bytes) (args : list (value * bool)) : option (value * bytes) :=
  if key_ok args then
    match find (ce_match key (map fst args)) c with
    | Some ce => Some (ce_res ce, ce_out ce)
    | None => None
    end
  else None.
Fixpoint cache_put (c : list centry) (n : centry) : list centry :=
  match c with
  | [] => [n]
  | ce :: c' => if ce_match (ce_key n) (ce_args n) ce then n :: c' else ce :: cache_put c' n
  end.

(* ---- evaluation ---- *)
Definition err_res : res := val_res (VErr err_msg).

(* NewFunctionEnvironment: a call is a self-recursive call (and is then parented on the CALLING frame, grol issue 47)
   when the callee is the same closure as the function running in the calling frame: same literal, same captured
   environment (it used to compare the key text; Environment.cacheKey is now only informative) *)
Definition same_fn (cur : frame) (d envd : nat) : bool :=
  match fr_fn cur with
  | Some (d', e') => Nat.eqb d' d && Nat.eqb e' envd
  | None => false
  end.

(* extendFunctionEnv, the shape of a call.  A function whose last parameter is ".." is variadic: a last argument that
   is an array is spread (into a COPY of the argument list: the caller's list stays the cache key), the first n
   arguments are bound to the n named parameters and the rest becomes the array "..".
   None = wrong number of arguments. *)
Definition is_variadic (ps : list ident) : bool :=
  match rev ps with p :: _ => bytes_eqb p dots_name | [] => false end.
Definition spread_last (vals : list value) : list value :=
  match rev vals with VArr l :: rest => rev rest ++ l | _ => vals end.
Definition call_shape (ps : list ident) (args : list (value * bool))
  : option (list ident * list value * option value * list (value * bool)) :=
  let vals := map fst args in
  if is_variadic ps then
    let n := length ps - 1 in
    let v1 := spread_last vals in
    if Nat.ltb (length v1) n then None
    else
      (* the 4th component is the caller's argument list as Cache.Set sees it afterwards: when nothing was spread,
         "extra" aliases its tail and derefAll(extra) replaces the References in it by their values *)
      let sargs := match rev vals with
                   | VArr _ :: _ => args
                   | _ => firstn n args ++ map (fun a => (fst a, false)) (skipn n args)
                   end in
      Some (firstn n ps, firstn n v1, Some (VArr (skipn n v1)), sargs)
  else if Nat.eqb (length vals) (length ps) then Some (ps, vals, None, args) else None.

Section WithEval.
  (* the evaluator with one unit of fuel less *)
  Variable ev : state -> nat -> expr -> res * state.
  Variable on : bool.
  Variable defs : list fdef.

  (* evalExpressions: left to right, stop at the first error; each value with its is-a-Reference flag *)
  Fixpoint eval_list (st : state) (fr : nat) (es : list expr) : res * list (value * bool) * state :=
    match es with
    | [] => (val_res VNil, [], st)
    | e :: es' =>
        let (r, st1) := ev st fr e in
        match r_oc r with
        | OVal v =>
            if is_err v then (r, [], st1)
            else
              let '(r2, vs, st2) := eval_list st1 fr es' in
              (then_res r r2, (v, r_ref r) :: vs, st2)
        | _ => (r, [], st1)
        end
    end.

  (* parameter creation in extendFunctionEnv: CreateOrSet(param, value, create=true) *)
  Inductive bind_result := BOk (before : nat) (tr : list event) (st : state) | BErr (before : nat) (tr : list event) (st : state) | BStuck.
  Fixpoint bind_params (st : state) (n : nat) (ps : list ident) (vs : list value) (before : nat) (tr : list event) : bind_result :=
    match ps, vs with
    | p :: ps', v :: vs' =>
        if constant_name p then
          match get defs (st_heap st) n p with
          | GStuck => BStuck
          | GNotFound => bind_params (set_heap st (set_cell (st_heap st) n p (CVal v))) n ps' vs' before tr
          | GFound old isref h' dm evs =>
              if isref || negb (value_goeq old v) then BErr (before + dm) (tr ++ evs) (set_heap st h')
              else bind_params (set_heap st (set_cell h' n p (CVal v))) n ps' vs' (before + dm) (tr ++ evs)
          end
        else bind_params (set_heap st (set_cell (st_heap st) n p (CVal v))) n ps' vs' before tr
    | _, _ => BOk before tr st
    end.

  (* applyFunction *)
  Definition apply_fn (st : state) (fr : nat) (fv : value) (args : list (value * bool)) : res * state :=
    match fv with
    | VFun d envd =>
        match nth_error defs d with
        | None => (stuck_res, st)
        | Some fd =>
            let key := fd_key fd in
            let vals := map fst args in
            match (if on then cache_get (st_cache st) key args else None) with
            | Some (v, o) =>
                (mkRes (OVal v) false o [] [EvCall key vals [] 0 0 v o DHit] 0, st)
            | None =>
                match nth_error (st_heap st) fr with
                | None => (stuck_res, st)
                | Some cur =>
                    let parent := if same_fn cur d envd then fr else envd in
                    match nth_error (st_heap st) parent with
                    | None => (stuck_res, st)
                    | Some pf =>
                        match call_shape (fd_params fd) args with
                        | None =>
                          (mkRes (OVal (VErr err_msg)) false [] [] [EvCall key vals [] 0 0 (VErr err_msg) [] DSetup] 0, st)
                        | Some (ps, pvals, dots, sargs) =>
                          let n := length (st_heap st) in
                          let newf := mkFrame [] (Some parent) (S (fr_depth pf)) (Some (d, envd)) key in
                          let st1 := set_heap st (st_heap st ++ [newf]) in
                          match bind_params st1 n ps pvals 0 [] with
                          | BStuck => (stuck_res, st1)
                          | BErr before tr st2 =>
                              (mkRes (OVal (VErr err_msg)) false [] [] [EvCall key vals tr before before (VErr err_msg) [] DSetup] 0, st2)
                          | BOk before tr st2a =>
                              let st2 := match dots with
                                         | Some dv => set_heap st2a (set_cell (st_heap st2a) n dots_name (CVal dv))
                                         | None => st2a
                                         end in
                              let (rb, st3) := ev st2 n (fd_body fd) in
                              match r_oc rb with
                              | OVal v =>
                                  let after := before + r_miss rb in
                                  let node := EvCall key vals (tr ++ r_tr rb) before after v (r_out rb) in
                                  if negb (Nat.eqb after before) then
                                    (* the caller's result depends on it too: TriggerNoCache on the caller's frame *)
                                    (mkRes (OVal v) false (r_out rb) (r_log rb) [node DMiss] 1, st3)
                                  else if is_err v then
                                    (mkRes (OVal v) false (r_out rb) (r_log rb) [node DErr] 0, st3)
                                  else if has_function v then
                                    (mkRes (OVal v) false (r_out rb) (r_log rb) [node DFun] 0, st3)
                                  else if negb (key_ok sargs) then
                                    (mkRes (OVal v) false (r_out rb) (r_log rb) [node DKey] 0, st3)
                                  else if on then
                                    (mkRes (OVal v) false (r_out rb) (r_log rb) [node DStored] 0,
                                     mkState (st_heap st3) (cache_put (st_cache st3) (mkCe key vals v (r_out rb))))
                                  else
                                    (mkRes (OVal v) false (r_out rb) (r_log rb) [node DOff] 0, st3)
                              | _ => (rb, st3)
                              end
                          end
                        end
                    end
                end
            end
        end
    | _ => (err_res, st)      (* not a function *)
    end.
End WithEval.

Definition notfound_res : res := err_res.

Fixpoint all_some {A} (l : list (option A)) : option (list A) :=
  match l with
  | [] => Some []
  | Some a :: l' => match all_some l' with Some r => Some (a :: r) | None => None end
  | None :: _ => None
  end.

Definition bin_op (o : binop) (a b : value) : outcome :=
  match o, a, b with
  | OAdd, VInt x, VInt y => OVal (VInt (x + y))
  | OAdd, VStr s, VStr t => OVal (VStr (s ++ t))
  | OAdd, VArr l, VArr m => OVal (VArr (l ++ m))            (* array + array concatenates *)
  | OAdd, VArr l, VErr _ => OStuck
  | OAdd, VArr l, v => OVal (VArr (l ++ [v]))               (* array + anything else appends it *)
  | OSub, VInt x, VInt y => OVal (VInt (x - y))
  (* a function value as an operand of + or - is a grol error ("no PLUS on left=.. right=..") *)
  | OAdd, VFun _ _, _ | OSub, VFun _ _, _ => OVal (VErr err_msg)
  | OAdd, VInt _, VFun _ _ | OSub, VInt _, VFun _ _ | OAdd, VStr _, VFun _ _ => OVal (VErr err_msg)
  | OAdd, VInt _, VArr _ => OVal (VErr err_msg)             (* 1+[2]: "no PLUS on left=1 right=[2]" *)
  | OLt, VInt x, VInt y => OVal (VBool (Z.ltb x y))
  | _, _, _ => OStuck
  end.

Fixpoint eval (fuel : nat) (on : bool) (defs : list fdef) (st : state) (fr : nat) (e : expr) {struct fuel} : res * state :=
  match fuel with
  | O => (fuel_res, st)
  | S f =>
      let ev := eval f on defs in
      match e with
      | ELit v => (val_res v, st)
      | EVar x =>
          match get defs (st_heap st) fr x with
          | GFound v isref h' dm evs => (mkRes (OVal v) isref [] [] evs dm, set_heap st h')
          | GNotFound =>   (* evalIdentifier: identifier not found; that the name is unbound is outer state too *)
              (mkRes (OVal (VErr err_msg)) false [] [] [EvAccess x true] 1, st)
          | GStuck => (stuck_res, st)
          end
      | EAssign x e1 =>
          let (r1, st1) := ev st fr e1 in
          match r_oc r1 with
          | OVal v =>
              if is_err v then (with_oc r1 (OVal v) false, st1)
              else let (r2, st2) := assign defs st1 fr x v in (then_res r1 r2, st2)
          | _ => (r1, st1)
          end
      | EFun d =>
          match nth_error defs d with
          | None => (stuck_res, st)
          | Some fd =>
              match fd_name fd with
              | None => (val_res (VFun d fr), st)
              | Some n =>
                  let (r, st1) := assign defs st fr n (VFun d fr) in
                  match r_oc r with
                  | OVal v => if is_err v then (r, st1) else (with_oc r (OVal (VFun d fr)) false, st1)
                  | _ => (r, st1)
                  end
              end
          end
      | ECall fe args =>
          let (rf, st1) := ev st fr fe in
          match r_oc rf with
          | OVal fv =>
              if is_err fv then (with_oc rf (OVal fv) false, st1)
              else
                let '(ra, vals, st2) := eval_list ev st1 fr args in
                match r_oc ra with
                | OVal av =>
                    if is_err av then (with_oc (then_res rf ra) (OVal av) false, st2)
                    else
                      let (rc, st3) := apply_fn ev on defs st2 fr fv vals in
                      (then_res (then_res rf ra) rc, st3)
                | _ => (then_res rf ra, st2)
                end
          | _ => (rf, st1)
          end
      | EArr es =>
          let '(ra, vals, st1) := eval_list ev st fr es in
          match r_oc ra with
          | OVal av => if is_err av then (with_oc ra (OVal av) false, st1)
                       else (with_oc ra (OVal (VArr (map fst vals))) false, st1)
          | _ => (ra, st1)
          end
      | EBin o a b =>
          let (r1, st1) := ev st fr a in
          match r_oc r1 with
          | OVal v1 =>
              if is_err v1 then (with_oc r1 (OVal v1) false, st1)
              else
                let (r2, st2) := ev st1 fr b in
                match r_oc r2 with
                | OVal v2 =>
                    if is_err v2 then (with_oc (then_res r1 r2) (OVal v2) false, st2)
                    else (with_oc (then_res r1 r2) (bin_op o v1 v2) false, st2)
                | _ => (then_res r1 r2, st2)
                end
          | _ => (r1, st1)
          end
      | EIf c a b =>
          let (rc, st1) := ev st fr c in
          match r_oc rc with
          | OVal (VBool t) =>    (* the condition is dereferenced (object.Value) before the test *)
              let (rb, st2) := ev st1 fr (if t then a else b) in (then_res rc rb, st2)
          | OVal _ => (with_oc rc (OVal (VErr err_msg)) false, st1)              (* condition is not a boolean *)
          | _ => (rc, st1)
          end
      | ESeq a b =>
          let (r1, st1) := ev st fr a in
          match r_oc r1 with
          | OVal v1 => if is_err v1 then (r1, st1)
                       else let (r2, st2) := ev st1 fr b in (then_res r1 r2, st2)
          | _ => (r1, st1)
          end
      | EPrint es =>
          let '(ra, vals, st1) := eval_list ev st fr es in
          match r_oc ra with
          | OVal av =>
              if is_err av then (with_oc ra (OVal av) false, st1)
              else
                match all_some (map (fun p => print_form (fst p)) vals) with
                | Some parts => (then_res ra (mkRes (OVal VNil) false (join [32%N] parts) [] [] 0), st1)
                | None => (with_oc ra OStuck false, st1)
                end
          | _ => (ra, st1)
          end
      | ELog s => (mkRes (OVal VNil) false [] (s ++ [10%N]) [] 0, st)
      | EError s => (val_res (VErr s), st)
      | EExt k =>
          (mkRes (OVal (match k with XRand1 => VInt 0 | XTimePos => VBool true end)) false [] [] [EvPoison PExt] 1, st)
      | ECatchErr e1 =>      (* catch(e).err : an error becomes a plain (cacheable) value *)
          let (r1, st1) := ev st fr e1 in
          match r_oc r1 with
          | OVal v => (with_oc r1 (OVal (VBool (is_err v))) false, st1)
          | _ => (r1, st1)
          end
      | EDel x =>
          (* TriggerNoCache, ResetCache, Environment.Delete *)
          match del_walk (length (st_heap st)) (st_heap st) fr x with
          | Some h' => (mkRes (OVal (VBool true)) false [] [] [EvPoison PDel] 1, mkState h' [])
          | None => (mkRes (OVal (VBool false)) false [] [] [EvPoison PDel] 1, mkState (st_heap st) [])
          end
      end
  end.

(* ---- REPL histories: each input is evaluated in the root frame of one persistent state ---- *)
Fixpoint run (on : bool) (fuel : nat) (defs : list fdef) (st : state) (inputs : list expr) : list (res * state) :=
  match inputs with
  | [] => []
  | e :: rest => let (r, st') := eval fuel on defs st 0 e in (r, st') :: run on fuel defs st' rest
  end.

(* what a user can observe of one input: result, printed bytes, logged bytes *)
Definition obs_of (p : res * state) : outcome * bytes * bytes := (r_oc (fst p), r_out (fst p), r_log (fst p)).
(* ... and without the log stream *)
Definition obs_nolog (p : res * state) : outcome * bytes := (r_oc (fst p), r_out (fst p)).
Definition in_domain (l : list (res * state)) : bool :=
  forallb (fun p => match r_oc (fst p) with OVal _ => true | _ => false end) l.
(* no input ran out of fuel *)
Definition finished (l : list (res * state)) : bool :=
  forallb (fun p => match r_oc (fst p) with OFuel => false | _ => true end) l.

(* ---- the fragment on which cache on/off provably agree ---- *)
Fixpoint mem_ident (x : ident) (l : list ident) : bool :=
  match l with [] => false | y :: l' => bytes_eqb y x || mem_ident x l' end.

(* a closed body: only its parameters, calls of itself (own name or self), arithmetic, if, sequences, print, error *)
Fixpoint closed_expr (self : ident -> bool) (params : list ident) (e : expr) : bool :=
  match e with
  | ELit v => negb (has_function v)
  | EVar x => mem_ident x params
  | ECall (EVar x) args =>
      self x && negb (mem_ident x params) && negb (bytes_eqb x info_name)
      && (fix all (l : list expr) : bool := match l with [] => true | a :: l' => closed_expr self params a && all l' end) args
  | EArr es | EPrint es =>
      (fix all (l : list expr) : bool := match l with [] => true | a :: l' => closed_expr self params a && all l' end) es
  | EBin _ a b | ESeq a b => closed_expr self params a && closed_expr self params b
  | EIf c a b => closed_expr self params c && closed_expr self params a && closed_expr self params b
  | EError _ => true
  | _ => false
  end.
Definition is_self (name : option ident) (x : ident) : bool :=
  bytes_eqb x self_name || match name with Some n => bytes_eqb n x | None => false end.
Fixpoint nodup_idents (l : list ident) : bool :=
  match l with [] => true | x :: l' => negb (mem_ident x l') && nodup_idents l' end.
Definition closed_fn (fd : fdef) : bool :=
  forallb (fun p => negb (constant_name p) && negb (is_self (fd_name fd) p) && negb (bytes_eqb p info_name)
                    && negb (bytes_eqb p dots_name)) (fd_params fd)
  && nodup_idents (fd_params fd)
  && closed_expr (is_self (fd_name fd)) (fd_params fd) (fd_body fd).

(* the definition table holds each function text once (the harness shares equal literals), so a cache key
   names one definition *)
Fixpoint keys_distinct (l : list bytes) : bool :=
  match l with [] => true | k :: l' => negb (mem_ident k l') && keys_distinct l' end.
Definition closed_hist (defs : list fdef) : bool :=
  forallb closed_fn defs && keys_distinct (map fd_key defs).

(* the inputs of a history write no function value as a literal (function values only come from EFun) *)
Fixpoint lits_ok (e : expr) : bool :=
  match e with
  | ELit v => negb (has_function v)
  | EAssign _ a | ECatchErr a => lits_ok a
  | ECall f args => lits_ok f && (fix all (l : list expr) : bool := match l with [] => true | a :: l' => lits_ok a && all l' end) args
  | EArr es | EPrint es => (fix all (l : list expr) : bool := match l with [] => true | a :: l' => lits_ok a && all l' end) es
  | EBin _ a b | ESeq a b => lits_ok a && lits_ok b
  | EIf c a b => lits_ok c && lits_ok a && lits_ok b
  | _ => true
  end.
Definition closed_session (defs : list fdef) (inputs : list expr) : bool :=
  closed_hist defs && forallb lits_ok inputs.
