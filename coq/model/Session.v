(* Model of repl.EvalOne around eval.State.Eval, on the CONTROL PROJECTION of the session state
   (property C10): which environment is current, the depth counter, where output goes, the
   register count of the root environment, and the evaluation context.  Executable, no proofs.

     func EvalOne(ctx, s, what, out, options):
         sessionOut := s.Out                         (fix 31dc576)
         defer recover(): s.Reset(); s.Out = sessionOut; errs += "panic: ..."
         cancel := s.SetContext(ctx, options.MaxDuration); defer cancel()
         ... parse, macros ...
         obj := s.Eval(program)                      depth++ / evalInternal / depth--
     func (s *State) Reset():  s.env = s.rootEnv; s.depth = 0

   An input is the control skeleton (Registers.v) of the program it evaluates.  The five outcome
   kinds of the property are all covered by skeletons: a value (GNormal/GReturn at top level), a
   language error (LError, or break/continue reaching the top), a recovered run-time panic
   (LPanic), the depth guard (LDepth), the deadline (the context's error is returned by every
   evalInternal from then on: an LError leaf).                                                *)
From Coq Require Import List Bool Arith.
From GrolModel Require Import Registers.
Import ListNotations.

Record session : Type := mkS {
  st : mstate;          (* envs (root first, current last), depth, outs *)
  ctx_live : bool       (* State.Context is set and neither cancelled nor expired *)
}.

(* what the caller of EvalOne sees *)
Inductive okind : Type :=
| OValue                 (* no error reported *)
| OError                 (* errs = [<err: ...>] *)
| OPanic (k : pkind)     (* panicked = true, errs = ["panic: ..."] *)
| OStuck.                (* model-internal, proved unreachable *)

(* State.Eval at the top: a RETURN is unwrapped, BREAK/CONTINUE become
   "unexpected control type ... outside of for loops" *)
Definition top_outcome (g : signal) : okind :=
  match g with
  | GNormal | GReturn => OValue
  | GBreak | GContinue | GError => OError
  | GPanic k => OPanic k
  | GStuck => OStuck
  end.

(* s.SetContext(ctx, d): a new context replaces whatever was there *)
Definition set_context (s : session) : session := mkS (st s) true.

(* s.Reset() followed (when repaired) by s.Out = sessionOut *)
Definition reset (c : cfg) (before after : mstate) : mstate :=
  mkM (firstn 1 (envs after))                       (* s.env = s.rootEnv *)
      0                                             (* s.depth = 0 *)
      (if fix_out c then outs before else outs after).

(* evalOne: s.Eval(program) under the context that is installed.  evalInternal starts with
   `if s.Context.Err() != nil { return error }`: under a dead context nothing is evaluated. *)
Definition run_input (c : cfg) (p : skel) (s : session) : signal * mstate * list probe :=
  if ctx_live s then
    let m := st s in
    match eval c p (mkM (envs m) (S (depth m)) (outs m)) with      (* depth++ *)
    | (g, m1, t) =>
      if is_abort g then (g, m1, t)
      else (g, mkM (envs m1) (pred (depth m1)) (outs m1), t)          (* depth-- *)
    end
  else (GError, st s, []).

Definition eval_one (c : cfg) (p : skel) (s : session) : okind * session * list probe :=
  let s1 := set_context s in
  match run_input c p s1 with
  | (g, m1, t) =>
    let m2 := match g with
              | GPanic _ => reset c (st s) m1      (* the deferred recover() *)
              | _ => m1
              end in
    (top_outcome g, mkS m2 false, t)               (* deferred cancel(): the context is dead *)
  end.

(* a session: inputs one after the other on one persistent state *)
Fixpoint run_session (c : cfg) (inputs : list skel) (s : session) : list (okind * list probe) * session :=
  match inputs with
  | [] => ([], s)
  | p :: tl =>
    match eval_one c p s with
    | (o, s1, t) =>
      match run_session c tl s1 with
      | (obs, s2) => ((o, t) :: obs, s2)
      end
    end
  end.

(* the state of a session between two inputs: only the root environment, depth 0, output to
   the session writer *)
Definition top_level (m : mstate) : Prop :=
  exists n, envs m = [n] /\ depth m = 0 /\ outs m = 0.

Definition new_session : session := mkS (mkM [0] 0 0) false.
