(* Model of the two control guards of the evaluator (C09), executable Gallina, NO proofs here.

   eval/eval_api.go  State.Eval:     if s.depth > s.MaxDepth { panic("max depth ...") }; s.depth++;
                                     result := s.evalInternal(node); s.depth--
   eval/eval.go      evalInternal:   if s.Context != nil && s.Context.Err() != nil { return s.Error(...) }
                                     ... then the node's own evaluation, which calls s.Eval / s.evalInternal
                                     on sub-nodes (loops: evalStatements, evalForExpression, evalForInteger,
                                     evalForList; all of them return as soon as a body/condition yields an error)

   The evaluator is abstracted to its DYNAMIC CALL TREE: one [tree] node per evalInternal entry that the
   run would perform if it were neither cancelled nor stopped by the depth guard (loops are already unfolded:
   one child per condition / body evaluation).  A node records
     - ve    : whether it is entered through State.Eval (depth++ / depth--) or by a direct evalInternal call,
     - kind  : Stop   = the Go code returns as soon as a child yields an error object
                        (statements, operands, call arguments, the four loop forms, if, return, index, ...)
               Absorb = it goes on with its remaining children and yields a non-error
                        (map literal, log(...), catch(...), quote(...) with several unquote calls),
     - its children in evaluation order.
   The machine below is a small-step interpreter of such a tree with an explicit continuation stack, the
   depth counter, a visit counter and a cancellation instant (the number of evalInternal entries after
   which Context.Err() is non-nil; it stays non-nil).  The memory guard arithmetic is in model/Arith.v. *)
From Coq Require Import List ZArith Bool.
Import ListNotations.
Local Open Scope Z_scope.

Inductive fkind : Type := Stop | Absorb.

Inductive tree : Type := T (ve : bool) (k : fkind) (children : list tree).

Definition t_ve (t : tree) : bool := match t with T ve _ _ => ve end.

(* result of one node evaluation *)
Inductive res : Type := ROk | RErr.

(* an open evalInternal activation: how it was entered, its kind, the children still to evaluate *)
Inductive frame : Type := F (ve : bool) (k : fkind) (rest : list tree).

Inductive mode : Type :=
| Enter (t : tree)     (* about to call Eval / evalInternal on t *)
| Next (r : res).      (* a child (or the node's own prologue) just produced r: continue the top frame *)

Inductive halt : Type :=
| Done (r : res)       (* the outermost call returned *)
| GuardDepth.          (* panic("max depth N reached"): the Go stack is unwound to the recover in EvalOne *)

Record config : Type := mk_config {
  c_mode : mode;
  c_stack : list frame;
  c_depth : Z;          (* State.depth *)
  c_visits : nat        (* number of evalInternal entries so far *)
}.

Definition b2z (b : bool) : Z := if b then 1 else 0.

Definition cancelled (cancel_at : option nat) (visits : nat) : bool :=
  match cancel_at with Some c => Nat.leb c visits | None => false end.

(* one step; inl = halted *)
Definition step (maxd : Z) (cancel_at : option nat) (c : config) : halt + config :=
  match c_mode c with
  | Enter (T ve k cs) =>
      if ve && (maxd <? c_depth c) then inl GuardDepth
      else if cancelled cancel_at (c_visits c) then
        (* depth++ ; evalInternal returns the context error at once ; depth-- *)
        inr (mk_config (Next RErr) (c_stack c) (c_depth c) (S (c_visits c)))
      else
        inr (mk_config (Next ROk) (F ve k cs :: c_stack c) (c_depth c + b2z ve) (S (c_visits c)))
  | Next r =>
      match c_stack c with
      | [] => inl (Done r)
      | F ve k rest :: st =>
          match k, r, rest with
          | Stop, RErr, _ => inr (mk_config (Next RErr) st (c_depth c - b2z ve) (c_visits c))
          | Stop, ROk, [] => inr (mk_config (Next ROk) st (c_depth c - b2z ve) (c_visits c))
          | Absorb, _, [] => inr (mk_config (Next ROk) st (c_depth c - b2z ve) (c_visits c))
          | _, _, ch :: rest' => inr (mk_config (Enter ch) (F ve k rest' :: st) (c_depth c) (c_visits c))
          end
      end
  end.

(* fuelled run: the final halt (None = out of fuel) and the last configuration *)
Fixpoint run (maxd : Z) (cancel_at : option nat) (fuel : nat) (c : config) : option halt * config :=
  match fuel with
  | O => (None, c)
  | S n => match step maxd cancel_at c with
           | inl h => (Some h, c)
           | inr c' => run maxd cancel_at n c'
           end
  end.

Definition init (d0 : Z) (t : tree) : config := mk_config (Enter t) [] d0 0.

(* number of nodes, and a fuel that is enough for a whole run (3 steps per node, see Guards_proofs) *)
Fixpoint size (t : tree) : nat :=
  match t with T _ _ cs => S ((fix sz (l : list tree) : nat := match l with [] => O | c :: l' => (size c + sz l')%nat end) cs) end.
Definition fuel_for (t : tree) : nat := (3 * size t + 3)%nat.

(* number of Eval activations among the frames of a stack *)
Fixpoint ve_frames (st : list frame) : Z :=
  match st with [] => 0 | F ve _ _ :: st' => b2z ve + ve_frames st' end.

(* ---- continuation weight: how many evalInternal entries can still happen once cancelled ---- *)
Fixpoint wr (r : res) (st : list frame) : nat :=
  match st with
  | [] => O
  | F _ Stop rest :: st' =>
      match r with
      | RErr => wr RErr st'
      | ROk => match rest with [] => wr ROk st' | _ :: _ => S (wr RErr st') end
      end
  | F _ Absorb rest :: st' => (length rest + wr ROk st')%nat
  end.
Definition weight (c : config) : nat :=
  match c_mode c with Enter _ => S (wr RErr (c_stack c)) | Next r => wr r (c_stack c) end.
(* the coarse bound: one per Stop frame, the remaining children of every Absorb frame *)
Fixpoint frames_bound (st : list frame) : nat :=
  match st with
  | [] => O
  | F _ Stop _ :: st' => S (frames_bound st')
  | F _ Absorb rest :: st' => (length rest + frames_bound st')%nat
  end.
Definition all_stop (st : list frame) : bool :=
  forallb (fun f => match f with F _ Stop _ => true | _ => false end) st.

(* ------------------------------------------------------------------------------------------------
   Depth accounting of concrete program shapes (DESIGN Appendix B), used by the correspondence:
   where eval.go calls s.Eval (ve = true) and where it calls s.evalInternal directly (ve = false).  *)
Inductive gexpr : Type :=
| GLeaf                                   (* identifier, literal, function literal: no sub-evaluation *)
| GInfix (l r : gexpr)                    (* l op r          : s.Eval(l); s.Eval(r) *)
| GPrefix (e : gexpr)                     (* -e  !e          : s.Eval(e) *)
| GAssign (e : gexpr)                     (* x = e           : s.Eval(e) *)
| GIf (c : gexpr) (br : list gexpr)       (* if c {br}       : evalInternal(c); evalInternal(block); statements direct *)
| GIfNot (c : gexpr)                      (* if c {..} not taken, no else: evalInternal(c); evalInternal(nil block) *)
| GReturn (e : gexpr)                     (* return e        : evalInternal(e) *)
| GArray (es : list gexpr)                (* [e1, e2]        : evalInternal each *)
| GIndex (l i : gexpr)                    (* l[i]            : s.Eval(l); s.Eval(i) *)
| GBuiltin (es : list gexpr)              (* len(e) first(e) : evalInternal(e) *)
| GMapLit (kvs : list (gexpr * gexpr))    (* {k:v}           : s.Eval(k); s.Eval(v), no error check (Absorb) *)
| GCall (fn : gexpr) (args : list gexpr) (body : list gexpr)
                                          (* fn(args) with a known callee: s.Eval(fn); evalInternal(args);
                                             applyFunction: s.Eval(body statements) *)
| GRec (fn : gexpr) (args : list gexpr).  (* the recursive call: like GCall, the body is the next level *)

Definition leaf (ve : bool) : tree := T ve Stop [].

Section Shape.
  Variable rec_body : tree.   (* the (already entered-through-Eval) body of the next recursion level *)

  Fixpoint shape (ve : bool) (e : gexpr) : tree :=
    match e with
    | GLeaf => leaf ve
    | GInfix l r => T ve Stop [shape true l; shape true r]
    | GPrefix e1 => T ve Stop [shape true e1]
    | GAssign e1 => T ve Stop [shape true e1]
    | GIf c br => T ve Stop [shape false c; T false Stop (map (shape false) br)]
    | GIfNot c => T ve Stop [shape false c; leaf false]
    | GReturn e1 => T ve Stop [shape false e1]
    | GArray es => T ve Stop (map (shape false) es)
    | GIndex l i => T ve Stop [shape true l; shape true i]
    | GBuiltin es => T ve Stop (map (shape false) es)
    | GMapLit kvs => T ve Absorb (flat_map (fun kv => [shape true (fst kv); shape true (snd kv)]) kvs)
    | GCall fn args body =>
        T ve Stop (shape true fn :: map (shape false) args ++ [T true Stop (map (shape false) body)])
    | GRec fn args => T ve Stop (shape true fn :: map (shape false) args ++ [rec_body])
    end.
End Shape.

(* A recursion template: the function body is
       <guard statement>            if n <= 0 { return 0 }   (taken at level 0 only)
       <pre statements>             evaluated at every level > 0
       <the statement containing the recursive call>
   [level bf bg n] is the body of the function at recursion level n when two functions with statement
   lists bf / bg call each other (bf = bg for simple recursion); it is entered through s.Eval. *)
Definition guard_base : tree :=      (* if n<=0 {return 0} taken: cond; block [return [0]] *)
  T false Stop [T false Stop [leaf true; leaf true]; T false Stop [T false Stop [leaf false]]].
Definition guard_skip : tree :=      (* not taken, no else: cond; evalInternal(nil *Statements) *)
  T false Stop [T false Stop [leaf true; leaf true]; leaf false].

Fixpoint level (bf bg : list gexpr) (n : nat) : tree :=
  match n with
  | O => T true Stop [guard_base]
  | S m => T true Stop (guard_skip :: map (shape (level bg bf m) false) bf)
  end.

(* the whole program: s.Eval(program statements): [function definitions (leaves)...; main statement] *)
Definition program (ndefs : nat) (main : gexpr) (bf bg : list gexpr) (n : nat) : tree :=
  T true Stop (repeat (leaf false) ndefs ++ [shape (level bf bg n) false main]).

(* does the max-depth guard fire on this program with limit maxd?  Some true / Some false / None = fuel *)
Definition guard_fires (maxd : Z) (t : tree) : option bool :=
  match fst (run maxd None (fuel_for t) (init 0 t)) with
  | Some GuardDepth => Some true
  | Some (Done _) => Some false
  | None => None
  end.

(* nesting of Eval activations a tree needs *)
Fixpoint need (t : tree) : Z :=
  match t with
  | T ve _ cs => b2z ve + (fix mx (l : list tree) : Z := match l with [] => 0 | c :: l' => Z.max (need c) (mx l') end) cs
  end.
