(* Values of /repo/object/object.go as a Gallina inductive (shared by Cmp, Maps, and later the evaluator).
   No proofs here.

   Go                                              model
   ----------------------------------------------  -------------------------------------------------
   Integer{Value int64}                            VInt z          (z : Z; int64 range is a harness fact,
                                                                    no theorem below needs the bound)
   Float{Value float64}                            VFloat f        f : fl, exact: NaN | +-Inf | (-1)^neg * m * 2^e
                                                                    (-0 is FFin true 0 e; +0 is FFin false 0 e)
   Boolean, Null                                   VBool b, VNil
   String{Value string}                            VStr s          (bytes)
   SmallArray / BigArray                           VArr l          (Cmp only uses Len and Elements)
   SmallMap / *BigMap                              VMap kvs        (Cmp only uses Len and mapElements: the
                                                                    stored, sorted pair list; the representation
                                                                    itself is the subject of model/Maps.v)
   Error{Value}, ReturnValue, Function{CacheKey},  VTxt k s        the text Cmp looks at: Error.Value, Function.CacheKey,
   Quote, Macro, Extension{Name}                                   Extension.Name, Inspect() for RETURN/QUOTE/MACRO
   Reference, *Register                            (none)          object.Value() replaces them by what they denote
                                                                    before Cmp looks at the type

   Type ordinals are NOT written here: they are the generated constants object_INTEGER ... of
   coq/gen/Gen_Consts.v (regenerated from the const block of object.go on every run). *)
From Coq Require Import List ZArith NArith Bool.
From GrolGen Require Import Gen_Consts.
Import ListNotations.

Inductive fl : Type :=
| FNaN
| FInf (neg : bool)
| FFin (neg : bool) (m : N) (e : Z).      (* (-1)^neg * m * 2^e, exact *)

(* the object types whose comparison key is a text *)
Inductive tkind : Type := KErr | KRet | KFunc | KQuote | KMacro | KExt.

Inductive value : Type :=
| VInt (z : Z)
| VFloat (f : fl)
| VBool (b : bool)
| VNil
| VStr (s : list N)
| VArr (l : list value)
| VMap (l : list (value * value))
| VTxt (k : tkind) (s : list N).

Definition tkind_ord (k : tkind) : Z :=
  match k with
  | KErr => object_ERROR
  | KRet => object_RETURN
  | KFunc => object_FUNC
  | KQuote => object_QUOTE
  | KMacro => object_MACRO
  | KExt => object_EXTENSION
  end.

(* Object.Type() *)
Definition type_of (v : value) : Z :=
  match v with
  | VInt _ => object_INTEGER
  | VFloat _ => object_FLOAT
  | VBool _ => object_BOOLEAN
  | VNil => object_NIL
  | VStr _ => object_STRING
  | VArr _ => object_ARRAY
  | VMap _ => object_MAP
  | VTxt k _ => tkind_ord k
  end.

(* every ordinal a value can have (used for the generated-table side conditions) *)
Definition value_ordinals : list Z :=
  [object_INTEGER; object_FLOAT; object_BOOLEAN; object_NIL; object_STRING; object_ARRAY; object_MAP;
   object_ERROR; object_RETURN; object_FUNC; object_QUOTE; object_MACRO; object_EXTENSION].
