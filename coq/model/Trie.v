(* Model of /repo/trie/trie.go (byte trie used by REPL completion).
   Executable Gallina, no proofs here.  Each definition mirrors the Go function of the same name.

   Go representation                         model
   ------------------------------------      ----------------------------------------
   var endMarker = &Trie{valid,leaf}         TEnd   (the shared leaf object)
   &Trie{children [256]*Trie,min,max,valid}  TNode valid min max children
   children[c] == nil                        get_child ch c = None
   children[c] = x                           set_child ch c x   (array store)              *)
From Coq Require Import List NArith Bool.
Import ListNotations.
Local Open Scope N_scope.

Definition byte := N.
Definition word := list byte.

Inductive trie : Type :=
| TEnd : trie
| TNode : bool -> N -> N -> list (N * trie) -> trie.

Definition new_trie : trie := TNode false 255 0 [].

Fixpoint get_child (ch : list (N * trie)) (c : N) : option trie :=
  match ch with
  | [] => None
  | (k, t) :: ch' => if N.eqb k c then Some t else get_child ch' c
  end.

Fixpoint set_child (ch : list (N * trie)) (c : N) (x : trie) : list (N * trie) :=
  match ch with
  | [] => [(c, x)]
  | (k, t) :: ch' => if N.eqb k c then (k, x) :: ch' else (k, t) :: set_child ch' c x
  end.

Definition is_nil {A} (l : list A) : bool := match l with [] => true | _ => false end.

Definition set_valid (t : trie) : trie :=
  match t with
  | TEnd => TEnd
  | TNode _ mn mx ch => TNode true mn mx ch
  end.

(* func (t *Trie) Insert(word string): the Go loop descends and mutates in place; here the
   recursion returns the rebuilt node.  Recursion is on the word. *)
Fixpoint insert (t : trie) (w : word) : trie :=
  match w with
  | [] => t
  | c :: rest =>
    match t with
    | TEnd => TEnd (* not reachable: Go only steps into endMarker on the last byte *)
    | TNode v mn mx ch =>
      let last := is_nil rest in
      match get_child ch c with
      | Some TEnd =>
          let child := if last then TEnd else TNode true 255 0 [] in
          TNode v (N.min c mn) (N.max c mx) (set_child ch c (insert child rest))
      | None =>
          let child := if last then TEnd else TNode false 255 0 [] in
          TNode v (N.min c mn) (N.max c mx) (set_child ch c (insert child rest))
      | Some child =>
          let child' := if last then set_valid child else child in
          TNode v mn mx (set_child ch c (insert child' rest))
      end
    end
  end.

(* func (t *Trie) Prefix(word string) *Trie ; nil = None *)
Fixpoint prefix (t : trie) (w : word) : option trie :=
  match w with
  | [] => Some t
  | c :: rest =>
    match t with
    | TEnd => None
    | TNode _ _ _ ch =>
      match get_child ch c with
      | None => None
      | Some t' => prefix t' rest
      end
    end
  end.

Definition is_valid (t : option trie) : bool :=
  match t with
  | None => false
  | Some TEnd => true
  | Some (TNode v _ _ _) => v
  end.

Definition contains (t : trie) (w : word) : bool := is_valid (prefix t w).

(* the byte values min..max in increasing order (the Go loop `for i := t.min; i <= t.max; i++`
   with its explicit exit at 255) *)
Definition brange (mn mx : N) : list N :=
  map N.of_nat (seq (N.to_nat mn) (N.to_nat (mx + 1 - mn))).

(* func (t *Trie) AllBytes(prefix []byte) (int, []string)
   The Go loop visits i = min..max, skips nil children, and recurses into children[i].
   Here the recursive results of all children are computed first (kids: byte -> result of the
   recursive call, an association list in the order of [children]) and the min..max loop is the
   fold [scan] which looks each i up; only looked-up results are used, so this is the same function. *)
Fixpoint lookup {A : Type} (l : list (N * A)) (i : N) : option A :=
  match l with
  | [] => None
  | (k, x) :: l' => if N.eqb k i then Some x else lookup l' i
  end.

Definition scan_acc : Type := (list word * nat * nat)%type.   (* res, numChildren, longest *)

Definition scan_step (kids : list (N * (nat * list word))) (acc : scan_acc) (i : N) : scan_acc :=
  match lookup kids i with
  | None => acc
  | Some (l, more) => let '(res, nch, longest) := acc in (res ++ more, S nch, Nat.max l longest)
  end.

Definition scan (v : bool) (pre : word) (kids : list (N * (nat * list word))) (range : list N)
  : nat * list word :=
  let '(res, nch, longest) :=
    fold_left (scan_step kids) range
              (if v then [pre] else [], if v then 1%nat else 0%nat, length pre) in
  (if Nat.ltb 1 nch then length pre else longest, res).

Fixpoint all_bytes (t : trie) (pre : word) : nat * list word :=
  match t with
  | TEnd => (length pre, [pre])
  | TNode v mn mx ch =>
    let kids :=
      (fix go (l : list (N * trie)) : list (N * (nat * list word)) :=
         match l with
         | [] => []
         | (k, c) :: l' => (k, all_bytes c (pre ++ [k])) :: go l'
         end) ch in
    scan v pre kids (brange mn mx)
  end.

(* func (t *Trie) PrefixAll(prefix string) (int, []string) *)
Definition prefix_all (t : trie) (p : word) : nat * list word :=
  match prefix t p with
  | None => (0%nat, [])
  | Some t' => all_bytes t' p
  end.

(* repl.autoCompleteCallback: (commands[0][:l], l, true) or ok=false *)
Definition complete (t : trie) (typed : word) : option (word * nat) :=
  let '(l, cmds) := prefix_all t typed in
  match cmds with
  | [] => None
  | c0 :: _ => Some (firstn l c0, l)
  end.

Definition build (ws : list word) : trie := fold_left insert ws new_trie.
