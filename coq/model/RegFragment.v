(* A small evaluator of the INTEGER fragment of grol bodies, used only to state and prove that the
   register rewrite of model/Registers.v is sound on that fragment (stretch goal of C05):
   integer literals, identifiers, + - * (64-bit wrap-around), unary minus, assignment to an
   identifier, statement sequences.  Anything else evaluates to IUnsupported, about which
   nothing is claimed.  Executable, no proofs here.

   One evaluator serves both modes:
     ieval None     body          st   the parameter / loop variable is an ordinary binding of the
                                       store (State.NoReg, or the rewrite gave up)
     ieval (Some x) body'         st   x lives in the register [snd st]; body' is the rewritten
                                       body, in which the register node reads / writes it      *)
From Coq Require Import List ZArith NArith Bool.
From GrolGen Require Import Gen_Consts.
From GrolModel Require Import Ast Modify Registers.
Import ListNotations.
Local Open Scope Z_scope.

Definition store : Type := list (bytes * Z).

Fixpoint lookup (q : bytes) (s : store) : option Z :=
  match s with
  | [] => None
  | (k, v) :: tl => if bytes_eqb k q then Some v else lookup q tl
  end.
Definition update (k : bytes) (v : Z) (s : store) : store := (k, v) :: s.

Inductive ires : Type :=
| IVal (v : Z)        (* object.Integer *)
| INil                (* object.NULL (empty statement list) *)
| IErr                (* object.Error: identifier not found *)
| IUnsupported.       (* outside the fragment *)

Definition istate : Type := (store * Z)%type.   (* bindings of the environment, the register *)

Definition wrap64 (z : Z) : Z := ((z + 2^63) mod 2^64) - 2^63.

Definition arith (ty : Z) : option (Z -> Z -> Z) :=
  if Z.eqb ty token_PLUS then Some Z.add
  else if Z.eqb ty token_MINUS then Some Z.sub
  else if Z.eqb ty token_ASTERISK then Some Z.mul
  else None.

Section Frag.
  Variable reg : option bytes.   (* the name held in the register, if any *)

  Definition is_the_reg (n : node) : bool :=
    match reg with Some x => is_reg_of x n | None => false end.

  Definition estmts (rec : node -> istate -> ires * istate)
    : list (option node) -> istate -> ires -> ires * istate :=
    fix go (l : list (option node)) (st : istate) (last : ires) : ires * istate :=
      match l with
      | [] => (last, st)
      | None :: _ => (IUnsupported, st)
      | Some c :: tl =>
        match rec c st with
        | (IVal v, st1) => go tl st1 (IVal v)
        | (INil, st1) => go tl st1 INil
        | other => other
        end
      end.

  Fixpoint ieval (n : node) (st : istate) : ires * istate :=
    match n with
    | NInt _ v => (IVal v, st)
    | NIdent t =>
        if is_the_reg n then (IVal (snd st), st)
        else if Z.eqb (ttype t) token_REGISTER then (IUnsupported, st)
        else match lookup (tlit t) (fst st) with
             | Some v => (IVal v, st)
             | None => (IErr, st)
             end
    | NPrefix t (Some a) =>
        if Z.eqb (ttype t) token_MINUS then
          match ieval a st with
          | (IVal v, st1) => (IVal (wrap64 (- v)), st1)
          | (INil, st1) => (IUnsupported, st1)
          | other => other
          end
        else (IUnsupported, st)
    | NInfix t (Some a) (Some b) =>
        if Z.eqb (ttype t) token_ASSIGN then
          match ieval b st with
          | (IVal v, st1) =>
            match a with
            | NIdent ta =>
              if is_the_reg a then (IVal v, (fst st1, v))                       (* *reg.Ptr() = v *)
              else if Z.eqb (ttype ta) token_REGISTER then (IUnsupported, st1)
              else (IVal v, (update (tlit ta) v (fst st1), snd st1))            (* env.Set(name, v) *)
            | _ => (IUnsupported, st1)
            end
          | (INil, st1) => (IUnsupported, st1)
          | other => other
          end
        else
          match arith (ttype t) with
          | Some op =>
            match ieval a st with
            | (IVal va, st1) =>
              match ieval b st1 with
              | (IVal vb, st2) => (IVal (wrap64 (op va vb)), st2)
              | (INil, st2) => (IUnsupported, st2)
              | other => other
              end
            | (INil, st1) => (IUnsupported, st1)
            | other => other
            end
          | None => (IUnsupported, st)
          end
    | NStmts l => estmts ieval l st INil
    | _ => (IUnsupported, st)
    end.
End Frag.

(* the two states describe the same bindings: x is in the store on the variable side and in the
   register on the other side; every other name is bound alike *)
Definition reg_related (x : bytes) (sv sr : istate) : Prop :=
  lookup x (fst sv) = Some (snd sr)
  /\ forall q, bytes_eqb q x = false -> lookup q (fst sv) = lookup q (fst sr).

(* evalForInteger on the fragment: the iterations i, i+1, ..., i+n-1 of a counted loop `for x = i:i+n {body}`.
   Variable mode (reg = None, State.NoReg or the rewrite gave up): env.Set(x, i) before each iteration;
   register mode (body already rewritten): *ptr = i. The loop's value is the value of the last completed
   iteration; an error (or an unsupported construct) ends it. Whatever the body assigned to x, the next
   iteration starts from the counter again. *)
Fixpoint iloop (reg : option bytes) (x : bytes) (body : node) (i : Z) (n : nat) (st : istate) (last : ires)
  : ires * istate :=
  match n with
  | O => (last, st)
  | S n' =>
    let st0 := match reg with
               | Some _ => (fst st, i)
               | None => (update x i (fst st), snd st)
               end in
    match ieval reg body st0 with
    | (IVal v, st1) => iloop reg x body (i + 1) n' st1 (IVal v)
    | (INil, st1) => iloop reg x body (i + 1) n' st1 INil
    | other => other
    end
  end.

(* every name other than the loop variable is bound alike on both sides *)
Definition others_related (x : bytes) (sv sr : istate) : Prop :=
  forall q, bytes_eqb q x = false -> lookup q (fst sv) = lookup q (fst sr).
