(* Model of the formatter: /repo/ast/ast.go PrettyPrint for every node and PrintState
   (IndentLevel, ExpressionPrecedence, IndentationDone, Compact, AllParens, prev, last).
   Faithful to the code after the `fix:` commits 92d179c 38a934c 8755f15 2cf3376 8e90cc8 36f4a46 652aece 2370f0f.
   A nil child that Go would dereference is the outcome None (Go panic).  No proofs here. *)
From Coq Require Import List ZArith NArith Bool String Ascii.
From GrolGen Require Import Gen_Consts Gen_Prec.
From GrolModel Require Import Ast Parser.
Import ListNotations.
Local Open Scope Z_scope.

Fixpoint bytes_of_string (s : string) : bytes :=
  match s with
  | EmptyString => []
  | String a r => N_of_ascii a :: bytes_of_string r
  end.
Notation "'B' s" := (bytes_of_string s) (at level 0, s at level 0).

Record pst : Type := mkPst {
  p_out : bytes;
  p_indent : Z;            (* IndentLevel *)
  p_prec : Z;              (* ExpressionPrecedence *)
  p_idone : bool;          (* IndentationDone *)
  p_compact : bool;
  p_allparens : bool;
  p_prev : option node;    (* prev: the previously printed statement (nil at start) *)
  p_last : bytes;          (* last string written through Print *)
  p_sep : bool             (* sepIfOpen: compact mode, a separator is still needed if what comes next starts with ( or [ *)
}.

Definition new_pst (compact allparens : bool) : pst :=
  mkPst [] 0 0 false compact allparens None [] false.

Definition with_out (ps : pst) (o : bytes) := mkPst o (p_indent ps) (p_prec ps) (p_idone ps) (p_compact ps) (p_allparens ps) (p_prev ps) (p_last ps) (p_sep ps).
Definition with_indent (ps : pst) (i : Z) := mkPst (p_out ps) i (p_prec ps) (p_idone ps) (p_compact ps) (p_allparens ps) (p_prev ps) (p_last ps) (p_sep ps).
Definition with_prec (ps : pst) (x : Z) := mkPst (p_out ps) (p_indent ps) x (p_idone ps) (p_compact ps) (p_allparens ps) (p_prev ps) (p_last ps) (p_sep ps).
Definition with_idone (ps : pst) (b : bool) := mkPst (p_out ps) (p_indent ps) (p_prec ps) b (p_compact ps) (p_allparens ps) (p_prev ps) (p_last ps) (p_sep ps).
Definition with_prev (ps : pst) (n : option node) := mkPst (p_out ps) (p_indent ps) (p_prec ps) (p_idone ps) (p_compact ps) (p_allparens ps) n (p_last ps) (p_sep ps).
Definition with_last (ps : pst) (l : bytes) := mkPst (p_out ps) (p_indent ps) (p_prec ps) (p_idone ps) (p_compact ps) (p_allparens ps) (p_prev ps) l (p_sep ps).
Definition with_sep (ps : pst) (b : bool) := mkPst (p_out ps) (p_indent ps) (p_prec ps) (p_idone ps) (p_compact ps) (p_allparens ps) (p_prev ps) (p_last ps) b.

Definition raw_write (ps : pst) (s : bytes) : pst := with_out ps (p_out ps ++ s).

Definition tabs (n : Z) : bytes := repeat 9%N (Z.to_nat n).

(* func (ps *PrintState) Print(str ...string): called with one string at a time here; an empty
   argument LIST is a no-op, an empty STRING still triggers indentation and sets last *)
Definition Print (ps : pst) (s : bytes) : pst :=
  let ps1 :=
    if negb (p_compact ps) && negb (p_idone ps) && (1 <? p_indent ps)
    then with_idone (raw_write ps (tabs (p_indent ps - 1))) true
    else ps in
  let ps2 :=
    if p_sep ps1 then
      match s with
      | [] => ps1
      | c :: _ => let ps' := with_sep ps1 false in
                  if (c =? 40)%N || (c =? 91)%N then raw_write ps' [32%N] else ps'
      end
    else ps1 in
  with_last (raw_write ps2 s) s.

(* ps.Println() with no argument *)
Definition Println0 (ps : pst) : pst :=
  let ps1 := if p_compact ps then ps else raw_write ps [10%N] in
  with_idone ps1 false.

(* strconv.Quote on the byte universe without valid multi-byte UTF-8 sequences *)
Definition hexdigit (n : N) : N := if (n <? 10)%N then (48 + n)%N else (87 + n)%N.
Definition qbyte (c : N) : bytes :=
  if (c =? 34)%N then [92; 34]%N
  else if (c =? 92)%N then [92; 92]%N
  else if (c =? 7)%N then [92; 97]%N
  else if (c =? 8)%N then [92; 98]%N
  else if (c =? 12)%N then [92; 102]%N
  else if (c =? 10)%N then [92; 110]%N
  else if (c =? 13)%N then [92; 114]%N
  else if (c =? 9)%N then [92; 116]%N
  else if (c =? 11)%N then [92; 118]%N
  else if ((32 <=? c) && (c <=? 126))%N then [c]
  else [92; 120; hexdigit (c / 16); hexdigit (c mod 16)]%N.
Definition go_quote (s : bytes) : bytes := [34%N] ++ flat_map qbyte s ++ [34%N].

(* domain guard of go_quote: no lead byte 0xC2..0xF4 directly followed by a continuation byte *)
Fixpoint quote_in_domain (s : bytes) : bool :=
  match s with
  | [] => true
  | c :: rest =>
    match rest with
    | d :: _ => if ((194 <=? c) && (c <=? 244) && (128 <=? d) && (d <=? 191))%N then false else quote_in_domain rest
    | [] => true
    end
  end.

Definition is_comment (n : option node) : bool := match n with Some (NComment _ _ _) => true | _ => false end.
Definition is_array (n : option node) : bool := match n with Some (NArray _ _) => true | _ => false end.
Definition keepSameLineAsPrevious (n : option node) : bool :=
  match n with Some (NComment _ sp _) => sp | _ => false end.
Definition needNewLineAfter (n : option node) : bool :=
  match n with Some (NComment _ _ sn) => negb sn | _ => true end.

Definition bytes_eqb (a b : bytes) : bool := tok_eqb (mkTok 0 a) (mkTok 0 b).

(* prettyPrintCompact: the separator decision (comments are skipped by the caller) *)
Definition compact_sep (ps : pst) (s : option node) (i : nat) : pst :=
  if Nat.eqb i 0 then ps
  else if is_array s || (negb (bytes_eqb (p_last ps) B"}") && negb (bytes_eqb (p_last ps) B"]"))
       then raw_write ps [32%N]
       else with_sep ps true.

(* prettyPrintLongForm *)
Definition long_sep (ps : pst) (s : option node) (i : nat) : pst :=
  if negb (Nat.eqb i 0) || (1 <? p_indent ps) then
    (* prev counts only when s is not the first statement of its block (fix 781f1b2) *)
    if keepSameLineAsPrevious s || (negb (Nat.eqb i 0) && negb (needNewLineAfter (p_prev ps)))
    then with_idone (raw_write ps [32%N]) true
    else Println0 ps
  else ps.

(* func (ps *PrintState) needParen(t): None = panic("precedence not found") *)
Definition needParen (ps : pst) (t : tok) : option (bool * Z * pst) :=
  match table_get precedences (ttype t) with
  | None => None
  | Some np => Some (p_allparens ps || (np <? p_prec ps), p_prec ps, with_prec ps np)
  end.

Definition last_byte (l : bytes) : option N := match rev l with c :: _ => Some c | [] => None end.

Definition sep_comma (ps : pst) : bytes := if p_compact ps then B"," else B", ".

Definition tok_is (t : tok) (ty : Z) : bool := Z.eqb (ttype t) ty.

Definition open_paren (b : bool) (ps : pst) : pst := if b then Print ps B"(" else ps.
Definition close_paren (b : bool) (ps : pst) : pst := if b then Print ps B")" else ps.

(* ---- helpers of PrettyPrint, open over the recursive call [rec] (so that lemmas about them are
        generic); [pp] below ties the knot.  None = a nil child was dereferenced (Go panic) ---- *)
(* Precedences[token.COLON] (a missing map entry reads as the zero value) *)
Definition colon_prec : Z := match table_get precedences token_COLON with Some p => p | None => 0 end.

(* printElse: which form the alternative takes.  Compact mode decides on the statements that are printed,
   i.e. without the comments (fix 4239cee) *)
Inductive else_shape : Type := ESPanic | ESElseIf | ESPlain.
Definition else_items (compact : bool) (l : list (option node)) : list (option node) :=
  if compact then filter (fun x => negb (is_comment x)) l else l.
Definition else_shape_of (compact : bool) (a : node) : else_shape :=
  match a with
  | NStmts l =>
    match else_items compact l with
    | None :: nil => ESPanic            (* Statements[0].Value() on a nil node *)
    | Some e :: nil =>
      match node_tok e with
      | None => ESPanic                 (* Statements[0].Value() is a nil token: Type() dereferences it *)
      | Some et => if tok_is et token_IF then ESElseIf else ESPlain
      end
    | _ => ESPlain
    end
  | _ => ESPlain
  end.

Section WithRec.
Variable rec : node -> pst -> option pst.

Definition pp_opt_with (x : option node) (ps : pst) : option pst :=
  match x with Some m => rec m ps | None => None end.

(* PrintList with the ComaList separator *)
Fixpoint pp_list_with (l : list (option node)) (first : bool) (ps : pst) {struct l} : option pst :=
  match l with
  | [] => Some ps
  | x :: r =>
    let ps1 := if first then ps else Print ps (sep_comma ps) in
    match x with
    | None => None
    | Some m => match rec m ps1 with Some ps2 => pp_list_with r false ps2 | None => None end
    end
  end.

(* printElse, else-if form: print the first statement that is not a comment *)
Fixpoint first_item_with (skipc : bool) (l : list (option node)) (ps : pst) {struct l} : option pst :=
  match l with
  | [] => None
  | x :: r =>
    if skipc && is_comment x then first_item_with skipc r ps
    else match x with Some e => rec e ps | None => None end
  end.

(* out.ComaList(list): a nil slice prints nothing *)
Definition coma_list_with (l : option (list (option node))) (ps : pst) : option pst :=
  match l with Some l' => pp_list_with l' true ps | None => Some ps end.

(* the statement loop of Statements.PrettyPrint *)
Fixpoint stmts_loop_with (l : list (option node)) (i : nat) (ps : pst) {struct l} : option pst :=
  match l with
  | [] => Some ps
  | s :: r =>
    if p_compact ps && is_comment s then stmts_loop_with r i ps
    else
      let ps1 := if p_compact ps then compact_sep ps s i else long_sep ps s i in
      match s with
      | None => None
      | Some m =>
        match rec m ps1 with
        | Some ps2 => stmts_loop_with r (S i) (with_prev ps2 s)
        | None => None
        end
      end
  end.

(* Statements.PrettyPrint *)
Definition pp_stmts_with (l : list (option node)) (ps : pst) : option pst :=
  let old := p_prec ps in
  let ps1 := if 0 <? p_indent ps then Print ps B"{" else ps in
  let ps2 := with_prec (with_indent ps1 (p_indent ps1 + 1)) ast_LOWEST in
  match stmts_loop_with l O ps2 with
  | None => None
  | Some ps3 =>
    let ps4 := Println0 ps3 in
    let ps5 := with_prec (with_indent ps4 (p_indent ps4 - 1)) old in
    Some (if 0 <? p_indent ps5 then Print ps5 B"}" else ps5)
  end.

(* a *Statements field: nil pointer = panic *)
Definition pp_block_with (x : option node) (ps : pst) : option pst :=
  match x with
  | Some (NStmts l) => pp_stmts_with l ps
  | Some m => rec m ps
  | None => None
  end.

(* the pairs of a map literal: keys and values are printed as operands of `:` *)
Fixpoint map_loop_with (sep : bytes) (l : list (option node * option node)) (first : bool) (ps : pst)
  {struct l} : option pst :=
  match l with
  | [] => Some ps
  | (k, v) :: r =>
    let ps1 := if first then ps else Print ps sep in
    match k with
    | None => None
    | Some km =>
      match rec km (with_prec ps1 colon_prec) with
      | None => None
      | Some ps2 =>
        match v with
        | None => None
        | Some vm =>
          match rec vm (with_prec (Print ps2 B":") (colon_prec + 1)) with
          | None => None
          | Some ps3 => map_loop_with sep r false ps3
          end
        end
      end
    end
  end.
End WithRec.

(* ---- PrettyPrint for every node ---- *)
Fixpoint pp (n : node) (ps : pst) {struct n} : option pst :=
  let pp_opt := pp_opt_with pp in
  let coma_list := coma_list_with pp in
  let pp_stmts := pp_stmts_with pp in
  let pp_block := pp_block_with pp in
  let first_item := first_item_with pp in
  match n with
  | NIdent t | NInt t _ | NFloat t _ | NBool t _ | NControl t | NComment t _ _ => Some (Print ps (tlit t))
  | NString t => Some (Print ps (go_quote (tlit t)))
  | NReturn t v =>
    let ps1 := Print ps (tlit t) in
    match v with
    | None => Some ps1
    | Some m => pp m (Print ps1 B" ")
    end
  | NStmts l => pp_stmts l ps
  | NPrefix t r =>
    let old := p_prec ps in
    let ps1 := with_prec ps ast_PREFIX in
    let np := p_allparens ps || (ast_PREFIX <=? old) in
    let ps2 := open_paren np ps1 in
    let lit := tlit t in
    let ps3 :=
      match lit, last_byte (p_last ps2) with
      | c :: _, Some d =>
        if p_compact ps2 && ((c =? 45)%N || (c =? 43)%N) && (d =? c)%N then Print ps2 B" " else ps2
      | _, _ => ps2
      end in
    match pp_opt r (Print ps3 lit) with
    | None => None
    | Some ps4 => Some (close_paren np (with_prec ps4 old))
    end
  | NPostfix t prev =>
    match needParen ps t with
    | None => None
    | Some (np, old, ps1) =>
      let ps2 := Print (Print (open_paren np ps1) (tlit prev)) (tlit t) in
      Some (with_prec (close_paren np ps2) old)
    end
  | NInfix t l r =>
    match needParen ps t with
    | None => None
    | Some (np, old, ps1) =>
      match pp_opt l (open_paren np ps1) with
      | None => None
      | Some ps2 =>
        let ps3 := if p_compact ps2 then Print ps2 (tlit t)
                   else Print (Print (Print ps2 B" ") (tlit t)) B" " in
        let after_right :=
          match r with
          | None => Some ps3
          | Some m =>
            let bump :=
              match m with
              | NInfix rt _ _ => negb (tok_is t token_PLUS && tok_is rt token_PLUS)
              | _ => false
              end in
            pp m (if bump then with_prec ps3 (p_prec ps3 + 1) else ps3)
          end in
        match after_right with
        | None => None
        | Some ps4 => Some (with_prec (close_paren np ps4) old)
        end
      end
    end
  | NFor t c b =>
    match pp_opt c (Print ps B"for ") with
    | None => None
    | Some ps1 => pp_block b (if p_compact ps1 then ps1 else Print ps1 B" ")
    end
  | NIf t c csq alt =>
    match pp_opt c (Print ps B"if ") with
    | None => None
    | Some ps1 =>
      match pp_block csq (if p_compact ps1 then ps1 else Print ps1 B" ") with
      | None => None
      | Some ps2 =>
        match alt with
        | None => Some ps2
        | Some a =>
          let ps3 := if p_compact ps2 then Print ps2 B"else" else Print ps2 B" else " in
          match else_shape_of (p_compact ps3) a with
          | ESPanic => None
          | ESElseIf =>
            match a with
            | NStmts l => first_item (p_compact ps3) l (if p_compact ps3 then Print ps3 B" " else ps3)
            | _ => None
            end
          | ESPlain => pp a ps3
          end
        end
      end
    end
  | NBuiltin t params =>
    match coma_list params (Print (Print ps (tlit t)) B"(") with
    | None => None
    | Some ps1 => Some (Print ps1 B")")
    end
  | NFunc t name params body variadic is_lambda =>
    if is_lambda then
      let outer := ast_LAMBDA <? p_prec ps in
      let ps0 := open_paren outer ps in
      let np := negb (Nat.eqb (List.length (match params with Some l => l | None => [] end)) 1) in
      match coma_list params (open_paren np ps0) with
      | None => None
      | Some ps1 =>
        let ps2 := close_paren np ps1 in
        let ps3 := if p_compact ps2 then Print ps2 B"=>" else Print ps2 B" => " in
        match pp_block body ps3 with
        | None => None
        | Some ps4 => Some (close_paren outer ps4)
        end
      end
    else
      let ps1 := Print ps (tlit t) in
      let ps2 := match name with Some nm => Print (Print ps1 B" ") (tlit nm) | None => ps1 end in
      match coma_list params (Print ps2 B"(") with
      | None => None
      | Some ps3 => pp_block body (if p_compact ps3 then Print ps3 B")" else Print ps3 B") ")
      end
  | NCall t fn args =>
    let old := p_prec ps in
    match pp_opt fn (with_prec ps ast_CALL) with
    | None => None
    | Some ps1 =>
      match coma_list args (with_prec (Print ps1 B"(") ast_LOWEST) with
      | None => None
      | Some ps2 => Some (Print (with_prec ps2 old) B")")
      end
    end
  | NArray t elems =>
    match coma_list elems (Print ps B"[") with
    | None => None
    | Some ps1 => Some (Print ps1 B"]")
    end
  | NIndex t l i =>
    match needParen ps t with
    | None => None
    | Some (np, old, ps1) =>
      match pp_opt l (open_paren np ps1) with
      | None => None
      | Some ps2 =>
        match pp_opt i (with_prec (Print ps2 (tlit t)) ast_LOWEST) with
        | None => None
        | Some ps3 =>
          let ps4 := if tok_is t token_LBRACKET then Print ps3 B"]" else ps3 in
          Some (with_prec (close_paren np ps4) old)
        end
      end
    end
  | NMap t pairs =>
    match map_loop_with pp (sep_comma ps) pairs true (Print ps B"{") with
    | None => None
    | Some ps1 => Some (Print (with_prec ps1 (p_prec ps)) B"}")
    end
  | NMacro t params body =>
    match coma_list params (Print (Print ps (tlit t)) B"(") with
    | None => None
    | Some ps1 => pp_block body (if p_compact ps1 then Print ps1 B")" else Print ps1 B") ")
    end
  end.

(* program.PrettyPrint(&PrintState{Compact, AllParens}).String() on the program's statement list *)
Definition print_program (compact allparens : bool) (stmts : list (option node)) : option bytes :=
  match pp (NStmts stmts) (new_pst compact allparens) with
  | Some ps => Some (p_out ps)
  | None => None
  end.
