(* Model of /repo/ast/modify.go : func Modify(node Node, f func(Node) (Node, bool)) (Node, bool)
   over the shared syntax tree type of Ast.v.  Executable Gallina, no proofs here.

   Modify is a copying POST-ORDER rewrite: the children of a node are rewritten first (left to
   right, in the order listed below), a fresh node is built from the results, and the callback
   [f] is applied to that fresh node last.  As soon as one application of [f] answers ok=false
   the whole rewrite answers (nil,false) (nothing after that point is visited).

   Per node type, as in the Go switch (read on the tree after /repo f881ef4 and 2e49243):

     Statements            every statement
     InfixExpression       Left, Right
     PrefixExpression      Right
     IndexExpression       Left, Index
     IfExpression          Condition, Consequence (result asserted Statements), Alternative if non nil (same)
     ForExpression         Condition, Body (asserted Statements)
     ReturnStatement       ReturnValue if non nil
     FunctionLiteral       every parameter (result must be an *Identifier, otherwise (nil,false));
                           Body (asserted Statements); Name is copied untouched
     MacroLiteral          as FunctionLiteral
     ArrayLiteral          every element
     MapLiteral            for each key of Order: key, then Pairs[key]; the new map is indexed by
                           the NEW key nodes (Go pointers), see [same] below
     Builtin               every parameter
     CallExpression        Function, then every argument (the callee is visited since /repo 2e49243)
     Identifier, IntegerLiteral, FloatLiteral, StringLiteral, Boolean, Comment,
     ControlExpression, PostfixExpression        no children: f(copy)
     anything else (e.g. *object.Register used as a node, nil interface)   f(node)

   Outcomes.  Go has three: (node,true), (nil,false) and a Go panic (failed type assertion
   x.( *Statements), or a nil *Statements body dereferenced).  They are kept apart:       *)
From Coq Require Import List ZArith NArith Bool.
From GrolGen Require Import Gen_Consts.
From GrolModel Require Import Ast.
Import ListNotations.

Inductive res (A : Type) : Type :=
| ROk (a : A)      (* ok = true *)
| RBail            (* ok = false: (nil,false) *)
| RPanic.          (* Go run-time panic inside Modify *)
Arguments ROk {A} a.
Arguments RBail {A}.
Arguments RPanic {A}.

Definition rbind {A B} (r : res A) (k : A -> res B) : res B :=
  match r with ROk a => k a | RBail => RBail | RPanic => RPanic end.

Definition is_stmts (n : node) : bool := match n with NStmts _ => true | _ => false end.

(* identifiers as the Go type *ast.Identifier.  An *object.Register used as a node is encoded as
   an NIdent whose token type is REGISTER (the Go Register embeds ast.Base with exactly that
   token: token.Intern(token.REGISTER, originalName)); the parser never builds such an NIdent. *)
Definition is_register_node (n : node) : bool :=
  match n with NIdent t => Z.eqb (ttype t) token_REGISTER | _ => false end.
Definition is_identifier (n : node) : bool :=
  match n with NIdent _ => negb (is_register_node n) | _ => false end.

(* x.( *Statements) on the result of rewriting a body *)
Definition assert_stmts (r : res node) : res node :=
  match r with
  | ROk n => if is_stmts n then ROk n else RPanic
  | other => other
  end.

(* checked id.( *Identifier) on the result of rewriting a parameter: (nil,false) when it fails *)
Definition check_identifier (r : res node) : res node :=
  match r with
  | ROk n => if is_identifier n then ROk n else RBail
  | other => other
  end.

(* The per-field helpers, parameterised by the recursive call [rec] (= modify_gen below). *)
Section Fields.
  Variable rec : node -> res node.

  (* A nil child of interface type reaches f as nil; every callback of /repo returns nil,true on
     nil (type switch without a matching case), which is what is modelled: None stays None. *)
  Definition mchild (o : option node) : res (option node) :=
    match o with
    | None => ROk None
    | Some c => rbind (rec c) (fun c' => ROk (Some c'))
    end.

  (* a field of Go type pointer-to-Statements: a nil pointer is dereferenced by the Statements
     case (panic); the result is asserted to be Statements again *)
  Definition mbody (o : option node) : res (option node) :=
    match o with
    | None => RPanic
    | Some c => rbind (assert_stmts (rec c)) (fun c' => ROk (Some c'))
    end.

  (* a parameter of a function / macro literal: the result must be an Identifier *)
  Definition mparam (o : option node) : res (option node) :=
    match o with
    | None => RBail    (* f(nil) gives nil, which is not an Identifier *)
    | Some c => rbind (check_identifier (rec c)) (fun c' => ROk (Some c'))
    end.

  Definition mlist (one : option node -> res (option node)) : list (option node) -> res (list (option node)) :=
    fix go (l : list (option node)) : res (list (option node)) :=
      match l with
      | [] => ROk []
      | o :: tl => rbind (one o) (fun o' => rbind (go tl) (fun tl' => ROk (o' :: tl')))
      end.
  Definition mchildren := mlist mchild.
  Definition mparams := mlist mparam.

  (* a nil slice has length 0: make([]Node, 0) *)
  Definition mslice (one : option node -> res (option node)) (o : option (list (option node)))
    : res (option (list (option node))) :=
    match o with
    | None => ROk (Some [])
    | Some l => rbind (mlist one l) (fun l' => ROk (Some l'))
    end.

  Definition mpairs : list (option node * option node) -> res (list (option node * option node)) :=
    fix go (l : list (option node * option node)) : res (list (option node * option node)) :=
      match l with
      | [] => ROk []
      | kv :: tl =>
        rbind (mchild (fst kv)) (fun k' =>
        rbind (mchild (snd kv)) (fun v' =>
        rbind (go tl) (fun tl' => ROk ((k', v') :: tl'))))
      end.
End Fields.

Section Modify.
  (* [same a b]: the two nodes returned by the callback are the same Go pointer.  Only the
     MapLiteral case looks at it (Pairs is a Go map keyed by node pointers): two rewritten keys
     that are the same pointer share one Pairs entry, the later value wins for both.
     Callbacks that always return fresh or distinct nodes take [fun _ _ => false]. *)
  Variable same : node -> node -> bool.
  Variable f : node -> res node.

  Definition same_opt (a b : option node) : bool :=
    match a, b with
    | None, None => true           (* nil == nil as map keys *)
    | Some x, Some y => same x y
    | _, _ => false
    end.

  (* Pairs[newKey] = newVal for each (newKey,newVal) in order, then read back through Order *)
  Fixpoint last_value (k : option node) (dflt : option node) (l : list (option node * option node)) : option node :=
    match l with
    | [] => dflt
    | kv :: tl => last_value k (if same_opt k (fst kv) then snd kv else dflt) tl
    end.
  Definition alias_pairs (l : list (option node * option node)) : list (option node * option node) :=
    map (fun kv => (fst kv, last_value (fst kv) (snd kv) l)) l.

  Fixpoint modify_gen (n : node) : res node :=
    match n with
    | NStmts l => rbind (mchildren modify_gen l) (fun l' => f (NStmts l'))
    | NInfix t l r =>
        rbind (mchild modify_gen l) (fun l' => rbind (mchild modify_gen r) (fun r' => f (NInfix t l' r')))
    | NPrefix t r => rbind (mchild modify_gen r) (fun r' => f (NPrefix t r'))
    | NIndex t l i =>
        rbind (mchild modify_gen l) (fun l' => rbind (mchild modify_gen i) (fun i' => f (NIndex t l' i')))
    | NIf t c a b =>
        rbind (mchild modify_gen c) (fun c' =>
        rbind (mbody modify_gen a) (fun a' =>
        match b with
        | None => f (NIf t c' a' None)
        | Some _ => rbind (mbody modify_gen b) (fun b' => f (NIf t c' a' b'))
        end))
    | NFor t c b =>
        rbind (mchild modify_gen c) (fun c' => rbind (mbody modify_gen b) (fun b' => f (NFor t c' b')))
    | NReturn t v => rbind (mchild modify_gen v) (fun v' => f (NReturn t v'))
    | NFunc t name ps b variadic lam =>
        rbind (mslice (mparam modify_gen) ps) (fun ps' =>
        rbind (mbody modify_gen b) (fun b' => f (NFunc t name ps' b' variadic lam)))
    | NMacro t ps b =>
        rbind (mslice (mparam modify_gen) ps) (fun ps' =>
        rbind (mbody modify_gen b) (fun b' => f (NMacro t ps' b')))
    | NArray t e => rbind (mslice (mchild modify_gen) e) (fun e' => f (NArray t e'))
    | NMap t l => rbind (mpairs modify_gen l) (fun l' => f (NMap t (alias_pairs l')))
    | NBuiltin t ps => rbind (mslice (mchild modify_gen) ps) (fun ps' => f (NBuiltin t ps'))
    | NCall t fn args =>
        rbind (mchild modify_gen fn) (fun fn' =>
        rbind (mslice (mchild modify_gen) args) (fun args' => f (NCall t fn' args')))
    | NIdent _ | NInt _ _ | NFloat _ _ | NString _ | NBool _ _ | NComment _ _ _ | NControl _
    | NPostfix _ _ => f n
    end.
End Modify.

(* The interface asked for by the other layers: None = ok false.  A Go panic inside Modify is
   also None here; [modify_panics] tells the two apart. *)
Definition lift_cb (f : node -> option node) (n : node) : res node :=
  match f n with Some n' => ROk n' | None => RBail end.

Definition modify (f : node -> option node) (n : node) : option node :=
  match modify_gen (fun _ _ => false) (lift_cb f) n with
  | ROk n' => Some n'
  | _ => None
  end.

Definition modify_panics (f : node -> option node) (n : node) : bool :=
  match modify_gen (fun _ _ => false) (lift_cb f) n with
  | RPanic => true
  | _ => false
  end.

(* ast.ModifyNoOk *)
Definition modify_no_ok (f : node -> node) (n : node) : option node :=
  modify (fun x => Some (f x)) n.
