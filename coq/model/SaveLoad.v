(* Model of the save / load path (property C14).  Executable Gallina, no proofs here.

   Go                                                       model
   -------------------------------------------------------  ------------------------------------------------
   Integer.Inspect  = strconv.FormatInt(v, 10)               fmt_int
   Float.Inspect    = strconv.FormatFloat(v, 'f', -1, 64)    fmt_float: the SPECIFICATION of shortest formatting made
                                                             executable: the fewest significant digits n such that an
                                                             n-digit decimal next to v converts back to v (conversion =
                                                             exact nearest-even rounding, ratio_to_bits), the nearer of
                                                             the two when both do, printed in %f form
   String.Inspect   = strconv.Quote                          Printer.go_quote (byte universe without valid multi-byte
                                                             UTF-8: Printer.quote_in_domain)
   Boolean / Null / SmallArray / BigArray / SmallMap /       inspect
   BigMap .Inspect
   Function.Inspect / SetCacheKey / finishFuncOutput /       func_text (over Printer.pp, compact print state)
   lambdaPrint / lambdaBodyNeedsBraces
   Environment.SaveGlobals                                   save_globals (sorted keys, constants-and-extras skipped,
                                                             definition form for a named function bound to its own
                                                             name, MaxValueLen skip)
   eval.EvalString(s, line) on a saved data line             read_back = front_parse (Lexer + Parser models) then
                                                             eval_lit, the evaluator restricted to the trees that the
                                                             printed form of data parses to
   strconv.ParseInt(lit,0,64) / ParseFloat(lit,64) on the    dec_conv (plain decimal literals only; anything else is
   literals that Inspect emits                               reported as RbOutside, never guessed)

   Values are GrolModel.Values.value: floats are exact ((-1)^neg * m * 2^e, NaN, +-Inf); the IEEE bit pattern
   is related to them by fl_of_bits / bits_of_fl.  Maps are the stored (sorted) pair lists; a map literal is
   evaluated with Maps.mliteral over Cmp.cmp_c exactly as evalMapLiteral does (NewMapSize, then Set in source
   order, keys must satisfy Equals(key, key)).

   Assumption made explicit: the identifiers nil, Inf and NaN denote the values bound to them in a fresh state
   (they are ordinary rebindable globals: rebinding them is a recorded finding). *)
From Coq Require Import List ZArith NArith Bool String Ascii.
From GrolGen Require Import Gen_Consts Gen_Prec Gen_ByteClass.
From GrolModel Require Import Ast Lexer Parser Printer AstWf Frontend Values Cmp Maps.
Import ListNotations.
Local Open Scope N_scope.

(* ================================================================ integers *)
Definition digit (d : N) : N := 48 + d.

Fixpoint fmt_nat_fuel (fuel : nat) (n : N) (acc : bytes) : bytes :=
  match fuel with
  | O => acc
  | S f =>
    let acc' := digit (n mod 10) :: acc in
    if n / 10 =? 0 then acc' else fmt_nat_fuel f (n / 10) acc'
  end.

(* decimal digits of n, no leading zero ("0" for 0); N.size_nat n bounds the number of digits *)
Definition fmt_nat (n : N) : bytes := fmt_nat_fuel (S (N.size_nat n)) n [].

(* strconv.FormatInt(v, 10) *)
Definition fmt_int (z : Z) : bytes :=
  match z with
  | Zneg p => 45 :: fmt_nat (Npos p)
  | _ => fmt_nat (Z.to_N z)
  end.

Definition min_int64 : Z := (- 9223372036854775808)%Z.
Definition max_int64 : Z := 9223372036854775807%Z.
Definition in_int64 (z : Z) : bool := (Z.leb min_int64 z && Z.leb z max_int64)%bool.

(* ================================================================ floats: IEEE bits <-> exact values *)
Definition two52 : N := 4503599627370496.
Definition two53 : N := 9007199254740992.
Definition two63 : N := 9223372036854775808.
Definition nan_bits : N := 9221120237041090561.   (* 0x7ff8000000000001, the pattern the harness prints for every NaN *)

Definition fl_of_bits (b : N) : fl :=
  let neg := two63 <=? b mod (2 * two63) in
  let e := (b / two52) mod 2048 in
  let frac := b mod two52 in
  if e =? 2047 then (if frac =? 0 then FInf neg else FNaN)
  else if e =? 0 then FFin neg frac (-1074)
  else FFin neg (frac + two52) (Z.of_N e - 1075).

Definition sign_bit (neg : bool) : N := if neg then two63 else 0.

Definition bits_of_fl (f : fl) : N :=
  match f with
  | FNaN => nan_bits
  | FInf neg => sign_bit neg + 2047 * two52
  | FFin neg m e => sign_bit neg + (if m <? two52 then m else Z.to_N (e + 1075) * two52 + (m - two52))
  end.

Definition fl_eqb (a b : fl) : bool :=
  match a, b with
  | FNaN, FNaN => true
  | FInf x, FInf y => Bool.eqb x y
  | FFin x m e, FFin y n f => Bool.eqb x y && (m =? n) && Z.eqb e f
  | _, _ => false
  end.

(* the representation a float64 decodes to (the only one the harness sends) *)
Definition fl_canonical (f : fl) : bool := fl_eqb (fl_of_bits (bits_of_fl f)) f.

(* ================================================================ decimal -> float64 (strconv.ParseFloat on plain decimals) *)
(* num / den scaled by 2^-e2 *)
Definition scale2 (num den : N) (e2 : Z) : N * N :=
  if (0 <=? e2)%Z then (num, den * 2 ^ Z.to_N e2) else (num * 2 ^ Z.to_N (- e2), den).

(* nearest integer to num / den, ties to even *)
Definition round_ratio (num den : N) : N :=
  let m := num / den in
  let r := num mod den in
  if den <? 2 * r then m + 1
  else if 2 * r =? den then (if N.even m then m else m + 1)
  else m.

(* the float64 nearest to num / den (den > 0), as the bit pattern of a non-negative float; None = beyond the
   largest float64 by half an ulp or more (ParseFloat: +Inf with ErrRange, which the parser reports as an error) *)
Definition ratio_to_bits (num den : N) : option N :=
  if num =? 0 then Some 0
  else
    let lb := (Z.of_N (N.log2 num) - Z.of_N (N.log2 den))%Z in      (* floor(log2 (num/den)) is lb or lb - 1 *)
    let e0 := (lb - 52)%Z in
    let '(n0, d0) := scale2 num den e0 in
    let e1 := if n0 / d0 <? two52 then (e0 - 1)%Z else e0 in
    let e2 := Z.max e1 (-1074) in                                   (* subnormals share the smallest exponent *)
    let '(n2, d2) := scale2 num den e2 in
    let m := round_ratio n2 d2 in
    let '(m', e') := if m =? two53 then (two52, (e2 + 1)%Z) else (m, e2) in
    if (971 <? e')%Z then None
    else Some (if m' <? two52 then m' else Z.to_N (e' + 1075) * two52 + (m' - two52)).

(* c / 10^q *)
Definition dec_to_bits (c : N) (q : Z) : option N :=
  if (0 <=? q)%Z then ratio_to_bits c (10 ^ Z.to_N q) else ratio_to_bits (c * 10 ^ Z.to_N (- q)) 1.

Definition is_digit (c : N) : bool := (48 <=? c) && (c <=? 57).

Fixpoint digits_val (l : bytes) (acc : N) : option N :=
  match l with
  | [] => Some acc
  | c :: r => if is_digit c then digits_val r (acc * 10 + (c - 48)) else None
  end.

(* "0" or a digit string without leading zero *)
Definition plain_nat (l : bytes) : bool :=
  match l with
  | [] => false
  | [c] => is_digit c
  | c :: _ => is_digit c && negb (c =? 48) && forallb is_digit l
  end.

Fixpoint split_dot (l : bytes) : bytes * option bytes :=
  match l with
  | [] => ([], None)
  | c :: r =>
    if c =? 46 then ([], Some r)
    else let '(a, b) := split_dot r in (c :: a, b)
  end.

(* the literal forms Inspect emits for numbers: <nat> or <nat>.<digits> *)
Definition plain_decimal (l : bytes) : bool :=
  match split_dot l with
  | (a, None) => plain_nat a
  | (a, Some b) => plain_nat a && forallb is_digit b && negb (match b with [] => true | _ => false end)
  end.

(* strconv.ParseInt(lit, 0, 64) / strconv.ParseFloat(lit, 64) on plain decimal literals.  On any other literal
   the result None is NOT a claim about strconv: read_back_dec reports such lines as RbOutside. *)
Definition dec_int (l : bytes) : option Z :=
  if plain_nat l then
    match digits_val l 0 with
    | Some v => if Z.leb (Z.of_N v) max_int64 then Some (Z.of_N v) else None
    | None => None
    end
  else None.   (* a '.' is a syntax error for ParseInt *)

Definition dec_float (l : bytes) : option N :=
  if plain_decimal l then
    match split_dot l with
    | (a, None) => match digits_val a 0 with Some v => dec_to_bits v 0 | None => None end
    | (a, Some b) =>
      match digits_val (a ++ b) 0 with
      | Some v => dec_to_bits v (Z.of_nat (List.length b))
      | None => None
      end
    end
  else None.

Definition dec_conv : numconv := mkConv dec_int dec_float.

(* ================================================================ float64 -> shortest decimal (FormatFloat(v,'f',-1,64)) *)
Definition ndigits (n : N) : Z := Z.of_nat (List.length (fmt_nat n)).

(* p with 10^(p-1) <= num/den < 10^p, for num/den > 0 *)
Definition dec_exp (num den : N) : Z :=
  if den <=? num then ndigits (num / den)
  else
    let k := ndigits (den / num) in
    if num * 10 ^ Z.to_N (k - 1) =? den then (2 - k)%Z else (1 - k)%Z.

Definition opt_n_eqb (a : option N) (b : N) : bool := match a with Some x => x =? b | None => false end.

(* try n, n+1, ... significant digits; result (c, q): the decimal c / 10^q; None = fuel exhausted (17 digits
   always suffice, so this is not reached from shortest) *)
Fixpoint shortest_loop (fuel : nat) (n : Z) (num den : N) (p : Z) (bits : N) : option (N * Z) :=
  match fuel with
  | O => None
  | S f =>
    let q := (n - p)%Z in
    let '(sn, sd) := if (0 <=? q)%Z then (num * 10 ^ Z.to_N q, den) else (num, den * 10 ^ Z.to_N (- q)) in
    let down := sn / sd in
    let r := sn mod sd in
    if r =? 0 then Some (down, q)
    else
      let up := down + 1 in
      let okd := (0 <? down) && opt_n_eqb (dec_to_bits down q) bits in
      let oku := opt_n_eqb (dec_to_bits up q) bits in
      if okd && oku then
        (if sd <? 2 * r then Some (up, q)
         else if 2 * r =? sd then Some ((if N.even down then down else up), q)
         else Some (down, q))
      else if okd then Some (down, q)
      else if oku then Some (up, q)
      else shortest_loop f (n + 1) num den p bits
  end.

Definition fin_ratio (m : N) (e : Z) : N * N :=
  if (0 <=? e)%Z then (m * 2 ^ Z.to_N e, 1) else (m, 2 ^ Z.to_N (- e)).

Definition shortest (m : N) (e : Z) : option (N * Z) :=
  let '(num, den) := fin_ratio m e in
  shortest_loop 17 1 num den (dec_exp num den) (bits_of_fl (FFin false m e)).

Fixpoint strip_zeros_rev (l : bytes) : bytes :=   (* l is reversed: drop leading '0's *)
  match l with
  | c :: r => if c =? 48 then strip_zeros_rev r else l
  | [] => []
  end.
Definition strip_trailing_zeros (l : bytes) : bytes := rev (strip_zeros_rev (rev l)).

Definition zero_pad (width : nat) (l : bytes) : bytes := repeat 48 (width - List.length l) ++ l.

(* %f rendering of c / 10^q *)
Definition render_dec (c : N) (q : Z) : bytes :=
  if (q <=? 0)%Z then fmt_nat (c * 10 ^ Z.to_N (- q))
  else
    let w := 10 ^ Z.to_N q in
    let ip := c / w in
    let fp := c mod w in
    fmt_nat ip ++
    (if fp =? 0 then [] else 46 :: strip_trailing_zeros (zero_pad (Z.to_nat q) (fmt_nat fp))).

Definition fmt_float_abs (m : N) (e : Z) : bytes :=
  if m =? 0 then [48]
  else match shortest m e with
       | Some (c, q) => render_dec c q
       | None => [63]      (* '?': never produced; would show as a correspondence mismatch *)
       end.

(* Float.Inspect *)
Definition fmt_float (f : fl) : bytes :=
  match f with
  | FNaN => B"NaN"
  | FInf false => B"+Inf"
  | FInf true => B"-Inf"
  | FFin neg m e => (if neg then [45] else []) ++ fmt_float_abs m e
  end.

(* ================================================================ Inspect of data values *)
Fixpoint join_with (sep : bytes) (l : list bytes) : bytes :=
  match l with
  | [] => []
  | [x] => x
  | x :: r => x ++ sep ++ join_with sep r
  end.

Fixpoint inspect (v : value) {struct v} : bytes :=
  match v with
  | VInt z => fmt_int z
  | VFloat f => fmt_float f
  | VBool b => if b then B"true" else B"false"
  | VNil => B"nil"
  | VStr s => go_quote s
  | VArr l => [91] ++ join_with [44] (map inspect l) ++ [93]
  | VMap l =>
    [123] ++
    join_with [44]
      ((fix go (ps : list (value * value)) : list bytes :=
          match ps with
          | [] => []
          | (k, x) :: r => (inspect k ++ [58] ++ inspect x) :: go r
          end) l) ++ [125]
  | VTxt _ s => s       (* text-carrying objects print their text; they are not data *)
  end.

Definition save_line (k : bytes) (v : value) : bytes := k ++ [61] ++ inspect v.

(* ================================================================ Function.Inspect *)
(* the node whose token the text of a statement starts with (lambdaBodyNeedsBraces) *)
Fixpoint leftmost (n : node) {struct n} : node :=
  match n with
  | NInfix _ (Some l) _ => leftmost l
  | NCall _ (Some f) _ => leftmost f
  | NIndex _ (Some l) _ => leftmost l
  | _ => n
  end.

(* None = Go panic (nil statement / nil token) *)
Definition lambda_body_needs_braces (stmt : option node) : option bool :=
  match stmt with
  | None => None
  | Some s =>
    match s with
    | NReturn _ _ | NComment _ _ _ => Some true
    | _ =>
      let low :=
        match s with
        | NInfix t _ _ =>
          (match table_get precedences (ttype t) with Some p => Z.ltb p ast_LAMBDA | None => true end)
        | _ => false
        end in
      if low then Some true
      else match node_tok (leftmost s) with
           | Some t => Some (Z.eqb (ttype t) token_LBRACE || Z.eqb (ttype t) token_LAMBDA)
           | None => None
           end
    end
  end.

Definition pst_from (out : bytes) : pst := mkPst out 0 0 false true false None [] false.

(* Function.Inspect: named = definition form with the name; otherwise the cache key (lambda form) *)
Definition func_text (name : option bytes) (params : option (list (option node))) (body : option node)
  : option bytes :=
  match body with
  | Some (NStmts stmts) =>
    match name with
    | Some nm =>
      match coma_list_with pp params (pst_from (B"func " ++ nm ++ B"(")) with
      | None => None
      | Some ps1 =>
        match pp (NStmts stmts) (raw_write ps1 B"){") with
        | None => None
        | Some ps2 => Some (p_out ps2 ++ B"}")
        end
      end
    | None =>
      let np := List.length (match params with Some l => l | None => [] end) in
      let paren := negb (Nat.eqb np 1) in
      match coma_list_with pp params (pst_from (if paren then B"(" else [])) with
      | None => None
      | Some ps1 =>
        let ps2 := raw_write ps1 (if paren then B")=>" else B"=>") in
        let braces :=
          match stmts with
          | [s] => lambda_body_needs_braces s
          | _ => Some true
          end in
        match braces with
        | None => None
        | Some br =>
          match pp (NStmts stmts) (if br then raw_write ps2 B"{" else ps2) with
          | None => None
          | Some ps3 => Some (p_out ps3 ++ (if br then B"}" else []))
          end
        end
      end
    end
  | _ => None    (* f.Body is a nil *Statements: nil dereference *)
  end.

(* ================================================================ SaveGlobals *)
Inductive sval : Type :=
| SData (v : value)                      (* a data value: printed by [inspect] *)
| SFunc (name : option bytes) (params : option (list (option node))) (body : option node)
                                         (* a grol function: printed by [func_text] *)
| SOpaque (named : bool) (text : bytes). (* anything else: Inspect() text supplied by the harness; named = a
                                            function whose own name is the key *)

(* object.Constant *)
Fixpoint constant_tail (s : bytes) : bool :=
  match s with
  | [] => true
  | c :: r => ((c =? 95) || is_digit c || ((65 <=? c) && (c <=? 90))) && constant_tail r
  end.
Definition constant_name (s : bytes) : bool :=
  match s with
  | [] => true
  | c :: r => (65 <=? c) && (c <=? 90) && constant_tail r
  end.

(* isConstantAndExtraIdentifier *)
Definition const_extra (extras : list bytes) (k : bytes) : bool :=
  constant_name k && existsb (beqb k) extras.

(* Go string comparison (bytewise) *)
Fixpoint bytes_ltb (a b : bytes) : bool :=
  match a, b with
  | [], [] => false
  | [], _ :: _ => true
  | _ :: _, [] => false
  | x :: a', y :: b' => if x <? y then true else if y <? x then false else bytes_ltb a' b'
  end.

Fixpoint insert_key {A} (k : bytes) (v : A) (l : list (bytes * A)) : list (bytes * A) :=
  match l with
  | [] => [(k, v)]
  | (k', v') :: r => if bytes_ltb k' k then (k', v') :: insert_key k v r else (k, v) :: l
  end.

(* slices.Sort(keys) *)
Definition sort_keys {A} (l : list (bytes * A)) : list (bytes * A) :=
  fold_right (fun kv acc => insert_key (fst kv) (snd kv) acc) [] l.

Inductive line_out : Type :=
| LSkipConst            (* a constant that is an extra identifier: never saved *)
| LSkipLong             (* longer than MaxValueLen: skipped as a whole *)
| LLine (l : bytes)     (* the line written, without the newline *)
| LPanic.               (* the printer dereferenced a nil child *)

Definition too_long (maxlen : Z) (val : bytes) : bool :=
  Z.ltb 0 maxlen && Z.ltb maxlen (Z.of_nat (List.length val)).

Definition kv_line (maxlen : Z) (k val : bytes) : line_out :=
  if too_long maxlen val then LSkipLong else LLine (k ++ [61] ++ val).

(* the printed form of a stored object (Object.Inspect); None = the printer panicked *)
Definition binding_text (v : sval) : option bytes :=
  match v with
  | SData d => Some (inspect d)
  | SFunc name params body => func_text name params body
  | SOpaque _ txt => Some txt
  end.

Fixpoint lookup_key {A} (k : bytes) (l : list (bytes * A)) : option A :=
  match l with
  | [] => None
  | (k', v) :: r => if beqb k' k then Some v else lookup_key k r
  end.

(* what a binding contributes before the length limit is looked at *)
Inductive btext : Type :=
| BConst               (* a constant that is an extra identifier: never saved *)
| BDef (l : bytes)     (* a definition line (named function under its own name): written whatever its length *)
| BVal (val : bytes)   (* name=val, subject to the limit *)
| BPanic.

(* [store]: the whole root environment (e.store): an alias of a named function is written with the inner name only
   while that name still denotes the same function (same printed form); otherwise in lambda form (fix 0adeef3) *)
Definition binding_out (store : list (bytes * sval)) (extras : list bytes) (k : bytes) (v : sval) : btext :=
  if const_extra extras k then BConst
  else
    match v with
    | SData d => BVal (inspect d)
    | SFunc None params body =>
      match func_text None params body with Some txt => BVal txt | None => BPanic end
    | SFunc (Some nm) params body =>
      match func_text (Some nm) params body with
      | None => BPanic
      | Some txt =>
        if beqb nm k then BDef txt
        else
          let same :=
            match lookup_key nm store with
            | Some (SData _) => Some false                      (* own.Type() != FUNC *)
            | Some own => match binding_text own with Some t => Some (beqb t txt) | None => None end
            | None => Some false
            end in
          match same with
          | None => BPanic
          | Some true => BVal txt
          | Some false => match func_text None params body with Some t => BVal t | None => BPanic end
          end
      end
    | SOpaque true txt => BDef txt
    | SOpaque false txt => BVal txt
    end.

Definition save_one (store : list (bytes * sval)) (maxlen : Z) (extras : list bytes) (k : bytes) (v : sval) : line_out :=
  match binding_out store extras k v with
  | BConst => LSkipConst
  | BDef l => LLine l
  | BVal val => kv_line maxlen k val
  | BPanic => LPanic
  end.

(* the write loop: output so far, number of ids written; None = panic *)
Fixpoint save_loop (store : list (bytes * sval)) (maxlen : Z) (extras : list bytes) (bs : list (bytes * sval))
  (out : bytes) (n : nat) : option (bytes * nat) :=
  match bs with
  | [] => Some (out, n)
  | (k, v) :: r =>
    match save_one store maxlen extras k v with
    | LSkipConst | LSkipLong => save_loop store maxlen extras r out n
    | LLine l => save_loop store maxlen extras r (out ++ l ++ [10]) (S n)
    | LPanic => None
    end
  end.

Definition save_globals (maxlen : Z) (extras : list bytes) (env : list (bytes * sval)) : option (bytes * nat) :=
  save_loop env maxlen extras (sort_keys env) [] O.

(* ================================================================ reading a saved data line back *)
Definition neg64 (z : Z) : Z := if Z.eqb z min_int64 then z else (- z)%Z.   (* -v on int64 wraps *)

Definition fl_neg (f : fl) : fl :=
  match f with
  | FNaN => FNaN
  | FInf n => FInf (negb n)
  | FFin n m e => FFin (negb n) m e
  end.

Definition vmap_elems (m : gmap value value) : list (value * value) := elems value value m.

(* evalMapLiteral: NewMapSize(len) then, per pair in source order: key, Equals(key,key) or error, value, Set *)
Fixpoint map_fill (ps : list (option value * option value)) (m : gmap value value) : option (gmap value value) :=
  match ps with
  | [] => Some m
  | (Some k, Some v) :: r =>
    match equals k k with
    | Val true =>
      match mset value value cmp_c m k v with
      | Val m' => map_fill r m'
      | GoPanic => None
      end
    | _ => None
    end
  | _ => None
  end.

Fixpoint all_some {A} (l : list (option A)) : option (list A) :=
  match l with
  | [] => Some []
  | Some x :: r => match all_some r with Some t => Some (x :: t) | None => None end
  | None :: _ => None
  end.

(* the evaluator on the trees data prints to; None = not such a tree, or an evaluation error *)
Fixpoint eval_lit (n : node) {struct n} : option value :=
  match n with
  | NInt _ v => Some (VInt v)
  | NFloat _ bits => Some (VFloat (fl_of_bits bits))
  | NString t => Some (VStr (tlit t))
  | NBool _ b => Some (VBool b)
  | NIdent t =>
    if beqb (tlit t) B"nil" then Some VNil
    else if beqb (tlit t) B"Inf" then Some (VFloat (FInf false))
    else if beqb (tlit t) B"NaN" then Some (VFloat FNaN)
    else None
  | NPrefix t (Some r) =>
    if Z.eqb (ttype t) token_MINUS then
      match eval_lit r with
      | Some (VInt z) => Some (VInt (neg64 z))
      | Some (VFloat f) => Some (VFloat (fl_neg f))
      | _ => None
      end
    else if Z.eqb (ttype t) token_PLUS then eval_lit r
    else None
  | NArray _ (Some els) =>
    match all_some (map (fun x => match x with Some m => eval_lit m | None => None end) els) with
    | Some vs => Some (VArr vs)
    | None => None
    end
  | NMap _ pairs =>
    let ps := map (fun kv => (match fst kv with Some k => eval_lit k | None => None end,
                              match snd kv with Some v => eval_lit v | None => None end)) pairs in
    match map_fill ps (mnew value value (Z.of_nat (List.length pairs))) with
    | Some m => Some (VMap (vmap_elems m))
    | None => None
    end
  | _ => None
  end.

Inductive rb_outcome : Type :=
| RbBinding (k : bytes) (v : value)   (* the line binds k to v *)
| RbReject                            (* parse error, continuation or parser panic *)
| RbNotLiteral                        (* accepted, but not name=<data literal> (or the literal evaluates to an error) *)
| RbOutside.                          (* a number literal outside dec_conv's plain decimal forms *)

Definition read_back_full (conv : numconv) (line : bytes) : rb_outcome :=
  match front_parse conv false line with
  | POk r =>
    if clean r then
      match pr_tree r with
      | [Some (NInfix t (Some (NIdent kt)) (Some rhs))] =>
        if Z.eqb (ttype t) token_ASSIGN then
          match eval_lit rhs with
          | Some v => RbBinding (tlit kt) v
          | None => RbNotLiteral
          end
        else RbNotLiteral
      | _ => RbNotLiteral
      end
    else RbReject
  | _ => RbReject
  end.

Definition read_back (conv : numconv) (line : bytes) : option (bytes * value) :=
  match read_back_full conv line with
  | RbBinding k v => Some (k, v)
  | _ => None
  end.

Definition number_tok_plain (t : ptok) : bool :=
  if Z.eqb (pty t) token_INT || Z.eqb (pty t) token_FLOAT then plain_decimal (tlit (pk t)) else true.

(* with the model's own number conversion *)
Definition read_back_dec (line : bytes) : rb_outcome :=
  if forallb number_tok_plain (front_tokens false line) then read_back_full dec_conv line else RbOutside.

(* ================================================================ reading a saved function line back *)
(* a function literal without parameters holds a nil or an empty slice depending on whether the tree went
   through ast.Modify: not a difference of the program *)
Fixpoint norm_fn (n : node) {struct n} : node :=
  let so := fun (x : option node) => match x with Some m => Some (norm_fn m) | None => None end in
  let ml := fix go (l : list (option node)) {struct l} : list (option node) :=
    match l with [] => [] | x :: r => so x :: go r end in
  let mol := fun (x : option (list (option node))) => match x with Some l => Some (ml l) | None => None end in
  match n with
  | NReturn t v => NReturn t (so v)
  | NStmts l => NStmts (ml l)
  | NPrefix t r => NPrefix t (so r)
  | NInfix t l r => NInfix t (so l) (so r)
  | NFor t c b => NFor t (so c) (so b)
  | NIf t c a b => NIf t (so c) (so a) (so b)
  | NBuiltin t ps => NBuiltin t (mol ps)
  | NFunc t nm ps b v l => NFunc t nm (match mol ps with None => Some [] | x => x end) (so b) v l
  | NCall t f a => NCall t (so f) (mol a)
  | NArray t e => NArray t (mol e)
  | NIndex t l i => NIndex t (so l) (so i)
  | NMap t ps =>
    NMap t ((fix go (l : list (option node * option node)) {struct l} :=
               match l with [] => [] | (k, v) :: r => (so k, so v) :: go r end) ps)
  | NMacro t ps b => NMacro t (mol ps) (so b)
  | other => other
  end.

Definition canon_tree (n : node) : node := norm_fn (strip_comments n).

Definition opt_bytes_eqb (a b : option bytes) : bool :=
  match a, b with
  | Some x, Some y => beqb x y
  | None, None => true
  | _, _ => false
  end.

(* same parameters / body / name / variadic flag, modulo comments (compact form omits them) *)
Definition same_function (name : option bytes) (variadic : bool) (params : option (list (option node)))
           (body : option node) (got : node) : bool :=
  match got, body with
  | NFunc _ nm ps (Some bd) v _, Some b0 =>
    opt_bytes_eqb name (match nm with Some t => Some (tlit t) | None => None end) &&
    Bool.eqb variadic v &&
    node_eqb (canon_tree (NStmts (match params with Some l => l | None => [] end)))
             (canon_tree (NStmts (match ps with Some l => l | None => [] end))) &&
    node_eqb (canon_tree b0) (canon_tree bd)
  | _, _ => false
  end.

(* the saved form of a function (as the value of key "k" when it is not a definition) and whether it reads back
   as the same function *)
Definition func_roundtrip (conv : numconv) (name : option bytes) (variadic : bool)
           (params : option (list (option node))) (body : option node) : rt_result * option bytes :=
  match func_text name params body with
  | None => (RtPrintPanic, None)
  | Some txt =>
    let line := match name with Some _ => txt | None => B"k=" ++ txt end in
    match front_parse conv false line with
    | POk r =>
      if clean r then
        match pr_tree r with
        | [Some (NFunc t nm ps bd v l)] =>
          if same_function name variadic params body (NFunc t nm ps bd v l) then (RtSame, Some txt) else (RtDiffers, Some txt)
        | [Some (NInfix t (Some (NIdent _)) (Some (NFunc t' nm ps bd v l)))] =>
          if Z.eqb (ttype t) token_ASSIGN then
            if same_function name variadic params body (NFunc t' nm ps bd v l) then (RtSame, Some txt) else (RtDiffers, Some txt)
          else (RtRejected, Some txt)
        | _ => (RtRejected, Some txt)
        end
      else (RtRejected, Some txt)
    | _ => (RtRejected, Some txt)
    end
  end.

(* ================================================================ the domain of the round-trip claim *)
(* strictly increasing keys in the order of object.Cmp (how SmallMap / BigMap store them) *)
Fixpoint keys_sorted (l : list (value * value)) : bool :=
  match l with
  | [] => true
  | (k, _) :: r =>
    match r with
    | [] => true
    | (k', _) :: _ => (match cmp_c k k' with Lt => true | _ => false end) && keys_sorted r
    end
  end.

(* an integral float below 2^63 prints like an integer (and -0 like -0): reloads as INTEGER *)
Definition prints_like_int (f : fl) : bool :=
  match f with
  | FFin _ m e =>
    let t := fmt_float_abs m e in
    forallb is_digit t && match dec_int t with Some _ => true | None => false end
  | _ => false
  end.

Definition fl_abs (f : fl) : fl :=
  match f with
  | FNaN => FNaN
  | FInf _ => FInf false
  | FFin _ m e => FFin false m e
  end.

(* the decoded form of a float64, and of its magnitude (what the literal without the sign denotes) *)
Definition fl_wf (f : fl) : bool := fl_canonical f && fl_canonical (fl_abs f).

(* the text of the magnitude is one of the plain decimal forms (it always is: decidable guard, not a theorem) *)
Definition text_plain (f : fl) : bool :=
  match f with
  | FFin _ m e => plain_decimal (fmt_float_abs m e)
  | _ => true
  end.

Definition float_in_domain (f : fl) : bool := fl_wf f && text_plain f && negb (prints_like_int f).

Fixpoint in_domain (v : value) {struct v} : bool :=
  match v with
  | VInt z => in_int64 z && negb (Z.eqb z min_int64)
  | VFloat f => float_in_domain f
  | VBool _ | VNil => true
  | VStr s => quote_in_domain s && forallb (fun c => c <? 256) s
  | VArr l => forallb in_domain l
  | VMap l =>
    keys_sorted l &&
    (fix go (ps : list (value * value)) : bool :=
       match ps with
       | [] => true
       | (k, x) :: r =>
         in_domain k && (match equals k k with Val true => true | _ => false end) && in_domain x && go r
       end) l
  | VTxt _ _ => false
  end.

(* every well-formed data value: as in_domain, without the two exclusions (min-int64, floats that print like
   integers).  The round trip stated over all_data is the FULL claim; it is refuted on exactly those two. *)
Fixpoint all_data (v : value) {struct v} : bool :=
  match v with
  | VInt z => in_int64 z
  | VFloat f => fl_wf f && text_plain f
  | VBool _ | VNil => true
  | VStr s => quote_in_domain s && forallb (fun c => c <? 256) s
  | VArr l => forallb all_data l
  | VMap l =>
    keys_sorted l &&
    (fix go (ps : list (value * value)) : bool :=
       match ps with
       | [] => true
       | (k, x) :: r =>
         all_data k && (match equals k k with Val true => true | _ => false end) && all_data x && go r
       end) l
  | VTxt _ _ => false
  end.

(* the part without finite floats (infinities and NaN are allowed: they print as identifiers), for which the
   round trip is proved for every value *)
Fixpoint no_finite_float (v : value) {struct v} : bool :=
  match v with
  | VFloat (FFin _ _ _) => false
  | VArr l => forallb no_finite_float l
  | VMap l =>
    (fix go (ps : list (value * value)) : bool :=
       match ps with [] => true | (k, x) :: r => no_finite_float k && no_finite_float x && go r end) l
  | VTxt _ _ => false
  | _ => true
  end.

(* a name the lexer reads as one identifier token that is not a keyword *)
Definition good_name (k : bytes) : bool :=
  match k with
  | [] => false
  | c :: r => isLetter c && forallb IsAlphaNum r && Z.eqb (lookup_ident k) token_IDENT
  end.

(* structural equality of values *)
Fixpoint value_eqb (a b : value) {struct a} : bool :=
  match a, b with
  | VInt x, VInt y => Z.eqb x y
  | VFloat x, VFloat y => fl_eqb x y
  | VBool x, VBool y => Bool.eqb x y
  | VNil, VNil => true
  | VStr x, VStr y => beqb x y
  | VArr x, VArr y =>
    (fix go (l m : list value) {struct l} : bool :=
       match l, m with
       | [], [] => true
       | p :: l', q :: m' => value_eqb p q && go l' m'
       | _, _ => false
       end) x y
  | VMap x, VMap y =>
    (fix go (l m : list (value * value)) {struct l} : bool :=
       match l, m with
       | [], [] => true
       | (k, v) :: l', (k', v') :: m' => value_eqb k k' && value_eqb v v' && go l' m'
       | _, _ => false
       end) x y
  | _, _ => false
  end.

(* does the saved line of v, read back with the model's own number conversion, bind k to v again? *)
Definition reads_back (k : bytes) (v : value) : bool :=
  match read_back_dec (save_line k v) with
  | RbBinding k' v' => beqb k k' && value_eqb v v'
  | _ => false
  end.

(* ================================================================ repl.AutoLoad: the state file, one evaluation per line *)
(* bufio.ScanLines: the text between newlines, a trailing carriage return dropped; a last line without newline counts
   when it is not empty *)
Fixpoint split_at_nl (cur : bytes) (l : bytes) : list bytes :=
  match l with
  | [] => match cur with [] => [] | _ => [rev cur] end
  | c :: r => if c =? 10 then rev cur :: split_at_nl [] r else split_at_nl (c :: cur) r
  end.

Definition strip_cr (l : bytes) : bytes :=
  match rev l with
  | c :: r => if c =? 13 then rev r else l
  | [] => l
  end.

Definition scan_lines (file : bytes) : list bytes := map strip_cr (split_at_nl [] file).

(* Environment.Set at the root: replace the binding of k, or create it *)
Fixpoint upsert (k : bytes) (v : value) (st : list (bytes * value)) : list (bytes * value) :=
  match st with
  | [] => [(k, v)]
  | (k', v') :: r => if beqb k' k then (k, v) :: r else (k', v') :: upsert k v r
  end.

(* one line: eval.EvalString; an error is logged and the line skipped (the loop goes on) *)
Definition load_line (conv : numconv) (st : list (bytes * value)) (line : bytes) : list (bytes * value) :=
  match read_back conv line with
  | Some (k, v) => upsert k v st
  | None => st
  end.

(* the data globals bound by auto-loading a state file into a fresh session (data lines only: a line that is not
   name=<data literal> leaves the data globals as they are) *)
Definition autoload (conv : numconv) (file : bytes) : list (bytes * value) :=
  fold_left (load_line conv) (scan_lines file) [].

(* the root environment holding exactly the data globals env *)
Definition data_store (env : list (bytes * value)) : list (bytes * sval) :=
  map (fun kv => (fst kv, SData (snd kv))) env.
