(* Memo_closed.v - on the closed fragment ([closed_hist]) cache on and cache off agree (C04_partial).
   Route: a pure evaluator [peval] for closed bodies (no heap, no cache: the behaviour of a closed body is a
   function of its text and its arguments only - the coincidence lemma is [closed_off] / [closed_on]),
   every cache entry is a [peval] result ([cache_ok]), and the root-level evaluation of the two runs proceeds
   in lockstep ([root_sim]). *)
From Coq Require Import List ZArith NArith Bool Arith Lia.
From GrolGen Require Import Gen_Consts.
From GrolModel Require Import Memo.
From GrolProofs Require Import Memo_proofs.
Import ListNotations.

(* ================================================================ pure evaluator of closed bodies *)
Fixpoint lookup (env : list (ident * value)) (x : ident) : option value :=
  match env with
  | [] => None
  | (y, v) :: env' => if bytes_eqb y x then Some v else lookup env' x
  end.

Section Pure.
  Variable fd : fdef.

  Section PE.
    Variable pe : list (ident * value) -> expr -> outcome * bytes.
    Fixpoint peval_list (env : list (ident * value)) (es : list expr) : outcome * list value * bytes :=
      match es with
      | [] => (OVal VNil, [], [])
      | e :: es' =>
          let (oc, out) := pe env e in
          match oc with
          | OVal v =>
              if is_err v then (oc, [], out)
              else let '(oc2, vs, out2) := peval_list env es' in (oc2, v :: vs, out ++ out2)
          | _ => (oc, [], out)
          end
      end.
  End PE.

  (* one step, given the evaluator [pe] with one unit of fuel less ([f] = that smaller amount) *)
  Definition peval_step (pe : list (ident * value) -> expr -> outcome * bytes) (f : nat)
             (env : list (ident * value)) (e : expr) : outcome * bytes :=
    match e with
    | ELit v => (OVal v, [])
    | EVar x => match lookup env x with Some v => (OVal v, []) | None => (OStuck, []) end
    | ECall (EVar _) args =>
        match f with
        | O => (OFuel, [])
        | S _ =>
            let '(oc, vals, out) := peval_list pe env args in
            match oc with
            | OVal av =>
                if is_err av then (OVal av, out)
                else if negb (Nat.eqb (length vals) (length (fd_params fd))) then (OVal (VErr err_msg), out)
                else let (ob, outb) := pe (combine (fd_params fd) vals) (fd_body fd) in (ob, out ++ outb)
            | _ => (oc, out)
            end
        end
    | EArr es =>
        let '(oc, vals, out) := peval_list pe env es in
        match oc with
        | OVal av => if is_err av then (OVal av, out) else (OVal (VArr vals), out)
        | _ => (oc, out)
        end
    | EBin o a b =>
        let (o1, out1) := pe env a in
        match o1 with
        | OVal v1 =>
            if is_err v1 then (OVal v1, out1)
            else
              let (o2, out2) := pe env b in
              match o2 with
              | OVal v2 => if is_err v2 then (OVal v2, out1 ++ out2) else (bin_op o v1 v2, out1 ++ out2)
              | _ => (o2, out1 ++ out2)
              end
        | _ => (o1, out1)
        end
    | EIf c a b =>
        let (oc, outc) := pe env c in
        match oc with
        | OVal (VBool t) => let (ob, outb) := pe env (if t then a else b) in (ob, outc ++ outb)
        | OVal _ => (OVal (VErr err_msg), outc)
        | _ => (oc, outc)
        end
    | ESeq a b =>
        let (o1, out1) := pe env a in
        match o1 with
        | OVal v1 => if is_err v1 then (o1, out1) else let (o2, out2) := pe env b in (o2, out1 ++ out2)
        | _ => (o1, out1)
        end
    | EPrint es =>
        let '(oc, vals, out) := peval_list pe env es in
        match oc with
        | OVal av =>
            if is_err av then (OVal av, out)
            else match all_some (map print_form vals) with
                 | Some parts => (OVal VNil, out ++ join [32%N] parts)
                 | None => (OStuck, out)
                 end
        | _ => (oc, out)
        end
    | EError s => (OVal (VErr s), [])
    | _ => (OStuck, [])
    end.

  Fixpoint peval (fuel : nat) (env : list (ident * value)) (e : expr) {struct fuel} : outcome * bytes :=
    match fuel with
    | O => (OFuel, [])
    | S f => peval_step (peval f) f env e
    end.
  Lemma peval_S : forall f env e, peval (S f) env e = peval_step (peval f) f env e.
  Proof. reflexivity. Qed.

  (* ---- more fuel never changes a finished result ---- *)
  Definition mono_at (f : nat) : Prop :=
    forall env e oc out, peval f env e = (oc, out) -> oc <> OFuel -> peval (S f) env e = (oc, out).

  Lemma peval_list_mono : forall f, mono_at f ->
    forall es env oc vals out, peval_list (peval f) env es = (oc, vals, out) -> oc <> OFuel ->
                               peval_list (peval (S f)) env es = (oc, vals, out).
  Proof.
    intros f Hm. induction es as [|e es IH]; intros env oc vals out H Hn.
    - simpl in *. auto.
    - cbn [peval_list] in *. destruct (peval f env e) as [o1 out1] eqn:E1.
      destruct o1 as [v| |].
      + rewrite (Hm _ _ _ _ E1) by discriminate.
        destruct (is_err v); auto.
        destruct (peval_list (peval f) env es) as [[oc2 vs] out2] eqn:E2.
        inversion H; subst. rewrite (IH _ _ _ _ E2 Hn). reflexivity.
      + rewrite (Hm _ _ _ _ E1) by discriminate. auto.
      + inversion H; subst. congruence.
  Qed.

  Lemma peval_mono1 : forall f, mono_at f.
  Proof.
    induction f as [|f IH]; intros env e oc out H Hn.
    { simpl in H. inversion H; subst. congruence. }
    pose proof (peval_list_mono f IH) as IHL.
    rewrite peval_S in *. unfold peval_step in *.
    destruct e; auto.
    - (* ECall *)
      destruct e; auto.
      destruct f as [|f']; [inversion H; subst; congruence|].
      destruct (peval_list (peval (S f')) env args) as [[oc1 vals] out1] eqn:EL.
      destruct oc1 as [av| |].
      + rewrite (IHL _ _ _ _ _ EL) by discriminate.
        destruct (is_err av); auto.
        destruct (negb (length vals =? length (fd_params fd))); auto.
        destruct (peval (S f') (combine (fd_params fd) vals) (fd_body fd)) as [ob outb] eqn:EB.
        inversion H; subst. rewrite (IH _ _ _ _ EB Hn). reflexivity.
      + rewrite (IHL _ _ _ _ _ EL) by discriminate. auto.
      + inversion H; subst. congruence.
    - (* EArr *)
      destruct (peval_list (peval f) env es) as [[oc1 vals] out1] eqn:EL.
      destruct oc1 as [av| |].
      + rewrite (IHL _ _ _ _ _ EL) by discriminate. auto.
      + rewrite (IHL _ _ _ _ _ EL) by discriminate. auto.
      + inversion H; subst. congruence.
    - (* EBin *)
      destruct (peval f env e1) as [o1 out1] eqn:E1. destruct o1 as [v1| |].
      + rewrite (IH _ _ _ _ E1) by discriminate. destruct (is_err v1); auto.
        destruct (peval f env e2) as [o2 out2] eqn:E2. destruct o2 as [v2| |].
        * rewrite (IH _ _ _ _ E2) by discriminate. auto.
        * rewrite (IH _ _ _ _ E2) by discriminate. auto.
        * inversion H; subst. congruence.
      + rewrite (IH _ _ _ _ E1) by discriminate. auto.
      + inversion H; subst. congruence.
    - (* EIf *)
      destruct (peval f env e1) as [o1 out1] eqn:E1. destruct o1 as [v1| |].
      + rewrite (IH _ _ _ _ E1) by discriminate. destruct v1; auto.
        destruct (peval f env (if b then e2 else e3)) as [ob outb] eqn:E2.
        inversion H; subst. rewrite (IH _ _ _ _ E2 Hn). reflexivity.
      + rewrite (IH _ _ _ _ E1) by discriminate. auto.
      + inversion H; subst. congruence.
    - (* ESeq *)
      destruct (peval f env e1) as [o1 out1] eqn:E1. destruct o1 as [v1| |].
      + rewrite (IH _ _ _ _ E1) by discriminate. destruct (is_err v1); auto.
        destruct (peval f env e2) as [o2 out2] eqn:E2.
        inversion H; subst. rewrite (IH _ _ _ _ E2 Hn). reflexivity.
      + rewrite (IH _ _ _ _ E1) by discriminate. auto.
      + inversion H; subst. congruence.
    - (* EPrint *)
      destruct (peval_list (peval f) env es) as [[oc1 vals] out1] eqn:EL.
      destruct oc1 as [av| |].
      + rewrite (IHL _ _ _ _ _ EL) by discriminate. auto.
      + rewrite (IHL _ _ _ _ _ EL) by discriminate. auto.
      + inversion H; subst. congruence.
  Qed.

  Lemma peval_mono : forall f g env e oc out, peval f env e = (oc, out) -> oc <> OFuel -> f <= g -> peval g env e = (oc, out).
  Proof.
    intros f g env e oc out H Hn Hle. induction Hle; auto. apply peval_mono1; auto.
  Qed.
  Lemma peval_list_mono_le : forall f g es env oc vals out,
    peval_list (peval f) env es = (oc, vals, out) -> oc <> OFuel -> f <= g -> peval_list (peval g) env es = (oc, vals, out).
  Proof.
    intros f g es env oc vals out H Hn Hle. induction Hle; auto. apply peval_list_mono; auto. apply peval_mono1.
  Qed.
  (* two finished evaluations agree *)
  Lemma peval_det : forall f g env e o1 out1 o2 out2,
    peval f env e = (o1, out1) -> peval g env e = (o2, out2) -> o1 <> OFuel -> o2 <> OFuel -> o1 = o2 /\ out1 = out2.
  Proof.
    intros. assert (A : peval (max f g) env e = (o1, out1)) by (eapply peval_mono; eauto; lia).
    assert (B : peval (max f g) env e = (o2, out2)) by (eapply peval_mono; eauto; lia).
    rewrite A in B. inversion B. auto.
  Qed.
End Pure.

(* ================================================================ small facts about stores and heaps *)
Lemma bytes_eqb_sym : forall a b, bytes_eqb a b = bytes_eqb b a.
Proof.
  induction a as [|x a IH]; destruct b as [|y b]; simpl; auto. rewrite N.eqb_sym, IH. auto.
Qed.
Lemma bytes_eqb_neq : forall a b, bytes_eqb a b = false -> a <> b.
Proof. intros a b H E. subst. rewrite bytes_eqb_refl in H. discriminate. Qed.

Lemma find_put_same : forall s x c, find_cell (put_cell s x c) x = Some c.
Proof.
  induction s as [|[y c0] s IH]; simpl; intros.
  - rewrite bytes_eqb_refl. auto.
  - destruct (bytes_eqb y x) eqn:E; simpl; rewrite E; auto.
Qed.
Lemma find_put_other : forall s x y c, bytes_eqb x y = false -> find_cell (put_cell s x c) y = find_cell s y.
Proof.
  induction s as [|[z c0] s IH]; simpl; intros x y c H.
  - rewrite H. auto.
  - destruct (bytes_eqb z x) eqn:E; simpl.
    + apply bytes_eqb_eq in E. subst. rewrite H. auto.
    + destruct (bytes_eqb z y); auto.
Qed.

Lemma lookup_combine_none : forall ps vs x, mem_ident x ps = false -> lookup (combine ps vs) x = None.
Proof.
  induction ps as [|p ps IH]; simpl; intros vs x H; auto.
  destruct vs as [|v vs]; simpl; auto.
  apply orb_false_elim in H. destruct H as [H1 H2]. rewrite H1. auto.
Qed.
Lemma lookup_combine_some : forall ps vs x, length vs = length ps -> mem_ident x ps = true -> lookup (combine ps vs) x <> None.
Proof.
  induction ps as [|p ps IH]; simpl; intros vs x HL H; try discriminate.
  destruct vs as [|v vs]; simpl in *; try discriminate.
  destruct (bytes_eqb p x); [discriminate|]. simpl in H. apply IH; auto.
Qed.

Definition bind_store (s : list (ident * cell)) (env : list (ident * value)) : list (ident * cell) :=
  fold_left (fun s pv => put_cell s (fst pv) (CVal (snd pv))) env s.

Lemma find_bind_store : forall ps vs s x, nodup_idents ps = true ->
  find_cell (bind_store s (combine ps vs)) x =
  match lookup (combine ps vs) x with Some v => Some (CVal v) | None => find_cell s x end.
Proof.
  induction ps as [|p ps IH]; simpl; intros vs s x ND; auto.
  destruct vs as [|v vs]; simpl; auto.
  apply andb_prop in ND. destruct ND as [N1 N2]. apply negb_true_iff in N1.
  unfold bind_store in *. simpl. rewrite IH; auto.
  destruct (bytes_eqb p x) eqn:E.
  - apply bytes_eqb_eq in E. subst. rewrite lookup_combine_none; auto. apply find_put_same.
  - destruct (lookup (combine ps vs) x); auto. apply find_put_other; auto.
Qed.

Lemma nth_error_app_some : forall {A} (l l' : list A) i a, nth_error l i = Some a -> nth_error (l ++ l') i = Some a.
Proof.
  intros. rewrite nth_error_app1; auto. apply nth_error_Some. congruence.
Qed.
Lemma update_nth_last : forall {A} (h : list A) a g, update_nth (h ++ [a]) (length h) g = h ++ [g a].
Proof. induction h; simpl; intros; auto. rewrite IHh. auto. Qed.
Lemma nth_error_last : forall {A} (h : list A) a, nth_error (h ++ [a]) (length h) = Some a.
Proof. induction h; simpl; auto. Qed.

Lemma state_eta : forall st, mkState (st_heap st) (st_cache st) = st.
Proof. destruct st; auto. Qed.

Lemma closed_all_forallb : forall self params l,
  (fix all (l : list expr) : bool := match l with [] => true | a :: l' => closed_expr self params a && all l' end) l
  = forallb (closed_expr self params) l.
Proof. induction l; simpl; auto; try (rewrite IHl; auto). Qed.

Lemma mem_ident_in : forall x l, mem_ident x l = true -> exists y, In y l /\ bytes_eqb y x = true.
Proof.
  induction l as [|y l IH]; simpl; intros H; try discriminate.
  apply orb_prop in H. destruct H as [H|H]; eauto. destruct (IH H) as [z [A B]]. eauto.
Qed.

(* parameter binding of a closed function: no lookups, the new frame's store holds exactly the arguments *)
Lemma bind_closed : forall defs ps vs h f0 c b tr,
  forallb (fun p => negb (constant_name p)) ps = true ->
  length vs = length ps ->
  bind_params defs (mkState (h ++ [f0]) c) (length h) ps vs b tr =
    BOk b tr (mkState (h ++ [with_store f0 (bind_store (fr_store f0) (combine ps vs))]) c).
Proof.
  induction ps as [|p ps IH]; intros vs h f0 c b tr HC HL.
  - destruct vs; simpl in *; try discriminate. destruct f0; auto.
  - destruct vs as [|v vs]; simpl in HL; try discriminate. simpl in HC. apply andb_prop in HC. destruct HC as [H1 H2].
    apply negb_true_iff in H1. cbn [bind_params]. rewrite H1.
    unfold set_heap, set_cell. cbn [st_heap st_cache]. rewrite update_nth_last.
    rewrite IH; auto.
Qed.

Section ValueInd.
  Variable P : value -> Prop.
  Hypothesis Hint : forall z, P (VInt z).
  Hypothesis Hflt : forall f, P (VFlt f).
  Hypothesis Hstr : forall s, P (VStr s).
  Hypothesis Hbool : forall b, P (VBool b).
  Hypothesis Hnil : P VNil.
  Hypothesis Harr : forall l, Forall P l -> P (VArr l).
  Hypothesis Hfun : forall d e, P (VFun d e).
  Hypothesis Herr : forall m, P (VErr m).
  Fixpoint value_ind' (v : value) : P v :=
    match v with
    | VInt z => Hint z | VFlt f => Hflt f | VStr s => Hstr s | VBool b => Hbool b | VNil => Hnil
    | VArr l => Harr l ((fix go (l : list value) : Forall P l :=
                           match l with [] => Forall_nil P | x :: l' => Forall_cons x (value_ind' x) (go l') end) l)
    | VFun d e => Hfun d e | VErr m => Herr m
    end.
End ValueInd.

(* ================================================================ closed bodies: the coincidence lemma *)
Section Closed.
  Variable defs : list fdef.
  Hypothesis Hclosed : closed_hist defs = true.

  Lemma all_closed : forall d fd, nth_error defs d = Some fd -> closed_fn fd = true.
  Proof.
    intros d fd H. unfold closed_hist in Hclosed. apply andb_prop in Hclosed. destruct Hclosed as [A _].
    rewrite forallb_forall in A. apply A. eapply nth_error_In; eauto.
  Qed.

  Lemma mem_ident_map_in : forall (l : list fdef) fd, In fd l -> mem_ident (fd_key fd) (map fd_key l) = true.
  Proof.
    induction l as [|a l IH]; simpl; intros fd H; [contradiction|].
    destruct H as [->|H]; [rewrite bytes_eqb_refl; auto | rewrite IH; auto using orb_true_r].
  Qed.
  Lemma keys_inj_aux : forall (l : list fdef) i j a b,
    keys_distinct (map fd_key l) = true -> nth_error l i = Some a -> nth_error l j = Some b ->
    fd_key a = fd_key b -> i = j.
  Proof.
    induction l as [|x l IH]; intros i j a b HK Hi Hj E; [destruct i; discriminate|].
    simpl in HK. apply andb_prop in HK. destruct HK as [K1 K2]. apply negb_true_iff in K1.
    destruct i, j; simpl in *; auto.
    - inversion Hi; subst. apply nth_error_In in Hj. apply mem_ident_map_in in Hj. rewrite E in K1. congruence.
    - inversion Hj; subst. apply nth_error_In in Hi. apply mem_ident_map_in in Hi. rewrite <- E in K1. congruence.
    - f_equal. eapply IH; eauto.
  Qed.
  Lemma keys_inj : forall i j a b, nth_error defs i = Some a -> nth_error defs j = Some b -> fd_key a = fd_key b -> a = b.
  Proof.
    intros i j a b Hi Hj E. unfold closed_hist in Hclosed. apply andb_prop in Hclosed. destruct Hclosed as [_ K].
    assert (i = j) by (eapply keys_inj_aux; eauto). subst. congruence.
  Qed.

  (* every cache entry is the pure result of the one definition its key names *)
  Definition entry_ok (ce : centry) : Prop :=
    exists d fd k, nth_error defs d = Some fd /\ fd_key fd = ce_key ce /\
      length (ce_args ce) = length (fd_params fd) /\ forallb hashable (ce_args ce) = true /\
      has_function (ce_res ce) = false /\
      peval fd k (combine (fd_params fd) (ce_args ce)) (fd_body fd) = (OVal (ce_res ce), ce_out ce).
  Definition cache_ok (c : list centry) : Prop := Forall entry_ok c.

  Lemma cache_put_ok : forall c n, cache_ok c -> entry_ok n -> cache_ok (cache_put c n).
  Proof.
    induction c as [|ce c IH]; simpl; intros n HC HN; [repeat constructor; auto|].
    inversion HC; subst. destruct (ce_match (ce_key n) (ce_args n) ce); constructor; auto. apply IH; auto.
  Qed.

  Lemma value_goeq_eq : forall a b, hashable a = true -> hashable b = true -> value_goeq a b = true -> a = b.
  Proof.
    induction a using value_ind'; intros b0 Ha Hb HE; destruct b0; simpl in *; try discriminate.
    - apply Z.eqb_eq in HE. congruence.
    - destruct f, f0; simpl in *; try discriminate; auto; unfold fl_goeq in HE; simpl in HE; apply Z.eqb_eq in HE;
        try (f_equal; f_equal; lia); try lia.
    - apply bytes_eqb_eq in HE. congruence.
    - apply eqb_prop in HE. congruence.
    - reflexivity.
    - f_equal. apply andb_prop in Ha. destruct Ha as [_ Ha]. apply andb_prop in Hb. destruct Hb as [_ Hb].
      revert l0 Hb HE. induction l as [|x l IHl]; intros [|y m] Hb HE; try discriminate; auto.
      apply andb_prop in Ha. destruct Ha as [A1 A2]. apply andb_prop in Hb. destruct Hb as [B1 B2].
      apply andb_prop in HE. destruct HE as [H1 H2]. inversion H; subst. f_equal; auto.
  Qed.
  Lemma values_goeq_eq : forall l m, forallb hashable l = true -> forallb hashable m = true -> values_goeq l m = true -> l = m.
  Proof.
    induction l as [|x l IH]; intros [|y m] A B H; simpl in *; try discriminate; auto.
    apply andb_prop in A. destruct A. apply andb_prop in B. destruct B. apply andb_prop in H. destruct H.
    f_equal; auto using value_goeq_eq.
  Qed.

  Lemma key_ok_hashable : forall args, key_ok args = true -> forallb (fun p => negb (snd p)) args = true ->
    forallb hashable (map fst args) = true.
  Proof.
    intros args H _. unfold key_ok in H. apply andb_prop in H. destruct H as [_ H].
    rewrite forallb_forall in *. intros x Hx. apply in_map_iff in Hx. destruct Hx as [[a b] [E Hx]]. simpl in E. subst.
    apply H in Hx. unfold arg_hashable in Hx. apply andb_prop in Hx. tauto.
  Qed.

  Lemma cache_get_ok : forall c fd d args v o,
    cache_ok c -> nth_error defs d = Some fd -> cache_get c (fd_key fd) args = Some (v, o) ->
    forallb (fun p => negb (snd p)) args = true ->
    length (map fst args) = length (fd_params fd) /\ has_function v = false /\
    exists k, peval fd k (combine (fd_params fd) (map fst args)) (fd_body fd) = (OVal v, o).
  Proof.
    intros c fd d args v o HC Hd HG HR. unfold cache_get in HG.
    destruct (key_ok args) eqn:HK; try discriminate.
    destruct (find (ce_match (fd_key fd) (map fst args)) c) as [ce|] eqn:F; try discriminate.
    inversion HG; subst. apply find_some in F. destruct F as [Hin HM].
    unfold cache_ok in HC. rewrite Forall_forall in HC. destruct (HC _ Hin) as [d' [fd' [k [A [B [C [D [E G]]]]]]]].
    unfold ce_match in HM. apply andb_prop in HM. destruct HM as [M1 M2]. apply bytes_eqb_eq in M1.
    assert (fd' = fd) by (eapply keys_inj; eauto; congruence). subst fd'.
    assert (ce_args ce = map fst args) by (apply values_goeq_eq; auto using key_ok_hashable).
    rewrite H in *. split; auto. split; auto. eauto.
  Qed.

  (* the frame of a running closed function: it knows its function and holds exactly its arguments *)
  Definition frame_ok (h : heap) (fr d : nat) (fd : fdef) (env : list (ident * value)) : Prop :=
    exists frm envd, nth_error h fr = Some frm /\ fr_fn frm = Some (d, envd) /\ fr_key frm = fd_key fd /\
      forall x, find_cell (fr_store frm) x = match lookup env x with Some v => Some (CVal v) | None => None end.
  Lemma frame_ok_app : forall h extra fr d fd env, frame_ok h fr d fd env -> frame_ok (h ++ extra) fr d fd env.
  Proof.
    intros h extra fr d fd env [frm [envd [A B]]]. exists frm, envd. split; auto using nth_error_app_some.
  Qed.

  Definition dom_ok (fd : fdef) (env : list (ident * value)) : Prop :=
    forall x, mem_ident x (fd_params fd) = true -> lookup env x <> None.

  Lemma param_facts : forall fd x, closed_fn fd = true -> mem_ident x (fd_params fd) = true ->
    bytes_eqb x info_name = false /\ bytes_eqb x self_name = false /\
    match fd_name fd with Some n => bytes_eqb n x = false | None => True end.
  Proof.
    intros fd x HC HM. unfold closed_fn in HC. apply andb_prop in HC. destruct HC as [HC _].
    apply andb_prop in HC. destruct HC as [HC _]. rewrite forallb_forall in HC.
    apply mem_ident_in in HM. destruct HM as [y [Hy E]]. apply bytes_eqb_eq in E. subst y.
    apply HC in Hy. apply andb_prop in Hy. destruct Hy as [Hy H3]. apply andb_prop in Hy. destruct Hy as [H1 H2].
    apply negb_true_iff in H2, H3. unfold is_self in H2. apply orb_false_elim in H2. destruct H2 as [H2 H4].
    repeat split; auto. destruct (fd_name fd); auto.
  Qed.

  Lemma get_param : forall h fr d fd env x, nth_error defs d = Some fd -> frame_ok h fr d fd env -> dom_ok fd env ->
    mem_ident x (fd_params fd) = true ->
    exists v, lookup env x = Some v /\ get defs h fr x = GFound v false h 0 [].
  Proof.
    intros h fr d fd env x Hd [frm [envd [A [B [C D]]]]] HD HM.
    destruct (param_facts fd x (all_closed _ _ Hd) HM) as [P1 [P2 P3]].
    destruct (lookup env x) as [v|] eqn:L; [|exfalso; eapply HD; eauto].
    exists v. split; auto. unfold get. rewrite P1, A, P2.
    assert (O : own_name defs frm x = false).
    { unfold own_name. rewrite B, Hd. destruct (fd_name fd); auto. }
    rewrite O, D, L. auto.
  Qed.

  Lemma get_self : forall h fr d fd env x, nth_error defs d = Some fd -> frame_ok h fr d fd env ->
    is_self (fd_name fd) x = true -> bytes_eqb x info_name = false ->
    exists envd, get defs h fr x = GFound (VFun d envd) false h 0 [].
  Proof.
    intros h fr d fd env x Hd [frm [envd [A [B [C D]]]]] HS HI.
    exists envd. unfold get. rewrite HI, A. destruct (bytes_eqb x self_name) eqn:S; [rewrite B; auto|].
    unfold is_self in HS. rewrite S in HS. simpl in HS.
    assert (O : own_name defs frm x = true).
    { unfold own_name. rewrite B, Hd. destruct (fd_name fd); auto. discriminate. }
    rewrite O, B. auto.
  Qed.

  (* what an evaluation of a closed expression in its frame must satisfy *)
  Definition done (fd : fdef) (env : list (ident * value)) (e : expr) (r : res) (st st' : state) : Prop :=
    (exists k, peval fd k env e = (r_oc r, r_out r)) /\ r_ref r = false /\ r_log r = [] /\ r_miss r = 0 /\
    (exists extra, st_heap st' = st_heap st ++ extra) /\ cache_ok (st_cache st').
  Definition closed_spec (f : nat) : Prop :=
    forall on d fd st fr e env r st',
      nth_error defs d = Some fd -> frame_ok (st_heap st) fr d fd env -> dom_ok fd env ->
      closed_expr (is_self (fd_name fd)) (fd_params fd) e = true -> cache_ok (st_cache st) ->
      eval f on defs st fr e = (r, st') ->
      r_oc r = OFuel \/ done fd env e r st st'.

  Definition done_list (fd : fdef) (env : list (ident * value)) (es : list expr) (r : res) (vals : list (value * bool))
             (st st' : state) : Prop :=
    (exists k, peval_list fd (peval fd k) env es = (r_oc r, map fst vals, r_out r)) /\
    forallb (fun p => negb (snd p)) vals = true /\ r_log r = [] /\ r_miss r = 0 /\
    (exists extra, st_heap st' = st_heap st ++ extra) /\ cache_ok (st_cache st').

  Lemma closed_list : forall f, closed_spec f ->
    forall on d fd es st fr env r vals st',
      nth_error defs d = Some fd -> frame_ok (st_heap st) fr d fd env -> dom_ok fd env ->
      forallb (closed_expr (is_self (fd_name fd)) (fd_params fd)) es = true -> cache_ok (st_cache st) ->
      eval_list (eval f on defs) st fr es = (r, vals, st') ->
      r_oc r = OFuel \/ done_list fd env es r vals st st'.
  Proof.
    intros f HS on d fd. induction es as [|e es IH]; intros st fr env r vals st' Hd HF HD HC HK H.
    - simpl in H. inversion H; subst. right. repeat split; simpl; auto. exists 0. auto. exists []. rewrite app_nil_r. auto.
    - simpl in HC. apply andb_prop in HC. destruct HC as [C1 C2]. cbn [eval_list] in H.
      destruct (eval f on defs st fr e) as [r1 st1] eqn:E1.
      destruct (HS _ _ _ _ _ _ _ _ _ Hd HF HD C1 HK E1) as [F1|[[k1 P1] [R1 [L1 [M1 [[x1 X1] K1]]]]]].
      { rewrite F1 in H. inversion H; subst. auto. }
      destruct (r_oc r1) as [v| |] eqn:O1.
      + destruct (is_err v) eqn:EV.
        * inversion H; subst. right. repeat split; auto.
          -- exists k1. cbn [peval_list]. rewrite P1, EV. rewrite O1. auto.
          -- eauto.
        * destruct (eval_list (eval f on defs) st1 fr es) as [[r2 vs] st2] eqn:E2.
          assert (HF1 : frame_ok (st_heap st1) fr d fd env) by (rewrite X1; apply frame_ok_app; auto).
          destruct (IH _ _ _ _ _ _ Hd HF1 HD C2 K1 E2) as [F2|[[k2 P2] [R2 [L2 [M2 [[x2 X2] K2]]]]]].
          { inversion H; subst. left. simpl. auto. }
          inversion H; subst. right. repeat split; simpl; auto.
          -- exists (max k1 k2). cbn [peval_list].
             rewrite (peval_mono fd k1 (max k1 k2) _ _ _ _ P1) by (try discriminate; lia). rewrite EV.
             destruct (r_oc r2) eqn:O2.
             ++ rewrite (peval_list_mono_le fd k2 (max k1 k2) _ _ _ _ _ P2) by (try discriminate; lia). auto.
             ++ rewrite (peval_list_mono_le fd k2 (max k1 k2) _ _ _ _ _ P2) by (try discriminate; lia). auto.
             ++ (* OFuel of the rest: the pure list run out of fuel at k2; excluded below *)
                rewrite (peval_list_mono_le fd k2 (max k1 k2) _ _ _ _ _ P2); auto; try lia.
                (* cannot use mono for OFuel: handled separately *)
                admit.
          -- rewrite R1. simpl. auto.
          -- rewrite L1, L2. auto.
          -- lia.
          -- exists (x1 ++ x2). rewrite X2, X1, app_assoc. auto.
      + inversion H; subst. right. repeat split; auto.
        * exists k1. cbn [peval_list]. rewrite P1, O1. auto.
        * eauto.
      + inversion H; subst. rewrite O1. auto.
  Admitted.
End Closed.
