(* Memo_closed.v - on the closed fragment ([closed_hist]) cache on and cache off agree (C04_partial).
   Route: a pure evaluator [peval] for closed bodies (no heap, no cache: the behaviour of a closed body is a
   function of its text and its arguments only - the coincidence lemma is [closed_off] / [closed_on]),
   every cache entry is a [peval] result ([cache_ok]), and the root-level evaluation of the two runs proceeds
   in lockstep ([root_sim]). *)
From Coq Require Import List ZArith NArith Bool Arith Lia.
From GrolGen Require Import Gen_Consts.
From GrolModel Require Import Memo.
From GrolProofs Require Import Memo_proofs.
Import ListNotations.

(* ================================================================ pure evaluator of closed bodies *)
Fixpoint lookup (env : list (ident * value)) (x : ident) : option value :=
  match env with
  | [] => None
  | (y, v) :: env' => if bytes_eqb y x then Some v else lookup env' x
  end.

Section Pure.
  Variable fd : fdef.

  Section PE.
    Variable pe : list (ident * value) -> expr -> outcome * bytes.
    Fixpoint peval_list (env : list (ident * value)) (es : list expr) : outcome * list value * bytes :=
      match es with
      | [] => (OVal VNil, [], [])
      | e :: es' =>
          let (oc, out) := pe env e in
          match oc with
          | OVal v =>
              if is_err v then (oc, [], out)
              else let '(oc2, vs, out2) := peval_list env es' in (oc2, v :: vs, out ++ out2)
          | _ => (oc, [], out)
          end
      end.
  End PE.

  (* one step, given the evaluator [pe] with one unit of fuel less ([f] = that smaller amount) *)
  Definition peval_step (pe : list (ident * value) -> expr -> outcome * bytes) (f : nat)
             (env : list (ident * value)) (e : expr) : outcome * bytes :=
    match e with
    | ELit v => (OVal v, [])
    | EVar x => match lookup env x with Some v => (OVal v, []) | None => (OStuck, []) end
    | ECall (EVar _) args =>
        match f with
        | O => (OFuel, [])
        | S _ =>
            let '(oc, vals, out) := peval_list pe env args in
            match oc with
            | OVal av =>
                if is_err av then (OVal av, out)
                else if negb (Nat.eqb (length vals) (length (fd_params fd))) then (OVal (VErr err_msg), out)
                else let (ob, outb) := pe (combine (fd_params fd) vals) (fd_body fd) in (ob, out ++ outb)
            | _ => (oc, out)
            end
        end
    | EArr es =>
        let '(oc, vals, out) := peval_list pe env es in
        match oc with
        | OVal av => if is_err av then (OVal av, out) else (OVal (VArr vals), out)
        | _ => (oc, out)
        end
    | EBin o a b =>
        let (o1, out1) := pe env a in
        match o1 with
        | OVal v1 =>
            if is_err v1 then (OVal v1, out1)
            else
              let (o2, out2) := pe env b in
              match o2 with
              | OVal v2 => if is_err v2 then (OVal v2, out1 ++ out2) else (bin_op o v1 v2, out1 ++ out2)
              | _ => (o2, out1 ++ out2)
              end
        | _ => (o1, out1)
        end
    | EIf c a b =>
        let (oc, outc) := pe env c in
        match oc with
        | OVal (VBool t) => let (ob, outb) := pe env (if t then a else b) in (ob, outc ++ outb)
        | OVal _ => (OVal (VErr err_msg), outc)
        | _ => (oc, outc)
        end
    | ESeq a b =>
        let (o1, out1) := pe env a in
        match o1 with
        | OVal v1 => if is_err v1 then (o1, out1) else let (o2, out2) := pe env b in (o2, out1 ++ out2)
        | _ => (o1, out1)
        end
    | EPrint es =>
        let '(oc, vals, out) := peval_list pe env es in
        match oc with
        | OVal av =>
            if is_err av then (OVal av, out)
            else match all_some (map print_form vals) with
                 | Some parts => (OVal VNil, out ++ join [32%N] parts)
                 | None => (OStuck, out)
                 end
        | _ => (oc, out)
        end
    | EError s => (OVal (VErr s), [])
    | _ => (OStuck, [])
    end.

  Fixpoint peval (fuel : nat) (env : list (ident * value)) (e : expr) {struct fuel} : outcome * bytes :=
    match fuel with
    | O => (OFuel, [])
    | S f => peval_step (peval f) f env e
    end.
  Lemma peval_S : forall f env e, peval (S f) env e = peval_step (peval f) f env e.
  Proof. reflexivity. Qed.

  (* ---- more fuel never changes a finished result ---- *)
  Definition mono_at (f : nat) : Prop :=
    forall env e oc out, peval f env e = (oc, out) -> oc <> OFuel -> peval (S f) env e = (oc, out).

  Lemma peval_list_mono : forall f, mono_at f ->
    forall es env oc vals out, peval_list (peval f) env es = (oc, vals, out) -> oc <> OFuel ->
                               peval_list (peval (S f)) env es = (oc, vals, out).
  Proof.
    intros f Hm. induction es as [|e es IH]; intros env oc vals out H Hn.
    - simpl in *. auto.
    - cbn [peval_list] in *. destruct (peval f env e) as [o1 out1] eqn:E1.
      destruct o1 as [v| |].
      + rewrite (Hm _ _ _ _ E1) by discriminate.
        destruct (is_err v); auto.
        destruct (peval_list (peval f) env es) as [[oc2 vs] out2] eqn:E2.
        inversion H; subst. rewrite (IH _ _ _ _ E2 Hn). reflexivity.
      + rewrite (Hm _ _ _ _ E1) by discriminate. auto.
      + inversion H; subst. congruence.
  Qed.

  Lemma peval_mono1 : forall f, mono_at f.
  Proof.
    induction f as [|f IH]; intros env e oc out H Hn.
    { simpl in H. inversion H; subst. congruence. }
    pose proof (peval_list_mono f IH) as IHL.
    rewrite peval_S in *. unfold peval_step in *.
    destruct e; auto.
    - (* ECall *)
      destruct e; auto.
      destruct f as [|f']; [inversion H; subst; congruence|].
      destruct (peval_list (peval (S f')) env args) as [[oc1 vals] out1] eqn:EL.
      destruct oc1 as [av| |].
      + rewrite (IHL _ _ _ _ _ EL) by discriminate.
        destruct (is_err av); auto.
        destruct (negb (length vals =? length (fd_params fd))); auto.
        destruct (peval (S f') (combine (fd_params fd) vals) (fd_body fd)) as [ob outb] eqn:EB.
        inversion H; subst. rewrite (IH _ _ _ _ EB Hn). reflexivity.
      + rewrite (IHL _ _ _ _ _ EL) by discriminate. auto.
      + inversion H; subst. congruence.
    - (* EArr *)
      destruct (peval_list (peval f) env es) as [[oc1 vals] out1] eqn:EL.
      destruct oc1 as [av| |].
      + rewrite (IHL _ _ _ _ _ EL) by discriminate. auto.
      + rewrite (IHL _ _ _ _ _ EL) by discriminate. auto.
      + inversion H; subst. congruence.
    - (* EBin *)
      destruct (peval f env e1) as [o1 out1] eqn:E1. destruct o1 as [v1| |].
      + rewrite (IH _ _ _ _ E1) by discriminate. destruct (is_err v1); auto.
        destruct (peval f env e2) as [o2 out2] eqn:E2. destruct o2 as [v2| |].
        * rewrite (IH _ _ _ _ E2) by discriminate. auto.
        * rewrite (IH _ _ _ _ E2) by discriminate. auto.
        * inversion H; subst. congruence.
      + rewrite (IH _ _ _ _ E1) by discriminate. auto.
      + inversion H; subst. congruence.
    - (* EIf *)
      destruct (peval f env e1) as [o1 out1] eqn:E1. destruct o1 as [v1| |].
      + rewrite (IH _ _ _ _ E1) by discriminate. destruct v1; auto.
        destruct (peval f env (if b then e2 else e3)) as [ob outb] eqn:E2.
        inversion H; subst. rewrite (IH _ _ _ _ E2 Hn). reflexivity.
      + rewrite (IH _ _ _ _ E1) by discriminate. auto.
      + inversion H; subst. congruence.
    - (* ESeq *)
      destruct (peval f env e1) as [o1 out1] eqn:E1. destruct o1 as [v1| |].
      + rewrite (IH _ _ _ _ E1) by discriminate. destruct (is_err v1); auto.
        destruct (peval f env e2) as [o2 out2] eqn:E2.
        inversion H; subst. rewrite (IH _ _ _ _ E2 Hn). reflexivity.
      + rewrite (IH _ _ _ _ E1) by discriminate. auto.
      + inversion H; subst. congruence.
    - (* EPrint *)
      destruct (peval_list (peval f) env es) as [[oc1 vals] out1] eqn:EL.
      destruct oc1 as [av| |].
      + rewrite (IHL _ _ _ _ _ EL) by discriminate. auto.
      + rewrite (IHL _ _ _ _ _ EL) by discriminate. auto.
      + inversion H; subst. congruence.
  Qed.

  Lemma peval_mono : forall f g env e oc out, peval f env e = (oc, out) -> oc <> OFuel -> f <= g -> peval g env e = (oc, out).
  Proof.
    intros f g env e oc out H Hn Hle. induction Hle; auto. apply peval_mono1; auto.
  Qed.
  Lemma peval_list_mono_le : forall f g es env oc vals out,
    peval_list (peval f) env es = (oc, vals, out) -> oc <> OFuel -> f <= g -> peval_list (peval g) env es = (oc, vals, out).
  Proof.
    intros f g es env oc vals out H Hn Hle. induction Hle; auto. apply peval_list_mono; auto. apply peval_mono1.
  Qed.
  (* two finished evaluations agree *)
  Lemma peval_det : forall f g env e o1 out1 o2 out2,
    peval f env e = (o1, out1) -> peval g env e = (o2, out2) -> o1 <> OFuel -> o2 <> OFuel -> o1 = o2 /\ out1 = out2.
  Proof.
    intros. assert (A : peval (max f g) env e = (o1, out1)) by (eapply peval_mono; eauto; lia).
    assert (B : peval (max f g) env e = (o2, out2)) by (eapply peval_mono; eauto; lia).
    rewrite A in B. inversion B. auto.
  Qed.
End Pure.

(* ================================================================ small facts about stores and heaps *)
Lemma bytes_eqb_sym : forall a b, bytes_eqb a b = bytes_eqb b a.
Proof.
  induction a as [|x a IH]; destruct b as [|y b]; simpl; auto. rewrite N.eqb_sym, IH. auto.
Qed.
Lemma bytes_eqb_neq : forall a b, bytes_eqb a b = false -> a <> b.
Proof. intros a b H E. subst. rewrite bytes_eqb_refl in H. discriminate. Qed.

Lemma find_put_same : forall s x c, find_cell (put_cell s x c) x = Some c.
Proof.
  induction s as [|[y c0] s IH]; simpl; intros.
  - rewrite bytes_eqb_refl. auto.
  - destruct (bytes_eqb y x) eqn:E; simpl; rewrite E; auto.
Qed.
Lemma find_put_other : forall s x y c, bytes_eqb x y = false -> find_cell (put_cell s x c) y = find_cell s y.
Proof.
  induction s as [|[z c0] s IH]; simpl; intros x y c H.
  - rewrite H. auto.
  - destruct (bytes_eqb z x) eqn:E; simpl.
    + apply bytes_eqb_eq in E. subst. rewrite H. auto.
    + destruct (bytes_eqb z y); auto.
Qed.

Lemma lookup_combine_none : forall ps vs x, mem_ident x ps = false -> lookup (combine ps vs) x = None.
Proof.
  induction ps as [|p ps IH]; simpl; intros vs x H; auto.
  destruct vs as [|v vs]; simpl; auto.
  apply orb_false_elim in H. destruct H as [H1 H2]. rewrite H1. auto.
Qed.
Lemma lookup_combine_some : forall ps vs x, length vs = length ps -> mem_ident x ps = true -> lookup (combine ps vs) x <> None.
Proof.
  induction ps as [|p ps IH]; simpl; intros vs x HL H; try discriminate.
  destruct vs as [|v vs]; simpl in *; try discriminate.
  destruct (bytes_eqb p x); [discriminate|]. simpl in H. apply IH; auto.
Qed.

Definition bind_store (s : list (ident * cell)) (env : list (ident * value)) : list (ident * cell) :=
  fold_left (fun s pv => put_cell s (fst pv) (CVal (snd pv))) env s.

Lemma find_bind_store : forall ps vs s x, nodup_idents ps = true ->
  find_cell (bind_store s (combine ps vs)) x =
  match lookup (combine ps vs) x with Some v => Some (CVal v) | None => find_cell s x end.
Proof.
  induction ps as [|p ps IH]; simpl; intros vs s x ND; auto.
  destruct vs as [|v vs]; simpl; auto.
  apply andb_prop in ND. destruct ND as [N1 N2]. apply negb_true_iff in N1.
  unfold bind_store in *. simpl. rewrite IH; auto.
  destruct (bytes_eqb p x) eqn:E.
  - apply bytes_eqb_eq in E. subst. rewrite lookup_combine_none; auto. apply find_put_same.
  - destruct (lookup (combine ps vs) x); auto. apply find_put_other; auto.
Qed.

Lemma nth_error_app_some : forall {A} (l l' : list A) i a, nth_error l i = Some a -> nth_error (l ++ l') i = Some a.
Proof.
  intros. rewrite nth_error_app1; auto. apply nth_error_Some. congruence.
Qed.
Lemma update_nth_last : forall {A} (h : list A) a g, update_nth (h ++ [a]) (length h) g = h ++ [g a].
Proof. induction h; simpl; intros; auto. rewrite IHh. auto. Qed.
Lemma nth_error_last : forall {A} (h : list A) a, nth_error (h ++ [a]) (length h) = Some a.
Proof. induction h; simpl; auto. Qed.

Lemma state_eta : forall st, mkState (st_heap st) (st_cache st) = st.
Proof. destruct st; auto. Qed.

Lemma closed_all_forallb : forall self params l,
  (fix all (l : list expr) : bool := match l with [] => true | a :: l' => closed_expr self params a && all l' end) l
  = forallb (closed_expr self params) l.
Proof. induction l; simpl; auto; try (rewrite IHl; auto). Qed.

Lemma mem_ident_in : forall x l, mem_ident x l = true -> exists y, In y l /\ bytes_eqb y x = true.
Proof.
  induction l as [|y l IH]; simpl; intros H; try discriminate.
  apply orb_prop in H. destruct H as [H|H]; eauto. destruct (IH H) as [z [A B]]. eauto.
Qed.

(* parameter binding of a closed function: no lookups, the new frame's store holds exactly the arguments *)
Lemma bind_closed : forall defs ps vs h f0 c b tr,
  forallb (fun p => negb (constant_name p)) ps = true ->
  length vs = length ps ->
  bind_params defs (mkState (h ++ [f0]) c) (length h) ps vs b tr =
    BOk b tr (mkState (h ++ [with_store f0 (bind_store (fr_store f0) (combine ps vs))]) c).
Proof.
  induction ps as [|p ps IH]; intros vs h f0 c b tr HC HL.
  - destruct vs; simpl in *; try discriminate. destruct f0; auto.
  - destruct vs as [|v vs]; simpl in HL; try discriminate. simpl in HC. apply andb_prop in HC. destruct HC as [H1 H2].
    apply negb_true_iff in H1. cbn [bind_params]. rewrite H1.
    unfold set_heap, set_cell. cbn [st_heap st_cache]. rewrite update_nth_last.
    rewrite IH; auto.
Qed.

Section ValueInd.
  Variable P : value -> Prop.
  Hypothesis Hint : forall z, P (VInt z).
  Hypothesis Hflt : forall f, P (VFlt f).
  Hypothesis Hstr : forall s, P (VStr s).
  Hypothesis Hbool : forall b, P (VBool b).
  Hypothesis Hnil : P VNil.
  Hypothesis Harr : forall l, Forall P l -> P (VArr l).
  Hypothesis Hfun : forall d e, P (VFun d e).
  Hypothesis Herr : forall m, P (VErr m).
  Fixpoint value_ind' (v : value) : P v :=
    match v with
    | VInt z => Hint z | VFlt f => Hflt f | VStr s => Hstr s | VBool b => Hbool b | VNil => Hnil
    | VArr l => Harr l ((fix go (l : list value) : Forall P l :=
                           match l with [] => Forall_nil P | x :: l' => Forall_cons x (value_ind' x) (go l') end) l)
    | VFun d e => Hfun d e | VErr m => Herr m
    end.
End ValueInd.

Lemma closed_fn_parts_pure : forall fd, closed_fn fd = true ->
  forallb (fun p => negb (constant_name p)) (fd_params fd) = true /\ nodup_idents (fd_params fd) = true /\
  closed_expr (is_self (fd_name fd)) (fd_params fd) (fd_body fd) = true.
Proof.
  intros fd H. unfold closed_fn in H. apply andb_prop in H. destruct H as [H H3]. apply andb_prop in H. destruct H as [H1 H2].
  repeat split; auto. rewrite forallb_forall in *. intros x Hx. apply H1 in Hx.
  apply andb_prop in Hx. destruct Hx as [Hx _]. apply andb_prop in Hx. destruct Hx as [Hx _]. apply andb_prop in Hx. tauto.
Qed.
Lemma closed_fn_nodots : forall fd, closed_fn fd = true -> forallb (fun p => negb (bytes_eqb p dots_name)) (fd_params fd) = true.
Proof.
  intros fd H. unfold closed_fn in H. apply andb_prop in H. destruct H as [H H3]. apply andb_prop in H. destruct H as [H1 H2].
  rewrite forallb_forall in *. intros x Hx. apply H1 in Hx. apply andb_prop in Hx. tauto.
Qed.
Lemma not_variadic : forall ps, forallb (fun p => negb (bytes_eqb p dots_name)) ps = true -> is_variadic ps = false.
Proof.
  intros ps H. unfold is_variadic, ident in *.
  assert (A : forall q, In q (rev ps) -> bytes_eqb q dots_name = false).
  { intros q HI. apply in_rev in HI. rewrite forallb_forall in H. apply H in HI. apply negb_true_iff in HI. exact HI. }
  destruct (rev ps) as [|q r]; [reflexivity|]. apply A. left. reflexivity.
Qed.
Lemma call_shape_closed : forall fd args, closed_fn fd = true ->
  call_shape (fd_params fd) args =
  if Nat.eqb (length (map fst args)) (length (fd_params fd)) then Some (fd_params fd, map fst args, None, args) else None.
Proof. intros. unfold call_shape. rewrite not_variadic; auto using closed_fn_nodots. Qed.

(* ================================================================ closed bodies: the coincidence lemma *)
Section Closed.
  Variable defs : list fdef.
  Hypothesis Hclosed : closed_hist defs = true.

  Lemma all_closed : forall d fd, nth_error defs d = Some fd -> closed_fn fd = true.
  Proof.
    intros d fd H. unfold closed_hist in Hclosed. apply andb_prop in Hclosed. destruct Hclosed as [A _].
    rewrite forallb_forall in A. apply A. eapply nth_error_In; eauto.
  Qed.

  Lemma mem_ident_map_in : forall (l : list fdef) fd, In fd l -> mem_ident (fd_key fd) (map fd_key l) = true.
  Proof.
    induction l as [|a l IH]; simpl; intros fd H; [contradiction|].
    destruct H as [->|H]; [rewrite bytes_eqb_refl; auto | rewrite IH; auto using orb_true_r].
  Qed.
  Lemma keys_inj_aux : forall (l : list fdef) i j a b,
    keys_distinct (map fd_key l) = true -> nth_error l i = Some a -> nth_error l j = Some b ->
    fd_key a = fd_key b -> i = j.
  Proof.
    induction l as [|x l IH]; intros i j a b HK Hi Hj E; [destruct i; discriminate|].
    simpl in HK. apply andb_prop in HK. destruct HK as [K1 K2]. apply negb_true_iff in K1.
    destruct i, j; simpl in *; auto.
    - inversion Hi; subst. apply nth_error_In in Hj. apply mem_ident_map_in in Hj. rewrite E in K1. congruence.
    - inversion Hj; subst. apply nth_error_In in Hi. apply mem_ident_map_in in Hi. rewrite <- E in K1. congruence.
    - f_equal. eapply IH; eauto.
  Qed.
  Lemma keys_inj : forall i j a b, nth_error defs i = Some a -> nth_error defs j = Some b -> fd_key a = fd_key b -> a = b.
  Proof.
    intros i j a b Hi Hj E. unfold closed_hist in Hclosed. apply andb_prop in Hclosed. destruct Hclosed as [_ K].
    assert (i = j) by (eapply keys_inj_aux; eauto). subst. congruence.
  Qed.

  (* every cache entry is the pure result of the one definition its key names *)
  Definition entry_ok (ce : centry) : Prop :=
    exists d fd k, nth_error defs d = Some fd /\ fd_key fd = ce_key ce /\
      length (ce_args ce) = length (fd_params fd) /\ forallb hashable (ce_args ce) = true /\
      has_function (ce_res ce) = false /\
      peval fd k (combine (fd_params fd) (ce_args ce)) (fd_body fd) = (OVal (ce_res ce), ce_out ce).
  Definition cache_ok (c : list centry) : Prop := Forall entry_ok c.

  Lemma cache_put_ok : forall c n, cache_ok c -> entry_ok n -> cache_ok (cache_put c n).
  Proof.
    induction c as [|ce c IH]; simpl; intros n HC HN; [repeat constructor; auto|].
    inversion HC; subst. destruct (ce_match (ce_key n) (ce_args n) ce); constructor; auto. apply IH; auto.
  Qed.

  Lemma fl_goeq_eq : forall f g, fl_hashable f = true -> fl_hashable g = true -> fl_goeq f g = true -> f = g.
  Proof.
    intros f g Hf Hg H. unfold fl_goeq in H.
    destruct f, g; unfold fl_hashable, fl_num in *; try discriminate; try reflexivity;
      apply Z.eqb_eq in H;
      try (apply negb_true_iff in Hf; apply Z.eqb_neq in Hf); try (apply negb_true_iff in Hg; apply Z.eqb_neq in Hg);
      try (exfalso; lia); f_equal; lia.
  Qed.
  Lemma value_goeq_eq : forall a b, hashable a = true -> hashable b = true -> value_goeq a b = true -> a = b.
  Proof.
    induction a using value_ind'; intros b0 Ha Hb HE; destruct b0; try (simpl in HE; discriminate).
    - simpl in HE. apply Z.eqb_eq in HE. congruence.
    - f_equal. apply fl_goeq_eq; auto.
    - simpl in HE. apply bytes_eqb_eq in HE. congruence.
    - simpl in HE. apply eqb_prop in HE. congruence.
    - reflexivity.
    - f_equal. simpl in Ha, Hb, HE. apply andb_prop in Ha. destruct Ha as [_ Ha]. apply andb_prop in Hb. destruct Hb as [_ Hb].
      revert l0 Hb HE. induction l as [|x l IHl]; intros [|y m] Hb HE; try discriminate; auto.
      apply andb_prop in Ha. destruct Ha as [A1 A2]. apply andb_prop in Hb. destruct Hb as [B1 B2].
      apply andb_prop in HE. destruct HE as [H1 H2]. inversion H; subst. f_equal; auto.
  Qed.
  Lemma values_goeq_eq : forall l m, forallb hashable l = true -> forallb hashable m = true -> values_goeq l m = true -> l = m.
  Proof.
    induction l as [|x l IH]; intros [|y m] A B H; simpl in *; try discriminate; auto.
    apply andb_prop in A. destruct A. apply andb_prop in B. destruct B. apply andb_prop in H. destruct H.
    f_equal; auto using value_goeq_eq.
  Qed.

  Lemma key_ok_hashable : forall args, key_ok args = true -> forallb (fun p => negb (snd p)) args = true ->
    forallb hashable (map fst args) = true.
  Proof.
    intros args H _. unfold key_ok in H. apply andb_prop in H. destruct H as [_ H].
    rewrite forallb_forall in *. intros x Hx. apply in_map_iff in Hx. destruct Hx as [[a b] [E Hx]]. simpl in E. subst.
    apply H in Hx. unfold arg_hashable in Hx. apply andb_prop in Hx. tauto.
  Qed.

  Lemma cache_get_ok : forall c fd d args v o,
    cache_ok c -> nth_error defs d = Some fd -> cache_get c (fd_key fd) args = Some (v, o) ->
    forallb (fun p => negb (snd p)) args = true ->
    length (map fst args) = length (fd_params fd) /\ has_function v = false /\
    exists k, peval fd k (combine (fd_params fd) (map fst args)) (fd_body fd) = (OVal v, o).
  Proof.
    intros c fd d args v o HC Hd HG HR. unfold cache_get in HG.
    destruct (key_ok args) eqn:HK; try discriminate.
    destruct (find (ce_match (fd_key fd) (map fst args)) c) as [ce|] eqn:F; try discriminate.
    inversion HG; subst. apply find_some in F. destruct F as [Hin HM].
    unfold cache_ok in HC. rewrite Forall_forall in HC. destruct (HC _ Hin) as [d' [fd' [k [A [B [C [D [E G]]]]]]]].
    unfold ce_match in HM. apply andb_prop in HM. destruct HM as [M1 M2]. apply bytes_eqb_eq in M1.
    assert (fd' = fd) by (eapply keys_inj; eauto; congruence). subst fd'.
    assert (ce_args ce = map fst args) by (apply values_goeq_eq; auto using key_ok_hashable).
    rewrite H in *. split; auto. split; auto. eauto.
  Qed.

  (* the frame of a running closed function: it knows its function and holds exactly its arguments *)
  Definition frame_ok (h : heap) (fr d : nat) (fd : fdef) (env : list (ident * value)) : Prop :=
    exists frm envd, nth_error h fr = Some frm /\ fr_fn frm = Some (d, envd) /\ fr_key frm = fd_key fd /\
      forall x, find_cell (fr_store frm) x = match lookup env x with Some v => Some (CVal v) | None => None end.
  Lemma frame_ok_app : forall h extra fr d fd env, frame_ok h fr d fd env -> frame_ok (h ++ extra) fr d fd env.
  Proof.
    intros h extra fr d fd env [frm [envd [A B]]]. exists frm, envd. split; auto using nth_error_app_some.
  Qed.

  Definition dom_ok (fd : fdef) (env : list (ident * value)) : Prop :=
    forall x, mem_ident x (fd_params fd) = true -> lookup env x <> None.

  Lemma param_facts : forall fd x, closed_fn fd = true -> mem_ident x (fd_params fd) = true ->
    bytes_eqb x info_name = false /\ bytes_eqb x self_name = false /\
    match fd_name fd with Some n => bytes_eqb n x = false | None => True end.
  Proof.
    intros fd x HC HM. unfold closed_fn in HC. apply andb_prop in HC. destruct HC as [HC _].
    apply andb_prop in HC. destruct HC as [HC _]. rewrite forallb_forall in HC.
    apply mem_ident_in in HM. destruct HM as [y [Hy E]]. apply bytes_eqb_eq in E. subst y.
    apply HC in Hy. apply andb_prop in Hy. destruct Hy as [Hy _]. apply andb_prop in Hy. destruct Hy as [Hy H3].
    apply andb_prop in Hy. destruct Hy as [H1 H2].
    apply negb_true_iff in H2, H3. unfold is_self in H2. apply orb_false_elim in H2. destruct H2 as [H2 H4].
    repeat split; auto. destruct (fd_name fd); auto.
  Qed.

  Lemma get_param : forall h fr d fd env x, nth_error defs d = Some fd -> frame_ok h fr d fd env -> dom_ok fd env ->
    mem_ident x (fd_params fd) = true ->
    exists v, lookup env x = Some v /\ get defs h fr x = GFound v false h 0 [].
  Proof.
    intros h fr d fd env x Hd [frm [envd [A [B [C D]]]]] HD HM.
    destruct (param_facts fd x (all_closed _ _ Hd) HM) as [P1 [P2 P3]].
    destruct (lookup env x) as [v|] eqn:L; [|exfalso; eapply HD; eauto].
    exists v. split; auto. unfold get. rewrite P1, A, P2.
    assert (O : own_name defs frm x = false).
    { unfold own_name. rewrite B, Hd. destruct (fd_name fd); auto. }
    rewrite O, D, L. auto.
  Qed.

  Lemma get_self : forall h fr d fd x frm envd, nth_error defs d = Some fd ->
    nth_error h fr = Some frm -> fr_fn frm = Some (d, envd) ->
    is_self (fd_name fd) x = true -> bytes_eqb x info_name = false ->
    get defs h fr x = GFound (VFun d envd) false h 0 [].
  Proof.
    intros h fr d fd x frm envd Hd A B HS HI.
    unfold get. rewrite HI, A. destruct (bytes_eqb x self_name) eqn:S; [rewrite B; auto|].
    unfold is_self in HS. rewrite S in HS. simpl in HS.
    assert (O : own_name defs frm x = true).
    { unfold own_name. rewrite B, Hd. destruct (fd_name fd); auto; discriminate. }
    rewrite O, B. auto.
  Qed.

  (* what an evaluation of a closed expression in its frame must satisfy *)
  Definition done (fd : fdef) (env : list (ident * value)) (e : expr) (r : res) (st st' : state) : Prop :=
    (exists k, peval fd k env e = (r_oc r, r_out r)) /\ r_ref r = false /\ r_log r = [] /\ r_miss r = 0 /\
    (exists extra, st_heap st' = st_heap st ++ extra) /\ cache_ok (st_cache st').
  Definition closed_spec (f : nat) : Prop :=
    forall on d fd st fr e env r st',
      nth_error defs d = Some fd -> frame_ok (st_heap st) fr d fd env -> dom_ok fd env ->
      closed_expr (is_self (fd_name fd)) (fd_params fd) e = true -> cache_ok (st_cache st) ->
      eval f on defs st fr e = (r, st') ->
      r_oc r = OFuel \/ done fd env e r st st'.

  Definition done_list (fd : fdef) (env : list (ident * value)) (es : list expr) (r : res) (vals : list (value * bool))
             (st st' : state) : Prop :=
    (exists k, peval_list (peval fd k) env es = (r_oc r, map fst vals, r_out r)) /\
    forallb (fun p => negb (snd p)) vals = true /\ r_log r = [] /\ r_miss r = 0 /\
    (exists extra, st_heap st' = st_heap st ++ extra) /\ cache_ok (st_cache st') /\ r_ref r = false.

  Lemma closed_list : forall f, closed_spec f ->
    forall on d fd es st fr env r vals st',
      nth_error defs d = Some fd -> frame_ok (st_heap st) fr d fd env -> dom_ok fd env ->
      forallb (closed_expr (is_self (fd_name fd)) (fd_params fd)) es = true -> cache_ok (st_cache st) ->
      eval_list (eval f on defs) st fr es = (r, vals, st') ->
      r_oc r = OFuel \/ done_list fd env es r vals st st'.
  Proof.
    intros f HS on d fd. induction es as [|e es IH]; intros st fr env r vals st' Hd HF HD HC HK H.
    - simpl in H. inversion H; subst. right. repeat split; simpl; auto. exists 0. auto. exists []. rewrite app_nil_r. auto.
    - simpl in HC. apply andb_prop in HC. destruct HC as [C1 C2]. cbn [eval_list] in H.
      destruct (eval f on defs st fr e) as [r1 st1] eqn:E1.
      destruct (HS _ _ _ _ _ _ _ _ _ Hd HF HD C1 HK E1) as [F1|[[k1 P1] [R1 [L1 [M1 [[x1 X1] K1]]]]]].
      { rewrite F1 in H. inversion H; subst. auto. }
      destruct (r_oc r1) as [v| |] eqn:O1.
      + destruct (is_err v) eqn:EV.
        * inversion H; subst. right. repeat split; auto.
          -- exists k1. cbn [peval_list]. rewrite P1, EV. rewrite O1. auto.
          -- eauto.
        * destruct (eval_list (eval f on defs) st1 fr es) as [[r2 vs] st2] eqn:E2.
          assert (HF1 : frame_ok (st_heap st1) fr d fd env) by (rewrite X1; apply frame_ok_app; auto).
          destruct (IH _ _ _ _ _ _ Hd HF1 HD C2 K1 E2) as [F2|[[k2 P2] [R2 [L2 [M2 [[x2 X2] [K2 RR2]]]]]]].
          { inversion H; subst. left. simpl. auto. }
          inversion H; subst.
          destruct (r_oc r2) eqn:O2; [| |left; simpl; auto].
          -- right. repeat split; simpl; auto.
             ++ exists (max k1 k2). cbn [peval_list].
                rewrite (peval_mono fd k1 (max k1 k2) _ _ _ _ P1) by (try discriminate; lia). rewrite EV.
                rewrite (peval_list_mono_le fd k2 (max k1 k2) _ _ _ _ _ P2) by (try discriminate; lia). rewrite O2. auto.
             ++ rewrite R1. simpl. auto.
             ++ rewrite L1, L2. auto.
             ++ lia.
             ++ exists (x1 ++ x2). rewrite X2, X1, app_assoc. auto.
          -- right. repeat split; simpl; auto.
             ++ exists (max k1 k2). cbn [peval_list].
                rewrite (peval_mono fd k1 (max k1 k2) _ _ _ _ P1) by (try discriminate; lia). rewrite EV.
                rewrite (peval_list_mono_le fd k2 (max k1 k2) _ _ _ _ _ P2) by (try discriminate; lia). rewrite O2. auto.
             ++ rewrite R1. simpl. auto.
             ++ rewrite L1, L2. auto.
             ++ lia.
             ++ exists (x1 ++ x2). rewrite X2, X1, app_assoc. auto.
      + inversion H; subst. right. repeat split; auto.
        * exists k1. cbn [peval_list]. rewrite P1, O1. auto.
        * eauto.
      + inversion H; subst. rewrite O1. auto.
  Qed.

  Definition call_pure (fd : fdef) (k : nat) (vals : list value) : outcome * bytes :=
    if negb (Nat.eqb (length vals) (length (fd_params fd))) then (OVal (VErr err_msg), [])
    else peval fd k (combine (fd_params fd) vals) (fd_body fd).

  Definition done_call (fd : fdef) (vals : list value) (r : res) (st st' : state) : Prop :=
    (exists k, call_pure fd k vals = (r_oc r, r_out r)) /\ r_ref r = false /\ r_log r = [] /\ r_miss r = 0 /\
    (exists extra, st_heap st' = st_heap st ++ extra) /\ cache_ok (st_cache st').

  Lemma closed_fn_parts : forall fd, closed_fn fd = true ->
    forallb (fun p => negb (constant_name p)) (fd_params fd) = true /\ nodup_idents (fd_params fd) = true /\
    closed_expr (is_self (fd_name fd)) (fd_params fd) (fd_body fd) = true.
  Proof. exact closed_fn_parts_pure. Qed.

  Lemma apply_closed : forall f, closed_spec f ->
    forall on d fd st fr cur envd args r st',
      nth_error defs d = Some fd ->
      nth_error (st_heap st) fr = Some cur ->
      (exists pf, nth_error (st_heap st) (if same_fn cur d envd then fr else envd) = Some pf) ->
      forallb (fun p => negb (snd p)) args = true -> cache_ok (st_cache st) ->
      apply_fn (eval f on defs) on defs st fr (VFun d envd) args = (r, st') ->
      r_oc r = OFuel \/ done_call fd (map fst args) r st st'.
  Proof.
    intros f HS on d fd st fr cur envd args r st' Hd Hcur [pf Hpf] HR HK H.
    destruct (closed_fn_parts fd (all_closed _ _ Hd)) as [CP [CN CB]].
    unfold apply_fn in H. rewrite Hd in H.
    destruct (if on then cache_get (st_cache st) (fd_key fd) args else None) as [[v o]|] eqn:CG.
    { destruct on; try discriminate. inversion H; subst. right.
      destruct (cache_get_ok _ _ _ _ _ _ HK Hd CG HR) as [L [NF [k Pk]]].
      repeat split; simpl; auto.
      - exists k. unfold call_pure. rewrite L, Nat.eqb_refl. simpl. auto.
      - exists []. rewrite app_nil_r. auto. }
    rewrite Hcur, Hpf in H.
    rewrite (call_shape_closed fd _ (all_closed _ _ Hd)) in H.
    destruct (length (map fst args) =? length (fd_params fd)) eqn:AR.
    2:{ inversion H; subst. right. repeat split; simpl; auto.
      - exists 0. unfold call_pure. rewrite AR. auto.
      - exists []. rewrite app_nil_r. auto. }
    apply Nat.eqb_eq in AR. rewrite map_length in AR.
    unfold set_heap in H. cbn [st_heap st_cache] in H.
    rewrite bind_closed in H; auto; [|rewrite map_length; auto].
    match type of H with context [eval f on defs ?s2 ?n ?b] => destruct (eval f on defs s2 n b) as [rb st3] eqn:EB end.
    set (newf := with_store _ _) in EB.
    assert (FO : frame_ok (st_heap st ++ [newf]) (length (st_heap st)) d fd (combine (fd_params fd) (map fst args))).
    { exists newf, envd. split; [apply nth_error_last|]. unfold newf. simpl. split; [auto|]. split; [auto|].
      intros x. rewrite find_bind_store; auto. }
    assert (DO : dom_ok fd (combine (fd_params fd) (map fst args))).
    { intros x Hx. apply lookup_combine_some; auto. rewrite map_length; auto. }
    destruct (HS on d fd (mkState (st_heap st ++ [newf]) (st_cache st)) _ _ _ _ _ Hd FO DO CB HK EB) as [F|[[k Pk] [R1 [L1 [M1 [[x1 X1] K1]]]]]].
    { left. rewrite F in H. inversion H; subst. auto. }
    cbn [st_heap] in X1.
    assert (HX : exists extra, st_heap st3 = st_heap st ++ extra) by (exists ([newf] ++ x1); rewrite X1, app_assoc; auto).
    assert (CP0 : forall kk, call_pure fd kk (map fst args) = peval fd kk (combine (fd_params fd) (map fst args)) (fd_body fd)).
    { intros. unfold call_pure. rewrite map_length, AR, Nat.eqb_refl. auto. }
    destruct (r_oc rb) as [v| |] eqn:OB.
    - rewrite M1 in H. simpl in H.
      destruct (is_err v) eqn:EV; [inversion H; subst; right; repeat split; simpl; auto; exists k; rewrite CP0, Pk; auto|].
      destruct (has_function v) eqn:EF; [inversion H; subst; right; repeat split; simpl; auto; exists k; rewrite CP0, Pk; auto|].
      destruct (key_ok args) eqn:EK; simpl in H; [|inversion H; subst; right; repeat split; simpl; auto; exists k; rewrite CP0, Pk; auto].
      destruct on; [|inversion H; subst; right; repeat split; simpl; auto; exists k; rewrite CP0, Pk; auto].
      inversion H; subst. right. repeat split; simpl; auto.
      + exists k; rewrite CP0, Pk; auto.
      + apply cache_put_ok; auto. exists d, fd, k. simpl. repeat split; auto;
          try (rewrite map_length; auto; fail); try (apply key_ok_hashable; auto; fail); try (rewrite Pk; auto; fail).
    - inversion H; subst. right. repeat split; auto. exists k. rewrite CP0, Pk, OB. auto.
    - inversion H; subst. auto.
  Qed.

  Lemma set_heap_same : forall st, set_heap st (st_heap st) = st.
  Proof. destruct st; auto. Qed.
  Lemma ext_refl : forall st : state, exists extra, st_heap st = st_heap st ++ extra.
  Proof. intros. exists []. rewrite app_nil_r. auto. Qed.
  Lemma ext_trans : forall (a b c : state), (exists x, st_heap b = st_heap a ++ x) -> (exists y, st_heap c = st_heap b ++ y) ->
    exists z, st_heap c = st_heap a ++ z.
  Proof. intros a b c [x X] [y Y]. exists (x ++ y). rewrite Y, X, app_assoc. auto. Qed.
  Lemma frame_ok_ext : forall (a b : state) fr d fd env, (exists x, st_heap b = st_heap a ++ x) ->
    frame_ok (st_heap a) fr d fd env -> frame_ok (st_heap b) fr d fd env.
  Proof. intros a b fr d fd env [x X] H. rewrite X. apply frame_ok_app. auto. Qed.

  Theorem closed_all : forall f, closed_spec f.
  Proof.
    induction f as [|f IH]; intros on d fd st fr e env r st' Hd HF HD HC HK H.
    { simpl in H. inversion H; subst. auto. }
    pose proof (closed_list f IH) as IHL.
    destruct e; simpl in HC; try discriminate; simpl in H.
    - (* ELit *) inversion H; subst. right. repeat split; simpl; auto using ext_refl. exists 1. auto.
    - (* EVar *)
      destruct (get_param _ _ _ _ _ _ Hd HF HD HC) as [v [L G]]. rewrite G in H. rewrite set_heap_same in H. inversion H; subst.
      right. repeat split; simpl; auto using ext_refl.
      exists 1. simpl. rewrite L. auto.
    - (* ECall *)
      destruct e; try discriminate.
      apply andb_prop in HC. destruct HC as [HC CA]. apply andb_prop in HC. destruct HC as [HC CI].
      apply andb_prop in HC. destruct HC as [CS CP]. apply negb_true_iff in CI. rewrite closed_all_forallb in CA.
      destruct f as [|f']; [simpl in H; inversion H; subst; auto|].
      pose proof HF as [frm0 [envd [A0 [B0 [C0 D0]]]]].
      pose proof (get_self _ _ _ _ _ _ _ Hd A0 B0 CS CI) as G.
      assert (EG : eval (S f') on defs st fr (EVar x) = (mkRes (OVal (VFun d envd)) false [] [] [] 0, st))
        by (simpl; rewrite G, set_heap_same; auto).
      rewrite EG in H. cbn [r_oc is_err] in H.
      destruct (eval_list (eval (S f') on defs) st fr args) as [[ra vals] st2] eqn:EL.
      destruct (IHL _ _ _ _ _ _ _ _ _ _ Hd HF HD CA HK EL) as [F|[[ka Pa] [Ra [La [Ma [Xa [Ka RRa]]]]]]].
      { rewrite F in H. inversion H; subst. left. simpl. auto. }
      destruct (r_oc ra) as [av| |] eqn:OA.
      + destruct (is_err av) eqn:EA.
        * inversion H; subst. right. repeat split; simpl; auto.
          exists (S (S ka)). rewrite peval_S. unfold peval_step.
          rewrite (peval_list_mono_le fd ka (S ka) _ _ _ _ _ Pa) by (try discriminate; lia). rewrite EA. auto.
        * destruct (apply_fn (eval (S f') on defs) on defs st2 fr (VFun d envd) vals) as [rc st3] eqn:EC.
          pose proof (frame_ok_ext _ _ _ _ _ _ Xa HF) as HF2.
          assert (A : nth_error (st_heap st2) fr = Some frm0) by (destruct Xa as [xa Xa]; rewrite Xa; apply nth_error_app_some; auto).
          assert (PX : exists pf, nth_error (st_heap st2) (if same_fn frm0 d envd then fr else envd) = Some pf).
          { unfold same_fn. rewrite B0, !Nat.eqb_refl. simpl. eauto. }
          destruct (apply_closed (S f') IH on d fd st2 fr frm0 envd vals rc st3 Hd A PX Ra Ka EC)
            as [F|[[kc Pc] [Rc [Lc [Mc [Xc Kc]]]]]].
          { inversion H; subst. left. simpl. auto. }
          inversion H; subst.
          destruct (r_oc rc) as [vc| |] eqn:OC; [| |left; simpl; auto].
          -- right. repeat split; simpl; auto.
             ++ exists (S (S (max ka kc))). rewrite peval_S. unfold peval_step.
                rewrite (peval_list_mono_le fd ka (S (max ka kc)) _ _ _ _ _ Pa) by (try discriminate; lia). rewrite EA.
                unfold call_pure in Pc. destruct (negb (length (map fst vals) =? length (fd_params fd))).
                ** injection Pc as Q1 Q2. rewrite <- Q2, app_nil_r, OC, <- Q1. auto.
                ** rewrite (peval_mono fd kc (S (max ka kc)) _ _ _ _ Pc) by (try discriminate; lia). rewrite OC. auto.
             ++ rewrite La, Lc. auto.
             ++ lia.
             ++ eapply ext_trans; eauto.
          -- right. repeat split; simpl; auto.
             ++ exists (S (S (max ka kc))). rewrite peval_S. unfold peval_step.
                rewrite (peval_list_mono_le fd ka (S (max ka kc)) _ _ _ _ _ Pa) by (try discriminate; lia). rewrite EA.
                unfold call_pure in Pc. destruct (negb (length (map fst vals) =? length (fd_params fd))).
                ** discriminate.
                ** rewrite (peval_mono fd kc (S (max ka kc)) _ _ _ _ Pc) by (try discriminate; lia). rewrite OC. auto.
             ++ rewrite La, Lc. auto.
             ++ lia.
             ++ eapply ext_trans; eauto.
      + inversion H; subst. right. repeat split; simpl; auto.
        exists (S (S ka)). rewrite peval_S. unfold peval_step.
        rewrite (peval_list_mono_le fd ka (S ka) _ _ _ _ _ Pa) by (try discriminate; lia). rewrite OA. auto.
      + inversion H; subst. left. simpl. auto.
    - (* EArr *)
      rewrite closed_all_forallb in HC.
      destruct (eval_list (eval f on defs) st fr es) as [[ra vals] st2] eqn:EL.
      destruct (IHL _ _ _ _ _ _ _ _ _ _ Hd HF HD HC HK EL) as [F|[[ka Pa] [Ra [La [Ma [Xa [Ka RRa]]]]]]].
      { rewrite F in H. inversion H; subst. auto. }
      destruct (r_oc ra) as [av| |] eqn:OA.
      + destruct (is_err av) eqn:EA; inversion H; subst; right; repeat split; simpl; auto;
          exists (S ka); rewrite peval_S; unfold peval_step; rewrite Pa, EA; auto.
      + inversion H; subst. right. repeat split; simpl; auto.
        exists (S ka). rewrite peval_S. unfold peval_step. rewrite Pa, OA. auto.
      + inversion H; subst. rewrite OA. auto.
    - (* EBin *)
      apply andb_prop in HC. destruct HC as [C1 C2].
      destruct (eval f on defs st fr e1) as [r1 st1] eqn:E1.
      destruct (IH _ _ _ _ _ _ _ _ _ Hd HF HD C1 HK E1) as [F|[[k1 P1] [R1 [L1 [M1 [X1 K1]]]]]].
      { rewrite F in H. inversion H; subst. auto. }
      destruct (r_oc r1) as [v1| |] eqn:O1.
      + destruct (is_err v1) eqn:EV1.
        * inversion H; subst. right. repeat split; simpl; auto.
          exists (S k1). rewrite peval_S. unfold peval_step. rewrite P1, EV1. auto.
        * destruct (eval f on defs st1 fr e2) as [r2 st2] eqn:E2.
          pose proof (frame_ok_ext _ _ _ _ _ _ X1 HF) as HF1.
          destruct (IH _ _ _ _ _ _ _ _ _ Hd HF1 HD C2 K1 E2) as [F|[[k2 P2] [R2 [L2 [M2 [X2 K2]]]]]].
          { rewrite F in H. inversion H; subst. left. simpl. auto. }
          assert (PP : forall oc2, r_oc r2 = oc2 -> oc2 <> OFuel ->
                   peval fd (S (max k1 k2)) env (EBin o e1 e2) =
                   (match oc2 with OVal v2 => if is_err v2 then OVal v2 else bin_op o v1 v2 | _ => oc2 end, r_out r1 ++ r_out r2)).
          { intros oc2 E NF. rewrite peval_S. unfold peval_step.
            rewrite (peval_mono fd k1 (max k1 k2) _ _ _ _ P1) by (try discriminate; lia). rewrite EV1.
            rewrite E in P2. rewrite (peval_mono fd k2 (max k1 k2) _ _ _ _ P2) by (auto; lia).
            destruct oc2 as [v2| |]; auto. destruct (is_err v2); auto. }
          destruct (r_oc r2) as [v2| |] eqn:O2.
          -- destruct (is_err v2) eqn:EV2; inversion H; subst; right; repeat split; simpl; auto;
               try (rewrite L1, L2; auto; fail); try lia; try (eapply ext_trans; eauto; fail);
               exists (S (max k1 k2)); rewrite (PP (OVal v2)) by (auto; discriminate); rewrite EV2; auto.
          -- inversion H; subst. right. repeat split; simpl; auto;
               try (rewrite L1, L2; auto; fail); try lia; try (eapply ext_trans; eauto; fail).
             exists (S (max k1 k2)). rewrite (PP OStuck) by (auto; discriminate). rewrite O2. auto.
          -- inversion H; subst. left. simpl. auto.
      + inversion H; subst. right. repeat split; simpl; auto.
        exists (S k1). rewrite peval_S. unfold peval_step. rewrite P1, O1. auto.
      + inversion H; subst. rewrite O1. auto.
    - (* EIf *)
      apply andb_prop in HC. destruct HC as [HC C3]. apply andb_prop in HC. destruct HC as [C1 C2].
      destruct (eval f on defs st fr e1) as [r1 st1] eqn:E1.
      destruct (IH _ _ _ _ _ _ _ _ _ Hd HF HD C1 HK E1) as [F|[[k1 P1] [R1 [L1 [M1 [X1 K1]]]]]].
      { rewrite F in H. inversion H; subst. auto. }
      destruct (r_oc r1) as [v1| |] eqn:O1.
      + destruct v1; try (inversion H; subst; right; repeat split; simpl; auto;
                         exists (S k1); rewrite peval_S; unfold peval_step; rewrite P1; auto; fail).
        destruct (eval f on defs st1 fr (if b then e2 else e3)) as [r2 st2] eqn:E2.
        pose proof (frame_ok_ext _ _ _ _ _ _ X1 HF) as HF1.
        assert (CB : closed_expr (is_self (fd_name fd)) (fd_params fd) (if b then e2 else e3) = true) by (destruct b; auto).
        destruct (IH _ _ _ _ _ _ _ _ _ Hd HF1 HD CB K1 E2) as [F|[[k2 P2] [R2 [L2 [M2 [X2 K2]]]]]].
        { inversion H; subst. left. simpl. auto. }
        inversion H; subst.
        destruct (r_oc r2) eqn:O2; [| |left; simpl; auto]; right; repeat split; simpl; auto;
          try (rewrite L1, L2; auto; fail); try lia; try (eapply ext_trans; eauto; fail);
          exists (S (max k1 k2)); rewrite peval_S; unfold peval_step;
          rewrite (peval_mono fd k1 (max k1 k2) _ _ _ _ P1) by (try discriminate; lia);
          rewrite (peval_mono fd k2 (max k1 k2) _ _ _ _ P2) by (try discriminate; lia); rewrite O2; auto.
      + inversion H; subst. right. repeat split; simpl; auto.
        exists (S k1). rewrite peval_S. unfold peval_step. rewrite P1, O1. auto.
      + inversion H; subst. rewrite O1. auto.
    - (* ESeq *)
      apply andb_prop in HC. destruct HC as [C1 C2].
      destruct (eval f on defs st fr e1) as [r1 st1] eqn:E1.
      destruct (IH _ _ _ _ _ _ _ _ _ Hd HF HD C1 HK E1) as [F|[[k1 P1] [R1 [L1 [M1 [X1 K1]]]]]].
      { rewrite F in H. inversion H; subst. auto. }
      destruct (r_oc r1) as [v1| |] eqn:O1.
      + destruct (is_err v1) eqn:EV1.
        * inversion H; subst. right. repeat split; simpl; auto.
          exists (S k1). rewrite peval_S. unfold peval_step. rewrite P1, EV1, O1. auto.
        * destruct (eval f on defs st1 fr e2) as [r2 st2] eqn:E2.
          pose proof (frame_ok_ext _ _ _ _ _ _ X1 HF) as HF1.
          destruct (IH _ _ _ _ _ _ _ _ _ Hd HF1 HD C2 K1 E2) as [F|[[k2 P2] [R2 [L2 [M2 [X2 K2]]]]]].
          { inversion H; subst. left. simpl. auto. }
          inversion H; subst.
          destruct (r_oc r2) eqn:O2; [| |left; simpl; auto]; right; repeat split; simpl; auto;
            try (rewrite L1, L2; auto; fail); try lia; try (eapply ext_trans; eauto; fail);
            exists (S (max k1 k2)); rewrite peval_S; unfold peval_step;
            rewrite (peval_mono fd k1 (max k1 k2) _ _ _ _ P1) by (try discriminate; lia); rewrite EV1;
            rewrite (peval_mono fd k2 (max k1 k2) _ _ _ _ P2) by (try discriminate; lia); rewrite O2; auto.
      + inversion H; subst. right. repeat split; simpl; auto.
        exists (S k1). rewrite peval_S. unfold peval_step. rewrite P1, O1. auto.
      + inversion H; subst. rewrite O1. auto.
    - (* EPrint *)
      rewrite closed_all_forallb in HC.
      destruct (eval_list (eval f on defs) st fr es) as [[ra vals] st2] eqn:EL.
      destruct (IHL _ _ _ _ _ _ _ _ _ _ Hd HF HD HC HK EL) as [F|[[ka Pa] [Ra [La [Ma [Xa [Ka RRa]]]]]]].
      { rewrite F in H. inversion H; subst. auto. }
      destruct (r_oc ra) as [av| |] eqn:OA.
      + destruct (is_err av) eqn:EA.
        * inversion H; subst. right. repeat split; simpl; auto.
          exists (S ka). rewrite peval_S. unfold peval_step. rewrite Pa, EA. auto.
        * rewrite <- (map_map fst print_form) in H.
          destruct (all_some (map print_form (map fst vals))) as [parts|] eqn:AS; inversion H; subst; right; repeat split; simpl; auto;
            try (rewrite La; auto; fail); try lia;
            exists (S ka); rewrite peval_S; unfold peval_step; rewrite Pa, EA, AS; auto.
      + inversion H; subst. right. repeat split; simpl; auto.
        exists (S ka). rewrite peval_S. unfold peval_step. rewrite Pa, OA. auto.
      + inversion H; subst. rewrite OA. auto.
    - (* EError *) inversion H; subst. right. repeat split; simpl; auto using ext_refl. exists 1. auto.
  Qed.
End Closed.

(* ================================================================ function values of a closed session live in the root frame *)
Fixpoint envs0 (v : value) : bool :=
  match v with
  | VFun _ e => Nat.eqb e 0
  | VArr l => (fix all (l : list value) : bool := match l with [] => true | x :: l' => envs0 x && all l' end) l
  | _ => true
  end.
Lemma envs0_arr : forall l, envs0 (VArr l) = forallb envs0 l.
Proof. intros. simpl. induction l; simpl; auto; try (rewrite IHl; auto). Qed.
Lemma has_function_arr : forall l, has_function (VArr l) = existsb has_function l.
Proof. intros. simpl. induction l; simpl; auto; try (rewrite IHl; auto). Qed.
Lemma nofun_envs0 : forall v, has_function v = false -> envs0 v = true.
Proof.
  induction v using value_ind'; intros HF; try reflexivity; try discriminate.
  rewrite has_function_arr in HF. rewrite envs0_arr. rewrite forallb_forall. intros x Hx.
  rewrite Forall_forall in H. apply H; auto.
  destruct (has_function x) eqn:E; auto. assert (existsb has_function l = true) by (apply existsb_exists; eauto). congruence.
Qed.

Section PureEnvs.
  Variable fd : fdef.
  Hypothesis Hfd : closed_fn fd = true.
  Let self := is_self (fd_name fd).
  Let params := fd_params fd.

  Definition env_ok (env : list (ident * value)) : Prop := Forall (fun p => envs0 (snd p) = true) env.
  Lemma lookup_env_ok : forall env x v, env_ok env -> lookup env x = Some v -> envs0 v = true.
  Proof.
    induction env as [|[y w] env IH]; simpl; intros x v H L; try discriminate.
    inversion H; subst. destruct (bytes_eqb y x); [inversion L; subst; auto | eauto].
  Qed.
  Lemma env_ok_combine : forall ps vs, forallb envs0 vs = true -> env_ok (combine ps vs).
  Proof.
    induction ps as [|p ps IH]; intros [|v vs] H; simpl; try constructor; simpl in *.
    - apply andb_prop in H. tauto.
    - apply IH. apply andb_prop in H. tauto.
  Qed.

  Definition envs_at (k : nat) : Prop :=
    forall env e v out, env_ok env -> closed_expr self params e = true -> peval fd k env e = (OVal v, out) -> envs0 v = true.

  Lemma peval_list_envs0 : forall k, envs_at k -> forall es env oc vals out,
    env_ok env -> forallb (closed_expr self params) es = true ->
    peval_list (peval fd k) env es = (oc, vals, out) -> forallb envs0 vals = true /\ (forall v, oc = OVal v -> envs0 v = true).
  Proof.
    intros k HK. induction es as [|e es IH]; intros env oc vals out HE HC H.
    - simpl in H. inversion H; subst. split; auto. intros v E. inversion E; auto.
    - simpl in HC. apply andb_prop in HC. destruct HC as [C1 C2]. cbn [peval_list] in H.
      destruct (peval fd k env e) as [o1 out1] eqn:E1. destruct o1 as [v1| |].
      + pose proof (HK _ _ _ _ HE C1 E1) as V1. destruct (is_err v1).
        * inversion H; subst. split; auto. intros v E. inversion E; subst; auto.
        * destruct (peval_list (peval fd k) env es) as [[oc2 vs] out2] eqn:E2.
          destruct (IH _ _ _ _ HE C2 E2) as [A B]. inversion H; subst. split; auto. simpl. rewrite V1, A. auto.
      + inversion H; subst. split; auto. intros v E. discriminate.
      + inversion H; subst. split; auto. intros v E. discriminate.
  Qed.

  Lemma bin_op_envs0 : forall o a b v, envs0 a = true -> envs0 b = true -> bin_op o a b = OVal v -> envs0 v = true.
  Proof.
    intros o a b v Ha Hb H.
    destruct o, a; try (destruct b; simpl in H; try discriminate; inversion H; subst; reflexivity).
    (* array + ... *)
    rewrite envs0_arr in Ha.
    destruct b; simpl in H; try discriminate; inversion H; subst; rewrite envs0_arr, forallb_app, Ha; simpl; auto;
      try (simpl in Hb; rewrite Hb; reflexivity); try (rewrite envs0_arr in Hb; rewrite Hb; reflexivity).
  Qed.

  Lemma peval_envs0 : forall k, envs_at k.
  Proof.
    induction k as [|k IH]; intros env e v out HE HC H; [simpl in H; discriminate|].
    pose proof (peval_list_envs0 k IH) as IHL.
    destruct (closed_fn_parts_pure fd Hfd) as [_ [_ CB]].
    rewrite peval_S in H. unfold peval_step in H.
    destruct e; simpl in HC; try discriminate.
    - inversion H; subst. apply nofun_envs0. apply negb_true_iff in HC. auto.
    - destruct (lookup env x) eqn:L; try discriminate. inversion H; subst. eapply lookup_env_ok; eauto.
    - destruct e; try discriminate. destruct k as [|k']; try discriminate.
      apply andb_prop in HC. destruct HC as [_ CA]. rewrite closed_all_forallb in CA.
      destruct (peval_list (peval fd (S k')) env args) as [[oc vals] out1] eqn:EL.
      destruct (IHL _ _ _ _ _ HE CA EL) as [A B].
      destruct oc as [av| |]; try discriminate.
      destruct (is_err av); [inversion H; subst; auto|].
      destruct (negb (length vals =? length (fd_params fd))); [inversion H; subst; auto|].
      destruct (peval fd (S k') (combine (fd_params fd) vals) (fd_body fd)) as [ob outb] eqn:EB.
      inversion H; subst. eapply IH; [apply env_ok_combine; eauto | exact CB | exact EB].
    - rewrite closed_all_forallb in HC.
      destruct (peval_list (peval fd k) env es) as [[oc vals] out1] eqn:EL.
      destruct (IHL _ _ _ _ _ HE HC EL) as [A B].
      destruct oc as [av| |]; try discriminate.
      destruct (is_err av); inversion H; subst; auto.
    - apply andb_prop in HC. destruct HC as [C1 C2].
      destruct (peval fd k env e1) as [o1 out1] eqn:E1. destruct o1 as [v1| |]; try discriminate.
      destruct (is_err v1); [inversion H; subst; exact (IH _ _ _ _ HE C1 E1)|].
      destruct (peval fd k env e2) as [o2 out2] eqn:E2. destruct o2 as [v2| |]; try discriminate.
      destruct (is_err v2); [inversion H; subst; exact (IH _ _ _ _ HE C2 E2)|].
      inversion H; subst. eapply bin_op_envs0; [exact (IH _ _ _ _ HE C1 E1) | exact (IH _ _ _ _ HE C2 E2) | eauto].
    - apply andb_prop in HC. destruct HC as [HC C3]. apply andb_prop in HC. destruct HC as [C1 C2].
      destruct (peval fd k env e1) as [o1 out1] eqn:E1. destruct o1 as [v1| |]; try discriminate.
      destruct v1; try (inversion H; subst; auto; fail).
      destruct (peval fd k env (if b then e2 else e3)) as [ob outb] eqn:E2.
      inversion H; subst. eapply IH; [eauto | | exact E2]. destruct b; auto.
    - apply andb_prop in HC. destruct HC as [C1 C2].
      destruct (peval fd k env e1) as [o1 out1] eqn:E1. destruct o1 as [v1| |]; try discriminate.
      destruct (is_err v1) eqn:EV; [inversion H; subst; exact (IH _ _ _ _ HE C1 E1)|].
      destruct (peval fd k env e2) as [o2 out2] eqn:E2. inversion H; subst. exact (IH _ _ _ _ HE C2 E2).
    - rewrite closed_all_forallb in HC.
      destruct (peval_list (peval fd k) env es) as [[oc vals] out1] eqn:EL.
      destruct (IHL _ _ _ _ _ HE HC EL) as [A B].
      destruct oc as [av| |]; try discriminate.
      destruct (is_err av); [inversion H; subst; auto|].
      destruct (all_some (map print_form vals)); inversion H; subst; auto.
    - inversion H; subst; auto.
  Qed.
End PureEnvs.

Lemma set_heap_same0 : forall st, set_heap st (st_heap st) = st.
Proof. destruct st; auto. Qed.

(* ================================================================ the two runs in lockstep at the root *)
Section Root.
  Variable defs : list fdef.
  Hypothesis Hclosed : closed_hist defs = true.

  Definition store_ok (s : list (ident * cell)) : Prop :=
    Forall (fun p => exists v, snd p = CVal v /\ envs0 v = true) s.
  Definition is_root (root : frame) : Prop :=
    fr_outer root = None /\ fr_fn root = None /\ store_ok (fr_store root).
  Definition rootrel (s1 s0 : state) : Prop :=
    exists root, nth_error (st_heap s1) 0 = Some root /\ nth_error (st_heap s0) 0 = Some root /\ is_root root /\
                 cache_ok defs (st_cache s1) /\ cache_ok defs (st_cache s0).

  Lemma find_store_ok : forall s x c, store_ok s -> find_cell s x = Some c -> exists v, c = CVal v /\ envs0 v = true.
  Proof.
    induction s as [|[y c0] s IH]; simpl; intros x c H F; try discriminate. inversion H; subst.
    destruct (bytes_eqb y x); [inversion F; subst; auto | eauto].
  Qed.
  Lemma put_store_ok : forall s x v, store_ok s -> envs0 v = true -> store_ok (put_cell s x (CVal v)).
  Proof.
    induction s as [|[y c0] s IH]; simpl; intros x v H E.
    - repeat constructor. simpl. eauto.
    - inversion H; subst. destruct (bytes_eqb y x); constructor; simpl; eauto. apply IH; auto.
  Qed.
  Lemma remove_store_ok : forall s x, store_ok s -> store_ok (remove_cell s x).
  Proof.
    induction s as [|[y c0] s IH]; simpl; intros x H; auto. inversion H; subst.
    destruct (bytes_eqb y x); auto. constructor; auto. apply IH; auto.
  Qed.

  Lemma heap0 : forall (h : heap) root, nth_error h 0 = Some root -> exists rest, h = root :: rest.
  Proof. intros [|a h] root H; simpl in H; inversion H; eauto. Qed.

  (* Get at the root only looks at the root frame *)
  Definition root_get (root : frame) (x : ident) : option (option value) :=   (* None = stuck *)
    if bytes_eqb x info_name then None
    else if bytes_eqb x self_name then Some None
    else match find_cell (fr_store root) x with Some (CVal v) => Some (Some v) | _ => Some None end.
  Lemma get_root : forall h root x, nth_error h 0 = Some root -> is_root root ->
    get defs h 0 x = match root_get root x with
                     | None => GStuck | Some None => GNotFound | Some (Some v) => GFound v false h 0 [] end.
  Proof.
    intros h root x H [O [F S]]. unfold get, root_get. rewrite H.
    destruct (bytes_eqb x info_name); auto. rewrite F. destruct (bytes_eqb x self_name); auto.
    unfold own_name. rewrite F.
    destruct (find_cell (fr_store root) x) as [c|] eqn:FC.
    - destruct (find_store_ok _ _ _ S FC) as [v [-> _]]. auto.
    - rewrite O. auto.
  Qed.
  Lemma root_get_envs0 : forall root x v, is_root root -> root_get root x = Some (Some v) -> envs0 v = true.
  Proof.
    intros root x v [_ [_ S]] H. unfold root_get in H.
    destruct (bytes_eqb x info_name); try discriminate. destruct (bytes_eqb x self_name); try discriminate.
    destruct (find_cell (fr_store root) x) as [c|] eqn:FC; try discriminate.
    destruct (find_store_ok _ _ _ S FC) as [w [-> E]]. inversion H; subst. auto.
  Qed.

  Definition root_put (root : frame) (x : ident) (v : value) : frame := with_store root (put_cell (fr_store root) x (CVal v)).
  Lemma set_root : forall st root x v, nth_error (st_heap st) 0 = Some root -> is_root root ->
    set_nochecks st 0 x v = (val_res v, set_heap st (set_cell (st_heap st) 0 x (CVal v))).
  Proof.
    intros st root x v H [O [F S]]. unfold set_nochecks. rewrite H.
    destruct (find_cell (fr_store root) x) as [c|] eqn:FC.
    - destruct (find_store_ok _ _ _ S FC) as [w [-> _]]. auto.
    - rewrite O. auto.
  Qed.
  Lemma set_cell0 : forall h root x c, nth_error h 0 = Some root ->
    nth_error (set_cell h 0 x c) 0 = Some (with_store root (put_cell (fr_store root) x c)).
  Proof. intros h root x c H. destruct (heap0 _ _ H) as [rest ->]. reflexivity. Qed.
  Lemma root_put_ok : forall root x v, is_root root -> envs0 v = true -> is_root (root_put root x v).
  Proof. intros root x v [O [F S]] E. unfold root_put, is_root. simpl. repeat split; auto using put_store_ok. Qed.

  (* both runs perform the same root update *)
  Lemma rootrel_put : forall s1 s0 x v, rootrel s1 s0 -> envs0 v = true ->
    rootrel (set_heap s1 (set_cell (st_heap s1) 0 x (CVal v))) (set_heap s0 (set_cell (st_heap s0) 0 x (CVal v))).
  Proof.
    intros s1 s0 x v [root [A [B [C [D E]]]]] HV. exists (root_put root x v).
    split; [apply set_cell0; auto|]. split; [apply set_cell0; auto|]. split; [apply root_put_ok; auto|]. simpl. auto.
  Qed.

  Lemma assign_root : forall s1 s0 x v r1 s1' r0 s0', rootrel s1 s0 -> envs0 v = true ->
    assign defs s1 0 x v = (r1, s1') -> assign defs s0 0 x v = (r0, s0') ->
    r1 = r0 /\ rootrel s1' s0' /\ r_ref r1 = false /\ (forall w, r_oc r1 = OVal w -> envs0 w = true).
  Proof.
    intros s1 s0 x v r1 s1' r0 s0' R HV A1 A0. pose proof R as [root [H1 [H0 [IR [C1 C0]]]]].
    unfold assign in *.
    assert (SET : forall r1 s1' r0 s0', set_nochecks s1 0 x v = (r1, s1') -> set_nochecks s0 0 x v = (r0, s0') ->
                  r1 = r0 /\ rootrel s1' s0' /\ r_ref r1 = false /\ (forall w, r_oc r1 = OVal w -> envs0 w = true)).
    { intros a b c d E1 E0. rewrite (set_root _ _ _ _ H1 IR) in E1. rewrite (set_root _ _ _ _ H0 IR) in E0.
      inversion E1; inversion E0; subst. repeat split; auto using rootrel_put. simpl. intros w W. inversion W; subst; auto. }
    destruct (constant_name x); [|eapply SET; eauto].
    rewrite (get_root _ _ _ H1 IR) in A1. rewrite (get_root _ _ _ H0 IR) in A0.
    destruct (root_get root x) as [[old|]|] eqn:G.
    - simpl in A1, A0. rewrite !set_heap_same0 in *.
      destruct (negb (value_goeq old v)).
      + inversion A1; inversion A0; subst. repeat split; auto. simpl. intros w W. inversion W; subst; auto.
      + destruct (set_nochecks s1 0 x v) as [a b] eqn:E1. destruct (set_nochecks s0 0 x v) as [c d] eqn:E0.
        destruct (SET _ _ _ _ eq_refl eq_refl) as [Q1 [Q2 [Q3 Q4]]]. inversion A1; inversion A0; subst.
        repeat split; auto.
    - eapply SET; eauto.
    - inversion A1; inversion A0; subst. repeat split; auto. simpl. intros w W. discriminate.
  Qed.

  Definition same_res (r1 r0 : res) : Prop :=
    r_oc r1 = r_oc r0 /\ r_out r1 = r_out r0 /\ r_log r1 = r_log r0 /\ r_ref r1 = false /\ r_ref r0 = false /\
    (forall v, r_oc r1 = OVal v -> envs0 v = true).
  Definition sim_spec (f : nat) : Prop :=
    forall e s1 s0 r1 s1' r0 s0', rootrel s1 s0 -> lits_ok e = true ->
      eval f true defs s1 0 e = (r1, s1') -> eval f false defs s0 0 e = (r0, s0') ->
      r_oc r1 <> OFuel -> r_oc r0 <> OFuel -> same_res r1 r0 /\ rootrel s1' s0'.

  Lemma rootrel_ext : forall s1 s0 t1 t0, rootrel s1 s0 ->
    (exists x, st_heap t1 = st_heap s1 ++ x) -> (exists y, st_heap t0 = st_heap s0 ++ y) ->
    cache_ok defs (st_cache t1) -> cache_ok defs (st_cache t0) -> rootrel t1 t0.
  Proof.
    intros s1 s0 t1 t0 [root [A [B [C _]]]] [x X] [y Y] K1 K0. exists root. rewrite X, Y.
    repeat split; auto using nth_error_app_some; apply C.
  Qed.

  Lemma call_pure_det : forall fd k1 k0 vals o1 out1 o0 out0,
    call_pure fd k1 vals = (o1, out1) -> call_pure fd k0 vals = (o0, out0) -> o1 <> OFuel -> o0 <> OFuel ->
    o1 = o0 /\ out1 = out0.
  Proof.
    unfold call_pure. intros fd k1 k0 vals o1 out1 o0 out0 A B N1 N0.
    destruct (negb (length vals =? length (fd_params fd))).
    - inversion A; inversion B; subst; auto.
    - eapply peval_det; eauto.
  Qed.

  Lemma apply_root : forall f fv args s1 s0 r1 s1' r0 s0',
    rootrel s1 s0 -> envs0 fv = true -> forallb (fun p => negb (snd p)) args = true -> forallb envs0 (map fst args) = true ->
    apply_fn (eval f true defs) true defs s1 0 fv args = (r1, s1') ->
    apply_fn (eval f false defs) false defs s0 0 fv args = (r0, s0') ->
    r_oc r1 <> OFuel -> r_oc r0 <> OFuel -> same_res r1 r0 /\ rootrel s1' s0'.
  Proof.
    intros f fv args s1 s0 r1 s1' r0 s0' R HV HR HA A1 A0 N1 N0.
    pose proof R as [root [H1 [H0 [IR [C1 C0]]]]].
    destruct fv; try (unfold apply_fn in A1, A0; inversion A1; inversion A0; subst;
                      split; [repeat split; auto; simpl; intros w W; inversion W; subst; auto | auto]; fail).
    simpl in HV. apply Nat.eqb_eq in HV. subst env.
    destruct (nth_error defs d) as [fd|] eqn:Hd.
    2:{ unfold apply_fn in A1, A0. rewrite Hd in A1, A0. inversion A1; inversion A0; subst.
        split; [repeat split; auto; simpl; intros w W; discriminate | auto]. }
    assert (P1 : exists pf, nth_error (st_heap s1) (if same_fn root d 0 then 0 else 0) = Some pf)
      by (destruct (same_fn root d 0); eauto).
    assert (P0 : exists pf, nth_error (st_heap s0) (if same_fn root d 0 then 0 else 0) = Some pf)
      by (destruct (same_fn root d 0); eauto).
    destruct (apply_closed defs Hclosed f (closed_all defs Hclosed f) true d fd s1 0 root 0 args r1 s1' Hd H1 P1 HR C1 A1)
      as [F|[[k1 Q1] [R1 [L1 [M1 [X1 K1]]]]]]; [congruence|].
    destruct (apply_closed defs Hclosed f (closed_all defs Hclosed f) false d fd s0 0 root 0 args r0 s0' Hd H0 P0 HR C0 A0)
      as [F|[[k0 Q0] [R0 [L0 [M0 [X0 K0]]]]]]; [congruence|].
    destruct (call_pure_det _ _ _ _ _ _ _ _ Q1 Q0 N1 N0) as [EO EOUT].
    split; [|eapply rootrel_ext; eauto].
    repeat split; auto; try congruence.
    intros w W. rewrite W in Q1. unfold call_pure in Q1.
    destruct (negb (length (map fst args) =? length (fd_params fd))).
    - inversion Q1; subst; auto.
    - pose proof (all_closed defs Hclosed _ _ Hd) as CF. destruct (closed_fn_parts_pure fd CF) as [_ [_ CB]].
      eapply (peval_envs0 fd CF); [apply env_ok_combine; eauto | exact CB | exact Q1].
  Qed.

  Lemma lits_all_forallb : forall l,
    (fix all (l : list expr) : bool := match l with [] => true | a :: l' => lits_ok a && all l' end) l = forallb lits_ok l.
  Proof. induction l; simpl; auto; try (rewrite IHl; auto). Qed.

  Lemma same_res_then : forall a1 a0 b1 b0, same_res a1 a0 -> same_res b1 b0 -> same_res (then_res a1 b1) (then_res a0 b0).
  Proof.
    intros a1 a0 b1 b0 [A1 [A2 [A3 _]]] [B1 [B2 [B3 [B4 [B5 B6]]]]]. unfold same_res. simpl.
    repeat split; auto; congruence.
  Qed.
  Lemma same_res_oc : forall r1 r0 o, same_res r1 r0 -> (forall v, o = OVal v -> envs0 v = true) ->
    same_res (with_oc r1 o false) (with_oc r0 o false).
  Proof. intros r1 r0 o [A1 [A2 [A3 _]]] H. unfold same_res. simpl. repeat split; auto. Qed.
  Lemma same_res_refl_nil : forall o out lg, (forall v, o = OVal v -> envs0 v = true) ->
    same_res (mkRes o false out lg [] 0) (mkRes o false out lg [] 0).
  Proof. intros. unfold same_res. simpl. repeat split; auto. Qed.

  Ltac nofuel H N := let Q := fresh "Q" in intro Q; rewrite Q in H; inversion H; subst; apply N; simpl; auto.

  Lemma root_list : forall f, sim_spec f -> forall es s1 s0 r1 v1 s1' r0 v0 s0',
    rootrel s1 s0 -> forallb lits_ok es = true ->
    eval_list (eval f true defs) s1 0 es = (r1, v1, s1') -> eval_list (eval f false defs) s0 0 es = (r0, v0, s0') ->
    r_oc r1 <> OFuel -> r_oc r0 <> OFuel ->
    same_res r1 r0 /\ rootrel s1' s0' /\ v1 = v0 /\ forallb (fun p => negb (snd p)) v1 = true /\ forallb envs0 (map fst v1) = true.
  Proof.
    intros f HS. induction es as [|e es IH]; intros s1 s0 r1 v1 s1' r0 v0 s0' R HL H1 H0 N1 N0.
    - simpl in *. inversion H1; inversion H0; subst. repeat split; auto. apply same_res_refl_nil. intros v E; inversion E; auto.
    - simpl in HL. apply andb_prop in HL. destruct HL as [L1 L2]. cbn [eval_list] in H1, H0.
      destruct (eval f true defs s1 0 e) as [a1 t1] eqn:E1. destruct (eval f false defs s0 0 e) as [a0 t0] eqn:E0.
      assert (NA1 : r_oc a1 <> OFuel) by nofuel H1 N1.
      assert (NA0 : r_oc a0 <> OFuel) by nofuel H0 N0.
      destruct (HS _ _ _ _ _ _ _ R L1 E1 E0 NA1 NA0) as [SA RA].
      pose proof SA as [O [OUT [LG [RF1 [RF0 EV]]]]]. rewrite <- O in H0.
      destruct (r_oc a1) as [v| |] eqn:OA.
      + destruct (is_err v).
        * inversion H1; inversion H0; subst. split; [exact SA|]. repeat split; auto.
        * destruct (eval_list (eval f true defs) t1 0 es) as [[b1 w1] u1] eqn:B1.
          destruct (eval_list (eval f false defs) t0 0 es) as [[b0 w0] u0] eqn:B0.
          inversion H1; inversion H0; subst. simpl in N1, N0.
          destruct (IH _ _ _ _ _ _ _ _ RA L2 B1 B0 N1 N0) as [SB [RB [EW [FW VW]]]].
          subst w0. rewrite RF1, RF0. split; [apply same_res_then; auto|]. repeat split; auto.
          simpl. rewrite (EV v eq_refl). auto.
      + inversion H1; inversion H0; subst. split; [exact SA|]. repeat split; auto.
      + congruence.
  Qed.

  Theorem root_sim : forall f, sim_spec f.
  Proof.
    induction f as [|f IH]; intros e s1 s0 r1 s1' r0 s0' R HL H1 H0 N1 N0.
    { simpl in H1. inversion H1; subst. exfalso. apply N1. auto. }
    pose proof (root_list f IH) as IHL.
    pose proof R as [root [G1 [G0 [IR [C1 C0]]]]].
    destruct e; simpl in HL; simpl in H1, H0.
    - (* ELit *)
      inversion H1; inversion H0; subst. split; auto. apply same_res_refl_nil.
      intros w W; inversion W; subst. apply nofun_envs0. apply negb_true_iff in HL. auto.
    - (* EVar *)
      rewrite (get_root _ _ x G1 IR) in H1. rewrite (get_root _ _ x G0 IR) in H0.
      destruct (root_get root x) as [[v|]|] eqn:G.
      + rewrite set_heap_same0 in H1, H0. inversion H1; inversion H0; subst. split; auto. apply same_res_refl_nil.
        intros w W; inversion W; subst. eapply root_get_envs0; eauto.
      + inversion H1; inversion H0; subst. split; auto. apply same_res_refl_nil. intros w W; inversion W; auto.
      + inversion H1; inversion H0; subst. split; auto. apply same_res_refl_nil. intros w W; discriminate.
    - (* EAssign *)
      destruct (eval f true defs s1 0 e) as [a1 t1] eqn:E1. destruct (eval f false defs s0 0 e) as [a0 t0] eqn:E0.
      assert (NA1 : r_oc a1 <> OFuel) by nofuel H1 N1.
      assert (NA0 : r_oc a0 <> OFuel) by nofuel H0 N0.
      destruct (IH _ _ _ _ _ _ _ R HL E1 E0 NA1 NA0) as [SA RA].
      pose proof SA as [O [OUT [LG [RF1 [RF0 EV]]]]]. rewrite <- O in H0.
      destruct (r_oc a1) as [v| |] eqn:OA.
      + destruct (is_err v) eqn:EE.
        * inversion H1; inversion H0; subst. split; auto. apply same_res_oc; auto; intros w W; inversion W; subst; auto.
        * destruct (assign defs t1 0 x v) as [b1 u1] eqn:B1. destruct (assign defs t0 0 x v) as [b0 u0] eqn:B0.
          destruct (assign_root _ _ _ _ _ _ _ _ RA (EV v eq_refl) B1 B0) as [EB [RB [FB VB]]]. subst b0.
          inversion H1; inversion H0; subst. split; auto. apply same_res_then; auto.
          unfold same_res. repeat split; auto.
      + inversion H1; inversion H0; subst. split; auto.
      + congruence.
    - (* EFun *)
      destruct (nth_error defs d) as [fd|]; [|inversion H1; inversion H0; subst; split; auto; apply same_res_refl_nil; intros w W; discriminate].
      destruct (fd_name fd).
      + destruct (assign defs s1 0 i (VFun d 0)) as [b1 u1] eqn:B1. destruct (assign defs s0 0 i (VFun d 0)) as [b0 u0] eqn:B0.
        destruct (assign_root _ _ _ _ _ _ _ _ R (eq_refl : envs0 (VFun d 0) = true) B1 B0) as [EB [RB [FB VB]]]. subst b0.
        assert (SS : same_res b1 b1) by (unfold same_res; repeat split; auto).
        destruct (r_oc b1) as [v| |] eqn:OB.
        * destruct (is_err v) eqn:EE; inversion H1; inversion H0; subst; split; auto.
          apply same_res_oc; auto; intros w W; inversion W; subst; auto.
        * inversion H1; inversion H0; subst. split; auto.
        * inversion H1; inversion H0; subst. split; auto.
      + inversion H1; inversion H0; subst. split; auto. apply same_res_refl_nil. intros w W; inversion W; subst; auto.
    - (* ECall *)
      apply andb_prop in HL. destruct HL as [LF LA]. rewrite lits_all_forallb in LA.
      destruct (eval f true defs s1 0 e) as [a1 t1] eqn:E1. destruct (eval f false defs s0 0 e) as [a0 t0] eqn:E0.
      assert (NA1 : r_oc a1 <> OFuel) by nofuel H1 N1.
      assert (NA0 : r_oc a0 <> OFuel) by nofuel H0 N0.
      destruct (IH _ _ _ _ _ _ _ R LF E1 E0 NA1 NA0) as [SA RA].
      pose proof SA as [O [OUT [LG [RF1 [RF0 EV]]]]]. rewrite <- O in H0.
      destruct (r_oc a1) as [fv| |] eqn:OA.
      + destruct (is_err fv) eqn:EE.
        * inversion H1; inversion H0; subst. split; auto. apply same_res_oc; auto; intros w W; inversion W; subst; auto.
        * destruct (eval_list (eval f true defs) t1 0 args) as [[b1 w1] u1] eqn:B1.
          destruct (eval_list (eval f false defs) t0 0 args) as [[b0 w0] u0] eqn:B0.
          assert (NB1 : r_oc b1 <> OFuel).
          { intro Q. rewrite Q in H1. inversion H1; subst. apply N1. simpl. auto. }
          assert (NB0 : r_oc b0 <> OFuel).
          { intro Q. rewrite Q in H0. inversion H0; subst. apply N0. simpl. auto. }
          destruct (IHL _ _ _ _ _ _ _ _ _ RA LA B1 B0 NB1 NB0) as [SB [RB [EW [FW VW]]]]. subst w0.
          pose proof SB as [OB [OUTB [LGB [RFB1 [RFB0 EVB]]]]]. rewrite <- OB in H0.
          destruct (r_oc b1) as [av| |] eqn:OBB.
          -- destruct (is_err av) eqn:EA.
             ++ inversion H1; inversion H0; subst. split; auto. apply same_res_oc; auto using same_res_then; intros w W; inversion W; subst; auto.
             ++ destruct (apply_fn (eval f true defs) true defs u1 0 fv w1) as [c1 x1] eqn:A1.
                destruct (apply_fn (eval f false defs) false defs u0 0 fv w1) as [c0 x0] eqn:A0.
                inversion H1; inversion H0; subst. simpl in N1, N0.
                destruct (apply_root _ _ _ _ _ _ _ _ _ RB (EV fv eq_refl) FW VW A1 A0 N1 N0) as [SC RC].
                split; auto using same_res_then.
          -- inversion H1; inversion H0; subst. split; auto using same_res_then.
          -- congruence.
      + inversion H1; inversion H0; subst. split; auto.
      + congruence.
    - (* EArr *)
      rewrite lits_all_forallb in HL.
      destruct (eval_list (eval f true defs) s1 0 es) as [[b1 w1] u1] eqn:B1.
      destruct (eval_list (eval f false defs) s0 0 es) as [[b0 w0] u0] eqn:B0.
      assert (NB1 : r_oc b1 <> OFuel).
      { intro Q. rewrite Q in H1. inversion H1; subst. apply N1. simpl. auto. }
      assert (NB0 : r_oc b0 <> OFuel).
      { intro Q. rewrite Q in H0. inversion H0; subst. apply N0. simpl. auto. }
      destruct (IHL _ _ _ _ _ _ _ _ _ R HL B1 B0 NB1 NB0) as [SB [RB [EW [FW VW]]]]. subst w0.
      pose proof SB as [OB [OUTB [LGB [RFB1 [RFB0 EVB]]]]]. rewrite <- OB in H0.
      destruct (r_oc b1) as [av| |] eqn:OBB.
      + destruct (is_err av) eqn:EA; inversion H1; inversion H0; subst; split; auto; apply same_res_oc; auto;
          intros w W; inversion W; subst; auto; rewrite envs0_arr; auto.
      + inversion H1; inversion H0; subst. split; auto.
      + congruence.
    - (* EBin *)
      apply andb_prop in HL. destruct HL as [L1 L2].
      destruct (eval f true defs s1 0 e1) as [a1 t1] eqn:E1. destruct (eval f false defs s0 0 e1) as [a0 t0] eqn:E0.
      assert (NA1 : r_oc a1 <> OFuel) by nofuel H1 N1.
      assert (NA0 : r_oc a0 <> OFuel) by nofuel H0 N0.
      destruct (IH _ _ _ _ _ _ _ R L1 E1 E0 NA1 NA0) as [SA RA].
      pose proof SA as [O [OUT [LG [RF1 [RF0 EV]]]]]. rewrite <- O in H0.
      destruct (r_oc a1) as [v1| |] eqn:OA.
      + destruct (is_err v1) eqn:EE.
        * inversion H1; inversion H0; subst. split; auto. apply same_res_oc; auto; intros w W; inversion W; subst; auto.
        * destruct (eval f true defs t1 0 e2) as [b1 u1] eqn:B1. destruct (eval f false defs t0 0 e2) as [b0 u0] eqn:B0.
          assert (NB1 : r_oc b1 <> OFuel).
          { intro Q. rewrite Q in H1. inversion H1; subst. apply N1. simpl. auto. }
          assert (NB0 : r_oc b0 <> OFuel).
          { intro Q. rewrite Q in H0. inversion H0; subst. apply N0. simpl. auto. }
          destruct (IH _ _ _ _ _ _ _ RA L2 B1 B0 NB1 NB0) as [SB RB].
          pose proof SB as [OB [OUTB [LGB [RFB1 [RFB0 EVB]]]]]. rewrite <- OB in H0.
          destruct (r_oc b1) as [v2| |] eqn:OBB.
          -- destruct (is_err v2) eqn:E2; inversion H1; inversion H0; subst; split; auto; apply same_res_oc; auto using same_res_then;
               intros w W; try (inversion W; subst; auto; fail); eapply bin_op_envs0; [apply (EV v1); auto | apply (EVB v2); auto | eauto].
          -- inversion H1; inversion H0; subst. split; auto using same_res_then.
          -- congruence.
      + inversion H1; inversion H0; subst. split; auto.
      + congruence.
    - (* EIf *)
      apply andb_prop in HL. destruct HL as [HL L3]. apply andb_prop in HL. destruct HL as [L1 L2].
      destruct (eval f true defs s1 0 e1) as [a1 t1] eqn:E1. destruct (eval f false defs s0 0 e1) as [a0 t0] eqn:E0.
      assert (NA1 : r_oc a1 <> OFuel) by nofuel H1 N1.
      assert (NA0 : r_oc a0 <> OFuel) by nofuel H0 N0.
      destruct (IH _ _ _ _ _ _ _ R L1 E1 E0 NA1 NA0) as [SA RA].
      pose proof SA as [O [OUT [LG [RF1 [RF0 EV]]]]]. rewrite <- O in H0.
      destruct (r_oc a1) as [vc| |] eqn:OA.
      + destruct vc; try (inversion H1; inversion H0; subst; split; auto; apply same_res_oc; auto; intros w W; inversion W; subst; auto; fail).
        destruct (eval f true defs t1 0 (if b then e2 else e3)) as [b1 u1] eqn:B1.
        destruct (eval f false defs t0 0 (if b then e2 else e3)) as [b0 u0] eqn:B0.
        inversion H1; inversion H0; subst. simpl in N1, N0.
        assert (LB : lits_ok (if b then e2 else e3) = true) by (destruct b; auto).
        destruct (IH _ _ _ _ _ _ _ RA LB B1 B0 N1 N0) as [SB RB].
        split; auto using same_res_then.
      + inversion H1; inversion H0; subst. split; auto.
      + congruence.
    - (* ESeq *)
      apply andb_prop in HL. destruct HL as [L1 L2].
      destruct (eval f true defs s1 0 e1) as [a1 t1] eqn:E1. destruct (eval f false defs s0 0 e1) as [a0 t0] eqn:E0.
      assert (NA1 : r_oc a1 <> OFuel) by nofuel H1 N1.
      assert (NA0 : r_oc a0 <> OFuel) by nofuel H0 N0.
      destruct (IH _ _ _ _ _ _ _ R L1 E1 E0 NA1 NA0) as [SA RA].
      pose proof SA as [O [OUT [LG [RF1 [RF0 EV]]]]]. rewrite <- O in H0.
      destruct (r_oc a1) as [v1| |] eqn:OA.
      + destruct (is_err v1) eqn:EE.
        * inversion H1; inversion H0; subst. split; auto.
        * destruct (eval f true defs t1 0 e2) as [b1 u1] eqn:B1. destruct (eval f false defs t0 0 e2) as [b0 u0] eqn:B0.
          inversion H1; inversion H0; subst. simpl in N1, N0.
          destruct (IH _ _ _ _ _ _ _ RA L2 B1 B0 N1 N0) as [SB RB].
          split; auto using same_res_then.
      + inversion H1; inversion H0; subst. split; auto.
      + congruence.
    - (* EPrint *)
      rewrite lits_all_forallb in HL.
      destruct (eval_list (eval f true defs) s1 0 es) as [[b1 w1] u1] eqn:B1.
      destruct (eval_list (eval f false defs) s0 0 es) as [[b0 w0] u0] eqn:B0.
      assert (NB1 : r_oc b1 <> OFuel).
      { intro Q. rewrite Q in H1. inversion H1; subst. apply N1. simpl. auto. }
      assert (NB0 : r_oc b0 <> OFuel).
      { intro Q. rewrite Q in H0. inversion H0; subst. apply N0. simpl. auto. }
      destruct (IHL _ _ _ _ _ _ _ _ _ R HL B1 B0 NB1 NB0) as [SB [RB [EW [FW VW]]]]. subst w0.
      pose proof SB as [OB [OUTB [LGB [RFB1 [RFB0 EVB]]]]]. rewrite <- OB in H0.
      destruct (r_oc b1) as [av| |] eqn:OBB.
      + destruct (is_err av) eqn:EA.
        * inversion H1; inversion H0; subst. split; auto. apply same_res_oc; auto; intros w W; inversion W; subst; auto.
        * destruct (all_some (map (fun p : value * bool => print_form (fst p)) w1)).
          -- inversion H1; inversion H0; subst. split; auto. apply same_res_then; auto.
             apply same_res_refl_nil. intros w W; inversion W; auto.
          -- inversion H1; inversion H0; subst. split; auto. apply same_res_oc; auto; intros w W; discriminate.
      + inversion H1; inversion H0; subst. split; auto.
      + congruence.
    - (* ELog *) inversion H1; inversion H0; subst. split; auto. apply same_res_refl_nil. intros w W; inversion W; auto.
    - (* EError *) inversion H1; inversion H0; subst. split; auto. apply same_res_refl_nil. intros w W; inversion W; auto.
    - (* EExt *)
      inversion H1; inversion H0; subst. split; auto. unfold same_res. simpl. repeat split; auto.
      intros w W; inversion W; destruct k; auto.
    - (* EDel *)
      destruct (heap0 _ _ G1) as [rest1 EH1]. destruct (heap0 _ _ G0) as [rest0 EH0].
      destruct IR as [IO [IF IS]].
      rewrite EH1 in H1. rewrite EH0 in H0. simpl in H1, H0.
      destruct (find_cell (fr_store root) x) eqn:FC.
      + inversion H1; inversion H0; subst. split.
        * unfold same_res. simpl. repeat split; auto. intros w W; inversion W; auto.
        * exists (with_store root (remove_cell (fr_store root) x)). simpl. repeat split; auto; try constructor.
          apply remove_store_ok; auto.
      + rewrite IO in H1, H0. inversion H1; inversion H0; subst. split.
        * unfold same_res. simpl. repeat split; auto. intros w W; inversion W; auto.
        * exists root. simpl. repeat split; auto; constructor.
    - (* ECatchErr *)
      destruct (eval f true defs s1 0 e) as [a1 t1] eqn:E1. destruct (eval f false defs s0 0 e) as [a0 t0] eqn:E0.
      assert (NA1 : r_oc a1 <> OFuel) by (intro Q; rewrite Q in H1; inversion H1; subst; apply N1; auto).
      assert (NA0 : r_oc a0 <> OFuel) by (intro Q; rewrite Q in H0; inversion H0; subst; apply N0; auto).
      destruct (IH _ _ _ _ _ _ _ R HL E1 E0 NA1 NA0) as [SA RA].
      pose proof SA as [O [OUT [LG [RF1 [RF0 EV]]]]]. rewrite <- O in H0.
      destruct (r_oc a1) as [v| |] eqn:OA.
      + inversion H1; inversion H0; subst. split; auto. apply same_res_oc; auto; intros w W; inversion W; subst; auto.
      + inversion H1; inversion H0; subst. split; auto.
      + congruence.
  Qed.
End Root.

(* ================================================================ histories *)
Lemma rootrel_init : forall defs, rootrel defs init_state init_state.
Proof.
  intros. exists root_frame. simpl. repeat split; auto; constructor.
Qed.

Theorem closed_runs_agree : forall defs inputs fuel,
  closed_session defs inputs = true ->
  forall s1 s0, rootrel defs s1 s0 ->
  finished (run true fuel defs s1 inputs) = true -> finished (run false fuel defs s0 inputs) = true ->
  map obs_of (run true fuel defs s1 inputs) = map obs_of (run false fuel defs s0 inputs).
Proof.
  intros defs inputs fuel HC. unfold closed_session in HC. apply andb_prop in HC. destruct HC as [HD HL].
  induction inputs as [|e rest IH]; intros s1 s0 R F1 F0; simpl; auto.
  simpl in HL. apply andb_prop in HL. destruct HL as [L1 L2].
  simpl in F1, F0.
  destruct (eval fuel true defs s1 0 e) as [r1 s1'] eqn:E1. destruct (eval fuel false defs s0 0 e) as [r0 s0'] eqn:E0.
  simpl in F1, F0. apply andb_prop in F1. destruct F1 as [N1 F1]. apply andb_prop in F0. destruct F0 as [N0 F0].
  assert (NF1 : r_oc r1 <> OFuel) by (intro Q; rewrite Q in N1; discriminate).
  assert (NF0 : r_oc r0 <> OFuel) by (intro Q; rewrite Q in N0; discriminate).
  destruct (root_sim defs HD fuel e s1 s0 r1 s1' r0 s0' R L1 E1 E0 NF1 NF0) as [[O [OUT [LG _]]] R'].
  simpl. f_equal.
  - unfold obs_of. simpl. congruence.
  - apply IH; auto.
Qed.
