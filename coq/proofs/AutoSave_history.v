(* C18, histories: several auto-saves in one directory, some of them interrupted or failing.
   What an aborted save leaves behind never reaches the state file: after any history the state file holds, whole,
   what the last save that completed its rename wrote (or the original file). *)
From Coq Require Import List NArith ZArith Bool String Lia Arith.
From GrolGen Require Import Gen_AutoSave.
From GrolModel Require Import AutoSave.
From GrolProofs Require Import AutoSave_proofs.
Import ListNotations.

(* ================================================================ a fault index beyond the calls of the save is no fault *)
Lemma run_prog_writes_fault_beyond : forall fs0 tmp, tmp <> dot_gr -> forall bs c m i j p, Inv fs0 tmp c m ->
  i + List.length bs + 1 <= j ->
  run_prog tmp (map (fun b => (StWrite b, [])) bs ++ [(StRename tmp dot_gr, [])]) i (FaultAt j p) m
  = (map StWrite bs ++ [StRename tmp dot_gr], false).
Proof.
  intros fs0 tmp Hne. induction bs as [|b bs IH]; intros c m i j p HI Hj.
  - cbn [map app run_prog fault_here]. simpl in Hj.
    destruct (Nat.eqb i j) eqn:E; [apply Nat.eqb_eq in E; lia|].
    destruct (exec_rename_inv fs0 tmp c m Hne HI) as (m' & E' & _). rewrite E'. reflexivity.
  - simpl map. simpl app. cbn [run_prog fault_here]. simpl in Hj.
    destruct (Nat.eqb i j) eqn:E; [apply Nat.eqb_eq in E; lia|].
    destruct (exec_write_inv fs0 tmp c m b HI) as (m' & Ew & HI'). rewrite Ew.
    rewrite (IH (c ++ b) m' (S i) j p HI'); [reflexivity|lia].
Qed.

Lemma actions_fault_beyond : forall tmp fs0 bs i p, tmp <> dot_gr -> fs_get fs0 tmp = None ->
  List.length bs + 2 <= i ->
  autosave_actions tmp model_skeleton bs (FaultAt i p) fs0 = autosave_actions tmp model_skeleton bs NoFault fs0.
Proof.
  intros tmp fs0 bs i p Hne Hf Hi. rewrite (actions_nofault tmp fs0 bs Hne Hf).
  unfold autosave_actions. rewrite compile_model.
  destruct i as [|i]; [lia|]. cbn [run_prog fault_here Nat.eqb].
  destruct (exec_createtemp fs0 tmp Hf) as (m' & E & HI). rewrite E.
  rewrite (run_prog_writes_fault_beyond fs0 tmp Hne bs [] m' 1 (S i) p HI); [reflexivity|lia].
Qed.

Lemma after_fault_beyond : forall ce tmp fs0 bs i p k torn, tmp <> dot_gr -> fs_get fs0 tmp = None ->
  List.length bs + 2 <= i ->
  after ce tmp model_skeleton bs (FaultAt i p) k torn fs0 = after ce tmp model_skeleton bs NoFault k torn fs0.
Proof.
  intros. unfold after. rewrite actions_fault_beyond by assumption. reflexivity.
Qed.

(* ================================================================ one save of a history *)
Lemma save_step : forall ce, ce_write_prefix ce -> ce_atomic ce ->
  forall fs0 s, sv_tmp s <> dot_gr -> fs_get fs0 (sv_tmp s) = None ->
  let fs1 := run_save ce model_skeleton fs0 s in
  let new := List.concat (sv_bs s) in
  (committed s = true -> fs_get fs1 dot_gr = Some new) /\
  (committed s = false -> in_rename s = false -> fs_get fs1 dot_gr = fs_get fs0 dot_gr) /\
  (fs_get fs1 dot_gr = fs_get fs0 dot_gr \/
   (fault_in_range s = false /\ List.length (sv_bs s) + 1 <= sv_k s /\ fs_get fs1 dot_gr = Some new)) /\
  (forall n, n <> sv_tmp s -> n <> dot_gr -> fs_get fs1 n = fs_get fs0 n).
Proof.
  intros ce Hw Ha fs0 [tmp bs f k torn] Hne Hf. cbn [sv_tmp sv_bs] in *.
  unfold run_save, committed, in_rename, fault_in_range. cbn [sv_tmp sv_bs sv_fault sv_k sv_torn].
  assert (NF : forall fs1, fs1 = after ce tmp model_skeleton bs NoFault k torn fs0 ->
            (Nat.leb (List.length bs + 2) k = true -> fs_get fs1 dot_gr = Some (List.concat bs)) /\
            (Nat.leb (List.length bs + 2) k = false -> Nat.eqb k (List.length bs + 1) = false ->
               fs_get fs1 dot_gr = fs_get fs0 dot_gr) /\
            (fs_get fs1 dot_gr = fs_get fs0 dot_gr \/
               (List.length bs + 1 <= k /\ fs_get fs1 dot_gr = Some (List.concat bs))) /\
            (forall n, n <> tmp -> n <> dot_gr -> fs_get fs1 n = fs_get fs0 n)).
  { intros fs1 ->.
    destruct (crash_atomic_model ce Hw Ha tmp fs0 Hne Hf bs k torn) as (C1 & C2 & C3 & C4 & _).
    split; [|split; [|split]].
    - intro L. apply Nat.leb_le in L. exact (proj1 (C3 L)).
    - intros L E. apply Nat.leb_gt in L. apply Nat.eqb_neq in E. apply C2. lia.
    - destruct (le_lt_dec k (List.length bs)) as [Hle|Hgt].
      + left. exact (C2 Hle).
      + destruct C1 as [C1|C1]; [left; exact C1|right; split; [lia|exact C1]].
    - exact C4. }
  destruct f as [|i p].
  - (* no fault *)
    cbn [negb andb]. destruct (NF _ eq_refl) as (N1 & N2 & N3 & N4).
    split; [exact N1|]. split; [exact N2|]. split; [|exact N4].
    destruct N3 as [N3|(N3 & N3')]; [left; exact N3|right; auto].
  - destruct (Nat.ltb i (List.length bs + 2)) eqn:R.
    + (* a call of the save fails *)
      apply Nat.ltb_lt in R. cbn [negb andb].
      destruct (fault_keeps_old_model ce Hw Ha tmp fs0 Hne Hf bs i p k torn R) as (_ & F2 & F3).
      split; [discriminate|]. split; [intros _ _; exact F2|]. split; [left; exact F2|].
      intros n H1 _. apply F3. exact H1.
    + (* the fault index is beyond the calls: nothing fails *)
      apply Nat.ltb_ge in R. cbn [negb andb].
      rewrite (after_fault_beyond ce tmp fs0 bs i p k torn Hne Hf R).
      destruct (NF _ eq_refl) as (N1 & N2 & N3 & N4).
      split; [exact N1|]. split; [exact N2|]. split; [|exact N4].
      destruct N3 as [N3|(N3 & N3')]; [left; exact N3|right; auto].
Qed.

(* ================================================================ histories *)
(* os.CreateTemp's contract at every save: a name of the pattern that does not exist at that moment *)
Fixpoint fresh_history (ce : crash_effect) (sk : list sstep) (f : fs) (h : list save) : Prop :=
  match h with
  | [] => True
  | s :: h' => temp_name_ok autosave_temp_pattern (sv_tmp s) /\ fs_get f (sv_tmp s) = None /\
               fresh_history ce sk (run_save ce sk f s) h'
  end.

Lemma history_model : forall ce, ce_write_prefix ce -> ce_atomic ce ->
  forall h fs0, fresh_history ce model_skeleton fs0 h ->
  let fs' := run_history ce model_skeleton fs0 h in
  (forallb (fun s => negb (in_rename s)) h = true ->
     fs_get fs' dot_gr = last_committed (fs_get fs0 dot_gr) h) /\
  (fs_get fs' dot_gr = fs_get fs0 dot_gr \/
   exists s, In s h /\ fault_in_range s = false /\ List.length (sv_bs s) + 1 <= sv_k s /\
             fs_get fs' dot_gr = Some (List.concat (sv_bs s))) /\
  (forall n, n <> dot_gr -> (forall s, In s h -> n <> sv_tmp s) -> fs_get fs' n = fs_get fs0 n).
Proof.
  intros ce Hw Ha. induction h as [|s h IH]; intros fs0 HF.
  - cbn. split; [reflexivity|]. split; [left; reflexivity|]. reflexivity.
  - destruct HF as (Hp & Hfr & HF').
    assert (Hne : sv_tmp s <> dot_gr).
    { rewrite <- state_file_matches. apply temp_never_state_file_gen. exact Hp. }
    destruct (save_step ce Hw Ha fs0 s Hne Hfr) as (S1 & S2 & S3 & S4).
    specialize (IH (run_save ce model_skeleton fs0 s) HF'). destruct IH as (I1 & I2 & I3).
    cbn [run_history last_committed forallb]. split; [|split].
    + intro Hall. apply andb_true_iff in Hall. destruct Hall as [Hs Hall].
      rewrite (I1 Hall). f_equal.
      destruct (committed s) eqn:C.
      * exact (S1 eq_refl).
      * apply S2; [reflexivity|]. destruct (in_rename s); [discriminate|reflexivity].
    + destruct I2 as [I2|(s' & Hin & A & B & C)].
      * rewrite I2. destruct S3 as [S3|(A & B & C)].
        -- left. exact S3.
        -- right. exists s. split; [left; reflexivity|]. auto.
      * right. exists s'. split; [right; exact Hin|]. auto.
    + intros n Hn Hall. rewrite I3.
      * apply S4; [|exact Hn]. apply Hall. left. reflexivity.
      * exact Hn.
      * intros s' Hin. apply Hall. right. exact Hin.
Qed.

(* the same about the skeleton generated from /repo *)
Lemma history_gen : forall ce : crash_effect, ce_write_prefix ce -> ce_atomic ce ->
  forall h fs0, fresh_history ce autosave_skeleton fs0 h ->
  let fs' := run_history ce autosave_skeleton fs0 h in
  (forallb (fun s => negb (in_rename s)) h = true ->
     fs_get fs' autosave_state_file = last_committed (fs_get fs0 autosave_state_file) h) /\
  (fs_get fs' autosave_state_file = fs_get fs0 autosave_state_file \/
   exists s, In s h /\ fault_in_range s = false /\ List.length (sv_bs s) + 1 <= sv_k s /\
             fs_get fs' autosave_state_file = Some (List.concat (sv_bs s))) /\
  (forall n, n <> autosave_state_file -> (forall s, In s h -> n <> sv_tmp s) -> fs_get fs' n = fs_get fs0 n).
Proof.
  intros ce Hw Ha. rewrite skeleton_matches, state_file_matches. exact (history_model ce Hw Ha).
Qed.

(* every fault position, also one beyond the calls of the save (which is no fault at all): the single-save
   statement without the side condition on the fault index *)
Lemma any_fault_any_crash_gen : forall ce : crash_effect, ce_write_prefix ce -> ce_atomic ce ->
  forall tmp fs0, temp_name_ok autosave_temp_pattern tmp -> fs_get fs0 tmp = None ->
  forall bs f k torn,
  let fs' := after ce tmp autosave_skeleton bs f k torn fs0 in
  (fs_get fs' autosave_state_file = fs_get fs0 autosave_state_file \/
   fs_get fs' autosave_state_file = Some (List.concat bs)) /\
  (forall n, n <> tmp -> n <> autosave_state_file -> fs_get fs' n = fs_get fs0 n).
Proof.
  intros ce Hw Ha tmp fs0 Ht Hf bs f k torn.
  assert (Hne : tmp <> dot_gr).
  { rewrite <- state_file_matches. apply temp_never_state_file_gen. exact Ht. }
  rewrite skeleton_matches, state_file_matches.
  destruct (save_step ce Hw Ha fs0 (mksave tmp bs f k torn) Hne Hf) as (_ & _ & S3 & S4).
  unfold run_save in S3, S4. cbn [sv_tmp sv_bs sv_fault sv_k sv_torn] in S3, S4.
  split; [|exact S4]. destruct S3 as [S3|(_ & _ & S3)]; [left|right]; exact S3.
Qed.

(* ================================================================ an example history (also run by vm_compute):
   old file [1;1]; save A of [[2];[3;4]] dies after its first write (temp .grol7.tmp left with [2]);
   save B of [[5]] (shorter than the residue) completes; save C of [[6;6;6]] fails in its write after 2 bytes *)
Definition tmpy : fname := [46; 103; 114; 111; 108; 56; 46; 116; 109; 112]%N.   (* ".grol8.tmp" *)
Definition tmpz : fname := [46; 103; 114; 111; 108; 57; 46; 116; 109; 112]%N.   (* ".grol9.tmp" *)
Definition ex_history : list save :=
  [mksave tmpx ex_bs NoFault 2 0; mksave tmpy [[5]%N] NoFault 3 0; mksave tmpz [[6; 6; 6]%N] (FaultAt 1 2) 9 0].

Lemma ex_history_fresh : fresh_history torn_step autosave_skeleton ex_fs0 ex_history.
Proof.
  cbn [fresh_history ex_history sv_tmp].
  split; [exists [55%N]; reflexivity|]. split; [reflexivity|].
  split; [exists [56%N]; reflexivity|]. split; [vm_compute; reflexivity|].
  split; [exists [57%N]; reflexivity|]. split; [vm_compute; reflexivity|]. exact I.
Qed.

Example ex_history_outcome :
  let fs' := run_history torn_step autosave_skeleton ex_fs0 ex_history in
  fs_get fs' autosave_state_file = Some [5]%N /\
  last_committed (fs_get ex_fs0 autosave_state_file) ex_history = Some [5]%N /\
  fs_get fs' tmpx = Some [2]%N /\ fs_get fs' tmpy = None /\ fs_get fs' tmpz = Some [6; 6]%N.
Proof. vm_compute. repeat split. Qed.
