(* C08: a parse that reports no error and asks for no continuation returns a tree without missing
   children.  Invariant-based proof over the mutually recursive parser model. *)
From Coq Require Import List ZArith NArith Bool String Lia.
From GrolGen Require Import Gen_Consts Gen_Prec Gen_ParserTables.
From GrolModel Require Import Ast Parser AstWf.
From GrolProofs Require Import Front_tables Parser_eqns.
Import ListNotations.
Local Open Scope Z_scope.

(* ---------- dirtiness: an error was recorded or a continuation requested ---------- *)
Definition dirty (s : pstate) : bool := match ps_errs s with [] => ps_cont s | _ => true end.
Definition le (s s' : pstate) : Prop := dirty s = true -> dirty s' = true.

Lemma le_refl s : le s s. Proof. unfold le; auto. Qed.
Lemma le_trans a b c : le a b -> le b c -> le a c. Proof. unfold le; auto. Qed.
Lemma dirty_next s : dirty (nextToken s) = dirty s.
Proof. unfold nextToken, dirty. destruct (ps_rest s); reflexivity. Qed.
Lemma dirty_cont s : dirty (set_cont s) = true.
Proof. unfold dirty, set_cont; simpl. destruct (ps_errs s); reflexivity. Qed.
Lemma dirty_err e s : dirty (add_err e s) = true. Proof. reflexivity. Qed.
Lemma le_next s : le s (nextToken s). Proof. unfold le. rewrite dirty_next. auto. Qed.
Lemma le_next_l s s' : le (nextToken s) s' -> le s s'. Proof. unfold le. rewrite dirty_next. auto. Qed.
Lemma le_cont s : le s (set_cont s). Proof. unfold le. intros _. apply dirty_cont. Qed.
Lemma le_err e s : le s (add_err e s). Proof. unfold le. intros _. apply dirty_err. Qed.
Global Hint Resolve le_refl le_next le_cont le_err : parse.

Lemma expectPeek_spec s t b s' : expectPeek s t = (b, s') ->
  (b = true /\ peekIs s t = true /\ s' = nextToken s) \/ (b = false /\ dirty s' = true /\ le s s').
Proof.
  unfold expectPeek. destruct (peekIs s t) eqn:E.
  - intros [= <- <-]. left; auto.
  - destruct (peekIs s token_EOL); intros [= <- <-]; right;
      repeat split; auto using dirty_cont, dirty_err with parse.
Qed.

(* ---------- quality of results (np = also require precedence entries for operator tokens) ---------- *)
Section NP.
Variable np : bool.
Notation wfn := (wf_node np).
Definition good (x : option node) : bool := we_with wfn x.
Definition pend (s : pstate) : bool := peekIs s token_LAMBDA.
Definition is_ident_ty (t : Z) : bool := Z.eqb t token_IDENT || Z.eqb t token_DOTDOT.
Definition identy (x : option node) : bool :=
  match x with
  | Some n => match node_tok n with Some t => is_ident_ty (ttype t) | None => false end
  | None => false
  end.
Definition openrange (x : option node) : bool :=
  match x with Some (NInfix _ _ None) => true | _ => false end.

(* result of an expression-level function in a clean state: a good node, or junk that is not
   identifier-typed with `=>` as next token; an open range is followed by `]` *)
Definition okx (x : option node) (s' : pstate) (extra : Prop) : Prop :=
  dirty s' = false ->
  (good x = true /\ (openrange x = true -> peekIs s' token_RBRACKET = true))
  \/ (pend s' = true /\ identy x = false /\ extra).

(* ---------- facts about the generated tables (recomputed when /repo changes them) ---------- *)
Lemma no_prefix_for_lambda : table_get prefix_fns token_LAMBDA = None.
Proof. vm_compute. reflexivity. Qed.
Lemma infix_for_lambda : table_get infix_fns token_LAMBDA = Some "parseLambdaExpression"%string.
Proof. vm_compute. reflexivity. Qed.
Lemma prec_of_lambda : precedence_of token_LAMBDA = ast_LAMBDA.
Proof. vm_compute. reflexivity. Qed.
Lemma prec_of_rbracket : precedence_of token_RBRACKET = ast_LOWEST.
Proof. vm_compute. reflexivity. Qed.

Definition prefix_ident_only_identifier : bool :=
  forallb (fun e => negb (is_ident_ty (fst e)) || String.eqb (snd e) "parseIdentifier") prefix_fns.
Lemma prefix_ident_only_identifier_ok : prefix_ident_only_identifier = true.
Proof. vm_compute. reflexivity. Qed.
Definition infix_no_ident : bool := forallb (fun e => negb (is_ident_ty (fst e))) infix_fns.
Lemma infix_no_ident_ok : infix_no_ident = true.
Proof. vm_compute. reflexivity. Qed.

Lemma zlookup_forall {A} (P : Z * A -> bool) l k v :
  forallb P l = true -> zlookup l k = Some v -> P (k, v) = true.
Proof.
  induction l as [|[k' v'] l IH]; simpl; [discriminate|]. intros H. apply andb_true_iff in H as [H1 H2].
  destruct (Z.eqb_spec k' k) as [->|]; [intros [= <-]; exact H1|apply IH, H2].
Qed.
Lemma table_get_forall {A} (P : Z * A -> bool) l k v :
  forallb P l = true -> table_get l k = Some v -> P (k, v) = true.
Proof.
  intros H. unfold table_get. apply zlookup_forall.
  rewrite forallb_forall in *. intros x Hx. apply H. apply in_rev. exact Hx.
Qed.

Lemma infix_has_prec ty fn : table_get infix_fns ty = Some fn ->
  fn = "parseInfixExpression"%string \/ fn = "parseIndexExpression"%string ->
  has_prec_tok (mkTok ty []) = true.
Proof.
  intros H Hfn. pose proof printer_tokens_have_prec_ok as E. unfold printer_tokens_have_prec in E.
  apply andb_true_iff in E as [_ E]. pose proof (table_get_forall _ _ _ _ E H) as F. simpl in F.
  unfold has_prec_tok; simpl. unfold has_prec in F.
  destruct Hfn as [-> | ->]; simpl in F; exact F.
Qed.
Lemma postfix_has_prec ty fn : table_get postfix_fns ty = Some fn -> has_prec_tok (mkTok ty []) = true.
Proof.
  intros H. pose proof printer_tokens_have_prec_ok as E. unfold printer_tokens_have_prec in E.
  apply andb_true_iff in E as [E _]. pose proof (table_get_forall _ _ _ _ E H) as F. simpl in F.
  unfold has_prec_tok; simpl. exact F.
Qed.
Lemma has_prec_tok_ty t : has_prec_tok t = has_prec_tok (mkTok (ttype t) []).
Proof. reflexivity. Qed.

Lemma prefix_ident ty fn : table_get prefix_fns ty = Some fn ->
  is_ident_ty ty = false \/ fn = "parseIdentifier"%string.
Proof.
  intros H. pose proof (table_get_forall _ _ _ _ prefix_ident_only_identifier_ok H) as E. simpl in E.
  apply orb_true_iff in E as [E|E]; [left; apply negb_true_iff, E|right; apply String.eqb_eq, E].
Qed.
Lemma infix_ident ty fn : table_get infix_fns ty = Some fn -> is_ident_ty ty = false.
Proof.
  intros H. pose proof (table_get_forall _ _ _ _ infix_no_ident_ok H) as E. simpl in E.
  apply negb_true_iff, E.
Qed.

(* peek is `=>`: it is none of the other tokens the parser tests for *)
Lemma pend_excl s t : pend s = true -> t <> token_LAMBDA -> peekIs s t = false.
Proof.
  unfold pend, peekIs. intros H Hn. apply Z.eqb_eq in H. rewrite H. apply Z.eqb_neq. congruence.
Qed.
Lemma peek_excl s a b : peekIs s a = true -> a <> b -> peekIs s b = false.
Proof. unfold peekIs. intros H Hn. apply Z.eqb_eq in H. rewrite H. apply Z.eqb_neq. exact Hn. Qed.

Section Specs.
Variable conv : numconv.

Definition left_ok (left : option node) (s : pstate) : Prop :=
  dirty s = false ->
  (good left = true /\ (openrange left = true -> peekIs s token_RBRACKET = true))
  \/ (pend s = true /\ identy left = false).

Definition goodl (x : option (list (option node))) : bool :=
  match x with Some l => wl_with wfn l | None => false end.
Definition goodb (x : option node) : bool := wb_with wfn x.

Definition PE (f : nat) : Prop := forall prec s x s',
  parseExpression conv f prec s = ROk x s' ->
  le s s' /\ okx x s' (ast_LAMBDA <= prec \/ x = None)
  /\ (curIs s token_LAMBDA = true -> dirty s' = false -> x = None /\ pend s' = true).
Definition PL (f : nat) : Prop := forall prec left s x s',
  exprLoop conv f prec left s = ROk x s' -> left_ok left s ->
  le s s' /\ okx x s' (ast_LAMBDA <= prec).
Definition PP (f : nat) : Prop := forall fn s x s',
  prefixFn conv f fn s = ROk x s' -> table_get prefix_fns (pty (ps_cur s)) = Some fn ->
  le s s' /\ okx x s' True.
Definition PI (f : nat) : Prop := forall fn left s x s',
  infixFn conv f fn left s = ROk x s' -> table_get infix_fns (pty (ps_cur s)) = Some fn ->
  (dirty s = false -> good left = true \/ (identy left = false /\ fn = "parseLambdaExpression"%string)) ->
  le s s' /\ okx x s' True.
Definition PM (f : nat) : Prop := forall left more s x s',
  parseLambdaMulti conv f left more s = ROk x s' ->
  is_ident_ty (pty (ps_cur s)) = false ->
  (dirty s = false -> good left = true \/ identy left = false) ->
  (dirty s = false -> match more with Some l => wl_with wfn l = true | None => True end) ->
  le s s' /\ okx x s' True.
Definition PG (f : nat) : Prop := forall s x s',
  parseGroupedExpression conv f s = ROk x s' -> le s s' /\ okx x s' True.
Definition PIf (f : nat) : Prop := forall s x s',
  parseIfExpression conv f s = ROk x s' -> le s s' /\ (dirty s' = false -> good x = true).
Definition PB (f : nat) : Prop := forall s x s',
  parseBlockStatement conv f s = ROk x s' -> le s s' /\ (dirty s' = false -> goodb x = true).
Definition PBL (f : nat) : Prop := forall acc s x s',
  blockLoop conv f acc s = ROk x s' ->
  (dirty s = false -> wl_with wfn acc = true \/ curIs s token_LAMBDA = true) ->
  le s s' /\ (dirty s' = false -> goodb x = true).
Definition PS (f : nat) : Prop := forall s x s',
  parseStatement conv f s = ROk x s' ->
  le s s' /\ (dirty s' = false -> good x = true \/ (pend s' = true /\ x = None))
  /\ (curIs s token_LAMBDA = true -> dirty s' = false -> x = None /\ pend s' = true).
Definition PEL (f : nat) : Prop := forall endt s x s',
  parseExpressionList conv f endt s = ROk x s' -> endt <> token_LAMBDA ->
  le s s' /\ (dirty s' = false -> goodl x = true).
Definition PELL (f : nat) : Prop := forall endt acc s x s',
  exprListLoop conv f endt acc s = ROk x s' -> endt <> token_LAMBDA ->
  (dirty s = false -> wl_with wfn acc = true \/ pend s = true) ->
  le s s' /\ (dirty s' = false -> goodl x = true).
Definition PML (f : nat) : Prop := forall t acc s x s',
  parseMapLoop conv f t acc s = ROk x s' ->
  (dirty s = false -> wp_with wfn acc = true) ->
  le s s' /\ (dirty s' = false -> good x = true).

Definition All (f : nat) : Prop :=
  PE f /\ PL f /\ PP f /\ PI f /\ PM f /\ PG f /\ PIf f /\ PB f /\ PBL f /\ PS f /\ PEL f /\ PELL f /\ PML f.

(* ---------- small facts ---------- *)
Lemma wl_app l x : wl_with wfn (l ++ [x]) = wl_with wfn l && we_with wfn x.
Proof. induction l as [|y l IH]; simpl; [rewrite andb_true_r; reflexivity|]. rewrite IH, andb_assoc. reflexivity. Qed.

Lemma wp_app l k v : wp_with wfn (l ++ [(k, v)]) = wp_with wfn l && (we_with wfn k && we_with wfn v).
Proof.
  induction l as [|[a b] l IH]; simpl; [rewrite andb_true_r; reflexivity|].
  rewrite IH. rewrite !andb_assoc. reflexivity.
Qed.

Lemma dirty_false_le s s' : le s s' -> dirty s' = false -> dirty s = false.
Proof. unfold le. intros H H'. destruct (dirty s); [rewrite H in H'; [discriminate|reflexivity]|reflexivity]. Qed.

Lemma cur_next s : ps_cur (nextToken s) = ps_peek s.
Proof. unfold nextToken. destruct (ps_rest s); reflexivity. Qed.
Lemma curIs_next s t : curIs (nextToken s) t = peekIs s t.
Proof. unfold curIs, peekIs. rewrite cur_next. reflexivity. Qed.
Lemma cur_excl s a b : curIs s a = true -> a <> b -> curIs s b = false.
Proof. unfold curIs. intros H Hn. apply Z.eqb_eq in H. rewrite H. apply Z.eqb_neq. exact Hn. Qed.

Ltac inv H := injection H as <- <-.
Ltac tokne := unfold token_LAMBDA, token_SEMICOLON, token_RBRACE, token_EOF, token_EOL, token_COMMA, token_RPAREN,
  token_LPAREN, token_LBRACKET, token_RBRACKET, token_LBRACE, token_RETURN, token_ELSE, token_IF, token_COLON,
  token_LINECOMMENT, token_IDENT, token_DOTDOT; congruence.

(* ---------- parseExpression ---------- *)
Lemma PE_step f : All f -> PE (S f).
Proof.
  intros (HPE & HPL & HPP & HPI & HPM & _). unfold PE. intros prec s x s' H.
  rewrite parseExpression_S in H.
  destruct (curIs s token_EOL) eqn:Heol.
  { inv H. split; [auto with parse|]. split.
    - intros Hd. rewrite dirty_cont in Hd. discriminate.
    - intros _ Hd. rewrite dirty_cont in Hd. discriminate. }
  destruct (table_get prefix_fns (pty (ps_cur s))) as [fn|] eqn:Hfn.
  2:{ destruct (curIs s token_RPAREN && (ttype (ps_prev s) =? token_LPAREN) && peekIs s token_EOL).
      { inv H. split; [auto with parse|]. split.
        - intros Hd. rewrite dirty_cont in Hd. discriminate.
        - intros _ Hd. rewrite dirty_cont in Hd. discriminate. }
      destruct (peekIs s token_LAMBDA) eqn:Hp.
      - inv H. split; [auto with parse|]. split.
        + intros _. right. repeat split; auto.
        + intros _ _. auto.
      - inv H. split; [auto with parse|]. split; [intros Hd; discriminate|intros _ Hd; discriminate]. }
  assert (Hnl : curIs s token_LAMBDA = true -> False).
  { unfold curIs. intros E. apply Z.eqb_eq in E. rewrite E, no_prefix_for_lambda in Hfn. discriminate. }
  destruct (prefixFn conv f fn s) as [left s1| |] eqn:Hpre; try discriminate.
  destruct (HPP _ _ _ _ Hpre Hfn) as [Hle1 Hok1].
  destruct (peekIs s1 token_LAMBDA && (prec =? ast_LAMBDA)) eqn:Hlam.
  - apply andb_true_iff in Hlam as [Hp Hq]. apply Z.eqb_eq in Hq.
    assert (Hcur : is_ident_ty (pty (ps_cur (nextToken s1))) = false).
    { rewrite cur_next. unfold peekIs in Hp. apply Z.eqb_eq in Hp. rewrite Hp. reflexivity. }
    destruct (HPM _ _ _ _ _ H Hcur) as [Hle2 Hok2].
    + rewrite dirty_next. intros Hd. destruct (Hok1 Hd) as [[Hg _]|(_ & Hi & _)]; auto.
    + intros _. exact I.
    + split; [eapply le_trans; [exact Hle1|apply le_next_l, Hle2]|]. split; [|intros E; destruct (Hnl E)].
      intros Hd. destruct (Hok2 Hd) as [Hg|(Hp' & Hi & _)]; [left; exact Hg|right; repeat split; auto].
      left. lia.
  - destruct (HPL _ _ _ _ _ H) as [Hle2 Hok2].
    + intros Hd. destruct (Hok1 Hd) as [Hg|(Hp' & Hi & _)]; [left; exact Hg|right; auto].
    + split; [eapply le_trans; eauto|]. split; [|intros E; destruct (Hnl E)].
      intros Hd. destruct (Hok2 Hd) as [Hg|(Hp' & Hi & Hx)]; [left; exact Hg|right; repeat split; auto].
Qed.

(* ---------- exprLoop ---------- *)
Lemma PL_step f : All f -> PL (S f).
Proof.
  intros (HPE & HPL & HPP & HPI & _). unfold PL. intros prec left s x s' H Hleft.
  rewrite exprLoop_S in H. cbv zeta in H.
  assert (Hexit : le s s /\ okx left s (ast_LAMBDA <= prec) \/ (dirty s = false /\ pend s = true /\ prec < ast_LAMBDA)).
  { destruct (dirty s) eqn:Hd.
    - left. split; [apply le_refl|]. intros Hd'. congruence.
    - destruct (Hleft Hd) as [Hg|[Hp Hi]].
      + left. split; [apply le_refl|]. intros _. left. exact Hg.
      + destruct (Z.le_gt_cases ast_LAMBDA prec).
        * left. split; [apply le_refl|]. intros _. right. auto.
        * right. repeat split; auto; lia. }
  destruct (negb (peekIs s token_SEMICOLON) && (prec <? peekPrecedence s)) eqn:Hc.
  2:{ inv H. destruct Hexit as [E|(Hd & Hp & Hlt)]; [exact E|].
      exfalso. rewrite (pend_excl s token_SEMICOLON Hp) in Hc by tokne. simpl in Hc.
      unfold peekPrecedence in Hc. unfold pend, peekIs in Hp. apply Z.eqb_eq in Hp. rewrite Hp, prec_of_lambda in Hc.
      apply Z.ltb_ge in Hc. lia. }
  destruct (table_get infix_fns (pty (ps_peek s))) as [fn|] eqn:Hfn.
  2:{ inv H. destruct Hexit as [E|(Hd & Hp & Hlt)]; [exact E|].
      exfalso. unfold pend, peekIs in Hp. apply Z.eqb_eq in Hp. rewrite Hp, infix_for_lambda in Hfn. discriminate. }
  destruct (((pty (ps_peek s) =? token_LPAREN) || (pty (ps_peek s) =? token_LBRACKET)) && pk_ws (ps_peek s)) eqn:Hws.
  { inv H. destruct Hexit as [E|(Hd & Hp & Hlt)]; [exact E|].
    exfalso. unfold pend, peekIs in Hp. apply Z.eqb_eq in Hp. rewrite Hp in Hws. discriminate. }
  destruct (infixFn conv f fn left (nextToken s)) as [left' s2| |] eqn:Hin; try discriminate.
  destruct (HPI _ _ _ _ _ Hin) as [Hle1 Hok1].
  - rewrite cur_next. exact Hfn.
  - rewrite dirty_next. intros Hd. destruct (Hleft Hd) as [[Hg _]|[Hp Hi]]; [left; exact Hg|right].
    split; [exact Hi|]. unfold pend, peekIs in Hp. apply Z.eqb_eq in Hp. rewrite Hp, infix_for_lambda in Hfn.
    injection Hfn as <-. reflexivity.
  - destruct (HPL _ _ _ _ _ H) as [Hle2 Hok2].
    + intros Hd. destruct (Hok1 Hd) as [Hg|(Hp & Hi & _)]; [left; exact Hg|right; auto].
    + split; [|exact Hok2]. eapply le_trans; [apply le_next_l, Hle1|exact Hle2].
Qed.

Lemma lambda_not_lowest : ast_LAMBDA <= ast_LOWEST -> False.
Proof. unfold ast_LAMBDA, ast_LOWEST. lia. Qed.

Lemma good_return t v : good (Some (NReturn t v)) = match v with None => true | Some _ => good v end.
Proof. destruct v; reflexivity. Qed.

(* ---------- parseStatement ---------- *)
Lemma PS_step f : All f -> PS (S f).
Proof.
  intros (HPE & _). unfold PS. intros s x s' H. rewrite parseStatement_S in H. cbv zeta in H.
  destruct (curIs s token_RETURN) eqn:Hret.
  - assert (Hnl : curIs s token_LAMBDA = true -> False).
    { intros E. rewrite (cur_excl s _ token_RETURN E) in Hret by tokne. discriminate. }
    destruct (peekIs s token_SEMICOLON || peekIs s token_RBRACE || peekIs s token_EOF || peekIs s token_EOL
              || peekIs s token_LINECOMMENT).
    + inv H. split; [apply le_refl|]. split; [intros _; left; reflexivity|intros E; destruct (Hnl E)].
    + destruct (parseExpression conv f ast_LOWEST (nextToken s)) as [v s1| |] eqn:Hv; try discriminate.
      destruct (HPE _ _ _ _ Hv) as (Hle & Hok & _). inv H.
      assert (Hd' : dirty (if peekIs s1 token_SEMICOLON then nextToken s1 else s1) = dirty s1)
        by (destruct (peekIs s1 token_SEMICOLON); [apply dirty_next|reflexivity]).
      split; [|split; [|intros E; destruct (Hnl E)]].
      * unfold le. rewrite Hd'. apply le_next_l in Hle. exact Hle.
      * rewrite Hd'. intros Hd. left. rewrite good_return.
        destruct (Hok Hd) as [[Hg _]|(_ & _ & [Hx|Hx])].
        -- destruct v; [exact Hg|reflexivity].
        -- destruct (lambda_not_lowest Hx).
        -- subst v. reflexivity.
  - destruct (parseExpression conv f ast_LOWEST s) as [e s1| |] eqn:He; try discriminate.
    destruct (HPE _ _ _ _ He) as (Hle & Hok & Hlam). inv H.
    assert (Hd' : dirty (if peekIs s1 token_SEMICOLON then nextToken s1 else s1) = dirty s1)
      by (destruct (peekIs s1 token_SEMICOLON); [apply dirty_next|reflexivity]).
    assert (Hpend : pend s1 = true -> (if peekIs s1 token_SEMICOLON then nextToken s1 else s1) = s1).
    { intros Hp. rewrite (pend_excl s1 token_SEMICOLON Hp) by tokne. reflexivity. }
    split; [|split].
    + unfold le. rewrite Hd'. exact Hle.
    + rewrite Hd'. intros Hd. destruct (Hok Hd) as [[Hg _]|(Hp & _ & [Hx|Hx])].
      * left; exact Hg.
      * destruct (lambda_not_lowest Hx).
      * right. rewrite (Hpend Hp). auto.
    + rewrite Hd'. intros E Hd. destruct (Hlam E Hd) as [-> Hp]. rewrite (Hpend Hp). auto.
Qed.

(* ---------- blocks ---------- *)
Lemma PBL_step f : All f -> PBL (S f).
Proof.
  intros (_ & _ & _ & _ & _ & _ & _ & _ & HPBL & HPS & _). unfold PBL. intros acc s x s' H Hacc.
  rewrite blockLoop_S in H.
  destruct (curIs s token_RBRACE || curIs s token_EOF) eqn:Hend.
  { inv H. split; [apply le_refl|]. intros Hd. destruct (Hacc Hd) as [Hw|Hl]; [exact Hw|].
    exfalso. apply orb_true_iff in Hend as [E|E]; rewrite (cur_excl s _ _ Hl) in E; try discriminate; tokne. }
  destruct (curIs s token_EOL).
  { inv H. split; [auto with parse|]. intros Hd. rewrite dirty_cont in Hd. discriminate. }
  destruct (parseStatement conv f s) as [st s1| |] eqn:Hst; try discriminate.
  destruct (HPS _ _ _ Hst) as (Hle & Hok & Hlam).
  destruct (HPBL _ _ _ _ H) as [Hle2 Hok2].
  - rewrite dirty_next. intros Hd. pose proof (dirty_false_le _ _ Hle Hd) as Hd0.
    destruct (Hacc Hd0) as [Hw|Hl].
    + destruct (Hok Hd) as [Hg|[Hp Hx]].
      * left. rewrite wl_app, Hw. exact Hg.
      * right. rewrite curIs_next. exact Hp.
    + destruct (Hlam Hl Hd) as [_ Hp]. right. rewrite curIs_next. exact Hp.
  - split; [|exact Hok2]. eapply le_trans; [exact Hle|apply le_next_l, Hle2].
Qed.

Lemma PB_step f : All f -> PB (S f).
Proof.
  intros (_ & _ & _ & _ & _ & _ & _ & _ & HPBL & _). unfold PB. intros s x s' H.
  rewrite parseBlockStatement_S in H.
  destruct (HPBL _ _ _ _ H) as [Hle Hok]; [intros _; left; reflexivity|].
  split; [apply le_next_l, Hle|exact Hok].
Qed.

(* ---------- expression lists ---------- *)
Lemma PELL_step f : All f -> PELL (S f).
Proof.
  intros (HPE & _ & _ & _ & _ & _ & _ & _ & _ & _ & _ & HPELL & _). unfold PELL.
  intros endt acc s x s' H Hne Hacc. rewrite exprListLoop_S in H.
  destruct (peekIs s token_COMMA) eqn:Hc.
  - destruct (parseExpression conv f ast_LOWEST (nextToken (nextToken s))) as [e s1| |] eqn:He; try discriminate.
    destruct (HPE _ _ _ _ He) as (Hle & Hok & _).
    destruct (HPELL _ _ _ _ _ H Hne) as [Hle2 Hok2].
    + intros Hd. assert (Hd0 : dirty s = false).
      { pose proof (dirty_false_le _ _ Hle Hd) as E. rewrite !dirty_next in E. exact E. }
      destruct (Hacc Hd0) as [Hw|Hp]; [|rewrite (pend_excl s _ Hp) in Hc; [discriminate|tokne]].
      destruct (Hok Hd) as [[Hg _]|(Hp & _)]; [left; rewrite wl_app, Hw; exact Hg|right; exact Hp].
    + split; [|exact Hok2]. eapply le_trans; [|exact Hle2]. apply le_next_l, le_next_l, Hle.
  - destruct (expectPeek s endt) as [ok s1] eqn:Hex.
    destruct (expectPeek_spec _ _ _ _ Hex) as [(-> & Hp & ->)|(-> & Hd & Hle)].
    + inv H. split; [apply le_next|]. rewrite dirty_next. intros Hd.
      destruct (Hacc Hd) as [Hw|Hl]; [exact Hw|].
      exfalso. rewrite (pend_excl s endt Hl) in Hp by congruence. discriminate.
    + inv H. split; [exact Hle|]. intros E. congruence.
Qed.

Lemma PEL_step f : All f -> PEL (S f).
Proof.
  intros (HPE & _ & _ & _ & _ & _ & _ & _ & _ & _ & _ & HPELL & _). unfold PEL.
  intros endt s x s' H Hne. rewrite parseExpressionList_S in H.
  destruct (peekIs s endt).
  - inv H. split; [apply le_next|]. intros _. reflexivity.
  - destruct (parseExpression conv f ast_LOWEST (nextToken s)) as [e s1| |] eqn:He; try discriminate.
    destruct (HPE _ _ _ _ He) as (Hle & Hok & _).
    destruct (HPELL _ _ _ _ _ H Hne) as [Hle2 Hok2].
    + intros Hd. destruct (Hok Hd) as [[Hg _]|(Hp & _)]; [left; simpl; rewrite andb_true_r; exact Hg|right; exact Hp].
    + split; [|exact Hok2]. eapply le_trans; [apply le_next_l, Hle|exact Hle2].
Qed.

(* ---------- map literals ---------- *)
Lemma is_infix_colon_some kv k v : is_infix_colon kv = Some (k, v) ->
  exists t, kv = Some (NInfix t k v) /\ Z.eqb (ttype t) token_COLON = true.
Proof.
  unfold is_infix_colon. destruct kv as [[]|]; try discriminate.
  destruct (ttype t =? token_COLON) eqn:E; [|discriminate]. intros [= <- <-]. eauto.
Qed.

Lemma good_infix t l r : good (Some (NInfix t l r)) = true ->
  good l = true /\ match r with None => True | Some _ => good r = true end.
Proof.
  unfold good. simpl. intros H. apply andb_true_iff in H as [H Hr]. apply andb_true_iff in H as [_ Hl].
  split; [exact Hl|]. destruct r; [exact Hr|exact I].
Qed.

Lemma dirty_of_cont s : ps_cont s = true -> dirty s = true.
Proof. unfold dirty. intros ->. destruct (ps_errs s); reflexivity. Qed.

Lemma PML_step f : All f -> PML (S f).
Proof.
  intros (HPE & _ & _ & _ & _ & _ & _ & _ & _ & _ & _ & _ & HPML). unfold PML.
  intros t acc s x s' H Hacc. rewrite parseMapLoop_S in H.
  destruct (peekIs s token_RBRACE).
  - destruct (expectPeek s token_RBRACE) as [ok s1] eqn:Hex.
    destruct (expectPeek_spec _ _ _ _ Hex) as [(-> & Hp & ->)|(-> & Hd & Hle)].
    + inv H. split; [apply le_next|]. rewrite dirty_next. intros Hd. exact (Hacc Hd).
    + inv H. split; [exact Hle|]. intros E. congruence.
  - cbv zeta in H. destruct (ps_cont (nextToken s)) eqn:Hc.
    { inv H. split; [apply le_next|]. intros Hd. rewrite (dirty_of_cont _ Hc) in Hd. discriminate. }
    destruct (parseExpression conv f ast_LOWEST (nextToken s)) as [kv s2| |] eqn:Hkv; try discriminate.
    destruct (HPE _ _ _ _ Hkv) as (Hle & Hok & _). apply le_next_l in Hle.
    destruct (is_infix_colon kv) as [[k v]|] eqn:Hic.
    2:{ destruct (peekIs s2 token_EOL); inv H; (split; [eapply le_trans; [exact Hle|auto with parse]|]);
          intros Hd; [rewrite dirty_cont in Hd|rewrite dirty_err in Hd]; discriminate. }
    destruct (is_infix_colon_some _ _ _ Hic) as (tt & -> & Htt).
    assert (Hnext : forall s3, le s2 s3 -> (dirty s3 = false -> peekIs s2 token_RBRACKET = false) ->
              dirty s3 = false -> wp_with wfn (acc ++ [(k, v)]) = true).
    { intros s3 Hle3 Hnb Hd3. pose proof (dirty_false_le _ _ Hle3 Hd3) as Hd2.
      pose proof (dirty_false_le _ _ Hle Hd2) as Hd0.
      destruct (Hok Hd2) as [[Hg Hor]|(_ & _ & [Hx|Hx])]; [|destruct (lambda_not_lowest Hx)|discriminate].
      destruct (good_infix _ _ _ Hg) as [Hk Hv]. rewrite wp_app, (Hacc Hd0). unfold good in Hk. rewrite Hk.
      destruct v as [v|]; [exact Hv|]. exfalso. rewrite (Hor eq_refl) in Hnb. specialize (Hnb Hd3). discriminate. }
    destruct (negb (peekIs s2 token_RBRACE)) eqn:Hrb.
    + destruct (expectPeek s2 token_COMMA) as [ok s3] eqn:Hex.
      destruct (expectPeek_spec _ _ _ _ Hex) as [(-> & Hp & ->)|(-> & Hd & Hle3)].
      * destruct (HPML _ _ _ _ _ H) as [Hle4 Hok4].
        -- apply (Hnext (nextToken s2) (le_next s2)). intros _.
           apply (peek_excl s2 token_COMMA token_RBRACKET Hp). tokne.
        -- split; [|exact Hok4]. eapply le_trans; [exact Hle|apply le_next_l, Hle4].
      * inv H. split; [eapply le_trans; eauto|]. intros E. congruence.
    + apply negb_false_iff in Hrb. destruct (HPML _ _ _ _ _ H) as [Hle4 Hok4].
      * apply (Hnext s2 (le_refl s2)). intros _. apply (peek_excl s2 token_RBRACE token_RBRACKET Hrb). tokne.
      * split; [|exact Hok4]. eapply le_trans; eauto.
Qed.

(* ---------- if ---------- *)
Lemma wfn_if t c a b : wfn (NIf t c a b)
  = we_with wfn c && wb_with wfn a && match b with None => true | Some _ => wb_with wfn b end.
Proof. reflexivity. Qed.

Lemma good_if t c a b : good c = true -> goodb a = true ->
  match b with None => True | Some _ => goodb b = true end -> good (Some (NIf t c a b)) = true.
Proof.
  unfold good, goodb. intros Hc Ha Hb. cbn [we_with is_stmts negb andb]. rewrite wfn_if, Hc, Ha.
  destruct b; [rewrite Hb|]; reflexivity.
Qed.

Lemma okx_not_pend x s extra : okx x s extra -> dirty s = false -> pend s = false -> good x = true.
Proof. intros H Hd Hp. destruct (H Hd) as [[Hg _]|(Hp' & _)]; [exact Hg|congruence]. Qed.

Lemma PIf_step f : All f -> PIf (S f).
Proof.
  intros (HPE & _ & _ & _ & _ & _ & HPIf & HPB & _). unfold PIf. intros s x s' H.
  rewrite parseIfExpression_S in H. cbv zeta in H.
  destruct (parseExpression conv f ast_LOWEST (nextToken s)) as [c s1| |] eqn:Hc; try discriminate.
  destruct (HPE _ _ _ _ Hc) as (Hle1 & Hok1 & _). apply le_next_l in Hle1.
  destruct (expectPeek s1 token_LBRACE) as [ok s2] eqn:Hex.
  destruct (expectPeek_spec _ _ _ _ Hex) as [(-> & Hp & ->)|(-> & Hd & Hle2)].
  2:{ simpl in H. inv H. split; [eapply le_trans; eauto|]. intros E. congruence. }
  simpl in H.
  assert (Hgc : dirty s1 = false -> good c = true).
  { intros Hd. apply (okx_not_pend _ _ _ Hok1 Hd). apply (peek_excl s1 token_LBRACE _ Hp). tokne. }
  destruct (parseBlockStatement conv f (nextToken s1)) as [cons s3| |] eqn:Hb; try discriminate.
  destruct (HPB _ _ _ Hb) as [Hle3 Hok3]. apply le_next_l in Hle3.
  destruct (ps_cont s3) eqn:Hc3.
  { inv H. split; [eapply le_trans; eauto|]. intros Hd. rewrite (dirty_of_cont _ Hc3) in Hd. discriminate. }
  destruct (peekIs s3 token_ELSE).
  2:{ inv H. split; [eapply le_trans; eauto|]. intros Hd. apply good_if; auto.
      apply Hgc. apply (dirty_false_le _ _ Hle3 Hd). }
  destruct (peekIs (nextToken s3) token_IF).
  - destruct (parseIfExpression conv f (nextToken (nextToken s3))) as [alt s5| |] eqn:Ha; try discriminate.
    destruct (HPIf _ _ _ Ha) as [Hle5 Hok5]. apply le_next_l, le_next_l in Hle5. inv H.
    split; [eapply le_trans; [exact Hle1|eapply le_trans; eauto]|]. intros Hd.
    pose proof (dirty_false_le _ _ Hle5 Hd) as Hd3.
    apply good_if; [apply Hgc, (dirty_false_le _ _ Hle3 Hd3)|apply Hok3, Hd3|].
    unfold goodb. simpl. rewrite andb_true_r. exact (Hok5 Hd).
  - destruct (expectPeek (nextToken s3) token_LBRACE) as [ok2 s5] eqn:Hex2.
    destruct (expectPeek_spec _ _ _ _ Hex2) as [(-> & Hp2 & ->)|(-> & Hd5 & Hle5)].
    2:{ simpl in H. inv H. split; [eapply le_trans; [exact Hle1|eapply le_trans; [exact Hle3|apply le_next_l, Hle5]]|].
        intros E. congruence. }
    simpl in H.
    destruct (parseBlockStatement conv f (nextToken (nextToken s3))) as [alt s6| |] eqn:Ha; try discriminate.
    destruct (HPB _ _ _ Ha) as [Hle6 Hok6]. apply le_next_l, le_next_l in Hle6.
    destruct (ps_cont s6) eqn:Hc6.
    { inv H. split; [eapply le_trans; [exact Hle1|eapply le_trans; eauto]|].
      intros Hd. rewrite (dirty_of_cont _ Hc6) in Hd. discriminate. }
    inv H. split; [eapply le_trans; [exact Hle1|eapply le_trans; eauto]|]. intros Hd.
    pose proof (dirty_false_le _ _ Hle6 Hd) as Hd3.
    apply good_if; [apply Hgc, (dirty_false_le _ _ Hle3 Hd3)|apply Hok3, Hd3|].
    pose proof (Hok6 Hd) as Hg6. destruct alt; [exact Hg6|exact I].
Qed.

(* ---------- lambdas ---------- *)
Lemma okParamList_head x rest dd : okParamList (x :: rest) = Some dd -> identy x = true.
Proof.
  simpl. destruct x as [n|]; [|discriminate]. unfold identy. destruct (node_tok n) as [t|]; [|discriminate].
  unfold is_ident_ty. destruct rest.
  - destruct (ttype t =? token_DOTDOT); [intros _; apply orb_true_r|].
    destruct (ttype t =? token_IDENT); [reflexivity|discriminate].
  - destruct (ttype t =? token_IDENT); [reflexivity|discriminate].
Qed.

Lemma wfn_func t nm ps b v l : wfn (NFunc t nm ps b v l) = wol_with wfn ps && wb_with wfn b.
Proof. reflexivity. Qed.

Lemma good_func t nm ps b v l : wol_with wfn ps = true -> goodb b = true -> good (Some (NFunc t nm ps b v l)) = true.
Proof. unfold good, goodb. intros Hp Hb. cbn [we_with is_stmts negb andb]. rewrite wfn_func, Hp, Hb. reflexivity. Qed.

Lemma PM_step f : All f -> PM (S f).
Proof.
  intros (HPE & _ & _ & _ & _ & _ & _ & HPB & _). unfold PM. intros left more s x s' H Hcur Hleft Hmore.
  rewrite parseLambdaMulti_S in H. cbv zeta in H.
  set (params := match left with
                 | Some _ => Some (left :: match more with Some m => m | None => [] end)
                 | None => match more with Some [] => None | _ => more end
                 end) in *.
  destruct (okParamList (match params with Some l => l | None => [] end)) as [dd|] eqn:Hok.
  2:{ inv H. split; [auto with parse|]. intros Hd. discriminate. }
  assert (Hps : dirty s = false -> wol_with wfn params = true).
  { intros Hd. specialize (Hmore Hd). subst params. destruct left as [n|].
    - cbv beta iota in Hok. pose proof (okParamList_head _ _ _ Hok) as Hi.
      destruct (Hleft Hd) as [Hg|Hn]; [|congruence].
      simpl. unfold good in Hg. simpl in Hg. rewrite Hg. destruct more; [exact Hmore|reflexivity].
    - destruct more as [[|]|]; simpl; auto. }
  destruct (peekIs s token_LBRACE).
  - destruct (parseBlockStatement conv f (nextToken s)) as [b s2| |] eqn:Hb; try discriminate.
    destruct (HPB _ _ _ Hb) as [Hle Hokb]. apply le_next_l in Hle.
    destruct (ps_cont s2) eqn:Hc.
    { inv H. split; [exact Hle|]. intros Hd. rewrite (dirty_of_cont _ Hc) in Hd. discriminate. }
    inv H. split; [exact Hle|]. intros Hd. left. split; [|discriminate].
    apply good_func; [apply Hps, (dirty_false_le _ _ Hle Hd)|apply Hokb, Hd].
  - destruct (parseExpression conv f (curPrecedence s) (nextToken s)) as [body s2| |] eqn:Hb; try discriminate.
    destruct (HPE _ _ _ _ Hb) as (Hle & Hokb & _). apply le_next_l in Hle. inv H.
    split; [exact Hle|]. intros Hd.
    destruct (Hokb Hd) as [[Hg _]|(Hp & _)].
    + left. split; [|discriminate]. apply good_func; [apply Hps, (dirty_false_le _ _ Hle Hd)|].
      unfold goodb. simpl. rewrite andb_true_r. exact Hg.
    + right. repeat split; auto.
Qed.

(* ---------- grouped expressions ---------- *)
Lemma PG_step f : All f -> PG (S f).
Proof.
  intros (HPE & _ & _ & _ & HPM & _ & _ & _ & _ & _ & HPEL & _). unfold PG. intros s x s' H.
  rewrite parseGroupedExpression_S in H.
  destruct (parseExpression conv f ast_LOWEST (nextToken s)) as [exp s1| |] eqn:He; try discriminate.
  destruct (HPE _ _ _ _ He) as (Hle1 & Hok1 & _). apply le_next_l in Hle1.
  assert (Hexp : dirty s1 = false -> good exp = true \/ identy exp = false).
  { intros Hd. destruct (Hok1 Hd) as [[Hg _]|(_ & Hi & _)]; auto. }
  assert (Hlamcur : forall s0, peekIs s0 token_LAMBDA = true -> is_ident_ty (pty (ps_cur (nextToken s0))) = false).
  { intros s0 Hp. rewrite cur_next. unfold peekIs in Hp. apply Z.eqb_eq in Hp. rewrite Hp. reflexivity. }
  destruct (peekIs s1 token_LAMBDA) eqn:Hl.
  - destruct (HPM _ _ _ _ _ H (Hlamcur _ Hl)) as [Hle2 Hok2].
    + rewrite dirty_next. exact Hexp.
    + intros _. exact I.
    + split; [|exact Hok2]. eapply le_trans; [exact Hle1|apply le_next_l, Hle2].
  - destruct (peekIs s1 token_COMMA) eqn:Hc.
    + destruct (parseExpressionList conv f token_RPAREN (nextToken s1)) as [el s2| |] eqn:Hel; try discriminate.
      destruct (HPEL _ _ _ _ Hel) as [Hle2 Hok2]; [tokne|]. apply le_next_l in Hle2.
      destruct el as [l|].
      2:{ inv H. split; [eapply le_trans; eauto|]. intros Hd. specialize (Hok2 Hd). discriminate. }
      destruct (expectPeek s2 token_LAMBDA) as [ok s3] eqn:Hex.
      destruct (expectPeek_spec _ _ _ _ Hex) as [(-> & Hp & ->)|(-> & Hd & Hle3)].
      2:{ inv H. split; [eapply le_trans; [exact Hle1|eapply le_trans; eauto]|]. intros E. congruence. }
      destruct (HPM _ _ _ _ _ H (Hlamcur _ Hp)) as [Hle4 Hok4].
      * rewrite dirty_next. intros Hd. apply Hexp. apply (dirty_false_le _ _ Hle2 Hd).
      * rewrite dirty_next. intros Hd. exact (Hok2 Hd).
      * split; [|exact Hok4]. eapply le_trans; [exact Hle1|eapply le_trans; [exact Hle2|apply le_next_l, Hle4]].
    + destruct (expectPeek s1 token_RPAREN) as [ok s2] eqn:Hex.
      destruct (expectPeek_spec _ _ _ _ Hex) as [(-> & Hp & ->)|(-> & Hd & Hle3)].
      2:{ inv H. split; [eapply le_trans; eauto|]. intros E. congruence. }
      inv H. split; [eapply le_trans; [exact Hle1|apply le_next]|]. unfold okx. rewrite dirty_next. intros Hd. left.
      destruct (Hok1 Hd) as [[Hg Hor]|(Hpe & _)]; [|unfold pend in Hpe; congruence].
      split; [exact Hg|]. intros Hop. specialize (Hor Hop).
      rewrite (peek_excl s1 token_RPAREN token_RBRACKET Hp) in Hor by tokne. discriminate.
Qed.

(* ---------- infix dispatch ---------- *)
Lemma wfn_infix t l r : wfn (NInfix t l r)
  = (negb np || has_prec_tok t) && we_with wfn l && match r with None => Z.eqb (ttype t) token_COLON | Some _ => we_with wfn r end.
Proof. reflexivity. Qed.
Lemma wfn_call t fn a : wfn (NCall t fn a) = we_with wfn fn && wol_with wfn a.
Proof. reflexivity. Qed.
Lemma wfn_index t l i : wfn (NIndex t l i) = (negb np || has_prec_tok t) && we_with wfn l && we_with wfn i.
Proof. reflexivity. Qed.
Lemma good_some n : negb (is_stmts n) = true -> wfn n = true -> good (Some n) = true.
Proof. unfold good. simpl. intros -> ->. reflexivity. Qed.

Lemma identy_node n t : node_tok n = Some t -> is_ident_ty (ttype t) = false -> identy (Some n) = false.
Proof. unfold identy. intros -> H. exact H. Qed.

Lemma PI_step f : All f -> PI (S f).
Proof.
  intros (HPE & _ & _ & _ & HPM & _ & _ & _ & _ & _ & HPEL & _). unfold PI.
  intros fn left s x s' H Hfn Hleft. rewrite infixFn_S in H. cbv zeta in H.
  pose proof (infix_ident _ _ Hfn) as Hni.
  destruct (String.eqb_spec fn "parseInfixExpression") as [E1|N1].
  { assert (Hpr : (negb np || has_prec_tok (pk (ps_cur s))) = true).
    { pose proof (infix_has_prec _ _ Hfn (or_introl E1)) as Hp0. unfold pty in Hp0. rewrite has_prec_tok_ty, Hp0. apply orb_true_r. }
    assert (Hgl : dirty s = false -> good left = true).
    { intros Hd. destruct (Hleft Hd) as [Hg|[_ E]]; [exact Hg|]. subst fn. discriminate. }
    destruct ((ttype (pk (ps_cur s)) =? token_COLON) && peekIs s token_RBRACKET) eqn:Hor.
    - apply andb_true_iff in Hor as [Hc Hb]. inv H. split; [apply le_refl|]. intros Hd. left. split; [|intros _; exact Hb].
      apply good_some; [reflexivity|]. rewrite wfn_infix, Hpr. specialize (Hgl Hd). unfold good in Hgl. rewrite Hgl, Hc. reflexivity.
    - destruct (parseExpression conv f (curPrecedence s) (nextToken s)) as [r s1| |] eqn:Hr; try discriminate.
      destruct (HPE _ _ _ _ Hr) as (Hle & Hokr & _). apply le_next_l in Hle. inv H.
      split; [exact Hle|]. intros Hd. destruct (Hokr Hd) as [[Hg _]|(Hp & _)].
      + left. unfold good in Hg. destruct r as [r|]; [|discriminate]. split; [|discriminate].
        apply good_some; [reflexivity|]. rewrite wfn_infix, Hg, Hpr.
        pose proof (Hgl (dirty_false_le _ _ Hle Hd)) as Hg2. unfold good in Hg2. rewrite Hg2. reflexivity.
      + right. split; [exact Hp|split; [|exact I]]. apply (identy_node _ (pk (ps_cur s))); [reflexivity|exact Hni]. }
  destruct (String.eqb_spec fn "parseCallExpression") as [E2|N2].
  { assert (Hgl : dirty s = false -> good left = true).
    { intros Hd. destruct (Hleft Hd) as [Hg|[_ E]]; [exact Hg|]. subst fn. discriminate. }
    destruct (parseExpressionList conv f token_RPAREN s) as [l s1| |] eqn:Hl; try discriminate.
    destruct (HPEL _ _ _ _ Hl) as [Hle Hokl]; [tokne|]. inv H. split; [exact Hle|]. intros Hd. left. split; [|discriminate].
    apply good_some; [reflexivity|]. rewrite wfn_call.
    pose proof (Hgl (dirty_false_le _ _ Hle Hd)) as Hg2. unfold good in Hg2. rewrite Hg2.
    specialize (Hokl Hd). destruct l; [exact Hokl|discriminate]. }
  destruct (String.eqb_spec fn "parseIndexExpression") as [E3|N3].
  { assert (Hpr : (negb np || has_prec_tok (pk (ps_cur s))) = true).
    { pose proof (infix_has_prec _ _ Hfn (or_intror E3)) as Hp0. unfold pty in Hp0. rewrite has_prec_tok_ty, Hp0. apply orb_true_r. }
    assert (Hgl : dirty s = false -> good left = true).
    { intros Hd. destruct (Hleft Hd) as [Hg|[_ E]]; [exact Hg|]. subst fn. discriminate. }
    set (isDot := ttype (pk (ps_cur s)) =? token_DOT) in *.
    destruct (parseExpression conv f (if isDot then ast_DOTINDEX else ast_LOWEST) (nextToken s)) as [i s1| |] eqn:Hi;
      try discriminate.
    destruct (HPE _ _ _ _ Hi) as (Hle & Hoki & _). apply le_next_l in Hle.
    assert (Hgood : forall s2, le s1 s2 -> dirty s2 = false -> good i = true -> good (Some (NIndex (pk (ps_cur s)) left i)) = true).
    { intros s2 Hle2 Hd Hg. apply good_some; [reflexivity|]. rewrite wfn_index, Hpr.
      pose proof (Hgl (dirty_false_le _ _ Hle (dirty_false_le _ _ Hle2 Hd))) as Hg2. unfold good in Hg2, Hg.
      rewrite Hg2, Hg. reflexivity. }
    destruct isDot.
    - inv H. split; [exact Hle|]. intros Hd. destruct (Hoki Hd) as [[Hg _]|(Hp & _)].
      + left. split; [|discriminate]. apply (Hgood s1 (le_refl _) Hd Hg).
      + right. split; [exact Hp|split; [|exact I]]. apply (identy_node _ (pk (ps_cur s))); [reflexivity|exact Hni].
    - destruct (expectPeek s1 token_RBRACKET) as [ok s2] eqn:Hex.
      destruct (expectPeek_spec _ _ _ _ Hex) as [(-> & Hp & ->)|(-> & Hd & Hle3)].
      2:{ inv H. split; [eapply le_trans; eauto|]. intros E. congruence. }
      inv H. split; [eapply le_trans; [exact Hle|apply le_next]|]. unfold okx. rewrite dirty_next. intros Hd. left.
      split; [|discriminate]. apply (Hgood s1 (le_refl _) Hd).
      apply (okx_not_pend _ _ _ Hoki Hd). apply (peek_excl s1 token_RBRACKET _ Hp). tokne. }
  destruct (String.eqb_spec fn "parseLambdaExpression") as [E4|N4]; [|discriminate].
  destruct (HPM _ _ _ _ _ H Hni) as [Hle Hok].
  - intros Hd. destruct (Hleft Hd) as [Hg|[Hi _]]; auto.
  - intros _. exact I.
  - split; assumption.
Qed.

(* ---------- prefix dispatch ---------- *)
Lemma funcParamsLoop_spec fuel : forall acc s ids s',
  funcParamsLoop fuel acc s = Some (ids, s') -> wl_with wfn acc = true ->
  wl_with wfn ids = true /\ dirty s' = dirty s.
Proof.
  induction fuel as [|fuel IH]; intros acc s ids s' H Hacc; simpl in H; [discriminate|].
  destruct (peekIs s token_COMMA).
  - destruct (IH _ _ _ _ H) as [H1 H2]; [rewrite wl_app, Hacc; reflexivity|].
    split; [exact H1|]. rewrite H2, !dirty_next. reflexivity.
  - injection H as <- <-. auto.
Qed.

Lemma parseFunctionParameters_spec fuel s ps v s' :
  parseFunctionParameters fuel s = ROk (ps, v) s' ->
  le s s' /\ (dirty s' = false -> wol_with wfn ps = true).
Proof.
  unfold parseFunctionParameters. destruct (peekIs s token_RPAREN).
  - intros [= <- <- <-]. split; [apply le_next|reflexivity].
  - destruct (funcParamsLoop fuel _ (nextToken s)) as [[ids s2]|] eqn:Hl; [|discriminate].
    destruct (funcParamsLoop_spec _ _ _ _ _ Hl eq_refl) as [Hw Hd2].
    destruct (expectPeek s2 token_RPAREN) as [ok s3] eqn:Hex.
    assert (Hle2 : le s s2) by (unfold le; rewrite Hd2, dirty_next; auto).
    destruct (expectPeek_spec _ _ _ _ Hex) as [(-> & Hp & ->)|(-> & Hd & Hle3)].
    + intros [= <- <- <-]. split; [eapply le_trans; [exact Hle2|apply le_next]|]. intros _. exact Hw.
    + intros [= <- <- <-]. split; [eapply le_trans; eauto|]. intros E. congruence.
Qed.

Lemma okx_good x s extra : good x = true -> openrange x = false -> okx x s extra.
Proof. intros Hg Ho _. left. split; [exact Hg|]. rewrite Ho. discriminate. Qed.

Lemma wfn_prefix t r : wfn (NPrefix t r) = we_with wfn r. Proof. reflexivity. Qed.
Lemma wfn_for t c b : wfn (NFor t c b) = we_with wfn c && wb_with wfn b. Proof. reflexivity. Qed.
Lemma wfn_macro t ps b : wfn (NMacro t ps b) = wol_with wfn ps && wb_with wfn b. Proof. reflexivity. Qed.
Lemma wfn_builtin t ps : wfn (NBuiltin t ps) = wol_with wfn ps. Proof. reflexivity. Qed.
Lemma wfn_array t ps : wfn (NArray t ps) = wol_with wfn ps. Proof. reflexivity. Qed.

Lemma goodl_wol l : goodl l = true -> wol_with wfn l = true.
Proof. destruct l; [auto|discriminate]. Qed.

Lemma if_not_openrange fuel s x s' : parseIfExpression conv fuel s = ROk x s' -> openrange x = false.
Proof.
  destruct fuel; [discriminate|]. rewrite parseIfExpression_S. cbv zeta.
  repeat match goal with
         | |- context [match ?e with ROk _ _ => _ | RPanic _ => _ | RFuel => _ end] => destruct e; try discriminate
         | |- context [let '(_, _) := ?e in _] => destruct e
         | |- context [if ?b then _ else _] => destruct b
         end; intros [= <- _]; reflexivity.
Qed.

Lemma map_not_openrange fuel : forall t acc s x s',
  parseMapLoop conv fuel t acc s = ROk x s' -> openrange x = false.
Proof.
  induction fuel as [|fuel IH]; intros t acc s x s'; [discriminate|].
  rewrite parseMapLoop_S. cbv zeta.
  repeat match goal with
         | |- parseMapLoop _ _ _ _ _ = _ -> _ => apply IH
         | |- context [match ?e with ROk _ _ => _ | RPanic _ => _ | RFuel => _ end] => destruct e; try discriminate
         | |- context [let '(_, _) := ?e in _] => destruct e
         | |- context [match ?e with Some _ => _ | None => _ end] => destruct e
         | |- context [if ?b then _ else _] => destruct b
         end; try (intros [= <- _]; reflexivity).
Qed.

Lemma PP_step f : All f -> PP (S f).
Proof.
  intros (HPE & _ & _ & _ & _ & HPG & HPIf & HPB & _ & _ & HPEL & _ & HPML). unfold PP.
  intros fn s x s' H Hfn. rewrite prefixFn_S in H. cbv zeta in H.
  destruct (String.eqb_spec fn "parseIdentifier") as [E|N].
  { unfold parseIdentifier in H. destruct (table_get postfix_fns (pty (ps_peek s))) eqn:Hpf.
    - inv H. split; [apply le_next|]. apply okx_good; [|reflexivity].
      apply good_some; [reflexivity|]. rewrite cur_next.
      change (wfn (NPostfix (pk (ps_peek s)) (ps_prev (nextToken s)))) with (negb np || has_prec_tok (pk (ps_peek s))).
      pose proof (postfix_has_prec _ _ Hpf) as Hp0. unfold pty in Hp0. rewrite has_prec_tok_ty, Hp0. apply orb_true_r.
    - inv H. split; [apply le_refl|]. apply okx_good; reflexivity. }
  assert (Hni : is_ident_ty (pty (ps_cur s)) = false) by (destruct (prefix_ident _ _ Hfn); [assumption|contradiction]).
  assert (Hfloat : forall y t, parseFloatLiteral conv s = ROk y t -> le s t /\ okx y t True).
  { unfold parseFloatLiteral. intros y t. destruct (conv_float conv _); intros Hy; inv Hy.
    - split; [apply le_refl|apply okx_good; reflexivity].
    - split; [auto with parse|]. intros Hd. discriminate. }
  destruct (String.eqb_spec fn "parseIntegerLiteral") as [E1|N1].
  { unfold parseIntegerLiteral in H. destruct (conv_int conv _); [|apply Hfloat, H].
    inv H. split; [apply le_refl|apply okx_good; reflexivity]. }
  destruct (String.eqb_spec fn "parseFloatLiteral") as [E2|N2]; [apply Hfloat, H|].
  destruct (String.eqb_spec fn "parseBoolean") as [E3|N3].
  { inv H. split; [apply le_refl|apply okx_good; reflexivity]. }
  destruct (String.eqb_spec fn "parseStringLiteral") as [E4|N4].
  { inv H. split; [apply le_refl|apply okx_good; reflexivity]. }
  destruct (String.eqb_spec fn "parseControlExpression") as [E5|N5].
  { inv H. split; [apply le_refl|apply okx_good; reflexivity]. }
  destruct (String.eqb_spec fn "parseComment") as [E6|N6].
  { unfold parseComment in H. cbv zeta in H. destruct (ttype (pk (ps_cur s)) =? token_BLOCKCOMMENT).
    - destruct (ends_with_star_slash _); inv H.
      + split; [apply le_refl|apply okx_good; reflexivity].
      + split; [auto with parse|]. intros Hd. rewrite dirty_cont in Hd. discriminate.
    - destruct (_ && _ && _); [discriminate|]. inv H. split; [apply le_refl|apply okx_good; reflexivity]. }
  destruct (String.eqb_spec fn "parsePrefixExpression") as [E7|N7].
  { destruct (parseExpression conv f ast_PREFIX (nextToken s)) as [r s1| |] eqn:Hr; try discriminate.
    destruct (HPE _ _ _ _ Hr) as (Hle & Hokr & _). apply le_next_l in Hle. inv H. split; [exact Hle|].
    intros Hd. destruct (Hokr Hd) as [[Hg _]|(Hp & _)].
    - left. split; [|discriminate]. apply good_some; [reflexivity|]. rewrite wfn_prefix. exact Hg.
    - right. split; [exact Hp|split; [|exact I]]. apply (identy_node _ (pk (ps_cur s))); [reflexivity|exact Hni]. }
  destruct (String.eqb_spec fn "parseGroupedExpression") as [E8|N8]; [apply HPG, H|].
  destruct (String.eqb_spec fn "parseIfExpression") as [E9|N9].
  { destruct (HPIf _ _ _ H) as [Hle Hg]. split; [exact Hle|]. intros Hd. left. split; [exact (Hg Hd)|].
    rewrite (if_not_openrange _ _ _ _ H). discriminate. }
  destruct (String.eqb_spec fn "parseForExpression") as [E10|N10].
  { destruct (parseExpression conv f ast_LOWEST (nextToken s)) as [c s1| |] eqn:Hc; try discriminate.
    destruct (HPE _ _ _ _ Hc) as (Hle1 & Hok1 & _). apply le_next_l in Hle1.
    destruct (expectPeek s1 token_LBRACE) as [ok s2] eqn:Hex.
    destruct (expectPeek_spec _ _ _ _ Hex) as [(-> & Hp & ->)|(-> & Hd & Hle2)].
    2:{ simpl in H. inv H. split; [eapply le_trans; eauto|]. intros E. congruence. }
    simpl in H.
    destruct (parseBlockStatement conv f (nextToken s1)) as [b s3| |] eqn:Hb; try discriminate.
    destruct (HPB _ _ _ Hb) as [Hle3 Hok3]. apply le_next_l in Hle3.
    destruct (ps_cont s3) eqn:Hc3.
    { inv H. split; [eapply le_trans; eauto|]. intros Hd. rewrite (dirty_of_cont _ Hc3) in Hd. discriminate. }
    inv H. split; [eapply le_trans; eauto|]. intros Hd. left. split; [|discriminate].
    apply good_some; [reflexivity|]. rewrite wfn_for.
    assert (Hgc : good c = true).
    { apply (okx_not_pend _ _ _ Hok1 (dirty_false_le _ _ Hle3 Hd)). apply (peek_excl s1 token_LBRACE _ Hp). tokne. }
    unfold good in Hgc. rewrite Hgc. exact (Hok3 Hd). }
  destruct (String.eqb_spec fn "parseFunctionLiteral") as [E11|N11].
  { set (s0 := if peekIs s token_IDENT then nextToken s else s) in *.
    set (name := if peekIs s token_IDENT then Some (pk (ps_cur (nextToken s))) else None) in *.
    assert (Hs0 : le s s0) by (subst s0; destruct (peekIs s token_IDENT); auto with parse).
    assert (H' : (let '(ok, s1) := expectPeek s0 token_LPAREN in
                  if negb ok then ROk None s1
                  else dob (pv, s2) <- parseFunctionParameters f s1;
                       (let '(params, variadic) := pv in
                        let '(ok2, s3) := expectPeek s2 token_LBRACE in
                        if negb ok2 then ROk None s3
                        else dob (b, s4) <- parseBlockStatement conv f s3;
                             if ps_cont s4 then ROk None s4
                             else ROk (Some (NFunc (pk (ps_cur s)) name params b variadic false)) s4)) = ROk x s').
    { subst s0 name. destruct (peekIs s token_IDENT); exact H. }
    clear H. rename H' into H.
    destruct (expectPeek s0 token_LPAREN) as [ok s1] eqn:Hex.
    destruct (expectPeek_spec _ _ _ _ Hex) as [(-> & Hp & ->)|(-> & Hd & Hle2)].
    2:{ simpl in H. inv H. split; [eapply le_trans; eauto|]. intros E. congruence. }
    simpl in H.
    destruct (parseFunctionParameters f (nextToken s0)) as [[params variadic] s2| |] eqn:Hps; try discriminate.
    destruct (parseFunctionParameters_spec _ _ _ _ _ Hps) as [Hle2 Hokp]. apply le_next_l in Hle2.
    destruct (expectPeek s2 token_LBRACE) as [ok2 s3] eqn:Hex2.
    destruct (expectPeek_spec _ _ _ _ Hex2) as [(-> & Hp2 & ->)|(-> & Hd & Hle3)].
    2:{ simpl in H. inv H. split; [eapply le_trans; [exact Hs0|eapply le_trans; eauto]|]. intros E. congruence. }
    simpl in H.
    destruct (parseBlockStatement conv f (nextToken s2)) as [b s4| |] eqn:Hb; try discriminate.
    destruct (HPB _ _ _ Hb) as [Hle4 Hok4]. apply le_next_l in Hle4.
    destruct (ps_cont s4) eqn:Hc4.
    { inv H. split; [eapply le_trans; [exact Hs0|eapply le_trans; eauto]|].
      intros Hd. rewrite (dirty_of_cont _ Hc4) in Hd. discriminate. }
    inv H. split; [eapply le_trans; [exact Hs0|eapply le_trans; eauto]|]. intros Hd. left. split; [|discriminate].
    apply good_func; [apply Hokp, (dirty_false_le _ _ Hle4 Hd)|exact (Hok4 Hd)]. }
  destruct (String.eqb_spec fn "parseMacroLiteral") as [E12|N12].
  { destruct (expectPeek s token_LPAREN) as [ok s1] eqn:Hex.
    destruct (expectPeek_spec _ _ _ _ Hex) as [(-> & Hp & ->)|(-> & Hd & Hle2)].
    2:{ simpl in H. inv H. split; [exact Hle2|]. intros E. congruence. }
    simpl in H.
    destruct (parseFunctionParameters f (nextToken s)) as [[params variadic] s2| |] eqn:Hps; try discriminate.
    destruct (parseFunctionParameters_spec _ _ _ _ _ Hps) as [Hle2 Hokp]. apply le_next_l in Hle2.
    destruct (expectPeek s2 token_LBRACE) as [ok2 s3] eqn:Hex2.
    destruct (expectPeek_spec _ _ _ _ Hex2) as [(-> & Hp2 & ->)|(-> & Hd & Hle3)].
    2:{ simpl in H. inv H. split; [eapply le_trans; eauto|]. intros E. congruence. }
    simpl in H.
    destruct (parseBlockStatement conv f (nextToken s2)) as [b s4| |] eqn:Hb; try discriminate.
    destruct (HPB _ _ _ Hb) as [Hle4 Hok4]. apply le_next_l in Hle4.
    destruct (ps_cont s4) eqn:Hc4.
    { inv H. split; [eapply le_trans; eauto|]. intros Hd. rewrite (dirty_of_cont _ Hc4) in Hd. discriminate. }
    inv H. split; [eapply le_trans; eauto|]. intros Hd. left. split; [|discriminate].
    apply good_some; [reflexivity|]. rewrite wfn_macro, (Hokp (dirty_false_le _ _ Hle4 Hd)). exact (Hok4 Hd). }
  destruct (String.eqb_spec fn "parseBuiltin") as [E13|N13].
  { destruct (expectPeek s token_LPAREN) as [ok s1] eqn:Hex.
    destruct (expectPeek_spec _ _ _ _ Hex) as [(-> & Hp & ->)|(-> & Hd & Hle2)].
    2:{ simpl in H. inv H. split; [exact Hle2|]. intros E. congruence. }
    simpl in H.
    destruct (parseExpressionList conv f token_RPAREN (nextToken s)) as [l s2| |] eqn:Hl; try discriminate.
    destruct (HPEL _ _ _ _ Hl) as [Hle Hokl]; [tokne|]. apply le_next_l in Hle. inv H.
    split; [exact Hle|]. intros Hd. left. split; [|discriminate].
    apply good_some; [reflexivity|]. rewrite wfn_builtin. apply goodl_wol, Hokl, Hd. }
  destruct (String.eqb_spec fn "parseArrayLiteral") as [E14|N14].
  { destruct (parseExpressionList conv f token_RBRACKET s) as [l s2| |] eqn:Hl; try discriminate.
    destruct (HPEL _ _ _ _ Hl) as [Hle Hokl]; [tokne|]. inv H.
    split; [exact Hle|]. intros Hd. left. split; [|discriminate].
    apply good_some; [reflexivity|]. rewrite wfn_array. apply goodl_wol, Hokl, Hd. }
  destruct (String.eqb_spec fn "parseMapLiteral") as [E15|N15]; [|discriminate].
  destruct (HPML _ _ _ _ _ H) as [Hle Hg]; [reflexivity|].
  split; [exact Hle|]. intros Hd. left. split; [exact (Hg Hd)|].
  rewrite (map_not_openrange _ _ _ _ _ _ H). discriminate.
Qed.

(* ---------- all functions, all fuels ---------- *)
Lemma all_specs : forall f, All f.
Proof.
  induction f as [|f IH].
  - unfold All. repeat (match goal with |- _ /\ _ => split end); unfold PE, PL, PP, PI, PM, PG, PIf, PB, PBL, PS, PEL, PELL, PML;
      intros; discriminate.
  - unfold All. repeat (match goal with |- _ /\ _ => split end).
    + apply PE_step, IH. + apply PL_step, IH. + apply PP_step, IH. + apply PI_step, IH.
    + apply PM_step, IH. + apply PG_step, IH. + apply PIf_step, IH. + apply PB_step, IH.
    + apply PBL_step, IH. + apply PS_step, IH. + apply PEL_step, IH. + apply PELL_step, IH.
    + apply PML_step, IH.
Qed.

Lemma programLoop_spec fuel : forall acc s l s',
  programLoop conv fuel acc s = ROk l s' -> (dirty s = false -> wl_with wfn acc = true) ->
  le s s' /\ (dirty s' = false -> wl_with wfn l = true).
Proof.
  induction fuel as [|fuel IH]; intros acc s l s' H Hacc; simpl in H; [discriminate|].
  destruct (curIs s token_EOF || curIs s token_EOL).
  { inv H. split; [apply le_refl|exact Hacc]. }
  destruct (parseStatement conv fuel s) as [st s1| |] eqn:Hst; try discriminate.
  destruct (all_specs fuel) as (_ & _ & _ & _ & _ & _ & _ & _ & _ & HPS & _).
  destruct (HPS _ _ _ Hst) as (Hle & Hok & _).
  destruct st as [n|].
  - destruct (IH _ _ _ _ H) as [Hle2 Hok2].
    + rewrite dirty_next. intros Hd. rewrite wl_app, (Hacc (dirty_false_le _ _ Hle Hd)).
      destruct (Hok Hd) as [Hg|[_ E]]; [exact Hg|discriminate].
    + split; [|exact Hok2]. eapply le_trans; [exact Hle|apply le_next_l, Hle2].
  - inv H. split; [exact Hle|]. intros Hd. apply Hacc, (dirty_false_le _ _ Hle Hd).
Qed.
End Specs.
End NP.

(* ---------- the theorems ---------- *)
Definition clean_result (r : presult) : bool :=
  match pr_errs r with [] => negb (pr_cont r) | _ => false end.

Lemma clean_tree_wf np : forall conv fuel end_type toks r,
  parse_program conv fuel end_type toks = POk r -> clean_result r = true ->
  wf_node np (NStmts (pr_tree r)) = true.
Proof.
  intros conv fuel end_type toks r. unfold parse_program.
  destruct (programLoop conv fuel [] _) as [l s| |] eqn:Hl; try discriminate.
  intros [= <-] Hc. unfold clean_result in Hc. simpl in Hc.
  destruct (programLoop_spec np conv fuel _ _ _ _ Hl (fun _ => eq_refl)) as [_ Hok].
  simpl. apply Hok. unfold dirty.
  destruct (ps_errs s) as [|e es].
  - simpl in Hc. apply negb_true_iff in Hc. exact Hc.
  - exfalso. simpl in Hc. destruct (rev es ++ [e]) eqn:E; [|discriminate].
    apply app_eq_nil in E as [_ E]. discriminate.
Qed.

(* a parse that reports no error and asks for no continuation returns a tree without missing children *)
Theorem clean_tree_nil_free : forall conv fuel end_type toks r,
  parse_program conv fuel end_type toks = POk r -> clean_result r = true ->
  program_nil_free (pr_tree r) = true.
Proof. exact (clean_tree_wf false). Qed.

(* ... whose operator tokens all have precedence entries: it can be printed (Printer_proofs.print_total) *)
Theorem clean_tree_printable : forall conv fuel end_type toks r,
  parse_program conv fuel end_type toks = POk r -> clean_result r = true ->
  program_printable (pr_tree r) = true.
Proof. exact (clean_tree_wf true). Qed.
