(* C08: the parser model never panics on a token stream in which a line comment is followed by a token
   on a new line or by the end marker (a property of the lexer), given the registration tables. *)
From Coq Require Import List ZArith NArith Bool String Lia.
From GrolGen Require Import Gen_Consts Gen_Prec Gen_ParserTables.
From GrolModel Require Import Ast Parser.
From GrolProofs Require Import Front_tables Parser_eqns.
Import ListNotations.
Local Open Scope Z_scope.

Definition is_endty (t : Z) : bool := Z.eqb t token_EOF || Z.eqb t token_EOL.
Definition pair_ok (a b : ptok) : bool :=
  negb (Z.eqb (pty a) token_LINECOMMENT) || pk_nl b || is_endty (pty b).
Fixpoint chain_ok (l : list ptok) : bool :=
  match l with
  | a :: (b :: _) as r => pair_ok a b && chain_ok r
  | _ => true
  end.

Definition shaped (s : pstate) : Prop :=
  chain_ok (ps_cur s :: ps_peek s :: ps_rest s ++ [ps_end s]) = true /\ is_endty (pty (ps_end s)) = true.

Lemma pair_end a e : is_endty (pty e) = true -> pair_ok a e = true.
Proof. unfold pair_ok. intros ->. rewrite !orb_true_r. reflexivity. Qed.

Lemma shaped_next s : shaped s -> shaped (nextToken s).
Proof.
  unfold shaped, nextToken. intros [H He]. destruct (ps_rest s) as [|t r] eqn:E; simpl in *.
  - apply andb_true_iff in H as [_ H]. apply andb_true_iff in H as [H _].
    split; [|exact He]. rewrite H, (pair_end _ _ He). reflexivity.
  - apply andb_true_iff in H as [_ H]. split; [exact H|exact He].
Qed.
Lemma shaped_cont s : shaped s -> shaped (set_cont s). Proof. unfold shaped, set_cont; simpl; auto. Qed.
Lemma shaped_err e s : shaped s -> shaped (add_err e s). Proof. unfold shaped, add_err; simpl; auto. Qed.
Lemma shaped_expect s t : shaped s -> shaped (snd (expectPeek s t)).
Proof.
  intros H. unfold expectPeek. destruct (peekIs s t); simpl; [apply shaped_next, H|].
  destruct (peekIs s token_EOL); simpl; [apply shaped_cont|apply shaped_err]; exact H.
Qed.
Lemma shaped_if (b : bool) s : shaped s -> shaped (if b then nextToken s else s).
Proof. destruct b; auto using shaped_next. Qed.
Global Hint Resolve shaped_next shaped_cont shaped_err shaped_expect shaped_if : np.

Lemma shaped_pair s : shaped s -> pair_ok (ps_cur s) (ps_peek s) = true.
Proof. unfold shaped. simpl. intros [H _]. apply andb_true_iff in H as [H _]. exact H. Qed.

(* parseComment is registered for comment tokens only *)
Definition comment_fn_only_for_comments : bool :=
  forallb (fun e => negb (String.eqb (snd e) "parseComment")
                    || Z.eqb (fst e) token_LINECOMMENT || Z.eqb (fst e) token_BLOCKCOMMENT) prefix_fns.
Lemma comment_fn_only_for_comments_ok : comment_fn_only_for_comments = true.
Proof. vm_compute. reflexivity. Qed.

Lemma zlookup_forall {A} (P : Z * A -> bool) l k v :
  forallb P l = true -> zlookup l k = Some v -> P (k, v) = true.
Proof.
  induction l as [|[k' v'] l IH]; simpl; [discriminate|]. intros H. apply andb_true_iff in H as [H1 H2].
  destruct (Z.eqb_spec k' k) as [->|]; [intros [= <-]; exact H1|apply IH, H2].
Qed.
Lemma table_get_forall {A} (P : Z * A -> bool) l k v :
  forallb P l = true -> table_get l k = Some v -> P (k, v) = true.
Proof.
  intros H. unfold table_get. apply zlookup_forall.
  rewrite forallb_forall in *. intros x Hx. apply H. apply in_rev. exact Hx.
Qed.

Definition out_ok {A} (r : res A) : Prop :=
  match r with ROk _ s' => shaped s' | RPanic _ => False | RFuel => True end.

Lemma parseComment_ok s : shaped s -> table_get prefix_fns (pty (ps_cur s)) = Some "parseComment"%string ->
  out_ok (parseComment s).
Proof.
  intros Hs Hfn. unfold parseComment. cbv zeta.
  pose proof (table_get_forall _ _ _ _ comment_fn_only_for_comments_ok Hfn) as E. simpl in E.
  destruct (ttype (pk (ps_cur s)) =? token_BLOCKCOMMENT) eqn:Hb.
  - destruct (ends_with_star_slash _); simpl; auto with np.
  - unfold pty in E. rewrite Hb, orb_false_r in E.
    pose proof (shaped_pair s Hs) as Hp. unfold pair_ok in Hp. unfold pty in Hp. rewrite E in Hp. simpl in Hp.
    unfold peekIs. unfold is_endty in Hp.
    destruct (pk_nl (ps_peek s)); simpl; [exact Hs|].
    simpl in Hp. unfold pty. apply orb_true_iff in Hp as [-> | ->]; simpl; try exact Hs.
    rewrite orb_true_r. simpl. exact Hs.
Qed.
