(* C08: the parser model never panics on a token stream in which a line comment is followed by a token
   on a new line or by the end marker (a property of the lexer), given the registration tables. *)
From Coq Require Import List ZArith NArith Bool String Lia.
From GrolGen Require Import Gen_Consts Gen_Prec Gen_ParserTables.
From GrolModel Require Import Ast Parser.
From GrolProofs Require Import Front_tables Parser_eqns.
Import ListNotations.
Local Open Scope Z_scope.

Definition is_endty (t : Z) : bool := Z.eqb t token_EOF || Z.eqb t token_EOL.
Definition pair_ok (a b : ptok) : bool :=
  negb (Z.eqb (pty a) token_LINECOMMENT) || pk_nl b || is_endty (pty b).
Fixpoint chain_ok (l : list ptok) : bool :=
  match l with
  | a :: (b :: _) as r => pair_ok a b && chain_ok r
  | _ => true
  end.

Definition shaped (s : pstate) : Prop :=
  chain_ok (ps_cur s :: ps_peek s :: ps_rest s ++ [ps_end s]) = true /\ is_endty (pty (ps_end s)) = true.

Lemma pair_end a e : is_endty (pty e) = true -> pair_ok a e = true.
Proof. unfold pair_ok. intros ->. rewrite !orb_true_r. reflexivity. Qed.

Lemma shaped_next s : shaped s -> shaped (nextToken s).
Proof.
  unfold shaped, nextToken. intros [H He]. destruct (ps_rest s) as [|t r] eqn:E; simpl in *.
  - apply andb_true_iff in H as [_ H]. apply andb_true_iff in H as [H _].
    split; [|exact He]. rewrite H, (pair_end _ _ He). reflexivity.
  - apply andb_true_iff in H as [_ H]. split; [exact H|exact He].
Qed.
Lemma shaped_cont s : shaped s -> shaped (set_cont s). Proof. unfold shaped, set_cont; simpl; auto. Qed.
Lemma shaped_err e s : shaped s -> shaped (add_err e s). Proof. unfold shaped, add_err; simpl; auto. Qed.
Lemma shaped_expect s t : shaped s -> shaped (snd (expectPeek s t)).
Proof.
  intros H. unfold expectPeek. destruct (peekIs s t); simpl; [apply shaped_next, H|].
  destruct (peekIs s token_EOL); simpl; [apply shaped_cont|apply shaped_err]; exact H.
Qed.
Lemma shaped_if (b : bool) s : shaped s -> shaped (if b then nextToken s else s).
Proof. destruct b; auto using shaped_next. Qed.
Global Hint Resolve shaped_next shaped_cont shaped_err shaped_expect shaped_if : np.

Lemma shaped_pair s : shaped s -> pair_ok (ps_cur s) (ps_peek s) = true.
Proof. unfold shaped. simpl. intros [H _]. apply andb_true_iff in H as [H _]. exact H. Qed.

(* parseComment is registered for comment tokens only *)
Definition comment_fn_only_for_comments : bool :=
  forallb (fun e => negb (String.eqb (snd e) "parseComment")
                    || Z.eqb (fst e) token_LINECOMMENT || Z.eqb (fst e) token_BLOCKCOMMENT) prefix_fns.
Lemma comment_fn_only_for_comments_ok : comment_fn_only_for_comments = true.
Proof. vm_compute. reflexivity. Qed.

Lemma zlookup_forall {A} (P : Z * A -> bool) l k v :
  forallb P l = true -> zlookup l k = Some v -> P (k, v) = true.
Proof.
  induction l as [|[k' v'] l IH]; simpl; [discriminate|]. intros H. apply andb_true_iff in H as [H1 H2].
  destruct (Z.eqb_spec k' k) as [->|]; [intros [= <-]; exact H1|apply IH, H2].
Qed.
Lemma table_get_forall {A} (P : Z * A -> bool) l k v :
  forallb P l = true -> table_get l k = Some v -> P (k, v) = true.
Proof.
  intros H. unfold table_get. apply zlookup_forall.
  rewrite forallb_forall in *. intros x Hx. apply H. apply in_rev. exact Hx.
Qed.

Definition out_ok {A} (r : res A) : Prop :=
  match r with ROk _ s' => shaped s' | RPanic _ => False | RFuel => True end.

Lemma parseComment_ok s : shaped s -> table_get prefix_fns (pty (ps_cur s)) = Some "parseComment"%string ->
  out_ok (parseComment s).
Proof.
  intros Hs Hfn. unfold parseComment. cbv zeta.
  pose proof (table_get_forall _ _ _ _ comment_fn_only_for_comments_ok Hfn) as E. simpl in E.
  destruct (ttype (pk (ps_cur s)) =? token_BLOCKCOMMENT) eqn:Hb.
  - destruct (ends_with_star_slash _); simpl; auto with np.
  - unfold pty in E. rewrite Hb, orb_false_r in E.
    pose proof (shaped_pair s Hs) as Hp. unfold pair_ok in Hp. unfold pty in Hp. rewrite E in Hp. simpl in Hp.
    unfold peekIs, pty. unfold is_endty in Hp.
    destruct (pk_nl (ps_peek s)); simpl; [exact Hs|].
    simpl in Hp. apply orb_true_iff in Hp as [Hp|Hp]; rewrite Hp; simpl; [exact Hs|].
    rewrite andb_false_r. simpl. exact Hs.
Qed.

Lemma out_ok_bind {A B} (r : res A) (k : A -> pstate -> res B) :
  out_ok r -> (forall x s1, shaped s1 -> out_ok (k x s1)) ->
  out_ok (match r with ROk x s1 => k x s1 | RPanic w => RPanic w | RFuel => RFuel end).
Proof. destruct r; simpl; auto. Qed.

Lemma funcParams_shaped fuel : forall acc s ids s',
  funcParamsLoop fuel acc s = Some (ids, s') -> shaped s -> shaped s'.
Proof.
  induction fuel as [|fuel IH]; intros acc s ids s' H Hs; simpl in H; [discriminate|].
  destruct (peekIs s token_COMMA); [eapply IH; eauto with np|injection H as <- <-; exact Hs].
Qed.

Lemma parseFunctionParameters_ok fuel s : shaped s -> out_ok (parseFunctionParameters fuel s).
Proof.
  intros Hs. unfold parseFunctionParameters. destruct (peekIs s token_RPAREN); simpl; [auto with np|].
  destruct (funcParamsLoop fuel _ (nextToken s)) as [[ids s2]|] eqn:Hl; [|exact I].
  pose proof (funcParams_shaped _ _ _ _ _ Hl (shaped_next _ Hs)) as Hs2.
  pose proof (shaped_expect s2 token_RPAREN Hs2) as Hs3.
  destruct (expectPeek s2 token_RPAREN) as [ok s3]. simpl in Hs3. destruct ok; simpl; exact Hs3.
Qed.

Section NoPanic.
Variable conv : numconv.

Definition NPE f := forall prec s, shaped s -> out_ok (parseExpression conv f prec s).
Definition NPL f := forall prec left s, shaped s -> out_ok (exprLoop conv f prec left s).
Definition NPP f := forall fn s, shaped s -> table_get prefix_fns (pty (ps_cur s)) = Some fn -> out_ok (prefixFn conv f fn s).
Definition NPI f := forall fn left s, shaped s -> table_get infix_fns (pty (ps_cur s)) = Some fn -> out_ok (infixFn conv f fn left s).
Definition NPM f := forall left more s, shaped s -> out_ok (parseLambdaMulti conv f left more s).
Definition NPG f := forall s, shaped s -> out_ok (parseGroupedExpression conv f s).
Definition NPIf f := forall s, shaped s -> out_ok (parseIfExpression conv f s).
Definition NPB f := forall s, shaped s -> out_ok (parseBlockStatement conv f s).
Definition NPBL f := forall acc s, shaped s -> out_ok (blockLoop conv f acc s).
Definition NPS f := forall s, shaped s -> out_ok (parseStatement conv f s).
Definition NPEL f := forall endt s, shaped s -> out_ok (parseExpressionList conv f endt s).
Definition NPELL f := forall endt acc s, shaped s -> out_ok (exprListLoop conv f endt acc s).
Definition NPML f := forall t acc s, shaped s -> out_ok (parseMapLoop conv f t acc s).

Definition NAll f := NPE f /\ NPL f /\ NPP f /\ NPI f /\ NPM f /\ NPG f /\ NPIf f /\ NPB f /\ NPBL f /\ NPS f /\ NPEL f
                     /\ NPELL f /\ NPML f.

Lemma cur_next s : ps_cur (nextToken s) = ps_peek s.
Proof. unfold nextToken. destruct (ps_rest s); reflexivity. Qed.

(* one generic step: split on the outermost control construct of the body *)
Ltac np_step :=
  match goal with
  | |- out_ok (ROk _ _) => simpl; eauto 8 with np
  | |- out_ok RFuel => exact I
  | |- out_ok (if ?b then _ else _) => destruct b eqn:?
  | |- out_ok (let '(_, _) := expectPeek ?s ?t in _) =>
      let H := fresh "Hex" in
      assert (H : shaped (snd (expectPeek s t))) by eauto 8 with np;
      destruct (expectPeek s t) as [? ?]; simpl in H
  | |- out_ok (match ?r with ROk _ _ => _ | RPanic _ => _ | RFuel => _ end) =>
      apply out_ok_bind; [eauto 10 with np | intros ? ? ?]
  | |- out_ok (match ?e with Some _ => _ | None => _ end) => destruct e eqn:?
  | |- out_ok (let '(_, _) := ?p in _) => destruct p
  | |- out_ok _ => solve [eauto 10 with np]
  end.
Ltac np_crunch := cbv zeta; repeat np_step.

Lemma NPE_step f : NAll f -> NPE (S f).
Proof.
  intros (HPE & HPL & HPP & HPI & HPM & _). unfold NPE. intros prec s Hs. rewrite parseExpression_S.
  destruct (curIs s token_EOL); [simpl; auto with np|].
  destruct (table_get prefix_fns (pty (ps_cur s))) as [fn|] eqn:Hfn; [|np_crunch].
  apply out_ok_bind; [apply HPP; assumption|]. intros left s1 Hs1. np_crunch.
Qed.

Lemma NPL_step f : NAll f -> NPL (S f).
Proof.
  intros (HPE & HPL & HPP & HPI & _). unfold NPL. intros prec left s Hs. rewrite exprLoop_S. cbv zeta.
  destruct (negb (peekIs s token_SEMICOLON) && (prec <? peekPrecedence s)); [|simpl; exact Hs].
  destruct (table_get infix_fns (pty (ps_peek s))) as [fn|] eqn:Hfn; [|simpl; exact Hs].
  destruct (_ && pk_ws (ps_peek s)); [simpl; exact Hs|].
  apply out_ok_bind; [apply HPI; [auto with np|rewrite cur_next; exact Hfn]|]. intros l' s2 Hs2. apply HPL, Hs2.
Qed.

Lemma NPS_step f : NAll f -> NPS (S f).
Proof. intros (HPE & _). unfold NPS. intros s Hs. rewrite parseStatement_S. np_crunch. Qed.

Lemma NPBL_step f : NAll f -> NPBL (S f).
Proof.
  intros (_ & _ & _ & _ & _ & _ & _ & _ & HPBL & HPS & _). unfold NPBL. intros acc s Hs. rewrite blockLoop_S. np_crunch.
Qed.

Lemma NPB_step f : NAll f -> NPB (S f).
Proof.
  intros (_ & _ & _ & _ & _ & _ & _ & _ & HPBL & _). unfold NPB. intros s Hs. rewrite parseBlockStatement_S.
  apply HPBL. auto with np.
Qed.

Lemma NPELL_step f : NAll f -> NPELL (S f).
Proof.
  intros (HPE & _ & _ & _ & _ & _ & _ & _ & _ & _ & _ & HPELL & _). unfold NPELL. intros endt acc s Hs.
  rewrite exprListLoop_S. np_crunch.
Qed.

Lemma NPEL_step f : NAll f -> NPEL (S f).
Proof.
  intros (HPE & _ & _ & _ & _ & _ & _ & _ & _ & _ & _ & HPELL & _). unfold NPEL. intros endt s Hs.
  rewrite parseExpressionList_S. np_crunch.
Qed.

Lemma NPML_step f : NAll f -> NPML (S f).
Proof.
  intros (HPE & _ & _ & _ & _ & _ & _ & _ & _ & _ & _ & _ & HPML). unfold NPML. intros t acc s Hs.
  rewrite parseMapLoop_S. np_crunch.
Qed.

Lemma NPIf_step f : NAll f -> NPIf (S f).
Proof.
  intros (HPE & _ & _ & _ & _ & _ & HPIf & HPB & _). unfold NPIf. intros s Hs.
  rewrite parseIfExpression_S. np_crunch.
Qed.

Lemma NPM_step f : NAll f -> NPM (S f).
Proof.
  intros (HPE & _ & _ & _ & _ & _ & _ & HPB & _). unfold NPM. intros left more s Hs.
  rewrite parseLambdaMulti_S. np_crunch.
Qed.

Lemma NPG_step f : NAll f -> NPG (S f).
Proof.
  intros (HPE & _ & _ & _ & HPM & _ & _ & _ & _ & _ & HPEL & _). unfold NPG. intros s Hs.
  rewrite parseGroupedExpression_S. np_crunch.
Qed.

Lemma known_infix_fn ty fn : table_get infix_fns ty = Some fn -> str_in known_infix fn = true.
Proof.
  intros H. pose proof tables_known_ok as E. unfold tables_known in E.
  apply andb_true_iff in E as [E _]. apply andb_true_iff in E as [_ E].
  exact (table_get_forall _ _ _ _ E H).
Qed.
Lemma known_prefix_fn ty fn : table_get prefix_fns ty = Some fn -> str_in known_prefix fn = true.
Proof.
  intros H. pose proof tables_known_ok as E. unfold tables_known in E.
  apply andb_true_iff in E as [E _]. apply andb_true_iff in E as [E _].
  exact (table_get_forall _ _ _ _ E H).
Qed.

Lemma NPI_step f : NAll f -> NPI (S f).
Proof.
  intros (HPE & _ & _ & _ & HPM & _ & _ & _ & _ & _ & HPEL & _). unfold NPI. intros fn left s Hs Hfn.
  pose proof (known_infix_fn _ _ Hfn) as Hk.
  rewrite infixFn_S. cbv zeta.
  destruct (String.eqb fn "parseInfixExpression") eqn:E1; [np_crunch|].
  destruct (String.eqb fn "parseCallExpression") eqn:E2; [np_crunch|].
  destruct (String.eqb fn "parseIndexExpression") eqn:E3; [np_crunch|].
  destruct (String.eqb fn "parseLambdaExpression") eqn:E4; [np_crunch|].
  unfold str_in, known_infix in Hk. cbn [existsb] in Hk. rewrite E1, E2, E3, E4 in Hk. discriminate.
Qed.

Lemma NPP_step f : NAll f -> NPP (S f).
Proof.
  intros (HPE & _ & _ & _ & _ & HPG & HPIf & HPB & _ & _ & HPEL & _ & HPML). unfold NPP. intros fn s Hs Hfn.
  pose proof (known_prefix_fn _ _ Hfn) as Hk.
  rewrite prefixFn_S. cbv zeta.
  destruct (String.eqb fn "parseIdentifier") eqn:E1.
  { unfold parseIdentifier. destruct (table_get postfix_fns _); simpl; auto with np. }
  assert (Hfl : out_ok (parseFloatLiteral conv s)).
  { unfold parseFloatLiteral. destruct (conv_float conv _); simpl; auto with np. }
  destruct (String.eqb fn "parseIntegerLiteral") eqn:E2.
  { unfold parseIntegerLiteral. destruct (conv_int conv _); simpl; auto. }
  destruct (String.eqb fn "parseFloatLiteral") eqn:E3; [exact Hfl|].
  destruct (String.eqb fn "parseBoolean") eqn:E4; [simpl; exact Hs|].
  destruct (String.eqb fn "parseStringLiteral") eqn:E5; [simpl; exact Hs|].
  destruct (String.eqb fn "parseControlExpression") eqn:E6; [simpl; exact Hs|].
  destruct (String.eqb fn "parseComment") eqn:E7.
  { apply String.eqb_eq in E7. subst fn. apply parseComment_ok; assumption. }
  destruct (String.eqb fn "parsePrefixExpression") eqn:E8; [np_crunch|].
  destruct (String.eqb fn "parseGroupedExpression") eqn:E9; [np_crunch|].
  destruct (String.eqb fn "parseIfExpression") eqn:E10; [np_crunch|].
  destruct (String.eqb fn "parseForExpression") eqn:E11; [np_crunch|].
  destruct (String.eqb fn "parseFunctionLiteral") eqn:E12.
  { destruct (peekIs s token_IDENT).
    - np_step. destruct b; simpl; [|exact Hex].
      apply out_ok_bind; [apply parseFunctionParameters_ok, Hex|]. intros [ps v] s2 Hs2. np_crunch.
    - np_step. destruct b; simpl; [|exact Hex].
      apply out_ok_bind; [apply parseFunctionParameters_ok, Hex|]. intros [ps v] s2 Hs2. np_crunch. }
  destruct (String.eqb fn "parseMacroLiteral") eqn:E13.
  { np_step. destruct b; simpl; [|exact Hex].
    apply out_ok_bind; [apply parseFunctionParameters_ok, Hex|]. intros [ps v] s2 Hs2. np_crunch. }
  destruct (String.eqb fn "parseBuiltin") eqn:E14; [np_crunch|].
  destruct (String.eqb fn "parseArrayLiteral") eqn:E15; [np_crunch|].
  destruct (String.eqb fn "parseMapLiteral") eqn:E16; [np_crunch|].
  unfold str_in, known_prefix in Hk. cbn [existsb] in Hk.
  rewrite E1, E2, E3, E4, E5, E6, E7, E8, E9, E10, E11, E12, E13, E14, E15, E16 in Hk. discriminate.
Qed.

Lemma nall : forall f, NAll f.
Proof.
  induction f as [|f IH].
  - unfold NAll. repeat (match goal with |- _ /\ _ => split end);
      unfold NPE, NPL, NPP, NPI, NPM, NPG, NPIf, NPB, NPBL, NPS, NPEL, NPELL, NPML; intros; exact I.
  - unfold NAll. repeat (match goal with |- _ /\ _ => split end).
    + apply NPE_step, IH. + apply NPL_step, IH. + apply NPP_step, IH. + apply NPI_step, IH.
    + apply NPM_step, IH. + apply NPG_step, IH. + apply NPIf_step, IH. + apply NPB_step, IH.
    + apply NPBL_step, IH. + apply NPS_step, IH. + apply NPEL_step, IH. + apply NPELL_step, IH.
    + apply NPML_step, IH.
Qed.

Lemma programLoop_ok fuel : forall acc s, shaped s -> out_ok (programLoop conv fuel acc s).
Proof.
  induction fuel as [|fuel IH]; intros acc s Hs; simpl; [exact I|].
  destruct (curIs s token_EOF || curIs s token_EOL); [simpl; exact Hs|].
  destruct (nall fuel) as (_ & _ & _ & _ & _ & _ & _ & _ & _ & HPS & _).
  apply out_ok_bind; [apply HPS, Hs|]. intros st s1 Hs1. destruct st; [apply IH; auto with np|simpl; exact Hs1].
Qed.
End NoPanic.

(* token streams in which a line comment is followed by a token on a new line or by an end marker *)
Definition comment_shaped (end_type : Z) (toks : list ptok) : bool :=
  is_endty end_type && chain_ok (toks ++ [mkPtok (mkTok end_type []) false false]).

Theorem parse_never_panics : forall conv fuel end_type toks,
  comment_shaped end_type toks = true ->
  forall w, parse_program conv fuel end_type toks <> PPanic w.
Proof.
  intros conv fuel end_type toks Hc w. unfold parse_program.
  assert (Hs : shaped (init_state (mkPtok (mkTok end_type []) false false) toks)).
  { apply andb_true_iff in Hc as [He Hch]. unfold init_state. apply shaped_next, shaped_next.
    unfold shaped. cbn [ps_cur ps_peek ps_rest ps_end pty pk ttype]. split; [|exact He].
    assert (Hc1 : forall a l, (pty a =? token_LINECOMMENT) = false -> chain_ok l = true -> chain_ok (a :: l) = true).
    { intros a l Ha Hl. destruct l as [|b l]; [reflexivity|]. change (chain_ok (a :: b :: l)) with (pair_ok a b && chain_ok (b :: l)). rewrite Hl. unfold pair_ok. rewrite Ha. reflexivity. }
    apply Hc1; [reflexivity|]. apply Hc1; [reflexivity|]. exact Hch. }
  pose proof (programLoop_ok conv fuel [] _ Hs) as H. destruct (programLoop conv fuel [] _); simpl in H; try discriminate.
  destruct H.
Qed.
