(* C19, second layer: what the ATTEMPTS themselves return.  "assignment with = or :=, ++ and -- ... either fail with an
   error or leave it unchanged" - the statement evaluates to the constant's own value or fails, ++ / -- always fail; and
   "the outcome is the same with registers enabled and disabled", made explicit for the binding and for every reading.
   Everything rests on the invariant Inv of ConstEnv_proofs.v. *)
From Coq Require Import List ZArith NArith Bool Lia.
From GrolModel Require Import Containers ConstEnv.
From GrolProofs Require Import ConstEnv_proofs.
Import ListNotations.

Section OUT.
  Variable K : name.
  Variable v : cval.
  Hypothesis HKconst : constant_name K = true.
  Variable c : ccfg.
  Hypothesis Hcow : ccow c = true.
  Hypothesis Hstrict : strict_eq c = true.
  Hypothesis Hfn : fn_env c = true.

  (* K = <any expression> / K := <any expression>: an error, or the value assigned is the one K has *)
  Lemma assign_attempt_value : forall e ex define, Inv K v e ->
    forall w, snd (do_attempt c e (AAssign K ex define)) = Ok w -> w = v.
  Proof.
    intros e ex define HI w. simpl.
    destruct (eval_expr_inv K v HKconst c Hstrict Hfn ex e HI) as (H1 & _).
    destruct (eval_expr c e ex) as [e1 x]. simpl in H1.
    destruct x as [x| | |]; simpl; try discriminate.
    destruct (create_or_set_inv K v HKconst c Hstrict Hfn e1 K x define H1) as (_ & _ & R).
    destruct (R eq_refl) as [E|[E Ev]]; rewrite E; intros H; [discriminate|].
    inversion H; subst; reflexivity.
  Qed.

  (* the incremented / decremented value is never the value itself *)
  Lemma incr_changes : forall z delta, delta <> 0%Z ->
    XNum (NInt (z + delta)) <> XNum (NInt z) /\
    XNum (NFlt (z + 4 * delta)) <> XNum (NFlt z) /\
    XNum (NFlt (4 * delta)) <> XNum NNegZero.
  Proof.
    intros z delta Hd. split; [|split]; intros H; try discriminate.
    - assert (E : (z + delta)%Z = z) by congruence. lia.
    - assert (E : (z + 4 * delta)%Z = z) by congruence. lia.
  Qed.

  (* K++ K-- ++K --K (any non-zero step): never succeed *)
  Lemma incr_attempt_fails : forall e delta pre, Inv K v e -> delta <> 0%Z ->
    forall w, snd (do_attempt c e (AIncr K delta pre)) <> Ok w.
  Proof.
    intros e delta pre HI Hd w. simpl.
    destruct (read_name_inv K v e K HI) as (H1 & _ & R).
    destruct (read_name e K) as [e1 x]. simpl in H1, R. rewrite (R eq_refl).
    assert (G : forall nv, nv <> v ->
      snd (let (e2, r) := create_or_set c e1 K nv false in
           (e2, match r with Ok _ => if pre then r else Ok v | _ => r end)) <> Ok w).
    { intros nv Hnv.
      destruct (create_or_set_inv K v HKconst c Hstrict Hfn e1 K nv false H1) as (_ & _ & R2).
      destruct (create_or_set c e1 K nv false) as [e2 r]. simpl in *.
      destruct (R2 eq_refl) as [E|[E Ev]]; [rewrite E; discriminate|]. contradiction. }
    destruct v as [[z|q|]| | | | | | |]; simpl; try discriminate.
    - destruct (int64_ok (z + delta)); simpl; [|discriminate].
      apply G. apply (incr_changes z delta Hd).
    - apply G. apply (incr_changes q delta Hd).
    - apply G. apply (incr_changes 0%Z delta Hd).
  Qed.

  (* the same from every scope (a loop runs the attempt twice) *)
  Lemma scoped : forall (a : attempt) (P : res cval -> Prop),
    attempt_deletes K a = false ->
    (forall e, Inv K v e -> P (snd (do_attempt c e a))) ->
    (forall r, (forall w, r <> Ok w) -> P r) ->
    forall e s, Inv K v e -> P (snd (run_event c e (Ev s a))).
  Proof.
    intros a P Hnd HP Hfail e s HI. destruct s; simpl.
    - apply HP; auto.
    - pose proof (HP (empty_frame :: e) (Inv_push K v e HI)) as H.
      destruct (do_attempt c (empty_frame :: e) a). simpl in *. exact H.
    - pose proof (HP (empty_frame :: empty_frame :: e) (Inv_push K v _ (Inv_push K v e HI))) as H.
      destruct (do_attempt c (empty_frame :: empty_frame :: e) a). simpl in *. exact H.
    - pose proof (HP e HI) as H.
      destruct (do_attempt_inv K v HKconst c Hcow Hstrict Hfn a e Hnd HI) as (H1 & _).
      destruct (do_attempt c e a) as [e1 r1]. simpl in *.
      destruct r1 as [x| | |]; simpl; auto.
  Qed.

  Lemma assign_event_value : forall e s ex define, Inv K v e ->
    forall w, snd (run_event c e (Ev s (AAssign K ex define))) = Ok w -> w = v.
  Proof.
    intros e s ex define HI.
    apply (scoped (AAssign K ex define) (fun r => forall w, r = Ok w -> w = v)); auto.
    - intros e' HI'. apply assign_attempt_value; auto.
    - intros r Hr w E. exfalso. eapply Hr; eauto.
  Qed.

  Lemma incr_event_fails : forall e s delta pre, Inv K v e -> delta <> 0%Z ->
    forall w, snd (run_event c e (Ev s (AIncr K delta pre))) <> Ok w.
  Proof.
    intros e s delta pre HI Hd.
    apply (scoped (AIncr K delta pre) (fun r => forall w, r <> Ok w)); auto.
    intros e' HI'. apply incr_attempt_fails; auto.
  Qed.
End OUT.

(* ------------------------------------------------------------------ the statements used by props/C19.v *)

(* K = ex / K := ex with ANY expression (a literal, an alias, a value computed from K itself, a closure), from any scope,
   after any history without del(K): the statement fails, or what it assigns is the very value K has *)
Lemma constant_assign_refused_or_same : forall c, ccow c = true -> strict_eq c = true -> fn_env c = true ->
  forall (K : name) (v : cval) (evs : list event) (e : env) (s : scope) (ex : expr) (define : bool),
  constant_name K = true -> root_wf e -> root_value e K = Some v ->
  forallb (fun ev => negb (event_deletes_name K ev)) evs = true ->
  forall w, snd (run_event c (run_events c e evs) (Ev s (AAssign K ex define))) = Ok w -> w = v.
Proof.
  intros c Hcow Hst Hfn K v evs e sc ex define HK (s & -> & Hs) Hv Hd.
  destruct (run_events_inv K v HK c Hcow Hst Hfn evs _ Hd (root_inv K v s Hs Hv)) as (H1 & L1).
  apply (assign_event_value K v HK c Hcow Hst Hfn); auto.
Qed.

(* K++ K-- ++K --K (any non-zero step, prefix or postfix), from any scope: never succeeds *)
Lemma constant_incr_fails : forall c, ccow c = true -> strict_eq c = true -> fn_env c = true ->
  forall (K : name) (v : cval) (evs : list event) (e : env) (s : scope) (delta : Z) (pre : bool),
  constant_name K = true -> root_wf e -> root_value e K = Some v ->
  forallb (fun ev => negb (event_deletes_name K ev)) evs = true ->
  delta <> 0%Z ->
  forall w, snd (run_event c (run_events c e evs) (Ev s (AIncr K delta pre))) <> Ok w.
Proof.
  intros c Hcow Hst Hfn K v evs e sc delta pre HK (s & -> & Hs) Hv Hd Hdelta.
  destruct (run_events_inv K v HK c Hcow Hst Hfn evs _ Hd (root_inv K v s Hs Hv)) as (H1 & L1).
  apply (incr_event_fails K v HK c Hcow Hst Hfn); auto.
Qed.

(* two configurations - registers on / off, with / without the constant test on the register paths - run the same
   history: the constant is bound to the same value in both, and reads the same from every scope *)
Lemma constant_register_independent : forall c1 c2,
  ccow c1 = true -> strict_eq c1 = true -> fn_env c1 = true ->
  ccow c2 = true -> strict_eq c2 = true -> fn_env c2 = true ->
  forall (K : name) (v : cval) (evs : list event) (e : env),
  constant_name K = true -> root_wf e -> root_value e K = Some v ->
  forallb (fun ev => negb (event_deletes_name K ev)) evs = true ->
  root_value (run_events c1 e evs) K = root_value (run_events c2 e evs) K /\
  forall s : scope, snd (run_event c1 (run_events c1 e evs) (Ev s (ARead K))) =
                    snd (run_event c2 (run_events c2 e evs) (Ev s (ARead K))).
Proof.
  intros c1 c2 A1 B1 C1 A2 B2 C2 K v evs e HK Hwf Hv Hd. split.
  - rewrite (constant_stable c1 A1 B1 C1 K v evs e HK Hwf Hv Hd), (constant_stable c2 A2 B2 C2 K v evs e HK Hwf Hv Hd). reflexivity.
  - intros s.
    rewrite (constant_read_stable c1 A1 B1 C1 K v evs e s HK Hwf Hv Hd), (constant_read_stable c2 A2 B2 C2 K v evs e s HK Hwf Hv Hd).
    reflexivity.
Qed.
