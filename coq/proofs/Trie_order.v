(* C20, "in any order": the answers of the completion index depend on the SET of inserted words only.
   Derived from the characterisation theorems of Trie_proofs.v: a strictly sorted list is determined by its
   elements, and the length of the longest common prefix of a non-empty list is unique. *)
From Coq Require Import List Arith NArith Sorted Permutation Lia Bool.
From GrolModel Require Import Trie.
From GrolProofs Require Import Trie_proofs.
Import ListNotations.

Lemma lex_lt_irrefl w : ~ lex_lt w w.
Proof.
  induction w as [|a w IH]; intro H; inversion H as [| ? ? ? ? Hlt | ? ? ? Ht]; subst.
  - lia.
  - exact (IH Ht).
Qed.

Lemma lex_lt_asym a : forall b, lex_lt a b -> lex_lt b a -> False.
Proof.
  induction a as [|x a IH]; intros b H1 H2.
  - inversion H1; subst. inversion H2.
  - inversion H1 as [| ? ? ? ? Hlt | ? ? ? Ht]; subst.
    + inversion H2 as [| ? ? ? ? Hlt2 | ? ? ? Ht2]; subst; [lia | exact (N.lt_irrefl _ Hlt)].
    + inversion H2 as [| ? ? ? ? Hlt2 | ? ? ? Ht2]; subst; [exact (N.lt_irrefl _ Hlt2) | exact (IH _ Ht Ht2)].
Qed.

Lemma sorted_same_elements (l1 : list word) : forall l2,
  StronglySorted lex_lt l1 -> StronglySorted lex_lt l2 -> (forall w, In w l1 <-> In w l2) -> l1 = l2.
Proof.
  induction l1 as [|a l1 IH]; intros l2 S1 S2 Hin.
  - destruct l2 as [|b l2]; [reflexivity|]. exfalso. apply (Hin b). left. reflexivity.
  - destruct l2 as [|b l2]; [exfalso; apply (Hin a); left; reflexivity|].
    apply StronglySorted_inv in S1. destruct S1 as [S1 F1].
    apply StronglySorted_inv in S2. destruct S2 as [S2 F2].
    rewrite Forall_forall in F1, F2.
    assert (Hab : a = b).
    { destruct (proj1 (Hin a) (or_introl eq_refl)) as [Hba | Ha2]; [symmetry; exact Hba|].
      destruct (proj2 (Hin b) (or_introl eq_refl)) as [Hab | Hb1]; [exact Hab|].
      exfalso. exact (lex_lt_asym a b (F1 _ Hb1) (F2 _ Ha2)). }
    subst b. f_equal. apply IH; try assumption.
    intro w. split; intro Hw.
    + destruct (proj1 (Hin w) (or_intror Hw)) as [E | H]; [|exact H].
      subst w. exfalso. exact (lex_lt_irrefl a (F1 _ Hw)).
    + destruct (proj2 (Hin w) (or_intror Hw)) as [E | H]; [|exact H].
      subst w. exfalso. exact (lex_lt_irrefl a (F2 _ Hw)).
Qed.

Lemma common_len_le l m ws : m <= l -> common_len l ws -> common_len m ws.
Proof.
  intros Hle Hc w1 w2 H1 H2. destruct (Hc w1 w2 H1 H2) as [Hf Hl]. split; [|lia].
  replace m with (Nat.min m l) by lia. rewrite <- !firstn_firstn. rewrite Hf. reflexivity.
Qed.

Lemma lcp_len_unique l m ws : lcp_len l ws -> lcp_len m ws -> l = m.
Proof.
  intros [Hl Hnl] [Hm Hnm].
  assert (H : l < m \/ l = m \/ m < l) by lia. destruct H as [H | [H | H]]; [|exact H|].
  - exfalso. apply Hnl. apply (common_len_le m); [lia | exact Hm].
  - exfalso. apply Hnm. apply (common_len_le l); [lia | exact Hl].
Qed.

(* the words found and the reported length depend only on which words were inserted: any two insertion sequences with
   the same elements (in particular any reordering, with or without repetitions) answer every prefix query alike *)
Theorem prefix_all_order_independent ws ws' p :
  (forall w, In w ws <-> In w ws') ->
  snd (prefix_all (build ws) p) = snd (prefix_all (build ws') p)
  /\ (snd (prefix_all (build ws) p) <> [] -> fst (prefix_all (build ws) p) = fst (prefix_all (build ws') p)).
Proof.
  intro Hsame.
  destruct (build_prefix_all ws p) as [Hin [Hs Hl]]. destruct (build_prefix_all ws' p) as [Hin' [Hs' Hl']].
  assert (E : snd (prefix_all (build ws) p) = snd (prefix_all (build ws') p)).
  { apply sorted_same_elements; try assumption. intro w. rewrite Hin, Hin'.
    split; intros [H1 [H2 H3]]; (split; [exact H1|split; [apply Hsame; exact H2|exact H3]]). }
  split; [exact E|]. intro Hne.
  destruct (Hl Hne) as [_ L1]. assert (Hne' : snd (prefix_all (build ws') p) <> []) by (rewrite <- E; exact Hne).
  destruct (Hl' Hne') as [_ L2]. rewrite <- E in L2. exact (lcp_len_unique _ _ _ L1 L2).
Qed.

Theorem contains_order_independent ws ws' w :
  (forall x, In x ws <-> In x ws') -> contains (build ws) w = contains (build ws') w.
Proof.
  intro Hsame. destruct (contains (build ws) w) eqn:E1, (contains (build ws') w) eqn:E2; try reflexivity.
  - apply contains_build_iff in E1. destruct E1 as [Hn Hi]. apply Hsame in Hi.
    rewrite (proj2 (contains_build_iff ws' w) (conj Hn Hi)) in E2. discriminate.
  - apply contains_build_iff in E2. destruct E2 as [Hn Hi]. apply Hsame in Hi.
    rewrite (proj2 (contains_build_iff ws w) (conj Hn Hi)) in E1. discriminate.
Qed.

Corollary prefix_all_permutation ws ws' p :
  Permutation ws ws' -> snd (prefix_all (build ws) p) = snd (prefix_all (build ws') p).
Proof.
  intro HP. apply prefix_all_order_independent. intro w. split; intro H.
  - exact (Permutation_in w HP H).
  - exact (Permutation_in w (Permutation_sym HP) H).
Qed.
