(* The obligation that ties the panic-site audit (model/PanicSites.v) to the inventory regenerated from
   /repo (gen/Gen_PanicSites.v): every generated (package, file, function, kind, count) is covered by an
   audited entry.  When it fails, [unaccounted_sites] evaluates to the list of offending entries. *)
From Coq Require Import List ZArith Bool String.
From GrolGen Require Import Gen_PanicSites.
From GrolModel Require Import PanicSites.
Import ListNotations.

Lemma panic_sites_accounted_true : panic_sites_accounted = true.
Proof. vm_compute. reflexivity. Qed.

Lemma unaccounted_sites_nil : unaccounted_sites = [].
Proof. vm_compute. reflexivity. Qed.

(* the two resource guards are the only audited entries of class ResourceGuard that are panic( calls *)
Lemma resource_guard_panics :
  map (fun a => (a_file a, a_fn a))
      (filter (fun a => match a_class a with ResourceGuard => String.eqb (a_kind a) "panic" | _ => false end) audited)
  = [("eval_api.go", "State.Eval"); ("memory.go", "MustBeOk")]%string.
Proof. vm_compute. reflexivity. Qed.
