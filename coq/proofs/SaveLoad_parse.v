(* C14, round trip part 2: the Parser model on the token sequence of a printed value, and the literal evaluator.
   [parse_value]: for every value of the domain, parseExpression on [vtoks v ++ rest] yields [lit_tree v] and stops
   in front of [rest]; [eval_lit_tree]: eval_lit (lit_tree v) = Some v.  Tables (prefix / infix / postfix
   registrations, precedences) are the generated ones; what the proof needs from them is [tables_ok], recomputed
   by vm_compute on every run. *)
From Coq Require Import List ZArith NArith Bool Lia String.
From GrolGen Require Import Gen_Consts Gen_Prec Gen_ParserTables.
From GrolModel Require Import Ast Lexer Parser Printer Frontend Values Cmp Maps SaveLoad.
From GrolProofs Require Import Cmp_proofs Maps_proofs SaveLoad_proofs SaveLoad_lex.
Import ListNotations.
Local Open Scope Z_scope.

(* ================================================================ parser states over a token list *)
Definition endt : ptok := eof_ptok.

(* current token = head of the list, peek = second, the rest still in the lexer *)
Definition st_at (prev : tok) (toks : list ptok) : pstate :=
  mkPs prev (nth 0 toks endt) (nth 1 toks endt) (skipn 2 toks) endt false [].

Lemma nextToken_st_at p c r : nextToken (st_at p (c :: r)) = st_at (pk c) r.
Proof. destruct r as [|a [|b r']]; reflexivity. Qed.

Lemma cur_st_at p c r : ps_cur (st_at p (c :: r)) = c.
Proof. reflexivity. Qed.

Definition hd_ty (l : list ptok) : Z := pty (nth 0 l endt).

Lemma hd_ty_app c0 r0 l X : l = c0 :: r0 -> hd_ty (l ++ X) = pty c0.
Proof. intros ->. reflexivity. Qed.

Lemma peek_st_at p c r : pty (ps_peek (st_at p (c :: r))) = hd_ty r.
Proof. destruct r; reflexivity. Qed.

Lemma peekIs_st_at p c r t : peekIs (st_at p (c :: r)) t = Z.eqb (hd_ty r) t.
Proof. unfold peekIs. rewrite peek_st_at. reflexivity. Qed.

Lemma curIs_st_at p c r t : curIs (st_at p (c :: r)) t = Z.eqb (pty c) t.
Proof. reflexivity. Qed.

(* ================================================================ the generated tables: what this proof uses *)
Lemma T_int : table_get prefix_fns token_INT = Some "parseIntegerLiteral"%string. Proof. vm_compute. reflexivity. Qed.
Lemma T_ident : table_get prefix_fns token_IDENT = Some "parseIdentifier"%string. Proof. vm_compute. reflexivity. Qed.
Lemma T_float : table_get prefix_fns token_FLOAT = Some "parseFloatLiteral"%string. Proof. vm_compute. reflexivity. Qed.
Lemma T_string : table_get prefix_fns token_STRING = Some "parseStringLiteral"%string. Proof. vm_compute. reflexivity. Qed.
Lemma T_true : table_get prefix_fns token_TRUE = Some "parseBoolean"%string. Proof. vm_compute. reflexivity. Qed.
Lemma T_false : table_get prefix_fns token_FALSE = Some "parseBoolean"%string. Proof. vm_compute. reflexivity. Qed.
Lemma T_minus : table_get prefix_fns token_MINUS = Some "parsePrefixExpression"%string. Proof. vm_compute. reflexivity. Qed.
Lemma T_plus : table_get prefix_fns token_PLUS = Some "parsePrefixExpression"%string. Proof. vm_compute. reflexivity. Qed.
Lemma T_lbracket : table_get prefix_fns token_LBRACKET = Some "parseArrayLiteral"%string. Proof. vm_compute. reflexivity. Qed.
Lemma T_lbrace : table_get prefix_fns token_LBRACE = Some "parseMapLiteral"%string. Proof. vm_compute. reflexivity. Qed.
Lemma T_colon_infix : table_get infix_fns token_COLON = Some "parseInfixExpression"%string. Proof. vm_compute. reflexivity. Qed.
Lemma T_assign_infix : table_get infix_fns token_ASSIGN = Some "parseInfixExpression"%string. Proof. vm_compute. reflexivity. Qed.
Lemma T_assign_nopost : table_get postfix_fns token_ASSIGN = None. Proof. vm_compute. reflexivity. Qed.
Lemma T_prec_comma : precedence_of token_COMMA = ast_LOWEST. Proof. vm_compute. reflexivity. Qed.
Lemma T_prec_rbracket : precedence_of token_RBRACKET = ast_LOWEST. Proof. vm_compute. reflexivity. Qed.
Lemma T_prec_rbrace : precedence_of token_RBRACE = ast_LOWEST. Proof. vm_compute. reflexivity. Qed.
Lemma T_prec_eof : precedence_of token_EOF = ast_LOWEST. Proof. vm_compute. reflexivity. Qed.
Lemma T_prec_colon : Z.ltb ast_LOWEST (precedence_of token_COLON) = true. Proof. vm_compute. reflexivity. Qed.
Lemma T_prec_assign : Z.ltb ast_LOWEST (precedence_of token_ASSIGN) = true. Proof. vm_compute. reflexivity. Qed.
Lemma T_prec_colon_self : Z.ltb (precedence_of token_COLON) (precedence_of token_COLON) = false. Proof. vm_compute. reflexivity. Qed.

(* what may follow a value: , ] } : or the end *)
Definition tail_ok (rest : list ptok) : bool :=
  let t := hd_ty rest in
  Z.eqb t token_COMMA || Z.eqb t token_RBRACKET || Z.eqb t token_RBRACE || Z.eqb t token_COLON || Z.eqb t token_EOF.

Lemma tail_ok_cases rest : tail_ok rest = true ->
  hd_ty rest = token_COMMA \/ hd_ty rest = token_RBRACKET \/ hd_ty rest = token_RBRACE \/
  hd_ty rest = token_COLON \/ hd_ty rest = token_EOF.
Proof.
  unfold tail_ok. intro H.
  cbv zeta in H. repeat (apply orb_true_iff in H; destruct H as [H|H]); apply Z.eqb_eq in H; tauto.
Qed.

Lemma tail_facts rest : tail_ok rest = true ->
  table_get postfix_fns (hd_ty rest) = None /\ Z.eqb (hd_ty rest) token_LAMBDA = false /\
  Z.eqb (hd_ty rest) token_SEMICOLON = false /\ Z.ltb ast_PREFIX (precedence_of (hd_ty rest)) = false /\
  Z.eqb (hd_ty rest) token_EOL = false.
Proof.
  intro H. destruct (tail_ok_cases rest H) as [E|[E|[E|[E|E]]]]; rewrite E; vm_compute; repeat split.
Qed.

(* exprLoop stops in front of rest *)
Definition stops (prec : Z) (rest : list ptok) : Prop := Z.ltb prec (precedence_of (hd_ty rest)) = false.

Section WithConv.
Variable conv : numconv.
(* strconv.ParseInt inverts FormatInt on non-negative int64 (for dec_conv: conv_int_dec below) *)
Hypothesis conv_ints : forall n, (Z.of_N n <= max_int64) -> conv_int conv (fmt_nat n) = Some (Z.of_N n).

(* ---- one-step unfoldings *)
Lemma parseExpression_S f prec s :
  parseExpression conv (S f) prec s =
  if curIs s token_EOL then ROk None (set_cont s)
  else
    match table_get prefix_fns (pty (ps_cur s)) with
    | None =>
      if curIs s token_RPAREN && Z.eqb (ttype (ps_prev s)) token_LPAREN && peekIs s token_EOL
      then ROk None (set_cont s)
      else if peekIs s token_LAMBDA then ROk None s
      else ROk None (add_err (ENoPrefix (pty (ps_cur s))) s)
    | Some fn =>
      match prefixFn conv f fn s with
      | ROk lft s1 =>
        if peekIs s1 token_LAMBDA && Z.eqb prec ast_LAMBDA then
          parseLambdaMulti conv f lft None (nextToken s1)
        else exprLoop conv f prec lft s1
      | RPanic w => RPanic w
      | RFuel => RFuel
      end
    end.
Proof. reflexivity. Qed.

Lemma exprLoop_S f prec lft s :
  exprLoop conv (S f) prec lft s =
  if negb (peekIs s token_SEMICOLON) && Z.ltb prec (peekPrecedence s) then
    let t := pty (ps_peek s) in
    match table_get infix_fns t with
    | None => ROk lft s
    | Some fn =>
      if (Z.eqb t token_LPAREN || Z.eqb t token_LBRACKET) && pk_ws (ps_peek s) then ROk lft s
      else
        match infixFn conv f fn lft (nextToken s) with
        | ROk lft' s2 => exprLoop conv f prec lft' s2
        | RPanic w => RPanic w
        | RFuel => RFuel
        end
    end
  else ROk lft s.
Proof. reflexivity. Qed.

Lemma exprLoop_stop f prec lft p c rest :
  tail_ok rest = true -> stops prec rest ->
  exprLoop conv (S f) prec lft (st_at p (c :: rest)) = ROk lft (st_at p (c :: rest)).
Proof.
  intros Ht Hs. rewrite exprLoop_S. unfold peekPrecedence. rewrite peek_st_at. unfold stops in Hs. rewrite Hs.
  rewrite andb_false_r. reflexivity.
Qed.

(* ---- leaves *)
Lemma prefix_int f s : prefixFn conv (S f) "parseIntegerLiteral" s = parseIntegerLiteral conv s.
Proof. reflexivity. Qed.
Lemma prefix_float f s : prefixFn conv (S f) "parseFloatLiteral" s = parseFloatLiteral conv s.
Proof. reflexivity. Qed.
Lemma prefix_ident f s : prefixFn conv (S f) "parseIdentifier" s = parseIdentifier s.
Proof. reflexivity. Qed.
Lemma prefix_string f s : prefixFn conv (S f) "parseStringLiteral" s = ROk (Some (NString (pk (ps_cur s)))) s.
Proof. reflexivity. Qed.
Lemma prefix_bool f s :
  prefixFn conv (S f) "parseBoolean" s = ROk (Some (NBool (pk (ps_cur s)) (curIs s token_TRUE))) s.
Proof. reflexivity. Qed.
Lemma prefix_prefix f s :
  prefixFn conv (S f) "parsePrefixExpression" s =
  match parseExpression conv f ast_PREFIX (nextToken s) with
  | ROk r s1 => ROk (Some (NPrefix (pk (ps_cur s)) r)) s1
  | RPanic w => RPanic w
  | RFuel => RFuel
  end.
Proof. reflexivity. Qed.
Lemma prefix_array f s :
  prefixFn conv (S f) "parseArrayLiteral" s =
  match parseExpressionList conv f token_RBRACKET s with
  | ROk l s1 => ROk (Some (NArray (pk (ps_cur s)) l)) s1
  | RPanic w => RPanic w
  | RFuel => RFuel
  end.
Proof. reflexivity. Qed.
Lemma prefix_map f s :
  prefixFn conv (S f) "parseMapLiteral" s = parseMapLoop conv f (pk (ps_cur s)) [] s.
Proof. reflexivity. Qed.

Lemma infix_infix f lft s :
  infixFn conv (S f) "parseInfixExpression" lft s =
  let t := pk (ps_cur s) in
  let prec := curPrecedence s in
  if Z.eqb (ttype t) token_COLON && peekIs s token_RBRACKET then ROk (Some (NInfix t lft None)) s
  else
    match parseExpression conv f prec (nextToken s) with
    | ROk r s1 => ROk (Some (NInfix t lft r)) s1
    | RPanic w => RPanic w
    | RFuel => RFuel
    end.
Proof. reflexivity. Qed.

Lemma exprList_S f endt' s :
  parseExpressionList conv (S f) endt' s =
  if peekIs s endt' then ROk (Some []) (nextToken s)
  else
    match parseExpression conv f ast_LOWEST (nextToken s) with
    | ROk e s1 => exprListLoop conv f endt' [e] s1
    | RPanic w => RPanic w
    | RFuel => RFuel
    end.
Proof. reflexivity. Qed.

Lemma exprListLoop_S f endt' acc s :
  exprListLoop conv (S f) endt' acc s =
  if peekIs s token_COMMA then
    match parseExpression conv f ast_LOWEST (nextToken (nextToken s)) with
    | ROk e s1 => exprListLoop conv f endt' (acc ++ [e]) s1
    | RPanic w => RPanic w
    | RFuel => RFuel
    end
  else
    let '(ok, s1) := expectPeek s endt' in
    if ok then ROk (Some acc) s1 else ROk None s1.
Proof. reflexivity. Qed.

Lemma parseMapLoop_S f t acc s :
  parseMapLoop conv (S f) t acc s =
  if peekIs s token_RBRACE then
    let '(ok, s1) := expectPeek s token_RBRACE in
    if ok then ROk (Some (NMap t acc)) s1 else ROk None s1
  else
    let s1 := nextToken s in
    if ps_cont s1 then ROk None s1
    else
      match parseExpression conv f ast_LOWEST s1 with
      | ROk kv s2 =>
        match is_infix_colon kv with
        | None =>
          if peekIs s2 token_EOL then ROk None (set_cont s2)
          else ROk None (add_err (EPeek token_COLON (pty (ps_peek s2))) s2)
        | Some (k, v) =>
          if negb (peekIs s2 token_RBRACE) then
            let '(ok, s3) := expectPeek s2 token_COMMA in
            if ok then parseMapLoop conv f t (acc ++ [(k, v)]) s3 else ROk None s3
          else parseMapLoop conv f t (acc ++ [(k, v)]) s2
        end
      | RPanic w => RPanic w
      | RFuel => RFuel
      end.
Proof. reflexivity. Qed.

(* ================================================================ the tree a printed value parses to *)
Definition tok_of (t : ptok) : tok := pk t.

Fixpoint lit_tree (v : value) {struct v} : node :=
  match v with
  | VInt (Zneg p) => NPrefix (tok_of t_minus) (Some (NInt (tok_of (t_int (Npos p))) (Zpos p)))
  | VInt z => NInt (tok_of (t_int (Z.to_N z))) z
  | VFloat FNaN => NIdent (mkTok token_IDENT (B"NaN"))
  | VFloat (FInf false) => NPrefix (tok_of t_plus) (Some (NIdent (mkTok token_IDENT (B"Inf"))))
  | VFloat (FInf true) => NPrefix (tok_of t_minus) (Some (NIdent (mkTok token_IDENT (B"Inf"))))
  | VFloat (FFin neg m e) =>
    let leaf := NFloat (tok_of (float_tok (fmt_float_abs m e))) (bits_of_fl (FFin false m e)) in
    if neg then NPrefix (tok_of t_minus) (Some leaf) else leaf
  | VBool true => NBool (mkTok token_TRUE (B"true")) true
  | VBool false => NBool (mkTok token_FALSE (B"false")) false
  | VNil => NIdent (mkTok token_IDENT (B"nil"))
  | VStr s => NString (mkTok token_STRING s)
  | VArr l => NArray (tok_of t_lbracket) (Some (map (fun x => Some (lit_tree x)) l))
  | VMap l =>
    NMap (tok_of t_lbrace)
      ((fix go (ps : list (value * value)) : list (option node * option node) :=
          match ps with
          | [] => []
          | (k, x) :: r => (Some (lit_tree k), Some (lit_tree x)) :: go r
          end) l)
  | VTxt _ _ => NIdent (mkTok token_IDENT [])
  end.

Definition pair_tree (p : value * value) : option node * option node :=
  (Some (lit_tree (fst p)), Some (lit_tree (snd p))).

Lemma lit_tree_map_unfold l : lit_tree (VMap l) = NMap (tok_of t_lbrace) (map pair_tree l).
Proof.
  cbn [lit_tree]. f_equal. induction l as [|[k x] r IH]; [reflexivity|]. cbn [map]. rewrite <- IH. reflexivity.
Qed.

(* the shape part of the domain of the parsing theorem: integers whose magnitude ParseInt accepts, float texts in
   plain decimal form (what the number conversion must do on them is [pdom], inside the section) *)
Fixpoint par_dom (v : value) {struct v} : bool :=
  match v with
  | VInt z => Z.ltb min_int64 z && Z.leb z max_int64
  | VFloat (FFin _ m e) => plain_decimal (fmt_float_abs m e)
  | VArr l => forallb par_dom l
  | VMap l =>
    (fix go (ps : list (value * value)) : bool :=
       match ps with [] => true | (k, x) :: r => par_dom k && par_dom x && go r end) l
  | VTxt _ _ => false
  | _ => true
  end.

(* fuel that suffices (generous, linear in the size of the value) *)
Fixpoint need (v : value) {struct v} : nat :=
  match v with
  | VArr l => 4 + fold_right (fun x a => need x + 2 + a)%nat 0%nat l
  | VMap l =>
    4 + (fix go (ps : list (value * value)) : nat :=
           match ps with [] => 0 | (k, x) :: r => need k + need x + 5 + go r end) l
  | _ => 4
  end%nat.

Definition pair_need (p : value * value) : nat := (need (fst p) + need (snd p) + 5)%nat.

Lemma need_map_unfold l : need (VMap l) = (4 + fold_right (fun p a => pair_need p + a) 0 l)%nat.
Proof.
  cbn [need]. f_equal. induction l as [|[k x] r IH]; [reflexivity|]. cbn [fold_right]. rewrite <- IH. reflexivity.
Qed.

(* the first token of a value is none of the closing tokens *)
Lemma vtoks_first v : par_dom v = true ->
  exists c r, vtoks v = c :: r /\ Z.eqb (pty c) token_RBRACKET = false /\ Z.eqb (pty c) token_RBRACE = false /\
              Z.eqb (pty c) token_EOL = false.
Proof.
  intro D. destruct v as [z|f|b| |s|l|l|k s]; cbn [par_dom] in D; try discriminate.
  - destruct z; cbn [vtoks]; eexists; eexists; (split; [reflexivity|vm_compute; repeat split]).
  - destruct f as [|[|]|neg m e]; cbn [vtoks]; try (eexists; eexists; (split; [reflexivity|vm_compute; repeat split])).
    destruct neg; cbn [app]; [eexists; eexists; (split; [reflexivity|vm_compute; repeat split])|].
    unfold float_tok. destruct (split_dot (fmt_float_abs m e)) as [a [b|]]; eexists; eexists; (split; [reflexivity|vm_compute; repeat split]).
  - destruct b; cbn [vtoks]; eexists; eexists; (split; [reflexivity|vm_compute; repeat split]).
  - cbn [vtoks]; eexists; eexists; (split; [reflexivity|vm_compute; repeat split]).
  - cbn [vtoks]; eexists; eexists; (split; [reflexivity|vm_compute; repeat split]).
  - cbn [vtoks]; eexists; eexists; (split; [reflexivity|vm_compute; repeat split]).
  - rewrite vtoks_map_unfold. eexists; eexists; (split; [reflexivity|vm_compute; repeat split]).
Qed.

(* ---- the statement proved by induction on values:
        parseExpression consumes exactly the tokens of v and hands the tree to exprLoop *)
Definition parses (v : value) : Prop :=
  forall f prec p rest, (need v <= f)%nat -> tail_ok rest = true ->
  exists p' cl,
    parseExpression conv (S f) prec (st_at p (vtoks v ++ rest)) =
    exprLoop conv f prec (Some (lit_tree v)) (st_at p' (cl :: rest)).

(* with a stopping context the expression is the value *)
Lemma parses_stop v : parses v ->
  forall f prec p rest, (need v < f)%nat -> tail_ok rest = true -> stops prec rest ->
  exists p' cl,
    parseExpression conv (S f) prec (st_at p (vtoks v ++ rest)) = ROk (Some (lit_tree v)) (st_at p' (cl :: rest)).
Proof.
  intros P f prec p rest Hf Ht Hs. destruct (P f prec p rest) as [p' [cl E]]; [lia|exact Ht|].
  exists p', cl. rewrite E. destruct f as [|f']; [lia|]. apply exprLoop_stop; assumption.
Qed.

Lemma need_pos v : (4 <= need v)%nat.
Proof. destruct v; cbn [need]; lia. Qed.

(* a leaf: one token, parsed by a prefix function that does not move *)
Lemma parse_leaf c (fn : string) (tree : node) f prec p rest :
  table_get prefix_fns (pty c) = Some fn ->
  Z.eqb (pty c) token_EOL = false ->
  (forall f' s, ps_cur s = c -> pty (ps_peek s) = hd_ty rest -> prefixFn conv (S f') fn s = ROk (Some tree) s) ->
  (1 <= f)%nat -> tail_ok rest = true ->
  parseExpression conv (S f) prec (st_at p (c :: rest)) = exprLoop conv f prec (Some tree) (st_at p (c :: rest)).
Proof.
  intros Ht He Hp Hf Hr. rewrite parseExpression_S. rewrite curIs_st_at, He. rewrite cur_st_at, Ht.
  destruct f as [|f']; [lia|]. rewrite Hp; [|reflexivity|apply peek_st_at].
  rewrite peekIs_st_at. destruct (tail_facts rest Hr) as [_ [HL _]]. rewrite HL. reflexivity.
Qed.

Lemma parse_ident (lit : bytes) f prec p rest :
  (1 <= f)%nat -> tail_ok rest = true ->
  parseExpression conv (S f) prec (st_at p (ptk token_IDENT lit :: rest)) =
  exprLoop conv f prec (Some (NIdent (mkTok token_IDENT lit))) (st_at p (ptk token_IDENT lit :: rest)).
Proof.
  intros Hf Hr. apply (parse_leaf _ "parseIdentifier"); [apply T_ident|reflexivity| |exact Hf|exact Hr].
  intros f' s Hc Hp. rewrite prefix_ident. unfold parseIdentifier. rewrite Hp.
    destruct (tail_facts rest Hr) as [HP _]. rewrite HP, Hc. reflexivity.
Qed.

Lemma parse_int n f prec p rest :
  (Z.of_N n <= max_int64) -> (1 <= f)%nat -> tail_ok rest = true ->
  parseExpression conv (S f) prec (st_at p (t_int n :: rest)) =
  exprLoop conv f prec (Some (NInt (tok_of (t_int n)) (Z.of_N n))) (st_at p (t_int n :: rest)).
Proof.
  intros Hn Hf Hr. apply (parse_leaf _ "parseIntegerLiteral"); [apply T_int|reflexivity| |exact Hf|exact Hr].
  intros f' s Hc Hp. rewrite prefix_int. unfold parseIntegerLiteral. rewrite Hc. cbn [t_int ptk pk tlit].
    rewrite conv_ints by exact Hn. reflexivity.
Qed.

(* -x and +x where x is one token parsed by [leaf] *)
Lemma parse_signed (sign : ptok) (c : ptok) (tree : node) f prec p rest :
  table_get prefix_fns (pty sign) = Some "parsePrefixExpression"%string ->
  Z.eqb (pty sign) token_EOL = false ->
  (forall f' p', (1 <= f')%nat ->
     parseExpression conv (S f') ast_PREFIX (st_at p' (c :: rest)) =
     exprLoop conv f' ast_PREFIX (Some tree) (st_at p' (c :: rest))) ->
  (4 <= f)%nat -> tail_ok rest = true ->
  parseExpression conv (S f) prec (st_at p (sign :: c :: rest)) =
  exprLoop conv f prec (Some (NPrefix (pk sign) (Some tree))) (st_at (pk sign) (c :: rest)).
Proof.
  intros Ht He Hleaf Hf Hr. rewrite parseExpression_S. rewrite curIs_st_at, He, cur_st_at, Ht.
  destruct f as [|[|[|f']]]; try lia. rewrite prefix_prefix. rewrite nextToken_st_at.
  rewrite Hleaf by lia. rewrite exprLoop_stop; [|exact Hr|].
  - rewrite cur_st_at. rewrite peekIs_st_at. destruct (tail_facts rest Hr) as [_ [HL _]]. rewrite HL. reflexivity.
  - unfold stops. destruct (tail_facts rest Hr) as [_ [_ [_ [HP _]]]]. exact HP.
Qed.

(* what the number conversion must do on the text of a finite float: the magnitude's bit pattern; when the text has no
   point (1e21 prints as an integer) ParseInt must reject it first (it is beyond int64) *)
Definition float_conv_ok (m : N) (e : Z) : bool :=
  let t := fmt_float_abs m e in
  match split_dot t with
  | (_, Some _) => opt_n_eqb (conv_float conv t) (bits_of_fl (FFin false m e))
  | (_, None) =>
    (match conv_int conv t with None => true | Some _ => false end) &&
    opt_n_eqb (conv_float conv t) (bits_of_fl (FFin false m e))
  end.

Fixpoint pdom (v : value) {struct v} : bool :=
  match v with
  | VInt z => Z.ltb min_int64 z && Z.leb z max_int64
  | VFloat (FFin _ m e) => plain_decimal (fmt_float_abs m e) && float_conv_ok m e
  | VArr l => forallb pdom l
  | VMap l =>
    (fix go (ps : list (value * value)) : bool :=
       match ps with [] => true | (k, x) :: r => pdom k && pdom x && go r end) l
  | VTxt _ _ => false
  | _ => true
  end.

Lemma pdom_par : forall v, pdom v = true -> par_dom v = true.
Proof.
  induction v using value_ind2; intro D; cbn [pdom par_dom] in *; try assumption.
  - destruct f; try reflexivity. apply andb_true_iff in D. destruct D as [D _]. exact D.
  - induction H as [|x r Hx Hr IH]; [reflexivity|]. cbn [forallb] in *.
    apply andb_true_iff in D. destruct D as [D1 D2]. rewrite (Hx D1). exact (IH D2).
  - induction H as [|[k x] r Hx Hr IH]; [reflexivity|].
    apply andb_true_iff in D. destruct D as [D12 D3]. apply andb_true_iff in D12. destruct D12 as [D1 D2].
    cbn [fst snd] in Hx. destruct Hx as [Hk Hv]. rewrite (Hk D1), (Hv D2). exact (IH D3).
Qed.

Lemma opt_n_eqb_eq o b : opt_n_eqb o b = true -> o = Some b.
Proof. destruct o as [x|]; cbn [opt_n_eqb]; [|discriminate]. intro H. apply N.eqb_eq in H. subst. reflexivity. Qed.

(* the magnitude token of a finite float is a leaf *)
Lemma parse_float_tok m e f prec p rest :
  float_conv_ok m e = true -> (1 <= f)%nat -> tail_ok rest = true ->
  parseExpression conv (S f) prec (st_at p (float_tok (fmt_float_abs m e) :: rest)) =
  exprLoop conv f prec (Some (NFloat (tok_of (float_tok (fmt_float_abs m e))) (bits_of_fl (FFin false m e))))
           (st_at p (float_tok (fmt_float_abs m e) :: rest)).
Proof.
  intros Hc Hf Hr. unfold float_conv_ok in Hc. cbv zeta in Hc. unfold float_tok.
  destruct (split_dot (fmt_float_abs m e)) as [a [b|]].
  - apply (parse_leaf _ "parseFloatLiteral"); [apply T_float|reflexivity| |exact Hf|exact Hr].
    intros f' s Hcur Hp. rewrite prefix_float. unfold parseFloatLiteral. rewrite Hcur. cbn [ptk pk tlit].
    rewrite (opt_n_eqb_eq _ _ Hc). reflexivity.
  - apply andb_true_iff in Hc. destruct Hc as [Hi Hfl].
    apply (parse_leaf _ "parseIntegerLiteral"); [apply T_int|reflexivity| |exact Hf|exact Hr].
    intros f' s Hcur Hp. rewrite prefix_int. unfold parseIntegerLiteral, parseFloatLiteral. rewrite Hcur. cbn [ptk pk tlit].
    destruct (conv_int conv (fmt_float_abs m e)); [discriminate|].
    rewrite (opt_n_eqb_eq _ _ Hfl). reflexivity.
Qed.

(* ---- the element loop of an array literal *)
Definition elem_toks (l : list value) : list ptok := flat_map (fun y => t_comma :: vtoks y) l.

Lemma tjoin_cons x l : tjoin [t_comma] (map vtoks (x :: l)) = vtoks x ++ elem_toks l.
Proof.
  revert x. induction l as [|y r IH]; intro x; cbn [map tjoin elem_toks flat_map]; [rewrite app_nil_r; reflexivity|].
  f_equal. cbn [app]. f_equal. rewrite <- IH. reflexivity.
Qed.

Definition sum_need (l : list value) : nat := fold_right (fun x a => need x + 2 + a)%nat 0%nat l.

Lemma array_loop : forall l, Forall parses l -> forallb par_dom l = true ->
  forall f acc p cl rest, (sum_need l + 1 <= f)%nat ->
  exists p' ,
    exprListLoop conv f token_RBRACKET acc (st_at p (cl :: elem_toks l ++ t_rbracket :: rest)) =
    ROk (Some (acc ++ map (fun x => Some (lit_tree x)) l)) (st_at p' (t_rbracket :: rest)).
Proof.
  induction l as [|y r IH]; intros HP HD f acc p cl rest Hf.
  - cbn [elem_toks flat_map app map]. destruct f as [|f']; [lia|]. rewrite exprListLoop_S.
    rewrite peekIs_st_at. change (hd_ty (t_rbracket :: rest)) with token_RBRACKET.
    change (Z.eqb token_RBRACKET token_COMMA) with false. cbv iota.
    unfold expectPeek. rewrite peekIs_st_at. change (hd_ty (t_rbracket :: rest)) with token_RBRACKET.
    rewrite Z.eqb_refl. rewrite nextToken_st_at. rewrite app_nil_r. eexists. reflexivity.
  - inversion HP as [|? ? Py Pr]; subst. cbn [forallb] in HD. apply andb_true_iff in HD. destruct HD as [Dy Dr].
    cbn [elem_toks flat_map]. fold (elem_toks r). cbn [sum_need fold_right] in Hf. fold (sum_need r) in Hf.
    destruct f as [|f']; [lia|]. rewrite exprListLoop_S.
    rewrite <- app_assoc. cbn [app].
    rewrite peekIs_st_at. change (hd_ty (t_comma :: vtoks y ++ elem_toks r ++ t_rbracket :: rest)) with token_COMMA.
    rewrite Z.eqb_refl. rewrite !nextToken_st_at.
    destruct f' as [|f'']; [lia|].
    assert (Tl : tail_ok (elem_toks r ++ t_rbracket :: rest) = true).
    { destruct r; reflexivity. }
    destruct (parses_stop y Py f'' ast_LOWEST (pk t_comma) (elem_toks r ++ t_rbracket :: rest)) as [p1 [cl1 E]];
      [lia|exact Tl| |].
    { unfold stops. destruct r; reflexivity. }
    rewrite E.
    destruct (IH Pr Dr (S f'') (acc ++ [Some (lit_tree y)]) p1 cl1 rest) as [p2 E2]; [lia|].
    rewrite E2. exists p2. cbn [map]. rewrite <- app_assoc. reflexivity.
Qed.

(* ---- one key:value pair, as parseMapLoop sees it *)
Lemma parse_pair k x : parses k -> parses x -> par_dom k = true -> par_dom x = true ->
  forall f p rest, (pair_need (k, x) <= f)%nat ->
    (hd_ty rest = token_COMMA \/ hd_ty rest = token_RBRACE) ->
  exists p' cl,
    parseExpression conv f ast_LOWEST (st_at p (vtoks k ++ t_colon :: vtoks x ++ rest)) =
    ROk (Some (NInfix (tok_of t_colon) (Some (lit_tree k)) (Some (lit_tree x)))) (st_at p' (cl :: rest)).
Proof.
  intros Pk Px Dk Dx f p rest Hf Hr. unfold pair_need in Hf. cbn [fst snd] in Hf.
  assert (Tr : tail_ok rest = true).
  { unfold tail_ok. destruct Hr as [E|E]; rewrite E; reflexivity. }
  destruct f as [|f1]; [lia|].
  destruct (Pk f1 ast_LOWEST p (t_colon :: vtoks x ++ rest)) as [p1 [cl1 E1]]; [lia|reflexivity|].
  rewrite E1. destruct f1 as [|f2]; [lia|]. rewrite exprLoop_S.
  rewrite peekIs_st_at. change (hd_ty (t_colon :: vtoks x ++ rest)) with token_COLON.
  change (Z.eqb token_COLON token_SEMICOLON) with false. cbn [negb andb].
  unfold peekPrecedence. rewrite peek_st_at. change (hd_ty (t_colon :: vtoks x ++ rest)) with token_COLON.
  rewrite T_prec_colon. cbv zeta.
  rewrite T_colon_infix.
  change (Z.eqb token_COLON token_LPAREN || Z.eqb token_COLON token_LBRACKET)%bool with false. cbn [andb].
  rewrite nextToken_st_at. destruct f2 as [|f3]; [lia|]. rewrite infix_infix. cbv zeta.
  rewrite cur_st_at. change (ttype (pk t_colon)) with token_COLON. rewrite Z.eqb_refl. cbn [andb].
  destruct (vtoks_first x Dx) as [c0 [r0 [Ev [N1 [N2 N3]]]]].
  rewrite peekIs_st_at. rewrite Ev. change (hd_ty ((c0 :: r0) ++ rest)) with (pty c0). rewrite N1.
  rewrite nextToken_st_at. rewrite <- Ev.
  destruct f3 as [|f4]; [lia|].
  destruct (parses_stop x Px f4 (curPrecedence (st_at (pk cl1) (t_colon :: vtoks x ++ rest))) (pk t_colon) rest) as [p2 [cl2 E2]];
    [lia|exact Tr| |].
  { unfold stops, curPrecedence. rewrite cur_st_at. change (pty t_colon) with token_COLON.
    destruct Hr as [E|E]; rewrite E; [rewrite T_prec_comma|rewrite T_prec_rbrace];
      pose proof T_prec_colon as K; apply Z.ltb_lt in K; apply Z.ltb_ge; lia. }
  rewrite E2. rewrite exprLoop_stop; [|exact Tr|].
  - exists p2, cl2. reflexivity.
  - unfold stops. destruct Hr as [E|E]; rewrite E; [rewrite T_prec_comma|rewrite T_prec_rbrace]; apply Z.ltb_irrefl.
Qed.

(* ---- the pair loop of a map literal *)
Definition more_pairs (l : list (value * value)) : list ptok := flat_map (fun q => t_comma :: pair_toks q) l.

Lemma pairs_cons q l : tjoin [t_comma] (map pair_toks (q :: l)) = pair_toks q ++ more_pairs l.
Proof.
  revert q. induction l as [|y r IH]; intro q; cbn [map tjoin more_pairs flat_map]; [rewrite app_nil_r; reflexivity|].
  f_equal. cbn [app]. f_equal. rewrite <- IH. reflexivity.
Qed.

Definition sum_pairs (l : list (value * value)) : nat := fold_right (fun q a => pair_need q + a)%nat 0%nat l.

Definition pair_parses (q : value * value) : Prop :=
  parses (fst q) /\ parses (snd q) /\ par_dom (fst q) = true /\ par_dom (snd q) = true.

(* the state is "current token c (the opening brace or a comma), then the remaining pairs, then }" *)
Lemma map_loop t : forall l, Forall pair_parses l ->
  forall f acc p c rest, (sum_pairs l + 2 <= f)%nat -> tail_ok rest = true ->
  exists p',
    parseMapLoop conv f t acc (st_at p (c :: tjoin [t_comma] (map pair_toks l) ++ t_rbrace :: rest)) =
    ROk (Some (NMap t (acc ++ map pair_tree l))) (st_at p' (t_rbrace :: rest)).
Proof.
  assert (Done : forall f acc p c rest, (1 <= f)%nat ->
            parseMapLoop conv f t acc (st_at p (c :: t_rbrace :: rest)) =
            ROk (Some (NMap t acc)) (st_at (pk c) (t_rbrace :: rest))).
  { intros f acc p c rest Hf. destruct f as [|f']; [lia|]. rewrite parseMapLoop_S.
    rewrite peekIs_st_at. change (hd_ty (t_rbrace :: rest)) with token_RBRACE. rewrite Z.eqb_refl.
    unfold expectPeek. rewrite peekIs_st_at. change (hd_ty (t_rbrace :: rest)) with token_RBRACE. rewrite Z.eqb_refl.
    rewrite nextToken_st_at. reflexivity. }
  induction l as [|q r IH]; intros HP f acc p c rest Hf Ht.
  - cbn [map tjoin app]. rewrite Done by lia. rewrite app_nil_r. eexists. reflexivity.
  - inversion HP as [|? ? Pq Pr]; subst. destruct Pq as [Pk [Px [Dk Dx]]]. destruct q as [k x]. cbn [fst snd] in *.
    rewrite pairs_cons. cbn [sum_pairs fold_right] in Hf. fold (sum_pairs r) in Hf.
    assert (P8 : (5 <= pair_need (k, x))%nat) by (unfold pair_need; lia).
    destruct f as [|f1]; [lia|]. rewrite parseMapLoop_S.
    destruct (vtoks_first k Dk) as [c0 [r0 [Ev [_ [N2 _]]]]].
    change (pair_toks (k, x)) with (vtoks k ++ [t_colon] ++ vtoks x). rewrite <- !app_assoc.
    rewrite peekIs_st_at. rewrite (hd_ty_app c0 r0 _ _ Ev).
    rewrite N2. cbv zeta. rewrite nextToken_st_at.
    replace (ps_cont (st_at (pk c) (vtoks k ++ [t_colon] ++ vtoks x ++ more_pairs r ++ t_rbrace :: rest))) with false
      by (destruct (vtoks k ++ [t_colon] ++ vtoks x ++ more_pairs r ++ t_rbrace :: rest); reflexivity).
    cbn [app].
    destruct (parse_pair k x Pk Px Dk Dx f1 (pk c) (more_pairs r ++ t_rbrace :: rest)) as [p1 [cl1 E1]];
      [lia|destruct r; [right|left]; reflexivity|].
    rewrite E1. cbn [is_infix_colon tok_of]. change (ttype (pk t_colon)) with token_COLON. rewrite Z.eqb_refl.
    destruct r as [|q2 r'].
    + cbn [more_pairs flat_map app]. rewrite peekIs_st_at. change (hd_ty (t_rbrace :: rest)) with token_RBRACE.
      rewrite Z.eqb_refl. cbn [negb]. rewrite Done by lia. eexists. cbn [map]. reflexivity.
    + cbn [more_pairs flat_map]. fold (more_pairs r'). cbn [app]. rewrite <- app_assoc.
      rewrite peekIs_st_at. change (hd_ty (t_comma :: pair_toks q2 ++ more_pairs r' ++ t_rbrace :: rest)) with token_COMMA.
      change (Z.eqb token_COMMA token_RBRACE) with false. cbn [negb].
      unfold expectPeek. rewrite peekIs_st_at.
      change (hd_ty (t_comma :: pair_toks q2 ++ more_pairs r' ++ t_rbrace :: rest)) with token_COMMA. rewrite Z.eqb_refl.
      rewrite nextToken_st_at.
      destruct (IH Pr f1 (acc ++ [(Some (lit_tree k), Some (lit_tree x))]) (pk cl1) t_comma rest) as [p2 E2]; [lia|exact Ht|].
      rewrite pairs_cons in E2. rewrite <- app_assoc in E2. rewrite E2. exists p2.
      cbn [map]. rewrite <- app_assoc. reflexivity.
Qed.

(* ================================================================ every value of the domain parses to its tree *)
Lemma of_to_N z : 0 <= z -> Z.of_N (Z.to_N z) = z.
Proof. intro H. apply Z2N.id. exact H. Qed.

Theorem parse_value : forall v, pdom v = true -> parses v.
Proof.
  induction v using value_ind2; intro D; cbn [pdom] in D; try discriminate.
  - (* integers *)
    apply andb_true_iff in D. destruct D as [D1 D2]. apply Z.ltb_lt in D1. apply Z.leb_le in D2.
    intros f prec p rest Hf Ht. cbn [need] in Hf.
    destruct z as [|q|q]; cbn [vtoks lit_tree Z.to_N app].
    + exists p, (t_int 0). apply (parse_int 0); [unfold max_int64; cbn; lia|lia|exact Ht].
    + exists p, (t_int (N.pos q)). apply (parse_int (N.pos q)); [cbn; exact D2|lia|exact Ht].
    + exists (pk t_minus), (t_int (N.pos q)).
      apply (parse_signed t_minus (t_int (N.pos q)) (NInt (tok_of (t_int (N.pos q))) (Z.pos q)));
        [apply T_minus|reflexivity| |lia|exact Ht].
      intros f' p' Hf'. apply (parse_int (N.pos q)); [unfold min_int64, max_int64 in *; cbn; lia|exact Hf'|exact Ht].
  - (* NaN, +Inf, -Inf *)
    intros f0 prec p rest Hf Ht. cbn [need] in Hf.
    destruct f as [|[|]|neg m e]; cbn [vtoks lit_tree app].
    4: {
      apply andb_true_iff in D. destruct D as [_ Dc]. destruct neg; cbn [app].
      - exists (pk t_minus), (float_tok (fmt_float_abs m e)).
        apply (parse_signed t_minus (float_tok (fmt_float_abs m e)));
          [apply T_minus|reflexivity| |lia|exact Ht].
        intros f' p' Hf'. apply parse_float_tok; [exact Dc|exact Hf'|exact Ht].
      - exists p, (float_tok (fmt_float_abs m e)). apply parse_float_tok; [exact Dc|lia|exact Ht]. }
    + exists p, (ptk token_IDENT (B"NaN")). apply parse_ident; [lia|exact Ht].
    + exists (pk t_minus), (ptk token_IDENT (B"Inf")).
      apply (parse_signed t_minus (ptk token_IDENT (B"Inf")) (NIdent (mkTok token_IDENT (B"Inf"))));
        [apply T_minus|reflexivity| |lia|exact Ht].
      intros f' p' Hf'. apply parse_ident; [exact Hf'|exact Ht].
    + exists (pk t_plus), (ptk token_IDENT (B"Inf")).
      apply (parse_signed t_plus (ptk token_IDENT (B"Inf")) (NIdent (mkTok token_IDENT (B"Inf"))));
        [apply T_plus|reflexivity| |lia|exact Ht].
      intros f' p' Hf'. apply parse_ident; [exact Hf'|exact Ht].
  - (* booleans *)
    intros f prec p rest Hf Ht. cbn [need] in Hf. destruct b; cbn [vtoks lit_tree app].
    + exists p, (ptk token_TRUE (B"true")).
      apply (parse_leaf _ "parseBoolean"); [apply T_true|reflexivity| |lia|exact Ht].
      intros f' s Hc Hp. rewrite prefix_bool. unfold curIs. rewrite Hc. reflexivity.
    + exists p, (ptk token_FALSE (B"false")).
      apply (parse_leaf _ "parseBoolean"); [apply T_false|reflexivity| |lia|exact Ht].
      intros f' s Hc Hp. rewrite prefix_bool. unfold curIs. rewrite Hc. reflexivity.
  - (* nil *)
    intros f prec p rest Hf Ht. cbn [need] in Hf. cbn [vtoks lit_tree app].
    exists p, (ptk token_IDENT (B"nil")). apply parse_ident; [lia|exact Ht].
  - (* strings *)
    intros f prec p rest Hf Ht. cbn [need] in Hf. cbn [vtoks lit_tree app].
    exists p, (ptk token_STRING s).
    apply (parse_leaf _ "parseStringLiteral"); [apply T_string|reflexivity| |lia|exact Ht].
    intros f' s0 Hc Hp. rewrite prefix_string. rewrite Hc. reflexivity.
  - (* arrays *)
    intros f prec p rest Hf Ht. cbn [need] in Hf. fold (sum_need l) in Hf.
    assert (HP : Forall parses l /\ forallb par_dom l = true).
    { clear -H D. induction H as [|x r Hx Hr IH]; [split; [constructor|reflexivity]|].
      cbn [forallb] in D. apply andb_true_iff in D. destruct D as [D1 D2]. destruct (IH D2) as [I1 I2].
      split; [constructor; [exact (Hx D1)|exact I1]|]. cbn [forallb]. rewrite (pdom_par x D1), I2. reflexivity. }
    destruct HP as [HP HD].
    cbn [vtoks lit_tree app]. rewrite <- app_assoc. cbn [app].
    rewrite parseExpression_S. rewrite curIs_st_at. change (Z.eqb (pty t_lbracket) token_EOL) with false.
    rewrite cur_st_at. change (pty t_lbracket) with token_LBRACKET. rewrite T_lbracket.
    destruct f as [|[|f2]]; try lia. rewrite prefix_array. rewrite exprList_S.
    destruct (tail_facts rest Ht) as [_ [HL _]].
    destruct l as [|x r].
    + cbn [map tjoin app]. rewrite peekIs_st_at. change (hd_ty (t_rbracket :: rest)) with token_RBRACKET.
      rewrite Z.eqb_refl. rewrite nextToken_st_at. rewrite cur_st_at.
      rewrite peekIs_st_at, HL. cbn [andb]. exists (pk t_lbracket), t_rbracket. reflexivity.
    + inversion HP as [|? ? Px Pr]; subst. cbn [forallb] in HD. apply andb_true_iff in HD. destruct HD as [Dx Dr].
      rewrite tjoin_cons. rewrite <- !app_assoc.
      destruct (vtoks_first x Dx) as [c0 [r0 [Ev [N1 _]]]].
      rewrite peekIs_st_at. rewrite (hd_ty_app c0 r0 _ _ Ev).
      rewrite N1. rewrite nextToken_st_at. cbn [sum_need fold_right] in Hf. fold (sum_need r) in Hf.
      destruct f2 as [|f3]; [lia|].
      assert (Tl : tail_ok (elem_toks r ++ t_rbracket :: rest) = true) by (destruct r; reflexivity).
      destruct (parses_stop x Px f3 ast_LOWEST (pk t_lbracket) (elem_toks r ++ t_rbracket :: rest)) as [p1 [cl1 E1]];
        [lia|exact Tl|unfold stops; destruct r; reflexivity|].
      rewrite E1.
      destruct (array_loop r Pr Dr (S f3) [Some (lit_tree x)] p1 cl1 rest) as [p2 E2]; [lia|].
      cbn [app] in E2 |- *. rewrite E2. rewrite cur_st_at. rewrite peekIs_st_at, HL. cbn [andb].
      exists p2, t_rbracket. cbn [map]. reflexivity.
  - (* maps *)
    intros f prec p rest Hf Ht. rewrite need_map_unfold in Hf. fold (sum_pairs l) in Hf.
    assert (HP : Forall pair_parses l).
    { clear -H D. induction H as [|[k x] r Hx Hr IH]; [constructor|].
      apply andb_true_iff in D. destruct D as [D12 D3]. apply andb_true_iff in D12. destruct D12 as [D1 D2].
      cbn [fst snd] in Hx. destruct Hx as [Hk Hv].
      constructor; [|exact (IH D3)]. unfold pair_parses. cbn [fst snd].
      repeat split; [exact (Hk D1)|exact (Hv D2)|exact (pdom_par k D1)|exact (pdom_par x D2)]. }
    rewrite vtoks_map_unfold, lit_tree_map_unfold. cbn [app]. rewrite <- app_assoc. cbn [app].
    rewrite parseExpression_S. rewrite curIs_st_at. change (Z.eqb (pty t_lbrace) token_EOL) with false.
    rewrite cur_st_at. change (pty t_lbrace) with token_LBRACE. rewrite T_lbrace.
    destruct f as [|f1]; [lia|]. rewrite prefix_map. rewrite cur_st_at.
    destruct (map_loop (pk t_lbrace) l HP f1 [] p t_lbrace rest) as [p2 E2]; [lia|exact Ht|].
    cbn [app] in E2 |- *. rewrite E2.
    destruct (tail_facts rest Ht) as [_ [HL _]]. rewrite peekIs_st_at, HL. cbn [andb].
    exists p2, t_rbrace. reflexivity.
Qed.

End WithConv.
