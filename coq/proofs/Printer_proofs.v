(* Totality of the formatter on trees without missing children (property C08, part "can be printed
   in every mode without panicking"). *)
From Coq Require Import List ZArith NArith Bool Lia.
From GrolGen Require Import Gen_Consts Gen_Prec.
From GrolModel Require Import Ast Parser Printer AstWf.
From GrolProofs Require Import Ast_ind.
Import ListNotations.

Definition total_on (rec : node -> pst -> option pst) (n : node) : Prop :=
  forall ps, exists ps', rec n ps = Some ps'.

Definition we_ok (rec : node -> pst -> option pst) (x : option node) : Prop :=
  exists m, x = Some m /\ total_on rec m.

Section Generic.
Variable rec : node -> pst -> option pst.

Lemma pp_list_total l :
  Forall (we_ok rec) l -> forall first ps, exists ps', pp_list_with rec l first ps = Some ps'.
Proof.
  induction 1 as [|x l (m & -> & Hm) _ IH]; intros first ps; simpl; [eauto|].
  destruct (Hm (if first then ps else Print ps (sep_comma ps))) as [ps2 ->]. apply IH.
Qed.

Lemma coma_list_total l :
  match l with Some l' => Forall (we_ok rec) l' | None => True end ->
  forall ps, exists ps', coma_list_with rec l ps = Some ps'.
Proof. destruct l; simpl; intros H ps; [apply pp_list_total; assumption|eauto]. Qed.

Lemma stmts_loop_total l :
  Forall (we_ok rec) l -> forall i ps, exists ps', stmts_loop_with rec l i ps = Some ps'.
Proof.
  induction 1 as [|x l (m & -> & Hm) _ IH]; intros i ps; cbn [stmts_loop_with]; [eauto|].
  destruct (p_compact ps && is_comment (Some m)); [apply IH|].
  destruct (Hm (if p_compact ps then compact_sep ps (Some m) i else long_sep ps (Some m) i)) as [ps2 ->].
  apply IH.
Qed.

Lemma pp_stmts_total l :
  Forall (we_ok rec) l -> forall ps, exists ps', pp_stmts_with rec l ps = Some ps'.
Proof.
  intros H ps. unfold pp_stmts_with.
  match goal with |- context [stmts_loop_with rec l 0 ?p] => destruct (stmts_loop_total l H 0%nat p) as [ps3 ->] end.
  eauto.
Qed.

Lemma map_loop_total sep l :
  Forall (fun kv => we_ok rec (fst kv) /\ we_ok rec (snd kv)) l ->
  forall first ps, exists ps', map_loop_with rec sep l first ps = Some ps'.
Proof.
  induction 1 as [|[k v] l [(km & Hk & Hkm) (vm & Hv & Hvm)] _ IH]; intros first ps; simpl; [eauto|].
  simpl in Hk, Hv. subst k v.
  match goal with |- context [rec km ?p] => destruct (Hkm p) as [ps2 ->] end.
  match goal with |- context [rec vm ?p] => destruct (Hvm p) as [ps3 ->] end. apply IH.
Qed.
End Generic.

(* ---- from the boolean predicate to the hypotheses of the generic lemmas ---- *)
Definition T (n : node) : Prop :=
  printable n = true ->
  total_on pp n /\ match n with NStmts l => Forall (we_ok pp) l | _ => True end.

Lemma we_ok_of (x : option node) : Po T x -> we_with printable x = true -> we_ok pp x.
Proof.
  destruct x as [m|]; simpl; [|discriminate]. intros HT H. apply andb_true_iff in H as [_ H].
  exists m. split; [reflexivity|]. apply (HT H).
Qed.

Lemma wl_ok_of l : Pl T l -> wl_with printable l = true -> Forall (we_ok pp) l.
Proof.
  induction 1 as [|x l Hx _ IH]; simpl; intros H; [constructor|].
  apply andb_true_iff in H as [H1 H2]. constructor; [apply we_ok_of; assumption|apply IH, H2].
Qed.

Lemma wol_ok_of l : Pol T l -> wol_with printable l = true ->
  match l with Some l' => Forall (we_ok pp) l' | None => True end.
Proof. destruct l; simpl; [apply wl_ok_of|auto]. Qed.

Lemma wp_ok_of l : Pp T l -> wp_with printable l = true ->
  Forall (fun kv => we_ok pp (fst kv) /\ we_ok pp (snd kv)) l.
Proof.
  induction 1 as [|[k v] l [Hk Hv] _ IH]; simpl; intros H; [constructor|].
  apply andb_true_iff in H as [H H3]. apply andb_true_iff in H as [H1 H2].
  constructor; [split; apply we_ok_of; assumption|apply IH, H3].
Qed.

Lemma pp_stmts_unfold l ps : pp (NStmts l) ps = pp_stmts_with pp l ps.
Proof. reflexivity. Qed.

Lemma block_total (x : option node) :
  Po T x -> wb_with printable x = true -> forall ps, exists ps', pp_block_with pp x ps = Some ps'.
Proof.
  destruct x as [m|]; simpl; [|discriminate].
  destruct m; try discriminate. intros HT H ps. apply (proj1 (HT H)).
Qed.

Lemma opt_total (x : option node) :
  Po T x -> we_with printable x = true -> forall ps, exists ps', pp_opt_with pp x ps = Some ps'.
Proof. intros HT H. destruct (we_ok_of x HT H) as (m & -> & Hm). exact Hm. Qed.

Ltac split_and :=
  repeat match goal with
         | H : _ && _ = true |- _ => apply andb_true_iff in H; destruct H
         end.

Lemma needParen_some ps t : has_prec_tok t = true -> exists np old ps1, needParen ps t = Some (np, old, ps1).
Proof.
  unfold needParen, has_prec_tok. destruct (table_get precedences (ttype t)); [eauto|discriminate].
Qed.

Lemma first_item_total c : forall sl x rest, Forall (we_ok pp) sl -> else_items c sl = x :: rest ->
  forall ps, exists ps', first_item_with pp c sl ps = Some ps'.
Proof.
  induction sl as [|y r IH]; intros x rest HF E ps.
  - destruct c; discriminate E.
  - inversion HF as [|? ? (m & -> & Hm) HF']; subst. cbn [first_item_with].
    destruct c; cbn [andb].
    + unfold else_items in E. cbn [filter] in E. destruct (is_comment (Some m)) eqn:Ec; cbn [negb] in E.
      * eapply IH; [exact HF'|exact E].
      * apply Hm.
    + apply Hm.
Qed.

Lemma else_items_in c sl x : In x (else_items c sl) -> In x sl.
Proof. unfold else_items. destruct c; [intros H; apply filter_In in H; tauto|auto]. Qed.

Lemma print_total_aux : forall n, T n.
Proof.
  induction n using node_ind2; intros Hp;
    (match goal with |- _ /\ Forall _ _ => idtac | |- _ => split; [|exact I] end);
    try (intros q; simpl; eauto; fail).
  all: try intros q.
  - (* return *) simpl. destruct v as [m|]; [|eauto].
    change (printable (NReturn t (Some m))) with (we_with printable (Some m)) in Hp.
    destruct (we_ok_of _ H Hp) as (m' & E & Hm). injection E as <-. apply Hm.
  - (* stmts *)
    assert (Hall : Forall (we_ok pp) l) by (apply wl_ok_of; assumption).
    split; [|exact Hall]. intros q. rewrite pp_stmts_unfold. apply pp_stmts_total, Hall.
  - (* prefix *)
    change (printable (NPrefix t r)) with (we_with printable r) in Hp.
    cbn [pp]. match goal with |- context [pp_opt_with pp r ?p] => destruct (opt_total r H Hp p) as [ps4 ->] end.
    eauto.
  - (* postfix *)
    change (printable (NPostfix t p)) with (negb true || has_prec_tok t) in Hp. simpl in Hp.
    cbn [pp]. destruct (needParen_some q t Hp) as (np & old & ps1 & ->). eauto.
  - (* infix *)
    change (printable (NInfix t l r)) with
      ((negb true || has_prec_tok t) && we_with printable l
       && match r with None => Z.eqb (ttype t) token_COLON | Some _ => we_with printable r end) in Hp.
    simpl in Hp. apply andb_true_iff in Hp as [Hp Hr]. apply andb_true_iff in Hp as [Ht Hl].
    cbn [pp]. destruct (needParen_some q t Ht) as (np & old & ps1 & ->).
    match goal with |- context [pp_opt_with pp l ?p] => destruct (opt_total l H Hl p) as [ps2 ->] end.
    destruct r as [m|]; [|eauto].
    destruct (we_ok_of _ H0 Hr) as (m' & E & Hm). injection E as <-.
    match goal with |- context [pp m ?p] => destruct (Hm p) as [ps4 ->] end. eauto.
  - (* for *)
    change (printable (NFor t c b)) with (we_with printable c && wb_with printable b) in Hp.
    apply andb_true_iff in Hp as [Hc Hb].
    cbn [pp]. match goal with |- context [pp_opt_with pp c ?p] => destruct (opt_total c H Hc p) as [ps1 ->] end.
    apply block_total; assumption.
  - (* if *)
    change (printable (NIf t c a b)) with
      (we_with printable c && wb_with printable a
       && match b with None => true | Some _ => wb_with printable b end) in Hp.
    apply andb_true_iff in Hp as [Hp Hb]. apply andb_true_iff in Hp as [Hc Ha].
    cbn [pp]. match goal with |- context [pp_opt_with pp c ?p] => destruct (opt_total c H Hc p) as [ps1 ->] end.
    match goal with |- context [pp_block_with pp a ?p] => destruct (block_total a H0 Ha p) as [ps2 ->] end.
    destruct b as [alt|]; [|eauto].
    simpl in Hb. destruct alt as [| | | | | | | |sl| | | | | | | | | | | |]; try discriminate.
    destruct (H1 Hb) as [Hall Hel].
    unfold else_shape_of. destruct (else_items (p_compact _) sl) as [|[e|] [|? ?]] eqn:Ei; try apply Hall.
    + (* else if: a single printed statement *)
      assert (Hin : In (Some e) sl) by (eapply else_items_in; rewrite Ei; now left).
      destruct (node_tok e) as [et|] eqn:Het.
      * destruct (tok_is et token_IF); [|apply Hall].
        eapply first_item_total; [exact Hel|exact Ei].
      * exfalso. rewrite Forall_forall in Hel. destruct (Hel _ Hin) as (m & E & _). injection E as <-.
        simpl in Hb. clear - Hb Hin Het.
        induction sl as [|y r IHr]; [contradiction|]. simpl in Hb. apply andb_true_iff in Hb as [Hy Hr].
        destruct Hin as [->|Hin]; [|now apply IHr].
        simpl in Hy. destruct e; simpl in Het, Hy; discriminate.
    + (* a nil statement *)
      exfalso. assert (Hin : In None sl) by (eapply else_items_in; rewrite Ei; now left).
      rewrite Forall_forall in Hel. destruct (Hel _ Hin) as (m & E & _). discriminate E.
  - (* builtin *)
    change (printable (NBuiltin t ps)) with (wol_with printable ps) in Hp.
    cbn [pp]. match goal with |- context [coma_list_with pp ps ?p] =>
      destruct (coma_list_total pp ps (wol_ok_of ps H Hp) p) as [ps1 ->] end. eauto.
  - (* func *)
    change (printable (NFunc t nm ps b v l)) with (wol_with printable ps && wb_with printable b) in Hp.
    apply andb_true_iff in Hp as [Hps Hb].
    cbn [pp]. destruct l.
    + match goal with |- context [coma_list_with pp ps ?p] =>
        destruct (coma_list_total pp ps (wol_ok_of ps H Hps) p) as [ps1 ->] end.
      match goal with |- context [pp_block_with pp b ?p] => destruct (block_total b H0 Hb p) as [ps4 ->] end. eauto.
    + match goal with |- context [coma_list_with pp ps ?p] =>
        destruct (coma_list_total pp ps (wol_ok_of ps H Hps) p) as [ps1 ->] end.
      apply block_total; assumption.
  - (* call *)
    change (printable (NCall t f a)) with (we_with printable f && wol_with printable a) in Hp.
    apply andb_true_iff in Hp as [Hf Ha].
    cbn [pp]. match goal with |- context [pp_opt_with pp f ?p] => destruct (opt_total f H Hf p) as [ps1 ->] end.
    match goal with |- context [coma_list_with pp a ?p] =>
      destruct (coma_list_total pp a (wol_ok_of a H0 Ha) p) as [ps2 ->] end. eauto.
  - (* array *)
    change (printable (NArray t e)) with (wol_with printable e) in Hp.
    cbn [pp]. match goal with |- context [coma_list_with pp e ?p] =>
      destruct (coma_list_total pp e (wol_ok_of e H Hp) p) as [ps1 ->] end. eauto.
  - (* index *)
    change (printable (NIndex t l i)) with
      ((negb true || has_prec_tok t) && we_with printable l && we_with printable i) in Hp.
    simpl in Hp. apply andb_true_iff in Hp as [Hp Hi]. apply andb_true_iff in Hp as [Ht Hl].
    cbn [pp]. destruct (needParen_some q t Ht) as (np & old & ps1 & ->).
    match goal with |- context [pp_opt_with pp l ?p] => destruct (opt_total l H Hl p) as [ps2 ->] end.
    match goal with |- context [pp_opt_with pp i ?p] => destruct (opt_total i H0 Hi p) as [ps3 ->] end. eauto.
  - (* map *)
    change (printable (NMap t ps)) with (wp_with printable ps) in Hp.
    cbn [pp]. match goal with |- context [map_loop_with pp ?sep ps true ?p] =>
      destruct (map_loop_total pp sep ps (wp_ok_of ps H Hp) true p) as [ps1 ->] end. eauto.
  - (* macro *)
    change (printable (NMacro t ps b)) with (wol_with printable ps && wb_with printable b) in Hp.
    apply andb_true_iff in Hp as [Hps Hb].
    cbn [pp]. match goal with |- context [coma_list_with pp ps ?p] =>
      destruct (coma_list_total pp ps (wol_ok_of ps H Hps) p) as [ps1 ->] end.
    apply block_total; assumption.
Qed.

Theorem print_total_node : forall n, printable n = true -> forall ps, exists ps', pp n ps = Some ps'.
Proof. intros n H. apply (proj1 (print_total_aux n H)). Qed.

(* the formatter is total, in all four mode combinations, on every program without missing children
   whose operator tokens have precedence entries *)
Theorem print_total : forall (stmts : list (option node)) (compact allparens : bool),
  program_printable stmts = true -> exists out, print_program compact allparens stmts = Some out.
Proof.
  intros stmts compact allparens H. unfold print_program.
  destruct (print_total_node (NStmts stmts) H (new_pst compact allparens)) as [ps' ->]. eauto.
Qed.
