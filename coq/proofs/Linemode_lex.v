(* C15 (1), lexer half: when line mode leaves no string open, the two lexer modes produce the same tokens
   except for the type of the end marker. *)
From Coq Require Import List ZArith NArith Bool String Lia.
From GrolGen Require Import Gen_Consts Gen_Token Gen_ByteClass.
From GrolModel Require Import Ast Lexer Parser Frontend.
From GrolProofs Require Import Lexer_proofs Parser_proofs Linemode_sim.
Import ListNotations.
Local Open Scope Z_scope.

(* file mode never produces an end-of-line token *)
Lemma scan_false_not_eol r : fst (fst (scan_token false r)) <> token_EOL.
Proof.
  pose proof (scan_token_case false r) as C. destruct (scan_token false r) as [[ty lit] k]. cbn [fst].
  destruct C;
    try (match goal with H : is_op_type _ = true |- _ => apply is_op_type_not_special in H; tauto end);
    try discriminate.
  - match goal with H : _ = token_INT \/ _ = token_FLOAT |- _ => destruct H as [-> | ->]; discriminate end.
  - destruct (lookup_ident_type (firstn k r)) as [E|E]; [rewrite E; discriminate|].
    apply is_op_type_not_special in E. tauto.
Qed.

(* the two modes of NextToken at a token start *)
Lemma scan_modes r :
  (r = [] /\ scan_token true r = (token_EOL, [], 1%nat) /\ scan_token false r = (token_EOF, [], 1%nat))
  \/ (r <> [] /\ exists k, scan_token true r = (token_EOL, [], k))
  \/ (scan_token true r = scan_token false r).
Proof.
  destruct r as [|ch r1]; [left; repeat split; reflexivity|]. right.
  unfold scan_token. cbn [hd0 tl is_nil].
  destruct (classify ch (hd0 r1) false) eqn:EC; try (right; reflexivity).
  2:{ exfalso. unfold classify in EC.
      repeat match type of EC with context [if ?b then _ else _] => destruct b end; discriminate EC. }
  destruct (read_string _ _ _ _ _ _) as [[[str closed] k]|]; [|right; reflexivity].
  destruct closed; [right; reflexivity|]. left. split; [discriminate|]. exists k. reflexivity.
Qed.

Lemma skipn_skipn' {A} (n : nat) : forall m (l : list A), skipn n (skipn m l) = skipn (m + n) l.
Proof. intros m. induction m as [|m IH]; intros l; [reflexivity|]. destruct l; [now rewrite !skipn_nil|apply IH]. Qed.
Lemma skipn_nonnil {A} n (l : list A) : skipn n l <> [] -> (n < List.length l)%nat.
Proof. intros H. destruct (Nat.lt_ge_cases n (List.length l)) as [L|L]; [exact L|]. now rewrite skipn_all2 in H. Qed.

Definition open_string (s : list N) (t : ltok) : bool :=
  Z.eqb (lt_type t) token_EOL && Nat.ltb (lt_start t) (List.length s).

Lemma fp_to_ptok_id t : lt_type t <> token_EOL -> fp (to_ptok t) = to_ptok t.
Proof.
  intros H. unfold fp, to_ptok, ft. cbn [pk pk_ws pk_nl ttype tlit].
  replace (lt_type t =? token_EOL) with false by (symmetry; now apply Z.eqb_neq). reflexivity.
Qed.

Lemma next_modes s pos :
  let '(tL, pL) := next_token true s pos in
  let '(tF, pF) := next_token false s pos in
  (open_string s tL = true)
  \/ (lt_type tL = token_EOL /\ lt_type tF = token_EOF /\ fp (to_ptok tL) = to_ptok tF)
  \/ (tL = tF /\ pL = pF /\ lt_type tL <> token_EOL).
Proof.
  unfold next_token. set (r0 := skipn pos s). set (nws := span_len isWhiteSpace r0).
  pose proof (scan_modes (skipn nws r0)) as M. pose proof (scan_false_not_eol (skipn nws r0)) as NE.
  destruct (scan_token true (skipn nws r0)) as [[tyL litL] kL].
  destruct (scan_token false (skipn nws r0)) as [[tyF litF] kF]. cbn [fst] in NE.
  destruct M as [(_ & EL & EF)|[(Hne & k & EL)|E]].
  - injection EL as -> -> ->. injection EF as -> -> ->. right. left. repeat split.
  - injection EL as -> -> ->. left. unfold open_string. cbn [lt_type lt_start]. rewrite Z.eqb_refl. cbn [andb].
    apply Nat.ltb_lt. unfold r0 in Hne. rewrite skipn_skipn' in Hne. now apply skipn_nonnil in Hne.
  - injection E as -> -> ->. right. right. repeat split. exact NE.
Qed.

Lemma lex_modes fuel s : forall pos,
  existsb (open_string s) (lex_from fuel true s pos) = false ->
  map (fun t => fp (to_ptok t)) (lex_from fuel true s pos) = map to_ptok (lex_from fuel false s pos).
Proof.
  induction fuel as [|fuel IH]; intros pos H; [reflexivity|].
  cbn [lex_from] in *. pose proof (next_modes s pos) as M.
  destruct (next_token true s pos) as [tL pL]. destruct (next_token false s pos) as [tF pF].
  destruct M as [Ho|[(EL & EF & Efp)|(-> & -> & NE)]].
  - exfalso. destruct (is_end tL || (lt_type tL <? 0)); cbn [existsb] in H; rewrite Ho in H; discriminate H.
  - unfold is_end. rewrite EL, EF. cbn. now rewrite Efp.
  - destruct (is_end tF || (lt_type tF <? 0)).
    + cbn [map]. now rewrite fp_to_ptok_id.
    + cbn [map existsb] in *. apply orb_false_elim in H as [_ H]. rewrite fp_to_ptok_id by exact NE.
      f_equal. now apply IH.
Qed.

Lemma front_tokens_modes s : Frontend.unterminated true s = false ->
  front_tokens false s = map fp (front_tokens true s).
Proof.
  unfold Frontend.unterminated, front_tokens, lex_all. cbn [andb]. intros H.
  rewrite map_map. symmetry. apply lex_modes. exact H.
Qed.

(* C15, sentence 1, on the model of the whole front end *)
Theorem linemode_same_tree conv src r :
  Frontend.unterminated true src = false ->
  front_parse conv true src = POk r -> clean r = true ->
  front_parse conv false src = POk (mkPres (map (option_map fnode) (pr_tree r)) [] false (pr_all_lexed r)).
Proof.
  intros Hu H Hc. unfold front_parse in *. rewrite (front_tokens_modes _ Hu).
  set (toks := front_tokens true src) in *.
  replace (default_fuel (map fp toks)) with (default_fuel toks) by (unfold default_fuel; now rewrite map_length).
  destruct (parse_program conv (default_fuel toks) (Frontend.end_type true) toks) as [r0| |] eqn:E; try discriminate.
  injection H as <-. unfold clean in Hc. cbn [pr_errs pr_cont pr_tree pr_all_lexed] in *.
  assert (Hc0 : clean_result r0 = true).
  { unfold clean_result. destruct (pr_errs r0); [|discriminate Hc].
    apply negb_true_iff in Hc. apply orb_false_elim in Hc as [Hc _]. now rewrite Hc. }
  change (Frontend.end_type true) with token_EOL in E. change (Frontend.end_type false) with token_EOF.
  rewrite (linemode_parse_sim conv _ _ _ E Hc0). cbn [pr_tree pr_errs pr_cont pr_all_lexed].
  unfold Frontend.unterminated. cbn [andb orb]. now rewrite andb_false_r.
Qed.
