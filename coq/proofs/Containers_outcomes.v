(* C06, second layer: the OUTCOME of every statement (its value, an error, an out-of-domain stop) and the reading of every
   binding are those of the threshold-free pure model, hence the same for any two choices of thresholds and capacity
   oracles.  Everything here is a corollary of the simulation of Containers_proofs.v. *)
From Coq Require Import List ZArith Lia.
From GrolModel Require Import Containers.
From GrolProofs Require Import Containers_proofs.
Import ListNotations.

(* the machine's outcome a (in heap h) is the pure outcome b: a value that abstracts to the pure value, the same boolean,
   or the same kind of failure *)
Definition OutcomeAbs (c : cfg) (h : heap) (a : status) (b : pstatus) : Prop :=
  match a, b with
  | Done (RV v), PDone (PRV p) => Abs (Some (msa c)) h v p
  | Done (RB x), PDone (PRB y) => x = y
  | Failed, PFailed | OutDom, POutDom | IsStuck, PIsStuck => True
  | _, _ => False
  end.

Lemma StatR_OutcomeAbs : forall c h a b, StatR c h a b -> OutcomeAbs c h a b.
Proof.
  intros c h a b H. destruct a as [[v|x]| | |], b as [[p|y]| | |]; simpl in *; auto.
Qed.

Lemma OutcomeAbs_fun : forall c h a b b', OutcomeAbs c h a b -> OutcomeAbs c h a b' -> b = b'.
Proof.
  intros c h a b b' H H'.
  destruct a as [[v|x]| | |], b as [[p|y]| | |], b' as [[p'|y']| | |]; simpl in *; try contradiction; auto.
  - f_equal. f_equal. eapply Abs_fun; eauto.
  - subst. reflexivity.
Qed.

(* after any history, the outcome of the next statement is the pure outcome, and the state it leaves is the pure state *)
Lemma outcome_pure : forall c o, cow c = true -> good o -> forall ops op,
  let r := op_step c o (run c o ops) op in
  let pr := p_op_step (run_pure ops) op in
  OutcomeAbs c (sheap (fst r)) (snd r) (snd pr) /\ AbsState c (fst r) (fst pr).
Proof.
  intros c o Hc Hg ops op r pr.
  pose proof (refinement c o Hc Hg ops) as HS. unfold AbsState in HS.
  subst r pr. destruct (run c o ops) as [h s] eqn:Est. simpl in HS.
  destruct (op_step_sim c o Hc Hg op h s (run_pure ops) HS) as (_ & HS1 & HST & _).
  split; [apply StatR_OutcomeAbs; exact HST|exact HS1].
Qed.

(* two machines with any thresholds and any (good) capacity oracles: same readings of every binding after any history *)
Lemma threshold_independent_reads : forall c1 o1 c2 o2, cow c1 = true -> good o1 -> cow c2 = true -> good o2 ->
  forall ops y p, reads c1 (run c1 o1 ops) y p <-> reads c2 (run c2 o2 ops) y p.
Proof.
  intros c1 o1 c2 o2 H1 G1 H2 G2 ops y p.
  rewrite (reads_pure c1 o1 H1 G1 ops y p), (reads_pure c2 o2 H2 G2 ops y p). reflexivity.
Qed.

(* ... and the same outcome of the next statement: both abstract to one pure outcome (which is unique) *)
Lemma threshold_independent_outcome : forall c1 o1 c2 o2, cow c1 = true -> good o1 -> cow c2 = true -> good o2 ->
  forall ops op,
  let r1 := op_step c1 o1 (run c1 o1 ops) op in
  let r2 := op_step c2 o2 (run c2 o2 ops) op in
  exists q : pstatus, OutcomeAbs c1 (sheap (fst r1)) (snd r1) q /\ OutcomeAbs c2 (sheap (fst r2)) (snd r2) q /\
    forall q', (OutcomeAbs c1 (sheap (fst r1)) (snd r1) q' \/ OutcomeAbs c2 (sheap (fst r2)) (snd r2) q') -> q' = q.
Proof.
  intros c1 o1 c2 o2 H1 G1 H2 G2 ops op r1 r2.
  destruct (outcome_pure c1 o1 H1 G1 ops op) as [A1 _]. destruct (outcome_pure c2 o2 H2 G2 ops op) as [A2 _].
  exists (snd (p_op_step (run_pure ops) op)). split; [exact A1|]. split; [exact A2|].
  intros q' [H|H]; eapply OutcomeAbs_fun; eauto.
Qed.

(* whether a statement fails cannot depend on the sizes either *)
Definition status_kind (a : status) : nat :=
  match a with Done (RV _) => 0 | Done (RB _) => 1 | Failed => 2 | OutDom => 3 | IsStuck => 4 end.

Lemma threshold_independent_failure : forall c1 o1 c2 o2, cow c1 = true -> good o1 -> cow c2 = true -> good o2 ->
  forall ops op,
  status_kind (snd (op_step c1 o1 (run c1 o1 ops) op)) = status_kind (snd (op_step c2 o2 (run c2 o2 ops) op)).
Proof.
  intros c1 o1 c2 o2 H1 G1 H2 G2 ops op.
  destruct (outcome_pure c1 o1 H1 G1 ops op) as [A1 _]. destruct (outcome_pure c2 o2 H2 G2 ops op) as [A2 _].
  destruct (snd (op_step c1 o1 (run c1 o1 ops) op)) as [[v|x]| | |],
           (snd (op_step c2 o2 (run c2 o2 ops) op)) as [[v'|x']| | |],
           (snd (p_op_step (run_pure ops) op)) as [[p|y]| | |]; simpl in *; try contradiction; reflexivity.
Qed.
