(* Lemmas about model/Modify.v (ast.Modify) and the register rewrite of model/Registers.v. *)
From Coq Require Import List ZArith NArith Bool Arith Lia.
From GrolGen Require Import Gen_Consts.
From GrolModel Require Import Ast Modify Registers.
Import ListNotations.

(* ---------- induction on syntax trees (nested option / list / pairs) ---------- *)
Definition OptP (P : node -> Prop) (o : option node) : Prop :=
  match o with None => True | Some c => P c end.
Definition ListP (P : node -> Prop) (l : list (option node)) : Prop := Forall (OptP P) l.
Definition SliceP (P : node -> Prop) (o : option (list (option node))) : Prop :=
  match o with None => True | Some l => ListP P l end.
Definition PairsP (P : node -> Prop) (l : list (option node * option node)) : Prop :=
  Forall (fun kv => OptP P (fst kv) /\ OptP P (snd kv)) l.

Section NodeInd.
  Variable P : node -> Prop.
  Hypothesis H_ident : forall t, P (NIdent t).
  Hypothesis H_int : forall t v, P (NInt t v).
  Hypothesis H_float : forall t b, P (NFloat t b).
  Hypothesis H_string : forall t, P (NString t).
  Hypothesis H_bool : forall t v, P (NBool t v).
  Hypothesis H_comment : forall t a b, P (NComment t a b).
  Hypothesis H_control : forall t, P (NControl t).
  Hypothesis H_return : forall t v, OptP P v -> P (NReturn t v).
  Hypothesis H_stmts : forall l, ListP P l -> P (NStmts l).
  Hypothesis H_prefix : forall t r, OptP P r -> P (NPrefix t r).
  Hypothesis H_postfix : forall t p, P (NPostfix t p).
  Hypothesis H_infix : forall t l r, OptP P l -> OptP P r -> P (NInfix t l r).
  Hypothesis H_for : forall t c b, OptP P c -> OptP P b -> P (NFor t c b).
  Hypothesis H_if : forall t c a b, OptP P c -> OptP P a -> OptP P b -> P (NIf t c a b).
  Hypothesis H_builtin : forall t ps, SliceP P ps -> P (NBuiltin t ps).
  Hypothesis H_func : forall t nm ps b v lam, SliceP P ps -> OptP P b -> P (NFunc t nm ps b v lam).
  Hypothesis H_call : forall t fn args, OptP P fn -> SliceP P args -> P (NCall t fn args).
  Hypothesis H_array : forall t e, SliceP P e -> P (NArray t e).
  Hypothesis H_index : forall t l i, OptP P l -> OptP P i -> P (NIndex t l i).
  Hypothesis H_map : forall t l, PairsP P l -> P (NMap t l).
  Hypothesis H_macro : forall t ps b, SliceP P ps -> OptP P b -> P (NMacro t ps b).

  Definition opt_ind (rec : forall n, P n) (o : option node) : OptP P o :=
    match o with None => I | Some c => rec c end.
  Definition list_ind_ (rec : forall n, P n) : forall l, ListP P l :=
    fix go (l : list (option node)) : ListP P l :=
      match l with
      | [] => Forall_nil _
      | o :: tl => Forall_cons o (opt_ind rec o) (go tl)
      end.
  Definition slice_ind (rec : forall n, P n) (o : option (list (option node))) : SliceP P o :=
    match o with None => I | Some l => list_ind_ rec l end.
  Definition pairs_ind (rec : forall n, P n) : forall l, PairsP P l :=
    fix go (l : list (option node * option node)) : PairsP P l :=
      match l with
      | [] => Forall_nil _
      | kv :: tl => Forall_cons kv (conj (opt_ind rec (fst kv)) (opt_ind rec (snd kv))) (go tl)
      end.

  Fixpoint node_ind' (n : node) : P n :=
    match n with
    | NIdent t => H_ident t
    | NInt t v => H_int t v
    | NFloat t b => H_float t b
    | NString t => H_string t
    | NBool t v => H_bool t v
    | NComment t a b => H_comment t a b
    | NControl t => H_control t
    | NReturn t v => H_return t v (opt_ind node_ind' v)
    | NStmts l => H_stmts l (list_ind_ node_ind' l)
    | NPrefix t r => H_prefix t r (opt_ind node_ind' r)
    | NPostfix t p => H_postfix t p
    | NInfix t l r => H_infix t l r (opt_ind node_ind' l) (opt_ind node_ind' r)
    | NFor t c b => H_for t c b (opt_ind node_ind' c) (opt_ind node_ind' b)
    | NIf t c a b => H_if t c a b (opt_ind node_ind' c) (opt_ind node_ind' a) (opt_ind node_ind' b)
    | NBuiltin t ps => H_builtin t ps (slice_ind node_ind' ps)
    | NFunc t nm ps b v lam => H_func t nm ps b v lam (slice_ind node_ind' ps) (opt_ind node_ind' b)
    | NCall t fn args => H_call t fn args (opt_ind node_ind' fn) (slice_ind node_ind' args)
    | NArray t e => H_array t e (slice_ind node_ind' e)
    | NIndex t l i => H_index t l i (opt_ind node_ind' l) (opt_ind node_ind' i)
    | NMap t l => H_map t l (pairs_ind node_ind' l)
    | NMacro t ps b => H_macro t ps b (slice_ind node_ind' ps) (opt_ind node_ind' b)
    end.
End NodeInd.

(* ---------- the register rewrite meets its specification ---------- *)
Section Spec.
  Variable name : bytes.

  Let rec_ := modify_gen (same_reg name) (modify_register_cb name).
  Let spec (n : node) : res node :=
    if bails name n then RBail else ROk (subst_reg name n).
  Let Q (n : node) : Prop := wf_node n = true -> rec_ n = spec n.

  Lemma subst_is_stmts : forall c, is_stmts c = true -> is_stmts (subst_reg name c) = true.
  Proof. destruct c; simpl; intros; auto; discriminate. Qed.

  Lemma reg_node_not_identifier : is_identifier (reg_node name) = false.
  Proof. reflexivity. Qed.

  Lemma subst_is_identifier : forall c,
    is_identifier (subst_reg name c) = is_identifier c && negb (is_ident_of name c).
  Proof.
    destruct c; simpl; try reflexivity.
    destruct (negb (ttype t =? token_REGISTER)%Z && bytes_eqb (tlit t) name) eqn:E.
    - rewrite reg_node_not_identifier.
      apply andb_prop in E as [E1 _]. unfold is_identifier, is_register_node. rewrite E1. reflexivity.
    - unfold is_identifier, is_register_node.
      destruct (ttype t =? token_REGISTER)%Z; simpl; auto.
  Qed.

  Lemma subst_is_reg_of : forall c,
    is_reg_of name (subst_reg name c) = is_ident_of name c || is_reg_of name c.
  Proof.
    destruct c; simpl; try reflexivity.
    destruct (negb (ttype t =? token_REGISTER)%Z && bytes_eqb (tlit t) name) eqn:E; simpl.
    - apply andb_prop in E as [_ E2].
      replace (token_REGISTER =? token_REGISTER)%Z with true by reflexivity.
      simpl. assert (forall b, bytes_eqb b b = true) as Hr
        by (induction b; simpl; auto; rewrite N.eqb_refl; auto).
      apply Hr.
    - reflexivity.
  Qed.

  Lemma L_child : forall o, OptP Q o -> fold_opt (wf_node) true o = true ->
    mchild rec_ o = if fold_opt (bails name) false o then RBail
                    else ROk (option_map (subst_reg name) o).
  Proof.
    destruct o as [c|]; simpl; intros HQ Hwf; [|reflexivity].
    rewrite (HQ Hwf). unfold spec. destruct (bails name c); reflexivity.
  Qed.

  Lemma L_body : forall o, OptP Q o -> wf_body wf_node o = true ->
    mbody rec_ o = if fold_opt (bails name) false o then RBail
                   else ROk (option_map (subst_reg name) o).
  Proof.
    destruct o as [c|]; simpl; intros HQ Hwf; [|discriminate].
    apply andb_prop in Hwf as [Hs Hw].
    rewrite (HQ Hw). unfold spec. destruct (bails name c); simpl; [reflexivity|].
    rewrite (subst_is_stmts c Hs). reflexivity.
  Qed.

  Lemma L_list : forall l, ListP Q l -> all_list wf_node l = true ->
    mlist (mchild rec_) l = if any_list (bails name) l then RBail
                            else ROk (map (option_map (subst_reg name)) l).
  Proof.
    induction 1 as [|o l Ho Hl IH]; simpl; intros Hwf; [reflexivity|].
    apply andb_prop in Hwf as [Hw1 Hw2].
    rewrite (L_child o Ho Hw1).
    destruct (fold_opt (bails name) false o); simpl; [reflexivity|].
    rewrite (IH Hw2). destruct (any_list (bails name) l); reflexivity.
  Qed.

  Lemma L_slice : forall o, SliceP Q o -> all_slice wf_node o = true ->
    mslice (mchild rec_) o = if any_slice (bails name) o then RBail
                             else ROk (subst_slice (subst_reg name) o).
  Proof.
    destruct o as [l|]; simpl; intros HQ Hwf; [|reflexivity].
    rewrite (L_list l HQ Hwf). destruct (any_list (bails name) l); reflexivity.
  Qed.

  Lemma L_pairs : forall l, PairsP Q l -> all_pairs wf_node l = true ->
    mpairs rec_ l = if any_pairs (bails name) l then RBail
                    else ROk (map (fun kv => (option_map (subst_reg name) (fst kv),
                                              option_map (subst_reg name) (snd kv))) l).
  Proof.
    induction 1 as [|kv l [Hk Hv] Hl IH]; simpl; intros Hwf; [reflexivity|].
    apply andb_prop in Hwf as [Hw12 Hw3]. apply andb_prop in Hw12 as [Hw1 Hw2].
    rewrite (L_child _ Hk Hw1).
    destruct (fold_opt (bails name) false (fst kv)); simpl; [reflexivity|].
    rewrite (L_child _ Hv Hw2).
    destruct (fold_opt (bails name) false (snd kv)); simpl; [reflexivity|].
    rewrite (IH Hw3). destruct (any_pairs (bails name) l); reflexivity.
  Qed.

  Lemma L_params : forall l, ListP Q l -> all_list wf_node l = true ->
    mlist (mparam rec_) l = if existsb (param_gives_up name (bails name)) l then RBail
                            else ROk (map (option_map (subst_reg name)) l).
  Proof.
    induction 1 as [|o l Ho Hl IH]; simpl; intros Hwf; [reflexivity|].
    apply andb_prop in Hwf as [Hw1 Hw2].
    destruct o as [c|]; simpl; [|reflexivity].
    simpl in Ho, Hw1. rewrite (Ho Hw1). unfold spec.
    destruct (bails name c); simpl; [reflexivity|].
    rewrite subst_is_identifier.
    destruct (is_identifier c); simpl; [|reflexivity].
    destruct (is_ident_of name c); simpl; [reflexivity|].
    rewrite (IH Hw2). destruct (existsb (param_gives_up name (bails name)) l); reflexivity.
  Qed.

  Lemma L_pslice : forall o, SliceP Q o -> all_slice wf_node o = true ->
    mslice (mparam rec_) o = if any_params name (bails name) o then RBail
                             else ROk (subst_slice (subst_reg name) o).
  Proof.
    destruct o as [l|]; simpl; intros HQ Hwf; [|reflexivity].
    rewrite (L_params l HQ Hwf).
    destruct (existsb (param_gives_up name (bails name)) l); reflexivity.
  Qed.

  Lemma count_keys_map_snd : forall p (g : option node * option node -> option node) l,
    count_keys p (map (fun kv => (fst kv, g kv)) l) = count_keys p l.
  Proof.
    intros p g l. unfold count_keys.
    induction l as [|kv tl IH]; simpl; [reflexivity|].
    destruct (p (fst kv)); simpl; rewrite IH; reflexivity.
  Qed.

  Lemma count_keys_alias : forall p l,
    count_keys p (alias_pairs (same_reg name) l) = count_keys p l.
  Proof. intros p l. unfold alias_pairs. apply count_keys_map_snd. Qed.

  Lemma dup_keys_alias : forall l,
    dup_keys name (alias_pairs (same_reg name) l) = dup_keys name l.
  Proof. intros l. unfold dup_keys. rewrite !count_keys_alias. reflexivity. Qed.

  Ltac split_wf H :=
    repeat match type of H with
           | (_ && _) = true => let H1 := fresh "Hw" in let H2 := fresh "Hw" in
                                 apply andb_prop in H as [H1 H2]; try split_wf H1; try split_wf H2
           end.

  Lemma rewrite_meets_spec : forall n, Q n.
  Proof.
    induction n using node_ind'; unfold Q; intros Hwf; unfold rec_, spec; simpl; simpl in Hwf;
      fold rec_.
    - (* ident *) destruct (negb (ttype t =? token_REGISTER)%Z && bytes_eqb (tlit t) name); reflexivity.
    - reflexivity.
    - reflexivity.
    - reflexivity.
    - reflexivity.
    - reflexivity.
    - reflexivity.
    - (* return *)
      rewrite (L_child v H Hwf). destruct (fold_opt (bails name) false v); reflexivity.
    - (* stmts *)
      unfold mchildren. rewrite (L_list l H Hwf). destruct (any_list (bails name) l); reflexivity.
    - (* prefix *)
      rewrite (L_child r H Hwf).
      destruct r as [c|]; simpl.
      + destruct (bails name c); simpl; [reflexivity|].
        rewrite subst_is_reg_of.
        destruct (is_incdec t && (is_ident_of name c || is_reg_of name c)); reflexivity.
      + rewrite andb_false_r. reflexivity.
    - (* postfix *) destruct (bytes_eqb (tlit p) name); reflexivity.
    - (* infix *)
      apply andb_prop in Hwf as [Hw1 Hw2].
      rewrite (L_child l H Hw1). destruct (fold_opt (bails name) false l); simpl; [reflexivity|].
      rewrite (L_child r H0 Hw2). destruct (fold_opt (bails name) false r); reflexivity.
    - (* for *)
      apply andb_prop in Hwf as [Hw1 Hw2].
      rewrite (L_child c H Hw1). destruct (fold_opt (bails name) false c); simpl; [reflexivity|].
      rewrite (L_body b H0 Hw2). destruct (fold_opt (bails name) false b); reflexivity.
    - (* if *)
      apply andb_prop in Hwf as [Hw12 Hw3]. apply andb_prop in Hw12 as [Hw1 Hw2].
      rewrite (L_child c H Hw1). destruct (fold_opt (bails name) false c); simpl; [reflexivity|].
      rewrite (L_body a H0 Hw2). destruct (fold_opt (bails name) false a); simpl; [reflexivity|].
      destruct b as [bb|]; [|reflexivity].
      rewrite (L_body (Some bb) H1 Hw3). simpl. destruct (bails name bb); reflexivity.
    - (* builtin *)
      rewrite (L_slice ps H Hwf). destruct (any_slice (bails name) ps); simpl; [reflexivity|].
      replace (builtin_gives_up (is_reg_of name) t (subst_slice (subst_reg name) ps))
        with (builtin_gives_up (fun c => is_ident_of name c || is_reg_of name c) t ps).
      + destruct (builtin_gives_up _ t ps); reflexivity.
      + unfold builtin_gives_up. f_equal. f_equal.
        destruct ps as [[|[c|] tl]|]; simpl; try reflexivity.
        symmetry. apply subst_is_reg_of.
    - (* func: always gives up *)
      apply andb_prop in Hwf as [Hw1 Hw2].
      rewrite (L_pslice ps H Hw1). destruct (any_params name (bails name) ps); simpl; [reflexivity|].
      rewrite (L_body b H0 Hw2). destruct (fold_opt (bails name) false b); reflexivity.
    - (* call *)
      apply andb_prop in Hwf as [Hw1 Hw2].
      rewrite (L_child fn H Hw1). destruct (fold_opt (bails name) false fn); simpl; [reflexivity|].
      rewrite (L_slice args H0 Hw2). destruct (any_slice (bails name) args); simpl; [reflexivity|].
      destruct fn as [c|]; simpl; [|reflexivity].
      rewrite subst_is_reg_of.
      destruct (is_ident_of name c || is_reg_of name c); reflexivity.
    - (* array *)
      rewrite (L_slice e H Hwf). destruct (any_slice (bails name) e); reflexivity.
    - (* index *)
      apply andb_prop in Hwf as [Hw1 Hw2].
      rewrite (L_child l H Hw1). destruct (fold_opt (bails name) false l); simpl; [reflexivity|].
      rewrite (L_child i H0 Hw2). destruct (fold_opt (bails name) false i); reflexivity.
    - (* map *)
      rewrite (L_pairs l H Hwf). destruct (any_pairs (bails name) l); simpl; [reflexivity|].
      rewrite dup_keys_alias.
      destruct (dup_keys name _); reflexivity.
    - (* macro *)
      apply andb_prop in Hwf as [Hw1 Hw2].
      rewrite (L_pslice ps H Hw1). destruct (any_params name (bails name) ps); simpl; [reflexivity|].
      rewrite (L_body b H0 Hw2). destruct (fold_opt (bails name) false b); reflexivity.
  Qed.
End Spec.

(* the rewrite = the specification: on every tree ast.Modify cannot panic on, ModifyRegister
   answers ok=false exactly when [bails] (a function literal, x++ / x--, ++x / --x, or a macro
   parameter of that name, at a position ast.Modify visits) and otherwise returns the tree in
   which exactly the visited identifiers of that name are replaced by the register *)
Theorem modify_register_spec_lemma : forall (name : bytes) (n : node),
  wf_node n = true ->
  modify_register name n = if bails name n then RBail else ROk (subst_reg name n).
Proof. intros name n H. exact (rewrite_meets_spec name n H). Qed.

