(* C13: ast.Modify is a plain bottom-up rewrite on well-formed trees; macro expansion is substitution. *)
From Coq Require Import List ZArith NArith Bool Lia.
From GrolGen Require Import Gen_Consts.
From GrolModel Require Import Ast Modify Macro MacroSpec.
From GrolProofs Require Import Ast_ind.
Import ListNotations.

Section ModifyIsBu.
Variable g : node -> node.
Hypothesis g_stmts : forall l, is_stmts (g (NStmts l)) = true.
Hypothesis g_ident : forall t, Z.eqb (ttype t) token_REGISTER = false -> is_identifier (g (NIdent t)) = true.

Variable f : node -> res node.
Hypothesis f_ok : forall n, f n = ROk (g n).
Let same : node -> node -> bool := fun _ _ => false.
Let M := modify_gen same f.

Definition Q (n : node) : Prop := modifiable n = true -> M n = ROk (bu g n).

Lemma mchild_ok o : Po Q o -> mo_with modifiable o = true -> mchild M o = ROk (bo_with (bu g) o).
Proof. destruct o as [m|]; simpl; intros H Hm; [rewrite (H Hm)|]; reflexivity. Qed.

Lemma mchildren_ok l : Pl Q l -> ml_with modifiable l = true -> mchildren M l = ROk (bl_with (bu g) l).
Proof.
  induction 1 as [|x l Hx _ IH]; simpl; intros Hm; [reflexivity|].
  apply andb_true_iff in Hm as [H1 H2]. unfold mchildren in *. simpl.
  rewrite (mchild_ok x Hx H1). simpl. rewrite (IH H2). reflexivity.
Qed.

Lemma mslice_ok o : Pol Q o -> ms_with modifiable o = true ->
  mslice (mchild M) o = ROk (bs_with (bu g) o).
Proof.
  destruct o as [l|]; simpl; intros H Hm; [|reflexivity].
  pose proof (mchildren_ok l H Hm) as E. unfold mchildren in E. rewrite E. reflexivity.
Qed.

Lemma mbody_ok o : Po Q o -> mb_with modifiable o = true -> mbody M o = ROk (bo_with (bu g) o).
Proof.
  destruct o as [m|]; simpl; [|discriminate]. destruct m; try discriminate. intros H Hm.
  assert (Hm' : modifiable (NStmts l) = true) by exact Hm.
  rewrite (H Hm'). simpl. rewrite g_stmts. reflexivity.
Qed.

Lemma mparam_ident t : Z.eqb (ttype t) token_REGISTER = false ->
  mparam M (Some (NIdent t)) = ROk (Some (g (NIdent t))).
Proof.
  intros H. unfold mparam, M. simpl. rewrite f_ok. simpl. rewrite (g_ident t H). reflexivity.
Qed.

Lemma mparams_ok l : mpar_with l = true -> mparams M l = ROk (bl_with (bu g) l).
Proof.
  induction l as [|x l IH]; simpl; intros Hm; [reflexivity|].
  destruct x as [[t| | | | | | | | | | | | | | | | | | | |]|]; try discriminate.
  apply andb_true_iff in Hm as [H1 H2]. apply negb_true_iff in H1.
  change (mparams M (Some (NIdent t) :: l))
    with (rbind (mparam M (Some (NIdent t))) (fun o' => rbind (mparams M l) (fun tl' => ROk (o' :: tl')))).
  rewrite (mparam_ident t H1). simpl. rewrite (IH H2). reflexivity.
Qed.

Lemma mparams_slice_ok o : mpars_with o = true -> mslice (mparam M) o = ROk (bs_with (bu g) o).
Proof.
  destruct o as [l|]; simpl; intros Hm; [|reflexivity].
  pose proof (mparams_ok l Hm) as E. unfold mparams in E. rewrite E. reflexivity.
Qed.

Lemma last_value_nosame k d l : (exists k', k = Some k') -> last_value same k d l = d.
Proof.
  intros [k' ->]. revert d. induction l as [|kv l IH]; intros d; simpl; [reflexivity|].
  destruct (fst kv); simpl; apply IH.
Qed.

Lemma alias_pairs_id l : Forall (fun kv => exists k', fst kv = Some k') l -> alias_pairs same l = l.
Proof.
  intros H. unfold alias_pairs.
  assert (G : forall l0, Forall (fun kv => exists k', fst kv = Some k') l0 ->
                         map (fun kv => (fst kv, last_value same (fst kv) (snd kv) l)) l0 = l0).
  { induction 1 as [|kv l0 Hk _ IH]; simpl; [reflexivity|].
    rewrite (last_value_nosame _ _ _ Hk), IH. destruct kv; reflexivity. }
  apply G, H.
Qed.

Lemma mpairs_ok l : Pp Q l -> mp_with modifiable l = true ->
  mpairs M l = ROk (bp_with (bu g) l) /\ Forall (fun kv => exists k', fst kv = Some k') (bp_with (bu g) l).
Proof.
  induction 1 as [|[k v] l [Hk Hv] _ IH]; intros Hm; [split; [reflexivity|constructor]|].
  destruct k as [k|]; [|discriminate].
  simpl in Hm. apply andb_true_iff in Hm as [Hm H3]. apply andb_true_iff in Hm as [H1 H2].
  change (mpairs M ((Some k, v) :: l))
    with (rbind (mchild M (Some k)) (fun k' => rbind (mchild M v) (fun v' =>
          rbind (mpairs M l) (fun tl' => ROk ((k', v') :: tl'))))).
  rewrite (mchild_ok (Some k) Hk H1). cbn [rbind].
  rewrite (mchild_ok v Hv H2). cbn [rbind].
  destruct (IH H3) as [E F]. rewrite E. cbn [rbind bp_with]. split; [reflexivity|].
  constructor; [simpl; eauto|exact F].
Qed.

Theorem modify_is_bu : forall n, Q n.
Proof.
  induction n using node_ind2; intros Hm; try (unfold M; simpl; apply f_ok).
  - (* return *) simpl in Hm. unfold M. simpl. fold M. rewrite (mchild_ok v H Hm). simpl. apply f_ok.
  - (* stmts *) simpl in Hm. unfold M. simpl. fold M. rewrite (mchildren_ok l H Hm). simpl. apply f_ok.
  - (* prefix *) simpl in Hm. unfold M. simpl. fold M. rewrite (mchild_ok r H Hm). simpl. apply f_ok.
  - (* infix *) simpl in Hm. apply andb_true_iff in Hm as [H1 H2]. unfold M. simpl. fold M.
    rewrite (mchild_ok l H H1). simpl. rewrite (mchild_ok r H0 H2). simpl. apply f_ok.
  - (* for *) simpl in Hm. apply andb_true_iff in Hm as [H1 H2]. unfold M. simpl. fold M.
    rewrite (mchild_ok c H H1). simpl. rewrite (mbody_ok b H0 H2). simpl. apply f_ok.
  - (* if *) simpl in Hm. apply andb_true_iff in Hm as [Hm H3]. apply andb_true_iff in Hm as [H1' H2'].
    unfold M. simpl. fold M. rewrite (mchild_ok c H H1'). simpl. rewrite (mbody_ok a H0 H2'). simpl.
    destruct b as [b|]; [|apply f_ok]. rewrite (mbody_ok (Some b) H1 H3). simpl. apply f_ok.
  - (* builtin *) simpl in Hm. unfold M. simpl. fold M. rewrite (mslice_ok ps H Hm). simpl. apply f_ok.
  - (* func *) simpl in Hm. apply andb_true_iff in Hm as [H1 H2]. unfold M. simpl. fold M.
    rewrite (mparams_slice_ok ps H1). simpl. rewrite (mbody_ok b H0 H2). simpl. apply f_ok.
  - (* call *) simpl in Hm. apply andb_true_iff in Hm as [H1 H2]. unfold M. simpl. fold M.
    rewrite (mchild_ok f0 H H1). simpl. rewrite (mslice_ok a H0 H2). simpl. apply f_ok.
  - (* array *) simpl in Hm. unfold M. simpl. fold M. rewrite (mslice_ok e H Hm). simpl. apply f_ok.
  - (* index *) simpl in Hm. apply andb_true_iff in Hm as [H1 H2]. unfold M. simpl. fold M.
    rewrite (mchild_ok l H H1). simpl. rewrite (mchild_ok i H0 H2). simpl. apply f_ok.
  - (* map *) simpl in Hm. unfold M. simpl. fold M. destruct (mpairs_ok ps H Hm) as [E F].
    rewrite E. simpl. rewrite (alias_pairs_id _ F). simpl. apply f_ok.
  - (* macro *) simpl in Hm. apply andb_true_iff in Hm as [H1 H2]. unfold M. simpl. fold M.
    rewrite (mparams_slice_ok ps H1). simpl. rewrite (mbody_ok b H0 H2). simpl. apply f_ok.
Qed.
End ModifyIsBu.

(* ---- templates: quote(T) with its unquotes replaced = the bottom-up substitution ---- *)
Lemma unquote_cb_stmts e sigma l : is_stmts (unquote_cb e sigma (NStmts l)) = true.
Proof. reflexivity. Qed.

Lemma unquote_cb_ident e sigma t : Z.eqb (ttype t) token_REGISTER = false ->
  is_identifier (unquote_cb e sigma (NIdent t)) = true.
Proof. intros H. unfold unquote_cb; simpl. unfold is_identifier, is_register_node. rewrite H. reflexivity. Qed.

Theorem template_is_subst e sigma T : modifiable T = true ->
  modify_no_ok (unquote_cb e sigma) T = Some (subst_template e sigma T).
Proof.
  intros Hm. unfold modify_no_ok, modify.
  rewrite (modify_is_bu (unquote_cb e sigma) (unquote_cb_stmts e sigma) (unquote_cb_ident e sigma)
             (lift_cb (fun x => Some (unquote_cb e sigma x))) (fun n => eq_refl) T Hm).
  reflexivity.
Qed.

(* ---- one call ---- *)
Lemma mlookup_ok e name m : env_ok e = true -> mlookup e name = Some m -> macro_ok m = true.
Proof.
  induction e as [|[k m'] e IH]; simpl; [discriminate|]. intros H. apply andb_true_iff in H as [H1 H2].
  destruct (beq k name); [intros [= <-]; exact H1|apply IH, H2].
Qed.

Lemma expand_call_some e m args : macro_ok m = true -> exists n, expand_call e m args = Some n.
Proof.
  unfold macro_ok, expand_call. destruct (template_of m) as [T|]; [|discriminate]. intros HT.
  destruct (negb _); [eauto|]. rewrite (template_is_subst _ _ T HT). eauto.
Qed.

Lemma expand_cb_total e n : env_ok e = true -> expand_cb e n = Some (expand_rule e n).
Proof.
  intros He. unfold expand_rule. destruct (expand_cb e n) eqn:E; [reflexivity|].
  unfold expand_cb in E. destruct n; try discriminate. destruct fn as [[]|]; try discriminate.
  destruct (mlookup e (tlit t0)) as [m|] eqn:L; [|discriminate].
  destruct (expand_call_some e m args (mlookup_ok _ _ _ He L)) as [x Hx]. congruence.
Qed.

Lemma expand_rule_stmts e l : is_stmts (expand_rule e (NStmts l)) = true.
Proof. reflexivity. Qed.

Lemma expand_rule_ident e t : Z.eqb (ttype t) token_REGISTER = false ->
  is_identifier (expand_rule e (NIdent t)) = true.
Proof. intros H. unfold expand_rule; simpl. unfold is_identifier, is_register_node. rewrite H. reflexivity. Qed.

(* ---- programs: every macro call, wherever it occurs, is replaced bottom-up ---- *)
Lemma lift_expand_cb e : env_ok e = true -> forall n, lift_cb (expand_cb e) n = ROk (expand_rule e n).
Proof. intros He n. unfold lift_cb. rewrite (expand_cb_total e n He). reflexivity. Qed.

Theorem expansion_is_bu e program : env_ok e = true -> modifiable program = true ->
  expand_macros e program = Some (expand_spec e program).
Proof.
  intros He Hm. unfold expand_macros, modify.
  rewrite (modify_is_bu (expand_rule e) (expand_rule_stmts e) (expand_rule_ident e)
             (lift_cb (expand_cb e)) (lift_expand_cb e He) program Hm).
  reflexivity.
Qed.

(* the rule applied at a call site: the template with each unquote(parameter) replaced by the
   corresponding (already rewritten) argument tree *)
Theorem call_site_rule e ft t args m T :
  mlookup e (tlit ft) = Some m -> template_of m = Some T -> modifiable T = true ->
  List.length (match args with Some l => l | None => [] end)
    = List.length (match m_params m with Some l => l | None => [] end) ->
  expand_rule e (NCall t (Some (NIdent ft)) args)
  = subst_template e (bind_params (match m_params m with Some l => l | None => [] end)
                                  (match args with Some l => l | None => [] end) []) T.
Proof.
  intros Hl HT Hm Hlen. unfold expand_rule, expand_cb. rewrite Hl. unfold expand_call. rewrite HT.
  rewrite Hlen, Nat.eqb_refl. simpl. rewrite (template_is_subst _ _ T Hm). reflexivity.
Qed.

(* the definition is not altered by its uses: the macro environment after an input depends on the
   definitions of that input only *)
Theorem definitions_unchanged_by_uses stmts e :
  snd (define_and_expand stmts e) = snd (define_macros stmts e).
Proof.
  unfold define_and_expand. destruct (define_macros stmts e) as [rest e']. simpl.
  destruct e'; [reflexivity|]. destruct (expand_macros _ _) as [[]|]; reflexivity.
Qed.

(* separate call sites expand independently: the expansion of a sequence of statements is the sequence of the expansions
   of each statement on its own - nothing an earlier or later statement contains (another call of the same macro, a call
   of another one) enters it; likewise for the two operands of an operator and the elements of a call's argument list *)
Lemma bl_with_app (rec : node -> node) l1 l2 : bl_with rec (l1 ++ l2) = bl_with rec l1 ++ bl_with rec l2.
Proof. induction l1 as [|x l1 IH]; simpl; [reflexivity|]. rewrite IH. reflexivity. Qed.

Theorem statements_expand_independently e l1 l2 :
  expand_spec e (NStmts (l1 ++ l2)) = NStmts (bl_with (expand_spec e) l1 ++ bl_with (expand_spec e) l2).
Proof. unfold expand_spec. cbn [bu]. rewrite bl_with_app. reflexivity. Qed.

Theorem statement_expansion_is_local e l1 s l2 :
  expand_spec e (NStmts (l1 ++ Some s :: l2))
  = NStmts (bl_with (expand_spec e) l1 ++ Some (expand_spec e s) :: bl_with (expand_spec e) l2).
Proof. rewrite statements_expand_independently. reflexivity. Qed.

Theorem operands_expand_independently e t a b :
  expand_spec e (NInfix t (Some a) (Some b)) = NInfix t (Some (expand_spec e a)) (Some (expand_spec e b)).
Proof. reflexivity. Qed.

(* two call sites of the same macro with the same arguments expand to the same tree, wherever they are *)
Theorem same_call_same_expansion e c l1 l2 l3 :
  exists x, expand_spec e (NStmts (l1 ++ Some c :: l2 ++ Some c :: l3))
            = NStmts (bl_with (expand_spec e) l1 ++ Some x :: bl_with (expand_spec e) l2 ++ Some x :: bl_with (expand_spec e) l3).
Proof.
  exists (expand_spec e c). rewrite statement_expansion_is_local. f_equal. f_equal. f_equal.
  change (Some c :: l3) with ([Some c] ++ l3). rewrite !bl_with_app. reflexivity.
Qed.
