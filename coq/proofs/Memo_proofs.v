(* Memo_proofs.v - lemmas about the memoization model (coq/model/Memo.v) for property C04. *)
From Coq Require Import List ZArith NArith Bool Arith Lia.
From GrolGen Require Import Gen_Consts.
From GrolModel Require Import Memo.
Import ListNotations.

(* ================================================================ basic equalities *)
Lemma bytes_eqb_eq : forall a b, bytes_eqb a b = true -> a = b.
Proof.
  induction a as [|x a IH]; destruct b as [|y b]; simpl; intros H; try discriminate; auto.
  apply andb_prop in H. destruct H as [H1 H2]. apply N.eqb_eq in H1. subst. f_equal. auto.
Qed.
Lemma bytes_eqb_refl : forall a, bytes_eqb a a = true.
Proof. induction a; simpl; auto. rewrite N.eqb_refl. auto. Qed.

(* ================================================================ trace predicates *)
(* is there, anywhere below (not looking inside calls whose body did not run), an event that moves a miss
   counter: a DontCache extension, del, or a counted access to an outer binding *)
Fixpoint counting_ev (e : event) : bool :=
  match e with
  | EvAccess _ c => c
  | EvPoison _ => true
  | EvCall _ _ inner _ _ _ _ d =>
      match d with
      | DSetup | DHit => false
      | _ => (fix any (l : list event) : bool := match l with [] => false | x :: l' => counting_ev x || any l' end) inner
      end
  end.
Definition counting_in (tr : list event) : bool := existsb counting_ev tr.

Fixpoint poison_ev (e : event) : bool :=
  match e with
  | EvAccess _ _ => false
  | EvPoison _ => true
  | EvCall _ _ inner _ _ _ _ d =>
      match d with
      | DSetup | DHit => false
      | _ => (fix any (l : list event) : bool := match l with [] => false | x :: l' => poison_ev x || any l' end) inner
      end
  end.
Definition poison_in (tr : list event) : bool := existsb poison_ev tr.

Fixpoint access_ev (e : event) : bool :=
  match e with
  | EvAccess _ c => c
  | EvPoison _ => false
  | EvCall _ _ inner _ _ _ _ d =>
      match d with
      | DSetup | DHit => false
      | _ => (fix any (l : list event) : bool := match l with [] => false | x :: l' => access_ev x || any l' end) inner
      end
  end.
Definition access_in (tr : list event) : bool := existsb access_ev tr.

Lemma counting_ev_call : forall k a inner b af r o d,
  counting_ev (EvCall k a inner b af r o d) =
  match d with DSetup | DHit => false | _ => counting_in inner end.
Proof. intros. simpl. destruct d; auto. Qed.
Lemma poison_ev_call : forall k a inner b af r o d,
  poison_ev (EvCall k a inner b af r o d) =
  match d with DSetup | DHit => false | _ => poison_in inner end.
Proof. intros. simpl. destruct d; auto. Qed.
Lemma access_ev_call : forall k a inner b af r o d,
  access_ev (EvCall k a inner b af r o d) =
  match d with DSetup | DHit => false | _ => access_in inner end.
Proof. intros. simpl. destruct d; auto. Qed.

(* event induction with the nested list *)
Section EventInd.
  Variable P : event -> Prop.
  Hypothesis Hacc : forall x c, P (EvAccess x c).
  Hypothesis Hpoi : forall p, P (EvPoison p).
  Hypothesis Hcall : forall k a inner b af r o d, Forall P inner -> P (EvCall k a inner b af r o d).
  Fixpoint event_ind' (e : event) : P e :=
    match e with
    | EvAccess x c => Hacc x c
    | EvPoison p => Hpoi p
    | EvCall k a inner b af r o d =>
        Hcall k a inner b af r o d
          ((fix go (l : list event) : Forall P l :=
              match l with [] => Forall_nil P | x :: l' => Forall_cons x (event_ind' x) (go l') end) inner)
    end.
End EventInd.

Lemma poison_counting_ev : forall e, poison_ev e = true -> counting_ev e = true.
Proof.
  induction e using event_ind'; [simpl; discriminate | simpl; auto | ].
  rewrite poison_ev_call, counting_ev_call.
  destruct d; auto; unfold poison_in, counting_in; rewrite !existsb_exists; intros [x [Hin Hx]];
    exists x; split; auto; rewrite Forall_forall in H; auto.
Qed.
Lemma access_counting_ev : forall e, access_ev e = true -> counting_ev e = true.
Proof.
  induction e using event_ind'; [simpl; auto | simpl; discriminate | ].
  rewrite access_ev_call, counting_ev_call.
  destruct d; auto; unfold access_in, counting_in; rewrite !existsb_exists; intros [x [Hin Hx]];
    exists x; split; auto; rewrite Forall_forall in H; auto.
Qed.
Lemma poison_counting : forall tr, poison_in tr = true -> counting_in tr = true.
Proof.
  unfold poison_in, counting_in. intros tr. rewrite !existsb_exists. intros [x [H1 H2]].
  exists x. split; auto using poison_counting_ev.
Qed.
Lemma access_counting : forall tr, access_in tr = true -> counting_in tr = true.
Proof.
  unfold access_in, counting_in. intros tr. rewrite !existsb_exists. intros [x [H1 H2]].
  exists x. split; auto using access_counting_ev.
Qed.

(* a property of every call node of a trace, at every depth *)
Definition node_prop := bytes -> list value -> list event -> nat -> nat -> value -> bytes -> disp -> Prop.
Fixpoint node_all (P : node_prop) (e : event) : Prop :=
  match e with
  | EvCall k a inner b af r o d =>
      P k a inner b af r o d /\
      (fix all (l : list event) : Prop := match l with [] => True | x :: l' => node_all P x /\ all l' end) inner
  | _ => True
  end.
Definition trace_all (P : node_prop) (tr : list event) : Prop := Forall (node_all P) tr.

Lemma node_all_call : forall P k a inner b af r o d,
  node_all P (EvCall k a inner b af r o d) <-> P k a inner b af r o d /\ trace_all P inner.
Proof.
  intros. simpl. unfold trace_all.
  assert (H : forall l, (fix all (l : list event) : Prop := match l with [] => True | x :: l' => node_all P x /\ all l' end) l
                        <-> Forall (node_all P) l).
  { induction l; simpl; split; intros; auto.
    - destruct H. constructor; auto. apply IHl; auto.
    - inversion H; subst. split; auto. apply IHl; auto. }
  rewrite H. tauto.
Qed.
Lemma trace_all_app : forall P a b, trace_all P a -> trace_all P b -> trace_all P (a ++ b).
Proof. unfold trace_all. intros. apply Forall_app. auto. Qed.
Lemma trace_all_impl : forall (P Q : node_prop) tr,
  (forall k a inner b af r o d, P k a inner b af r o d -> Q k a inner b af r o d) -> trace_all P tr -> trace_all Q tr.
Proof.
  intros P Q tr HPQ. unfold trace_all.
  assert (H : forall e, node_all P e -> node_all Q e).
  { induction e using event_ind'; [simpl; auto | simpl; auto | ].
    intros HH. apply node_all_call in HH. apply node_all_call. destruct HH as [H1 H2]. split; auto.
    unfold trace_all in *. rewrite Forall_forall in *. intros. auto. }
  intros HF. rewrite Forall_forall in *. auto.
Qed.

(* ================================================================ the node invariant *)
Definition node_ok : node_prop := fun k args inner before after res out d =>
  (d = DStored -> before = after /\ is_err res = false /\ has_function res = false
                  /\ (Z.of_nat (length args) <= eval_MaxArgs)%Z /\ forallb hashable args = true)
  /\ (counting_in inner = true -> d = DMiss \/ d = DSetup)
  /\ (d = DHit -> inner = []).

Definition good (r : res) : Prop :=
  (counting_in (r_tr r) = true -> r_miss r > 0) /\ trace_all node_ok (r_tr r).

Lemma counting_in_single_call : forall k a inner b af r o d,
  counting_in [EvCall k a inner b af r o d] = match d with DSetup | DHit => false | _ => counting_in inner end.
Proof. intros. unfold counting_in at 1. cbn [existsb]. rewrite orb_false_r. apply counting_ev_call. Qed.

Lemma counting_in_app : forall a b, counting_in (a ++ b) = counting_in a || counting_in b.
Proof. intros. unfold counting_in. apply existsb_app. Qed.

Lemma good_then : forall r1 r2, good r1 -> good r2 -> good (then_res r1 r2).
Proof.
  intros r1 r2 [A1 B1] [A2 B2]. split; simpl.
  - rewrite counting_in_app. intros H. apply orb_prop in H. destruct H as [H|H]; [apply A1 in H | apply A2 in H]; lia.
  - apply trace_all_app; auto.
Qed.
Lemma good_with_oc : forall r o b, good r -> good (with_oc r o b).
Proof. intros r o b [A B]. split; simpl; auto. Qed.
Lemma good_val : forall v, good (val_res v).
Proof. intros. split; simpl; [discriminate | constructor]. Qed.
Lemma good_nil : forall o b out lg, good (mkRes o b out lg [] 0).
Proof. intros. split; simpl; [discriminate | constructor]. Qed.
Lemma good_stuck : good stuck_res. Proof. apply good_nil. Qed.
Lemma good_fuel : good fuel_res. Proof. apply good_nil. Qed.
Lemma good_err : good err_res. Proof. apply good_val. Qed.
#[export] Hint Resolve good_then good_with_oc good_val good_nil good_stuck good_fuel good_err : memo.

Lemma good_access1 : forall o b x c, good (mkRes o b [] [] [EvAccess x c] (b2n c)).
Proof.
  intros. split; simpl.
  - rewrite orb_false_r. intros ->. simpl. lia.
  - repeat constructor.
Qed.

(* ---- Get ---- *)
Lemma get_good : forall defs h fr x v isref h' dm evs,
  get defs h fr x = GFound v isref h' dm evs -> good (mkRes (OVal v) isref [] [] evs dm).
Proof.
  unfold get. intros defs h fr x v isref h' dm evs.
  destruct (bytes_eqb x info_name); try discriminate.
  destruct (nth_error h fr) as [f|]; try discriminate.
  destruct (bytes_eqb x self_name).
  { destruct (fr_fn f) as [[d e]|]; try discriminate. intros H; inversion H; subst. apply good_nil. }
  destruct (own_name defs f x).
  { destruct (fr_fn f) as [[d e]|]; try discriminate. intros H; inversion H; subst. apply good_nil. }
  destruct (find_cell (fr_store f) x) as [[v0|x' e']|].
  - intros H; inversion H; subst. apply good_nil.
  - destruct (deref h x' e'); try discriminate. intros H; inversion H; subst. apply good_access1.
  - destruct (fr_outer f); try discriminate.
    destruct (walk (length h) h fr x) as [x' e'| |]; try discriminate.
    destruct (deref h x' e'); try discriminate. intros H; inversion H; subst. apply good_access1.
Qed.

(* a lookup that is not through a reference costs nothing and changes nothing *)
Lemma get_noref : forall defs h fr x v h' dm evs,
  get defs h fr x = GFound v false h' dm evs -> h' = h /\ dm = 0 /\ evs = [].
Proof.
  unfold get. intros defs h fr x v h' dm evs.
  destruct (bytes_eqb x info_name); try discriminate.
  destruct (nth_error h fr) as [f|]; try discriminate.
  destruct (bytes_eqb x self_name).
  { destruct (fr_fn f) as [[d e]|]; try discriminate. intros H; inversion H; subst. auto. }
  destruct (own_name defs f x).
  { destruct (fr_fn f) as [[d e]|]; try discriminate. intros H; inversion H; subst. auto. }
  destruct (find_cell (fr_store f) x) as [[v0|x' e']|].
  - intros H; inversion H; subst. auto.
  - destruct (deref h x' e'); try discriminate.
  - destruct (fr_outer f); try discriminate.
    destruct (walk (length h) h fr x) as [x' e'| |]; try discriminate.
    destruct (deref h x' e'); try discriminate.
Qed.

Lemma set_nochecks_good : forall st fr x v r st', set_nochecks st fr x v = (r, st') -> good r.
Proof.
  unfold set_nochecks. intros st fr x v r st'.
  destruct (nth_error (st_heap st) fr) as [f|]; [|intros H; inversion H; auto with memo].
  destruct (find_cell (fr_store f) x) as [[v0|x' e']|].
  - intros H; inversion H; auto with memo.
  - intros H; inversion H; subst. apply (good_access1 (OVal v) false x true).
  - destruct (fr_outer f); [|intros H; inversion H; auto with memo].
    destruct (walk (length (st_heap st)) (st_heap st) fr x) as [x' e'| |]; intros H; inversion H; auto with memo.
    split; simpl; [intros; lia | repeat constructor].
Qed.

Lemma assign_good : forall defs st fr x v r st', assign defs st fr x v = (r, st') -> good r.
Proof.
  unfold assign. intros defs st fr x v r st'.
  destruct (constant_name x); [|apply set_nochecks_good].
  destruct (get defs (st_heap st) fr x) as [old isref h' dm evs| |] eqn:G.
  - apply get_good in G. destruct G as [GA GB]. simpl in *.
    destruct (isref || negb (value_goeq old v)).
    + intros H; inversion H; subst. split; simpl; auto.
    + destruct (set_nochecks (set_heap st h') fr x v) as [r2 st2] eqn:S. intros H; inversion H; subst.
      apply good_then; [split; simpl; auto | eapply set_nochecks_good; eauto].
  - apply set_nochecks_good.
  - intros H; inversion H; auto with memo.
Qed.

(* the argument list Cache.Set sees after a call holds the same values as before it (only Reference flags change) *)
Lemma call_shape_fst : forall ps args a b c sargs,
  call_shape ps args = Some (a, b, c, sargs) -> map fst sargs = map fst args.
Proof.
  unfold call_shape. intros ps args a b c sargs H.
  destruct (is_variadic ps).
  - destruct (length (spread_last (map fst args)) <? length ps - 1); try discriminate.
    inversion H; subst. clear H.
    assert (E : map fst (firstn (length ps - 1) args ++ map (fun a : value * bool => (fst a, false)) (skipn (length ps - 1) args))
                = map fst args).
    { rewrite map_app, map_map. simpl. rewrite <- map_app, firstn_skipn. auto. }
    destruct (rev (map fst args)) as [|v r]; auto. destruct v; auto.
  - destruct (length (map fst args) =? length ps); inversion H; subst; auto.
Qed.

(* ================================================================ the evaluator keeps the node invariant *)
Section GoodEv.
  Variable ev : state -> nat -> expr -> res * state.
  Hypothesis Hev : forall st fr e r st', ev st fr e = (r, st') -> good r.

  Lemma eval_list_good : forall es st fr r vals st',
    eval_list ev st fr es = (r, vals, st') -> good r.
  Proof.
    induction es as [|e es IH]; simpl; intros st fr r vals st' H.
    - inversion H; auto with memo.
    - destruct (ev st fr e) as [r1 st1] eqn:E1. pose proof (Hev _ _ _ _ _ E1) as G1.
      destruct (r_oc r1) as [v| |]; try (inversion H; subst; auto; fail).
      destruct (is_err v); [inversion H; subst; auto|].
      destruct (eval_list ev st1 fr es) as [[r2 vs] st2] eqn:E2.
      inversion H; subst. apply good_then; eauto.
  Qed.

  (* parameter binding only continues after lookups that cost nothing *)
  Lemma bind_params_ok : forall defs ps vs st n before tr b tr' st',
    bind_params defs st n ps vs before tr = BOk b tr' st' -> b = before /\ tr' = tr.
  Proof.
    induction ps as [|p ps IH]; simpl; intros vs st n before tr b tr' st' H.
    - inversion H; auto.
    - destruct vs as [|v vs]; [inversion H; auto|].
      destruct (constant_name p); [|eapply IH; eauto].
      destruct (get defs (st_heap st) n p) as [old isref h' dm evs| |] eqn:G; try discriminate.
      + destruct isref; simpl in H; try discriminate.
        destruct (negb (value_goeq old v)); try discriminate.
        apply get_noref in G. destruct G as [-> [-> ->]].
        apply IH in H. rewrite Nat.add_0_r, app_nil_r in H. auto.
      + eapply IH; eauto.
  Qed.

  Lemma apply_fn_good : forall on defs st fr fv args r st',
    apply_fn ev on defs st fr fv args = (r, st') -> good r.
  Proof.
    unfold apply_fn. intros on defs st fr fv args r st' H.
    destruct fv; try (inversion H; subst; auto with memo; fail).
    destruct (nth_error defs d) as [fd|]; [|inversion H; auto with memo].
    destruct (if on then cache_get (st_cache st) (fd_key fd) args else None) as [[v o]|].
    { inversion H; subst. split; simpl; [discriminate|].
      constructor; [|constructor]. apply node_all_call. split; [|constructor].
      repeat split; try discriminate; auto. }
    destruct (nth_error (st_heap st) fr) as [cur|]; [|inversion H; auto with memo].
    destruct (nth_error (st_heap st) (if same_fn cur d env then fr else env)) as [pf|];
      [|inversion H; auto with memo].
    destruct (call_shape (fd_params fd) args) as [[[[cps cpv] dots] sargs]|] eqn:CS.
    2:{ inversion H; subst. split; simpl; [discriminate|].
      constructor; [|constructor]. apply node_all_call. split; [|constructor].
      repeat split; try discriminate; auto. }
    match type of H with context [bind_params ?a ?b ?c ?d ?e ?f ?g] => destruct (bind_params a b c d e f g) as [before tr st2|before tr st2|] eqn:B end.
    - apply bind_params_ok in B. destruct B as [-> ->].
      match type of H with context [ev ?s2 ?n2 (fd_body fd)] => destruct (ev s2 n2 (fd_body fd)) as [rb st3] eqn:EB end.
      pose proof (Hev _ _ _ _ _ EB) as [GA GB].
      destruct (r_oc rb) as [v| |]; try (inversion H; subst; split; auto; fail).
      simpl in H.
      pose proof (call_shape_fst _ _ _ _ _ _ CS) as SF.
      assert (Hnode : forall d, (d = DStored -> r_miss rb = 0 /\ is_err v = false /\ has_function v = false /\ key_ok sargs = true) ->
                        (counting_in (r_tr rb) = true -> d = DMiss \/ d = DSetup) -> d <> DHit ->
                        trace_all node_ok [EvCall (fd_key fd) (map fst args) (r_tr rb) 0 (r_miss rb) v (r_out rb) d]).
      { intros dd H1 H2 H3. constructor; [|constructor]. apply node_all_call. split; auto.
        unfold node_ok. split; [|split].
        - intros Hd. destruct (H1 Hd) as [A [B [C D]]]. unfold key_ok in D. apply andb_prop in D. destruct D as [D1 D2].
          split; [auto|]. split; [auto|]. split; [auto|]. split.
          + apply Z.leb_le in D1. rewrite <- SF, map_length. auto.
          + rewrite <- SF. rewrite forallb_forall in *. intros x Hx. apply in_map_iff in Hx. destruct Hx as [[x1 x2] [Hx1 Hx2]]. simpl in Hx1. subst.
            apply D2 in Hx2. unfold arg_hashable in Hx2. apply andb_prop in Hx2. tauto.
        - exact H2.
        - intros Hd. congruence. }
      destruct (r_miss rb =? 0) eqn:EM; simpl in H.
      + apply Nat.eqb_eq in EM.
        assert (NC : counting_in (r_tr rb) = true -> False) by (intros HC; apply GA in HC; lia).
        assert (FIN : forall d lg ms, d <> DHit -> d <> DStored ->
                  good (mkRes (OVal v) false (r_out rb) lg [EvCall (fd_key fd) (map fst args) (r_tr rb) 0 (r_miss rb) v (r_out rb) d] ms)).
        { intros dd lg ms Hd1 Hd2. split; cbn [r_tr r_miss].
          - rewrite counting_in_single_call. destruct dd; try discriminate; intros HC; exfalso; auto.
          - apply Hnode; auto. + intros; congruence. + intros HC; exfalso; auto. }
        destruct (is_err v) eqn:EV; [inversion H; subst; apply FIN; discriminate|].
        destruct (has_function v) eqn:EF; [inversion H; subst; apply FIN; discriminate|].
        destruct (key_ok sargs) eqn:EK; simpl in H; [|inversion H; subst; apply FIN; discriminate].
        destruct on; [|inversion H; subst; apply FIN; discriminate].
        inversion H; subst. split; cbn [r_tr r_miss].
        * rewrite counting_in_single_call. intros HC; exfalso; auto.
        * apply Hnode; try discriminate; auto. intros HC; exfalso; auto.
      + inversion H; subst. split; cbn [r_tr r_miss]; [intros; lia|].
        apply Hnode; try discriminate. auto.
    - inversion H; subst. split; simpl; [discriminate|].
      constructor; [|constructor]. apply node_all_call. split.
      + repeat split; try discriminate; auto.
      + (* the events of a failed parameter binding are plain accesses *)
        clear H.
        assert (HB : forall ps vs st0 n b0 tr0 b1 tr1 st1,
                   bind_params defs st0 n ps vs b0 tr0 = BErr b1 tr1 st1 -> trace_all node_ok tr0 -> trace_all node_ok tr1).
        { induction ps as [|p ps IH]; simpl; intros vs st0 n b0 tr0 b1 tr1 st1 HH HT; try discriminate.
          destruct vs as [|v vs]; try discriminate.
          destruct (constant_name p); [|eapply IH; eauto].
          destruct (get defs (st_heap st0) n p) as [old isref h' dm evs| |] eqn:G; try discriminate.
          - destruct (isref || negb (value_goeq old v)).
            + inversion HH; subst. apply trace_all_app; auto. apply get_good in G. destruct G; auto.
            + eapply IH; eauto. apply trace_all_app; auto. apply get_good in G. destruct G; auto.
          - eapply IH; eauto. }
        eapply HB; eauto. constructor.
    - inversion H; auto with memo.
  Qed.
End GoodEv.

Theorem eval_good : forall fuel on defs st fr e r st',
  eval fuel on defs st fr e = (r, st') -> good r.
Proof.
  induction fuel as [|f IH]; intros on defs st fr e r st' H.
  { simpl in H. inversion H. auto with memo. }
  assert (Hev : forall st fr e r st', eval f on defs st fr e = (r, st') -> good r) by (intros; eapply IH; eauto).
  simpl in H. destruct e.
  - inversion H; auto with memo.
  - destruct (get defs (st_heap st) fr x) eqn:G; inversion H; subst; auto with memo.
    + eapply get_good; eauto.
    + apply (good_access1 (OVal (VErr err_msg)) false x true).
  - destruct (eval f on defs st fr e) as [r1 st1] eqn:E1. pose proof (Hev _ _ _ _ _ E1).
    destruct (r_oc r1) as [v| |]; try (inversion H; subst; auto; fail).
    destruct (is_err v); [inversion H; subst; auto with memo|].
    destruct (assign defs st1 fr x v) as [r2 st2] eqn:A. inversion H; subst.
    apply good_then; auto. eapply assign_good; eauto.
  - destruct (nth_error defs d) as [fd|]; [|inversion H; auto with memo].
    destruct (fd_name fd); [|inversion H; auto with memo].
    destruct (assign defs st fr i (VFun d fr)) as [r1 st1] eqn:A. pose proof (assign_good _ _ _ _ _ _ _ A).
    destruct (r_oc r1) as [v| |]; try (inversion H; subst; auto; fail).
    destruct (is_err v); inversion H; subst; auto with memo.
  - destruct (eval f on defs st fr e) as [rf st1] eqn:E1. pose proof (Hev _ _ _ _ _ E1).
    destruct (r_oc rf) as [fv| |]; try (inversion H; subst; auto; fail).
    destruct (is_err fv); [inversion H; subst; auto with memo|].
    destruct (eval_list (eval f on defs) st1 fr args) as [[ra vals] st2] eqn:E2.
    pose proof (eval_list_good _ Hev _ _ _ _ _ _ E2).
    destruct (r_oc ra) as [av| |]; try (inversion H; subst; auto with memo; fail).
    destruct (is_err av); [inversion H; subst; auto with memo|].
    destruct (apply_fn (eval f on defs) on defs st2 fr fv vals) as [rc st3] eqn:E3.
    pose proof (apply_fn_good _ Hev _ _ _ _ _ _ _ _ E3).
    inversion H; subst; auto with memo.
  - destruct (eval_list (eval f on defs) st fr es) as [[ra vals] st1] eqn:E2.
    pose proof (eval_list_good _ Hev _ _ _ _ _ _ E2).
    destruct (r_oc ra) as [av| |]; try (inversion H; subst; auto with memo; fail).
    destruct (is_err av); inversion H; subst; auto with memo.
  - destruct (eval f on defs st fr e1) as [r1 st1] eqn:E1. pose proof (Hev _ _ _ _ _ E1).
    destruct (r_oc r1) as [v1| |]; try (inversion H; subst; auto; fail).
    destruct (is_err v1); [inversion H; subst; auto with memo|].
    destruct (eval f on defs st1 fr e2) as [r2 st2] eqn:E2. pose proof (Hev _ _ _ _ _ E2).
    destruct (r_oc r2) as [v2| |]; try (inversion H; subst; auto with memo; fail).
    destruct (is_err v2); inversion H; subst; auto with memo.
  - destruct (eval f on defs st fr e1) as [rc st1] eqn:E1. pose proof (Hev _ _ _ _ _ E1).
    destruct (r_oc rc) as [vc| |]; try (inversion H; subst; auto; fail).
    destruct vc; try (inversion H; subst; auto with memo; fail).
    destruct (eval f on defs st1 fr (if b then e2 else e3)) as [rb st2] eqn:E2. pose proof (Hev _ _ _ _ _ E2).
    inversion H; subst; auto with memo.
  - destruct (eval f on defs st fr e1) as [r1 st1] eqn:E1. pose proof (Hev _ _ _ _ _ E1).
    destruct (r_oc r1) as [v1| |]; try (inversion H; subst; auto; fail).
    destruct (is_err v1); [inversion H; subst; auto with memo|].
    destruct (eval f on defs st1 fr e2) as [r2 st2] eqn:E2. pose proof (Hev _ _ _ _ _ E2).
    inversion H; subst; auto with memo.
  - destruct (eval_list (eval f on defs) st fr es) as [[ra vals] st1] eqn:E2.
    pose proof (eval_list_good _ Hev _ _ _ _ _ _ E2).
    destruct (r_oc ra) as [av| |]; try (inversion H; subst; auto with memo; fail).
    destruct (is_err av); [inversion H; subst; auto with memo|].
    destruct (all_some _); inversion H; subst; auto with memo.
  - inversion H; auto with memo.
  - inversion H; auto with memo.
  - inversion H; subst. split; simpl; [intros; lia | repeat constructor].
  - destruct (del_walk _ _ _ _); inversion H; subst; (split; simpl; [intros; lia | repeat constructor]).
  - destruct (eval f on defs st fr e) as [r1 st1] eqn:E1. pose proof (Hev _ _ _ _ _ E1).
    destruct (r_oc r1) as [v| |]; inversion H; subst; auto with memo.
Qed.

(* ================================================================ the four mechanism theorems *)
Definition store_discipline_node : node_prop := fun k args inner before after res out d =>
  d = DStored -> before = after /\ is_err res = false /\ has_function res = false
                 /\ (Z.of_nat (length args) <= eval_MaxArgs)%Z /\ forallb hashable args = true.
Definition poison_node : node_prop := fun k args inner before after res out d =>
  poison_in inner = true -> d <> DStored /\ d <> DOff /\ d <> DHit.
Definition access_node : node_prop := fun k args inner before after res out d =>
  access_in inner = true -> d <> DStored /\ d <> DOff /\ d <> DHit.

Lemma store_discipline_eval : forall fuel on defs st fr e r st',
  eval fuel on defs st fr e = (r, st') -> trace_all store_discipline_node (r_tr r).
Proof.
  intros. apply eval_good in H. destruct H as [_ H].
  eapply trace_all_impl; [|exact H]. unfold node_ok, store_discipline_node. intros. tauto.
Qed.
Lemma poison_eval : forall fuel on defs st fr e r st',
  eval fuel on defs st fr e = (r, st') -> trace_all poison_node (r_tr r).
Proof.
  intros. apply eval_good in H. destruct H as [_ H].
  eapply trace_all_impl; [|exact H]. unfold node_ok, poison_node. intros k a inner b af rr o d [_ [HC _]] HP.
  apply poison_counting in HP. destruct (HC HP); subst; repeat split; discriminate.
Qed.
Lemma access_eval : forall fuel on defs st fr e r st',
  eval fuel on defs st fr e = (r, st') -> trace_all access_node (r_tr r).
Proof.
  intros. apply eval_good in H. destruct H as [_ H].
  eapply trace_all_impl; [|exact H]. unfold node_ok, access_node. intros k a inner b af rr o d [_ [HC _]] HP.
  apply access_counting in HP. destruct (HC HP); subst; repeat split; discriminate.
Qed.

(* histories *)
Lemma run_all : forall (P : res -> Prop) on fuel defs,
  (forall st e r st', eval fuel on defs st 0 e = (r, st') -> P r) ->
  forall inputs st, Forall (fun p => P (fst p)) (run on fuel defs st inputs).
Proof.
  intros P on fuel defs HP. induction inputs as [|e rest IH]; simpl; intros st; [constructor|].
  destruct (eval fuel on defs st 0 e) as [r st'] eqn:E. constructor; [simpl; eauto | apply IH].
Qed.

Theorem store_discipline_run : forall on fuel defs st inputs,
  Forall (fun p => trace_all store_discipline_node (r_tr (fst p))) (run on fuel defs st inputs).
Proof. intros. apply (run_all (fun r => trace_all store_discipline_node (r_tr r))). intros. eapply store_discipline_eval; eauto. Qed.
Theorem poison_run : forall on fuel defs st inputs,
  Forall (fun p => trace_all poison_node (r_tr (fst p))) (run on fuel defs st inputs).
Proof. intros. apply (run_all (fun r => trace_all poison_node (r_tr r))). intros. eapply poison_eval; eauto. Qed.
Theorem access_run : forall on fuel defs st inputs,
  Forall (fun p => trace_all access_node (r_tr (fst p))) (run on fuel defs st inputs).
Proof. intros. apply (run_all (fun r => trace_all access_node (r_tr r))). intros. eapply access_eval; eauto. Qed.

(* ---- a hit replays exactly what is in the cache, and changes nothing else ---- *)
Theorem hit_replays : forall ev defs st fr d envd fd args v o,
  nth_error defs d = Some fd ->
  cache_get (st_cache st) (fd_key fd) args = Some (v, o) ->
  apply_fn ev true defs st fr (VFun d envd) args =
    (mkRes (OVal v) false o [] [EvCall (fd_key fd) (map fst args) [] 0 0 v o DHit] 0, st).
Proof. intros. unfold apply_fn. rewrite H, H0. reflexivity. Qed.

(* Go == is the identity on hashable values *)
Lemma fl_goeq_hashable : forall f g, fl_hashable f = true -> fl_hashable g = true -> fl_goeq f g = true ->
  fl_num f = fl_num g /\ fl_num f <> None.
Proof.
  intros f g Hf Hg H. unfold fl_goeq in H. destruct (fl_num f) eqn:A, (fl_num g) eqn:B; try discriminate.
  apply Z.eqb_eq in H. subst. split; congruence.
Qed.

Lemma value_goeq_refl : forall v, hashable v = true -> value_goeq v v = true.
Proof.
  fix IH 1. intros v. destruct v; simpl; intros H; try discriminate; auto.
  - apply Z.eqb_refl.
  - destruct f; simpl in *; try discriminate; unfold fl_goeq; simpl; auto using Z.eqb_refl.
  - apply bytes_eqb_refl.
  - destruct b; auto.
  - apply andb_prop in H. destruct H as [_ H]. induction l as [|x l IHl]; auto.
    apply andb_prop in H. destruct H as [H1 H2]. rewrite (IH x H1). simpl. auto.
Qed.
Lemma values_goeq_refl : forall l, forallb hashable l = true -> values_goeq l l = true.
Proof.
  induction l; simpl; auto. intros H. apply andb_prop in H. destruct H. rewrite value_goeq_refl; auto.
Qed.

(* what the last store for a key recorded is what a lookup with the same key returns *)
Theorem get_after_put : forall c key args v o,
  key_ok args = true ->
  cache_get (cache_put c (mkCe key (map fst args) v o)) key args = Some (v, o).
Proof.
  intros c key args v o HK. unfold cache_get. rewrite HK.
  assert (HM : ce_match key (map fst args) (mkCe key (map fst args) v o) = true).
  { unfold ce_match. simpl. rewrite bytes_eqb_refl. simpl. apply values_goeq_refl.
    unfold key_ok in HK. apply andb_prop in HK. destruct HK as [_ HK].
    rewrite forallb_forall in *. intros x Hx. apply in_map_iff in Hx. destruct Hx as [[a b] [E Hx]]. simpl in E; subst.
    apply HK in Hx. unfold arg_hashable in Hx. apply andb_prop in Hx. tauto. }
  induction c as [|ce c IH]; simpl.
  - rewrite HM. reflexivity.
  - destruct (ce_match key (map fst args) ce) eqn:M; simpl.
    + rewrite HM. reflexivity.
    + rewrite M. apply IH.
Qed.

(* ================================================================ the event log misses no cache write *)
(* the entries written by the DStored nodes of a trace, at every depth *)
Fixpoint ev_stores (e : event) : list centry :=
  match e with
  | EvCall k a inner _ _ r o d =>
      (match d with DStored => [mkCe k a r o] | _ => [] end)
      ++ (fix go (l : list event) : list centry := match l with [] => [] | x :: l' => ev_stores x ++ go l' end) inner
  | _ => []
  end.
Definition stores_of (tr : list event) : list centry := flat_map ev_stores tr.
Lemma ev_stores_call : forall k a inner b af r o d,
  ev_stores (EvCall k a inner b af r o d) = (match d with DStored => [mkCe k a r o] | _ => [] end) ++ stores_of inner.
Proof. intros; simpl; f_equal; induction inner; simpl; auto; try (rewrite IHinner; auto). Qed.
Lemma stores_of_single : forall e, stores_of [e] = ev_stores e.
Proof. intros. unfold stores_of. cbn [flat_map]. apply app_nil_r. Qed.
Lemma stores_of_app : forall a b, stores_of (a ++ b) = stores_of a ++ stores_of b.
Proof. intros. unfold stores_of. apply flat_map_app. Qed.

(* every entry of the cache afterwards was there before or is the payload of a DStored node of the trace *)
Definition writes_logged (r : res) (st st' : state) : Prop :=
  forall ce, In ce (st_cache st') -> In ce (st_cache st) \/ In ce (stores_of (r_tr r)).

Lemma wl_same : forall r st st', st_cache st' = st_cache st -> writes_logged r st st'.
Proof. intros r st st' E ce H. rewrite E in H. auto. Qed.
Lemma wl_then : forall r1 r2 st st1 st2, writes_logged r1 st st1 -> writes_logged r2 st1 st2 -> writes_logged (then_res r1 r2) st st2.
Proof.
  intros r1 r2 st st1 st2 A B ce H. simpl. rewrite stores_of_app, in_app_iff.
  destruct (B _ H) as [H1|H1]; auto. destruct (A _ H1); auto.
Qed.
Lemma wl_with_oc : forall r o b st st', writes_logged r st st' -> writes_logged (with_oc r o b) st st'.
Proof. intros r o b st st' A ce H. simpl. apply A. auto. Qed.

Lemma set_nochecks_cache : forall st fr x v r st', set_nochecks st fr x v = (r, st') -> st_cache st' = st_cache st.
Proof.
  unfold set_nochecks. intros st fr x v r st'.
  destruct (nth_error (st_heap st) fr) as [f|]; [|intros H; inversion H; auto].
  destruct (find_cell (fr_store f) x) as [[v0|x' e']|]; try (intros H; inversion H; auto; fail).
  destruct (fr_outer f); [|intros H; inversion H; auto].
  destruct (walk (length (st_heap st)) (st_heap st) fr x); intros H; inversion H; auto.
Qed.
Lemma assign_cache : forall defs st fr x v r st', assign defs st fr x v = (r, st') -> st_cache st' = st_cache st.
Proof.
  unfold assign. intros defs st fr x v r st'.
  destruct (constant_name x); [|apply set_nochecks_cache].
  destruct (get defs (st_heap st) fr x) as [old isref h' dm evs| |].
  - destruct (isref || negb (value_goeq old v)); [intros H; inversion H; auto|].
    destruct (set_nochecks (set_heap st h') fr x v) as [r2 st2] eqn:S. intros H; inversion H; subst.
    apply set_nochecks_cache in S. auto.
  - apply set_nochecks_cache.
  - intros H; inversion H; auto.
Qed.
Lemma bind_params_cache : forall defs ps vs st n b tr,
  match bind_params defs st n ps vs b tr with
  | BOk _ _ st' | BErr _ _ st' => st_cache st' = st_cache st
  | BStuck => True
  end.
Proof.
  induction ps as [|p ps IH]; simpl; intros vs st n b tr; auto.
  destruct vs as [|v vs]; auto.
  destruct (constant_name p).
  - destruct (get defs (st_heap st) n p) as [old isref h' dm evs| |]; auto.
    + destruct (isref || negb (value_goeq old v)); simpl; auto.
      specialize (IH vs (set_heap st (set_cell h' n p (CVal v))) n (b + dm) (tr ++ evs)).
      destruct (bind_params defs _ n ps vs (b + dm) (tr ++ evs)); auto.
    + specialize (IH vs (set_heap st (set_cell (st_heap st) n p (CVal v))) n b tr).
      destruct (bind_params defs _ n ps vs b tr); auto.
  - specialize (IH vs (set_heap st (set_cell (st_heap st) n p (CVal v))) n b tr).
    destruct (bind_params defs _ n ps vs b tr); auto.
Qed.
Lemma in_cache_put : forall c n ce, In ce (cache_put c n) -> In ce c \/ ce = n.
Proof.
  induction c as [|x c IH]; simpl; intros n ce H.
  - destruct H; auto.
  - destruct (ce_match (ce_key n) (ce_args n) x); simpl in H; destruct H as [H|H]; auto.
    destruct (IH _ _ H); auto.
Qed.

Section LoggedEv.
  Variable ev : state -> nat -> expr -> res * state.
  Hypothesis Hev : forall st fr e r st', ev st fr e = (r, st') -> writes_logged r st st'.

  Lemma eval_list_logged : forall es st fr r vals st', eval_list ev st fr es = (r, vals, st') -> writes_logged r st st'.
  Proof.
    induction es as [|e es IH]; simpl; intros st fr r vals st' H.
    - inversion H; subst. apply wl_same; auto.
    - destruct (ev st fr e) as [r1 st1] eqn:E1. pose proof (Hev _ _ _ _ _ E1) as G1.
      destruct (r_oc r1) as [v| |]; try (inversion H; subst; auto; fail).
      destruct (is_err v); [inversion H; subst; auto|].
      destruct (eval_list ev st1 fr es) as [[r2 vs] st2] eqn:E2. inversion H; subst. eapply wl_then; eauto.
  Qed.

  Lemma apply_fn_logged : forall on defs st fr fv args r st',
    apply_fn ev on defs st fr fv args = (r, st') -> writes_logged r st st'.
  Proof.
    unfold apply_fn. intros on defs st fr fv args r st' H.
    destruct fv; try (inversion H; subst; apply wl_same; auto; fail).
    destruct (nth_error defs d) as [fd|]; [|inversion H; subst; apply wl_same; auto].
    destruct (if on then cache_get (st_cache st) (fd_key fd) args else None) as [[v o]|];
      [inversion H; subst; apply wl_same; auto|].
    destruct (nth_error (st_heap st) fr) as [cur|]; [|inversion H; subst; apply wl_same; auto].
    destruct (nth_error (st_heap st) (if same_fn cur d env then fr else env)) as [pf|];
      [|inversion H; subst; apply wl_same; auto].
    destruct (call_shape (fd_params fd) args) as [[[[cps cpv] dots] sargs]|]; [|inversion H; subst; apply wl_same; auto].
    match type of H with context [bind_params ?a ?b ?c ?d ?e ?f ?g] =>
      pose proof (bind_params_cache a d e b c f g) as BC0; destruct (bind_params a b c d e f g) as [before tr st2a|before tr st2|] end.
    - simpl in BC0.
      match type of H with context [ev ?s2 ?n2 (fd_body fd)] =>
        assert (BC : st_cache s2 = st_cache st) by (destruct dots; simpl; auto);
        destruct (ev s2 n2 (fd_body fd)) as [rb st3] eqn:EB end.
      pose proof (Hev _ _ _ _ _ EB) as GB.
      assert (INNER : forall d0 lg ms, writes_logged (mkRes (r_oc rb) false (r_out rb) lg
                  [EvCall (fd_key fd) (map fst args) (tr ++ r_tr rb) before (before + r_miss rb)
                          (match r_oc rb with OVal v => v | _ => VNil end) (r_out rb) d0] ms) st st3).
      { intros d0 lg ms ce Hce. destruct (GB _ Hce) as [A|A]; [left; rewrite <- BC; auto|].
        right. cbn [r_tr]. rewrite stores_of_single, ev_stores_call, in_app_iff. right. rewrite stores_of_app, in_app_iff. auto. }
      destruct (r_oc rb) as [v| |] eqn:OB.
      + destruct (negb (before + r_miss rb =? before)); [inversion H; subst; apply INNER|].
        destruct (is_err v); [inversion H; subst; apply INNER|].
        destruct (has_function v); [inversion H; subst; apply INNER|].
        destruct (negb (key_ok sargs)); [inversion H; subst; apply INNER|].
        destruct on; [|inversion H; subst; apply INNER].
        inversion H; subst. intros ce Hce. simpl in Hce. apply in_cache_put in Hce. destruct Hce as [Hce|Hce].
        * destruct (INNER DStored (r_log rb) 0 ce Hce) as [A|A]; auto.
        * right. subst ce. cbn [r_tr]. rewrite stores_of_single, ev_stores_call. simpl. auto.
      + inversion H; subst. intros ce Hce. destruct (GB _ Hce) as [A|A]; auto. left. rewrite <- BC. auto.
      + inversion H; subst. intros ce Hce. destruct (GB _ Hce) as [A|A]; auto. left. rewrite <- BC. auto.
    - simpl in BC0. inversion H; subst. apply wl_same. auto.
    - inversion H; subst. apply wl_same. auto.
  Qed.
End LoggedEv.

Theorem eval_logged : forall fuel on defs st fr e r st',
  eval fuel on defs st fr e = (r, st') -> writes_logged r st st'.
Proof.
  induction fuel as [|f IH]; intros on defs st fr e r st' H.
  { simpl in H. inversion H. apply wl_same; auto. }
  assert (Hev : forall st fr e r st', eval f on defs st fr e = (r, st') -> writes_logged r st st') by (intros; eapply IH; eauto).
  simpl in H. destruct e.
  - inversion H; apply wl_same; auto.
  - destruct (get defs (st_heap st) fr x); inversion H; subst; apply wl_same; auto.
  - destruct (eval f on defs st fr e) as [r1 st1] eqn:E1. pose proof (Hev _ _ _ _ _ E1).
    destruct (r_oc r1) as [v| |]; try (inversion H; subst; auto; fail).
    destruct (is_err v); [inversion H; subst; apply wl_with_oc; auto|].
    destruct (assign defs st1 fr x v) as [r2 st2] eqn:A. inversion H; subst.
    eapply wl_then; eauto. apply wl_same. eapply assign_cache; eauto.
  - destruct (nth_error defs d) as [fd|]; [|inversion H; apply wl_same; auto].
    destruct (fd_name fd); [|inversion H; apply wl_same; auto].
    destruct (assign defs st fr i (VFun d fr)) as [r1 st1] eqn:A. pose proof (assign_cache _ _ _ _ _ _ _ A).
    destruct (r_oc r1) as [v| |]; try (inversion H; subst; apply wl_same; auto; fail).
    destruct (is_err v); inversion H; subst; apply wl_same; auto.
  - destruct (eval f on defs st fr e) as [rf st1] eqn:E1. pose proof (Hev _ _ _ _ _ E1).
    destruct (r_oc rf) as [fv| |]; try (inversion H; subst; auto; fail).
    destruct (is_err fv); [inversion H; subst; apply wl_with_oc; auto|].
    destruct (eval_list (eval f on defs) st1 fr args) as [[ra vals] st2] eqn:E2.
    pose proof (eval_list_logged _ Hev _ _ _ _ _ _ E2).
    destruct (r_oc ra) as [av| |]; try (inversion H; subst; eapply wl_then; eauto; fail).
    destruct (is_err av); [inversion H; subst; apply wl_with_oc; eapply wl_then; eauto|].
    destruct (apply_fn (eval f on defs) on defs st2 fr fv vals) as [rc st3] eqn:E3.
    pose proof (apply_fn_logged _ Hev _ _ _ _ _ _ _ _ E3).
    inversion H; subst. eapply wl_then; eauto. eapply wl_then; eauto.
  - destruct (eval_list (eval f on defs) st fr es) as [[ra vals] st1] eqn:E2.
    pose proof (eval_list_logged _ Hev _ _ _ _ _ _ E2).
    destruct (r_oc ra) as [av| |]; try (inversion H; subst; auto; fail).
    destruct (is_err av); inversion H; subst; apply wl_with_oc; auto.
  - destruct (eval f on defs st fr e1) as [r1 st1] eqn:E1. pose proof (Hev _ _ _ _ _ E1).
    destruct (r_oc r1) as [v1| |]; try (inversion H; subst; auto; fail).
    destruct (is_err v1); [inversion H; subst; apply wl_with_oc; auto|].
    destruct (eval f on defs st1 fr e2) as [r2 st2] eqn:E2. pose proof (Hev _ _ _ _ _ E2).
    destruct (r_oc r2) as [v2| |]; try (inversion H; subst; eapply wl_then; eauto; fail).
    destruct (is_err v2); inversion H; subst; apply wl_with_oc; eapply wl_then; eauto.
  - destruct (eval f on defs st fr e1) as [rc st1] eqn:E1. pose proof (Hev _ _ _ _ _ E1).
    destruct (r_oc rc) as [vc| |]; try (inversion H; subst; auto; fail).
    destruct vc; try (inversion H; subst; apply wl_with_oc; auto; fail).
    destruct (eval f on defs st1 fr (if b then e2 else e3)) as [rb st2] eqn:E2. pose proof (Hev _ _ _ _ _ E2).
    inversion H; subst. eapply wl_then; eauto.
  - destruct (eval f on defs st fr e1) as [r1 st1] eqn:E1. pose proof (Hev _ _ _ _ _ E1).
    destruct (r_oc r1) as [v1| |]; try (inversion H; subst; auto; fail).
    destruct (is_err v1); [inversion H; subst; auto|].
    destruct (eval f on defs st1 fr e2) as [r2 st2] eqn:E2. pose proof (Hev _ _ _ _ _ E2).
    inversion H; subst. eapply wl_then; eauto.
  - destruct (eval_list (eval f on defs) st fr es) as [[ra vals] st1] eqn:E2.
    pose proof (eval_list_logged _ Hev _ _ _ _ _ _ E2).
    destruct (r_oc ra) as [av| |]; try (inversion H; subst; auto; fail).
    destruct (is_err av); [inversion H; subst; apply wl_with_oc; auto|].
    destruct (all_some _); inversion H; subst.
    + eapply wl_then; eauto. apply wl_same. auto.
    + apply wl_with_oc; auto.
  - inversion H; apply wl_same; auto.
  - inversion H; apply wl_same; auto.
  - inversion H; apply wl_same; auto.
  - destruct (del_walk _ _ _ _); inversion H; subst; intros ce Hce; simpl in Hce; contradiction.
  - destruct (eval f on defs st fr e) as [r1 st1] eqn:E1. pose proof (Hev _ _ _ _ _ E1).
    destruct (r_oc r1) as [v| |]; inversion H; subst; auto; apply wl_with_oc; auto.
Qed.
