(* Lemmas about the EvalOne wrapper of model/Session.v (C10). *)
From Coq Require Import List Bool Arith Lia.
From GrolModel Require Import Registers Session.
From GrolProofs Require Import Registers_proofs.
Import ListNotations.

Lemma top_level_eq : forall m n, envs m = [n] -> depth m = 0 -> outs m = 0 -> m = mkM [n] 0 0.
Proof. destruct m; simpl; intros; subst; reflexivity. Qed.

(* SetContext installs a live context whatever the previous input left behind *)
Lemma set_context_live : forall s, ctx_live (set_context s) = true.
Proof. reflexivity. Qed.

(* under a dead context nothing is evaluated: the refresh matters *)
Lemma dead_context_fails : forall c p m, run_input c p (mkS m false) = (GError, m, []).
Proof. reflexivity. Qed.

(* after ANY input, whatever its outcome, the control state of the session is the one before *)
Lemma eval_one_restores : forall (r : bool) (p : skel) (s : session),
  top_level (st s) ->
  forall o s' t, eval_one (repaired r) p s = (o, s', t) ->
    st s' = st s
    /\ ctx_live s' = false
    /\ o <> OStuck /\ o <> OPanic PNoRegisters /\ o <> OPanic PNonLifo.
Proof.
  intros r p s (n & He & Hd & Ho) o s' t E.
  unfold eval_one, run_input in E. simpl ctx_live in E. cbv iota in E. simpl st in E.
  pose proof (top_level_eq (st s) n He Hd Ho) as Hst.
  rewrite Hst in *. simpl in E.
  set (m0 := mkM [n] 1 0) in *.
  destruct (eval (repaired r) p m0) as [[g m1] t1] eqn:E1.
  assert (Hne : envs m0 <> []) by (unfold m0; simpl; congruence).
  destruct (eval_good r p m0 g m1 t1 Hne E1) as (Hg & Hsame & extra & Hex).
  pose proof (pure_signal_ok p) as Hok. rewrite <- Hg in Hok.
  destruct (is_abort g) eqn:Hab.
  - (* a Go panic was unwinding: recover + Reset *)
    destruct g; simpl in Hab; try discriminate.
    inversion E; subst; clear E. simpl.
    split; [| split; [reflexivity|]].
    + unfold reset; simpl. rewrite Hex. unfold m0; simpl. reflexivity.
    + repeat split; intro Hc; inversion Hc; subst; discriminate.
  - specialize (Hsame eq_refl). subst m1.
    destruct g; simpl in Hab; try discriminate;
      inversion E; subst o s' t; clear E; simpl;
      (split; [reflexivity|]); (split; [reflexivity|]);
      repeat split; intro Hc; discriminate.
Qed.

(* what an input shows (outcome, probes) is a function of the control state it starts from *)
Definition shows (c : cfg) (p : skel) (m : mstate) : okind * list probe :=
  match eval_one c p (mkS m false) with (o, _, t) => (o, t) end.

Lemma eval_one_ctx_irrelevant : forall c p s,
  eval_one c p s = eval_one c p (mkS (st s) false).
Proof. intros. unfold eval_one, set_context. reflexivity. Qed.

Lemma run_session_shows : forall (r : bool) (l : list skel) (s : session),
  top_level (st s) ->
  fst (run_session (repaired r) l s) = map (fun p => shows (repaired r) p (st s)) l
  /\ st (snd (run_session (repaired r) l s)) = st s.
Proof.
  induction l as [|p l IH]; intros s Ht; simpl; [split; reflexivity|].
  destruct (eval_one (repaired r) p s) as [[o s1] t] eqn:E.
  destruct (eval_one_restores r p s Ht o s1 t E) as (Hst & _).
  assert (Ht1 : top_level (st s1)) by (rewrite Hst; exact Ht).
  destruct (IH s1 Ht1) as (Hobs & Hfin).
  destruct (run_session (repaired r) l s1) as [obs s2] eqn:E2.
  simpl in *. split.
  - unfold shows. rewrite <- (eval_one_ctx_irrelevant (repaired r) p s), E.
    rewrite Hobs, Hst. reflexivity.
  - rewrite Hfin. exact Hst.
Qed.

(* C10 on the control projection: an input (failing or not) submitted between h1 and h2 changes
   nothing of what the inputs of h1 and h2 show *)
Lemma no_trace_lemma : forall (r : bool) (h1 h2 : list skel) (f : skel) (s : session),
  top_level (st s) ->
  exists of_,
    fst (run_session (repaired r) (h1 ++ f :: h2) s)
      = fst (run_session (repaired r) h1 s) ++ of_ :: fst (run_session (repaired r) h2 s)
    /\ fst (run_session (repaired r) (h1 ++ h2) s)
      = fst (run_session (repaired r) h1 s) ++ fst (run_session (repaired r) h2 s).
Proof.
  intros r h1 h2 f s Ht.
  exists (shows (repaired r) f (st s)).
  destruct (run_session_shows r (h1 ++ f :: h2) s Ht) as (A & _).
  destruct (run_session_shows r (h1 ++ h2) s Ht) as (B & _).
  destruct (run_session_shows r h1 s Ht) as (C & _).
  destruct (run_session_shows r h2 s Ht) as (D & _).
  rewrite A, B, C, D. rewrite !map_app. simpl. split; reflexivity.
Qed.

(* the statement of C10's control_restored, component by component *)
Lemma control_restored_lemma : forall (r : bool) (p : skel) (s : session),
  top_level (st s) ->
  forall o s' t, eval_one (repaired r) p s = (o, s', t) ->
    length (envs (st s')) = 1                                   (* env = root *)
    /\ depth (st s') = 0
    /\ outs (st s') = 0                                         (* out = session writer *)
    /\ nth_error (envs (st s')) 0 = nth_error (envs (st s)) 0   (* root numReg unchanged *)
    /\ ctx_live (set_context s') = true                         (* the next input starts on a fresh context *)
    /\ top_level (st s').
Proof.
  intros r p s Ht o s' t E.
  destruct (eval_one_restores r p s Ht o s' t E) as (Hst & _).
  rewrite Hst. destruct Ht as (n & He & Hd & Ho).
  rewrite He, Hd, Ho. repeat split; auto. exists n; auto.
Qed.

(* the outcome an input shows is the pure control outcome of its skeleton: in particular it is
   the same with registers enabled and disabled *)
Lemma shows_outcome : forall (r : bool) (p : skel) (m : mstate), top_level m ->
  fst (shows (repaired r) p m) = top_outcome (pure_signal p).
Proof.
  intros r p m (n & He & Hd & Ho).
  pose proof (top_level_eq m n He Hd Ho) as Hm. subst m.
  unfold shows, eval_one, run_input. simpl.
  set (m0 := mkM [n] 1 0).
  destruct (eval (repaired r) p m0) as [[g m1] t1] eqn:E1.
  assert (Hne : envs m0 <> []) by (unfold m0; simpl; congruence).
  destruct (eval_good r p m0 g m1 t1 Hne E1) as (Hg & _).
  rewrite <- Hg. destruct (is_abort g); reflexivity.
Qed.

Lemma session_outcomes_reg_independent : forall (l : list skel) (s : session), top_level (st s) ->
  map fst (fst (run_session (repaired true) l s)) = map fst (fst (run_session (repaired false) l s)).
Proof.
  intros l s Ht.
  destruct (run_session_shows true l s Ht) as (A & _).
  destruct (run_session_shows false l s Ht) as (B & _).
  rewrite A, B, !map_map.
  apply map_ext. intros p. rewrite !shows_outcome by exact Ht. reflexivity.
Qed.

Lemma new_session_top_level : top_level (st new_session).
Proof. exists 0. repeat split. Qed.

(* sessions started from a new state: outcome kinds do not depend on registers being enabled *)
Lemma skeleton_sessions_lemma : forall (p : list skel) (any : bool), any = false ->
  map fst (fst (run_session (repaired true) p new_session))
  = map fst (fst (run_session (repaired false) p new_session)).
Proof. intros p _ _. apply session_outcomes_reg_independent. exact new_session_top_level. Qed.

(* ---------- all interleavings: inserted inputs at every position, with any multiplicity ---------- *)
(* A history with each input tagged: [true] = an inserted input (the failing ones of the property; here ANY
   input), [false] = an input of the base history. *)
Definition all_inputs (h : list (bool * skel)) : list skel := map snd h.
Definition base_inputs (h : list (bool * skel)) : list skel :=
  map snd (filter (fun p => negb (fst p)) h).
(* the observations of the base inputs inside the observations of the whole history *)
Definition base_obs {A : Type} (h : list (bool * skel)) (obs : list A) : list A :=
  map snd (filter (fun p => negb (fst (fst p))) (combine h obs)).

Lemma base_obs_map : forall (A : Type) (f : skel -> A) (h : list (bool * skel)),
  base_obs h (map f (all_inputs h)) = map f (base_inputs h).
Proof.
  intros A f h. unfold base_obs, all_inputs, base_inputs.
  induction h as [|[b p] tl IH]; simpl; [reflexivity|].
  destruct b; simpl; [exact IH | rewrite IH; reflexivity].
Qed.

Lemma interleaving_lemma : forall (r : bool) (h : list (bool * skel)) (s : session),
  top_level (st s) ->
  base_obs h (fst (run_session (repaired r) (all_inputs h) s))
  = fst (run_session (repaired r) (base_inputs h) s).
Proof.
  intros r h s Ht.
  destruct (run_session_shows r (all_inputs h) s Ht) as (A & _).
  destruct (run_session_shows r (base_inputs h) s Ht) as (B & _).
  rewrite A, B. apply base_obs_map.
Qed.

(* and the session ends in the same control state with and without the inserted inputs *)
Lemma interleaving_state_lemma : forall (r : bool) (h : list (bool * skel)) (s : session),
  top_level (st s) ->
  st (snd (run_session (repaired r) (all_inputs h) s)) = st (snd (run_session (repaired r) (base_inputs h) s)).
Proof.
  intros r h s Ht.
  destruct (run_session_shows r (all_inputs h) s Ht) as (_ & A).
  destruct (run_session_shows r (base_inputs h) s Ht) as (_ & B).
  rewrite A, B. reflexivity.
Qed.

(* ---------- any number of inputs (loops) in one session ---------- *)
Definition no_register_failure (o : okind) : Prop :=
  o <> OPanic PNoRegisters /\ o <> OPanic PNonLifo /\ o <> OStuck.

Lemma long_session_lemma : forall (r : bool) (l : list skel) (s : session),
  top_level (st s) ->
  Forall (fun ot : okind * list probe => no_register_failure (fst ot)) (fst (run_session (repaired r) l s))
  /\ st (snd (run_session (repaired r) l s)) = st s.
Proof.
  induction l as [|p l IH]; intros s Ht; simpl; [split; [constructor | reflexivity]|].
  destruct (eval_one (repaired r) p s) as [[o s1] t] eqn:E.
  destruct (eval_one_restores r p s Ht o s1 t E) as (Hst & _ & Hn1 & Hn2 & Hn3).
  assert (Ht1 : top_level (st s1)) by (rewrite Hst; exact Ht).
  destruct (IH s1 Ht1) as (Hall & Hfin).
  destruct (run_session (repaired r) l s1) as [obs s2] eqn:E2.
  simpl in *. split.
  - constructor; [|exact Hall]. simpl. unfold no_register_failure. repeat split; assumption.
  - rewrite Hfin. exact Hst.
Qed.
