(* Termination of the guard machine of model/Guards.v under ANY cancellation instant (C09: "evaluation of any program
   returns", "all cancellation instants relative to evaluation progress").  proofs/Guards_proofs.v proves it for
   uncancelled runs only (run_terminates); here the execution lemma is redone for an arbitrary [cancel_at]. *)
From Coq Require Import List ZArith Bool Lia Arith.
From GrolModel Require Import Guards.
From GrolProofs Require Import Guards_proofs.
Import ListNotations.
Local Open Scope Z_scope.

(* Execution of a whole subtree on top of any stack, from any depth and visit count, with any cancellation instant:
   within 3*size-1 steps it either comes back to the same stack and depth with some result, having made at least one
   and at most [size t] evalInternal entries, or the run halts in the depth guard. *)
Definition exec_any (maxd : Z) (ca : option nat) (t : tree) : Prop :=
  forall st d v,
    exists n, (n + 1 <= 3 * size t)%nat /\
      ((exists r v', run maxd ca n (mk_config (Enter t) st d v) = (None, mk_config (Next r) st d v')
                     /\ (v < v')%nat /\ (v' <= v + size t)%nat)
       \/ (exists c, run maxd ca n (mk_config (Enter t) st d v) = (Some GuardDepth, c))).

(* the children loop of an open frame, resumed with any previous result *)
Definition exec_children_any (maxd : Z) (ca : option nat) (ve : bool) (k : fkind) (cs : list tree) : Prop :=
  forall st d v r0,
    exists n, (n <= 3 * sizes cs + 1)%nat /\
      ((exists r v', run maxd ca n (mk_config (Next r0) (F ve k cs :: st) d v)
                     = (None, mk_config (Next r) st (d - b2z ve) v')
                     /\ (v <= v')%nat /\ (v' <= v + sizes cs)%nat)
       \/ (exists c, run maxd ca n (mk_config (Next r0) (F ve k cs :: st) d v) = (Some GuardDepth, c))).

Lemma step_next_nil : forall maxd ca ve k st d v r0,
  exists r, step maxd ca (mk_config (Next r0) (F ve k [] :: st) d v)
            = inr (mk_config (Next r) st (d - b2z ve) v).
Proof.
  intros maxd ca ve k st d v r0. unfold step. cbn [c_mode c_stack c_depth c_visits].
  destruct k, r0; eexists; reflexivity.
Qed.

Lemma step_next_cons : forall maxd ca ve k c cs st d v r0,
  step maxd ca (mk_config (Next r0) (F ve k (c :: cs) :: st) d v)
  = inr (mk_config (Next RErr) st (d - b2z ve) v) /\ k = Stop /\ r0 = RErr
  \/ step maxd ca (mk_config (Next r0) (F ve k (c :: cs) :: st) d v)
     = inr (mk_config (Enter c) (F ve k cs :: st) d v).
Proof.
  intros maxd ca ve k c cs st d v r0. unfold step. cbn [c_mode c_stack c_depth c_visits].
  destruct k, r0; auto.
Qed.

Lemma exec_children_any_of : forall maxd ca ve k cs,
  Forall (exec_any maxd ca) cs -> exec_children_any maxd ca ve k cs.
Proof.
  intros maxd ca ve k cs Hall. induction Hall as [| c cs Hc Hcs IH]; intros st d v r0; cbn [sizes].
  - destruct (step_next_nil maxd ca ve k st d v r0) as [r Hs].
    exists 1%nat. split; [ lia |]. left. exists r, v. split; [| lia ].
    cbn [run]. rewrite Hs. reflexivity.
  - destruct (step_next_cons maxd ca ve k c cs st d v r0) as [[Hs _] | Hs].
    + exists 1%nat. split; [ lia |]. left. exists RErr, v. split; [| lia ].
      cbn [run]. rewrite Hs. reflexivity.
    + destruct (Hc (F ve k cs :: st) d v) as [n1 [Hn1 [[r1 [v1 [Hr1 [Hv1a Hv1b]]]] | [c1 Hg1]]]].
      * destruct (IH st d v1 r1) as [n2 [Hn2 [[r2 [v2 [Hr2 [Hv2a Hv2b]]]] | [c2 Hg2]]]].
        -- exists (S (n1 + n2)). split; [ lia |]. left. exists r2, v2. split; [| lia ].
           cbn [run]. rewrite Hs. rewrite (run_add _ _ _ _ _ _ Hr1). exact Hr2.
        -- exists (S (n1 + n2)). split; [ lia |]. right. exists c2.
           cbn [run]. rewrite Hs. rewrite (run_add _ _ _ _ _ _ Hr1). exact Hg2.
      * exists (S (n1 + 0)). split; [ lia |]. right. exists c1.
        cbn [run]. rewrite Hs. apply run_halt_more. exact Hg1.
Qed.

Lemma exec_any_all : forall maxd ca t, exec_any maxd ca t.
Proof.
  intros maxd ca t. induction t as [ve k cs Hcs] using tree_ind'.
  pose proof (exec_children_any_of maxd ca ve k cs Hcs) as Hch.
  intros st d v. rewrite size_unfold.
  destruct (ve && (maxd <? d)) eqn:Eg.
  - (* the depth guard *)
    exists 1%nat. split; [ lia |]. right. exists (mk_config (Enter (T ve k cs)) st d v).
    cbn [run]. unfold step. cbn [c_mode c_stack c_depth c_visits]. rewrite Eg. reflexivity.
  - destruct (cancelled ca v) eqn:Ec.
    + (* cancelled: the context error at once, children untouched *)
      exists 1%nat. split; [ lia |]. left. exists RErr, (S v). split; [| lia ].
      cbn [run]. unfold step. cbn [c_mode c_stack c_depth c_visits]. rewrite Eg, Ec. reflexivity.
    + destruct (Hch st (d + b2z ve) (S v) ROk) as [n [Hn [[r [v' [Hr [Hva Hvb]]]] | [c Hg]]]].
      * exists (S n). split; [ lia |]. left. exists r, v'. split; [| lia ].
        cbn [run]. unfold step. cbn [c_mode c_stack c_depth c_visits]. rewrite Eg, Ec.
        replace (d + b2z ve - b2z ve) with d in Hr by lia. exact Hr.
      * exists (S n). split; [ lia |]. right. exists c.
        cbn [run]. unfold step. cbn [c_mode c_stack c_depth c_visits]. rewrite Eg, Ec. exact Hg.
Qed.

(* Whatever the cancellation instant (never, at the start, at any entry), the run of a finite call tree halts within
   fuel_for t steps: in the depth guard, or with the outermost call returned, the depth back to 0 and at most [size t]
   evalInternal entries made. *)
Lemma run_terminates_any_cancel : forall maxd ca t,
  exists h c, run maxd ca (fuel_for t) (init 0 t) = (Some h, c)
              /\ (h = GuardDepth
                  \/ (exists r, h = Done r /\ c_depth c = 0 /\ (1 <= c_visits c <= size t)%nat)).
Proof.
  intros maxd ca t. unfold fuel_for.
  destruct (exec_any_all maxd ca t [] 0 0%nat) as [n [Hn [[r [v' [Hr [Hva Hvb]]]] | [c Hg]]]].
  - exists (Done r), (mk_config (Next r) [] 0 v').
    replace (3 * size t + 3)%nat with (n + (3 * size t + 3 - n))%nat by lia.
    unfold init. rewrite (run_add _ _ _ _ _ _ Hr).
    destruct (3 * size t + 3 - n)%nat eqn:En; [ lia |]. cbn [run]. unfold step. cbn [c_mode c_stack].
    split; [ reflexivity |]. right. exists r. cbn [c_depth c_visits]. repeat split; lia.
  - exists GuardDepth, c.
    replace (3 * size t + 3)%nat with (n + (3 * size t + 3 - n))%nat by lia.
    unfold init. rewrite (run_halt_more _ _ _ _ _ _ _ Hg). split; [ reflexivity | left; reflexivity ].
Qed.

(* cancelled before the first entry: exactly one evalInternal entry, the context error, nothing else *)
Lemma cancelled_from_start : forall maxd t,
  0 <= maxd ->
  exists c, run maxd (Some 0%nat) (fuel_for t) (init 0 t) = (Some (Done RErr), c)
            /\ c_visits c = 1%nat /\ c_depth c = 0.
Proof.
  intros maxd [ve k cs] Hm. unfold fuel_for. rewrite size_unfold.
  exists (mk_config (Next RErr) [] 0 1).
  replace (3 * S (sizes cs) + 3)%nat with (S (S (3 * S (sizes cs) + 1)))%nat by lia.
  unfold init. cbn [run]. unfold step at 1. cbn [c_mode c_stack c_depth c_visits].
  assert (Eg : ve && (maxd <? 0) = false).
  { destruct ve; [ rewrite andb_true_l; apply Z.ltb_ge; lia | reflexivity ]. }
  rewrite Eg. cbn [cancelled Nat.leb]. unfold step. cbn [c_mode c_stack].
  repeat split.
Qed.
