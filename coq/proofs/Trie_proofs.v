(* Proofs about model/Trie.v (property C20). *)
From Coq Require Import List NArith Bool Lia Sorted Arith.
From GrolModel Require Import Trie.
Import ListNotations.
Local Open Scope N_scope.

(* ---------- induction principle for the nested type ---------- *)
Section trie_ind2.
  Variable P : trie -> Prop.
  Hypothesis HEnd : P TEnd.
  Hypothesis HNode : forall v mn mx ch, Forall (fun kc => P (snd kc)) ch -> P (TNode v mn mx ch).
  Fixpoint trie_ind2 (t : trie) : P t :=
    match t with
    | TEnd => HEnd
    | TNode v mn mx ch =>
      HNode v mn mx ch
        ((fix go (l : list (N * trie)) : Forall (fun kc => P (snd kc)) l :=
            match l with
            | [] => Forall_nil _
            | kc :: l' => Forall_cons kc (trie_ind2 (snd kc)) (go l')
            end) ch)
    end.
End trie_ind2.

(* ---------- words as lists of bytes: decidable equality, prefix, order ---------- *)
Fixpoint weqb (a b : word) : bool :=
  match a, b with
  | [], [] => true
  | x :: a', y :: b' => N.eqb x y && weqb a' b'
  | _, _ => false
  end.

Lemma weqb_eq a b : weqb a b = true <-> a = b.
Proof.
  revert b; induction a as [|x a IH]; destruct b as [|y b]; simpl; try (split; congruence).
  rewrite andb_true_iff, N.eqb_eq, IH. split; [intros [-> ->]; reflexivity | intros H; inversion H; auto].
Qed.

Lemma weqb_refl a : weqb a a = true.
Proof. apply weqb_eq; reflexivity. Qed.

Definition is_prefix (p w : word) : Prop := exists s, w = p ++ s.

Inductive lex_lt : word -> word -> Prop :=
| lex_nil : forall b t, lex_lt [] (b :: t)
| lex_head : forall a b s t, a < b -> lex_lt (a :: s) (b :: t)
| lex_tail : forall a s t, lex_lt s t -> lex_lt (a :: s) (a :: t).

Lemma lex_lt_app p s t : lex_lt s t -> lex_lt (p ++ s) (p ++ t).
Proof. induction p; simpl; auto using lex_tail. Qed.

(* ---------- get_child / set_child ---------- *)
Lemma get_set_child ch c x d :
  get_child (set_child ch c x) d = if N.eqb d c then Some x else get_child ch d.
Proof.
  induction ch as [|[k t] ch IH]; simpl.
  - rewrite N.eqb_sym. reflexivity.
  - destruct (N.eqb_spec k c) as [->|Hkc]; simpl.
    + rewrite (N.eqb_sym d c). destruct (N.eqb c d); reflexivity.
    + rewrite IH. destruct (N.eqb_spec k d) as [->|Hkd]; auto.
      destruct (N.eqb_spec d c); [congruence|reflexivity].
Qed.

(* ---------- membership after insertion ---------- *)
Definition mem (o : option trie) (s : word) : bool :=
  match o with None => false | Some t => contains t s end.

Definition new_child (old : option trie) (rest : word) : trie :=
  insert (match old with
          | Some TEnd => if is_nil rest then TEnd else TNode true 255 0 []
          | None => if is_nil rest then TEnd else TNode false 255 0 []
          | Some child => if is_nil rest then set_valid child else child
          end) rest.

Lemma insert_node v mn mx ch c rest :
  exists mn' mx', insert (TNode v mn mx ch) (c :: rest) =
    TNode v mn' mx' (set_child ch c (new_child (get_child ch c) rest))
    /\ ((mn' = mn /\ mx' = mx /\ (exists v' a b l, get_child ch c = Some (TNode v' a b l)))
        \/ (mn' = N.min c mn /\ mx' = N.max c mx)).
Proof.
  unfold new_child; simpl.
  destruct (get_child ch c) as [[|v' a b l]|] eqn:Hg.
  - eexists _, _; split; [reflexivity|right; auto].
  - eexists _, _; split; [reflexivity|left; repeat split; eauto].
  - eexists _, _; split; [reflexivity|right; auto].
Qed.

Lemma contains_nil_node v mn mx ch : contains (TNode v mn mx ch) [] = v.
Proof. reflexivity. Qed.

Lemma contains_cons_node v mn mx ch d s :
  contains (TNode v mn mx ch) (d :: s) = mem (get_child ch d) s.
Proof. unfold contains; simpl. destruct (get_child ch d); reflexivity. Qed.

Lemma contains_end s : contains TEnd s = is_nil s.
Proof. destruct s; reflexivity. Qed.

Lemma weqb_nil_r s : weqb s [] = is_nil s.
Proof. destruct s; reflexivity. Qed.

Lemma contains_set_valid t s : contains (set_valid t) s = contains t s || is_nil s.
Proof.
  destruct t as [|v mn mx ch]; simpl.
  - rewrite contains_end. destruct s; reflexivity.
  - destruct s as [|d s]; [rewrite !contains_nil_node; simpl; rewrite orb_true_r; reflexivity|].
    rewrite !contains_cons_node. simpl. rewrite orb_false_r. reflexivity.
Qed.

Lemma new_child_mem rest : forall old s,
  contains (new_child old rest) s = mem old s || weqb s rest.
Proof.
  induction rest as [|c rest IH]; intros old s.
  - unfold new_child; simpl. rewrite weqb_nil_r.
    destruct old as [[|v mn mx ch]|]; simpl.
    + rewrite contains_end. destruct s; reflexivity.
    + apply (contains_set_valid (TNode v mn mx ch)).
    + apply contains_end.
  - assert (Hnode : forall v mn mx ch,
              contains (insert (TNode v mn mx ch) (c :: rest)) s
              = contains (TNode v mn mx ch) s || weqb s (c :: rest)).
    { intros v mn mx ch.
      destruct (insert_node v mn mx ch c rest) as (mn' & mx' & -> & _).
      destruct s as [|d s]; [rewrite !contains_nil_node; simpl; rewrite orb_false_r; reflexivity|].
      rewrite !contains_cons_node, get_set_child. simpl.
      destruct (N.eqb d c) eqn:Hdc.
      - apply N.eqb_eq in Hdc; subst d. simpl. apply IH.
      - simpl. rewrite orb_false_r. reflexivity. }
    unfold new_child. cbn [is_nil].
    destruct old as [[|v mn mx ch]|]; cbn [mem].
    + rewrite Hnode. rewrite contains_end.
      destruct s; [reflexivity|]. rewrite contains_cons_node. reflexivity.
    + apply Hnode.
    + rewrite Hnode. destruct s; [reflexivity|]. rewrite contains_cons_node. reflexivity.
Qed.

Lemma insert_contains v mn mx ch w s :
  contains (insert (TNode v mn mx ch) w) s
  = contains (TNode v mn mx ch) s || (negb (is_nil w) && weqb s w).
Proof.
  destruct w as [|c rest]; [simpl; rewrite orb_false_r; reflexivity|].
  cbn [is_nil negb andb].
  destruct (insert_node v mn mx ch c rest) as (mn' & mx' & -> & _).
  destruct s as [|d s]; [rewrite !contains_nil_node; simpl; rewrite orb_false_r; reflexivity|].
  rewrite !contains_cons_node, get_set_child. simpl.
  destruct (N.eqb d c) eqn:Hdc.
  - apply N.eqb_eq in Hdc; subst d. simpl. apply new_child_mem.
  - simpl. rewrite orb_false_r. reflexivity.
Qed.

Lemma insert_is_node v mn mx ch w : exists v' mn' mx' ch', insert (TNode v mn mx ch) w = TNode v' mn' mx' ch'.
Proof.
  destruct w as [|c rest]; [simpl; eauto|].
  destruct (insert_node v mn mx ch c rest) as (mn' & mx' & -> & _). eauto.
Qed.

Lemma fold_insert_contains ws : forall v mn mx ch s,
  contains (fold_left insert ws (TNode v mn mx ch)) s
  = contains (TNode v mn mx ch) s || existsb (fun w => negb (is_nil w) && weqb s w) ws.
Proof.
  induction ws as [|w ws IH]; intros v mn mx ch s; simpl; [rewrite orb_false_r; reflexivity|].
  destruct (insert_is_node v mn mx ch w) as (v' & mn' & mx' & ch' & Heq).
  rewrite Heq, IH, <- Heq, insert_contains, orb_assoc. reflexivity.
Qed.

Lemma contains_build_iff ws w : contains (build ws) w = true <-> w <> [] /\ In w ws.
Proof.
  unfold build, new_trie. rewrite fold_insert_contains.
  replace (contains (TNode false 255 0 []) w) with false by (destruct w; reflexivity).
  simpl. rewrite existsb_exists. split.
  - intros (x & Hin & Hx). apply andb_true_iff in Hx as [Hn Hx]. apply weqb_eq in Hx; subst x.
    split; [destruct w; [discriminate|congruence]|assumption].
  - intros [Hn Hin]. exists w; split; [assumption|]. rewrite weqb_refl. destruct w; [congruence|reflexivity].
Qed.

(* ====================================================================================== *)
(* Part 2: structural invariant, enumeration in byte order, longest common prefix          *)
(* ====================================================================================== *)
Local Open Scope nat_scope.

Definition inhabited (t : trie) : Prop := exists s, contains t s = true.

Fixpoint wf (t : trie) : Prop :=
  match t with
  | TEnd => True
  | TNode v mn mx ch =>
    (fix all (l : list (N * trie)) : Prop :=
       match l with
       | [] => True
       | (k, c) :: l' => ((mn <= k)%N /\ (k <= mx)%N /\ wf c /\ inhabited c) /\ all l'
       end) ch
  end.

Definition child_ok (mn mx : N) (kc : N * trie) : Prop :=
  (mn <= fst kc)%N /\ (fst kc <= mx)%N /\ wf (snd kc) /\ inhabited (snd kc).

Lemma wf_node v mn mx ch : wf (TNode v mn mx ch) <-> Forall (child_ok mn mx) ch.
Proof.
  simpl. induction ch as [|[k c] ch IH]; [split; constructor|].
  rewrite Forall_cons_iff, <- IH. unfold child_ok; simpl. tauto.
Qed.

Lemma get_child_In ch k c : get_child ch k = Some c -> In (k, c) ch.
Proof.
  induction ch as [|[k' t] ch IH]; simpl; [discriminate|].
  destruct (N.eqb_spec k' k) as [->|]; [intros [= ->]; auto | auto].
Qed.

Lemma Forall_set_child (P : N * trie -> Prop) ch c x :
  Forall P ch -> P (c, x) -> Forall P (set_child ch c x).
Proof.
  induction ch as [|[k t] ch IH]; simpl; intros H Hx; [constructor; auto|].
  inversion H; subst. destruct (N.eqb_spec k c) as [->|]; constructor; auto.
Qed.

Definition wf_opt (o : option trie) : Prop := match o with Some t => wf t | None => True end.

Lemma wf_insert_step c rest :
  (forall old, wf_opt old -> wf (new_child old rest)) ->
  forall v mn mx ch, wf (TNode v mn mx ch) -> wf (insert (TNode v mn mx ch) (c :: rest)).
Proof.
  intros IH v mn mx ch Hwf.
  destruct (insert_node v mn mx ch c rest) as (mn' & mx' & -> & Hb).
  rewrite wf_node in *. rewrite Forall_forall in Hwf.
  apply Forall_set_child.
  - apply Forall_forall. intros kc Hin. specialize (Hwf kc Hin). unfold child_ok in *.
    destruct Hb as [(-> & -> & _)|(-> & ->)]; [assumption|]. repeat split; try tauto; lia.
  - unfold child_ok; simpl. repeat split.
    + destruct Hb as [(-> & -> & (v' & a & b & l & Hg))|(-> & ->)]; [|lia].
      apply get_child_In in Hg. apply (Hwf _ Hg).
    + destruct Hb as [(-> & -> & (v' & a & b & l & Hg))|(-> & ->)]; [|lia].
      apply get_child_In in Hg. apply (Hwf _ Hg).
    + apply IH. destruct (get_child ch c) eqn:Hg; simpl; [|exact I].
      apply get_child_In in Hg. apply (Hwf _ Hg).
    + exists rest. rewrite new_child_mem, weqb_refl, orb_true_r. reflexivity.
Qed.

Lemma wf_new_child rest : forall old, wf_opt old -> wf (new_child old rest).
Proof.
  induction rest as [|c rest IH]; intros old Hold.
  - unfold new_child; simpl. destruct old as [[|v mn mx ch]|]; simpl; auto.
  - unfold new_child. cbn [is_nil].
    destruct old as [[|v mn mx ch]|]; apply (wf_insert_step c rest IH); simpl; auto.
Qed.

Lemma wf_insert v mn mx ch w : wf (TNode v mn mx ch) -> wf (insert (TNode v mn mx ch) w).
Proof.
  destruct w as [|c rest]; [auto|]. apply wf_insert_step. apply wf_new_child.
Qed.

Lemma wf_fold ws : forall v mn mx ch, wf (TNode v mn mx ch) -> wf (fold_left insert ws (TNode v mn mx ch)).
Proof.
  induction ws as [|w ws IH]; intros v mn mx ch H; simpl; [exact H|].
  destruct (insert_is_node v mn mx ch w) as (v' & mn' & mx' & ch' & Heq).
  rewrite Heq. apply IH. rewrite <- Heq. apply wf_insert, H.
Qed.

Lemma wf_build ws : wf (build ws).
Proof. apply wf_fold. simpl. exact I. Qed.

(* ---------- the byte range of the scan ---------- *)
Lemma brange_sorted mn mx : StronglySorted N.lt (brange mn mx).
Proof.
  unfold brange. generalize (N.to_nat (mx + 1 - mn)) as n, (N.to_nat mn) as a.
  induction n as [|n IH]; intros a; simpl; constructor; [apply IH|].
  apply Forall_forall. intros x Hx. apply in_map_iff in Hx as (y & <- & Hy). apply in_seq in Hy. lia.
Qed.

Lemma brange_In mn mx i : (mn <= i)%N -> (i <= mx)%N -> In i (brange mn mx).
Proof.
  intros H1 H2. unfold brange. apply in_map_iff. exists (N.to_nat i). split; [apply N2Nat.id|].
  apply in_seq. lia.
Qed.

(* ---------- scan as a fold over the children that are present ---------- *)
Definition kres : Type := (N * (nat * list word))%type.

Definition kids_of (pre : word) (ch : list (N * trie)) : list kres :=
  map (fun kc => (fst kc, all_bytes (snd kc) (pre ++ [fst kc]))) ch.

Lemma all_bytes_node v mn mx ch pre :
  all_bytes (TNode v mn mx ch) pre = scan v pre (kids_of pre ch) (brange mn mx).
Proof.
  cbn [all_bytes]. f_equal. unfold kids_of.
  induction ch as [|[k c] ch IH]; simpl; [reflexivity|]. rewrite IH. reflexivity.
Qed.

Lemma lookup_kids pre ch i :
  lookup (kids_of pre ch) i = option_map (fun c => all_bytes c (pre ++ [i])) (get_child ch i).
Proof.
  induction ch as [|[k c] ch IH]; simpl; [reflexivity|].
  destruct (N.eqb_spec k i) as [->|]; [reflexivity|apply IH].
Qed.

Definition present (kids : list kres) (is : list N) : list kres :=
  flat_map (fun i => match lookup kids i with Some r => [(i, r)] | None => [] end) is.

Definition step' (acc : scan_acc) (x : kres) : scan_acc :=
  let '(res, nch, lg) := acc in (res ++ snd (snd x), S nch, Nat.max (fst (snd x)) lg).

Lemma scan_present kids is : forall acc,
  fold_left (scan_step kids) is acc = fold_left step' (present kids is) acc.
Proof.
  induction is as [|i is IH]; intros acc; simpl; [reflexivity|].
  unfold scan_step at 2. destruct (lookup kids i) as [[l more]|]; simpl; [|apply IH].
  destruct acc as [[res nch] lg]. apply IH.
Qed.

Definition more_of (x : kres) : list word := snd (snd x).
Definition len_of (x : kres) : nat := fst (snd x).

Lemma fold_step' P : forall res n lg,
  fold_left step' P (res, n, lg)
  = (res ++ flat_map more_of P, n + length P, fold_left (fun m x => Nat.max (len_of x) m) P lg).
Proof.
  induction P as [|x P IH]; intros res n lg; simpl.
  - rewrite app_nil_r, Nat.add_0_r. reflexivity.
  - rewrite IH, <- app_assoc. unfold more_of, len_of.
    replace (S n + length P) with (n + S (length P)) by lia. reflexivity.
Qed.

Lemma present_In kids is x :
  In x (present kids is) <-> In (fst x) is /\ lookup kids (fst x) = Some (snd x).
Proof.
  unfold present. rewrite in_flat_map. split.
  - intros (i & Hi & Hx). destruct (lookup kids i) eqn:Hl; simpl in Hx; [|tauto].
    destruct Hx as [<-|[]]. simpl. auto.
  - intros [Hi Hl]. exists (fst x). split; [assumption|]. rewrite Hl. left. destruct x; reflexivity.
Qed.

Lemma present_sorted kids is :
  StronglySorted N.lt is -> StronglySorted N.lt (map fst (present kids is)).
Proof.
  induction 1 as [|i is Hs IH Hall]; simpl; [constructor|].
  assert (Hrest : Forall (N.lt i) (map fst (present kids is))).
  { apply Forall_forall. intros j Hj. apply in_map_iff in Hj as (x & <- & Hx).
    apply present_In in Hx as [Hx _]. rewrite Forall_forall in Hall. auto. }
  destruct (lookup kids i); simpl; [constructor; assumption|assumption].
Qed.

(* ---------- common prefixes ---------- *)
Definition common_len (l : nat) (ws : list word) : Prop :=
  forall w1 w2, In w1 ws -> In w2 ws -> firstn l w1 = firstn l w2 /\ l <= length w1.

(* l is the length of the longest common prefix of the (non-empty) list ws *)
Definition lcp_len (l : nat) (ws : list word) : Prop :=
  common_len l ws /\ ~ common_len (S l) ws.

Lemma firstn_app_exact (p s : word) : firstn (length p) (p ++ s) = p.
Proof. rewrite firstn_app, Nat.sub_diag, firstn_all. simpl. apply app_nil_r. Qed.

Lemma firstn_S_app (p : word) i s : firstn (S (length p)) (p ++ i :: s) = p ++ [i].
Proof.
  rewrite firstn_app. replace (S (length p) - length p) with 1 by lia.
  rewrite firstn_all2 by lia. reflexivity.
Qed.

Lemma lcp_single (w : word) : lcp_len (length w) [w].
Proof.
  split.
  - intros w1 w2 [<-|[]] [<-|[]]. auto.
  - intros H. destruct (H w w (or_introl eq_refl) (or_introl eq_refl)) as [_ Hl]. lia.
Qed.

Lemma common_all_prefixed (pre : word) ws :
  (forall w, In w ws -> exists s, w = pre ++ s) -> common_len (length pre) ws.
Proof.
  intros H w1 w2 H1 H2. destruct (H _ H1) as [s1 ->]. destruct (H _ H2) as [s2 ->].
  rewrite !firstn_app_exact, app_length. split; [reflexivity|lia].
Qed.

(* ---------- what the induction hypothesis gives for one present child ---------- *)
Definition good (pre : word) (x : kres) : Prop :=
  (forall w, In w (more_of x) -> exists s, w = pre ++ fst x :: s)
  /\ more_of x <> []
  /\ StronglySorted lex_lt (more_of x)
  /\ S (length pre) <= len_of x
  /\ lcp_len (len_of x) (more_of x).

Lemma StronglySorted_app {A} (R : A -> A -> Prop) l1 l2 :
  StronglySorted R l1 -> StronglySorted R l2 ->
  (forall a b, In a l1 -> In b l2 -> R a b) -> StronglySorted R (l1 ++ l2).
Proof.
  induction 1 as [|a l1 Hs IH Hall]; intros H2 Hc; simpl; [assumption|].
  constructor.
  - apply IH; [assumption|]. intros x y Hx Hy. apply Hc; [right|]; assumption.
  - apply Forall_app. split; [assumption|]. apply Forall_forall. intros y Hy. apply Hc; [left; reflexivity|assumption].
Qed.

Lemma flat_sorted pre P :
  StronglySorted N.lt (map fst P) -> Forall (good pre) P ->
  StronglySorted lex_lt (flat_map more_of P).
Proof.
  induction P as [|x P IH]; simpl; intros Hs Hg; [constructor|].
  inversion Hs as [|? ? Hs' Hlt]; subst. inversion Hg as [|? ? Hgx Hg']; subst.
  apply StronglySorted_app; [apply Hgx|apply IH; assumption|].
  intros a b Ha Hb. apply in_flat_map in Hb as (y & Hy & Hb).
  destruct Hgx as (Hpx & _). destruct (Hpx _ Ha) as [s1 ->].
  rewrite Forall_forall in Hg'. destruct (Hg' _ Hy) as (Hpy & _). destruct (Hpy _ Hb) as [s2 ->].
  apply lex_lt_app, lex_head. rewrite Forall_forall in Hlt. apply Hlt. apply in_map. assumption.
Qed.

Lemma flat_prefixed pre P w :
  Forall (good pre) P -> In w (flat_map more_of P) -> exists s, w = pre ++ s /\ s <> [].
Proof.
  intros Hg Hw. apply in_flat_map in Hw as (x & Hx & Hw). rewrite Forall_forall in Hg.
  destruct (Hg _ Hx) as (Hp & _). destruct (Hp _ Hw) as [s ->]. eexists; split; [reflexivity|discriminate].
Qed.

(* the arithmetic of numChildren / longest, by the shape of the list of present children *)
Lemma scan_lcp (v : bool) pre P :
  StronglySorted N.lt (map fst P) -> Forall (good pre) P ->
  let res := (if v then [pre] else []) ++ flat_map more_of P in
  let nch := (if v then 1 else 0) + length P in
  let lg := fold_left (fun m x => Nat.max (len_of x) m) P (length pre) in
  let l := if Nat.ltb 1 nch then length pre else lg in
  length pre <= l /\ (res <> [] -> lcp_len l res).
Proof.
  intros Hs Hg res nch lg l.
  assert (Hpre : forall w, In w res -> exists s, w = pre ++ s).
  { intros w Hw. apply in_app_or in Hw as [Hw|Hw].
    - destruct v; [destruct Hw as [<-|[]]; exists []; rewrite app_nil_r; reflexivity|destruct Hw].
    - destruct (flat_prefixed _ _ _ Hg Hw) as (s & -> & _). eauto. }
  destruct P as [|x [|y P]].
  - (* no child *) subst res nch lg l. simpl. destruct v; simpl.
    + split; [lia|]. intros _. apply lcp_single.
    + split; [lia|]. intros H; congruence.
  - (* exactly one child *)
    inversion Hg as [|? ? Hgx _]; subst. destruct Hgx as (Hpx & Hne & Hsx & Hlx & Hlcp).
    destruct v; subst res nch lg l; simpl.
    + split; [lia|]. intros _. split; [apply common_all_prefixed, Hpre|].
      intros H. destruct (H pre pre) as [_ Hl]; simpl; auto. lia.
    + rewrite app_nil_r in *. rewrite Nat.max_l by lia. split; [lia|]. intros _. exact Hlcp.
  - (* two or more children *)
    assert (Hl : l = length pre).
    { subst l nch. destruct v; simpl; reflexivity. }
    rewrite Hl. split; [lia|]. intros _. split; [apply common_all_prefixed, Hpre|].
    inversion Hg as [|? ? Hgx Hg']; subst. inversion Hg' as [|? ? Hgy _]; subst.
    inversion Hs as [|? ? _ Hlt]; subst. inversion Hlt as [|? ? Hxy _]; subst.
    destruct Hgx as (Hpx & Hnx & _). destruct Hgy as (Hpy & Hny & _).
    destruct (more_of x) as [|w1 ?] eqn:Ex; [congruence|]. destruct (more_of y) as [|w2 ?] eqn:Ey; [congruence|].
    destruct (Hpx w1 (or_introl eq_refl)) as [s1 E1]. destruct (Hpy w2 (or_introl eq_refl)) as [s2 E2].
    intros H. destruct (H w1 w2) as [Hf _].
    + apply in_or_app; right. simpl. rewrite Ex. left; reflexivity.
    + apply in_or_app; right. simpl. rewrite Ey. apply in_or_app; right. apply in_or_app; left. left; reflexivity.
    + subst w1 w2. rewrite !firstn_S_app in Hf. apply app_inv_head in Hf. injection Hf as Hf. lia.
Qed.

(* ---------- the specification of AllBytes ---------- *)
Definition Spec (t : trie) (pre : word) : Prop :=
  let r := all_bytes t pre in
  (forall w, In w (snd r) <-> exists s, w = pre ++ s /\ contains t s = true)
  /\ StronglySorted lex_lt (snd r)
  /\ length pre <= fst r
  /\ (snd r <> [] -> lcp_len (fst r) (snd r)).

Lemma all_bytes_spec : forall t, wf t -> forall pre, Spec t pre.
Proof.
  induction t as [|v mn mx ch IH] using trie_ind2; intros Hwf pre.
  - unfold Spec; simpl. split; [|split; [|split]].
    + intros w. split.
      * intros [<-|[]]. exists []. rewrite app_nil_r. auto.
      * intros (s & -> & Hs). rewrite contains_end in Hs. destruct s; [|discriminate]. rewrite app_nil_r; auto.
    + repeat constructor.
    + lia.
    + intros _. apply lcp_single.
  - rewrite wf_node in Hwf. rewrite Forall_forall in IH, Hwf.
    set (P := present (kids_of pre ch) (brange mn mx)).
    assert (HP : forall x, In x P <-> In (fst x) (brange mn mx) /\
                  exists c, get_child ch (fst x) = Some c /\ snd x = all_bytes c (pre ++ [fst x])).
    { intros x. unfold P. rewrite present_In, lookup_kids. split; intros [Hi Hx]; split; auto.
      - destruct (get_child ch (fst x)) as [c|]; [|discriminate]. injection Hx as <-. eauto.
      - destruct Hx as (c & -> & ->). reflexivity. }
    assert (Hchild : forall i c, get_child ch i = Some c -> wf c /\ inhabited c /\ (mn <= i)%N /\ (i <= mx)%N /\
                                  forall pre', Spec c pre').
    { intros i c Hg. apply get_child_In in Hg. destruct (Hwf _ Hg) as (H1 & H2 & H3 & H4). simpl in *.
      split; [|split; [|split; [|split]]]; auto. apply (IH _ Hg); assumption. }
    assert (Hg : Forall (good pre) P).
    { apply Forall_forall. intros x Hx. apply HP in Hx as (_ & c & Hc & Hx).
      destruct (Hchild _ _ Hc) as (_ & (s0 & Hs0) & _ & _ & Hsp). specialize (Hsp (pre ++ [fst x])).
      unfold Spec in Hsp. rewrite <- Hx in Hsp. destruct Hsp as (S1 & S2 & S3 & S4).
      assert (Hne : more_of x <> []).
      { intros E. assert (Hin : In ((pre ++ [fst x]) ++ s0) (more_of x)) by (apply S1; eauto). rewrite E in Hin. destruct Hin. }
      unfold good. split; [|split; [|split; [|split]]]; auto.
      - intros w Hw. apply S1 in Hw as (s & -> & _). exists s. rewrite <- app_assoc. reflexivity.
      - rewrite app_length in S3. simpl in S3. unfold len_of. lia. }
    assert (Hs : StronglySorted N.lt (map fst P)) by (apply present_sorted, brange_sorted).
    unfold Spec. rewrite all_bytes_node. unfold scan. rewrite scan_present. fold P.
    rewrite fold_step'. cbn [fst snd].
    pose proof (scan_lcp v pre P Hs Hg) as Hl. cbv zeta in Hl. destruct Hl as [Hl1 Hl2].
    split; [|split; [|split; assumption]].
    + (* membership *)
      intros w. rewrite in_app_iff, in_flat_map. split.
      * intros [Hw|(x & Hx & Hw)].
        -- destruct v; [|destruct Hw]. destruct Hw as [<-|[]]. exists []. rewrite app_nil_r. auto.
        -- apply HP in Hx as (_ & c & Hc & Hx). destruct (Hchild _ _ Hc) as (_ & _ & _ & _ & Hsp).
           specialize (Hsp (pre ++ [fst x])). unfold Spec in Hsp. rewrite <- Hx in Hsp.
           destruct Hsp as (S1 & _). apply S1 in Hw as (s & -> & Hs'). exists (fst x :: s).
           rewrite <- app_assoc. split; [reflexivity|]. rewrite contains_cons_node, Hc. exact Hs'.
      * intros (s & -> & Hc). destruct s as [|i s].
        -- rewrite contains_nil_node in Hc. subst v. left. rewrite app_nil_r. left; reflexivity.
        -- rewrite contains_cons_node in Hc. destruct (get_child ch i) as [c|] eqn:Hgc; [|discriminate].
           destruct (Hchild _ _ Hgc) as (_ & _ & Hmn & Hmx & Hsp). right.
           exists (i, all_bytes c (pre ++ [i])). split.
           ++ apply HP. simpl. split; [apply brange_In; assumption|eauto].
           ++ specialize (Hsp (pre ++ [i])). destruct Hsp as (S1 & _). unfold more_of; simpl.
              apply S1. exists s. rewrite <- app_assoc. auto.
    + (* order *)
      apply StronglySorted_app.
      * destruct v; repeat constructor.
      * apply (flat_sorted pre); assumption.
      * intros a b Ha Hb. destruct v; [|destruct Ha]. destruct Ha as [<-|[]].
        destruct (flat_prefixed _ _ _ Hg Hb) as (s & -> & Hne).
        rewrite <- (app_nil_r pre) at 1. apply lex_lt_app. destruct s; [congruence|constructor].
Qed.

(* ---------- Prefix and PrefixAll ---------- *)
Lemma prefix_contains p : forall t,
  match prefix t p with
  | Some t' => wf t -> wf t' /\ forall s, contains t' s = contains t (p ++ s)
  | None => forall s, contains t (p ++ s) = false
  end.
Proof.
  induction p as [|c p IH]; intros t; simpl; [auto|].
  destruct t as [|v mn mx ch]; [reflexivity|].
  destruct (get_child ch c) as [t'|] eqn:Hg.
  - specialize (IH t'). destruct (prefix t' p).
    + intros Hwf. rewrite wf_node in Hwf. rewrite Forall_forall in Hwf.
      destruct (Hwf _ (get_child_In _ _ _ Hg)) as (_ & _ & Hw & _). destruct (IH Hw) as [H1 H2].
      split; [assumption|]. intros s. rewrite contains_cons_node, Hg. apply H2.
    + intros s. rewrite contains_cons_node, Hg. apply IH.
  - intros s. rewrite contains_cons_node, Hg. reflexivity.
Qed.

Definition PrefixAllSpec (t : trie) (p : word) : Prop :=
  let r := prefix_all t p in
  (forall w, In w (snd r) <-> is_prefix p w /\ contains t w = true)
  /\ StronglySorted lex_lt (snd r)
  /\ (snd r <> [] -> length p <= fst r /\ lcp_len (fst r) (snd r)).

Lemma prefix_all_spec t p : wf t -> PrefixAllSpec t p.
Proof.
  intros Hwf. unfold PrefixAllSpec, prefix_all. pose proof (prefix_contains p t) as Hp.
  destruct (prefix t p) as [t'|].
  - destruct (Hp Hwf) as [Hw' Hc]. destruct (all_bytes_spec t' Hw' p) as (S1 & S2 & S3 & S4).
    split; [|split; [assumption|auto]].
    intros w. rewrite S1. unfold is_prefix. split.
    + intros (s & -> & Hs). rewrite Hc in Hs. eauto.
    + intros ((s & ->) & Hs). rewrite <- Hc in Hs. eauto.
  - simpl. split; [|split; [constructor|congruence]].
    intros w. split; [tauto|]. intros ((s & ->) & Hs). rewrite Hp in Hs. discriminate.
Qed.

(* ---------- statements over insertion sequences ---------- *)
Definition candidates (ws : list word) (p w : word) : Prop := w <> [] /\ In w ws /\ is_prefix p w.

Lemma build_prefix_all ws p :
  let r := prefix_all (build ws) p in
  (forall w, In w (snd r) <-> candidates ws p w)
  /\ StronglySorted lex_lt (snd r)
  /\ (snd r <> [] -> length p <= fst r /\ lcp_len (fst r) (snd r)).
Proof.
  destruct (prefix_all_spec (build ws) p (wf_build ws)) as (S1 & S2 & S3).
  split; [|split; assumption]. intros w. rewrite S1, contains_build_iff. unfold candidates. tauto.
Qed.

Lemma build_complete ws typed :
  match complete (build ws) typed with
  | None => forall w, ~ candidates ws typed w
  | Some (line, pos) =>
      pos = length line /\ is_prefix typed line
      /\ (exists w, candidates ws typed w)
      /\ (forall w, candidates ws typed w -> is_prefix line w)
  end.
Proof.
  unfold complete. destruct (build_prefix_all ws typed) as (S1 & S2 & S3).
  destruct (prefix_all (build ws) typed) as [l res]. simpl in *.
  destruct res as [|c0 res].
  - intros w Hw. apply S1 in Hw. destruct Hw.
  - destruct S3 as [Hl [Hcom _]]; [discriminate|].
    assert (Hc0 : candidates ws typed c0) by (apply S1; left; reflexivity).
    destruct Hc0 as (Hne & Hin & (s & Hs)).
    destruct (Hcom c0 c0 (or_introl eq_refl) (or_introl eq_refl)) as [_ Hlen].
    repeat split.
    + rewrite firstn_length. lia.
    + exists (firstn (l - length typed) s). rewrite Hs, firstn_app. f_equal.
      rewrite firstn_all2 by lia. reflexivity.
    + exists c0. unfold candidates. repeat split; eauto. exists s; assumption.
    + intros w Hw. apply S1 in Hw. destruct (Hcom w c0 Hw (or_introl eq_refl)) as [Hf _].
      exists (skipn l w). rewrite <- Hf. symmetry. apply firstn_skipn.
Qed.
