(* Lemmas about the register file / control skeleton machine of model/Registers.v (C05, C10). *)
From Coq Require Import List ZArith NArith Bool Arith Lia.
From GrolGen Require Import Gen_Consts.
From GrolModel Require Import Ast Modify Registers.
Import ListNotations.

(* ---------- induction on skeletons (nested lists) ---------- *)
Section SkelInd.
  Variable P : skel -> Prop.
  Hypothesis Hleaf : forall l, P (KLeaf l).
  Hypothesis Hprobe : P KProbe.
  Hypothesis Hseq : forall l, Forall P l -> P (KSeq l).
  Hypothesis Hloop : forall a b l, Forall P l -> P (KLoop a b l).
  Hypothesis Hcatch : forall b, P b -> P (KCatch b).
  Hypothesis Hcall : forall n b, P b -> P (KCall n b).

  Fixpoint skel_ind' (s : skel) : P s :=
    match s with
    | KLeaf l => Hleaf l
    | KProbe => Hprobe
    | KSeq l =>
        Hseq l ((fix go (l : list skel) : Forall P l :=
                   match l with
                   | [] => Forall_nil P
                   | x :: tl => Forall_cons x (skel_ind' x) (go tl)
                   end) l)
    | KLoop a b l =>
        Hloop a b l ((fix go (l : list skel) : Forall P l :=
                        match l with
                        | [] => Forall_nil P
                        | x :: tl => Forall_cons x (skel_ind' x) (go tl)
                        end) l)
    | KCatch b => Hcatch b (skel_ind' b)
    | KCall n b => Hcall n b (skel_ind' b)
    end.
End SkelInd.

(* ---------- list facts ---------- *)
Lemma set_nth_length : forall l i v, length (set_nth i v l) = length l.
Proof. induction l; destruct i; simpl; intros; auto. Qed.

Lemma set_nth_same : forall l i v, nth_error l i = Some v -> set_nth i v l = l.
Proof.
  induction l; destruct i; simpl; intros; auto; try discriminate.
  - inversion H; reflexivity.
  - f_equal; auto.
Qed.

Lemma set_nth_set_nth : forall l i v w, set_nth i v (set_nth i w l) = set_nth i v l.
Proof. induction l; destruct i; simpl; intros; auto. f_equal; auto. Qed.

Lemma nth_error_set_nth : forall l i v, i < length l -> nth_error (set_nth i v l) i = Some v.
Proof.
  induction l; destruct i; simpl; intros; try lia; auto.
  apply IHl; lia.
Qed.

Lemma set_nth_app : forall l e i v, i < length l -> set_nth i v (l ++ e) = set_nth i v l ++ e.
Proof.
  induction l; destruct i; simpl; intros; try lia; auto.
  f_equal; apply IHl; lia.
Qed.

Lemma nth_error_app_l : forall (l e : list nat) i, i < length l -> nth_error (l ++ e) i = nth_error l i.
Proof. intros; apply nth_error_app1; auto. Qed.

Lemma firstn_app_exact : forall (l e : list nat), firstn (length l) (l ++ e) = l.
Proof.
  intros. rewrite firstn_app, Nat.sub_diag, firstn_all. simpl. apply app_nil_r.
Qed.

Lemma cur_idx_lt : forall m, envs m <> [] -> cur_idx m < length (envs m).
Proof. intros m H. unfold cur_idx. destruct (envs m); [congruence | simpl; lia]. Qed.

Lemma mstate_eta : forall m, mkM (envs m) (depth m) (outs m) = m.
Proof. destruct m; reflexivity. Qed.

(* ---------- pure_signal never produces a register-machinery failure ---------- *)
Definition machinery_failure (g : signal) : bool :=
  match g with
  | GPanic PNoRegisters | GPanic PNonLifo | GStuck => true
  | _ => false
  end.

Lemma leaf_signal_ok : forall l, machinery_failure (leaf_signal l) = false.
Proof. destruct l; reflexivity. Qed.

Lemma seq_signal_ok : forall l, Forall (fun s => machinery_failure (pure_signal s) = false) l ->
  machinery_failure (seq_signal pure_signal l) = false.
Proof.
  induction 1; simpl; auto.
  destruct (pure_signal x) eqn:E; auto.
Qed.

Lemma iters_signal_ok : forall l, Forall (fun s => machinery_failure (pure_signal s) = false) l ->
  machinery_failure (iters_signal pure_signal l) = false.
Proof.
  induction 1; simpl; auto.
  destruct (pure_signal x) eqn:E; auto.
Qed.

Lemma pure_signal_ok : forall s, machinery_failure (pure_signal s) = false.
Proof.
  induction s using skel_ind'; simpl.
  - apply leaf_signal_ok.
  - reflexivity.
  - apply seq_signal_ok; auto.
  - apply iters_signal_ok; auto.
  - destruct (pure_signal s) as [| | | | |k|] eqn:E; simpl; auto.
  - destruct (pure_signal s) as [| | | | |k|] eqn:E; simpl; auto.
Qed.

(* ---------- the invariant of one evaluation on the repaired tree ---------- *)
(* [good r s]: evaluating s from any state with at least one environment
     - ends with the signal pure_signal s (the register machinery never interferes),
     - leaves the whole control state as it was unless a Go panic is unwinding,
     - and even then every pre-existing environment keeps its register count. *)
Definition good (r : bool) (s : skel) : Prop :=
  forall m g m' t, envs m <> [] -> eval (repaired r) s m = (g, m', t) ->
    g = pure_signal s
    /\ (is_abort g = false -> m' = m)
    /\ exists extra, envs m' = envs m ++ extra.

Lemma run_seq_good : forall r l, Forall (good r) l ->
  forall m g m' t, envs m <> [] -> run_seq (eval (repaired r)) l m = (g, m', t) ->
    g = seq_signal pure_signal l
    /\ (is_abort g = false -> m' = m)
    /\ exists extra, envs m' = envs m ++ extra.
Proof.
  induction 1 as [|x l Hx Hl IH]; simpl; intros m g m' t Hne E.
  - inversion E; subst. repeat split; auto. exists []. rewrite app_nil_r; auto.
  - destruct (eval (repaired r) x m) as [[g1 m1] t1] eqn:E1.
    destruct (Hx _ _ _ _ Hne E1) as (Hg & Hsame & extra1 & Hex).
    rewrite <- Hg.
    destruct g1; try (inversion E; subst; repeat split; auto; exists extra1; auto).
    (* GNormal: continue *)
    assert (m1 = m) by (apply Hsame; reflexivity). subst m1.
    destruct (run_seq (eval (repaired r)) l m) as [[g2 m2] t2] eqn:E2.
    inversion E; subst.
    apply (IH _ _ _ _ Hne E2).
Qed.

Lemma run_iters_good : forall r l, Forall (good r) l ->
  forall m e m' t, envs m <> [] -> run_iters (eval (repaired r)) l m = (e, m', t) ->
    loop_signal e = iters_signal pure_signal l
    /\ (is_abort (loop_signal e) = false -> m' = m)
    /\ exists extra, envs m' = envs m ++ extra.
Proof.
  induction 1 as [|x l Hx Hl IH]; simpl; intros m e m' t Hne E.
  - inversion E; subst. repeat split; auto. exists []. rewrite app_nil_r; auto.
  - destruct (eval (repaired r) x m) as [[g1 m1] t1] eqn:E1.
    destruct (Hx _ _ _ _ Hne E1) as (Hg & Hsame & extra1 & Hex).
    rewrite <- Hg.
    destruct g1;
      try (inversion E; subst; simpl; repeat split; auto; try (exists extra1; auto); fail).
    + (* GNormal *)
      assert (m1 = m) by (apply Hsame; reflexivity). subst m1.
      destruct (run_iters (eval (repaired r)) l m) as [[e2 m2] t2] eqn:E2.
      inversion E; subst. apply (IH _ _ _ _ Hne E2).
    + (* GContinue *)
      assert (m1 = m) by (apply Hsame; reflexivity). subst m1.
      destruct (run_iters (eval (repaired r)) l m) as [[e2 m2] t2] eqn:E2.
      inversion E; subst. apply (IH _ _ _ _ Hne E2).
Qed.

Lemma eval_good : forall r s, good r s.
Proof.
  intros r s. induction s using skel_ind'; unfold good; intros m g m' t Hne E.
  - (* leaf *)
    simpl in E. inversion E; subst. repeat split; auto. exists []; rewrite app_nil_r; auto.
  - (* probe *)
    simpl in E. unfold get_env in E.
    destruct (nth_error (envs m) (cur_idx m)) eqn:En.
    + inversion E; subst. repeat split; auto. exists []; rewrite app_nil_r; auto.
    + apply nth_error_None in En. pose proof (cur_idx_lt m Hne). lia.
  - (* seq *)
    simpl in E. apply (run_seq_good r l H m g m' t Hne E).
  - (* loop *)
    simpl in E.
    assert (Hplain : forall g m' t,
      (let '(e, m1, t) := run_iters (eval (repaired r)) l m in (loop_signal e, m1, t)) = (g, m', t) ->
      g = iters_signal pure_signal l /\ (is_abort g = false -> m' = m)
      /\ exists extra, envs m' = envs m ++ extra).
    { intros g0 m0 t0 E0.
      destruct (run_iters (eval (repaired r)) l m) as [[e1 m1] t1] eqn:E1.
      inversion E0; subst.
      apply (run_iters_good r l H m e1 m0 t0 Hne E1). }
    destruct (a && r) eqn:Har; [| apply (Hplain _ _ _ E)].
    pose proof (cur_idx_lt m Hne) as Hlt.
    unfold get_env in E.
    destruct (nth_error (envs m) (cur_idx m)) as [n|] eqn:En;
      [| apply nth_error_None in En; lia].
    destruct (n <? num_registers) eqn:Hcap; [| apply (Hplain _ _ _ E)].
    unfold make_register, get_env in E. rewrite En, Hcap in E.
    replace (b || true) with true in E by (destruct b; reflexivity).
    simpl fix_release in E. cbv iota in E.
    set (m1 := set_env (cur_idx m) (S n) m) in *.
    assert (Hne1 : envs m1 <> []).
    { unfold m1, set_env; simpl. intro Hc. apply (f_equal (@length nat)) in Hc.
      rewrite set_nth_length in Hc. simpl in Hc. lia. }
    destruct (run_iters (eval (repaired r)) l m1) as [[e2 m2] t2] eqn:E2.
    destruct (run_iters_good r l H m1 e2 m2 t2 Hne1 E2) as (Hsig & Hsame & extra & Hex).
    simpl orb in E. cbv iota in E.
    assert (Hlen1 : length (envs m1) = length (envs m)) by (unfold m1; simpl; apply set_nth_length).
    assert (Hget : nth_error (envs m2) (cur_idx m) = Some (S n)).
    { rewrite Hex. rewrite nth_error_app_l by lia.
      unfold m1; simpl. apply nth_error_set_nth; auto. }
    unfold release_register, get_env in E. rewrite Hget, Nat.eqb_refl in E.
    inversion E; subst g m' t; clear E.
    split; [exact Hsig|]. split.
    + intros Hna. specialize (Hsame Hna). subst m2.
      unfold m1, set_env; simpl. rewrite set_nth_set_nth.
      rewrite set_nth_same by exact En. apply mstate_eta.
    + exists extra. unfold set_env; simpl. rewrite Hex.
      rewrite set_nth_app by lia. f_equal.
      unfold m1; simpl. rewrite set_nth_set_nth. apply set_nth_same; exact En.
  - (* catch *)
    simpl in E.
    destruct (eval (repaired r) s m) as [[g1 m1] t1] eqn:E1.
    destruct (IHs m g1 m1 t1 Hne E1) as (Hg & Hsame & extra & Hex).
    simpl pure_signal. rewrite <- Hg.
    destruct g1; inversion E; subst; (split; [reflexivity|]); (split; [auto|]); exists extra; auto.
  - (* call *)
    simpl in E.
    replace (r && false && (num_registers <? n)) with false in E
      by (destruct r; reflexivity).
    set (m1 := mkM (envs m ++ [if r then Nat.min n num_registers else 0]) (S (depth m)) (S (outs m))) in *.
    assert (Hne1 : envs m1 <> []) by (unfold m1; simpl; destruct (envs m); simpl; congruence).
    destruct (eval (repaired r) s m1) as [[g1 m2] t1] eqn:E1.
    destruct (IHs m1 g1 m2 t1 Hne1 E1) as (Hg & Hsame & extra & Hex).
    simpl pure_signal. rewrite <- Hg.
    destruct (is_abort g1) eqn:Hab.
    + inversion E; subst. split; [reflexivity|]. split; [congruence|].
      exists ((if r then Nat.min n num_registers else 0) :: extra).
      rewrite Hex. unfold m1; simpl. rewrite <- app_assoc. reflexivity.
    + inversion E; subst. split; [reflexivity|]. split.
      * intros _. specialize (Hsame eq_refl). subst m2. unfold m1; simpl.
        rewrite firstn_app_exact. apply mstate_eta.
      * exists []. simpl. rewrite app_nil_r.
        specialize (Hsame eq_refl). subst m2. unfold m1; simpl.
        apply firstn_app_exact.
Qed.

(* ---------- the C05 mechanism theorems ---------- *)

(* LIFO discipline: after evaluating any skeleton, whatever the outcome (value, error, break,
   continue, return, run-time panic, depth panic), every environment that existed before has
   the register count it had before; unless a panic is unwinding the whole control state
   (current environment, depth, output writer) is the one before. *)
Theorem regfile_balanced_lemma : forall (r : bool) (s : skel) (m : mstate) g m' t,
  envs m <> [] -> eval (repaired r) s m = (g, m', t) ->
  (forall i, i < length (envs m) -> nth_error (envs m') i = nth_error (envs m) i)
  /\ (is_abort g = false -> m' = m).
Proof.
  intros r s m g m' t Hne E.
  destruct (eval_good r s m g m' t Hne E) as (_ & Hsame & extra & Hex).
  split; auto.
  intros i Hi. rewrite Hex. apply nth_error_app_l; auto.
Qed.

(* MakeRegister is only reached with numReg < NumRegisters, ReleaseRegister's index test never
   fails, and no environment index is ever out of range: the three failure outcomes of the
   register machinery are unreachable. *)
Theorem regfile_no_failure_lemma : forall (r : bool) (s : skel) (m : mstate) g m' t,
  envs m <> [] -> eval (repaired r) s m = (g, m', t) ->
  g <> GPanic PNoRegisters /\ g <> GPanic PNonLifo /\ g <> GStuck.
Proof.
  intros r s m g m' t Hne E.
  destruct (eval_good r s m g m' t Hne E) as (Hg & _).
  pose proof (pure_signal_ok s) as Hok. rewrite <- Hg in Hok.
  repeat split; intro Hc; rewrite Hc in Hok; discriminate.
Qed.

(* the control outcome does not depend on registers being enabled *)
Theorem skeleton_signal_reg_independent : forall (s : skel) (m1 m2 : mstate),
  envs m1 <> [] -> envs m2 <> [] ->
  fst (fst (eval (repaired true) s m1)) = fst (fst (eval (repaired false) s m2)).
Proof.
  intros s m1 m2 H1 H2.
  destruct (eval (repaired true) s m1) as [[g1 a1] t1] eqn:E1.
  destruct (eval (repaired false) s m2) as [[g2 a2] t2] eqn:E2.
  simpl.
  destruct (eval_good true s m1 g1 a1 t1 H1 E1) as (G1 & _).
  destruct (eval_good false s m2 g2 a2 t2 H2 E2) as (G2 & _).
  congruence.
Qed.

Theorem regfile_never_overflows_lemma : forall (r : bool) (s : skel) (m : mstate) g m' t,
  envs m <> [] -> eval (repaired r) s m = (g, m', t) -> g <> GPanic PNoRegisters.
Proof. intros r s m g m' t H E. exact (proj1 (regfile_no_failure_lemma r s m g m' t H E)). Qed.

Theorem release_is_lifo_lemma : forall (r : bool) (s : skel) (m : mstate) g m' t,
  envs m <> [] -> eval (repaired r) s m = (g, m', t) -> g <> GPanic PNonLifo /\ g <> GStuck.
Proof. intros r s m g m' t H E. exact (proj2 (regfile_no_failure_lemma r s m g m' t H E)). Qed.
