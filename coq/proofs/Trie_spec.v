(* C20, refinement to an executable specification: the answer of a prefix query on the trie built from ANY insertion
   sequence IS the sorted duplicate-free list of the inserted non-empty words that start with the prefix (computed by
   filter + insertion into a strictly sorted list, no trie anywhere), and the reported length IS the longest common
   prefix of that list computed word by word.  Derived from the characterisation theorems of Trie_proofs.v through
   "a strictly sorted list is determined by its elements" and "the longest-common-prefix length is unique". *)
From Coq Require Import List Arith NArith Sorted Lia Bool.
From GrolModel Require Import Trie.
From GrolProofs Require Import Trie_proofs Trie_order.
Import ListNotations.

(* ---------- the byte-lexicographic order, decided ---------- *)
Fixpoint lex_ltb (a b : word) : bool :=
  match a, b with
  | [], _ :: _ => true
  | x :: a', y :: b' => if N.ltb x y then true else if N.eqb x y then lex_ltb a' b' else false
  | _, _ => false
  end.

Lemma lex_ltb_spec a : forall b, lex_ltb a b = true <-> lex_lt a b.
Proof.
  induction a as [|x a IH]; intros [|y b]; simpl.
  - split; [discriminate | intro H; inversion H].
  - split; [intros _; constructor | reflexivity].
  - split; [discriminate | intro H; inversion H].
  - destruct (N.ltb_spec x y) as [Hlt|Hge].
    + split; [intros _; apply lex_head; exact Hlt | reflexivity].
    + destruct (N.eqb_spec x y) as [->|Hne].
      * rewrite IH. split; [apply lex_tail|].
        intro H; inversion H as [| ? ? ? ? Hlt | ? ? ? Ht]; subst; [lia | exact Ht].
      * split; [discriminate|].
        intro H; inversion H as [| ? ? ? ? Hlt | ? ? ? Ht]; subst; [lia | congruence].
Qed.

Lemma lex_total a : forall b, lex_lt a b \/ a = b \/ lex_lt b a.
Proof.
  induction a as [|x a IH]; intros [|y b].
  - right; left; reflexivity.
  - left; constructor.
  - right; right; constructor.
  - destruct (N.lt_trichotomy x y) as [H|[H|H]].
    + left; apply lex_head; exact H.
    + subst y. destruct (IH b) as [H|[H|H]].
      * left; apply lex_tail; exact H.
      * right; left; f_equal; exact H.
      * right; right; apply lex_tail; exact H.
    + right; right; apply lex_head; exact H.
Qed.

Lemma lex_lt_trans a : forall b c, lex_lt a b -> lex_lt b c -> lex_lt a c.
Proof.
  induction a as [|x a IH]; intros b c H1 H2.
  - inversion H1; subst. inversion H2; subst; constructor.
  - inversion H1 as [| ? ? ? ? Hlt | ? ? ? Ht]; subst.
    + inversion H2 as [| ? ? ? ? Hlt2 | ? ? ? Ht2]; subst; apply lex_head; lia.
    + inversion H2 as [| ? ? ? ? Hlt2 | ? ? ? Ht2]; subst;
        [apply lex_head; exact Hlt2 | apply lex_tail; eapply IH; eassumption].
Qed.

(* ---------- a set of words as a strictly sorted list ---------- *)
Fixpoint sinsert (w : word) (l : list word) : list word :=
  match l with
  | [] => [w]
  | x :: l' => if lex_ltb w x then w :: x :: l' else if weqb w x then x :: l' else x :: sinsert w l'
  end.

Definition sorted_set (ws : list word) : list word := fold_right sinsert [] ws.

Lemma sinsert_In w l v : In v (sinsert w l) <-> v = w \/ In v l.
Proof.
  induction l as [|x l IH]; simpl.
  - intuition congruence.
  - destruct (lex_ltb w x); [simpl; intuition congruence|].
    destruct (weqb w x) eqn:E.
    + apply weqb_eq in E. subst x. simpl. intuition congruence.
    + simpl. rewrite IH. intuition congruence.
Qed.

Lemma sinsert_sorted w l : StronglySorted lex_lt l -> StronglySorted lex_lt (sinsert w l).
Proof.
  induction l as [|x l IH]; intro S; simpl.
  - constructor; constructor.
  - apply StronglySorted_inv in S. destruct S as [S F].
    destruct (lex_ltb w x) eqn:E1.
    + apply lex_ltb_spec in E1. constructor; [constructor; assumption|].
      constructor; [exact E1|]. rewrite Forall_forall in *. intros y Hy.
      eapply lex_lt_trans; [exact E1 | apply F; exact Hy].
    + destruct (weqb w x) eqn:E2; [constructor; assumption|].
      constructor; [apply IH; exact S|]. rewrite Forall_forall in *. intros y Hy.
      apply sinsert_In in Hy. destruct Hy as [->|Hy]; [|apply F; exact Hy].
      destruct (lex_total w x) as [H|[H|H]].
      * apply lex_ltb_spec in H. congruence.
      * subst x. rewrite weqb_refl in E2. discriminate.
      * exact H.
Qed.

Lemma sorted_set_In ws v : In v (sorted_set ws) <-> In v ws.
Proof.
  induction ws as [|w ws IH]; simpl; [tauto|]. rewrite sinsert_In, IH. intuition congruence.
Qed.

Lemma sorted_set_sorted ws : StronglySorted lex_lt (sorted_set ws).
Proof. induction ws as [|w ws IH]; simpl; [constructor | apply sinsert_sorted; exact IH]. Qed.

(* ---------- prefix test, decided ---------- *)
Fixpoint is_prefixb (p w : word) : bool :=
  match p, w with
  | [], _ => true
  | x :: p', y :: w' => N.eqb x y && is_prefixb p' w'
  | _ :: _, [] => false
  end.

Lemma is_prefixb_spec p : forall w, is_prefixb p w = true <-> is_prefix p w.
Proof.
  induction p as [|x p IH]; intros w; simpl.
  - split; [intros _; exists w; reflexivity | reflexivity].
  - destruct w as [|y w].
    + split; [discriminate | intros [s H]; discriminate].
    + rewrite andb_true_iff, N.eqb_eq, IH. split.
      * intros [-> [s ->]]. exists s. reflexivity.
      * intros [s H]. simpl in H. injection H as Hxy Hw. subst. split; [reflexivity | exists s; reflexivity].
Qed.

(* the specification of the words of a prefix query *)
Definition spec_words (ws : list word) (p : word) : list word :=
  sorted_set (filter (fun w => negb (is_nil w) && is_prefixb p w) ws).

Lemma spec_words_In ws p w : In w (spec_words ws p) <-> w <> [] /\ In w ws /\ is_prefix p w.
Proof.
  unfold spec_words. rewrite sorted_set_In, filter_In, andb_true_iff, negb_true_iff, is_prefixb_spec.
  assert (H : is_nil w = false <-> w <> []) by (destruct w; simpl; split; congruence).
  rewrite H. tauto.
Qed.

(* ---------- longest common prefix, computed ---------- *)
Fixpoint lcp2 (a b : word) : nat :=
  match a, b with
  | x :: a', y :: b' => if N.eqb x y then S (lcp2 a' b') else 0
  | _, _ => 0
  end.

Definition fmin (w0 : word) (m : nat) (w : word) : nat := Nat.min m (lcp2 w0 w).

Definition spec_lcp (l : list word) : nat :=
  match l with
  | [] => 0
  | w0 :: rest => fold_left (fmin w0) rest (length w0)
  end.

Lemma lcp2_common a : forall b k, k <= lcp2 a b -> firstn k a = firstn k b /\ k <= length a /\ k <= length b.
Proof.
  induction a as [|x a IH]; intros b k Hk.
  - simpl in Hk. assert (k = 0) by lia. subst k. simpl. split; [reflexivity | split; lia].
  - destruct b as [|y b].
    + simpl in Hk. assert (k = 0) by lia. subst k. simpl. split; [reflexivity | split; lia].
    + simpl in Hk. destruct (N.eqb_spec x y) as [->|Hne].
      * destruct k as [|k]; simpl; [split; [reflexivity | split; lia]|].
        destruct (IH b k) as [E [L1 L2]]; [lia|]. rewrite E. split; [reflexivity | split; lia].
      * assert (k = 0) by lia. subst k. simpl. split; [reflexivity | split; lia].
Qed.

Lemma lcp2_max a : forall b k, firstn k a = firstn k b -> k <= length a -> k <= length b -> k <= lcp2 a b.
Proof.
  induction a as [|x a IH]; intros b k E L1 L2.
  - simpl in L1. lia.
  - destruct b as [|y b]; [simpl in L2; lia|].
    destruct k as [|k]; [lia|]. simpl in E, L1, L2. injection E as Exy Et. subst y.
    simpl. rewrite N.eqb_refl. apply le_n_S. apply IH; [exact Et | lia | lia].
Qed.

Lemma fold_fmin w0 rest : forall m0,
  fold_left (fmin w0) rest m0 <= m0
  /\ (forall w, In w rest -> fold_left (fmin w0) rest m0 <= lcp2 w0 w)
  /\ (fold_left (fmin w0) rest m0 = m0 \/ exists w, In w rest /\ fold_left (fmin w0) rest m0 = lcp2 w0 w).
Proof.
  induction rest as [|x rest IH]; intros m0; simpl.
  - split; [lia|]. split; [intros w []|left; reflexivity].
  - destruct (IH (fmin w0 m0 x)) as [H1 [H2 H3]].
    change (fmin w0 m0 x) with (Nat.min m0 (lcp2 w0 x)) in *.
    revert H1 H2 H3. generalize (fold_left (fmin w0) rest (Nat.min m0 (lcp2 w0 x))). intros m H1 H2 H3.
    pose proof (Nat.le_min_l m0 (lcp2 w0 x)) as Ml. pose proof (Nat.le_min_r m0 (lcp2 w0 x)) as Mr.
    split; [lia|]. split.
    + intros w [<-|Hw]; [lia | apply H2; exact Hw].
    + destruct H3 as [H3|[w [Hw H3]]].
      * destruct (Nat.min_spec m0 (lcp2 w0 x)) as [[_ E]|[_ E]].
        -- left. rewrite H3. exact E.
        -- right. exists x. split; [left; reflexivity|]. rewrite H3. exact E.
      * right. exists w. split; [right; exact Hw | exact H3].
Qed.

Lemma spec_lcp_correct l : l <> [] -> lcp_len (spec_lcp l) l.
Proof.
  destruct l as [|w0 rest]; [congruence|]. intros _. unfold spec_lcp.
  destruct (fold_fmin w0 rest (length w0)) as [H1 [H2 H3]].
  revert H1 H2 H3. generalize (fold_left (fmin w0) rest (length w0)). intros m H1 H2 H3.
  assert (Hc0 : forall w, In w (w0 :: rest) -> firstn m w0 = firstn m w /\ m <= length w).
  { intros w [<-|Hw]; [split; [reflexivity | exact H1]|].
    destruct (lcp2_common w0 w m (H2 w Hw)) as [E [_ L]]. split; assumption. }
  split.
  - intros w1 w2 I1 I2. destruct (Hc0 _ I1) as [E1 L1]. destruct (Hc0 _ I2) as [E2 _].
    split; [congruence | exact L1].
  - intro Hc. destruct H3 as [H3|[w [Hw H3]]].
    + destruct (Hc w0 w0 (or_introl eq_refl) (or_introl eq_refl)) as [_ L]. lia.
    + destruct (Hc w0 w (or_introl eq_refl) (or_intror Hw)) as [E L].
      destruct (Hc w w0 (or_intror Hw) (or_introl eq_refl)) as [_ L'].
      pose proof (lcp2_max w0 w (S m) E L L'). lia.
Qed.

(* ---------- the refinement ---------- *)
Definition spec_prefix_all (ws : list word) (p : word) : nat * list word :=
  (spec_lcp (spec_words ws p), spec_words ws p).

Theorem prefix_all_refines_spec ws p :
  snd (prefix_all (build ws) p) = snd (spec_prefix_all ws p)
  /\ (snd (prefix_all (build ws) p) <> [] -> prefix_all (build ws) p = spec_prefix_all ws p).
Proof.
  destruct (build_prefix_all ws p) as [Hin [Hs Hl]]. unfold candidates in Hin.
  assert (E : snd (prefix_all (build ws) p) = spec_words ws p).
  { apply sorted_same_elements; [exact Hs | apply sorted_set_sorted|].
    intro w. rewrite Hin, spec_words_In. tauto. }
  split; [exact E|]. intro Hne. destruct (Hl Hne) as [_ L].
  assert (L2 : lcp_len (spec_lcp (spec_words ws p)) (snd (prefix_all (build ws) p))).
  { rewrite E. apply spec_lcp_correct. rewrite <- E. exact Hne. }
  unfold spec_prefix_all. rewrite <- (lcp_len_unique _ _ _ L L2). rewrite <- E.
  destruct (prefix_all (build ws) p); reflexivity.
Qed.

(* completion, against the specification: the line offered is the longest common prefix of the candidates *)
Definition spec_complete (ws : list word) (typed : word) : option (word * nat) :=
  match spec_words ws typed with
  | [] => None
  | c0 :: _ => Some (firstn (spec_lcp (spec_words ws typed)) c0, spec_lcp (spec_words ws typed))
  end.

Theorem complete_refines_spec ws typed : complete (build ws) typed = spec_complete ws typed.
Proof.
  unfold complete, spec_complete. destruct (prefix_all_refines_spec ws typed) as [E1 E2].
  destruct (prefix_all (build ws) typed) as [l res] eqn:EP. simpl in E1, E2. unfold spec_prefix_all in *. simpl in E1.
  destruct res as [|c0 res].
  - rewrite <- E1. reflexivity.
  - specialize (E2 ltac:(discriminate)). injection E2 as El Er. rewrite <- El. rewrite <- Er. reflexivity.
Qed.

(* ---------- one insertion, as a step of the state machine ---------- *)
(* inserting w into the trie of any history changes the membership of w (when w is not empty) and of NOTHING else *)
Theorem contains_insert_step ws w v :
  contains (insert (build ws) w) v = contains (build ws) v || (negb (is_nil w) && weqb v w).
Proof.
  replace (insert (build ws) w) with (build (ws ++ [w])) by (unfold build; rewrite fold_left_app; reflexivity).
  apply Bool.eq_iff_eq_true.
  rewrite contains_build_iff, orb_true_iff, contains_build_iff, andb_true_iff, negb_true_iff, weqb_eq, in_app_iff.
  split.
  - intros [Hn [Hi|[Hw|[]]]].
    + left. split; assumption.
    + right. subst v. split; [destruct w; [congruence | reflexivity] | reflexivity].
  - intros [[Hn Hi]|[Hn Hw]].
    + split; [assumption | left; assumption].
    + subst v. split; [destruct w; [simpl in Hn; discriminate | discriminate] | right; left; reflexivity].
Qed.

(* inserting a word that is already there, or the empty word, changes no answer of any query *)
Corollary insert_present_is_noop ws w p :
  w = [] \/ In w ws ->
  snd (prefix_all (insert (build ws) w) p) = snd (prefix_all (build ws) p)
  /\ (forall v, contains (insert (build ws) w) v = contains (build ws) v).
Proof.
  intro Hw.
  replace (insert (build ws) w) with (build (ws ++ [w])) by (unfold build; rewrite fold_left_app; reflexivity).
  assert (Hsame : forall x, x <> [] -> (In x (ws ++ [w]) <-> In x ws)).
  { intros x Hx. rewrite in_app_iff. split; [|intro H; left; exact H].
    intros [H|[H|[]]]; [exact H|]. subst x. destruct Hw as [E|Hi]; [congruence | exact Hi]. }
  split.
  - destruct (prefix_all_refines_spec (ws ++ [w]) p) as [E1 _]. destruct (prefix_all_refines_spec ws p) as [E2 _].
    rewrite E1, E2. simpl. apply sorted_same_elements; try apply sorted_set_sorted.
    intro x. rewrite !spec_words_In. split; intros [H1 [H2 H3]]; (split; [exact H1 | split; [apply (Hsame x H1); exact H2 | exact H3]]).
  - intro v. apply Bool.eq_iff_eq_true. rewrite !contains_build_iff.
    split; intros [H1 H2]; (split; [exact H1 | apply (Hsame v H1); exact H2]).
Qed.
