(* C17, second layer: adaptive programs (the next request may depend on everything read so far), confinement for
   them, non-interference (what a restricted program observes and does is independent of every file outside the
   allowed set), and the exact characterisation of the accepted names. *)
From Coq Require Import List PeanoNat NArith Bool Lia.
From GrolGen Require Import Gen_IOSites.
From GrolModel Require Import Sanitize.
From GrolProofs Require Import Sanitize_proofs.
Import ListNotations.
Local Open Scope N_scope.

(* two file systems that hold the same content (or both nothing) under every allowed name *)
Definition agree_on_allowed (c : config) (f1 f2 : fs) : Prop :=
  forall m, allowed c m -> fs_get f1 m = fs_get f2 m.

Lemma fs_get_set : forall f n d m,
  fs_get (fs_set f n d) m = if str_eqb n m then Some d else fs_get f m.
Proof.
  intros f n d m. destruct (str_eqb n m) eqn:E.
  - apply str_eqb_true in E. subst m. apply fs_get_set_same.
  - apply str_eqb_false in E. apply fs_get_set_other. exact E.
Qed.

Lemma agree_set : forall c f1 f2 n d,
  agree_on_allowed c f1 f2 -> agree_on_allowed c (fs_set f1 n d) (fs_set f2 n d).
Proof.
  intros c f1 f2 n d H m Hm. rewrite !fs_get_set. destruct (str_eqb n m); [reflexivity|apply H; exact Hm].
Qed.

(* one request: same outcome, same OS calls, and the file systems still agree on the allowed names *)
Lemma step_agree : forall c ok f1 f2 lg r,
  restricted c -> agree_on_allowed c f1 f2 ->
  snd (step c ok (f1, lg) r) = snd (step c ok (f2, lg) r)
  /\ snd (fst (step c ok (f1, lg) r)) = snd (fst (step c ok (f2, lg) r))
  /\ agree_on_allowed c (fst (fst (step c ok (f1, lg) r))) (fst (fst (step c ok (f2, lg) r))).
Proof.
  intros c ok f1 f2 lg r Hr Hag.
  destruct r as [a d|a|found d|cmd|cmd]; unfold step.
  - destruct (is_registered c FSave); [|repeat split; exact Hag].
    destruct (sanitize c a) as [n|] eqn:Hs; [|repeat split; exact Hag].
    destruct (ok n); simpl; repeat split; try exact Hag. apply agree_set. exact Hag.
  - destruct (is_registered c FLoad); [|repeat split; exact Hag].
    destruct (sanitize c a) as [n|] eqn:Hs; [|repeat split; exact Hag].
    pose proof (sanitize_allowed c a n Hr Hs) as Hn.
    rewrite <- (Hag n Hn).
    destruct (fs_get f1 n); simpl; repeat split; exact Hag.
  - destruct found; [|repeat split; exact Hag].
    destruct (ok grol_png); simpl; repeat split; try exact Hag. apply agree_set. exact Hag.
  - destruct (exec_run_undefined_when_restricted c ok (f1, lg) cmd Hr) as [E1 _].
    destruct (exec_run_undefined_when_restricted c ok (f2, lg) cmd Hr) as [E2 _].
    unfold step in E1, E2. rewrite E1, E2. repeat split; exact Hag.
  - destruct (exec_run_undefined_when_restricted c ok (f1, lg) cmd Hr) as [_ E1].
    destruct (exec_run_undefined_when_restricted c ok (f2, lg) cmd Hr) as [_ E2].
    unfold step in E1, E2. rewrite E1, E2. repeat split; exact Hag.
Qed.

Lemma run_prog_S : forall c ok p n st hist,
  run_prog c ok p (S n) st hist =
  match p hist with
  | None => (st, hist)
  | Some r => let '(st1, o) := step c ok st r in run_prog c ok p n st1 (hist ++ [o])
  end.
Proof. reflexivity. Qed.

(* Non-interference.  Under restricted IO, run the same adaptive program against two file systems that agree on the
   allowed names and differ arbitrarily elsewhere (any number of other files, any contents): the program receives
   the same outcomes (so it makes the same choices), the OS is asked the same things, and the two file systems
   still agree on the allowed names.  Nothing outside the allowed set can be read. *)
Lemma prog_noninterference_gen : forall c ok p n f1 f2 lg hist,
  restricted c -> agree_on_allowed c f1 f2 ->
  snd (run_prog c ok p n (f1, lg) hist) = snd (run_prog c ok p n (f2, lg) hist)
  /\ snd (fst (run_prog c ok p n (f1, lg) hist)) = snd (fst (run_prog c ok p n (f2, lg) hist))
  /\ agree_on_allowed c (fst (fst (run_prog c ok p n (f1, lg) hist))) (fst (fst (run_prog c ok p n (f2, lg) hist))).
Proof.
  intros c ok p n. induction n as [|n IH]; intros f1 f2 lg hist Hr Hag.
  - simpl. repeat split. exact Hag.
  - rewrite !run_prog_S. destruct (p hist) as [r|]; [|simpl; repeat split; exact Hag].
    destruct (step_agree c ok f1 f2 lg r Hr Hag) as [Ho [Hl Ha]].
    destruct (step c ok (f1, lg) r) as [[g1 l1] o1].
    destruct (step c ok (f2, lg) r) as [[g2 l2] o2].
    simpl in Ho, Hl, Ha. subst o2 l2. apply IH; assumption.
Qed.

Lemma prog_noninterference : forall c ok p n f1 f2,
  restricted c -> agree_on_allowed c f1 f2 ->
  snd (run_prog c ok p n (f1, []) []) = snd (run_prog c ok p n (f2, []) [])
  /\ snd (fst (run_prog c ok p n (f1, []) [])) = snd (fst (run_prog c ok p n (f2, []) []))
  /\ agree_on_allowed c (fst (fst (run_prog c ok p n (f1, []) []))) (fst (fst (run_prog c ok p n (f2, []) []))).
Proof. intros c ok p n f1 f2 Hr Hag. apply prog_noninterference_gen; assumption. Qed.

(* Confinement for adaptive programs (same three conclusions as [confined] for request lists). *)
Lemma prog_confined_gen : forall c ok p n f lg hist f' lg' outs,
  restricted c -> run_prog c ok p n (f, lg) hist = ((f', lg'), outs) ->
  (exists extra, lg' = lg ++ extra /\ forall a, In a extra -> exists m, file_access a m /\ allowed c m)
  /\ (forall m, ~ allowed c m -> fs_get f' m = fs_get f m).
Proof.
  intros c ok p n. induction n as [|n IH]; intros f lg hist f' lg' outs Hr H.
  - simpl in H. inversion H; subst. split; [|reflexivity].
    exists []. split; [symmetry; apply app_nil_r|intros a []].
  - rewrite run_prog_S in H. destruct (p hist) as [r|].
    + destruct (step c ok (f, lg) r) as [[f1 lg1] o] eqn:S.
      destruct (step_confined c ok f lg r f1 lg1 o Hr S) as [[e1 [E1 A1]] F1].
      destruct (IH f1 lg1 (hist ++ [o]) f' lg' outs Hr H) as [[e2 [E2 A2]] F2].
      split.
      * exists (e1 ++ e2). split.
        -- rewrite E2, E1. symmetry. apply app_assoc.
        -- intros a Ha. apply in_app_or in Ha. destruct Ha as [Ha|Ha]; [apply A1|apply A2]; exact Ha.
      * intros m Hm. rewrite (F2 m Hm). apply F1. exact Hm.
    + inversion H; subst. split; [|reflexivity].
      exists []. split; [symmetry; apply app_nil_r|intros a []].
Qed.

Lemma prog_confined : forall c ok p n f f' lg outs,
  restricted c -> run_prog c ok p n (f, []) [] = ((f', lg), outs) ->
  (forall a, In a lg -> exists m, file_access a m /\ allowed c m)
  /\ (forall m, ~ allowed c m -> fs_get f' m = fs_get f m)
  /\ (forall m, fs_get f m = None -> fs_get f' m <> None -> allowed c m).
Proof.
  intros c ok p n f f' lg outs Hr H.
  destruct (prog_confined_gen c ok p n f [] [] f' lg outs Hr H) as [[extra [E A]] F].
  simpl in E. subst lg. split; [exact A|]. split; [exact F|].
  intros m H0 H1. apply allowedb_spec.
  destruct (allowedb c m) eqn:Eb; [reflexivity|]. exfalso. apply H1. rewrite F; [exact H0|].
  intro Hm. apply allowedb_spec in Hm. congruence.
Qed.

(* request lists are the special case of programs that ignore what they read *)
Lemma run_prog_of_list_gen : forall c ok rs pre st hist,
  length hist = length pre ->
  run_prog c ok (prog_of_list (pre ++ rs)) (length rs) st hist
  = (fst (run c ok st rs), hist ++ snd (run c ok st rs)).
Proof.
  intros c ok rs. induction rs as [|r rs IH]; intros pre st hist Hl.
  - simpl. rewrite app_nil_r. reflexivity.
  - change (length (r :: rs)) with (S (length rs)). rewrite run_prog_S.
    unfold prog_of_list at 1. rewrite Hl, nth_error_app2, Nat.sub_diag by lia. simpl nth_error.
    rewrite run_cons.
    destruct (step c ok st r) as [st1 o].
    replace (pre ++ r :: rs) with ((pre ++ [r]) ++ rs) by (rewrite <- app_assoc; reflexivity).
    rewrite (IH (pre ++ [r]) st1 (hist ++ [o])) by (rewrite !app_length; simpl; lia).
    destruct (run c ok st1 rs) as [st2 os]. simpl. rewrite <- app_assoc. reflexivity.
Qed.

Lemma run_prog_of_list : forall c ok rs st,
  run_prog c ok (prog_of_list rs) (length rs) st [] = run c ok st rs.
Proof.
  intros c ok rs st. pose proof (run_prog_of_list_gen c ok rs [] st [] eq_refl) as H.
  change ([] ++ rs) with rs in H. rewrite H. destruct (run c ok st rs); reflexivity.
Qed.

(* ------------------------------------------------------------------ exactly which names are accepted *)
Lemma sanitize_characterisation : forall c n f,
  restricted c -> empty_only c = false ->
  (sanitize c (Some n) = Some f <-> exists b, Forall alnum b /\ f = b ++ dot_gr /\ (n = b \/ n = b ++ dot_gr)).
Proof.
  intros c n f Hr He. split.
  - intro H. pose proof H as H0. unfold restricted in Hr. unfold sanitize in H. rewrite He, Hr in H. simpl in H.
    destruct (forallb is_alnum (trim_suffix n suffix)) eqn:E; [|discriminate].
    inversion H; subst f. exists (trim_suffix n suffix). split; [|split].
    + apply Forall_forall. intros x Hx. exact (proj1 (forallb_forall _ _) E x Hx).
    + unfold suffix. rewrite suffix_is_dot_gr. reflexivity.
    + unfold trim_suffix. destruct (has_suffix n suffix) eqn:Hs.
      * right. apply has_suffix_split in Hs. unfold suffix in Hs at 2. rewrite suffix_is_dot_gr in Hs. exact Hs.
      * left. reflexivity.
  - intros [b [Hb [Hf [Hn | Hn]]]]; subst f n; apply (sanitize_accepts c b Hr He Hb).
Qed.

(* the accepted form is a fixed point: asking for the file name that was handed out gives the same file *)
Lemma sanitize_idempotent : forall c arg f,
  restricted c -> empty_only c = false -> sanitize c arg = Some f -> sanitize c (Some f) = Some f.
Proof.
  intros c arg f Hr He H. destruct (sanitize_plain c arg f Hr H) as [b [-> Hb]].
  apply (sanitize_accepts c b Hr He Hb).
Qed.
