(* Computed facts about coq/model/SaveLoad.v (property C14): representative values round-trip through the
   Lexer / Parser models and eval_lit (vm_compute), the recorded findings are refutation witnesses, the three
   repaired function forms are regression examples, and the side conditions on the generated tables hold. *)
From Coq Require Import List ZArith NArith Bool String.
From GrolGen Require Import Gen_Consts.
From GrolModel Require Import Ast Lexer Parser Printer Frontend Values Cmp Maps SaveLoad.
From GrolProofs Require Import SaveLoad_roundtrip.
Import ListNotations.
Local Open Scope N_scope.

Definition F (bits : N) : value := VFloat (fl_of_bits bits).
Definition S_ (s : string) : value := VStr (bytes_of_string s).
Definition I (z : Z) : value := VInt z.

(* ~40 representative in-domain values *)
Definition examples : list value :=
  [ I 0; I 1; I 42; I (-7); I 9223372036854775807; I (-9223372036854775807); I 1000000;
    F 0x3fe0000000000000 (* 0.5 *); F 0xc002000000000000 (* -2.25 *); F 0x3f50624dd2f1a9fc (* 0.001 *);
    F 0x3fb999999999999a (* 0.1 *); F 0x40fe240c9fbe76c9 (* 123456.789 *); F 0x444b1ae4d6e2ef50 (* 1e21 *);
    F 0x4415af1d78b58c40 (* 1e20 *); F 0x0000000000000001 (* 5e-324 *); F 0x0010000000000000 (* 2.2250738585072014e-308 *);
    F 0x7fefffffffffffff (* largest *); F 0x3e7ad7f29abcaf48 (* 1e-7 *); F 0x3fd3333333333334 (* 0.30000000000000004 *);
    F 0x4340000000000001 (* 9007199254740994.0: integral, hence NOT in the domain (filtered out below) *);
    VFloat (FInf false); VFloat (FInf true); VFloat FNaN;
    VStr []; S_ "a b"; VStr [10; 7; 0; 255; 34; 92; 127; 9; 13; 27; 128; 96; 39];
    S_ "k=[1,2]"; VBool true; VBool false; VNil;
    VArr []; VArr [I 1; I 2; I 3]; VArr [I 1; I 2; I 3; I 4; I 5; I 6; I 7; I 8; I 9; I 10];
    VArr [VArr [VNil; VBool true]; S_ "s"; F 0x4004000000000000 (* 2.5 *); VArr []; VMap []];
    VMap []; VMap [(I 1, I 1); (I 2, I 2); (I 3, I 3); (I 4, I 4); (I 5, I 5); (I 6, I 6)];
    VMap [(F 0x3ff8000000000000 (* 1.5 *), VArr [I 1; I 2]); (VBool true, I 5); (VNil, I 4); (S_ "k", VMap []); (VArr [I 1; I 2], I 3)];
    VMap [(I (-7), S_ "x"); (F 0x4004000000000000, VNil)];
    VMap [(VBool true, VArr [F 0x3f689374bc6a7efa (* 0.003 *); S_ "q"]); (VMap [(VBool true, VBool true)], I 190144516964323381)];
    VArr [VMap [(S_ "a", VArr [VMap [(I 1, VNil)]])]; I (-1); F 0xbfe8000000000000 (* -0.75 *)]
  ].

(* the one entry above that is integral is not in the domain; everything else is *)
Definition in_dom_examples : list value := filter in_domain examples.

Example C14_examples_count : List.length in_dom_examples = 39%nat.
Proof. vm_compute. reflexivity. Qed.

(* every in-domain example: its saved line reads back (model lexer + parser + literal evaluator, the model's own
   decimal conversion) as the same binding *)
Example C14_roundtrip_examples_ok : forallb (reads_back (bytes_of_string "k")) in_dom_examples = true.
Proof. vm_compute. reflexivity. Qed.

(* the guard of the proved round trip (the model's decimal conversion inverts the model's float formatter on the
   floats of the value) holds on every example: subnormal, largest, 0.1, 1e20 (integer text beyond int64), ... *)
Example C14_examples_float_guard : forallb (floats_conv dec_conv) in_dom_examples = true.
Proof. vm_compute. reflexivity. Qed.

(* ---- refutation witnesses (each replays on the implementation: known_findings.json) *)
Definition one_float : value := F 0x3ff0000000000000.        (* 1.0 *)
Definition neg_zero : value := F 0x8000000000000000.         (* -0.0 *)
Definition min_int : value := I (-9223372036854775808).

Example integral_float_reloads_as_integer :
  read_back_dec (save_line (bytes_of_string "x") one_float) = RbBinding (bytes_of_string "x") (VInt 1).
Proof. vm_compute. reflexivity. Qed.

Example negative_zero_reloads_as_integer :
  read_back_dec (save_line (bytes_of_string "x") neg_zero) = RbBinding (bytes_of_string "x") (VInt 0).
Proof. vm_compute. reflexivity. Qed.

Example min_int_reloads_as_float :
  read_back_dec (save_line (bytes_of_string "y") min_int)
  = RbBinding (bytes_of_string "y") (VFloat (FFin true 4503599627370496 11)).   (* -2^63 as a float *)
Proof. vm_compute. reflexivity. Qed.

Example integral_float_inside_container :
  read_back_dec (save_line (bytes_of_string "a") (VArr [one_float; VMap [(F 0x4000000000000000, I 1)]]))
  = RbBinding (bytes_of_string "a") (VArr [VInt 1; VMap [(VInt 2, VInt 1)]]).
Proof. vm_compute. reflexivity. Qed.

(* the full claim (every well-formed data value) is false of the faithful model *)
Definition roundtrip_all_data : Prop :=
  forall k v, good_name k = true -> all_data v = true -> read_back dec_conv (save_line k v) = Some (k, v).

Lemma roundtrip_all_data_refuted_integral_float : ~ roundtrip_all_data.
Proof. intro H. specialize (H [120] one_float eq_refl eq_refl). vm_compute in H. discriminate. Qed.

Lemma roundtrip_all_data_refuted_min_int : ~ roundtrip_all_data.
Proof. intro H. specialize (H [121] min_int eq_refl eq_refl). vm_compute in H. discriminate. Qed.

Lemma refutation_witnesses :
  read_back_dec (save_line [120] one_float) = RbBinding [120] (VInt 1) /\
  read_back_dec (save_line [120] neg_zero) = RbBinding [120] (VInt 0) /\
  read_back_dec (save_line [121] min_int) = RbBinding [121] (VFloat (FFin true 4503599627370496 11)).
Proof. repeat split; vm_compute; reflexivity. Qed.

(* ---- functions: saved text and whether it reads back as the same function *)
Local Open Scope string_scope.
Definition tk (ty : Z) (s : string) : tok := mkTok ty (bytes_of_string s).
Definition id_ (s : string) : option node := Some (NIdent (tk token_IDENT s)).
Definition infix (ty : Z) (op : string) (l r : option node) : option node := Some (NInfix (tk ty op) l r).
Definition body1 (s : option node) : option node := Some (NStmts [s]).

Definition fr (name : option string) (params : list string) (body : option node) : rt_result * option bytes :=
  func_roundtrip dec_conv (option_map bytes_of_string name) false (Some (map id_ params)) body.

Definition is_same (r : rt_result * option bytes) (text : string) : bool :=
  match r with
  | (RtSame, Some t) => beqb t (bytes_of_string text)
  | _ => false
  end.
Definition changes (r : rt_result * option bytes) (text : string) : bool :=
  match r with
  | (RtDiffers, Some t) | (RtRejected, Some t) => beqb t (bytes_of_string text)
  | _ => false
  end.

(* repaired by 19eaa9a / a78b0ab: these single-statement lambda bodies are printed with braces; x=>x==1 is not *)
Definition function_fixed_cases : bool :=
  is_same (fr None [] (body1 (infix token_OR "||" (id_ "a") (id_ "b")))) "()=>{a||b}" &&
  is_same (fr None [] (body1 (infix token_ASSIGN "=" (id_ "a") (Some (NInt (tk token_INT "3") 3))))) "()=>{a=3}" &&
  is_same (fr None [] (body1 (infix token_AND "&&" (id_ "a") (id_ "b")))) "()=>{a&&b}" &&
  is_same (fr None ["a"] (body1 (infix token_DEFINE ":=" (id_ "a") (Some (NInt (tk token_INT "1") 1))))) "a=>{a:=1}" &&
  is_same (fr None [] (body1 (Some (NReturn (tk token_RETURN "return") (Some (NInt (tk token_INT "1") 1)))))) "()=>{return 1}" &&
  is_same (fr None ["x"] (body1 (infix token_EQ "==" (id_ "x") (Some (NInt (tk token_INT "1") 1))))) "x=>x==1" &&
  is_same (fr None ["a"] (body1 (Some (NCall (tk token_LPAREN "(")
             (Some (NMap (tk token_LBRACE "{") [(id_ "y", Some (NBool (tk token_FALSE "false") false))])) (Some [])))))
          "a=>{{y:false}()}" &&
  (* a named function with two statements *)
  is_same (fr (Some "g") ["a"; "b"] (Some (NStmts [infix token_ASSIGN "=" (id_ "y") (id_ "a"); infix token_ASTERISK "*" (id_ "y") (id_ "b")])))
          "func g(a,b){y=a y*b}".

Example function_fixed_cases_ok : function_fixed_cases = true.
Proof. vm_compute. reflexivity. Qed.

(* recorded findings inherited from the formatter (C02), in the compact form used by save: the saved text does
   not read back as the same function *)
Definition function_finding_cases : bool :=
  changes (fr None ["a"; "b"; "c"] (body1 (infix token_PLUS "+" (id_ "a") (infix token_PLUS "+" (id_ "b") (id_ "c")))))
          "(a,b,c)=>a+b+c" &&
  changes (fr (Some "f") ["a"; "b"] (Some (NStmts [id_ "a"; Some (NPrefix (tk token_MINUS "-") (id_ "b"))])))
          "func f(a,b){a -b}".

Example function_finding_cases_ok : function_finding_cases = true.
Proof. vm_compute. reflexivity. Qed.

(* ---- SaveGlobals on a small environment: sorted, constants-and-extras skipped, limit skips whole bindings *)
Definition env1 : list (bytes * sval) :=
  [ (bytes_of_string "z", SData (I 5));
    (bytes_of_string "PI", SData (F 0x400921fb54442d18));
    (bytes_of_string "long", SData (S_ "0123456789"));
    (bytes_of_string "TEN", SData (I 10));
    (bytes_of_string "h", SFunc (Some (bytes_of_string "g")) (Some [id_ "a"]) (body1 (id_ "a")));
    (bytes_of_string "g", SFunc (Some (bytes_of_string "g")) (Some [id_ "a"]) (body1 (id_ "a")));
    (* func f(x){1}; k=f; func f(x){2} *)
    (bytes_of_string "k", SFunc (Some (bytes_of_string "f")) (Some [id_ "x"]) (body1 (Some (NInt (tk token_INT "1") 1))));
    (bytes_of_string "f", SFunc (Some (bytes_of_string "f")) (Some [id_ "x"]) (body1 (Some (NInt (tk token_INT "2") 2))));
    (* func gone(x){x}; d=gone; del(gone) *)
    (bytes_of_string "d", SFunc (Some (bytes_of_string "gone")) (Some [id_ "x"]) (body1 (id_ "x")));
    (bytes_of_string "a", SData (VArr [I 1; F 0x3fe0000000000000])) ].

Definition text_of (r : option (bytes * nat)) : option (string * nat) :=
  match r with
  | Some (b, n) => Some (fold_right (fun c s => String (Ascii.ascii_of_N c) s) EmptyString b, n)
  | None => None
  end.

Definition save_globals_small : Prop :=
  text_of (save_globals 0 [bytes_of_string "PI"; bytes_of_string "E"] env1)
  = Some ("TEN=10
a=[1,0.5]
d=x=>x
func f(x){2}
func g(a){a}
h=func g(a){a}
k=x=>1
long=""0123456789""
z=5
"%string, 9%nat)
  /\ text_of (save_globals 8 [bytes_of_string "PI"; bytes_of_string "E"] env1)
  = Some ("TEN=10
a=[1,0.5]
d=x=>x
func f(x){2}
func g(a){a}
k=x=>1
z=5
"%string, 7%nat).

Example save_globals_small_ok : save_globals_small.
Proof. split; vm_compute; reflexivity. Qed.
