(* C14, round trip part 1: the Lexer model on the printed form of data.
   [lexes_as r toks]: the bytes r (up to the end of the input) are read as the tokens toks followed by the end marker.
   One lemma per token form that Inspect emits (punctuation, words, decimal integers, quoted strings), then
   [lex_value]: inspect v lexes to [vtoks v], for every value without finite floats. *)
From Coq Require Import List ZArith NArith Bool Lia String.
From Coq Require Import ZifyN ZifyNat ZifyBool.
From GrolGen Require Import Gen_Consts Gen_Token Gen_ByteClass.
From GrolModel Require Import Ast Lexer Parser Printer Frontend Values Cmp Maps SaveLoad.
From GrolProofs Require Import Lexer_proofs Cmp_proofs SaveLoad_proofs.
Import ListNotations.
Local Open Scope N_scope.

Definition ptk (ty : Z) (lit : bytes) : ptok := mkPtok (mkTok ty lit) false false.
Definition eof_ptok : ptok := ptk token_EOF [].

Definition lexes_as (r : bytes) (toks : list ptok) : Prop :=
  forall s pos fuel, skipn pos s = r -> (List.length r < fuel)%nat ->
    map to_ptok (lex_from fuel false s pos) = toks ++ [eof_ptok].

Lemma skipn_nil_len {A} (s : list A) pos : skipn pos s = [] -> (List.length s <= pos)%nat.
Proof.
  revert pos. induction s as [|x s IH]; intros pos H; cbn [List.length]; [lia|].
  destruct pos; cbn [skipn] in H; [discriminate|]. apply IH in H. lia.
Qed.

Lemma lexes_nil : lexes_as [] [].
Proof.
  intros s pos fuel Hs Hf. destruct fuel as [|f]; [cbn in Hf; lia|]. cbn [lex_from].
  rewrite (next_token_at_end false s pos (skipn_nil_len s pos Hs)). reflexivity.
Qed.

Lemma lexes_cons txt rest ty lit toks :
  txt <> [] -> isWhiteSpace (hd0 txt) = false ->
  scan_token false (txt ++ rest) = (ty, lit, List.length txt) ->
  is_end_ty ty = false -> (0 <=? ty)%Z = true ->
  lexes_as rest toks -> lexes_as (txt ++ rest) (ptk ty lit :: toks).
Proof.
  intros Hne Hws Hscan Hend Hty Hrest s pos fuel Hs Hf.
  destruct fuel as [|f]; [lia|]. cbn [lex_from]. unfold next_token. rewrite Hs.
  destruct txt as [|c t]; [congruence|]. cbn [hd0] in Hws.
  change ((c :: t) ++ rest) with (c :: (t ++ rest)) in *.
  cbn [span_len]. rewrite Hws. cbn [skipn firstn existsb Nat.ltb Nat.leb]. rewrite Hscan.
  rewrite Nat.add_0_r. unfold is_end. cbn [lt_type].
  change (Z.eqb ty token_EOF || Z.eqb ty token_EOL)%bool with (is_end_ty ty). rewrite Hend.
  assert (Hneg : Z.ltb ty 0 = false) by lia. rewrite Hneg. cbn [orb map].
  rewrite (Hrest s (pos + List.length (c :: t))%nat f).
  - unfold to_ptok, ptk. cbn [lt_type lt_lit lt_ws lt_nl]. reflexivity.
  - rewrite <- skipn_add, Hs. change (c :: t ++ rest) with ((c :: t) ++ rest).
    rewrite skipn_app, skipn_all, Nat.sub_diag. reflexivity.
  - cbn [List.length] in *. rewrite app_length in Hf. lia.
Qed.

(* ================================================================ punctuation *)
Definition closer (c : N) : bool := (c =? 44) || (c =? 93) || (c =? 125) || (c =? 58) || (c =? 0).

Lemma scan_lbracket rest : scan_token false (91 :: rest) = (token_LBRACKET, [91], 1%nat).
Proof. reflexivity. Qed.
Lemma scan_rbracket rest : scan_token false (93 :: rest) = (token_RBRACKET, [93], 1%nat).
Proof. reflexivity. Qed.
Lemma scan_lbrace rest : scan_token false (123 :: rest) = (token_LBRACE, [123], 1%nat).
Proof. reflexivity. Qed.
Lemma scan_rbrace rest : scan_token false (125 :: rest) = (token_RBRACE, [125], 1%nat).
Proof. reflexivity. Qed.
Lemma scan_comma rest : scan_token false (44 :: rest) = (token_COMMA, [44], 1%nat).
Proof. reflexivity. Qed.

Lemma scan_colon rest : hd0 rest <> 61 -> scan_token false (58 :: rest) = (token_COLON, [58], 1%nat).
Proof.
  intro H. unfold scan_token. cbn [hd0 tl]. unfold classify. cbn [one_of existsb N.eqb Pos.eqb orb].
  apply N.eqb_neq in H. rewrite H. cbn [andb]. rewrite andb_false_r. reflexivity.
Qed.

Lemma scan_assign rest : hd0 rest <> 61 -> hd0 rest <> 62 -> scan_token false (61 :: rest) = (token_ASSIGN, [61], 1%nat).
Proof.
  intros H1 H2. unfold scan_token. cbn [hd0 tl]. unfold classify. cbn [one_of existsb N.eqb Pos.eqb orb].
  apply N.eqb_neq in H1. apply N.eqb_neq in H2. rewrite H1, H2. reflexivity.
Qed.

Lemma scan_minus rest : hd0 rest <> 45 -> scan_token false (45 :: rest) = (token_MINUS, [45], 1%nat).
Proof.
  intro H. unfold scan_token. cbn [hd0 tl]. unfold classify. cbn [one_of existsb N.eqb Pos.eqb orb].
  apply N.eqb_neq in H. rewrite H. reflexivity.
Qed.

Lemma scan_plus rest : hd0 rest <> 43 -> scan_token false (43 :: rest) = (token_PLUS, [43], 1%nat).
Proof.
  intro H. unfold scan_token. cbn [hd0 tl]. unfold classify. cbn [one_of existsb N.eqb Pos.eqb orb].
  apply N.eqb_neq in H. rewrite H. reflexivity.
Qed.

(* ================================================================ words (identifiers and keywords) *)
Ltac kill_eqb c :=
  repeat match goal with
         | |- context [c =? ?k] => replace (c =? k) with false by lia
         end.

Lemma classify_letter c nx e : isLetter c = true -> classify c nx e = KIdent.
Proof.
  intro H. unfold classify, one_of. cbn [existsb]. unfold isLetter in H.
  kill_eqb c. cbn [orb]. unfold isLetter.
  replace ((97 <=? c) && (c <=? 122) || (65 <=? c) && (c <=? 90) || (c =? 95)) with true by lia. reflexivity.
Qed.

Lemma span_len_app p : forall r rest, forallb p r = true -> p (hd0 rest) = false -> p 0 = false ->
  span_len p (r ++ rest) = List.length r.
Proof.
  induction r as [|c r IH]; intros rest Hr Hh H0; cbn [app List.length].
  - destruct rest as [|x rest']; [reflexivity|]. cbn [hd0] in Hh. cbn [span_len]. rewrite Hh. reflexivity.
  - cbn [forallb] in Hr. apply andb_true_iff in Hr. destruct Hr as [Hc Hr]. cbn [span_len]. rewrite Hc.
    f_equal. apply IH; assumption.
Qed.

Lemma firstn_exact' {A} (a b : list A) : firstn (List.length a) (a ++ b) = a.
Proof. induction a; cbn; [destruct b; reflexivity|]. f_equal. assumption. Qed.

Lemma scan_word c r rest :
  isLetter c = true -> forallb IsAlphaNum r = true -> IsAlphaNum (hd0 rest) = false ->
  scan_token false ((c :: r) ++ rest) = (lookup_ident (c :: r), c :: r, S (List.length r)).
Proof.
  intros Hc Hr Hn. unfold scan_token. change ((c :: r) ++ rest) with (c :: (r ++ rest)). cbn [hd0 tl].
  rewrite classify_letter by exact Hc. unfold read_identifier. cbn [tl].
  rewrite span_len_app; [|exact Hr|exact Hn|apply byte_class_sane].
  rewrite go_slice_ok by (cbn [List.length]; rewrite app_length; lia).
  change (c :: r ++ rest) with ((c :: r) ++ rest).
  change (S (List.length r)) with (List.length (c :: r)). rewrite firstn_exact'. reflexivity.
Qed.

(* ================================================================ decimal integers *)
Lemma is_digit_isDigit c : is_digit c = isDigit c.
Proof. reflexivity. Qed.

Lemma classify_digit c nx e : isDigit c = true -> classify c nx e = KNumber.
Proof.
  intro H. unfold classify, one_of. cbn [existsb]. unfold isDigit in H.
  kill_eqb c. cbn [orb].
  replace (isLetter c) with false by (unfold isLetter; lia).
  unfold isDigit. replace ((48 <=? c) && (c <=? 57)) with true by lia. reflexivity.
Qed.

Lemma closer_facts c : closer c = true ->
  isDigitOrUnderscore c = false /\ c <> 46 /\ c <> 101 /\ c <> 69 /\ c <> 120 /\ c <> 98 /\ IsAlphaNum c = false /\
  c <> 61 /\ c <> 62.
Proof.
  unfold closer, isDigitOrUnderscore, IsAlphaNum, isLetter, isDigit. intro H.
  assert (c = 44 \/ c = 93 \/ c = 125 \/ c = 58 \/ c = 0) as [->|[->|[->|[->| ->]]]] by lia; cbn; repeat split; lia.
Qed.

Lemma plain_nat_shape ds : plain_nat ds = true ->
  exists d ds', ds = d :: ds' /\ isDigit d = true /\ forallb isDigit ds' = true /\ (d = 48 -> ds' = []).
Proof.
  destruct ds as [|d ds']; cbn [plain_nat]; [discriminate|]. intro H. exists d, ds'. split; [reflexivity|].
  destruct ds' as [|e r].
  - rewrite is_digit_isDigit in H. repeat split; auto.
  - apply andb_true_iff in H. destruct H as [H1 H3]. apply andb_true_iff in H1. destruct H1 as [H1 H2].
    change (forallb is_digit (d :: e :: r)) with (isDigit d && forallb isDigit (e :: r))%bool in H3.
    apply andb_true_iff in H3. destruct H3 as [_ H3].
    split; [exact H1|]. split; [exact H3|].
    intro E. subst d. cbn in H2. discriminate.
Qed.

Lemma skipn_exact {A} (a b : list A) : skipn (List.length a) (a ++ b) = b.
Proof. induction a; cbn; auto. Qed.

Lemma scan_int ds rest :
  plain_nat ds = true -> closer (hd0 rest) = true ->
  scan_token false (ds ++ rest) = (token_INT, ds, List.length ds).
Proof.
  intros Hp Hc. destruct (plain_nat_shape ds Hp) as [d [ds' [-> [Hd [Hds Hz]]]]].
  destruct (closer_facts _ Hc) as [C1 [C2 [C3 [C4 [C5 [C6 _]]]]]].
  unfold scan_token. change ((d :: ds') ++ rest) with (d :: (ds' ++ rest)). cbn [hd0 tl].
  rewrite classify_digit by exact Hd. unfold read_number. cbn [tl].
  assert (Hdot : (d =? 46) = false) by (unfold isDigit in Hd; lia). rewrite Hdot.
  assert (Hx : ((d =? 48) && (hd0 (ds' ++ rest) =? 120)) = false).
  { destruct (d =? 48) eqn:E; [|reflexivity]. apply N.eqb_eq in E. rewrite (Hz E). cbn [app andb]. lia. }
  assert (Hb : ((d =? 48) && (hd0 (ds' ++ rest) =? 98)) = false).
  { destruct (d =? 48) eqn:E; [|reflexivity]. apply N.eqb_eq in E. rewrite (Hz E). cbn [app andb]. lia. }
  rewrite Hx, Hb.
  assert (Hspan : span_len isDigitOrUnderscore (ds' ++ rest) = List.length ds').
  { apply span_len_app; [|exact C1|apply byte_class_sane].
    clear -Hds. induction ds' as [|x l IH]; [reflexivity|]. cbn [forallb] in *.
    apply andb_true_iff in Hds. destruct Hds as [Hx Hl]. unfold isDigitOrUnderscore. rewrite Hx. cbn [orb]. exact (IH Hl). }
  rewrite Hspan. cbn [negb orb].
  change (d :: ds' ++ rest) with ((d :: ds') ++ rest).
  change (S (List.length ds')) with (List.length (d :: ds')).
  rewrite skipn_exact.
  assert (H46 : (hd0 rest =? 46) = false) by lia. rewrite H46. cbn [andb].
  rewrite skipn_exact.
  assert (He : ((hd0 rest =? 101) || (hd0 rest =? 69)) = false) by lia. rewrite He. cbn [negb].
  rewrite go_slice_ok by (rewrite app_length; lia). rewrite firstn_exact'. reflexivity.
Qed.

(* ================================================================ decimal floats: <nat>.<digits> *)
Lemma split_dot_spec : forall l a ob, split_dot l = (a, ob) ->
  match ob with
  | None => l = a
  | Some b => l = a ++ 46 :: b
  end.
Proof.
  induction l as [|c r IH]; intros a ob H; cbn [split_dot] in H.
  - inversion H; subst. reflexivity.
  - destruct (c =? 46) eqn:E.
    + inversion H; subst. apply N.eqb_eq in E. subst c. reflexivity.
    + destruct (split_dot r) as [a' b'] eqn:Er. inversion H; subst. specialize (IH a' ob eq_refl).
      destruct ob; cbn [app]; f_equal; exact IH.
Qed.

Lemma forallb_is_digit_isDigit l : forallb is_digit l = forallb isDigit l.
Proof. reflexivity. Qed.

Lemma scan_float a b rest :
  plain_nat a = true -> forallb isDigit b = true -> b <> [] -> closer (hd0 rest) = true ->
  scan_token false ((a ++ 46 :: b) ++ rest) = (token_FLOAT, a ++ 46 :: b, List.length (a ++ 46 :: b)).
Proof.
  intros Hp Hb Hne Hc. destruct (plain_nat_shape a Hp) as [d [ds' [-> [Hd [Hds Hz]]]]].
  destruct (closer_facts _ Hc) as [C1 [C2 [C3 [C4 [C5 [C6 _]]]]]].
  unfold scan_token. rewrite <- app_assoc. change ((d :: ds') ++ (46 :: b) ++ rest) with (d :: (ds' ++ 46 :: b ++ rest)). cbn [hd0 tl].
  rewrite classify_digit by exact Hd. unfold read_number. cbn [tl].
  assert (Hdot : (d =? 46) = false) by (unfold isDigit in Hd; lia). rewrite Hdot.
  assert (Hx : ((d =? 48) && (hd0 (ds' ++ 46 :: b ++ rest) =? 120)) = false).
  { destruct (d =? 48) eqn:E; [|reflexivity]. apply N.eqb_eq in E. rewrite (Hz E). reflexivity. }
  assert (Hbb : ((d =? 48) && (hd0 (ds' ++ 46 :: b ++ rest) =? 98)) = false).
  { destruct (d =? 48) eqn:E; [|reflexivity]. apply N.eqb_eq in E. rewrite (Hz E). reflexivity. }
  rewrite Hx, Hbb.
  assert (Hspan : span_len isDigitOrUnderscore (ds' ++ 46 :: b ++ rest) = List.length ds').
  { apply span_len_app; [|reflexivity|apply byte_class_sane].
    clear -Hds. induction ds' as [|x l IH]; [reflexivity|]. cbn [forallb] in *.
    apply andb_true_iff in Hds. destruct Hds as [Hx Hl]. unfold isDigitOrUnderscore. rewrite Hx. cbn [orb]. exact (IH Hl). }
  rewrite Hspan. cbn [negb orb].
  change (d :: ds' ++ 46 :: b ++ rest) with ((d :: ds') ++ 46 :: b ++ rest).
  change (S (List.length ds')) with (List.length (d :: ds')).
  rewrite skipn_exact. cbn [hd0 tl]. change (46 =? 46) with true. cbn [andb].
  assert (Hspan2 : span_len isDigitOrUnderscore (b ++ rest) = List.length b).
  { apply span_len_app; [|exact C1|apply byte_class_sane].
    clear -Hb. induction b as [|x l IH]; [reflexivity|]. cbn [forallb] in *.
    apply andb_true_iff in Hb. destruct Hb as [Hx Hl]. unfold isDigitOrUnderscore. rewrite Hx. cbn [orb]. exact (IH Hl). }
  rewrite Hspan2.
  assert (SK : skipn (List.length (d :: ds') + 1 + List.length b) ((d :: ds') ++ 46 :: b ++ rest) = rest).
  { replace (List.length (d :: ds') + 1 + List.length b)%nat with (List.length ((d :: ds') ++ 46 :: b)).
    - change ((d :: ds') ++ 46 :: b ++ rest) with ((d :: ds') ++ (46 :: b) ++ rest). rewrite app_assoc. apply skipn_exact.
    - rewrite app_length. cbn [List.length]. lia. }
  rewrite SK.
  assert (He : ((hd0 rest =? 101) || (hd0 rest =? 69)) = false) by lia. rewrite He. cbn [negb].
  replace (List.length (d :: ds') + 1 + List.length b)%nat with (List.length ((d :: ds') ++ 46 :: b))
    by (rewrite app_length; cbn [List.length]; lia).
  change ((d :: ds') ++ 46 :: b ++ rest) with ((d :: ds') ++ (46 :: b) ++ rest). rewrite app_assoc.
  rewrite go_slice_ok by (rewrite !app_length; lia). rewrite firstn_exact'. reflexivity.
Qed.

(* the two forms of a plain decimal *)
Lemma plain_decimal_shape t : plain_decimal t = true ->
  (split_dot t = (t, None) /\ plain_nat t = true) \/
  (exists a b, split_dot t = (a, Some b) /\ t = a ++ 46 :: b /\ plain_nat a = true /\ forallb isDigit b = true /\ b <> []).
Proof.
  unfold plain_decimal. destruct (split_dot t) as [a ob] eqn:E. pose proof (split_dot_spec t a ob E) as S.
  destruct ob as [b|]; intro H.
  - right. exists a, b. apply andb_true_iff in H. destruct H as [H12 H3]. apply andb_true_iff in H12. destruct H12 as [H1 H2].
    repeat split; auto. destruct b; [discriminate|discriminate].
  - left. subst a. auto.
Qed.

(* ================================================================ quoted strings *)
Lemma hex_val_hexdigit n : n < 16 -> hex_val (hexdigit n) = n.
Proof.
  intro H. unfold hexdigit, hex_val. destruct (n <? 10) eqn:E.
  - replace ((48 <=? 48 + n) && (48 + n <=? 57)) with true by lia. lia.
  - replace ((48 <=? 87 + n) && (87 + n <=? 57)) with false by lia.
    replace ((97 <=? 87 + n) && (87 + n <=? 102)) with true by lia. lia.
Qed.

(* side conditions on the generated escape table of readString *)
Lemma escape_table_ok :
  assoc_byte simple_escapes 97 = Some 7 /\ assoc_byte simple_escapes 98 = Some 8 /\
  assoc_byte simple_escapes 102 = Some 12 /\ assoc_byte simple_escapes 110 = Some 10 /\
  assoc_byte simple_escapes 114 = Some 13 /\ assoc_byte simple_escapes 116 = Some 9 /\
  assoc_byte simple_escapes 118 = Some 11 /\ assoc_byte simple_escapes 34 = None /\
  assoc_byte simple_escapes 92 = None /\ assoc_byte simple_escapes 120 = None.
Proof. vm_compute. repeat split. Qed.

(* the lexer's unescaping inverts strconv.Quote (on the byte universe of go_quote) *)
Lemma qbyte_body : forall s, Forall (fun c => c < 256) s -> str_body true 34 (flat_map qbyte s) s.
Proof.
  destruct escape_table_ok as [E97 [E98 [E102 [E110 [E114 [E116 [E118 [E34 [E92 E120]]]]]]]]].
  induction s as [|c s IH]; intro H; cbn [flat_map]; [constructor|].
  inversion H as [|? ? Hc Hs]; subst. specialize (IH Hs). unfold qbyte.
  destruct (c =? 34) eqn:Q1.
  { apply N.eqb_eq in Q1. subst c. cbn [app]. apply sb_other; auto; lia. }
  destruct (c =? 92) eqn:Q2.
  { apply N.eqb_eq in Q2. subst c. cbn [app]. apply sb_other; auto; lia. }
  destruct (c =? 7) eqn:Q3. { apply N.eqb_eq in Q3. subst c. cbn [app]. apply sb_simple; auto. }
  destruct (c =? 8) eqn:Q4. { apply N.eqb_eq in Q4. subst c. cbn [app]. apply sb_simple; auto. }
  destruct (c =? 12) eqn:Q5. { apply N.eqb_eq in Q5. subst c. cbn [app]. apply sb_simple; auto. }
  destruct (c =? 10) eqn:Q6. { apply N.eqb_eq in Q6. subst c. cbn [app]. apply sb_simple; auto. }
  destruct (c =? 13) eqn:Q7. { apply N.eqb_eq in Q7. subst c. cbn [app]. apply sb_simple; auto. }
  destruct (c =? 9) eqn:Q8. { apply N.eqb_eq in Q8. subst c. cbn [app]. apply sb_simple; auto. }
  destruct (c =? 11) eqn:Q9. { apply N.eqb_eq in Q9. subst c. cbn [app]. apply sb_simple; auto. }
  destruct ((32 <=? c) && (c <=? 126)) eqn:Q10.
  { cbn [app]. apply sb_char; [cbn [andb]; exact Q2|lia|exact IH]. }
  change ([92; 120; hexdigit (c / 16); hexdigit (c mod 16)] ++ flat_map qbyte s)
    with (92 :: 120 :: [hexdigit (c / 16); hexdigit (c mod 16)] ++ flat_map qbyte s).
  assert (HV : hex_value [hexdigit (c / 16); hexdigit (c mod 16)] = c).
  { unfold hex_value. cbn [fold_left].
    rewrite !hex_val_hexdigit.
    - pose proof (N.div_mod' c 16). lia.
    - apply N.mod_lt. lia.
    - apply N.div_lt_upper_bound; lia. }
  rewrite <- HV at 3. apply sb_hex; auto.
Qed.

Lemma scan_string s rest :
  Forall (fun c => c < 256) s ->
  scan_token false (go_quote s ++ rest) = (token_STRING, s, List.length (go_quote s)).
Proof.
  intro H. unfold go_quote. rewrite <- !app_assoc. cbn [app]. unfold scan_token. cbn [hd0 tl].
  change (classify 34 (hd0 (flat_map qbyte s ++ 34 :: rest)) (is_nil (34 :: flat_map qbyte s ++ 34 :: rest))) with KString.
  change (34 =? 34) with true.
  rewrite (read_string_complete true 34 (flat_map qbyte s) s); [| lia | apply qbyte_body; exact H |].
  - cbn [app List.length]. rewrite app_length. cbn [List.length]. reflexivity.
  - rewrite app_length. cbn [List.length]. lia.
Qed.

(* ================================================================ fmt_nat is a plain decimal *)
Lemma fmt_nat_fuel_head fuel : forall n acc,
  n < 2 ^ N.of_nat fuel -> 0 < n ->
  exists d r, fmt_nat_fuel fuel n acc = d :: r /\ isDigit d = true /\ d <> 48.
Proof.
  induction fuel as [|f IH]; intros n acc Hf Hn.
  - cbn in Hf. lia.
  - cbn [fmt_nat_fuel].
    replace (N.of_nat (S f)) with (N.succ (N.of_nat f)) in Hf by lia. rewrite N.pow_succ_r' in Hf.
    assert (Hm : n mod 10 < 10) by (apply N.mod_lt; lia).
    assert (Hd : n = 10 * (n / 10) + n mod 10) by (apply N.div_mod'; lia).
    destruct (n / 10 =? 0) eqn:E.
    + apply N.eqb_eq in E. exists (digit (n mod 10)), acc. split; [reflexivity|].
      unfold digit, isDigit. split; lia.
    + apply N.eqb_neq in E. apply IH; lia.
Qed.

Lemma forallb_isd l : Forall isd l -> forallb is_digit l = true.
Proof. induction 1 as [|x r Hx Hr IH]; [reflexivity|]. cbn [forallb]. unfold isd in Hx. rewrite Hx. exact IH. Qed.

Lemma fmt_nat_plain n : plain_nat (fmt_nat n) = true.
Proof.
  destruct (N.eq_dec n 0) as [->|Hn]; [reflexivity|].
  pose proof (fmt_nat_digits n) as HD. unfold fmt_nat in *.
  destruct (fmt_nat_fuel_head (S (N.size_nat n)) n []) as [d [r [E [Hd Hnz]]]].
  - pose proof (size_nat_bound n).
    replace (N.of_nat (S (N.size_nat n))) with (N.succ (N.of_nat (N.size_nat n))) by lia.
    rewrite N.pow_succ_r'. lia.
  - lia.
  - rewrite E in *. cbn [plain_nat]. destruct r as [|e r']; [exact Hd|].
    rewrite (forallb_isd _ HD). rewrite is_digit_isDigit, Hd.
    replace (d =? 48) with false by lia. reflexivity.
Qed.

Lemma fmt_nat_first n : exists d r, fmt_nat n = d :: r /\ isDigit d = true.
Proof.
  pose proof (fmt_nat_plain n) as H. destruct (plain_nat_shape _ H) as [d [r [E [Hd _]]]]. eauto.
Qed.

(* ================================================================ the token sequence of a value *)
Fixpoint tjoin (sep : list ptok) (l : list (list ptok)) : list ptok :=
  match l with
  | [] => []
  | [x] => x
  | x :: r => x ++ sep ++ tjoin sep r
  end.

Definition t_comma := ptk token_COMMA [44].
Definition t_colon := ptk token_COLON [58].
Definition t_minus := ptk token_MINUS [45].
Definition t_plus := ptk token_PLUS [43].
Definition t_lbracket := ptk token_LBRACKET [91].
Definition t_rbracket := ptk token_RBRACKET [93].
Definition t_lbrace := ptk token_LBRACE [123].
Definition t_rbrace := ptk token_RBRACE [125].
Definition t_assign := ptk token_ASSIGN [61].
Definition t_int (n : N) := ptk token_INT (fmt_nat n).

(* a finite float's magnitude is one number token: FLOAT when the text has a point, INT otherwise (1e21) *)
Definition float_tok (t : bytes) : ptok :=
  match split_dot t with
  | (_, Some _) => ptk token_FLOAT t
  | (_, None) => ptk token_INT t
  end.

Fixpoint vtoks (v : value) {struct v} : list ptok :=
  match v with
  | VInt (Zneg p) => [t_minus; t_int (Npos p)]
  | VInt z => [t_int (Z.to_N z)]
  | VFloat FNaN => [ptk token_IDENT (B"NaN")]
  | VFloat (FInf false) => [t_plus; ptk token_IDENT (B"Inf")]
  | VFloat (FInf true) => [t_minus; ptk token_IDENT (B"Inf")]
  | VFloat (FFin neg m e) => (if neg then [t_minus] else []) ++ [float_tok (fmt_float_abs m e)]
  | VBool true => [ptk token_TRUE (B"true")]
  | VBool false => [ptk token_FALSE (B"false")]
  | VNil => [ptk token_IDENT (B"nil")]
  | VStr s => [ptk token_STRING s]
  | VArr l => t_lbracket :: tjoin [t_comma] (map vtoks l) ++ [t_rbracket]
  | VMap l =>
    t_lbrace ::
    tjoin [t_comma]
      ((fix go (ps : list (value * value)) : list (list ptok) :=
          match ps with
          | [] => []
          | (k, x) :: r => (vtoks k ++ [t_colon] ++ vtoks x) :: go r
          end) l) ++ [t_rbrace]
  | VTxt _ _ => []
  end.

Definition pair_text (p : value * value) : bytes := inspect (fst p) ++ [58] ++ inspect (snd p).
Definition pair_toks (p : value * value) : list ptok := vtoks (fst p) ++ [t_colon] ++ vtoks (snd p).

Lemma inspect_map_unfold l :
  inspect (VMap l) = [123] ++ join_with [44] (map pair_text l) ++ [125].
Proof.
  cbn [inspect]. do 2 f_equal. f_equal.
  induction l as [|[k x] r IH]; [reflexivity|]. cbn [map]. rewrite <- IH. reflexivity.
Qed.

Lemma vtoks_map_unfold l :
  vtoks (VMap l) = t_lbrace :: tjoin [t_comma] (map pair_toks l) ++ [t_rbrace].
Proof.
  cbn [vtoks]. do 2 f_equal. f_equal.
  induction l as [|[k x] r IH]; [reflexivity|]. cbn [map]. rewrite <- IH. reflexivity.
Qed.

(* the part of the domain this file is about: data, float texts in plain decimal form, string bytes below 256 *)
Fixpoint lex_dom (v : value) {struct v} : bool :=
  match v with
  | VFloat (FFin _ m e) => plain_decimal (fmt_float_abs m e)
  | VStr s => forallb (fun c => c <? 256) s
  | VArr l => forallb lex_dom l
  | VMap l =>
    (fix go (ps : list (value * value)) : bool :=
       match ps with [] => true | (k, x) :: r => lex_dom k && lex_dom x && go r end) l
  | VTxt _ _ => false
  | _ => true
  end.

Definition lex_ok (v : value) : Prop :=
  forall rest toks, closer (hd0 rest) = true -> lexes_as rest toks ->
    lexes_as (inspect v ++ rest) (vtoks v ++ toks).

(* the first byte of a printed value is not '=' or '>' (what follows the '=' of a line and the ':' of a pair) *)
Definition first_ok (v : value) : Prop :=
  forall rest, hd0 (inspect v ++ rest) <> 61 /\ hd0 (inspect v ++ rest) <> 62.

Lemma plain_decimal_first t : plain_decimal t = true -> exists d r, t = d :: r /\ isDigit d = true.
Proof.
  intro H. destruct (plain_decimal_shape t H) as [[_ P]|[a [b [_ [E [P _]]]]]].
  - destruct (plain_nat_shape t P) as [d [r [-> [Hd _]]]]. eauto.
  - destruct (plain_nat_shape a P) as [d [r [-> [Hd _]]]]. subst t. cbn [app]. eauto.
Qed.

(* lexing the magnitude of a finite float *)
Lemma lex_float_text t rest toks :
  plain_decimal t = true -> closer (hd0 rest) = true -> lexes_as rest toks ->
  lexes_as (t ++ rest) (float_tok t :: toks).
Proof.
  intros H Hc Hl. destruct (plain_decimal_first t H) as [d [r [Et Hd]]].
  assert (W : isWhiteSpace (hd0 t) = false) by (rewrite Et; cbn [hd0]; unfold isDigit, isWhiteSpace in *; lia).
  assert (NE : t <> []) by (rewrite Et; discriminate).
  unfold float_tok. destruct (plain_decimal_shape t H) as [[E P]|[a [b [E [Eab [P [Hb Hne]]]]]]]; rewrite E.
  - apply lexes_cons; try reflexivity; [exact NE|exact W| |exact Hl]. apply scan_int; assumption.
  - apply lexes_cons; try reflexivity; [exact NE|exact W| |exact Hl]. rewrite Eab. apply scan_float; assumption.
Qed.

Lemma first_ok_all v : lex_dom v = true -> first_ok v.
Proof.
  intros D rest. destruct v as [z|f|b| |s|l|l|k s]; cbn [inspect lex_dom] in *; try discriminate.
  - destruct z as [|p|p]; cbn [fmt_int Z.to_N].
    + cbn. lia.
    + destruct (fmt_nat_first (N.pos p)) as [d [r [E Hd]]]. rewrite E. cbn [app hd0]. unfold isDigit in Hd. lia.
    + cbn [app hd0]. lia.
  - destruct f as [|[|]|neg m e]; try (cbn; lia). cbn [fmt_float].
    destruct (plain_decimal_first _ D) as [d [r [E Hd]]]. rewrite E. unfold isDigit in Hd. destruct neg; cbn [app hd0]; lia.
  - destruct b; cbn; lia.
  - cbn; lia.
  - unfold go_quote. cbn [app hd0]. lia.
  - cbn [app hd0]. lia.
  - cbn [app hd0]. lia.
Qed.

Lemma lex_join_gen (texts : list bytes) (tokss : list (list ptok)) :
  Forall2 (fun txt tks => forall rest toks, closer (hd0 rest) = true -> lexes_as rest toks -> lexes_as (txt ++ rest) (tks ++ toks))
          texts tokss ->
  forall close rest toks, closer close = true -> lexes_as (close :: rest) toks ->
    lexes_as (join_with [44] texts ++ close :: rest) (tjoin [t_comma] tokss ++ toks).
Proof.
  induction 1 as [|txt tks texts' tokss' Hx Hr IH]; intros close rest toks Hc Hl; cbn [join_with tjoin app]; [exact Hl|].
  destruct Hr as [|txt2 tks2 texts2 tokss2 Hx2 Hr2].
  - apply Hx; [cbn [hd0]; exact Hc|exact Hl].
  - rewrite <- !app_assoc. apply Hx; [reflexivity|].
    cbn [app]. change (44 :: join_with [44] (txt2 :: texts2) ++ close :: rest)
      with ([44] ++ (join_with [44] (txt2 :: texts2) ++ close :: rest)).
    apply lexes_cons; try reflexivity; [discriminate|].
    apply IH; assumption.
Qed.

Lemma forallb_lt256 s : forallb (fun c => c <? 256) s = true -> Forall (fun c => c < 256) s.
Proof.
  induction s as [|c r IH]; intro H; [constructor|]. cbn [forallb] in H. apply andb_true_iff in H. destruct H as [H1 H2].
  constructor; [lia|exact (IH H2)].
Qed.

Ltac word_tok := apply lexes_cons; try reflexivity; try discriminate.

Theorem lex_value : forall v, lex_dom v = true -> lex_ok v.
Proof.
  induction v using value_ind2; intros D rest toks Hc Hl; cbn [lex_dom] in D.
  - (* integers *)
    destruct (closer_facts _ Hc) as [_ [_ [_ [_ [_ [_ [Han _]]]]]]].
    destruct z as [|p|p]; cbn [inspect fmt_int vtoks Z.to_N].
    + change ([t_int 0] ++ toks) with (t_int 0 :: toks). unfold t_int.
      apply lexes_cons; try reflexivity; [discriminate| |exact Hl]. apply scan_int; [reflexivity|exact Hc].
    + change ([t_int (N.pos p)] ++ toks) with (t_int (N.pos p) :: toks). unfold t_int.
      destruct (fmt_nat_first (N.pos p)) as [d [r [E Hd]]].
      apply lexes_cons; try reflexivity; [rewrite E; discriminate|rewrite E; cbn [hd0]; unfold isDigit, isWhiteSpace in *; lia| |exact Hl].
      apply scan_int; [apply fmt_nat_plain|exact Hc].
    + change (45 :: fmt_nat (N.pos p)) with ([45] ++ fmt_nat (N.pos p)). rewrite <- app_assoc.
      change ([t_minus; t_int (N.pos p)] ++ toks) with (t_minus :: t_int (N.pos p) :: toks).
      destruct (fmt_nat_first (N.pos p)) as [d [r [E Hd]]].
      apply lexes_cons; try reflexivity; [discriminate| |].
      * apply scan_minus. rewrite E. cbn [app hd0]. unfold isDigit in Hd. lia.
      * unfold t_int.
        apply lexes_cons; try reflexivity; [rewrite E; discriminate|rewrite E; cbn [hd0]; unfold isDigit, isWhiteSpace in *; lia| |exact Hl].
        apply scan_int; [apply fmt_nat_plain|exact Hc].
  - (* floats: only NaN and the infinities *)
    destruct (closer_facts _ Hc) as [_ [_ [_ [_ [_ [_ [Han _]]]]]]].
    destruct f as [|[|]|neg m e]; cbn [inspect fmt_float vtoks].
    4: {
      destruct (plain_decimal_first _ D) as [d [r [E Hd]]].
      destruct neg; cbn [app].
      - change (45 :: fmt_float_abs m e ++ rest) with ([45] ++ (fmt_float_abs m e ++ rest)).
        apply lexes_cons; try reflexivity; [discriminate| |].
        + apply scan_minus. rewrite E. cbn [app hd0]. unfold isDigit in Hd. lia.
        + apply lex_float_text; assumption.
      - apply lex_float_text; assumption. }
    + change (B"NaN") with ([78; 97; 78]). change ([ptk token_IDENT [78; 97; 78]] ++ toks) with (ptk token_IDENT [78; 97; 78] :: toks).
      word_tok; [|exact Hl]. apply (scan_word 78 [97; 78] rest); [reflexivity|reflexivity|exact Han].
    + change (B"-Inf") with ([45] ++ [73; 110; 102]). rewrite <- app_assoc.
      change ([t_minus; ptk token_IDENT (B"Inf")] ++ toks) with (t_minus :: ptk token_IDENT [73; 110; 102] :: toks).
      word_tok; try (apply scan_minus; cbn; lia).
      word_tok; [|exact Hl]. apply (scan_word 73 [110; 102] rest); [reflexivity|reflexivity|exact Han].
    + change (B"+Inf") with ([43] ++ [73; 110; 102]). rewrite <- app_assoc.
      change ([t_plus; ptk token_IDENT (B"Inf")] ++ toks) with (t_plus :: ptk token_IDENT [73; 110; 102] :: toks).
      word_tok; try (apply scan_plus; cbn; lia).
      word_tok; [|exact Hl]. apply (scan_word 73 [110; 102] rest); [reflexivity|reflexivity|exact Han].
  - (* booleans *)
    destruct (closer_facts _ Hc) as [_ [_ [_ [_ [_ [_ [Han _]]]]]]].
    destruct b; cbn [inspect vtoks].
    + change (B"true") with ([116; 114; 117; 101]). change ([ptk token_TRUE (B"true")] ++ toks) with (ptk token_TRUE [116; 114; 117; 101] :: toks).
      word_tok; [|exact Hl]. apply (scan_word 116 [114; 117; 101] rest); [reflexivity|reflexivity|exact Han].
    + change (B"false") with ([102; 97; 108; 115; 101]). change ([ptk token_FALSE (B"false")] ++ toks) with (ptk token_FALSE [102; 97; 108; 115; 101] :: toks).
      word_tok; [|exact Hl]. apply (scan_word 102 [97; 108; 115; 101] rest); [reflexivity|reflexivity|exact Han].
  - (* nil *)
    destruct (closer_facts _ Hc) as [_ [_ [_ [_ [_ [_ [Han _]]]]]]].
    cbn [inspect vtoks]. change (B"nil") with ([110; 105; 108]). change ([ptk token_IDENT (B"nil")] ++ toks) with (ptk token_IDENT [110; 105; 108] :: toks).
    word_tok; [|exact Hl]. apply (scan_word 110 [105; 108] rest); [reflexivity|reflexivity|exact Han].
  - (* strings *)
    cbn [inspect vtoks]. change ([ptk token_STRING s] ++ toks) with (ptk token_STRING s :: toks).
    apply lexes_cons; try reflexivity; [unfold go_quote; discriminate| |exact Hl].
    apply scan_string. apply forallb_lt256. exact D.
  - discriminate.
  - (* arrays *)
    cbn [inspect vtoks]. rewrite <- !app_assoc. cbn [app].
    change (91 :: join_with [44] (map inspect l) ++ 93 :: rest) with ([91] ++ (join_with [44] (map inspect l) ++ 93 :: rest)).
    apply lexes_cons; try reflexivity; [discriminate|]. rewrite <- app_assoc.
    apply lex_join_gen; [| reflexivity |].
    + clear -H D. induction H as [|x r Hx Hr IH]; cbn [map]; [constructor|].
      cbn [forallb] in D. apply andb_true_iff in D. destruct D as [D1 D2].
      constructor; [exact (Hx D1)|exact (IH D2)].
    + change (93 :: rest) with ([93] ++ rest). apply lexes_cons; try reflexivity; [discriminate|exact Hl].
  - (* maps *)
    rewrite inspect_map_unfold, vtoks_map_unfold. rewrite <- !app_assoc. cbn [app].
    change (123 :: join_with [44] (map pair_text l) ++ 125 :: rest) with ([123] ++ (join_with [44] (map pair_text l) ++ 125 :: rest)).
    apply lexes_cons; try reflexivity; [discriminate|]. rewrite <- app_assoc.
    apply lex_join_gen; [| reflexivity |].
    + clear -H D. induction H as [|[k x] r Hx Hr IH]; cbn [map]; [constructor|].
      apply andb_true_iff in D. destruct D as [D12 D3]. apply andb_true_iff in D12. destruct D12 as [D1 D2].
      cbn [fst snd] in Hx. destruct Hx as [Hk Hv].
      constructor; [|exact (IH D3)].
      intros rest toks Hc Hl. unfold pair_text, pair_toks. cbn [fst snd]. rewrite <- !app_assoc.
      apply (Hk D1); [reflexivity|]. cbn [app].
      change (58 :: inspect x ++ rest) with ([58] ++ (inspect x ++ rest)).
      apply lexes_cons; try reflexivity; [discriminate| |].
      * apply scan_colon. apply (first_ok_all x D2).
      * apply (Hv D2); assumption.
    + change (125 :: rest) with ([125] ++ rest). apply lexes_cons; try reflexivity; [discriminate|exact Hl].
Qed.

(* ================================================================ the whole saved line *)
Lemma good_name_shape k : good_name k = true ->
  exists c r, k = c :: r /\ isLetter c = true /\ forallb IsAlphaNum r = true /\ lookup_ident k = token_IDENT.
Proof.
  destruct k as [|c r]; cbn [good_name]; [discriminate|]. intro H.
  apply andb_true_iff in H. destruct H as [H12 H3]. apply andb_true_iff in H12. destruct H12 as [H1 H2].
  exists c, r. repeat split; auto. apply Z.eqb_eq. exact H3.
Qed.

Theorem lex_line k v : good_name k = true -> lex_dom v = true ->
  front_tokens false (save_line k v) = ptk token_IDENT k :: t_assign :: vtoks v ++ [eof_ptok].
Proof.
  intros Hk Hv. destruct (good_name_shape k Hk) as [c [r [-> [Hc [Hr Hid]]]]].
  unfold front_tokens, lex_all, save_line.
  assert (L : lexes_as ((c :: r) ++ [61] ++ inspect v) (ptk token_IDENT (c :: r) :: t_assign :: vtoks v)).
  { rewrite <- Hid at 1.
    apply lexes_cons; try reflexivity; [discriminate|cbn [hd0]; unfold isLetter, isWhiteSpace in *; lia| | | |].
    - rewrite scan_word; [reflexivity|exact Hc|exact Hr|reflexivity].
    - rewrite Hid. reflexivity.
    - rewrite Hid. reflexivity.
    - rewrite <- (app_nil_r (inspect v)). rewrite <- (app_nil_r (vtoks v)) at 1.
      apply lexes_cons; try reflexivity; [discriminate| |].
      + apply scan_assign; apply (first_ok_all v Hv).
      + apply (lex_value v Hv); [reflexivity|apply lexes_nil]. }
  rewrite (L _ 0%nat); [reflexivity|reflexivity|lia].
Qed.
