(* Soundness of the register rewrite on the integer fragment of model/RegFragment.v (C05 stretch). *)
From Coq Require Import List ZArith NArith Bool Lia.
From GrolGen Require Import Gen_Consts.
From GrolModel Require Import Ast Modify Registers RegFragment.
From GrolProofs Require Import Modify_proofs.
Import ListNotations.
Local Open Scope Z_scope.

Lemma bytes_eqb_refl : forall b, bytes_eqb b b = true.
Proof. induction b; simpl; auto. rewrite N.eqb_refl; auto. Qed.

Lemma bytes_eqb_eq : forall a b, bytes_eqb a b = true -> a = b.
Proof.
  induction a; destruct b; simpl; intros; try discriminate; auto.
  apply andb_prop in H as [H1 H2]. apply N.eqb_eq in H1. f_equal; auto.
Qed.

Lemma bytes_eqb_sym : forall a b, bytes_eqb a b = bytes_eqb b a.
Proof.
  induction a; destruct b; simpl; auto.
  rewrite N.eqb_sym. rewrite IHa. reflexivity.
Qed.

Section Sound.
  Variable x : bytes.

  (* the simulation statement for one node *)
  Definition sim (n : node) : Prop :=
    forall sv sr, reg_related x sv sr ->
      fst (ieval None n sv) <> IUnsupported ->
      fst (ieval (Some x) (subst_reg x n) sr) = fst (ieval None n sv)
      /\ reg_related x (snd (ieval None n sv)) (snd (ieval (Some x) (subst_reg x n) sr)).

  Lemma related_update_other : forall k v sv sr,
    bytes_eqb k x = false -> reg_related x sv sr ->
    reg_related x (update k v (fst sv), snd sv) (update k v (fst sr), snd sr).
  Proof.
    intros k v sv sr Hk [H1 H2]. split; simpl.
    - rewrite Hk. exact H1.
    - intros q Hq. rewrite (H2 q Hq). reflexivity.
  Qed.

  Lemma related_update_x : forall v sv sr,
    reg_related x sv sr ->
    reg_related x (update x v (fst sv), snd sv) (fst sr, v).
  Proof.
    intros v sv sr [H1 H2]. split; simpl.
    - rewrite bytes_eqb_refl. reflexivity.
    - intros q Hq. rewrite bytes_eqb_sym, Hq. apply H2; exact Hq.
  Qed.

  Lemma sim_stmts : forall l, ListP sim l ->
    forall sv sr last, reg_related x sv sr ->
      fst (estmts (ieval None) l sv last) <> IUnsupported ->
      fst (estmts (ieval (Some x)) (map (option_map (subst_reg x)) l) sr last)
        = fst (estmts (ieval None) l sv last)
      /\ reg_related x (snd (estmts (ieval None) l sv last))
                       (snd (estmts (ieval (Some x)) (map (option_map (subst_reg x)) l) sr last)).
  Proof.
    induction 1 as [|o l Ho Hl IH]; intros sv sr last HR Hsup; simpl in *.
    - split; [reflexivity | exact HR].
    - destruct o as [c|]; simpl in *; [|congruence].
      destruct (ieval None c sv) as [rv sv1] eqn:Ev.
      destruct (ieval (Some x) (subst_reg x c) sr) as [rr sr1] eqn:Er.
      assert (Hs : rv <> IUnsupported).
      { intro Hc; subst rv. simpl in Hsup. congruence. }
      destruct (Ho sv sr HR) as [Heq HR1]; [rewrite Ev; exact Hs|].
      rewrite Ev, Er in Heq, HR1. simpl in Heq, HR1. subst rr.
      destruct rv; simpl in *; try (split; [reflexivity | exact HR1]).
      + apply IH; auto.
      + apply IH; auto.
  Qed.

  Lemma sim_all : forall n, sim n.
  Proof.
    induction n using node_ind'; unfold sim; intros sv sr HR Hsup;
      try (simpl in Hsup; congruence).
    - (* ident *)
      simpl in *.
      destruct (ttype t =? token_REGISTER)%Z eqn:Hreg; simpl in *; [congruence|].
      destruct (bytes_eqb (tlit t) x) eqn:Hx; simpl.
      + (* the name: variable read vs register read *)
        replace (token_REGISTER =? token_REGISTER)%Z with true by reflexivity.
        rewrite bytes_eqb_refl. simpl.
        apply bytes_eqb_eq in Hx. rewrite Hx.
        destruct HR as [H1 H2]. rewrite H1. simpl. split; [reflexivity | split; assumption].
      + rewrite Hreg. simpl.
        destruct HR as [H1 H2]. rewrite <- (H2 _ Hx).
        destruct (lookup (tlit t) (fst sv)); simpl; (split; [reflexivity | split; assumption]).
    - (* int *) simpl. split; [reflexivity | exact HR].
    - (* stmts *)
      simpl in *. apply sim_stmts; auto.
    - (* prefix *)
      destruct r as [a|]; simpl in *; [|congruence].
      destruct (ttype t =? token_MINUS)%Z; simpl in *; [|congruence].
      destruct (ieval None a sv) as [rv sv1] eqn:Ev.
      destruct (ieval (Some x) (subst_reg x a) sr) as [rr sr1] eqn:Er.
      assert (Hs : rv <> IUnsupported) by (intro Hc; subst rv; simpl in Hsup; congruence).
      destruct (H sv sr HR) as [Heq HR1]; [rewrite Ev; exact Hs|].
      rewrite Ev, Er in Heq, HR1. simpl in Heq, HR1. subst rr.
      destruct rv; simpl in *; try congruence; (split; [reflexivity | exact HR1]).
    - (* infix *)
      destruct l as [a|]; [|simpl in Hsup; congruence].
      destruct r as [b|]; [|simpl in Hsup; congruence].
      simpl in H, H0. simpl ieval in *. simpl option_map.
      destruct (ttype t =? token_ASSIGN)%Z eqn:Hasg.
      + (* assignment *)
        destruct (ieval None b sv) as [rv sv1] eqn:Ev.
        destruct (ieval (Some x) (subst_reg x b) sr) as [rr sr1] eqn:Er.
        assert (Hs : rv <> IUnsupported).
        { intro Hc; subst rv. simpl in Hsup. congruence. }
        destruct (H0 sv sr HR) as [Heq HR1]; [rewrite Ev; exact Hs|].
        rewrite Ev, Er in Heq, HR1. simpl in Heq, HR1. subst rr.
        destruct rv; simpl in *; try congruence; try (split; [reflexivity | exact HR1]).
        destruct a; simpl in *; try congruence.
        destruct (ttype t0 =? token_REGISTER)%Z eqn:Hreg; simpl in *; [congruence|].
        destruct (bytes_eqb (tlit t0) x) eqn:Hx; simpl.
        * replace (token_REGISTER =? token_REGISTER)%Z with true by reflexivity.
          rewrite bytes_eqb_refl. simpl.
          apply bytes_eqb_eq in Hx. rewrite Hx.
          split; [reflexivity|]. apply (related_update_x v sv1 sr1 HR1).
        * rewrite Hreg. simpl. split; [reflexivity|].
          apply (related_update_other (tlit t0) v sv1 sr1 Hx HR1).
      + (* arithmetic *)
        destruct (arith (ttype t)) as [op|]; [|simpl in Hsup; congruence].
        destruct (ieval None a sv) as [rva sv1] eqn:Eva.
        destruct (ieval (Some x) (subst_reg x a) sr) as [rra sr1] eqn:Era.
        assert (Hsa : rva <> IUnsupported).
        { intro Hc; subst rva. simpl in Hsup. congruence. }
        destruct (H sv sr HR) as [Heqa HRa]; [rewrite Eva; exact Hsa|].
        rewrite Eva, Era in Heqa, HRa. simpl in Heqa, HRa. subst rra.
        destruct rva; simpl in *; try congruence; try (split; [reflexivity | exact HRa]).
        destruct (ieval None b sv1) as [rvb sv2] eqn:Evb.
        destruct (ieval (Some x) (subst_reg x b) sr1) as [rrb sr2] eqn:Erb.
        assert (Hsb : rvb <> IUnsupported).
        { intro Hc; subst rvb. simpl in Hsup. congruence. }
        destruct (H0 sv1 sr1 HRa) as [Heqb HRb]; [rewrite Evb; exact Hsb|].
        rewrite Evb, Erb in Heqb, HRb. simpl in Heqb, HRb. subst rrb.
        destruct rvb; simpl in *; try congruence; (split; [reflexivity | exact HRb]).
  Qed.
End Sound.

(* For every body of the integer fragment: evaluating the REWRITTEN body with the name held in
   the register gives the same result as evaluating the ORIGINAL body with the name as an
   ordinary variable, and leaves related bindings (the register holds the variable's value,
   every other name is bound alike). *)
Theorem rewrite_sound_lemma : forall (x : bytes) (body : node) (sv sr : istate),
  reg_related x sv sr ->
  fst (ieval None body sv) <> IUnsupported ->
  fst (ieval (Some x) (subst_reg x body) sr) = fst (ieval None body sv)
  /\ reg_related x (snd (ieval None body sv)) (snd (ieval (Some x) (subst_reg x body) sr)).
Proof. intros x body. exact (sim_all x body). Qed.

(* ---------- counted loops over the fragment ---------- *)
Lemma related_at_iteration_start : forall x i sv sr,
  others_related x sv sr ->
  reg_related x (update x i (fst sv), snd sv) (fst sr, i).
Proof.
  intros x i sv sr Ho. split; simpl.
  - rewrite bytes_eqb_refl. reflexivity.
  - intros q Hq. rewrite bytes_eqb_sym, Hq. apply Ho; exact Hq.
Qed.

Lemma loop_rewrite_sound_lemma : forall (x : bytes) (body : node) (n : nat) (i : Z) (sv sr : istate) (last : ires),
  others_related x sv sr ->
  fst (iloop None x body i n sv last) <> IUnsupported ->
  fst (iloop (Some x) x (subst_reg x body) i n sr last) = fst (iloop None x body i n sv last)
  /\ others_related x (snd (iloop None x body i n sv last))
                      (snd (iloop (Some x) x (subst_reg x body) i n sr last)).
Proof.
  intros x body n. induction n as [|n IH]; intros i sv sr last Ho Hsup; simpl in *.
  - split; [reflexivity | exact Ho].
  - pose proof (related_at_iteration_start x i sv sr Ho) as HR.
    destruct (ieval None body (update x i (fst sv), snd sv)) as [rv sv1] eqn:Ev.
    destruct (ieval (Some x) (subst_reg x body) (fst sr, i)) as [rr sr1] eqn:Er.
    assert (Hs : rv <> IUnsupported).
    { intro Hc; subst rv. simpl in Hsup. congruence. }
    destruct (rewrite_sound_lemma x body _ _ HR) as [Heq HR1]; [rewrite Ev; exact Hs|].
    rewrite Ev, Er in Heq, HR1. simpl in Heq, HR1. subst rr.
    assert (Ho1 : others_related x sv1 sr1) by (destruct HR1 as [_ H2]; exact H2).
    destruct rv; simpl in *.
    + apply IH; assumption.
    + apply IH; assumption.
    + split; [reflexivity | exact Ho1].
    + congruence.
Qed.

(* a function parameter: extendFunctionEnv binds x to the argument v in the new environment (variable mode) or puts v
   in a register (register mode), whatever the two environments held for x before *)
Lemma param_rewrite_sound_lemma : forall (x : bytes) (body : node) (v : Z) (sv sr : istate),
  others_related x sv sr ->
  fst (ieval None body (update x v (fst sv), snd sv)) <> IUnsupported ->
  fst (ieval (Some x) (subst_reg x body) (fst sr, v)) = fst (ieval None body (update x v (fst sv), snd sv))
  /\ others_related x (snd (ieval None body (update x v (fst sv), snd sv)))
                      (snd (ieval (Some x) (subst_reg x body) (fst sr, v))).
Proof.
  intros x body v sv sr Ho Hsup.
  destruct (rewrite_sound_lemma x body _ _ (related_at_iteration_start x v sv sr Ho) Hsup) as [Heq [_ H2]].
  split; [exact Heq | exact H2].
Qed.
