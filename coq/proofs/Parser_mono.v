(* Fuel monotonicity of the parser model: a result obtained with some fuel is obtained with any larger
   fuel (so "the parser returns x" is independent of the fuel, once it is enough). *)
From Coq Require Import List ZArith NArith Bool String Lia.
From GrolGen Require Import Gen_Consts Gen_Prec Gen_ParserTables.
From GrolModel Require Import Ast Parser.
From GrolProofs Require Import Parser_eqns.
Import ListNotations.
Local Open Scope Z_scope.

Section Mono.
Variable conv : numconv.

Definition ME f := forall prec s x s', parseExpression conv f prec s = ROk x s' -> parseExpression conv (S f) prec s = ROk x s'.
Definition ML f := forall prec l s x s', exprLoop conv f prec l s = ROk x s' -> exprLoop conv (S f) prec l s = ROk x s'.
Definition MP f := forall fn s x s', prefixFn conv f fn s = ROk x s' -> prefixFn conv (S f) fn s = ROk x s'.
Definition MI f := forall fn l s x s', infixFn conv f fn l s = ROk x s' -> infixFn conv (S f) fn l s = ROk x s'.
Definition MM f := forall l m s x s', parseLambdaMulti conv f l m s = ROk x s' -> parseLambdaMulti conv (S f) l m s = ROk x s'.
Definition MG f := forall s x s', parseGroupedExpression conv f s = ROk x s' -> parseGroupedExpression conv (S f) s = ROk x s'.
Definition MIf f := forall s x s', parseIfExpression conv f s = ROk x s' -> parseIfExpression conv (S f) s = ROk x s'.
Definition MB f := forall s x s', parseBlockStatement conv f s = ROk x s' -> parseBlockStatement conv (S f) s = ROk x s'.
Definition MBL f := forall a s x s', blockLoop conv f a s = ROk x s' -> blockLoop conv (S f) a s = ROk x s'.
Definition MS f := forall s x s', parseStatement conv f s = ROk x s' -> parseStatement conv (S f) s = ROk x s'.
Definition MEL f := forall e s x s', parseExpressionList conv f e s = ROk x s' -> parseExpressionList conv (S f) e s = ROk x s'.
Definition MELL f := forall e a s x s', exprListLoop conv f e a s = ROk x s' -> exprListLoop conv (S f) e a s = ROk x s'.
Definition MML f := forall t a s x s', parseMapLoop conv f t a s = ROk x s' -> parseMapLoop conv (S f) t a s = ROk x s'.

Definition MAll f := ME f /\ ML f /\ MP f /\ MI f /\ MM f /\ MG f /\ MIf f /\ MB f /\ MBL f /\ MS f /\ MEL f /\ MELL f /\ MML f.

(* H : body-with-fuel-f = ROk x s'   |-  body-with-fuel-(S f) = ROk x s' : walk the two bodies in lockstep *)
Ltac mono_step :=
  match goal with
  | H : ROk _ _ = ROk _ _ |- _ => injection H as <- <-
  | H : RPanic _ = ROk _ _ |- _ => discriminate H
  | H : RFuel = ROk _ _ |- _ => discriminate H
  | H : (if ?b then _ else _) = ROk _ _ |- _ => destruct b eqn:?
  | H : (let '(_, _) := ?p in _) = ROk _ _ |- _ => destruct p eqn:?
  | H : (match ?e with Some _ => _ | None => _ end) = ROk _ _ |- _ => destruct e eqn:?
  | H : (match ?r with ROk _ _ => _ | RPanic _ => _ | RFuel => _ end) = ROk _ _ |- _ =>
      let E := fresh "E" in destruct r eqn:E; [|discriminate H|discriminate H];
      match goal with IH : _ |- _ => first [erewrite IH by exact E] end
  | |- ROk _ _ = ROk _ _ => reflexivity
  end.
Ltac mono_crunch := cbv zeta in *; repeat mono_step; try reflexivity; eauto.

Lemma funcParams_mono fuel : forall acc s r, funcParamsLoop fuel acc s = Some r -> funcParamsLoop (S fuel) acc s = Some r.
Proof.
  induction fuel as [|fuel IH]; intros acc s r H; [discriminate|].
  cbn [funcParamsLoop] in *. destruct (peekIs s token_COMMA); [apply IH, H|exact H].
Qed.

Lemma parseFunctionParameters_mono fuel s r s' :
  parseFunctionParameters fuel s = ROk r s' -> parseFunctionParameters (S fuel) s = ROk r s'.
Proof.
  unfold parseFunctionParameters. destruct (peekIs s token_RPAREN); [auto|].
  destruct (funcParamsLoop fuel _ _) as [[ids s2]|] eqn:E; [|discriminate].
  rewrite (funcParams_mono _ _ _ _ E). auto.
Qed.

Lemma mono_step_all f : MAll f -> MAll (S f).
Proof.
  intros (HE & HL & HP & HI & HM & HG & HIf & HB & HBL & HS & HEL & HELL & HML).
  unfold MAll. repeat (match goal with |- _ /\ _ => split end).
  - unfold ME. intros prec s x s' H. rewrite parseExpression_S in *. mono_crunch.
  - unfold ML. intros prec l s x s' H. rewrite exprLoop_S in *. mono_crunch.
  - unfold MP. intros fn s x s' H. rewrite prefixFn_S in *. cbv zeta in *.
    repeat match goal with
    | H : (if String.eqb ?a ?b then _ else _) = ROk _ _ |- _ => destruct (String.eqb a b) eqn:?
    end; try (exact H); try solve [mono_crunch].
    + (* function literal *)
      destruct (if peekIs s token_IDENT then _ else _) as [name s0] eqn:E0.
      destruct (expectPeek s0 token_LPAREN) as [ok s1]. destruct (negb ok); [exact H|].
      destruct (parseFunctionParameters f s1) as [[ps v] s2| |] eqn:Ep; try discriminate.
      rewrite (parseFunctionParameters_mono _ _ _ _ Ep). mono_crunch.
    + (* macro literal *)
      destruct (expectPeek s token_LPAREN) as [ok s1]. destruct (negb ok); [exact H|].
      destruct (parseFunctionParameters f s1) as [[ps v] s2| |] eqn:Ep; try discriminate.
      rewrite (parseFunctionParameters_mono _ _ _ _ Ep). mono_crunch.
  - unfold MI. intros fn l s x s' H. rewrite infixFn_S in *. mono_crunch.
  - unfold MM. intros l m s x s' H. rewrite parseLambdaMulti_S in *. mono_crunch.
  - unfold MG. intros s x s' H. rewrite parseGroupedExpression_S in *. mono_crunch.
  - unfold MIf. intros s x s' H. rewrite parseIfExpression_S in *. mono_crunch.
  - unfold MB. intros s x s' H. rewrite parseBlockStatement_S in *. eauto.
  - unfold MBL. intros a s x s' H. rewrite blockLoop_S in *. mono_crunch.
  - unfold MS. intros s x s' H. rewrite parseStatement_S in *. mono_crunch.
  - unfold MEL. intros e s x s' H. rewrite parseExpressionList_S in *. mono_crunch.
  - unfold MELL. intros e a s x s' H. rewrite exprListLoop_S in *. mono_crunch.
  - unfold MML. intros t a s x s' H. rewrite parseMapLoop_S in *. mono_crunch.
Qed.

Lemma mono_all : forall f, MAll f.
Proof.
  induction f as [|f IH]; [|apply mono_step_all, IH].
  unfold MAll. repeat (match goal with |- _ /\ _ => split end);
    unfold ME, ML, MP, MI, MM, MG, MIf, MB, MBL, MS, MEL, MELL, MML; intros; discriminate.
Qed.

Lemma parseExpression_mono f f' prec s x s' : (f <= f')%nat ->
  parseExpression conv f prec s = ROk x s' -> parseExpression conv f' prec s = ROk x s'.
Proof.
  induction 1 as [|f' Hle IH]; [auto|]. intros H. destruct (mono_all f') as (HE & _). apply HE, IH, H.
Qed.

Lemma exprLoop_mono f f' prec l s x s' : (f <= f')%nat ->
  exprLoop conv f prec l s = ROk x s' -> exprLoop conv f' prec l s = ROk x s'.
Proof.
  induction 1 as [|f' Hle IH]; [auto|]. intros H. destruct (mono_all f') as (_ & HL & _). apply HL, IH, H.
Qed.

Lemma programLoop_mono f : forall acc s l s',
  programLoop conv f acc s = ROk l s' -> programLoop conv (S f) acc s = ROk l s'.
Proof.
  induction f as [|f IH]; intros acc s l s' H; [discriminate|].
  cbn [programLoop] in *. destruct (curIs s token_EOF || curIs s token_EOL); [exact H|].
  destruct (parseStatement conv f s) as [st s1| |] eqn:E; try discriminate.
  destruct (mono_all f) as (_ & _ & _ & _ & _ & _ & _ & _ & _ & HS & _). rewrite (HS _ _ _ E).
  destruct st; [apply IH, H|exact H].
Qed.
End Mono.

(* the result of the parser does not depend on the fuel, once it is enough *)
Theorem parse_program_fuel_monotone : forall conv f f' end_type toks r,
  (f <= f')%nat -> parse_program conv f end_type toks = POk r -> parse_program conv f' end_type toks = POk r.
Proof.
  intros conv f f' end_type toks r Hle. induction Hle as [|f' Hle IH]; [auto|]. intros H. specialize (IH H).
  unfold parse_program in *. destruct (programLoop conv f' [] _) as [l s| |] eqn:E; try discriminate.
  rewrite (programLoop_mono conv _ _ _ _ _ E). exact IH.
Qed.
