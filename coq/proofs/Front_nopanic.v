(* C08: the front end (Lexer model + Parser model) never panics, on any byte string, in both modes.
   The lexer fact needed by the parser's assertion in parseComment: a line comment is followed by a
   token on a new line or by the end marker. *)
From Coq Require Import List ZArith NArith Bool Lia.
From GrolGen Require Import Gen_Consts Gen_ByteClass.
From GrolModel Require Import Ast Lexer Parser Frontend.
From GrolProofs Require Import Lexer_proofs Parser_nopanic.
Import ListNotations.

Lemma span_len_nl r' : (1 <= span_len isWhiteSpace (10%N :: r'))%nat /\
  existsb (N.eqb 10) (firstn (span_len isWhiteSpace (10%N :: r')) (10%N :: r')) = true.
Proof.
  cbn [span_len]. change (isWhiteSpace 10) with true. cbv iota. split; [lia|]. reflexivity.
Qed.

Lemma after_line_comment lm s pos :
  lt_type (fst (next_token lm s pos)) = token_LINECOMMENT ->
  let t' := fst (next_token lm s (snd (next_token lm s pos))) in
  lt_nl t' = true \/ lt_type t' = Lexer_proofs.end_type lm.
Proof.
  pose proof (next_token_spec lm s pos) as Hs. destruct (next_token lm s pos) as [t pos'] eqn:E.
  cbn [fst snd]. destruct Hs as (-> & _ & _ & _ & Hle & Hsc). intros Ht. rewrite Ht in Hsc.
  apply scan_case_line_comment in Hsc. destruct Hsc as (body & rest & Hr & _ & Hrest & Hk & _).
  assert (Hskip : skipn (lt_end t) s = rest).
  { replace (lt_end t) with (lt_start t + S (S (length body)))%nat by lia.
    rewrite <- skipn_add, Hr. cbn [skipn]. rewrite skipn_app, skipn_all, Nat.sub_diag. reflexivity. }
  destruct Hrest as [->|[Hh Hne]].
  - right. assert (Hlen : (length s <= lt_end t)%nat).
    { destruct (Nat.le_gt_cases (length s) (lt_end t)); [assumption|].
      exfalso. assert (Hl : length (skipn (lt_end t) s) = (length s - lt_end t)%nat) by apply skipn_length.
      rewrite Hskip in Hl. simpl in Hl. lia. }
    rewrite (next_token_at_end lm s _ Hlen). reflexivity.
  - left. destruct rest as [|c r']; [congruence|]. simpl in Hh. subst c.
    unfold next_token. rewrite Hskip. destruct (span_len_nl r') as [_ Hnl].
    destruct (scan_token lm _) as [[ty lit] k]. cbn [fst lt_nl]. exact Hnl.
Qed.

Definition endp (lm : bool) : ptok := mkPtok (mkTok (Frontend.end_type lm) []) false false.

Lemma end_type_same lm : Frontend.end_type lm = Lexer_proofs.end_type lm.
Proof. destruct lm; reflexivity. Qed.

Lemma is_endty_end lm : is_endty (Frontend.end_type lm) = true.
Proof. destruct lm; reflexivity. Qed.

(* head of the remaining chain: nl or end type, given that of the next token *)
Lemma chain_lex_from fuel : forall lm s pos,
  chain_ok (map to_ptok (lex_from fuel lm s pos) ++ [endp lm]) = true
  /\ (forall t rest, lex_from fuel lm s pos = t :: rest -> t = fst (next_token lm s pos)).
Proof.
  induction fuel as [|fuel IH]; intros lm s pos; [split; [reflexivity|discriminate]|].
  cbn [lex_from]. destruct (next_token lm s pos) as [t pos'] eqn:E.
  destruct (is_end t || (lt_type t <? 0)%Z) eqn:Hend.
  - split; [|intros t0 rest [= <- _]; reflexivity].
    cbn [map app chain_ok]. rewrite andb_true_r. apply pair_end. apply is_endty_end.
  - split; [|intros t0 rest [= <- _]; reflexivity].
    destruct (IH lm s pos') as [Hc Hhd]. cbn [map]. 
    destruct (lex_from fuel lm s pos') as [|t2 rest2] eqn:El.
    + cbn [map app chain_ok]. rewrite andb_true_r. apply pair_end. apply is_endty_end.
    + cbn [map app] in *. change (chain_ok (to_ptok t :: to_ptok t2 :: map to_ptok rest2 ++ [endp lm]))
        with (pair_ok (to_ptok t) (to_ptok t2) && chain_ok (to_ptok t2 :: map to_ptok rest2 ++ [endp lm])).
      rewrite Hc, andb_true_r. unfold pair_ok. cbn [to_ptok pty pk ttype pk_nl].
      destruct (Z.eqb_spec (lt_type t) token_LINECOMMENT) as [Hlc|]; [|reflexivity]. cbn [negb orb].
      pose proof (after_line_comment lm s pos) as Ha. rewrite E in Ha. cbn [fst snd] in Ha. specialize (Ha Hlc).
      cbv zeta in Ha. rewrite <- (Hhd t2 rest2 eq_refl) in Ha.
      destruct Ha as [-> | ->]; [reflexivity|]. rewrite <- end_type_same, is_endty_end. apply orb_true_r.
Qed.

Lemma front_tokens_shaped lm s : comment_shaped (Frontend.end_type lm) (front_tokens lm s) = true.
Proof.
  unfold comment_shaped, front_tokens, lex_all. rewrite is_endty_end. cbn [andb].
  apply (chain_lex_from _ lm s 0).
Qed.

Theorem front_never_panics : forall conv lm s w, front_parse conv lm s <> PPanic w.
Proof.
  intros conv lm s w. unfold front_parse.
  pose proof (parse_never_panics conv (default_fuel (front_tokens lm s)) _ _ (front_tokens_shaped lm s)) as H.
  destruct (parse_program conv _ _ _) as [r|w0|] eqn:E; try discriminate. intros _. apply (H w0). reflexivity.
Qed.
