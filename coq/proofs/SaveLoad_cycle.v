(* C14: the whole cycle on data environments - save, auto-load (line by line), save again.
   [cycle_loads_kept]: auto-loading what SaveGlobals wrote binds exactly the kept data bindings (name, equal value, same
   type), in key order; [cycle_resave]: saving that state again writes the same file.  For every environment of data
   globals of the round-trip domain, every value-length limit and every list of extra identifiers. *)
From Coq Require Import List ZArith NArith Bool Lia String Sorting.Sorted Sorting.Permutation.
From Coq Require Import ZifyN ZifyNat ZifyBool.
From GrolGen Require Import Gen_Consts Gen_ByteClass.
From GrolModel Require Import Ast Lexer Parser Printer Frontend Values Cmp Maps SaveLoad.
From GrolProofs Require Import Cmp_proofs SaveLoad_proofs SaveLoad_lex SaveLoad_roundtrip.
Import ListNotations.
Local Open Scope N_scope.

(* ================================================================ no carriage return in a saved line either *)
Definition no_cr (l : bytes) : Prop := Forall (fun c => c <> 13) l.

Lemma isd_not_cr c : isd c -> c <> 13.
Proof. unfold isd, is_digit. lia. Qed.

Lemma digits_no_cr l : Forall isd l -> no_cr l.
Proof. intro H. eapply Forall_impl; [|exact H]. intros a. apply isd_not_cr. Qed.

Lemma no_cr_app a b : no_cr a -> no_cr b -> no_cr (a ++ b).
Proof. intros. apply Forall_app. split; assumption. Qed.

Lemma no_cr_app_inv a b : no_cr (a ++ b) -> no_cr a /\ no_cr b.
Proof. intro H. apply Forall_app in H. exact H. Qed.


Lemma fmt_int_no_cr z : no_cr (fmt_int z).
Proof.
  destruct z; cbn [fmt_int]; try (apply digits_no_cr, fmt_nat_digits).
  constructor; [lia|]. apply digits_no_cr, fmt_nat_digits.
Qed.


Lemma num_char_no_cr l : Forall num_char l -> no_cr l.
Proof.
  intro H. eapply Forall_impl; [|exact H]. intros a [Ha|[Ha|Ha]]; [apply isd_not_cr; exact Ha|lia|lia].
Qed.

Ltac lit_no_cr := unfold no_cr; cbn; repeat constructor; lia.

Lemma fmt_float_no_cr f : no_cr (fmt_float f).
Proof.
  destruct f as [|neg|neg m e]; cbn [fmt_float].
  - lit_no_cr.
  - destruct neg; lit_no_cr.
  - apply no_cr_app; [destruct neg; lit_no_cr|]. apply num_char_no_cr, fmt_float_abs_chars.
Qed.


Lemma qbyte_no_cr c : no_cr (qbyte c).
Proof.
  unfold qbyte.
  repeat match goal with
         | |- context [if ?b then _ else _] => destruct b eqn:?
         end; repeat constructor; try lia.
  - pose proof (hexdigit_ge (c / 16)). lia.
  - pose proof (hexdigit_ge (c mod 16)). lia.
Qed.

Lemma go_quote_no_cr s : no_cr (go_quote s).
Proof.
  unfold go_quote. apply no_cr_app; [repeat constructor; lia|]. apply no_cr_app; [|repeat constructor; lia].
  induction s as [|c r IH]; cbn [flat_map]; [constructor|]. apply no_cr_app; [apply qbyte_no_cr|exact IH].
Qed.

Lemma join_with_no_cr sep l : no_cr sep -> Forall no_cr l -> no_cr (join_with sep l).
Proof.
  intros Hs H. induction H as [|x r Hx Hr IH]; cbn [join_with]; [constructor|].
  destruct r as [|y r']; [exact Hx|]. apply no_cr_app; [exact Hx|]. apply no_cr_app; [exact Hs|exact IH].
Qed.


Lemma bstr_no_cr_true : no_cr (B"true"). Proof. lit_no_cr. Qed.
Lemma bstr_no_cr_false : no_cr (B"false"). Proof. lit_no_cr. Qed.
Lemma bstr_no_cr_nil : no_cr (B"nil"). Proof. lit_no_cr. Qed.


Theorem inspect_no_cr : forall v, is_data v = true -> no_cr (inspect v).
Proof.
  induction v using value_ind2; intro D; cbn [inspect].
  - apply fmt_int_no_cr.
  - apply fmt_float_no_cr.
  - destruct b; [apply bstr_no_cr_true|apply bstr_no_cr_false].
  - apply bstr_no_cr_nil.
  - apply go_quote_no_cr.
  - discriminate.
  - apply no_cr_app; [repeat constructor; lia|]. apply no_cr_app; [|repeat constructor; lia].
    apply join_with_no_cr; [repeat constructor; lia|].
    cbn [is_data] in D. induction H as [|x r Hx Hr IH]; cbn [map]; [constructor|].
    cbn [forallb] in D. apply andb_true_iff in D. destruct D as [D1 D2].
    constructor; [apply Hx; exact D1|apply IH; exact D2].
  - apply no_cr_app; [repeat constructor; lia|]. apply no_cr_app; [|repeat constructor; lia].
    apply join_with_no_cr; [repeat constructor; lia|].
    cbn [is_data] in D. induction H as [|[k x] r Hx Hr IH]; [constructor|].
    apply andb_true_iff in D. destruct D as [D12 D3]. apply andb_true_iff in D12. destruct D12 as [D1 D2].
    cbn [fst snd] in Hx. destruct Hx as [Hk Hv].
    constructor; [|apply IH; exact D3].
    apply no_cr_app; [apply Hk; exact D1|]. apply no_cr_app; [repeat constructor; lia|apply Hv; exact D2].
Qed.


Lemma save_line_no_cr k v : no_cr k -> is_data v = true -> no_cr (save_line k v).
Proof.
  intros Hk D. unfold save_line. apply no_cr_app; [exact Hk|]. apply no_cr_app; [repeat constructor; lia|].
  apply inspect_no_cr. exact D.
Qed.


(* ================================================================ the scanner gives the lines back *)
Lemma split_at_nl_line : forall l cur rest, no_nl l ->
  split_at_nl cur (l ++ 10 :: rest) = (rev cur ++ l) :: split_at_nl [] rest.
Proof.
  induction l as [|c r IH]; intros cur rest H; cbn [app split_at_nl].
  - rewrite N.eqb_refl, app_nil_r. reflexivity.
  - inversion H; subst. destruct (c =? 10) eqn:E; [lia|].
    rewrite IH by assumption. cbn [rev]. rewrite <- app_assoc. reflexivity.
Qed.

Lemma split_at_nl_file lines : Forall no_nl lines -> split_at_nl [] (file_of lines) = lines.
Proof.
  induction 1 as [|l r Hl Hr IH]; cbn [file_of flat_map]; [reflexivity|].
  rewrite <- app_assoc. cbn [app]. rewrite split_at_nl_line by exact Hl. cbn [rev app]. f_equal. exact IH.
Qed.

Lemma strip_cr_id l : no_cr l -> strip_cr l = l.
Proof.
  intro H. unfold strip_cr. destruct (rev l) as [|c r] eqn:E; [reflexivity|].
  assert (In c l) by (apply in_rev; rewrite E; left; reflexivity).
  unfold no_cr in H. rewrite Forall_forall in H. specialize (H c H0).
  destruct (c =? 13) eqn:E2; [lia|reflexivity].
Qed.

Lemma scan_lines_file lines : Forall no_nl lines -> Forall no_cr lines -> scan_lines (file_of lines) = lines.
Proof.
  intros Hn Hc. unfold scan_lines. rewrite split_at_nl_file by exact Hn.
  induction Hc as [|l r Hl Hr IH]; [reflexivity|]. inversion Hn; subst. cbn [map]. rewrite strip_cr_id by exact Hl.
  f_equal. apply IH. assumption.
Qed.

(* a good name holds letters and digits only *)
Lemma good_name_chars k : good_name k = true -> no_nl k /\ no_cr k.
Proof.
  intro H. destruct (good_name_shape k H) as [c [r [-> [Hc [Hr _]]]]].
  assert (A : forall x, IsAlphaNum x = true -> x <> 10 /\ x <> 13).
  { intros x Hx. apply IsAlphaNum_spec in Hx. lia. }
  assert (B0 : c <> 10 /\ c <> 13) by (apply isLetter_spec in Hc; lia).
  assert (R : Forall (fun x => x <> 10 /\ x <> 13) r).
  { clear -Hr A. induction r as [|x r IH]; [constructor|]. cbn [forallb] in Hr. apply andb_true_iff in Hr.
    destruct Hr as [Hx Hr]. constructor; [apply A; exact Hx|apply IH; exact Hr]. }
  split; (constructor; [tauto|]); eapply Forall_impl; try exact R; cbn; tauto.
Qed.

(* ================================================================ data environments *)
(* one global: a name that is an identifier, a value of the round-trip domain whose floats the conversion handles *)
Definition good_binding (kv : bytes * value) : bool :=
  good_name (fst kv) && in_domain (snd kv) && floats_conv dec_conv (snd kv).

(* what SaveGlobals keeps of a data binding *)
Definition kept (maxlen : Z) (extras : list bytes) (kv : bytes * value) : bool :=
  negb (const_extra extras (fst kv)) && negb (too_long maxlen (inspect (snd kv))).

Definition dline (kv : bytes * value) : bytes := save_line (fst kv) (snd kv).

Lemma kept_lines_data store maxlen extras : forall env,
  kept_lines store maxlen extras (data_store env) = map dline (filter (kept maxlen extras) env).
Proof.
  induction env as [|[k v] r IH]; [reflexivity|]. cbn [data_store map kept_lines filter] in *.
  unfold line_of, save_one, binding_out, kept, kv_line. cbn [fst snd].
  destruct (const_extra extras k); cbn [negb andb]; [exact IH|].
  destruct (too_long maxlen (inspect v)); cbn [negb]; [exact IH|]. cbn [map]. f_equal. exact IH.
Qed.

Lemma no_panics_data store maxlen extras env : existsb (panics store maxlen extras) (data_store env) = false.
Proof.
  induction env as [|[k v] r IH]; [reflexivity|]. cbn [data_store map existsb]. fold (data_store r). rewrite IH, orb_false_r.
  unfold panics, save_one, binding_out, kv_line. cbn [fst snd].
  destruct (const_extra extras k); [reflexivity|]. destruct (too_long maxlen (inspect v)); reflexivity.
Qed.

(* sorting looks at the names only *)
Lemma insert_key_data k v l :
  insert_key k (SData v) (data_store l) = data_store (insert_key k v l).
Proof.
  induction l as [|[k' v'] r IH]; [reflexivity|]. cbn [data_store map insert_key fst snd] in *.
  destruct (bytes_ltb k' k); [|reflexivity]. cbn [map fst snd]. f_equal. exact IH.
Qed.

Lemma sort_keys_data env : sort_keys (data_store env) = data_store (sort_keys env).
Proof.
  induction env as [|[k v] r IH]; [reflexivity|]. cbn [data_store map]. fold (data_store r).
  unfold sort_keys in *. cbn [fold_right fst snd]. rewrite IH. apply insert_key_data.
Qed.

(* the saved file of a data environment *)
Lemma save_globals_data maxlen extras env :
  save_globals maxlen extras (data_store env) =
  Some (file_of (map dline (filter (kept maxlen extras) (sort_keys env))),
        List.length (filter (kept maxlen extras) (sort_keys env))).
Proof.
  unfold save_globals. rewrite sort_keys_data. rewrite save_loop_spec by apply no_panics_data.
  rewrite kept_lines_data. cbn [app]. rewrite map_length. reflexivity.
Qed.

(* ---- sorted lists of bindings *)
Definition vkey_le (a b : bytes * value) : Prop := bytes_ltb (fst b) (fst a) = false.

Lemma insert_key_perm_v k (v : value) l : Permutation ((k, v) :: l) (insert_key k v l).
Proof. apply insert_key_perm. Qed.

Lemma vkey_le_trans a b c : vkey_le a b -> vkey_le b c -> vkey_le a c.
Proof.
  unfold vkey_le. intros H1 H2. destruct (bytes_ltb (fst c) (fst a)) eqn:E; [|reflexivity].
  destruct (bytes_ltb (fst b) (fst c)) eqn:E2.
  - pose proof (bytes_ltb_trans _ _ _ E2 E). congruence.
  - assert (fst b = fst c) by (apply bytes_ltb_total; assumption). congruence.
Qed.

Lemma insert_key_sorted_v k v l : StronglySorted vkey_le l -> StronglySorted vkey_le (insert_key k v l).
Proof.
  induction l as [|[k' v'] r IH]; intro S; cbn [insert_key]; [repeat constructor|].
  inversion S as [|? ? S' F]; subst. destruct (bytes_ltb k' k) eqn:E.
  - constructor; [apply IH; exact S'|].
    eapply Permutation_Forall; [apply insert_key_perm|].
    constructor; [|exact F]. unfold vkey_le. cbn [fst]. apply bytes_ltb_asym. exact E.
  - constructor; [exact S|]. constructor; [unfold vkey_le; cbn [fst]; exact E|].
    eapply Forall_impl; [|exact F]. intros a Ha. eapply vkey_le_trans; [|exact Ha]. unfold vkey_le. cbn [fst]. exact E.
Qed.

Lemma sort_keys_sorted_v (l : list (bytes * value)) : StronglySorted vkey_le (sort_keys l).
Proof. induction l as [|[k v] r IH]; cbn; [constructor|]. apply insert_key_sorted_v. exact IH. Qed.

Lemma filter_sorted_v f (l : list (bytes * value)) : StronglySorted vkey_le l -> StronglySorted vkey_le (filter f l).
Proof.
  induction 1 as [|a l S IH F]; cbn [filter]; [constructor|]. destruct (f a); [|exact IH].
  constructor; [exact IH|]. rewrite Forall_forall in *. intros x Hx. apply filter_In in Hx. apply F. tauto.
Qed.

(* sorting a sorted list changes nothing *)
Lemma sort_keys_sorted_id (l : list (bytes * value)) : StronglySorted vkey_le l -> sort_keys l = l.
Proof.
  induction 1 as [|[k v] l S IH F]; [reflexivity|]. unfold sort_keys in *. cbn [fold_right fst snd]. rewrite IH.
  destruct l as [|[k' v'] r]; [reflexivity|]. cbn [insert_key].
  inversion F as [|? ? H1 _]; subst. unfold vkey_le in H1. cbn [fst] in H1. rewrite H1. reflexivity.
Qed.

(* distinct names *)
Definition keys (l : list (bytes * value)) : list bytes := map fst l.

Lemma beqb_eq a : forall b, beqb a b = true <-> a = b.
Proof.
  induction a as [|x a IH]; intros [|y b]; cbn [beqb]; split; intro H; try discriminate; try reflexivity.
  - apply andb_true_iff in H. destruct H as [H1 H2]. apply N.eqb_eq in H1. apply IH in H2. subst. reflexivity.
  - inversion H; subst. rewrite N.eqb_refl. cbn [andb]. apply IH. reflexivity.
Qed.

Lemma upsert_fresh k v : forall st, ~ In k (keys st) -> upsert k v st = st ++ [(k, v)].
Proof.
  induction st as [|[k' v'] r IH]; intro H; [reflexivity|]. cbn [upsert keys map fst In app] in *.
  destruct (beqb k' k) eqn:E; [apply beqb_eq in E; tauto|]. f_equal. apply IH. tauto.
Qed.

(* loading the lines of good bindings with distinct names appends them in order *)
Lemma load_lines_app : forall todo done,
  Forall (fun kv => good_binding kv = true) todo -> NoDup (keys (done ++ todo)) ->
  fold_left (load_line dec_conv) (map dline todo) done = done ++ todo.
Proof.
  induction todo as [|[k v] r IH]; intros done HG HN; cbn [map fold_left]; [rewrite app_nil_r; reflexivity|].
  inversion HG as [|? ? G Gr]; subst. unfold good_binding in G. cbn [fst snd] in G.
  apply andb_true_iff in G. destruct G as [G12 G3]. apply andb_true_iff in G12. destruct G12 as [G1 G2].
  assert (L : load_line dec_conv done (dline (k, v)) = upsert k v done).
  { unfold load_line, dline. cbn [fst snd]. rewrite (value_roundtrip_dec k v G1 G2 G3). reflexivity. }
  rewrite L.
  rewrite upsert_fresh.
  - rewrite IH; [rewrite <- app_assoc; reflexivity|exact Gr|rewrite <- app_assoc; exact HN].
  - unfold keys in *. rewrite map_app in HN. cbn [map fst] in HN. apply NoDup_remove_2 in HN.
    intro K. apply HN. apply in_or_app. left. exact K.
Qed.

Lemma perm_keys (a b : list (bytes * value)) : Permutation a b -> Permutation (keys a) (keys b).
Proof. intro H. unfold keys. apply Permutation_map. exact H. Qed.

Lemma NoDup_filter_keys f : forall (l : list (bytes * value)), NoDup (keys l) -> NoDup (keys (filter f l)).
Proof.
  induction l as [|a l IH]; intro H; [constructor|]. cbn [keys map] in H. inversion H as [|? ? Hn Hd]; subst.
  cbn [filter]. destruct (f a); [|apply IH; exact Hd]. cbn [keys map]. constructor; [|apply IH; exact Hd].
  intro K. apply Hn. unfold keys in K. apply in_map_iff in K. destruct K as [x [E Hx]]. apply filter_In in Hx.
  apply in_map_iff. exists x. tauto.
Qed.

Lemma filter_idem {A} (f : A -> bool) (l : list A) : filter f (filter f l) = filter f l.
Proof.
  induction l as [|a l IH]; [reflexivity|]. cbn [filter]. destruct (f a) eqn:K; [|exact IH].
  cbn [filter]. rewrite K. f_equal. exact IH.
Qed.

(* ================================================================ the cycle *)
Section Cycle.
Variable maxlen : Z.
Variable extras : list bytes.
Variable env : list (bytes * value).
Hypothesis env_good : Forall (fun kv => good_binding kv = true) env.
Hypothesis env_names : NoDup (keys env).

(* the bindings that have a line in the file, in the order of the file *)
Definition saved_bindings : list (bytes * value) := filter (kept maxlen extras) (sort_keys env).

Lemma saved_good : Forall (fun kv => good_binding kv = true) saved_bindings.
Proof.
  unfold saved_bindings. apply Forall_forall. intros x Hx. apply filter_In in Hx. destruct Hx as [Hx _].
  rewrite Forall_forall in env_good. apply env_good.
  eapply Permutation_in; [apply Permutation_sym, sort_keys_perm|exact Hx].
Qed.

Lemma saved_nodup : NoDup (keys saved_bindings).
Proof.
  unfold saved_bindings. apply NoDup_filter_keys.
  eapply Permutation_NoDup; [apply perm_keys, sort_keys_perm|exact env_names].
Qed.

Lemma saved_lines_clean : Forall no_nl (map dline saved_bindings) /\ Forall no_cr (map dline saved_bindings).
Proof.
  pose proof saved_good as G. induction G as [|[k v] r Gx Gr IH]; [split; constructor|].
  unfold good_binding in Gx. cbn [fst snd] in Gx.
  apply andb_true_iff in Gx. destruct Gx as [G12 _]. apply andb_true_iff in G12. destruct G12 as [G1 G2].
  destruct (good_name_chars k G1) as [N1 N2]. destruct IH as [I1 I2]. cbn [map]. unfold dline at 1 3. cbn [fst snd].
  split; constructor; auto.
  - apply save_line_no_newline; [exact N1|apply in_domain_is_data; exact G2].
  - apply save_line_no_cr; [exact N2|apply in_domain_is_data; exact G2].
Qed.

(* auto-load restores exactly the saved bindings: same names, equal values of the same type, nothing else *)
Theorem cycle_loads_saved : forall file n,
  save_globals maxlen extras (data_store env) = Some (file, n) ->
  autoload dec_conv file = saved_bindings /\ n = List.length saved_bindings.
Proof.
  intros file n H. rewrite save_globals_data in H. inversion H; subst. split; [|reflexivity].
  unfold autoload. destruct saved_lines_clean as [L1 L2]. fold saved_bindings.
  rewrite scan_lines_file by assumption.
  rewrite (load_lines_app saved_bindings []); [reflexivity|apply saved_good|exact saved_nodup].
Qed.

(* ... and saving the reloaded session writes the same file *)
Theorem cycle_resave : forall file n,
  save_globals maxlen extras (data_store env) = Some (file, n) ->
  save_globals maxlen extras (data_store (autoload dec_conv file)) = Some (file, n).
Proof.
  intros file n H. destruct (cycle_loads_saved file n H) as [E _]. rewrite E.
  rewrite save_globals_data in *. inversion H; subst.
  assert (S1 : sort_keys saved_bindings = saved_bindings).
  { apply sort_keys_sorted_id. unfold saved_bindings. apply filter_sorted_v. apply sort_keys_sorted_v. }
  rewrite S1.
  unfold saved_bindings at 1 2. rewrite !filter_idem. reflexivity.
Qed.

(* which globals come back: exactly those SaveGlobals keeps - a constant of the root environment and a value longer than
   the limit are absent (skipped as a whole), every other global is there with its own value *)
Theorem cycle_membership : forall file n,
  save_globals maxlen extras (data_store env) = Some (file, n) ->
  forall k v, In (k, v) (autoload dec_conv file) <-> (In (k, v) env /\ kept maxlen extras (k, v) = true).
Proof.
  intros file n H k v. destruct (cycle_loads_saved file n H) as [E _]. rewrite E. unfold saved_bindings.
  rewrite filter_In. split; intros [HA HB]; (split; [|exact HB]).
  - eapply Permutation_in; [apply Permutation_sym, sort_keys_perm|exact HA].
  - eapply Permutation_in; [apply sort_keys_perm|exact HA].
Qed.
End Cycle.

(* ---- repeated cycles: one cycle = save the session, start a fresh one, auto-load *)
Definition one_cycle (maxlen : Z) (extras : list bytes) (env : list (bytes * value)) : list (bytes * value) :=
  match save_globals maxlen extras (data_store env) with
  | Some (file, _) => autoload dec_conv file
  | None => env
  end.

Theorem cycles_stable maxlen extras env :
  Forall (fun kv => good_binding kv = true) env -> NoDup (keys env) ->
  forall n, save_globals maxlen extras (data_store (Nat.iter n (one_cycle maxlen extras) env)) =
            save_globals maxlen extras (data_store env).
Proof.
  intros HG HN n.
  assert (P : Forall (fun kv => good_binding kv = true) (Nat.iter n (one_cycle maxlen extras) env) /\
              NoDup (keys (Nat.iter n (one_cycle maxlen extras) env)) /\
              save_globals maxlen extras (data_store (Nat.iter n (one_cycle maxlen extras) env)) =
              save_globals maxlen extras (data_store env)).
  { induction n as [|n IH]; [cbn [Nat.iter]; auto|].
    destruct IH as [G [N E]].
    change (Nat.iter (S n) (one_cycle maxlen extras) env) with (one_cycle maxlen extras (Nat.iter n (one_cycle maxlen extras) env)).
    set (cur := Nat.iter n (one_cycle maxlen extras) env) in *.
    unfold one_cycle. rewrite (save_globals_data maxlen extras cur).
    pose proof (save_globals_data maxlen extras cur) as SG.
    destruct (cycle_loads_saved maxlen extras cur G N _ _ SG) as [L _]. rewrite L.
    split; [apply saved_good; exact G|]. split; [apply saved_nodup; exact N|].
    rewrite <- L. rewrite (cycle_resave maxlen extras cur G N _ _ SG). rewrite <- SG. exact E. }
  tauto.
Qed.

(* ---- a computed instance: four globals, the constant PI (an extra identifier) and, under limit 40, the 52 byte string are
   skipped; the other two come back and the file is stable *)
Definition cycle_env : list (bytes * value) :=
  [ (B"zz", VMap [(VInt (-7), VArr [VNil; VFloat (fl_of_bits 4602678819172646912)]); (VBool true, VStr [10; 34; 255])]);
    (B"PI", VFloat (fl_of_bits 4614256656552045848));
    (B"long", VStr (repeat 120 50));
    (B"a1", VInt 42) ].

Definition cycle_example_holds : Prop :=
  forallb good_binding cycle_env = true /\
  match save_globals 40 [B"PI"; B"E"] (data_store cycle_env) with
  | Some (file, n) =>
    n = 2%nat /\ map fst (autoload dec_conv file) = [B"a1"; B"zz"] /\
    save_globals 40 [B"PI"; B"E"] (data_store (autoload dec_conv file)) = Some (file, n)
  | None => False
  end.

Example cycle_env_ok : cycle_example_holds.
Proof. vm_compute. repeat split; reflexivity. Qed.
