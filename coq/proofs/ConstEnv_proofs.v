(* Lemmas about coq/model/ConstEnv.v: with the constant test on the register paths and containers copied before
   a write, a constant-named binding of the top-level environment keeps its value through every sequence of
   mutation attempts that contains no explicit del of that name - with registers on or off. *)
From Coq Require Import List ZArith NArith Bool Arith Lia.
From GrolModel Require Import Containers ConstEnv.
Import ListNotations.

(* ------------------------------------------------------------------ equality tests *)

Lemma name_eqb_eq : forall a b, name_eqb a b = true <-> a = b.
Proof.
  induction a; destruct b; simpl; split; intros; try discriminate; auto.
  - apply andb_true_iff in H as [H1 H2]. apply N.eqb_eq in H1. apply IHa in H2. congruence.
  - inversion H; subst. apply andb_true_iff. split; [apply N.eqb_refl|apply IHa; auto].
Qed.

Lemma name_eqb_refl : forall a, name_eqb a a = true.
Proof. intros. apply name_eqb_eq. auto. Qed.

Lemma name_eqb_neq : forall a b, a <> b -> name_eqb a b = false.
Proof. intros. destruct (name_eqb a b) eqn:E; auto. apply name_eqb_eq in E. contradiction. Qed.

Lemma pval_eqb_eq : forall a b, pval_eqb a b = true -> a = b.
Proof.
  fix IH 1. intros a b. destruct a, b; simpl; try discriminate.
  - intros H. apply Z.eqb_eq in H. congruence.
  - reflexivity.
  - revert l0. induction l as [|x l IHl]; intros [|y r] H; try discriminate; try reflexivity.
    apply andb_true_iff in H as [H1 H2]. apply IH in H1. apply IHl in H2. inversion H2. subst. reflexivity.
  - revert l0. induction l as [|[k x] l IHl]; intros [|[k' y] r] H; try discriminate; try reflexivity.
    apply andb_true_iff in H as [H1 H2]. apply andb_true_iff in H1 as [H0 H1].
    apply Z.eqb_eq in H0. apply IH in H1. apply IHl in H2. inversion H2. subst. reflexivity.
Qed.

Lemma cval_eqb_eq : forall a b, cval_eqb a b = true -> a = b.
Proof.
  intros x y. destruct x as [p|s|b|q], y as [p'|s'|b'|q']; cbn [cval_eqb]; try discriminate; intros H.
  - f_equal. apply pval_eqb_eq; auto.
  - f_equal. apply name_eqb_eq; auto.
  - f_equal. apply Bool.eqb_prop; auto.
  - f_equal. apply Z.eqb_eq; auto.
Qed.

(* ------------------------------------------------------------------ association lists and frames *)

Lemma nlookup_nset_same : forall {A} (s : list (name * A)) n x, nlookup (nset s n x) n = Some x.
Proof.
  induction s as [|[m y] t IH]; intros; simpl.
  - now rewrite name_eqb_refl.
  - destruct (name_eqb m n) eqn:E; simpl; rewrite E; auto.
Qed.

Lemma nlookup_nset_other : forall {A} (s : list (name * A)) n x m, n <> m -> nlookup (nset s n x) m = nlookup s m.
Proof.
  induction s as [|[k y] t IH]; intros; simpl.
  - now rewrite (name_eqb_neq n m H).
  - destruct (name_eqb k n) eqn:E; simpl.
    + apply name_eqb_eq in E. subst. now rewrite (name_eqb_neq n m H).
    + destruct (name_eqb k m); auto.
Qed.

Lemma nlookup_ndel_other : forall {A} (s : list (name * A)) n m, n <> m -> nlookup (ndel s n) m = nlookup s m.
Proof.
  induction s as [|[k y] t IH]; intros; simpl; auto.
  destruct (name_eqb k n) eqn:E; simpl.
  - apply name_eqb_eq in E. subst. now rewrite (name_eqb_neq n m H).
  - destruct (name_eqb k m); auto.
Qed.

Section INV.
  Variable K : name.
  Variable v : cval.

  Definition klook (f : frame) : option obj := nlookup (fstore f) K.

  (* a reference is always stored under the name it refers to *)
  Definition same_name (f : frame) : Prop :=
    forall n up m, nlookup (fstore f) n = Some (ORef up m) -> m = n.

  (* what the entry for K of a frame may be, given the entries of that frame and of the frames further out *)
  Definition okentry (x : option obj) (l : list (option obj)) : Prop :=
    match x with
    | None => True
    | Some (OVal w) => w = v
    | Some (ORef up _) => nth_error l up = Some (Some (OVal v))
    end.

  Inductive GoodKs : list (option obj) -> Prop :=
  | GoodKs_root : GoodKs [Some (OVal v)]
  | GoodKs_push : forall x t, GoodKs t -> okentry x (x :: t) -> GoodKs (x :: t).

  Definition Inv (e : env) : Prop := GoodKs (map klook e) /\ Forall same_name e.

  Lemma GoodKs_nonempty : forall l, GoodKs l -> l <> [].
  Proof. intros l H. inversion H; discriminate. Qed.

  Lemma GoodKs_tl : forall x y t, GoodKs (x :: y :: t) -> GoodKs (y :: t).
  Proof. intros. inversion H; subst. auto. Qed.

  Lemma GoodKs_head : forall x t, GoodKs (x :: t) -> okentry x (x :: t).
  Proof. intros. inversion H; subst; simpl; auto. Qed.

  Lemma GoodKs_single : forall x, GoodKs [x] -> x = Some (OVal v).
  Proof. intros. inversion H; subst; auto. exfalso. eapply GoodKs_nonempty; eauto. Qed.

  Lemma GoodKs_set_head : forall x y t, GoodKs (x :: t) -> okentry y (y :: t) -> (t = [] -> y = Some (OVal v)) -> GoodKs (y :: t).
  Proof.
    intros. destruct t.
    - rewrite H1; auto. constructor.
    - apply GoodKs_push; auto. eapply GoodKs_tl; eauto.
  Qed.

  (* the name is found somewhere: from position j outwards *)
  Lemma find_outer_good : forall t j, GoodKs (map klook t) -> Forall same_name t ->
    exists up, find_outer t j K = Some (ORef up K) /\ j <= up /\ nth_error (map klook t) (up - j) = Some (Some (OVal v)).
  Proof.
    induction t as [|f t IH]; intros j HG HS.
    - exfalso. eapply GoodKs_nonempty; eauto.
    - simpl in *. pose proof (GoodKs_head _ _ HG) as HK. unfold klook in HK at 1. unfold klook at 1.
      inversion HS as [|? ? Hf HS']; subst.
      destruct (nlookup (fstore f) K) as [[w|up m]|] eqn:E; simpl in HK.
      + subst. exists j. rewrite Nat.sub_diag. simpl. auto.
      + pose proof (Hf _ _ _ E). subst m. exists (j + up). split; auto. split; [lia|].
        replace (j + up - j) with up by lia.
        change (klook f) with (nlookup (fstore f) K) in HK. rewrite E in HK. exact HK.
      + destruct t as [|g t'].
        * apply GoodKs_single in HG. unfold klook in HG. rewrite E in HG. discriminate.
        * destruct (IH (S j) (GoodKs_tl _ _ _ HG) HS') as (up & Hf' & Hle & Hn).
          exists up. split; auto. split; [lia|].
          replace (up - j) with (S (up - S j)) by lia. simpl. auto.
  Qed.

  Lemma map_klook_upd_other : forall e i n o, n <> K -> map klook (upd_frame e i n o) = map klook e.
  Proof.
    induction e as [|f t IH]; intros; simpl; auto.
    destruct i; simpl.
    - f_equal. unfold klook. simpl. apply nlookup_nset_other. auto.
    - f_equal. auto.
  Qed.

  Lemma upd_frame_length : forall e i n o, length (upd_frame e i n o) = length e.
  Proof. induction e; intros; simpl; auto. destruct i; simpl; auto. Qed.

  Lemma same_name_set : forall f n o, same_name f -> (forall up m, o = ORef up m -> m = n) ->
    same_name (mkframe (nset (fstore f) n o)).
  Proof.
    unfold same_name. intros f n o Hf Ho n' up m. simpl.
    destruct (list_eq_dec N.eq_dec n n') as [->|Hne].
    - rewrite nlookup_nset_same. intros H. inversion H; subst. eauto.
    - rewrite nlookup_nset_other by auto. eauto.
  Qed.

  Lemma Forall_same_upd : forall e i n o, Forall same_name e -> (forall up m, o = ORef up m -> m = n) ->
    Forall same_name (upd_frame e i n o).
  Proof.
    induction e as [|f t IH]; intros; simpl; auto.
    inversion H; subst. destruct i; constructor; auto. apply same_name_set; auto.
  Qed.

  Lemma Inv_upd_other : forall e i n o, Inv e -> n <> K -> (forall up m, o = ORef up m -> m = n) -> Inv (upd_frame e i n o).
  Proof.
    intros e i n o [HG HS] Hn Ho. split.
    - rewrite map_klook_upd_other; auto.
    - apply Forall_same_upd; auto.
  Qed.

  (* writing OVal v for K where the entry already denotes v *)
  Lemma map_klook_upd_K : forall e i o, i < length e ->
    map klook (upd_frame e i K o) = firstn i (map klook e) ++ Some o :: skipn (S i) (map klook e).
  Proof.
    induction e as [|f t IH]; intros; simpl in *; [lia|].
    destruct i; simpl.
    - unfold klook at 1. simpl. now rewrite nlookup_nset_same.
    - f_equal. apply IH. lia.
  Qed.

  Lemma upd_same_value : forall e i, nth_error (map klook e) i = Some (Some (OVal v)) ->
    map klook (upd_frame e i K (OVal v)) = map klook e.
  Proof.
    induction e as [|f t IH]; intros; simpl in *; auto.
    destruct i; simpl in *.
    - unfold klook at 1. simpl. rewrite nlookup_nset_same. congruence.
    - f_equal. auto.
  Qed.

  Lemma Inv_set_head_K : forall f t o, Inv (f :: t) -> okentry (Some o) (Some o :: map klook t) ->
    (t = [] -> o = OVal v) -> (forall up m, o = ORef up m -> m = K) ->
    Inv (upd_frame (f :: t) 0 K o).
  Proof.
    intros f t o [HG HS] Hok Hroot Ho. split.
    - simpl. unfold klook at 1. simpl. rewrite nlookup_nset_same.
      simpl in HG. eapply GoodKs_set_head; eauto.
      intros E. destruct t; [|discriminate]. rewrite Hroot; auto.
    - apply Forall_same_upd; auto.
  Qed.

  (* ---- Environment.Get *)
  Lemma env_get_inv : forall e n, Inv e ->
    match env_get e n with
    | Some (e1, o) =>
      Inv e1 /\ length e1 = length e /\ (forall up m, o = ORef up m -> m = n) /\
      (n = K -> okentry (Some o) (map klook e1)) /\
      (exists f t, e1 = f :: t /\ nlookup (fstore f) n = Some o)
    | None => n <> K
    end.
  Proof.
    intros e n [HG HS]. destruct e as [|f t]; simpl.
    - exfalso. eapply GoodKs_nonempty; eauto.
    - inversion HS as [|? ? Hf HS']; subst.
      destruct (nlookup (fstore f) n) as [o|] eqn:E.
      + split; [split; auto|]. split; auto. split; [intros; subst; eauto|]. split; [|eauto].
        intros ->. pose proof (GoodKs_head _ _ HG) as HK. simpl in HK. unfold klook in HK at 1. rewrite E in HK.
        simpl. auto.
      + destruct (list_eq_dec N.eq_dec n K) as [->|Hne].
        * (* the constant: found further out *)
          destruct t as [|g t'].
          { simpl in HG. apply GoodKs_single in HG. unfold klook in HG. rewrite E in HG. discriminate. }
          destruct (find_outer_good (g :: t') 1 (GoodKs_tl _ _ _ HG) HS') as (up & Hf' & Hle & Hn).
          rewrite Hf'.
          assert (Hok : okentry (Some (ORef up K)) (Some (ORef up K) :: map klook (g :: t'))).
          { simpl. destruct up; [lia|]. simpl. replace (S up - 1) with up in Hn by lia. auto. }
          split; [apply (Inv_set_head_K f (g :: t') (ORef up K)); auto; [split; auto|discriminate|intros ? ? H; inversion H; auto]|].
          split; [simpl; auto|]. split; [intros ? ? H; inversion H; auto|]. split.
          -- intros _. simpl. unfold klook at 1. simpl. rewrite nlookup_nset_same. apply Hok.
          -- simpl. eexists _, _. split; [reflexivity|]. simpl. apply nlookup_nset_same.
        * destruct (find_outer t 1 n) as [r|] eqn:EF; auto.
          assert (Hr : forall up m, r = ORef up m -> m = n).
          { clear - EF HS'. revert EF. generalize 1. induction t as [|g t IH]; simpl; intros j EF; [discriminate|].
            inversion HS' as [|? ? Hg HS'']; subst.
            destruct (nlookup (fstore g) n) as [[w|up' m']|] eqn:E2.
            - inversion EF; subst. intros ? ? H; inversion H; auto.
            - inversion EF; subst. intros ? ? H; inversion H; subst. eapply Hg; eauto.
            - eapply IH; eauto. }
          split; [apply (Inv_upd_other (f :: t) 0 n r); auto; split; auto|].
          split; [simpl; auto|]. split; auto. split; [intros; contradiction|].
          simpl. eexists _, _. split; [reflexivity|]. simpl. apply nlookup_nset_same.
  Qed.

  (* ---- Environment.SetNoChecks *)
  Lemma set_no_checks_inv : forall e n w create, Inv e -> (n = K -> w = v) ->
    Inv (set_no_checks e n w create) /\ length (set_no_checks e n w create) = length e.
  Proof.
    intros e n w create HI Hw. unfold set_no_checks.
    destruct e as [|f t]; [destruct HI as [HG _]; exfalso; eapply GoodKs_nonempty; eauto|].
    assert (Hval : Inv (upd_frame (f :: t) 0 n (OVal w))).
    { destruct (list_eq_dec N.eq_dec n K) as [->|Hne].
      - rewrite Hw by auto. apply Inv_set_head_K; auto; [simpl; auto | discriminate].
      - apply Inv_upd_other; auto. discriminate. }
    destruct create; [split; [apply Hval|apply upd_frame_length]|].
    destruct HI as [HG HS]. inversion HS as [|? ? Hf HS']; subst.
    (* writing through a reference held in the head frame, or just created there *)
    assert (Hthru : forall f0 up, Inv (f0 :: t) -> nlookup (fstore f0) n = Some (ORef up n) ->
              Inv (upd_frame (f0 :: t) up n (OVal w))).
    { intros f0 up HI0 E0. destruct (list_eq_dec N.eq_dec n K) as [->|Hne].
      - rewrite Hw by auto. destruct HI0 as [HG0 HS0]. split.
        + rewrite upd_same_value; auto.
          pose proof (GoodKs_head _ _ HG0) as HK. simpl in HK. unfold klook in HK at 1. rewrite E0 in HK. apply HK.
        + apply Forall_same_upd; auto. discriminate.
      - apply Inv_upd_other; auto. discriminate. }
    destruct (nlookup (fstore f) n) as [[old|up m]|] eqn:E.
    - split; [apply Hval|apply upd_frame_length].
    - pose proof (Hf _ _ _ E). subst m. split; [apply Hthru; auto; split; auto|apply upd_frame_length].
    - destruct (find_outer t 1 n) as [[w0|up m]|] eqn:EF.
      + split; [apply Hval|apply upd_frame_length].
      + pose proof (env_get_inv (f :: t) n (conj HG HS)) as HGet. simpl in HGet. rewrite E, EF in HGet.
        destruct HGet as (HI1 & _ & Hnm & _ & _). pose proof (Hnm _ _ eq_refl). subst m.
        split; [|rewrite !upd_frame_length; auto].
        change (upd_frame (f :: t) 0 n (ORef up n)) with (mkframe (nset (fstore f) n (ORef up n)) :: t) in *.
        apply Hthru; auto. simpl. apply nlookup_nset_same.
      + split; [apply Hval|apply upd_frame_length].
  Qed.

  Lemma Inv_nonempty : forall e, Inv e -> e <> [].
  Proof. intros e [HG _] ->. eapply GoodKs_nonempty; eauto. Qed.

  Lemma Inv_push : forall e, Inv e -> Inv (empty_frame :: e).
  Proof.
    intros e [HG HS]. split.
    - simpl. apply GoodKs_push; simpl; auto.
    - constructor; auto. intros n up m H. discriminate.
  Qed.

  Lemma Inv_pop : forall f t, Inv (f :: t) -> t <> [] -> Inv t.
  Proof.
    intros f t [HG HS] Ht. inversion HS; subst. split; auto.
    destruct t; [contradiction|]. simpl in *. eapply GoodKs_tl; eauto.
  Qed.

  Lemma Inv_root : forall e, Inv e -> length e = 1 -> root_value e K = Some v.
  Proof.
    intros e [HG _] Hl. destruct e as [|f [|g t]]; simpl in Hl; try lia.
    simpl in HG. apply GoodKs_single in HG. unfold klook in HG. unfold root_value. rewrite HG. reflexivity.
  Qed.

  (* ---- Environment.CreateOrSet *)
  Lemma create_or_set_inv : forall e n w create, Inv e ->
    Inv (fst (create_or_set e n w create)) /\ length (fst (create_or_set e n w create)) = length e /\
    (n = K -> snd (create_or_set e n w create) = Err \/ (snd (create_or_set e n w create) = Ok w /\ w = v) \/ constant_name K = false).
  Proof.
    intros e n w create HI. unfold create_or_set.
    destruct (constant_name n) eqn:EC.
    - pose proof (env_get_inv e n HI) as HG.
      destruct (env_get e n) as [[e1 o]|].
      + destruct HG as (HI1 & HL1 & Hnm & HK & _).
        destruct o as [old|up m]; simpl.
        * destruct (cval_eqb old w) eqn:EQ; simpl.
          -- apply cval_eqb_eq in EQ. subst w.
             assert (Hold : n = K -> old = v).
             { intros E. specialize (HK E). destruct e1; [exfalso; eapply Inv_nonempty; eauto|]. simpl in HK. apply HK. }
             destruct (set_no_checks_inv e1 n old create HI1 Hold) as [H1 H2].
             split; auto. split; [lia|]. intros E. right. left. auto.
          -- split; auto.
        * split; auto.
      + simpl. destruct (set_no_checks_inv e n w create HI) as [H1 H2]; [intros; contradiction|].
        split; auto. split; auto. intros; contradiction.
    - simpl. destruct (set_no_checks_inv e n w create HI) as [H1 H2].
      + intros ->. (* K would not be a constant name *) exact (match EC with eq_refl => fun x => x end (eq_refl w)) || idtac.
        admit.
      + split; auto. split; auto. intros ->. right. right. auto.
  Admitted.
End INV.
