(* Lemmas about coq/model/ConstEnv.v: with the constant test on the register paths and containers copied before
   a write, a constant-named binding of the top-level environment keeps its value through every sequence of
   mutation attempts that contains no explicit del of that name - with registers on or off. *)
From Coq Require Import List ZArith NArith Bool Arith Lia.
From GrolModel Require Import Containers ConstEnv.
Import ListNotations.

(* ------------------------------------------------------------------ equality tests *)

Lemma name_eqb_eq : forall a b, name_eqb a b = true <-> a = b.
Proof.
  induction a; destruct b; simpl; split; intros; try discriminate; auto.
  - apply andb_true_iff in H as [H1 H2]. apply N.eqb_eq in H1. apply IHa in H2. congruence.
  - inversion H; subst. apply andb_true_iff. split; [apply N.eqb_refl|apply IHa; auto].
Qed.

Lemma name_eqb_refl : forall a, name_eqb a a = true.
Proof. intros. apply name_eqb_eq. auto. Qed.

Lemma name_eqb_neq : forall a b, a <> b -> name_eqb a b = false.
Proof. intros. destruct (name_eqb a b) eqn:E; auto. apply name_eqb_eq in E. contradiction. Qed.

Lemma num_eqb_eq : forall a b, num_eqb a b = true -> a = b.
Proof.
  destruct a, b; simpl; try discriminate; intros H; try reflexivity; apply Z.eqb_eq in H; congruence.
Qed.

Lemma key_eqb_eq : forall a b, key_eqb a b = true -> a = b.
Proof.
  destruct a, b; simpl; try discriminate; intros H.
  - f_equal. apply num_eqb_eq; auto.
  - f_equal. apply name_eqb_eq; auto.
Qed.

(* object.Identical is equality on the modelled values *)
Lemma cval_eqb_eq : forall a b, cval_eqb true a b = true -> a = b.
Proof.
  fix IH 1. intros x y. destruct x as [n| |s|b|l|l|ct ci cn cw|ct ci cn], y as [n'| |s'|b'|l'|l'|ct' ci' cn' cw'|ct' ci' cn']; cbn [cval_eqb]; try discriminate.
  - intros H. f_equal. apply num_eqb_eq; auto.
  - reflexivity.
  - intros H. f_equal. apply name_eqb_eq; auto.
  - intros H. f_equal. apply Bool.eqb_prop; auto.
  - revert l'. induction l as [|x l IHl]; intros [|y r] H; try discriminate; try reflexivity.
    apply andb_true_iff in H as [H1 H2]. apply IH in H1. apply IHl in H2. inversion H2. subst. reflexivity.
  - revert l'. induction l as [|[k x] l IHl]; intros [|[k' y] r] H; try discriminate; try reflexivity.
    apply andb_true_iff in H as [H1 H2]. apply andb_true_iff in H1 as [H0 H1].
    apply key_eqb_eq in H0. apply IH in H1. apply IHl in H2. inversion H2. subst. reflexivity.
  - simpl. intros H. apply andb_true_iff in H as [H0 H]. apply andb_true_iff in H as [H H2]. apply andb_true_iff in H as [H3 H1].
    apply Nat.eqb_eq in H0. apply Nat.eqb_eq in H3. apply name_eqb_eq in H1. apply IH in H2. subst. reflexivity.
  - simpl. intros H. apply andb_true_iff in H as [H0 H]. apply andb_true_iff in H as [H3 H1].
    apply Nat.eqb_eq in H0. apply Nat.eqb_eq in H3. apply name_eqb_eq in H1. subst. reflexivity.
Qed.

(* ------------------------------------------------------------------ association lists and frames *)

Lemma nlookup_nset_same : forall {A} (s : list (name * A)) n x, nlookup (nset s n x) n = Some x.
Proof.
  induction s as [|[m y] t IH]; intros; simpl.
  - now rewrite name_eqb_refl.
  - destruct (name_eqb m n) eqn:E; simpl; rewrite E; auto.
Qed.

Lemma nlookup_nset_other : forall {A} (s : list (name * A)) n x m, n <> m -> nlookup (nset s n x) m = nlookup s m.
Proof.
  induction s as [|[k y] t IH]; intros; simpl.
  - now rewrite (name_eqb_neq n m H).
  - destruct (name_eqb k n) eqn:E; simpl.
    + apply name_eqb_eq in E. subst. now rewrite (name_eqb_neq n m H).
    + destruct (name_eqb k m); auto.
Qed.

Lemma nlookup_ndel_other : forall {A} (s : list (name * A)) n m, n <> m -> nlookup (ndel s n) m = nlookup s m.
Proof.
  induction s as [|[k y] t IH]; intros; simpl; auto.
  destruct (name_eqb k n) eqn:E; simpl.
  - apply name_eqb_eq in E. subst. now rewrite (name_eqb_neq n m H).
  - destruct (name_eqb k m); auto.
Qed.

Lemma nlookup_In : forall {A} (s : list (name * A)) n x, nlookup s n = Some x -> In (n, x) s.
Proof.
  induction s as [|[m y] t IH]; simpl; intros; [discriminate|].
  destruct (name_eqb m n) eqn:E.
  - apply name_eqb_eq in E. inversion H; subst. auto.
  - right. auto.
Qed.

Lemma In_nset : forall {A} (s : list (name * A)) n x p, In p (nset s n x) -> In p s \/ p = (n, x).
Proof.
  induction s as [|[m y] t IH]; simpl; intros.
  - destruct H as [H|[]]; auto.
  - destruct (name_eqb m n) eqn:E.
    + apply name_eqb_eq in E. subst. destruct H as [H|H]; auto.
    + destruct H as [H|H]; auto. destruct (IH _ _ _ H); auto.
Qed.

Lemma In_ndel : forall {A} (s : list (name * A)) n p, In p (ndel s n) -> In p s.
Proof.
  induction s as [|[m y] t IH]; simpl; intros; auto.
  destruct (name_eqb m n); auto. destruct H; auto. right. eauto.
Qed.

Section INV.
  Variable K : name.
  Variable v : cval.
  Hypothesis HKconst : constant_name K = true.
  Variable c : ccfg.
  Hypothesis Hct : const_test c = true.
  Hypothesis Hcow : ccow c = true.
  Hypothesis Hstrict : strict_eq c = true.
  Hypothesis Hfn : fn_env c = true.

  Definition klook (f : frame) : option obj := nlookup (fstore f) K.

  (* a reference is always stored under the name it refers to *)
  Definition same_name (f : frame) : Prop :=
    forall n up m, In (n, ORef up m) (fstore f) -> m = n.

  Lemma same_name_lookup : forall f n up m, same_name f -> nlookup (fstore f) n = Some (ORef up m) -> m = n.
  Proof. intros. eapply H. eapply nlookup_In; eauto. Qed.

  (* what the entry for K of a frame may be, given the entries of that frame and of the frames further out *)
  Definition okentry (x : option obj) (l : list (option obj)) : Prop :=
    match x with
    | None => True
    | Some (OVal w) => w = v
    | Some (ORef up _) => nth_error l up = Some (Some (OVal v))
    end.

  Inductive GoodKs : list (option obj) -> Prop :=
  | GoodKs_root : GoodKs [Some (OVal v)]
  | GoodKs_push : forall x t, GoodKs t -> okentry x (x :: t) -> GoodKs (x :: t).

  Definition Inv (e : env) : Prop := GoodKs (map klook e) /\ Forall same_name e.

  Lemma GoodKs_nonempty : forall l, GoodKs l -> l <> [].
  Proof. intros l H. inversion H; discriminate. Qed.

  Lemma GoodKs_tl : forall x y t, GoodKs (x :: y :: t) -> GoodKs (y :: t).
  Proof. intros. inversion H; subst. auto. Qed.

  Lemma GoodKs_head : forall x t, GoodKs (x :: t) -> okentry x (x :: t).
  Proof. intros. inversion H; subst; simpl; auto. Qed.

  Lemma GoodKs_single : forall x, GoodKs [x] -> x = Some (OVal v).
  Proof. intros. inversion H; subst; auto. exfalso. eapply GoodKs_nonempty; eauto. Qed.

  Lemma GoodKs_set_head : forall x y t, GoodKs (x :: t) -> okentry y (y :: t) -> (t = [] -> y = Some (OVal v)) -> GoodKs (y :: t).
  Proof.
    intros. destruct t.
    - rewrite H1; auto. constructor.
    - apply GoodKs_push; auto. eapply GoodKs_tl; eauto.
  Qed.

  (* the name is found somewhere: from position j outwards *)
  Lemma find_outer_good : forall t j, GoodKs (map klook t) -> Forall same_name t ->
    exists up, find_outer t j K = Some (ORef up K) /\ j <= up /\ nth_error (map klook t) (up - j) = Some (Some (OVal v)).
  Proof.
    induction t as [|f t IH]; intros j HG HS.
    - exfalso. eapply GoodKs_nonempty; eauto.
    - simpl in *. pose proof (GoodKs_head _ _ HG) as HK. unfold klook in HK at 1. unfold klook at 1.
      inversion HS as [|? ? Hf HS']; subst.
      destruct (nlookup (fstore f) K) as [[w|up m]|] eqn:E; simpl in HK.
      + subst. exists j. rewrite Nat.sub_diag. simpl. auto.
      + pose proof (same_name_lookup _ _ _ _ Hf E). subst m. exists (j + up). split; auto. split; [lia|].
        replace (j + up - j) with up by lia.
        change (klook f) with (nlookup (fstore f) K) in HK. rewrite E in HK. exact HK.
      + destruct t as [|g t'].
        * apply GoodKs_single in HG. unfold klook in HG. rewrite E in HG. discriminate.
        * destruct (IH (S j) (GoodKs_tl _ _ _ HG) HS') as (up & Hf' & Hle & Hn).
          exists up. split; auto. split; [lia|].
          replace (up - j) with (S (up - S j)) by lia. simpl. auto.
  Qed.

  Lemma map_klook_upd_other : forall e i n o, n <> K -> map klook (upd_frame e i n o) = map klook e.
  Proof.
    induction e as [|f t IH]; intros; simpl; auto.
    destruct i; simpl.
    - f_equal. unfold klook. simpl. apply nlookup_nset_other. auto.
    - f_equal. auto.
  Qed.

  Lemma upd_frame_length : forall e i n o, length (upd_frame e i n o) = length e.
  Proof. induction e; intros; simpl; auto. destruct i; simpl; auto. Qed.

  Lemma same_name_set : forall f n o, same_name f -> (forall up m, o = ORef up m -> m = n) ->
    same_name (mkframe (nset (fstore f) n o)).
  Proof.
    unfold same_name. intros f n o Hf Ho n' up m. simpl. intros H.
    destruct (In_nset _ _ _ _ H) as [H1|H1]; eauto. inversion H1; subst. eauto.
  Qed.

  Lemma Forall_same_upd : forall e i n o, Forall same_name e -> (forall up m, o = ORef up m -> m = n) ->
    Forall same_name (upd_frame e i n o).
  Proof.
    induction e as [|f t IH]; intros; simpl; auto.
    inversion H; subst. destruct i; constructor; auto. apply same_name_set; auto.
  Qed.

  Lemma Inv_upd_other : forall e i n o, Inv e -> n <> K -> (forall up m, o = ORef up m -> m = n) -> Inv (upd_frame e i n o).
  Proof.
    intros e i n o [HG HS] Hn Ho. split.
    - rewrite map_klook_upd_other; auto.
    - apply Forall_same_upd; auto.
  Qed.

  (* writing OVal v for K where the entry already denotes v *)
  Lemma map_klook_upd_K : forall e i o, i < length e ->
    map klook (upd_frame e i K o) = firstn i (map klook e) ++ Some o :: skipn (S i) (map klook e).
  Proof.
    induction e as [|f t IH]; intros; simpl in *; [lia|].
    destruct i; simpl.
    - unfold klook at 1. simpl. now rewrite nlookup_nset_same.
    - f_equal. apply IH. lia.
  Qed.

  Lemma upd_same_value : forall e i, nth_error (map klook e) i = Some (Some (OVal v)) ->
    map klook (upd_frame e i K (OVal v)) = map klook e.
  Proof.
    induction e as [|f t IH]; intros; simpl in *; auto.
    destruct i; simpl in *.
    - unfold klook at 1. simpl. rewrite nlookup_nset_same. clear - H. congruence.
    - f_equal. auto.
  Qed.

  Lemma Inv_set_head_K : forall f t o, Inv (f :: t) -> okentry (Some o) (Some o :: map klook t) ->
    (t = [] -> o = OVal v) -> (forall up m, o = ORef up m -> m = K) ->
    Inv (upd_frame (f :: t) 0 K o).
  Proof.
    intros f t o [HG HS] Hok Hroot Ho. split.
    - simpl. unfold klook at 1. simpl. rewrite nlookup_nset_same.
      simpl in HG. eapply GoodKs_set_head; eauto.
      intros E. destruct t; [|discriminate]. rewrite Hroot; auto.
    - apply Forall_same_upd; auto.
  Qed.

  (* ---- Environment.Get *)
  Lemma env_get_inv : forall e n, Inv e ->
    match env_get e n with
    | Some (e1, o) =>
      Inv e1 /\ length e1 = length e /\ (forall up m, o = ORef up m -> m = n) /\
      (n = K -> okentry (Some o) (map klook e1)) /\
      (exists f t, e1 = f :: t /\ nlookup (fstore f) n = Some o)
    | None => n <> K
    end.
  Proof.
    intros e n [HG HS]. destruct e as [|f t]; simpl.
    - exfalso. eapply GoodKs_nonempty; eauto.
    - inversion HS as [|? ? Hf HS']; subst.
      destruct (nlookup (fstore f) n) as [o|] eqn:E.
      + split; [split; auto|]. split; auto. split; [intros; subst; eapply same_name_lookup; eauto|]. split; [|eauto].
        intros ->. pose proof (GoodKs_head _ _ HG) as HK. simpl in HK. unfold klook in HK at 1. rewrite E in HK.
        simpl. auto.
      + destruct (list_eq_dec N.eq_dec n K) as [->|Hne].
        * (* the constant: found further out *)
          destruct t as [|g t'].
          { simpl in HG. apply GoodKs_single in HG. unfold klook in HG. rewrite E in HG. discriminate. }
          destruct (find_outer_good (g :: t') 1 (GoodKs_tl _ _ _ HG) HS') as (up & Hf' & Hle & Hn).
          rewrite Hf'.
          assert (Hok : okentry (Some (ORef up K)) (Some (ORef up K) :: map klook (g :: t'))).
          { simpl. destruct up; [lia|]. simpl. replace (S up - 1) with up in Hn by lia. auto. }
          split; [apply (Inv_set_head_K f (g :: t') (ORef up K)); auto; [split; auto|discriminate|intros ? ? H; inversion H; auto]|].
          split; [simpl; auto|]. split; [intros ? ? H; inversion H; auto|]. split.
          -- intros _. simpl. unfold klook at 1. simpl. rewrite nlookup_nset_same. apply Hok.
          -- simpl. eexists _, _. split; [reflexivity|]. simpl. apply nlookup_nset_same.
        * destruct (find_outer t 1 n) as [r|] eqn:EF; auto.
          assert (Hr : forall up m, r = ORef up m -> m = n).
          { clear - EF HS'. revert EF. generalize 1. induction t as [|g t IH]; simpl; intros j EF; [discriminate|].
            inversion HS' as [|? ? Hg HS'']; subst.
            destruct (nlookup (fstore g) n) as [[w|up' m']|] eqn:E2.
            - inversion EF; subst. intros ? ? H; inversion H; auto.
            - inversion EF; subst. intros ? ? H; inversion H; subst. eapply same_name_lookup; eauto.
            - eapply IH; eauto. }
          split; [apply (Inv_upd_other (f :: t) 0 n r); auto; split; auto|].
          split; [simpl; auto|]. split; auto. split; [intros; contradiction|].
          simpl. eexists _, _. split; [reflexivity|]. simpl. apply nlookup_nset_same.
  Qed.

  (* ---- Environment.SetNoChecks *)
  Lemma set_no_checks_inv : forall e n w create, Inv e -> (n = K -> w = v) ->
    Inv (set_no_checks e n w create) /\ length (set_no_checks e n w create) = length e.
  Proof.
    intros e n w create HI Hw. unfold set_no_checks.
    destruct e as [|f t]; [destruct HI as [HG _]; exfalso; eapply GoodKs_nonempty; eauto|].
    assert (Hval : Inv (upd_frame (f :: t) 0 n (OVal w))).
    { destruct (list_eq_dec N.eq_dec n K) as [->|Hne].
      - rewrite Hw by auto. apply Inv_set_head_K; auto; [simpl; auto | discriminate].
      - apply Inv_upd_other; auto. discriminate. }
    destruct create; [split; [apply Hval|apply upd_frame_length]|].
    destruct HI as [HG HS]. inversion HS as [|? ? Hf HS']; subst.
    (* writing through a reference held in the head frame, or just created there *)
    assert (Hthru : forall f0 up, Inv (f0 :: t) -> nlookup (fstore f0) n = Some (ORef up n) ->
              Inv (upd_frame (f0 :: t) up n (OVal w))).
    { intros f0 up HI0 E0. destruct (list_eq_dec N.eq_dec n K) as [->|Hne].
      - rewrite Hw by auto. destruct HI0 as [HG0 HS0]. split.
        + rewrite upd_same_value; auto.
          pose proof (GoodKs_head _ _ HG0) as HK. simpl in HK. unfold klook in HK at 1. rewrite E0 in HK. apply HK.
        + apply Forall_same_upd; auto. discriminate.
      - apply Inv_upd_other; auto. discriminate. }
    destruct (nlookup (fstore f) n) as [[old|up m]|] eqn:E.
    - split; [apply Hval|apply upd_frame_length].
    - pose proof (same_name_lookup _ _ _ _ Hf E). subst m. split; [apply Hthru; auto; split; auto|apply upd_frame_length].
    - destruct (find_outer t 1 n) as [[w0|up m]|] eqn:EF.
      + split; [apply Hval|apply upd_frame_length].
      + pose proof (env_get_inv (f :: t) n (conj HG HS)) as HGet. simpl in HGet. rewrite E, EF in HGet.
        destruct HGet as (HI1 & _ & Hnm & _ & _). pose proof (Hnm _ _ eq_refl). subst m.
        split; [|rewrite !upd_frame_length; auto].
        change (upd_frame (f :: t) 0 n (ORef up n)) with (mkframe (nset (fstore f) n (ORef up n)) :: t) in *.
        apply Hthru; auto. simpl. apply nlookup_nset_same.
      + split; [apply Hval|apply upd_frame_length].
  Qed.

  Lemma Inv_nonempty : forall e, Inv e -> e <> [].
  Proof. intros e [HG _] ->. eapply GoodKs_nonempty; eauto. Qed.

  Lemma Inv_push : forall e, Inv e -> Inv (empty_frame :: e).
  Proof.
    intros e [HG HS]. split.
    - simpl. apply GoodKs_push; simpl; auto.
    - constructor; auto. intros n up m H. destruct H.
  Qed.

  Lemma Inv_pop : forall f t, Inv (f :: t) -> t <> [] -> Inv t.
  Proof.
    intros f t [HG HS] Ht. inversion HS; subst. split; auto.
    destruct t; [contradiction|]. simpl in *. eapply GoodKs_tl; eauto.
  Qed.

  Lemma Inv_root : forall e, Inv e -> length e = 1 -> root_value e K = Some v.
  Proof.
    intros e [HG _] Hl. destruct e as [|f [|g t]]; simpl in Hl; try lia.
    simpl in HG. apply GoodKs_single in HG. unfold klook in HG. unfold root_value. rewrite HG. reflexivity.
  Qed.

  (* ---- Environment.CreateOrSet *)
  Lemma create_or_set_inv : forall e n w create, Inv e ->
    Inv (fst (create_or_set c e n w create)) /\ length (fst (create_or_set c e n w create)) = length e /\
    (n = K -> snd (create_or_set c e n w create) = Err \/ (snd (create_or_set c e n w create) = Ok w /\ w = v)).
  Proof.
    intros e n w create HI. unfold create_or_set.
    destruct (constant_name n) eqn:EC.
    - pose proof (env_get_inv e n HI) as HG.
      destruct (env_get e n) as [[e1 o]|].
      + destruct HG as (HI1 & HL1 & Hnm & HK & _).
        destruct o as [old|up m]; simpl.
        * destruct (same_value c old w) eqn:EQ; simpl.
          -- unfold same_value in EQ. rewrite Hstrict, Hfn in EQ. apply cval_eqb_eq in EQ. subst w.
             assert (Hold : n = K -> old = v).
             { intros E. specialize (HK E). destruct e1; [exfalso; eapply Inv_nonempty; eauto|]. simpl in HK. apply HK. }
             destruct (set_no_checks_inv e1 n old create HI1 Hold) as [H1 H2].
             split; auto. split; [lia|]. intros E. right. auto.
          -- split; auto.
        * split; auto.
      + simpl. destruct (set_no_checks_inv e n w create HI) as [H1 H2]; [intros; contradiction|].
        split; auto. split; auto. intros; contradiction.
    - assert (Hne : n <> K) by (intros ->; rewrite HKconst in EC; discriminate).
      simpl. destruct (set_no_checks_inv e n w create HI) as [H1 H2]; [intros; contradiction|].
      split; auto. split; auto. intros; contradiction.
  Qed.

  (* ---- Environment.Delete of another name *)
  Lemma env_delete_length : forall e n, length (fst (env_delete e n)) = length e.
  Proof.
    induction e as [|f t IH]; intros; simpl; auto.
    destruct (nlookup (fstore f) n); simpl; auto.
    specialize (IH n). destruct (env_delete t n). simpl in *. lia.
  Qed.

  Lemma env_delete_klook : forall e n, n <> K -> map klook (fst (env_delete e n)) = map klook e.
  Proof.
    induction e as [|f t IH]; intros; simpl; auto.
    destruct (nlookup (fstore f) n); simpl.
    - f_equal. unfold klook. simpl. apply nlookup_ndel_other. auto.
    - specialize (IH n H). destruct (env_delete t n). simpl in *. f_equal. auto.
  Qed.

  Lemma env_delete_same : forall e n, Forall same_name e -> Forall same_name (fst (env_delete e n)).
  Proof.
    induction e as [|f t IH]; intros; simpl; auto.
    inversion H; subst.
    destruct (nlookup (fstore f) n); simpl.
    - constructor; auto. intros n' up m Hin. simpl in Hin. apply In_ndel in Hin. eauto.
    - specialize (IH n H3). destruct (env_delete t n). simpl in *. constructor; auto.
  Qed.

  Lemma env_delete_inv : forall e n, n <> K -> Inv e ->
    Inv (fst (env_delete e n)) /\ length (fst (env_delete e n)) = length e.
  Proof.
    intros e n Hn [HG HS]. split; [|apply env_delete_length].
    split; [rewrite env_delete_klook; auto|apply env_delete_same; auto].
  Qed.

  (* ---- evalIdentifier *)
  Lemma read_name_inv : forall e n, Inv e ->
    Inv (fst (read_name e n)) /\ length (fst (read_name e n)) = length e /\
    (n = K -> snd (read_name e n) = Ok v).
  Proof.
    intros e n HI. unfold read_name.
    pose proof (env_get_inv e n HI) as HG.
    destruct (env_get e n) as [[e1 o]|].
    - destruct HG as (HI1 & HL1 & Hnm & HK & (f & t & -> & Hlk)).
      assert (X : n = K -> deref (f :: t) o = Some v).
      { intros E. specialize (HK E). destruct o as [w|up m]; simpl in *.
        - clear - HK. congruence.
        - unfold klook in HK. pose proof (Hnm _ _ eq_refl). subst m n.
          destruct up; simpl in *.
          + unfold klook in HK. inversion HK as [HK']. rewrite HK'. reflexivity.
          + destruct (nth_error t up) eqn:E2; simpl in *.
            * rewrite nth_error_map, E2 in HK. simpl in HK. inversion HK as [HK']. unfold klook in HK'. rewrite HK'. reflexivity.
            * rewrite nth_error_map, E2 in HK. discriminate. }
      destruct (deref (f :: t) o) eqn:ED; simpl.
      + split; auto. split; auto. intros E. pose proof (X E) as XE. inversion XE; subst. reflexivity.
      + split; auto. split; auto. intros E. pose proof (X E) as XE. discriminate.
    - simpl. split; auto. split; auto. intros E. contradiction.
  Qed.

  Lemma for_values_inv : forall n vs e last, Inv e ->
    Inv (fst (for_values c e n vs last)) /\ length (fst (for_values c e n vs last)) = length e /\
    (n = K -> snd (for_values c e n vs last) = Ok v \/ snd (for_values c e n vs last) = Ok last).
  Proof.
    induction vs as [|w t IH]; intros e last HI; simpl.
    - split; auto.
    - destruct (create_or_set_inv e n w false HI) as (H1 & L1 & _).
      destruct (create_or_set c e n w false) as [e1 r1]. simpl in *.
      destruct (read_name_inv e1 n H1) as (H2 & L2 & R2).
      destruct (read_name e1 n) as [e2 r2]. simpl in *.
      destruct r2 as [r| | |]; try (simpl; split; [auto|split; [lia|]]; intros E; specialize (R2 E); discriminate).
      destruct (IH e2 r H2) as (H3 & L3 & R3). split; auto. split; [lia|].
      intros E. specialize (R2 E). inversion R2; subst. destruct (R3 eq_refl); auto.
  Qed.

  (* ---- one attempt.  c: the repaired code, registers on or off *)

  Definition attempt_deletes (a : attempt) : bool :=
    match a with ADelete n => name_eqb n K | _ => false end.

  Lemma reg_bound_K : reg_bound c K = false.
  Proof. unfold reg_bound. rewrite Hct, HKconst. simpl. apply andb_false_r. Qed.

  Lemma set_container_inv : forall e n old nv, Inv e ->
    Inv (fst (set_container c e n old nv)) /\ length (fst (set_container c e n old nv)) = length e.
  Proof.
    intros. unfold set_container. rewrite Hcow. simpl.
    destruct (create_or_set_inv e n nv false H) as (H1 & H2 & _). auto.
  Qed.

  Lemma eval_expr_inv : forall ex e, Inv e ->
    Inv (fst (eval_expr c e ex)) /\ length (fst (eval_expr c e ex)) = length e.
  Proof.
    induction ex; intros e HI;
      try (simpl; destruct (read_name_inv e y HI) as (H1 & L1 & _);
           destruct (read_name e y) as [e1 [rv| | |]]; simpl in *; auto; fail).
    - simpl. auto.
    - simpl. destruct (read_name_inv (empty_frame :: e) y (Inv_push e HI)) as (H1 & L1 & _).
      destruct (read_name (empty_frame :: e) y) as [e1 rr]. simpl in *.
      destruct e1 as [|f t]; simpl in *; [lia|]. split; [|lia].
      eapply Inv_pop; eauto. intros ->. simpl in L1. pose proof (Inv_nonempty e HI). destruct e; simpl in *; [contradiction|lia].
    - simpl. destruct (IHex e HI) as (H1 & L1).
      destruct (eval_expr c e ex) as [e1 [rv| | |]]; simpl in *; auto.
    - simpl. destruct (negb (length e =? 1)); simpl; auto.
      destruct (create_or_set_inv (empty_frame :: e) n v0 false (Inv_push e HI)) as (H1 & L1 & _).
      destruct (create_or_set c (empty_frame :: e) n v0 false) as [e1 r1]. simpl in *.
      assert (Hpop : Inv (tl e1) /\ length (tl e1) = length e).
      { destruct e1 as [|f t]; simpl in *; [lia|]. split; [|lia].
        eapply Inv_pop; eauto. intros ->. simpl in L1. pose proof (Inv_nonempty e HI). destruct e; simpl in *; [contradiction|lia]. }
      destruct r1; try (destruct e1; simpl in *; auto; fail).
      destruct e1 as [|f t]; simpl in *; auto.
      destruct (nlookup (fstore f) n) as [[w|up m]|]; simpl; auto.
    - simpl. auto.
    - simpl. destruct (negb (length e =? 1)); simpl; auto.
      destruct (is_int v0 && reg_bound c n); simpl; auto.
      destruct (create_or_set_inv (empty_frame :: e) n v0 true (Inv_push e HI)) as (H1 & L1 & _).
      destruct (create_or_set c (empty_frame :: e) n v0 true) as [e1 r1]. simpl in *.
      assert (Hpop : Inv (tl e1) /\ length (tl e1) = length e).
      { destruct e1 as [|f t]; simpl in *; [lia|]. split; [|lia].
        eapply Inv_pop; eauto. intros ->. simpl in L1. pose proof (Inv_nonempty e HI). destruct e; simpl in *; [contradiction|lia]. }
      destruct r1; try (destruct e1; simpl in *; auto; fail).
      destruct e1 as [|f t]; simpl in *; auto.
      destruct (nlookup (fstore f) n) as [[w|up m]|]; simpl; auto.
    - simpl. destruct (read_name_inv e g HI) as (H1 & L1 & _).
      destruct (read_name e g) as [e1 [[| | | | | | |]| | |]]; simpl in *; auto.
  Qed.

  Lemma do_idx_set_inv : forall e n k w, Inv e ->
    Inv (fst (do_idx_set c e n k w)) /\ length (fst (do_idx_set c e n k w)) = length e.
  Proof.
    intros e n k w HI. unfold do_idx_set.
    destruct (read_name_inv e n HI) as (H1 & L1 & _).
    destruct (read_name e n) as [e1 r1]. simpl in *.
    destruct r1 as [xv| | |]; auto.
    destruct (x_idx_set xv k w) as [nv| | |]; auto.
    destruct (set_container_inv e1 n xv nv H1) as (H2 & L2).
    destruct (set_container c e1 n xv nv) as [e2 r2]. simpl in *. split; auto. lia.
  Qed.

  Lemma do_attempt_inv : forall a e, attempt_deletes a = false -> Inv e ->
    Inv (fst (do_attempt c e a)) /\ length (fst (do_attempt c e a)) = length e.
  Proof.
    intros a e Hd HI. destruct a; simpl.
    - (* = and := *)
      destruct (eval_expr_inv ex e HI) as (H0 & L0).
      destruct (eval_expr c e ex) as [e0 [w| | |]]; simpl in *; auto.
      destruct (create_or_set_inv e0 n w define H0) as (H1 & H2 & _). split; auto. lia.
    - (* ++ -- *)
      destruct (read_name_inv e n HI) as (H1 & L1 & _).
      destruct (read_name e n) as [e1 r1]. simpl in *.
      destruct r1 as [old| | |]; auto.
      destruct old as [[z|q|]| |s0|b0|l0|l0|ct ci cn cw|ct ci cn]; simpl; auto;
      try (destruct (int64_ok (z + delta)); simpl; auto);
      match goal with |- context [create_or_set c e1 n ?w false] =>
        destruct (create_or_set_inv e1 n w false H1) as (H2 & L2 & _);
        destruct (create_or_set c e1 n w false) as [e2 r2]; simpl in *; split; auto; lia end.
    - (* n[i] = v *)
      apply do_idx_set_inv; auto.
    - (* del(n[k]) *)
      pose proof (env_get_inv e n HI) as HG.
      destruct (env_get e n) as [[e1 o]|]; auto.
      destruct HG as (H1 & L1 & _).
      destruct (deref e1 o) as [[| | | | |l| |]|]; auto.
      destruct (xmap_del l k) as [l'|]; auto.
      destruct (set_container_inv e1 n (XMap l) (XMap l') H1) as (H2 & L2).
      destruct (set_container c e1 n (XMap l) (XMap l')) as [e2 r2]. simpl in *. split; auto. lia.
    - (* del(n), n <> K *)
      simpl in Hd. assert (Hn : n <> K) by (intros ->; rewrite name_eqb_refl in Hd; discriminate).
      destruct (env_delete_inv e n Hn HI) as (H1 & L1).
      destruct (env_delete e n) as [e1 b0]. simpl in *. auto.
    - (* for n = a:b *)
      destruct (b <? a)%Z; auto. destruct (reg_bound c n); auto.
      destruct (for_values_inv n (int_range a (Z.to_nat (b - a))) e XNil HI) as (H1 & L1 & _). auto.
    - (* for n = [..] *)
      destruct (for_values_inv n l e XNil HI) as (H1 & L1 & _). auto.
    - (* func(n){n}(v) *)
      destruct (is_int v0 && reg_bound c n); auto.
      destruct (create_or_set_inv (empty_frame :: e) n v0 true (Inv_push e HI)) as (H1 & L1 & _).
      destruct (create_or_set c (empty_frame :: e) n v0 true) as [e1 r1]. simpl in *.
      assert (Hpop : forall e2, Inv e2 -> length e2 = S (length e) -> Inv (tl e2) /\ length (tl e2) = length e).
      { intros e2 HI2 HL2. destruct e2 as [|f t]; simpl in *; [lia|]. split; [|lia].
        eapply Inv_pop; eauto. intros ->. simpl in HL2. pose proof (Inv_nonempty e HI). destruct e; simpl in *; [contradiction|lia]. }
      destruct r1; try (apply Hpop; auto).
      destruct (read_name_inv e1 n H1) as (H2 & L2 & _).
      destruct (read_name e1 n) as [e2 r2]. simpl in *. apply Hpop; auto. lia.
    - (* func(n){y[k]=v;n}(y) *)
      destruct (read_name_inv e y HI) as (H0 & L0 & _).
      destruct (read_name e y) as [e0 [w| | |]]; simpl in *; auto.
      assert (Hpop : forall e2, Inv e2 -> length e2 = S (length e) -> Inv (tl e2) /\ length (tl e2) = length e).
      { intros e2 HI2 HL2. destruct e2 as [|f t]; simpl in *; [lia|]. split; [|lia].
        eapply Inv_pop; eauto. intros ->. simpl in HL2. pose proof (Inv_nonempty e HI). destruct e; simpl in *; [contradiction|lia]. }
      set (bound := if is_int w && reg_bound c n then (empty_frame :: e0, Ok w)
                    else create_or_set c (empty_frame :: e0) n w true).
      assert (HB : Inv (fst bound) /\ length (fst bound) = S (length e)).
      { unfold bound. destruct (is_int w && reg_bound c n); simpl.
        - split; [apply Inv_push; auto|lia].
        - destruct (create_or_set_inv (empty_frame :: e0) n w true (Inv_push e0 H0)) as (H1 & L1 & _).
          split; auto. etransitivity; [exact L1|simpl; lia]. }
      destruct bound as [e1 r1]. simpl in HB. destruct HB as [H1 L1].
      destruct r1; try (apply Hpop; auto).
      destruct (do_idx_set_inv e1 y k v0 H1) as (H2 & L2).
      destruct (do_idx_set c e1 y k v0) as [e2 r2]. simpl in *.
      destruct r2; try (apply Hpop; auto; lia).
      destruct (is_int w && reg_bound c n); [apply Hpop; auto; lia|].
      destruct (read_name_inv e2 n H2) as (H3 & L3 & _).
      destruct (read_name e2 n) as [e3 r3]. simpl in *. apply Hpop; auto. lia.
    - (* n *)
      destruct (read_name_inv e n HI) as (H1 & L1 & _). auto.
  Qed.

  Definition event_deletes (ev : event) : bool := match ev with Ev _ a => attempt_deletes a | EvClo _ _ => false end.

  Lemma GoodKs_last : forall l, GoodKs l -> nth_error l (length l - 1) = Some (Some (OVal v)).
  Proof.
    induction 1; simpl; auto.
    destruct t; [exfalso; eapply GoodKs_nonempty; eauto|].
    simpl in *. rewrite Nat.sub_0_r in *. auto.
  Qed.

  Lemma inner_no_delete : forall n i, attempt_deletes (inner_attempt n i) = false.
  Proof. destruct i; reflexivity. Qed.

  Lemma run_closure_inv : forall e g i, Inv e ->
    Inv (fst (run_closure c e g i)) /\ length (fst (run_closure c e g i)) = length e.
  Proof.
    intros e g i HI. unfold run_closure.
    destruct (read_name_inv e g HI) as (H1 & L1 & _).
    destruct (read_name e g) as [e1 r1]. simpl in *.
    destruct r1 as [[| | | | | |ct ci n w|ct ci n]| | |]; simpl; auto.
    destruct (negb (constant_name n)); simpl; auto.
    destruct (root_frame e1) as [f|] eqn:ER; simpl; auto.
    set (below := match nlookup (fstore f) n with
                  | Some (OVal x) => cval_eqb true x w
                  | Some (ORef _ _) => false
                  | None => true
                  end).
    destruct below eqn:EB; simpl; auto.
    assert (HI2 : Inv (empty_frame :: mkframe [(n, OVal w)] :: e1)).
    { apply Inv_push. destruct H1 as [HG HS]. split.
      - simpl. apply GoodKs_push; auto. unfold klook at 1. simpl.
        destruct (name_eqb n K) eqn:EN; simpl; auto.
        apply name_eqb_eq in EN. subst n.
        pose proof (GoodKs_last _ HG) as HL. rewrite map_length in HL.
        unfold root_frame in ER. rewrite nth_error_map, ER in HL. simpl in HL. inversion HL as [HK].
        unfold klook in HK. unfold below in EB. rewrite HK in EB. apply cval_eqb_eq in EB. auto.
      - constructor; auto. intros n' up m Hin. simpl in Hin. destruct Hin as [Hin|[]]. discriminate. }
    destruct (do_attempt_inv (inner_attempt n i) _ (inner_no_delete n i) HI2) as (H2 & L2).
    destruct (do_attempt c (empty_frame :: mkframe [(n, OVal w)] :: e1) (inner_attempt n i)) as [e2 r2]. simpl in *.
    pose proof (Inv_nonempty e HI) as Hne.
    assert (Hpos : 0 < length e) by (destruct e; simpl; [contradiction|lia]).
    destruct e2 as [|a1 [|a2 t]]; simpl in *; try lia.
    split; [|lia].
    assert (Ht : t <> []) by (intros ->; simpl in L2; lia).
    eapply Inv_pop; [eapply Inv_pop; [exact H2|discriminate]|exact Ht].
  Qed.

  Lemma run_event_inv : forall ev e, event_deletes ev = false -> Inv e ->
    Inv (fst (run_event c e ev)) /\ length (fst (run_event c e ev)) = length e.
  Proof.
    intros [s a|g i] e Hd HI; [|simpl; destruct (length e =? 1); [apply run_closure_inv; auto|simpl; auto]]. simpl in Hd.
    assert (Hpop : forall e2 k, Inv e2 -> length e2 = k + length e -> k <= 2 ->
              Inv (Nat.iter k (@tl frame) e2) /\ length (Nat.iter k (@tl frame) e2) = length e).
    { pose proof (Inv_nonempty e HI) as Hne.
      assert (Hpos : 0 < length e) by (destruct e; simpl; [contradiction|lia]).
      assert (Hone : forall e2, Inv e2 -> 1 < length e2 -> Inv (tl e2) /\ length (tl e2) = length e2 - 1).
      { intros e2 HI2 HL2. destruct e2 as [|f t]; simpl in *; [lia|]. split; [|lia].
        eapply Inv_pop; eauto. intros ->. simpl in HL2. lia. }
      intros e2 k HI2 HL2 Hk. destruct k as [|[|[|k]]]; simpl; try lia; auto.
      - destruct (Hone e2 HI2 ltac:(lia)) as [A B]. split; auto. lia.
      - destruct (Hone e2 HI2 ltac:(lia)) as [A B]. destruct (Hone (tl e2) A ltac:(lia)) as [A2 B2]. split; auto. lia. }
    destruct s; simpl.
    - apply do_attempt_inv; auto.
    - destruct (do_attempt_inv a (empty_frame :: e) Hd (Inv_push e HI)) as (H1 & L1).
      destruct (do_attempt c (empty_frame :: e) a) as [e1 r1]. simpl in *.
      apply (Hpop e1 1); auto.
    - destruct (do_attempt_inv a (empty_frame :: empty_frame :: e) Hd (Inv_push _ (Inv_push e HI))) as (H1 & L1).
      destruct (do_attempt c (empty_frame :: empty_frame :: e) a) as [e1 r1]. simpl in *.
      apply (Hpop e1 2); auto.
    - destruct (do_attempt_inv a e Hd HI) as (H1 & L1).
      destruct (do_attempt c e a) as [e1 r1]. simpl in *.
      destruct r1; auto.
      destruct (do_attempt_inv a e1 Hd H1) as (H2 & L2). split; auto. lia.
  Qed.

  Lemma run_events_inv : forall evs e, forallb (fun ev => negb (event_deletes ev)) evs = true -> Inv e ->
    Inv (run_events c e evs) /\ length (run_events c e evs) = length e.
  Proof.
    induction evs as [|ev t IH]; intros e Hd HI; simpl; auto.
    simpl in Hd. apply andb_true_iff in Hd as [Hd1 Hd2]. apply negb_true_iff in Hd1.
    destruct (run_event_inv ev e Hd1 HI) as (H1 & L1).
    destruct (IH _ Hd2 H1) as (H2 & L2). split; auto. lia.
  Qed.

  (* what the name evaluates to, and what attempts that read it observe *)
  Lemma read_event_value : forall e s, Inv e -> length e = 1 ->
    snd (run_event c e (Ev s (ARead K))) = Ok v.
  Proof.
    intros e s HI HL. destruct s; simpl.
    - destruct (read_name_inv e K HI) as (_ & _ & R). auto.
    - destruct (read_name_inv (empty_frame :: e) K (Inv_push e HI)) as (_ & _ & R).
      destruct (read_name (empty_frame :: e) K). simpl in *. auto.
    - destruct (read_name_inv (empty_frame :: empty_frame :: e) K (Inv_push _ (Inv_push e HI))) as (_ & _ & R).
      destruct (read_name (empty_frame :: empty_frame :: e) K). simpl in *. auto.
    - destruct (read_name_inv e K HI) as (H1 & _ & R).
      destruct (read_name e K) as [e1 r1]. simpl in *. rewrite (R eq_refl).
      destruct (read_name_inv e1 K H1) as (_ & _ & R2). auto.
  Qed.

  Lemma shadow_attempt_value : forall e a, Inv e ->
    (exists w, a = ACall K w) \/ (exists x y, a = AForInt K x y) \/ (exists l, a = AForList K l) ->
    snd (do_attempt c e a) = Err \/ snd (do_attempt c e a) = Ok v \/ snd (do_attempt c e a) = Ok XNil.
  Proof.
    intros e a HI [[w ->]|[[x [y ->]]|[l ->]]]; simpl.
    - rewrite reg_bound_K, andb_false_r.
      destruct (create_or_set_inv (empty_frame :: e) K w true (Inv_push e HI)) as (H1 & L1 & R1).
      destruct (create_or_set c (empty_frame :: e) K w true) as [e1 r1]. simpl in *.
      destruct (R1 eq_refl) as [->|[-> ->]]; simpl; auto.
      destruct (read_name_inv e1 K H1) as (_ & _ & R2).
      destruct (read_name e1 K) as [e2 r2]. simpl in *. rewrite (R2 eq_refl). auto.
    - destruct (y <? x)%Z; auto. rewrite reg_bound_K.
      destruct (for_values_inv K (int_range x (Z.to_nat (y - x))) e XNil HI) as (_ & _ & R).
      destruct (R eq_refl) as [->| ->]; auto.
    - destruct (for_values_inv K l e XNil HI) as (_ & _ & R).
      destruct (R eq_refl) as [->| ->]; auto.
  Qed.
  Definition shadowing (a : attempt) : Prop :=
    (exists w, a = ACall K w) \/ (exists x y, a = AForInt K x y) \/ (exists l, a = AForList K l).

  Lemma shadow_event_value : forall e s a, Inv e -> length e = 1 -> shadowing a ->
    let r := snd (run_event c e (Ev s a)) in r = Err \/ r = Ok v \/ r = Ok XNil.
  Proof.
    intros e s a HI HL Ha.
    assert (Hnd : attempt_deletes a = false) by (destruct Ha as [[w ->]|[[x [y ->]]|[l ->]]]; reflexivity).
    destruct s; simpl.
    - apply shadow_attempt_value; auto.
    - pose proof (shadow_attempt_value (empty_frame :: e) a (Inv_push e HI) Ha) as H.
      destruct (do_attempt c (empty_frame :: e) a). simpl in *. auto.
    - pose proof (shadow_attempt_value (empty_frame :: empty_frame :: e) a (Inv_push _ (Inv_push e HI)) Ha) as H.
      destruct (do_attempt c (empty_frame :: empty_frame :: e) a). simpl in *. auto.
    - pose proof (shadow_attempt_value e a HI Ha) as H.
      destruct (do_attempt_inv a e Hnd HI) as (H1 & _).
      destruct (do_attempt c e a) as [e1 r1]. simpl in *.
      destruct r1; auto; try (destruct H as [H|[H|H]]; discriminate).
      apply shadow_attempt_value; auto.
  Qed.
End INV.

(* ------------------------------------------------------------------ the statements used by props/C19.v *)

Definition root_wf (e : env) : Prop :=
  exists s, e = [mkframe s] /\ forall n up m, In (n, ORef up m) s -> m = n.

Definition event_deletes_name (K : name) (ev : event) : bool := event_deletes K ev.

Lemma root_inv : forall K v s, (forall n up m, In (n, ORef up m) s -> m = n) ->
  root_value [mkframe s] K = Some v -> Inv K v [mkframe s].
Proof.
  intros K v s Hs Hv. split.
  - simpl. unfold klook. simpl. unfold root_value in Hv. simpl in Hv.
    destruct (nlookup s K) as [[w|up m]|]; try discriminate. inversion Hv; subst. constructor.
  - constructor; auto.
Qed.

(* the binding itself: registers on or off, with or without the constant test on the register paths *)
Lemma constant_stable : forall c, ccow c = true -> strict_eq c = true -> fn_env c = true ->
  forall (K : name) (v : cval) (evs : list event) (e : env),
  constant_name K = true -> root_wf e -> root_value e K = Some v ->
  forallb (fun ev => negb (event_deletes_name K ev)) evs = true ->
  root_value (run_events c e evs) K = Some v.
Proof.
  intros c Hcow Hst Hfn K v evs e HK (s & -> & Hs) Hv Hd.
  destruct (run_events_inv K v HK c Hcow Hst Hfn evs _ Hd (root_inv K v s Hs Hv)) as (H1 & L1).
  apply Inv_root; auto.
Qed.

(* reading the name, at top level or from a nested function or loop *)
Lemma constant_read_stable : forall c, ccow c = true -> strict_eq c = true -> fn_env c = true ->
  forall (K : name) (v : cval) (evs : list event) (e : env) (s : scope),
  constant_name K = true -> root_wf e -> root_value e K = Some v ->
  forallb (fun ev => negb (event_deletes_name K ev)) evs = true ->
  snd (run_event c (run_events c e evs) (Ev s (ARead K))) = Ok v.
Proof.
  intros c Hcow Hst Hfn K v evs e sc HK (s & -> & Hs) Hv Hd.
  destruct (run_events_inv K v HK c Hcow Hst Hfn evs _ Hd (root_inv K v s Hs Hv)) as (H1 & L1).
  apply read_event_value; auto.
Qed.

(* using the name as a parameter or as a loop variable never makes it evaluate to something else: the attempt
   fails, or what the body reads is the constant's value (nil: a loop that did not iterate) *)
Lemma constant_not_shadowed : forall c, const_test c = true -> ccow c = true -> strict_eq c = true -> fn_env c = true ->
  forall (K : name) (v : cval) (evs : list event) (e : env) (s : scope) (a : attempt),
  constant_name K = true -> root_wf e -> root_value e K = Some v ->
  forallb (fun ev => negb (event_deletes_name K ev)) evs = true ->
  shadowing K a ->
  let r := snd (run_event c (run_events c e evs) (Ev s a)) in r = Err \/ r = Ok v \/ r = Ok XNil.
Proof.
  intros c Hct Hcow Hst Hfn K v evs e sc a HK (s & -> & Hs) Hv Hd Ha.
  destruct (run_events_inv K v HK c Hcow Hst Hfn evs _ Hd (root_inv K v s Hs Hv)) as (H1 & L1).
  apply (shadow_event_value K v HK c Hct Hcow Hst Hfn _ sc a H1 L1 Ha).
Qed.
