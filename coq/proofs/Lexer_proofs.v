(* Lemmas about coq/model/Lexer.v for property C16 (the lexer is lossless: tokens tile the input).

   Plan: (1) specification vocabulary; (2) side conditions on the generated tables and byte predicates,
   recomputed by vm_compute / reflexivity on every run; (3) one lemma per readX function; (4) scan_token_case:
   every result of scan_token is described by one constructor of [scan_case]; (5) next_token / lex_from
   induction: tiling, end marker; (6) the per-token theorems by inversion of scan_case; (7) interning. *)
From Coq Require Import List ZArith NArith Bool Arith Lia.
From Coq Require Import ZifyN ZifyNat ZifyBool.
From GrolGen Require Import Gen_Consts Gen_Token Gen_ByteClass.
From GrolModel Require Import Lexer.
Import ListNotations.
Local Open Scope N_scope.

(* ================================================================ 1. specification vocabulary *)

(* the bytes a token spans: input[lt_start : lt_end] *)
Definition span (s : list N) (t : ltok) : list N :=
  firstn (lt_end t - lt_start t) (skipn (lt_start t) s).

(* every position in [a, b) holds a whitespace byte of the input *)
Definition ws_only (s : list N) (a b : nat) : Prop :=
  forall i, (a <= i < b)%nat -> exists c, nth_error s i = Some c /\ isWhiteSpace c = true.

(* tokens scanned one after the other starting at position p: each starts at or after the end of the previous
   one, the bytes in between are whitespace, and no span is empty *)
Fixpoint chain (s : list N) (p : nat) (toks : list ltok) : Prop :=
  match toks with
  | [] => True
  | t :: rest =>
    (p <= lt_start t)%nat /\ ws_only s p (lt_start t) /\ (lt_start t < lt_end t)%nat /\ chain s (lt_end t) rest
  end.

Definition end_type (lineMode : bool) : Z := if lineMode then token_EOL else token_EOF.

(* hex digits, most significant first (readHex / readUnicode16 / readUnicode32) *)
Definition hex_value (h : list N) : N := fold_left (fun acc c => acc * 16 + hex_val c) h 0.

(* [str_body dq sep raw content]: raw (the bytes between the delimiters) contains no unescaped delimiter and
   decodes to content.  dq = the delimiter is the double quote (escapes are interpreted). *)
Inductive str_body (dq : bool) (sep : N) : list N -> list N -> Prop :=
| sb_nil : str_body dq sep [] []
| sb_char : forall c raw out,
    (dq && (c =? 92)) = false -> c <> sep -> str_body dq sep raw out -> str_body dq sep (c :: raw) (c :: out)
| sb_simple : forall e v raw out,
    dq = true -> assoc_byte simple_escapes e = Some v -> str_body dq sep raw out ->
    str_body dq sep (92 :: e :: raw) (v :: out)
| sb_u16 : forall h raw out,
    dq = true -> assoc_byte simple_escapes 117 = None -> length h = 4%nat -> str_body dq sep raw out ->
    str_body dq sep (92 :: 117 :: h ++ raw) (encode_rune (hex_value h) ++ out)
| sb_u32 : forall h raw out,
    dq = true -> assoc_byte simple_escapes 85 = None -> length h = 8%nat -> str_body dq sep raw out ->
    str_body dq sep (92 :: 85 :: h ++ raw) (encode_rune (hex_value h) ++ out)
| sb_hex : forall h raw out,
    dq = true -> assoc_byte simple_escapes 120 = None -> length h = 2%nat -> str_body dq sep raw out ->
    str_body dq sep (92 :: 120 :: h ++ raw) (hex_value h :: out)
| sb_other : forall e raw out,
    dq = true -> assoc_byte simple_escapes e = None -> e <> 117 -> e <> 85 -> e <> 120 ->
    str_body dq sep raw out -> str_body dq sep (92 :: e :: raw) (e :: out).

(* no closing delimiter: r (the input after an opening delimiter sep) cannot be split into a string body,
   the delimiter, and a rest *)
Definition unterminated (sep : N) (r : list N) : Prop :=
  forall raw rest content, r = raw ++ sep :: rest -> ~ str_body (sep =? 34) sep raw content.

(* "*/" occurs in l (the byte following the last one taken as not '/') *)
Fixpoint has_close (l : list N) : bool :=
  match l with
  | a :: l' => ((a =? 42) && (hd0 l' =? 47)) || has_close l'
  | [] => false
  end.

(* operator / keyword token types: strictly between endValueTokens and EOF *)
Definition is_op_type (ty : Z) : bool := (Z.ltb token_endValueTokens ty && Z.ltb ty token_EOF)%Z.

(* What NextToken did at a token start.  r = input from the token start, result (type, literal, k) with
   k = l.pos - start after the call. *)
Inductive scan_case (lm : bool) (r : list N) : Z -> list N -> nat -> Prop :=
| SC_const1 : forall ch r1 ty,
    r = ch :: r1 -> In (ty, ch) single_char_tokens -> is_op_type ty = true ->
    scan_case lm r ty [ch] 1
| SC_const2 : forall c1 c2 r2 ty,
    r = c1 :: c2 :: r2 -> In (ty, (c1, c2)) two_char_tokens -> is_op_type ty = true ->
    scan_case lm r ty [c1; c2] 2
| SC_line : forall body rest,
    r = 47 :: 47 :: body ++ rest -> Forall (fun c => c <> 10) body -> (rest = [] \/ hd0 rest = 10 /\ rest <> []) ->
    scan_case lm r token_LINECOMMENT (trim_space (47 :: 47 :: body)) (2 + length body)
| SC_block_closed : forall pre rest,
    r = 47 :: 42 :: pre ++ 42 :: 47 :: rest -> has_close (pre ++ [42]) = false ->
    scan_case lm r token_BLOCKCOMMENT (47 :: 42 :: pre ++ [42; 47]) (4 + length pre)
| SC_block_open : forall body,
    r = 47 :: 42 :: body -> has_close body = false ->
    scan_case lm r token_BLOCKCOMMENT r (length r)
| SC_string : forall q raw rest content,
    q = 34 \/ q = 96 -> r = q :: raw ++ q :: rest -> str_body (q =? 34) q raw content ->
    scan_case lm r token_STRING content (length raw + 2)
| SC_unterminated_line : forall q r1 k,
    lm = true -> q = 34 \/ q = 96 -> r = q :: r1 -> unterminated q r1 -> (length r < k)%nat ->
    scan_case lm r token_EOL [] k
| SC_unterminated_file : forall q r1,
    lm = false -> q = 34 \/ q = 96 -> r = q :: r1 -> unterminated q r1 ->
    scan_case lm r token_ILLEGAL r (length r)
| SC_end :
    r = [] -> scan_case lm r (end_type lm) [] 1
| SC_illegal : forall ch r1,
    r = ch :: r1 -> scan_case lm r token_ILLEGAL (encode_rune ch) 1
| SC_number : forall k ty,
    ty = token_INT \/ ty = token_FLOAT -> (1 <= k <= length r)%nat ->
    scan_case lm r ty (firstn k r) k
| SC_ident : forall k,
    (1 <= k <= length r)%nat ->
    scan_case lm r (lookup_ident (firstn k r)) (firstn k r) k.

(* ================================================================ 2. side conditions on generated data *)

(* the loops `for p(l.peekChar()) { l.pos++ }` terminate at the end of input: p 0 = false *)
Lemma byte_class_sane :
  isWhiteSpace 0 = false /\ IsAlphaNum 0 = false /\ isDigitOrUnderscore 0 = false /\ isHexDigit 0 = false /\
  isBinaryDigit 0 = false /\ notEOL 0 = false /\ isDigit 0 = false /\ isLetter 0 = false.
Proof. vm_compute. repeat split. Qed.

(* the token types with a special role are not operator/keyword types *)
Lemma special_types_not_op :
  forallb (fun t => negb (is_op_type t))
    [token_ILLEGAL; token_EOL; token_IDENT; token_INT; token_FLOAT; token_STRING; token_LINECOMMENT;
     token_BLOCKCOMMENT; token_EOF] = true.
Proof. vm_compute. reflexivity. Qed.

Lemma special_types_nonneg :
  forallb (fun t => Z.leb 0 t)
    [token_ILLEGAL; token_EOL; token_IDENT; token_INT; token_FLOAT; token_STRING; token_LINECOMMENT;
     token_BLOCKCOMMENT; token_EOF] = true.
Proof. vm_compute. reflexivity. Qed.

(* the bytes for which NextToken returns ConstantTokenChar(ch) *)
Definition single_starts : list N :=
  [61; 33; 58; 43; 45; 37; 42; 59; 44; 123; 125; 40; 41; 91; 93; 94; 126; 47; 124; 38; 60; 62; 46].
(* the byte pairs for which NextToken returns ConstantTokenChar2(ch, nextChar) *)
Definition double_starts : list (N * N) :=
  [(61, 61); (33, 61); (58, 61); (61, 62); (43, 43); (45, 45); (124, 124); (38, 38); (60, 60); (62, 62);
   (60, 61); (62, 61); (46, 46)].

Definition single_ok (c : N) : bool :=
  match lookup_single c with
  | Some t => existsb (fun e => Z.eqb (fst e) t && (snd e =? c)) single_char_tokens && is_op_type t && (c <=? 127)
  | None => false
  end.

Definition double_ok (p : N * N) : bool :=
  match lookup_double (fst p) (snd p) with
  | Some t => existsb (fun e => Z.eqb (fst e) t && (fst (snd e) =? fst p) && (snd (snd e) =? snd p)) two_char_tokens
              && is_op_type t && negb (snd p =? 0)
  | None => false
  end.

(* every byte / byte pair the switch of NextToken sends to a constant token has a table entry, of operator type *)
Lemma single_starts_ok : forallb single_ok single_starts = true.
Proof. vm_compute. reflexivity. Qed.

Lemma double_starts_ok : forallb double_ok double_starts = true.
Proof. vm_compute. reflexivity. Qed.

(* keyword types are operator/keyword types (so never IDENT, EOF, ...) *)
Lemma keyword_types_ok : forallb (fun e => is_op_type (snd e)) keyword_tokens = true.
Proof. vm_compute. reflexivity. Qed.

(* ================================================================ basic list facts *)

Lemma skipn_add {A} (a b : nat) (l : list A) : skipn b (skipn a l) = skipn (a + b) l.
Proof.
  revert l. induction a; intros l; cbn [skipn plus]; [reflexivity|].
  destruct l; [now rewrite skipn_nil|]. apply IHa.
Qed.

Lemma nth_error_skipn' {A} (a i : nat) (l : list A) : nth_error (skipn a l) i = nth_error l (a + i).
Proof.
  revert l. induction a; intros l; cbn [skipn plus]; [reflexivity|].
  destruct l; [now destruct i|]. apply IHa.
Qed.

Lemma hd0_nz r : hd0 r <> 0 -> exists c r', r = c :: r' /\ c = hd0 r.
Proof. destruct r as [|c r']; cbn; [congruence|]. intros _. eauto. Qed.

Lemma tl_length {A} (l : list A) : length (tl l) = (length l - 1)%nat.
Proof. destruct l; cbn; lia. Qed.

Lemma skipn_S_tl {A} n (l : list A) : skipn (S n) l = skipn n (tl l).
Proof. destruct l; cbn [skipn tl]; [now rewrite skipn_nil|reflexivity]. Qed.

Lemma skipn_cons_hd (r : list N) n c r' : skipn n r = c :: r' -> skipn (S n) r = r'.
Proof.
  intros H. replace (S n) with (n + 1)%nat by lia. rewrite <- skipn_add, H. reflexivity.
Qed.

Lemma span_len_le p r : (span_len p r <= length r)%nat.
Proof. induction r as [|c r IH]; cbn; [lia|]. destruct (p c); cbn; lia. Qed.

Lemma span_len_all p r i :
  (i < span_len p r)%nat -> exists c, nth_error r i = Some c /\ p c = true.
Proof.
  revert i. induction r as [|c r IH]; intros i; cbn; [lia|].
  destruct (p c) eqn:E; [|lia]. destruct i; cbn; [eauto|]. intros. apply IH. lia.
Qed.

Lemma span_len_stop p r :
  skipn (span_len p r) r = [] \/ exists c r', skipn (span_len p r) r = c :: r' /\ p c = false.
Proof.
  induction r as [|c r IH]; cbn; [now left|].
  destruct (p c) eqn:E; cbn [skipn]; [exact IH|]. right. eauto.
Qed.

Lemma span_len_split p r :
  r = firstn (span_len p r) r ++ skipn (span_len p r) r /\
  Forall (fun c => p c = true) (firstn (span_len p r) r) /\
  length (firstn (span_len p r) r) = span_len p r.
Proof.
  split; [now rewrite firstn_skipn|]. split.
  - induction r as [|c r IH]; cbn; [constructor|]. destruct (p c) eqn:E; cbn; [|constructor].
    constructor; assumption.
  - rewrite firstn_length. pose proof (span_len_le p r). lia.
Qed.

Lemma one_of_forallb ch l P : one_of ch l = true -> forallb P l = true -> P ch = true.
Proof.
  unfold one_of. rewrite existsb_exists, forallb_forall. intros [x [Hin Hx]] H.
  apply N.eqb_eq in Hx. subst. auto.
Qed.

Lemma is_op_type_not_special ty :
  is_op_type ty = true ->
  ty <> token_ILLEGAL /\ ty <> token_EOL /\ ty <> token_IDENT /\ ty <> token_INT /\ ty <> token_FLOAT /\
  ty <> token_STRING /\ ty <> token_LINECOMMENT /\ ty <> token_BLOCKCOMMENT /\ ty <> token_EOF /\ (0 <= ty)%Z.
Proof.
  intros H. pose proof special_types_not_op as S. cbn [forallb] in S.
  repeat (apply andb_prop in S; destruct S as [?S0 S]).
  repeat split; try (intros ->; rewrite H in *; discriminate).
  unfold is_op_type in H. apply andb_prop in H. destruct H as [H _].
  assert (0 <= token_endValueTokens)%Z by (vm_compute; discriminate). lia.
Qed.
(* ================================================================ 3. the switch of NextToken *)
Definition classify_post (ch nx : N) (e : bool) (k : tkind) : Prop :=
  match k with
  | KConst1 => one_of ch single_starts = true
  | KConst2 => existsb (fun p => (fst p =? ch) && (snd p =? nx)) double_starts = true
  | KLineComment => ch = 47 /\ nx = 47
  | KBlockComment => ch = 47 /\ nx = 42
  | KString => ch = 34 \/ ch = 96
  | KEnd => e = true /\ ch = 0
  | KNul => e = false /\ ch = 0
  | KNumber => ch <> 0 /\ (ch = 46 /\ isDigit nx = true \/ isDigit ch = true)
  | KIdent => ch <> 0 /\ isLetter ch = true
  | KIllegal => ch <> 0
  end.

Ltac eq_hyps := repeat match goal with
  | H : (_ && _) = true |- _ => apply andb_prop in H; destruct H
  | H : (_ =? _) = true |- _ => apply N.eqb_eq in H
  | H : (_ =? _) = false |- _ => apply N.eqb_neq in H
  | H : negb _ = true |- _ => apply negb_true_iff in H
  | H : negb _ = false |- _ => apply negb_false_iff in H
  end.

(* leaf KConst1: ch is in a sublist of single_starts *)
Ltac leaf1 H := cbn [classify_post]; exact (one_of_forallb _ _ (fun x => one_of x single_starts) H eq_refl).
(* leaf KConst2 with the second byte fixed to c2 *)
Ltac leaf2 H c2 := cbn [classify_post];
  exact (one_of_forallb _ _ (fun x => existsb (fun p => (fst p =? x) && (snd p =? c2)) double_starts) H eq_refl).
(* leaf KConst2 with the second byte equal to the first *)
Ltac leaf2same H := cbn [classify_post];
  exact (one_of_forallb _ _ (fun x => existsb (fun p => (fst p =? x) && (snd p =? x)) double_starts) H eq_refl).

Lemma classify_spec ch nx e : classify_post ch nx e (classify ch nx e).
Proof.
  unfold classify.
  destruct (one_of ch [61; 33; 58]) eqn:H1.
  { destruct (nx =? 61) eqn:H2; [eq_hyps; subst nx; leaf2 H1 61|].
    destruct ((nx =? 62) && (ch =? 61)) eqn:H3; [eq_hyps; subst; reflexivity|]. leaf1 H1. }
  destruct (one_of ch [43; 45]) eqn:H2.
  { destruct (nx =? ch) eqn:H3; [eq_hyps; subst nx; leaf2same H2|leaf1 H2]. }
  destruct (one_of ch [37; 42; 59; 44; 123; 125; 40; 41; 91; 93; 94; 126]) eqn:H3; [leaf1 H3|].
  destruct (ch =? 47) eqn:H4.
  { eq_hyps; subst ch. destruct (nx =? 47) eqn:H5; [eq_hyps; now subst|].
    destruct (nx =? 42) eqn:H6; [eq_hyps; now subst|]. reflexivity. }
  destruct (one_of ch [124; 38]) eqn:H5.
  { destruct (nx =? ch) eqn:H6; [eq_hyps; subst nx; leaf2same H5|leaf1 H5]. }
  destruct (one_of ch [60; 62]) eqn:H6.
  { destruct (nx =? ch) eqn:H7; [eq_hyps; subst nx; leaf2same H6|].
    destruct (nx =? 61) eqn:H8; [eq_hyps; subst nx; leaf2 H6 61|leaf1 H6]. }
  destruct (one_of ch [34; 96]) eqn:H7.
  { cbn [classify_post]. unfold one_of in H7. cbn [existsb] in H7.
    destruct (N.eqb_spec ch 34); [now left|]. destruct (N.eqb_spec ch 96); [now right|]. discriminate. }
  destruct (ch =? 0) eqn:H8.
  { eq_hyps. destruct e; cbn; auto. }
  eq_hyps.
  destruct (ch =? 46) eqn:H9.
  { eq_hyps; subst ch. destruct (nx =? 46) eqn:H10; [eq_hyps; now subst|].
    destruct (negb (isDigit nx)) eqn:H11; [reflexivity|]. eq_hyps. cbn. split; [lia|]. left; auto. }
  destruct (isLetter ch) eqn:H10; [cbn; auto|].
  destruct (isDigit ch) eqn:H11; cbn; auto.
Qed.
(* ================================================================ 4. one lemma per reader *)
Lemma go_slice_ok r k : (k <= length r)%nat -> go_slice r k = Some (firstn k r).
Proof. intros H. unfold go_slice. apply Nat.leb_le in H. now rewrite H. Qed.

Lemma const1_spec ch :
  one_of ch single_starts = true ->
  exists ty, const1 ch = (ty, [ch]) /\ In (ty, ch) single_char_tokens /\ is_op_type ty = true.
Proof.
  intros H. pose proof (one_of_forallb _ _ single_ok H single_starts_ok) as K.
  unfold single_ok in K. unfold const1. destruct (lookup_single ch) as [t|]; [|discriminate].
  apply andb_prop in K. destruct K as [K K3]. apply andb_prop in K. destruct K as [K1 K2].
  exists t. split; [|split; [|exact K2]].
  - unfold encode_rune. now rewrite K3.
  - apply existsb_exists in K1. destruct K1 as [[t' c'] [Hin He]]. cbn [fst snd] in He.
    apply andb_prop in He. destruct He as [He1 He2]. apply Z.eqb_eq in He1. apply N.eqb_eq in He2. now subst.
Qed.

Lemma const2_spec c1 c2 :
  existsb (fun p => (fst p =? c1) && (snd p =? c2)) double_starts = true ->
  exists ty, const2 c1 c2 = (ty, [c1; c2]) /\ In (ty, (c1, c2)) two_char_tokens /\ is_op_type ty = true /\ c2 <> 0.
Proof.
  intros H. apply existsb_exists in H. destruct H as [[a b] [Hin He]]. cbn [fst snd] in He.
  apply andb_prop in He. destruct He as [He1 He2]. apply N.eqb_eq in He1. apply N.eqb_eq in He2. subst a b.
  pose proof double_starts_ok as K. rewrite forallb_forall in K. specialize (K _ Hin).
  unfold double_ok in K. cbn [fst snd] in K. unfold const2.
  destruct (lookup_double c1 c2) as [t|]; [|discriminate].
  apply andb_prop in K. destruct K as [K K3]. apply andb_prop in K. destruct K as [K1 K2].
  exists t. split; [reflexivity|]. split; [|split; [exact K2|]].
  - apply existsb_exists in K1. destruct K1 as [[t' [a b]] [Hin' He]]. cbn [fst snd] in He.
    apply andb_prop in He. destruct He as [He He3]. apply andb_prop in He. destruct He as [He1 He2].
    apply Z.eqb_eq in He1. apply N.eqb_eq in He2. apply N.eqb_eq in He3. now subst.
  - apply negb_true_iff in K3. now apply N.eqb_neq in K3.
Qed.

(* ---- line comments *)
Lemma in_line_comment_47 : in_line_comment 47 = true. Proof. vm_compute. reflexivity. Qed.
Lemma in_line_comment_10 : in_line_comment 10 = false. Proof. vm_compute. reflexivity. Qed.
(* depends on the shape of the generated notEOL: the loop of readLineComment stops only at a newline *)
Lemma in_line_comment_false c : in_line_comment c = false -> c = 10.
Proof.
  unfold in_line_comment, notEOL.
  destruct (N.eqb_spec c 10); [auto|]. destruct (N.eqb_spec c 0); cbn; discriminate.
Qed.

Lemma read_line_comment_spec r2 :
  exists body rest,
    r2 = body ++ rest /\ Forall (fun c => c <> 10) body /\ (rest = [] \/ hd0 rest = 10 /\ rest <> []) /\
    read_line_comment (47 :: 47 :: r2) = (Some (trim_space (47 :: 47 :: body)), (2 + length body)%nat).
Proof.
  set (n := span_len in_line_comment r2).
  exists (firstn n r2), (skipn n r2).
  destruct (span_len_split in_line_comment r2) as [E [A L]]. fold n in E, A, L.
  split; [exact E|]. split; [|split].
  - eapply Forall_impl; [|exact A]. cbn. intros c Hc ->. rewrite in_line_comment_10 in Hc. discriminate.
  - destruct (span_len_stop in_line_comment r2) as [S|[c [r' [S Hc]]]]; fold n in S; [now left|].
    right. rewrite S. cbn. split; [now apply in_line_comment_false|discriminate].
  - unfold read_line_comment. cbn [tl span_len]. rewrite in_line_comment_47. fold n.
    rewrite go_slice_ok by (cbn [length]; pose proof (span_len_le in_line_comment r2); fold n in H; lia).
    cbn [option_map firstn]. rewrite L. reflexivity.
Qed.

Lemma firstn_exact {A} (a b : list A) : firstn (length a) (a ++ b) = a.
Proof. rewrite firstn_app, Nat.sub_diag, firstn_all. cbn. apply app_nil_r. Qed.

(* ---- block comments *)
Lemma hd0_app_cons (a : list N) x y : hd0 (a ++ x :: y) = hd0 (a ++ [x]).
Proof. destruct a; reflexivity. Qed.

Lemma block_scan_spec r :
  match block_scan r with
  | (n, true) => exists pre rest, r = pre ++ 42 :: 47 :: rest /\ has_close (pre ++ [42]) = false /\ n = S (length pre)
  | (n, false) => has_close r = false /\ n = S (length r)
  end.
Proof.
  induction r as [|ch r IH]; cbn [block_scan]; [split; reflexivity|].
  destruct ((ch =? 42) && (hd0 r =? 47)) eqn:E.
  - apply andb_prop in E. destruct E as [E1 E2]. apply N.eqb_eq in E1. apply N.eqb_eq in E2.
    destruct r as [|c r]; cbn in E2; [discriminate|]. subst.
    exists [], r. repeat split.
  - destruct (block_scan r) as [n [|]].
    + destruct IH as [pre [rest [-> [Hc ->]]]]. exists (ch :: pre), rest. repeat split.
      cbn [app has_close]. rewrite Hc. rewrite hd0_app_cons in E. now rewrite E.
    + destruct IH as [Hc ->]. cbn [has_close length]. rewrite Hc, E. split; reflexivity.
Qed.

Lemma read_block_comment_spec r2 :
  (exists pre rest, r2 = pre ++ 42 :: 47 :: rest /\ has_close (pre ++ [42]) = false /\
     read_block_comment (47 :: 42 :: r2) = (Some (47 :: 42 :: pre ++ [42; 47]), (4 + length pre)%nat)) \/
  (has_close r2 = false /\
     read_block_comment (47 :: 42 :: r2) = (Some (47 :: 42 :: r2), length (47 :: 42 :: r2))).
Proof.
  unfold read_block_comment. cbn [tl]. pose proof (block_scan_spec r2) as B.
  destruct (block_scan r2) as [n [|]].
  - left. destruct B as [pre [rest [-> [Hc ->]]]]. exists pre, rest. repeat split; [exact Hc|].
    replace (47 :: 42 :: pre ++ 42 :: 47 :: rest) with ((47 :: 42 :: pre ++ [42; 47]) ++ rest)
      by (cbn [app]; rewrite <- app_assoc; reflexivity).
    assert (L : S (2 + S (length pre)) = length (47 :: 42 :: pre ++ [42; 47])).
    { cbn [length]. rewrite app_length. cbn [length]. lia. }
    rewrite L. rewrite go_slice_ok by (rewrite app_length; lia).
    rewrite firstn_exact. f_equal. rewrite <- L. lia.
  - right. destruct B as [Hc ->]. split; [exact Hc|].
    cbn [plus Nat.pred length]. rewrite go_slice_ok by (cbn [length]; lia).
    f_equal. f_equal. change (47 :: 42 :: r2) with ([47; 42] ++ r2) at 1.
    rewrite firstn_all2; [reflexivity|cbn [length app]; lia].
Qed.
(* ---- strings *)
Definition hex_step (acc c : N) : N := acc * 16 + hex_val c.

Lemma hex_value_eq h : hex_value h = fold_left hex_step h 0.
Proof. reflexivity. Qed.

Lemma read_hex_skipn n : forall r acc, snd (read_hex n r acc) = skipn n r.
Proof.
  induction n; intros r acc; cbn [read_hex]; [reflexivity|].
  rewrite IHn. symmetry. apply skipn_S_tl.
Qed.

Lemma read_hex_app h : forall x acc, read_hex (length h) (h ++ x) acc = (fold_left hex_step h acc, x).
Proof.
  induction h as [|c h IH]; intros x acc; cbn [length read_hex app]; [reflexivity|].
  cbn [tl hd0]. rewrite IH. reflexivity.
Qed.

(* when enough bytes remain, read_hex n decodes the next n bytes *)
Lemma read_hex_enough n r acc :
  skipn n r <> [] ->
  exists h, length h = n /\ r = h ++ skipn n r /\ read_hex n r acc = (fold_left hex_step h acc, skipn n r).
Proof.
  intros H. exists (firstn n r).
  assert (L : (n < length r)%nat).
  { destruct (le_lt_dec (length r) n) as [Hle|]; [|assumption]. now rewrite skipn_all2 in H. }
  assert (L2 : length (firstn n r) = n) by (rewrite firstn_length; lia).
  split; [exact L2|]. split; [now rewrite firstn_skipn|].
  rewrite <- (firstn_skipn n r) at 1. rewrite <- L2 at 1. apply read_hex_app.
Qed.

Lemma read_string_sound : forall fuel dq sep r buf k out ok k',
  read_string fuel dq sep r buf k = Some (out, ok, k') ->
  if ok then exists raw rest content,
         r = raw ++ sep :: rest /\ str_body dq sep raw content /\ out = buf ++ content /\
         k' = (k + length raw + 1)%nat
  else (k + length r < k')%nat.
Proof.
  induction fuel as [|f IH]; intros dq sep r buf k out ok k' H; [discriminate|].
  cbn [read_string] in H. destruct r as [|ch r1].
  { inversion H; subst. cbn [length]. lia. }
  destruct (dq && (ch =? 92)) eqn:Eesc.
  - apply andb_prop in Eesc. destruct Eesc as [Edq Ech]. apply N.eqb_eq in Ech. subst ch dq.
    destruct (assoc_byte simple_escapes (hd0 r1)) as [v|] eqn:Ea.
    { apply IH in H. destruct ok.
      - destruct H as [raw [rest [content [E [B [O K]]]]]].
        destruct r1 as [|e r2]; [cbn [tl] in E; now destruct raw|]. cbn [tl hd0] in *. subst r2.
        exists (92 :: e :: raw), rest, (v :: content). repeat split.
        + now apply sb_simple.
        + rewrite O, <- app_assoc. reflexivity.
        + cbn [length]. lia.
      - cbn [length]. rewrite tl_length in H. lia. }
    destruct (hd0 r1 =? 117) eqn:E117.
    { apply N.eqb_eq in E117. destruct (hd0_nz r1) as [c [r2 [-> Hc]]]; [rewrite E117; discriminate|].
      cbn [hd0 tl] in *. subst c.
      pose proof (read_hex_skipn 4 r2 0) as S4. destruct (read_hex 4 r2 0) as [v r3] eqn:Eh. cbn [snd] in S4. subst r3.
      apply IH in H. destruct ok.
      - destruct H as [raw [rest [content [E [B [O K]]]]]].
        destruct (read_hex_enough 4 r2 0) as [h [Lh [Er2 Rh]]]; [rewrite E; now destruct raw|].
        rewrite Eh in Rh. inversion Rh; subst v.
        exists (92 :: 117 :: h ++ raw), rest, (encode_rune (hex_value h) ++ content). repeat split.
        + rewrite Er2, E. cbn [app]. now rewrite <- app_assoc.
        + now apply sb_u16.
        + rewrite O, <- app_assoc. reflexivity.
        + cbn [length]. rewrite app_length. lia.
      - cbn [length]. rewrite skipn_length in H. lia. }
    destruct (hd0 r1 =? 85) eqn:E85.
    { apply N.eqb_eq in E85. destruct (hd0_nz r1) as [c [r2 [-> Hc]]]; [rewrite E85; discriminate|].
      cbn [hd0 tl] in *. subst c.
      pose proof (read_hex_skipn 8 r2 0) as S8. destruct (read_hex 8 r2 0) as [v r3] eqn:Eh. cbn [snd] in S8. subst r3.
      apply IH in H. destruct ok.
      - destruct H as [raw [rest [content [E [B [O K]]]]]].
        destruct (read_hex_enough 8 r2 0) as [h [Lh [Er2 Rh]]]; [rewrite E; now destruct raw|].
        rewrite Eh in Rh. inversion Rh; subst v.
        exists (92 :: 85 :: h ++ raw), rest, (encode_rune (hex_value h) ++ content). repeat split.
        + rewrite Er2, E. cbn [app]. now rewrite <- app_assoc.
        + now apply sb_u32.
        + rewrite O, <- app_assoc. reflexivity.
        + cbn [length]. rewrite app_length. lia.
      - cbn [length]. rewrite skipn_length in H. lia. }
    destruct (hd0 r1 =? 120) eqn:E120.
    { apply N.eqb_eq in E120. destruct (hd0_nz r1) as [c [r2 [-> Hc]]]; [rewrite E120; discriminate|].
      cbn [hd0 tl] in *. subst c.
      pose proof (read_hex_skipn 2 r2 0) as S2. destruct (read_hex 2 r2 0) as [v r3] eqn:Eh. cbn [snd] in S2. subst r3.
      apply IH in H. destruct ok.
      - destruct H as [raw [rest [content [E [B [O K]]]]]].
        destruct (read_hex_enough 2 r2 0) as [h [Lh [Er2 Rh]]]; [rewrite E; now destruct raw|].
        rewrite Eh in Rh. inversion Rh; subst v.
        exists (92 :: 120 :: h ++ raw), rest, (hex_value h :: content). repeat split.
        + rewrite Er2, E. cbn [app]. now rewrite <- app_assoc.
        + now apply sb_hex.
        + rewrite O, <- app_assoc. reflexivity.
        + cbn [length]. rewrite app_length. lia.
      - cbn [length]. rewrite skipn_length in H. lia. }
    apply IH in H. destruct ok.
    + destruct H as [raw [rest [content [E [B [O K]]]]]].
      destruct r1 as [|e r2]; [cbn [tl] in E; now destruct raw|]. cbn [tl hd0] in *. subst r2.
      apply N.eqb_neq in E117. apply N.eqb_neq in E85. apply N.eqb_neq in E120.
      exists (92 :: e :: raw), rest, (e :: content). repeat split.
      * now apply sb_other.
      * rewrite O, <- app_assoc. reflexivity.
      * cbn [length]. lia.
    + cbn [length]. rewrite tl_length in H. lia.
  - destruct (ch =? sep) eqn:Esep.
    + apply N.eqb_eq in Esep. inversion H; subst.
      exists [], r1, []. repeat split; [constructor|now rewrite app_nil_r|cbn [length]; lia].
    + apply N.eqb_neq in Esep. apply IH in H. destruct ok.
      * destruct H as [raw [rest [content [E [B [O K]]]]]]. subst r1.
        exists (ch :: raw), rest, (ch :: content). repeat split.
        -- now apply sb_char.
        -- rewrite O, <- app_assoc. reflexivity.
        -- cbn [length]. lia.
      * cbn [length]. lia.
Qed.

Lemma read_string_complete dq sep raw content :
  sep <> 92 -> str_body dq sep raw content ->
  forall fuel rest buf k, (length raw < fuel)%nat ->
  read_string fuel dq sep (raw ++ sep :: rest) buf k = Some (buf ++ content, true, (k + length raw + 1)%nat).
Proof.
  intros Hsep B. induction B; intros fuel rest buf k Hf; (destruct fuel as [|f]; [lia|]); cbn [read_string app].
  - assert (E : (dq && (sep =? 92)) = false).
    { apply N.eqb_neq in Hsep. rewrite Hsep. apply andb_false_r. }
    rewrite E, N.eqb_refl, app_nil_r. cbn [length]. do 3 f_equal. lia.
  - rewrite H. apply N.eqb_neq in H0. rewrite H0. rewrite IHB by (cbn [length] in Hf; lia).
    rewrite <- app_assoc. cbn [length app]. do 3 f_equal. lia.
  - subst dq. cbn [andb hd0 tl]. rewrite N.eqb_refl, H0.
    rewrite IHB by (cbn [length] in Hf; lia). rewrite <- app_assoc. cbn [length app]. do 3 f_equal. lia.
  - subst dq. cbn [andb hd0 tl]. rewrite N.eqb_refl, H0. cbn [N.eqb Pos.eqb].
    rewrite <- app_assoc, <- H1, read_hex_app.
    rewrite IHB by (cbn [length] in Hf; rewrite app_length in Hf; lia).
    rewrite <- app_assoc. cbn [length]. rewrite app_length. do 3 f_equal. lia.
  - subst dq. cbn [andb hd0 tl]. rewrite N.eqb_refl, H0. cbn [N.eqb Pos.eqb].
    rewrite <- app_assoc, <- H1, read_hex_app.
    rewrite IHB by (cbn [length] in Hf; rewrite app_length in Hf; lia).
    rewrite <- app_assoc. cbn [length]. rewrite app_length. do 3 f_equal. lia.
  - subst dq. cbn [andb hd0 tl]. rewrite N.eqb_refl, H0. cbn [N.eqb Pos.eqb].
    rewrite <- app_assoc, <- H1, read_hex_app.
    rewrite IHB by (cbn [length] in Hf; rewrite app_length in Hf; lia).
    rewrite <- app_assoc. cbn [length app]. rewrite app_length. do 3 f_equal. lia.
  - subst dq. cbn [andb hd0 tl]. rewrite N.eqb_refl, H0.
    apply N.eqb_neq in H1. apply N.eqb_neq in H2. apply N.eqb_neq in H3. rewrite H1, H2, H3.
    rewrite IHB by (cbn [length] in Hf; lia). rewrite <- app_assoc. cbn [length app]. do 3 f_equal. lia.
Qed.

Lemma read_string_fuel : forall fuel dq sep r buf k,
  (length r < fuel)%nat -> read_string fuel dq sep r buf k <> None.
Proof.
  induction fuel as [|f IH]; intros dq sep r buf k Hf; [lia|].
  cbn [read_string]. destruct r as [|ch r1]; [discriminate|]. cbn [length] in Hf.
  assert (T : (length (tl r1) < f)%nat) by (rewrite tl_length; lia).
  assert (S : forall n v r3, read_hex n (tl r1) 0 = (v, r3) -> (length r3 < f)%nat).
  { intros n v r3 E. pose proof (read_hex_skipn n (tl r1) 0) as K. rewrite E in K. cbn [snd] in K. subst r3.
    rewrite skipn_length. lia. }
  destruct (dq && (ch =? 92)).
  - destruct (assoc_byte simple_escapes (hd0 r1)); [now apply IH|].
    destruct (hd0 r1 =? 117). { destruct (read_hex 4 (tl r1) 0) eqn:E. apply IH. eapply S; eauto. }
    destruct (hd0 r1 =? 85). { destruct (read_hex 8 (tl r1) 0) eqn:E. apply IH. eapply S; eauto. }
    destruct (hd0 r1 =? 120). { destruct (read_hex 2 (tl r1) 0) eqn:E. apply IH. eapply S; eauto. }
    now apply IH.
  - destruct (ch =? sep); [discriminate|]. apply IH. lia.
Qed.
(* ---- numbers *)
Lemma hd0_len r c : hd0 r = c -> c <> 0 -> (1 <= length r)%nat.
Proof. destruct r; cbn; intros; [congruence|lia]. Qed.

Lemma eqb_len r c : (hd0 r =? c) = true -> c <> 0 -> (1 <= length r)%nat.
Proof. intros H. apply N.eqb_eq in H. now apply hd0_len. Qed.

Lemma read_number_spec ch r1 :
  let '(ty, lit, k) := read_number ch (ch :: r1) in
  (ty = token_INT \/ ty = token_FLOAT) /\ (1 <= k <= length (ch :: r1))%nat /\ lit = Some (firstn k (ch :: r1)).
Proof.
  unfold read_number. cbn [tl]. cbv zeta. set (r := ch :: r1).
  assert (L : length r = S (length r1)) by reflexivity.
  assert (T0 : (if ch =? 46 then token_FLOAT else token_INT) = token_INT \/
               (if ch =? 46 then token_FLOAT else token_INT) = token_FLOAT) by (destruct (ch =? 46); auto).
  destruct ((ch =? 48) && (hd0 r1 =? 120)) eqn:Ehex.
  { apply andb_prop in Ehex. destruct Ehex as [_ E]. apply eqb_len in E; [|discriminate].
    pose proof (span_len_le isHexDigit (tl r1)) as S. rewrite tl_length in S.
    cbv beta iota. split; [exact T0|]. split; [lia|]. apply go_slice_ok. lia. }
  destruct ((ch =? 48) && (hd0 r1 =? 98)) eqn:Ebin.
  { apply andb_prop in Ebin. destruct Ebin as [_ E]. apply eqb_len in E; [|discriminate].
    pose proof (span_len_le isBinaryDigit (tl r1)) as S. rewrite tl_length in S.
    cbv beta iota. split; [exact T0|]. split; [lia|]. apply go_slice_ok. lia. }
  set (n1 := span_len isDigitOrUnderscore r1).
  assert (N1 : (n1 <= length r1)%nat) by apply span_len_le.
  set (r2 := skipn (S n1) r).
  assert (L2 : length r2 = (length r - S n1)%nat) by apply skipn_length.
  destruct ((hd0 r2 =? 46) && (ch =? 46)) eqn:Edot2.
  { cbv beta iota. split; [exact T0|]. split; [lia|]. apply go_slice_ok. lia. }
  set (frac := if hd0 r2 =? 46 then _ else _).
  assert (F : let '(t1, _, k2) := frac in (t1 = token_INT \/ t1 = token_FLOAT) /\ (S n1 <= k2 <= length r)%nat).
  { subst frac. destruct (hd0 r2 =? 46) eqn:E46.
    - apply eqb_len in E46; [|discriminate].
      pose proof (span_len_le isDigitOrUnderscore (tl r2)) as S. rewrite tl_length in S.
      split; [now right|]. lia.
    - split; [exact T0|]. lia. }
  destruct frac as [[t1 hasDigits2] k2]. destruct F as [T1 K2].
  set (r3 := skipn k2 r).
  assert (L3 : length r3 = (length r - k2)%nat) by apply skipn_length.
  destruct (negb ((hd0 r3 =? 101) || (hd0 r3 =? 69))) eqn:Eexp.
  { cbv beta iota. split; [exact T1|]. split; [lia|]. apply go_slice_ok. lia. }
  destruct (negb hasDigits2).
  { cbv beta iota. split; [exact T1|]. split; [lia|]. apply go_slice_ok. lia. }
  apply negb_false_iff in Eexp.
  assert (P3 : (1 <= length r3)%nat).
  { apply orb_prop in Eexp. destruct Eexp as [E|E]; apply eqb_len in E; auto; discriminate. }
  set (r4 := tl r3).
  assert (L4 : length r4 = (length r3 - 1)%nat) by apply tl_length.
  set (sgn := (hd0 r4 =? 43) || (hd0 r4 =? 45)).
  set (r5 := if sgn then tl r4 else r4).
  destruct (negb (isDigit (hd0 r5))).
  { cbv beta iota. split; [exact T1|]. split; [lia|]. apply go_slice_ok. lia. }
  assert (L5 : (length r5 + (if sgn then 1 else 0) <= length r4)%nat).
  { subst r5. destruct sgn eqn:Es; [|lia]. subst sgn.
    assert (1 <= length r4)%nat.
    { apply orb_prop in Es. destruct Es as [E|E]; apply eqb_len in E; auto; discriminate. }
    rewrite tl_length. lia. }
  pose proof (span_len_le isDigitOrUnderscore r5) as S5.
  cbv beta iota. split; [now right|]. split; [lia|]. apply go_slice_ok. lia.
Qed.

Lemma read_identifier_spec ch r1 :
  exists k, (1 <= k <= length (ch :: r1))%nat /\ read_identifier (ch :: r1) = (Some (firstn k (ch :: r1)), k).
Proof.
  unfold read_identifier. cbn [tl]. pose proof (span_len_le IsAlphaNum r1) as Hs.
  exists (S (span_len IsAlphaNum r1)). split; [cbn [length]; lia|].
  rewrite go_slice_ok by (cbn [length]; lia). reflexivity.
Qed.

(* ================================================================ 5. NextToken at a token start *)
Lemma scan_token_case lm r :
  let '(ty, lit, k) := scan_token lm r in scan_case lm r ty lit k.
Proof.
  unfold scan_token. destruct r as [|ch r1].
  { cbn [hd0 tl is_nil]. change (classify 0 0 true) with KEnd. cbv iota.
    change (if lm then token_EOL else token_EOF) with (end_type lm). now apply SC_end. }
  cbn [hd0 tl is_nil]. pose proof (classify_spec ch (hd0 r1) false) as C.
  destruct (classify ch (hd0 r1) false); cbn [classify_post] in C.
  - (* KConst1 *)
    destruct (const1_spec ch C) as [ty [E [Hin Hop]]]. rewrite E. now apply (SC_const1 lm _ ch r1 ty).
  - (* KConst2 *)
    destruct (const2_spec ch (hd0 r1) C) as [ty [E [Hin [Hop Hnz]]]]. rewrite E.
    destruct (hd0_nz r1 Hnz) as [c [r2 [-> Hc]]]. cbn [hd0] in *. now apply (SC_const2 lm _ ch c r2 ty).
  - (* line comment *)
    destruct C as [-> C2]. destruct (hd0_nz r1) as [c [r2 [-> Hc]]]; [rewrite C2; discriminate|].
    cbn [hd0] in C2. subst c.
    destruct (read_line_comment_spec r2) as [body [rest [E [Hb [Hr R]]]]]. rewrite R. cbn [with_lit].
    rewrite E. now apply (SC_line lm _ body rest).
  - (* block comment *)
    destruct C as [-> C2]. destruct (hd0_nz r1) as [c [r2 [-> Hc]]]; [rewrite C2; discriminate|].
    cbn [hd0] in C2. subst c.
    destruct (read_block_comment_spec r2) as [[pre [rest [E [Hcl R]]]]|[Hcl R]]; rewrite R; cbn [with_lit].
    + rewrite E. now apply (SC_block_closed lm _ pre rest).
    + now apply (SC_block_open lm _ r2).
  - (* string *)
    assert (Hsep : ch <> 92) by (destruct C; subst; discriminate).
    pose proof (read_string_fuel (S (length r1)) (ch =? 34) ch r1 [] 1 (Nat.lt_succ_diag_r _)) as Hf.
    destruct (read_string (S (length r1)) (ch =? 34) ch r1 [] 1) as [[[str ok] k]|] eqn:R; [|congruence].
    pose proof (read_string_sound _ _ _ _ _ _ _ _ _ R) as S. destruct ok.
    + destruct S as [raw [rest [content [E [B [O K]]]]]]. cbn [app] in O. subst str r1.
      replace k with (length raw + 2)%nat by lia. now apply (SC_string lm _ ch raw rest content).
    + assert (U : unterminated ch r1).
      { intros raw rest content E B. subst r1.
        rewrite (read_string_complete _ _ _ _ Hsep B) in R by (rewrite app_length; cbn [length]; lia).
        discriminate. }
      destruct lm.
      * apply (SC_unterminated_line true _ ch r1 k); auto.
      * now apply (SC_unterminated_file false _ ch r1).
  - (* KEnd: impossible, the input is not exhausted *)
    destruct C; discriminate.
  - (* NUL byte *)
    now apply (SC_illegal lm _ ch r1).
  - (* number *)
    pose proof (read_number_spec ch r1) as R. destruct (read_number ch (ch :: r1)) as [[ty lit] k].
    destruct R as [T [K ->]]. cbn [with_lit]. now apply SC_number.
  - (* identifier *)
    destruct (read_identifier_spec ch r1) as [k [K R]]. rewrite R. now apply SC_ident.
  - (* other byte *)
    now apply (SC_illegal lm _ ch r1).
Qed.
(* ================================================================ 6. next_token, lex_all: tiling and end marker *)
Definition is_end_ty (ty : Z) : bool := Z.eqb ty token_EOF || Z.eqb ty token_EOL.

Lemma is_end_unfold t : is_end t = is_end_ty (lt_type t).
Proof. reflexivity. Qed.

Lemma is_op_type_not_end ty : is_op_type ty = true -> is_end_ty ty = false /\ (0 <= ty)%Z.
Proof.
  intros H. destruct (is_op_type_not_special ty H) as (_ & A & _ & _ & _ & _ & _ & _ & B & C).
  split; [|exact C]. unfold is_end_ty. apply Z.eqb_neq in A. apply Z.eqb_neq in B. now rewrite A, B.
Qed.

Lemma lookup_keyword_in_spec tbl w t : lookup_keyword_in tbl w = Some t -> exists k, In (k, t) tbl /\ bytes_eqb k w = true.
Proof.
  induction tbl as [|[k t'] tbl IH]; cbn [lookup_keyword_in]; [discriminate|].
  destruct (bytes_eqb k w) eqn:E.
  - intros H. inversion H; subst. exists k. split; [now left|exact E].
  - intros H. destruct (IH H) as [k' [Hin Hk]]. exists k'. split; [now right|exact Hk].
Qed.

Lemma lookup_ident_type w : lookup_ident w = token_IDENT \/ is_op_type (lookup_ident w) = true.
Proof.
  unfold lookup_ident, lookup_keyword. destruct (lookup_keyword_in keyword_tokens w) as [t|] eqn:E; [|now left].
  right. apply lookup_keyword_in_spec in E. destruct E as [k [Hin _]].
  pose proof keyword_types_ok as K. rewrite forallb_forall in K. exact (K _ Hin).
Qed.

Lemma lookup_ident_not_end w : is_end_ty (lookup_ident w) = false /\ (0 <= lookup_ident w)%Z.
Proof.
  destruct (lookup_ident_type w) as [E|E]; [rewrite E; vm_compute; split; [reflexivity|discriminate]|].
  now apply is_op_type_not_end.
Qed.

(* what is under a token returned by NextToken, by end marker or not *)
Definition end_cond (lm : bool) (r : list N) : Prop :=
  r = [] \/ lm = true /\ exists q r1, r = q :: r1 /\ (q = 34 \/ q = 96) /\ unterminated q r1.

Lemma scan_case_facts lm r ty lit k :
  scan_case lm r ty lit k ->
  (1 <= k)%nat /\ (0 <= ty)%Z /\
  if is_end_ty ty then ty = end_type lm /\ lit = [] /\ (length r < k)%nat /\ end_cond lm r
  else (k <= length r)%nat.
Proof.
  intros H. destruct H.
  - destruct (is_op_type_not_end _ H1) as [-> ?]. subst r. cbv iota. cbn [length]. repeat split; auto; lia.
  - destruct (is_op_type_not_end _ H1) as [-> ?]. subst r. cbv iota. cbn [length]. repeat split; auto; lia.
  - subst r. change (is_end_ty token_LINECOMMENT) with false. cbv iota. cbn [length]. rewrite app_length.
    repeat split; try lia. vm_compute; discriminate.
  - subst r. change (is_end_ty token_BLOCKCOMMENT) with false. cbv iota. cbn [length]. rewrite app_length. cbn [length].
    repeat split; try lia. vm_compute; discriminate.
  - subst r. change (is_end_ty token_BLOCKCOMMENT) with false. cbv iota. cbn [length].
    repeat split; try lia. vm_compute; discriminate.
  - subst r. change (is_end_ty token_STRING) with false. cbv iota. cbn [length]. rewrite app_length. cbn [length].
    repeat split; try lia. vm_compute; discriminate.
  - subst lm r. change (is_end_ty token_EOL) with true. cbv iota. cbn [length] in *.
    repeat split; try lia; try (vm_compute; discriminate).
    right. split; [reflexivity|]. exists q, r1. auto.
  - subst lm r. change (is_end_ty token_ILLEGAL) with false. cbv iota. cbn [length].
    repeat split; try lia. vm_compute; discriminate.
  - subst r. assert (E : is_end_ty (end_type lm) = true) by (destruct lm; reflexivity). rewrite E.
    repeat split; try (cbn [length]; lia); [destruct lm; vm_compute; discriminate|now left].
  - subst r. change (is_end_ty token_ILLEGAL) with false. cbv iota. cbn [length].
    repeat split; try lia. vm_compute; discriminate.
  - assert (E : is_end_ty ty = false) by (destruct H; subst ty; reflexivity). rewrite E.
    repeat split; try lia. destruct H; subst ty; vm_compute; discriminate.
  - destruct (lookup_ident_not_end (firstn k r)) as [-> ?]. cbv iota. repeat split; auto; lia.
Qed.

(* one NextToken call described on the whole input *)
Definition tok_at (lm : bool) (s : list N) (t : ltok) : Prop :=
  (lt_start t <= lt_end t)%nat /\
  scan_case lm (skipn (lt_start t) s) (lt_type t) (lt_lit t) (lt_end t - lt_start t).

Lemma next_token_spec lm s pos :
  let '(t, pos') := next_token lm s pos in
  pos' = lt_end t /\ (pos <= lt_start t)%nat /\ ws_only s pos (lt_start t) /\
  (forall c, nth_error s (lt_start t) = Some c -> isWhiteSpace c = false) /\ tok_at lm s t.
Proof.
  unfold next_token. set (r0 := skipn pos s). set (nws := span_len isWhiteSpace r0).
  pose proof (scan_token_case lm (skipn nws r0)) as C.
  destruct (scan_token lm (skipn nws r0)) as [[ty lit] k]. cbn [lt_start lt_end lt_type lt_lit].
  split; [reflexivity|]. split; [lia|]. split; [|split].
  - intros i Hi. destruct (span_len_all isWhiteSpace r0 (i - pos)) as [c [Hc Hw]]; [fold nws; lia|].
    exists c. split; [|exact Hw]. unfold r0 in Hc. rewrite nth_error_skipn' in Hc.
    now replace (pos + (i - pos))%nat with i in Hc by lia.
  - intros c Hc. replace (pos + nws)%nat with (pos + nws + 0)%nat in Hc by lia.
    rewrite <- nth_error_skipn', <- skipn_add in Hc. fold r0 in Hc.
    destruct (span_len_stop isWhiteSpace r0) as [S|[c' [r' [S Hw]]]]; fold nws in S; rewrite S in Hc.
    + discriminate.
    + cbn in Hc. now inversion Hc; subst.
  - unfold tok_at. cbn [lt_start lt_end lt_type lt_lit]. split; [lia|]. unfold r0 in C. rewrite skipn_add in C.
    now replace (pos + nws + k - (pos + nws))%nat with k by lia.
Qed.

Lemma next_token_at_end lm s p :
  (length s <= p)%nat -> next_token lm s p = (mkLtok (end_type lm) [] p (S p) false false, S p).
Proof.
  intros H. unfold next_token. rewrite (skipn_all2 s H). cbn [span_len skipn firstn existsb Nat.ltb Nat.leb].
  change (scan_token lm []) with (end_type lm, @nil N, 1%nat).
  rewrite Nat.add_0_r, Nat.add_1_r. reflexivity.
Qed.

(* after a token that is not an end marker the position is inside the input; after the end marker it is
   beyond the input *)
Lemma tok_at_facts lm s t :
  tok_at lm s t ->
  (0 <= lt_type t)%Z /\ (lt_start t < lt_end t)%nat /\
  if is_end t then lt_type t = end_type lm /\ lt_lit t = [] /\ (length s < lt_end t)%nat /\ end_cond lm (skipn (lt_start t) s)
  else (lt_end t <= length s)%nat.
Proof.
  intros [Hle C]. apply scan_case_facts in C. destruct C as [K [T C]]. rewrite is_end_unfold.
  split; [exact T|]. split; [lia|]. rewrite skipn_length in C.
  destruct (is_end_ty (lt_type t)).
  - destruct C as [? [? [? ?]]]. repeat split; auto. lia.
  - lia.
Qed.

Lemma lex_from_spec : forall fuel lm s pos,
  (length s - pos < fuel)%nat ->
  exists body e,
    lex_from fuel lm s pos = body ++ [e] /\
    Forall (fun t => is_end t = false /\ (lt_end t <= length s)%nat) body /\
    is_end e = true /\
    chain s pos (body ++ [e]) /\
    Forall (tok_at lm s) (body ++ [e]) /\
    (length body <= length s - pos)%nat.
Proof.
  induction fuel as [|f IH]; intros lm s pos Hf; [lia|].
  cbn [lex_from]. pose proof (next_token_spec lm s pos) as N.
  destruct (next_token lm s pos) as [t pos']. destruct N as [-> [Hle [Hws [Hnws Hat]]]].
  pose proof (tok_at_facts lm s t Hat) as [Hty [Hlt Hk]].
  assert (Hneg : Z.ltb (lt_type t) 0 = false) by (apply Z.ltb_ge; exact Hty). rewrite Hneg, orb_false_r.
  destruct (is_end t) eqn:Eend.
  - exists [], t. cbn [app chain length]. repeat split; auto; lia.
  - destruct (IH lm s (lt_end t)) as [body [e [E [Hb [He [Hc [Hall Hlen]]]]]]]; [lia|].
    exists (t :: body), e. rewrite E. cbn [app chain length].
    split; [reflexivity|]. split; [constructor; auto|]. split; [exact He|].
    split; [auto|]. split; [constructor; auto|]. lia.
Qed.

(* consequences of [chain] *)
Lemma chain_starts s p toks : chain s p toks -> Forall (fun t => (p <= lt_start t)%nat) toks.
Proof.
  revert p. induction toks as [|t toks IH]; intros p H; [constructor|].
  destruct H as [H1 [H2 [H3 H4]]]. constructor; [exact H1|].
  eapply Forall_impl; [|apply (IH _ H4)]. cbn. intros. lia.
Qed.

(* spans are pairwise disjoint and in input order *)
Lemma chain_ordered s p toks :
  chain s p toks ->
  forall i j ti tj, (i < j)%nat -> nth_error toks i = Some ti -> nth_error toks j = Some tj ->
                    (lt_end ti <= lt_start tj)%nat.
Proof.
  revert p. induction toks as [|t toks IH]; intros p H i j ti tj Hij Hi Hj; [now destruct i|].
  destruct H as [H1 [H2 [H3 H4]]]. destruct j as [|j]; [lia|]. cbn [nth_error] in Hj.
  destruct i as [|i].
  - cbn [nth_error] in Hi. inversion Hi; subst ti.
    pose proof (chain_starts _ _ _ H4) as F. rewrite Forall_forall in F.
    apply F. eapply nth_error_In; eauto.
  - cbn [nth_error] in Hi. eapply (IH _ H4 i j); eauto. lia.
Qed.

(* every byte before the start of the last token is whitespace or inside the span of an earlier token *)
Lemma chain_cover s p body e :
  chain s p (body ++ [e]) ->
  forall j, (p <= j < lt_start e)%nat ->
    (exists c, nth_error s j = Some c /\ isWhiteSpace c = true) \/
    (exists t, In t body /\ (lt_start t <= j < lt_end t)%nat).
Proof.
  revert p. induction body as [|t body IH]; intros p H j Hj; cbn [app chain] in H.
  - destruct H as [H1 [H2 _]]. left. apply H2. lia.
  - destruct H as [H1 [H2 [H3 H4]]].
    destruct (lt_dec j (lt_start t)); [left; apply H2; lia|].
    destruct (lt_dec j (lt_end t)); [right; exists t; split; [now left|lia]|].
    destruct (IH _ H4 j) as [W|[t' [Hin Ht']]]; [lia|now left|].
    right. exists t'. split; [now right|exact Ht'].
Qed.

Definition tiling (lm : bool) (s : list N) (toks : list ltok) : Prop :=
  exists body e,
    toks = body ++ [e] /\
    (* the tokens before the end marker lie inside the input *)
    Forall (fun t => is_end t = false /\ (0 <= lt_type t)%Z /\ (lt_end t <= length s)%nat) body /\
    is_end e = true /\ lt_type e = end_type lm /\ lt_lit e = [] /\
    (* in input order from position 0, non-empty spans, only whitespace between them *)
    chain s 0 toks /\
    (* pairwise disjoint *)
    (forall i j ti tj, (i < j)%nat -> nth_error toks i = Some ti -> nth_error toks j = Some tj ->
                       (lt_end ti <= lt_start tj)%nat) /\
    (* every non-whitespace byte before the end marker is covered by a token *)
    (forall j c, nth_error s j = Some c -> isWhiteSpace c = false -> (j < lt_start e)%nat ->
                 exists t, In t body /\ (lt_start t <= j < lt_end t)%nat) /\
    (* the end marker stands at the end of the input, or (line mode) on an unterminated string *)
    ((length s <= lt_start e)%nat \/
     lm = true /\ exists q r1, skipn (lt_start e) s = q :: r1 /\ (q = 34 \/ q = 96) /\ unterminated q r1) /\
    (length s < lt_end e)%nat /\
    (* at most n tokens before the end marker *)
    (length body <= length s)%nat.

Lemma lex_all_tiling lm s : tiling lm s (lex_all lm s).
Proof.
  unfold lex_all. destruct (lex_from_spec (length s + 2) lm s 0) as [body [e [E [Hb [He [Hc [Hall Hlen]]]]]]]; [lia|].
  exists body, e. rewrite E.
  assert (Hate : tok_at lm s e) by (rewrite Forall_forall in Hall; apply Hall, in_or_app; right; now left).
  pose proof (tok_at_facts lm s e Hate) as [_ [_ F]]. rewrite He in F. destruct F as [F1 [F2 [F3 F4]]].
  split; [reflexivity|]. split.
  { rewrite Forall_forall in *. intros t Ht. destruct (Hb t Ht) as [B1 B2]. repeat split; auto.
    apply (tok_at_facts lm s t). apply Hall, in_or_app. now left. }
  repeat split; auto.
  - eapply chain_ordered; eauto.
  - intros j c Hj Hw Hlt. destruct (chain_cover _ _ _ _ Hc j) as [[c' [Hc' Hw']]|Ht]; [lia| |exact Ht].
    rewrite Hj in Hc'. inversion Hc'; subst. congruence.
  - destruct F4 as [F4|[F4 [q [r1 F5]]]].
    + left. destruct (le_lt_dec (length s) (lt_start e)); [assumption|].
      assert (length (skipn (lt_start e) s) = 0%nat) by now rewrite F4. rewrite skipn_length in H. lia.
    + right. split; [exact F4|]. exists q, r1. exact F5.
  - lia.
Qed.

Lemma lex_all_tok_at lm s t : In t (lex_all lm s) -> tok_at lm s t.
Proof.
  unfold lex_all. destruct (lex_from_spec (length s + 2) lm s 0) as [body [e [E [_ [_ [_ [Hall _]]]]]]]; [lia|].
  rewrite E. rewrite Forall_forall in Hall. apply Hall.
Qed.

(* the end marker is reached after at most |s|+1 tokens and every later call returns it again *)
Lemma lex_all_end_marker lm s :
  (length (lex_all lm s) <= length s + 1)%nat /\
  exists e, last (lex_all lm s) e = e /\ In e (lex_all lm s) /\ lt_type e = end_type lm /\ lt_lit e = [] /\
    forall n, let p := (lt_end e + n)%nat in
              next_token lm s p = (mkLtok (end_type lm) [] p (S p) false false, S p).
Proof.
  destruct (lex_all_tiling lm s) as [body [e [E [_ [_ [T [L [_ [_ [_ [_ [Hend Hlen]]]]]]]]]]]].
  rewrite E. split; [rewrite app_length; cbn [length]; lia|].
  exists e. repeat split; auto.
  - apply last_last.
  - apply in_or_app. right. now left.
  - intros n p. apply next_token_at_end. lia.
Qed.
(* ================================================================ 7. per-token theorems *)
(* dismiss a scan_case constructor whose token type cannot be the one at hand; Heq : <type of the case> = <type> *)
Ltac absurd_ty Heq :=
  first
  [ vm_compute in Heq; discriminate Heq
  | match goal with Hop : is_op_type _ = true |- _ => rewrite Heq in Hop; vm_compute in Hop; discriminate Hop end
  | match goal with Hn : _ = token_INT \/ _ = token_FLOAT |- _ =>
      destruct Hn as [Hn|Hn]; rewrite Hn in Heq; vm_compute in Heq; discriminate Heq end
  | match type of Heq with lookup_ident ?w = _ =>
      let Hl := fresh in destruct (lookup_ident_type w) as [Hl|Hl]; rewrite Heq in Hl; vm_compute in Hl; discriminate Hl end
  | match type of Heq with end_type ?lm = _ => destruct lm; vm_compute in Heq; discriminate Heq end ].

(* token types whose literal is the text of the token: everything except strings, comments, ILLEGAL and
   the end markers, i.e. identifiers, keywords, numbers and operators *)
Definition text_type (ty : Z) : bool :=
  negb (Z.eqb ty token_ILLEGAL || Z.eqb ty token_EOL || Z.eqb ty token_EOF || Z.eqb ty token_STRING
        || Z.eqb ty token_LINECOMMENT || Z.eqb ty token_BLOCKCOMMENT).

Lemma scan_case_text lm r ty lit k : scan_case lm r ty lit k -> text_type ty = true -> lit = firstn k r.
Proof.
  intros H T. destruct H; try reflexivity; try (subst r; reflexivity);
    try (vm_compute in T; discriminate T).
Qed.

Lemma lex_all_literal_is_span lm s t :
  In t (lex_all lm s) -> text_type (lt_type t) = true ->
  lt_lit t = span s t /\ (lt_start t < lt_end t <= length s)%nat.
Proof.
  intros Hin T. pose proof (lex_all_tok_at lm s t Hin) as Hat. split.
  - destruct Hat as [_ C]. exact (scan_case_text _ _ _ _ _ C T).
  - pose proof (tok_at_facts lm s t Hat) as [_ [H1 H2]].
    assert (E : is_end t = false).
    { unfold is_end. unfold text_type in T. apply negb_true_iff in T.
      repeat (apply orb_false_elim in T; destruct T as [T ?]).
      apply orb_false_intro; assumption. }
    rewrite E in H2. lia.
Qed.

Definition string_at (r : list N) (lit : list N) (k : nat) : Prop :=
  exists q raw rest,
    (q = 34 \/ q = 96) /\ r = q :: raw ++ q :: rest /\ k = (length raw + 2)%nat /\ str_body (q =? 34) q raw lit.

Lemma scan_case_string lm r lit k : scan_case lm r token_STRING lit k -> string_at r lit k.
Proof.
  intros H. remember token_STRING as ty eqn:Heq.
  destruct H; try (exfalso; absurd_ty Heq).
  do 3 eexists. repeat split; eauto.
Qed.

Definition line_comment_at (r : list N) (lit : list N) (k : nat) : Prop :=
  exists body rest,
    r = 47 :: 47 :: body ++ rest /\ Forall (fun c => c <> 10) body /\
    (rest = [] \/ hd0 rest = 10 /\ rest <> []) /\
    k = (2 + length body)%nat /\ lit = trim_space (firstn k r).

Definition block_comment_at (r : list N) (lit : list N) (k : nat) : Prop :=
  lit = firstn k r /\
  ((exists pre rest, r = 47 :: 42 :: pre ++ 42 :: 47 :: rest /\ has_close (pre ++ [42]) = false /\
                     k = (4 + length pre)%nat) \/
   (exists body, r = 47 :: 42 :: body /\ has_close body = false /\ k = length r)).

Lemma scan_case_line_comment lm r lit k : scan_case lm r token_LINECOMMENT lit k -> line_comment_at r lit k.
Proof.
  intros H. remember token_LINECOMMENT as ty eqn:Heq.
  destruct H; try (exfalso; absurd_ty Heq).
  exists body, rest. repeat split; auto. subst r.
  change (47 :: 47 :: body ++ rest) with ((47 :: 47 :: body) ++ rest).
  change (2 + length body)%nat with (length (47 :: 47 :: body)). now rewrite firstn_exact.
Qed.

Lemma scan_case_block_comment lm r lit k : scan_case lm r token_BLOCKCOMMENT lit k -> block_comment_at r lit k.
Proof.
  intros H. remember token_BLOCKCOMMENT as ty eqn:Heq.
  destruct H; try (exfalso; absurd_ty Heq).
  - split.
    + subst r. replace (47 :: 42 :: pre ++ 42 :: 47 :: rest) with ((47 :: 42 :: pre ++ [42; 47]) ++ rest)
        by (cbn [app]; now rewrite <- app_assoc).
      replace (4 + length pre)%nat with (length (47 :: 42 :: pre ++ [42; 47]))
        by (cbn [length]; rewrite app_length; cbn [length]; lia).
      now rewrite firstn_exact.
    + left. exists pre, rest. auto.
  - split; [now rewrite firstn_all|]. right. exists body. auto.
Qed.

Definition illegal_at (lm : bool) (r : list N) (lit : list N) (k : nat) : Prop :=
  (exists ch r1, r = ch :: r1 /\ k = 1%nat /\ lit = encode_rune ch) \/
  (lm = false /\ exists q r1, r = q :: r1 /\ (q = 34 \/ q = 96) /\ unterminated q r1 /\ k = length r /\ lit = r).

Lemma scan_case_illegal lm r lit k : scan_case lm r token_ILLEGAL lit k -> illegal_at lm r lit k.
Proof.
  intros H. remember token_ILLEGAL as ty eqn:Heq.
  destruct H; try (exfalso; absurd_ty Heq).
  - right. split; [assumption|]. exists q, r1. auto.
  - left. exists ch, r1. auto.
Qed.

(* ---- keywords *)
Lemma bytes_eqb_eq a b : bytes_eqb a b = true <-> a = b.
Proof.
  revert b. induction a as [|x a IH]; intros [|y b]; cbn [bytes_eqb]; split; intros H; try discriminate; auto.
  - apply andb_prop in H. destruct H as [H1 H2]. apply N.eqb_eq in H1. apply IH in H2. now subst.
  - inversion H; subst. rewrite N.eqb_refl. cbn. now apply IH.
Qed.

Lemma lookup_keyword_in_none tbl w : lookup_keyword_in tbl w = None -> forall ty, ~ In (w, ty) tbl.
Proof.
  induction tbl as [|[k t] tbl IH]; cbn [lookup_keyword_in]; intros H ty Hin; [exact Hin|].
  destruct (bytes_eqb k w) eqn:E; [discriminate|]. destruct Hin as [Hin|Hin].
  - inversion Hin; subst. assert (bytes_eqb w w = true) by now apply bytes_eqb_eq. congruence.
  - exact (IH H ty Hin).
Qed.

Lemma scan_case_ident lm r lit k :
  scan_case lm r token_IDENT lit k -> forall ty, ~ In (lit, ty) keyword_tokens.
Proof.
  intros H. remember token_IDENT as ty eqn:Heq.
  destruct H; try (exfalso; absurd_ty Heq).
  apply lookup_keyword_in_none. unfold lookup_ident, lookup_keyword in Heq.
  destruct (lookup_keyword_in keyword_tokens (firstn k r)) as [t|] eqn:E; [|reflexivity].
  exfalso. apply lookup_keyword_in_spec in E. destruct E as [kw [Hin _]].
  pose proof keyword_types_ok as K. rewrite forallb_forall in K. specialize (K _ Hin). cbn [snd] in K.
  rewrite Heq in K. vm_compute in K. discriminate K.
Qed.

(* no abnormal outcome: never a nil token, a Go panic or an exhausted fuel *)
Lemma lex_all_normal lm s t : In t (lex_all lm s) -> (0 <= lt_type t)%Z.
Proof. intros H. apply (tok_at_facts lm s t). now apply lex_all_tok_at. Qed.

(* ================================================================ 8. interning *)
Lemma tkey_eqb_eq a b : tkey_eqb a b = true <-> a = b.
Proof.
  destruct a as [t1 l1], b as [t2 l2]. unfold tkey_eqb. cbn [fst snd]. split; intros H.
  - apply andb_prop in H. destruct H as [H1 H2]. apply Z.eqb_eq in H1. apply bytes_eqb_eq in H2. now subst.
  - inversion H; subst. rewrite Z.eqb_refl. cbn. now apply bytes_eqb_eq.
Qed.

(* well-formed table: object numbers below i_next, one key per object number *)
Definition i_wf (st : istate) : Prop :=
  (forall k id, i_lookup (i_tbl st) k = Some id -> (id < i_next st)%nat) /\
  (forall k k' id, i_lookup (i_tbl st) k = Some id -> i_lookup (i_tbl st) k' = Some id -> k = k').

Lemma i_lookup_cons k0 id0 tbl k :
  i_lookup ((k0, id0) :: tbl) k = if tkey_eqb k0 k then Some id0 else i_lookup tbl k.
Proof. reflexivity. Qed.

Lemma intern_spec st k :
  i_wf st ->
  let '(id, st') := intern st k in
  i_wf st' /\ i_lookup (i_tbl st') k = Some id /\
  (forall k' id', i_lookup (i_tbl st) k' = Some id' -> i_lookup (i_tbl st') k' = Some id').
Proof.
  intros [W1 W2]. unfold intern. destruct (i_lookup (i_tbl st) k) as [id|] eqn:E.
  - split; [split; assumption|]. split; [exact E|auto].
  - unfold i_wf. cbn [i_tbl i_next]. split; [split|split].
    + intros k' id'. rewrite i_lookup_cons. destruct (tkey_eqb k k') eqn:Ek.
      * intros H. inversion H. lia.
      * intros H. apply W1 in H. lia.
    + intros k1 k2 id'. rewrite !i_lookup_cons.
      destruct (tkey_eqb k k1) eqn:E1, (tkey_eqb k k2) eqn:E2.
      * apply tkey_eqb_eq in E1. apply tkey_eqb_eq in E2. congruence.
      * intros H1 H2. inversion H1; subst. apply W1 in H2. lia.
      * intros H1 H2. inversion H2; subst. apply W1 in H1. lia.
      * apply W2.
    + rewrite i_lookup_cons. assert (tkey_eqb k k = true) by now apply tkey_eqb_eq. now rewrite H.
    + intros k' id' H. rewrite i_lookup_cons. destruct (tkey_eqb k k') eqn:Ek; [|exact H].
      apply tkey_eqb_eq in Ek. subst. congruence.
Qed.

Lemma intern_all_spec h : forall st,
  i_wf st ->
  let '(ids, st') := intern_all st h in
  i_wf st' /\
  (forall k' id', i_lookup (i_tbl st) k' = Some id' -> i_lookup (i_tbl st') k' = Some id') /\
  (forall j k id, nth_error h j = Some k -> nth_error ids j = Some id -> i_lookup (i_tbl st') k = Some id) /\
  length ids = length h.
Proof.
  induction h as [|k h IH]; intros st W; cbn [intern_all].
  - split; [exact W|]. split; [auto|]. split; [intros [|j]; discriminate|reflexivity].
  - pose proof (intern_spec st k W) as I. destruct (intern st k) as [id st1]. destruct I as [W1 [L1 M1]].
    specialize (IH st1 W1). destruct (intern_all st1 h) as [ids st2]. destruct IH as [W2 [M2 [P2 Len]]].
    split; [exact W2|]. split; [auto|]. split; [|cbn [length]; lia].
    intros [|j] k' id' Hk Hid; cbn [nth_error] in *.
    + inversion Hk; inversion Hid; subst. auto.
    + eauto.
Qed.

Lemma i_empty_wf : i_wf i_empty.
Proof. split; cbn; intros; discriminate. Qed.

Lemma i_init_wf : i_wf i_init.
Proof.
  unfold i_init. match goal with |- i_wf (snd (intern_all i_empty ?h)) => pose proof (intern_all_spec h i_empty i_empty_wf) as H;
    destruct (intern_all i_empty h) as [ids st] end. exact (proj1 H).
Qed.

(* after token.Init and any history of Intern calls: two calls return the same object iff their
   (type, literal) are equal *)
Lemma intern_injective_functional st h :
  i_wf st ->
  let ids := fst (intern_all st h) in
  forall a b ka kb ia ib,
    nth_error h a = Some ka -> nth_error h b = Some kb ->
    nth_error ids a = Some ia -> nth_error ids b = Some ib ->
    (ia = ib <-> ka = kb).
Proof.
  intros W. pose proof (intern_all_spec h st W) as H. destruct (intern_all st h) as [ids st'].
  destruct H as [[W1 W2] [_ [P _]]]. cbn [fst]. intros a b ka kb ia ib Ha Hb Hia Hib.
  pose proof (P _ _ _ Ha Hia) as La. pose proof (P _ _ _ Hb Hib) as Lb. split.
  - intros ->. eapply W2; eauto.
  - intros ->. congruence.
Qed.
(* ================================================================ 9. the statements used by props/C16.v *)
Lemma strip_prefix_spec p : forall l rest, strip_prefix p l = Some rest -> l = p ++ rest.
Proof.
  induction p as [|x p IH]; intros l rest; cbn [strip_prefix app].
  - intros H. now inversion H.
  - destruct l as [|y l]; [discriminate|]. destruct (N.eqb_spec x y); [|discriminate].
    intros H. subst. f_equal. now apply IH.
Qed.

Lemma strip_any_spec ps l rest : strip_any ps l = Some rest -> exists p, l = p ++ rest.
Proof.
  induction ps as [|p ps IH]; cbn [strip_any]; [discriminate|].
  destruct (strip_prefix p l) as [r|] eqn:E.
  - intros H. inversion H; subst. exists p. now apply strip_prefix_spec.
  - exact IH.
Qed.

Lemma trim_front_suffix seqs : forall fuel l, exists a, l = a ++ trim_front seqs fuel l.
Proof.
  induction fuel as [|f IH]; intros l; cbn [trim_front]; [now exists []|].
  destruct l as [|c l]; [now exists []|].
  destruct (ascii_space c).
  - destruct (IH l) as [a Ha]. exists (c :: a). cbn [app]. now f_equal.
  - destruct (strip_any seqs (c :: l)) as [rest|] eqn:E; [|now exists []].
    destruct (strip_any_spec _ _ _ E) as [p Hp]. destruct (IH rest) as [a Ha].
    exists (p ++ a). rewrite <- app_assoc, <- Ha. exact Hp.
Qed.

(* the literal of a line comment is a prefix of its text (what TrimSpace removes is at the end) *)
Lemma trim_space_comment_prefix l' : exists tail, 47 :: l' = trim_space (47 :: l') ++ tail.
Proof.
  unfold trim_space.
  assert (E : trim_front unicode_spaces (length (47 :: l')) (47 :: l') = 47 :: l') by reflexivity.
  rewrite E.
  destruct (trim_front_suffix (map (@rev N) unicode_spaces) (length (47 :: l')) (rev (47 :: l'))) as [a Ha].
  exists (rev a). rewrite <- rev_app_distr, <- Ha. now rewrite rev_involutive.
Qed.

Lemma span_eq s t k : (lt_end t - lt_start t)%nat = k -> span s t = firstn k (skipn (lt_start t) s).
Proof. intros <-. reflexivity. Qed.

Lemma lex_all_string lm s t :
  In t (lex_all lm s) -> lt_type t = token_STRING ->
  exists q raw rest,
    (q = 34 \/ q = 96) /\ skipn (lt_start t) s = q :: raw ++ q :: rest /\
    lt_end t = (lt_start t + length raw + 2)%nat /\ str_body (q =? 34) q raw (lt_lit t).
Proof.
  intros Hin Ht. destruct (lex_all_tok_at lm s t Hin) as [Hle C]. rewrite Ht in C.
  destruct (scan_case_string _ _ _ _ C) as [q [raw [rest [Hq [Hr [Hk Hb]]]]]].
  exists q, raw, rest. repeat split; auto. lia.
Qed.

Lemma lex_all_line_comment lm s t :
  In t (lex_all lm s) -> lt_type t = token_LINECOMMENT ->
  exists body rest,
    skipn (lt_start t) s = 47 :: 47 :: body ++ rest /\ Forall (fun c => c <> 10) body /\
    (rest = [] \/ hd0 rest = 10 /\ rest <> []) /\
    lt_end t = (lt_start t + 2 + length body)%nat /\
    lt_lit t = trim_space (span s t) /\ exists tail, span s t = lt_lit t ++ tail.
Proof.
  intros Hin Ht. destruct (lex_all_tok_at lm s t Hin) as [Hle C]. rewrite Ht in C.
  destruct (scan_case_line_comment _ _ _ _ C) as [body [rest [Hr [Hb [Hrest [Hk Hl]]]]]].
  exists body, rest. rewrite (span_eq s t _ eq_refl). repeat split; auto; [lia|].
  rewrite Hl. rewrite Hr, Hk. change (47 :: 47 :: body ++ rest) with ((47 :: 47 :: body) ++ rest).
  change (2 + length body)%nat with (length (47 :: 47 :: body)). rewrite firstn_exact.
  destruct (trim_space_comment_prefix (47 :: body)) as [tail Htail]. now exists tail.
Qed.

Lemma lex_all_block_comment lm s t :
  In t (lex_all lm s) -> lt_type t = token_BLOCKCOMMENT ->
  lt_lit t = span s t /\
  ((exists pre rest, skipn (lt_start t) s = 47 :: 42 :: pre ++ 42 :: 47 :: rest /\
                     has_close (pre ++ [42]) = false /\ lt_end t = (lt_start t + 4 + length pre)%nat) \/
   (exists body, skipn (lt_start t) s = 47 :: 42 :: body /\ has_close body = false /\ lt_end t = length s)).
Proof.
  intros Hin Ht. destruct (lex_all_tok_at lm s t Hin) as [Hle C]. rewrite Ht in C.
  destruct (scan_case_block_comment _ _ _ _ C) as [Hl [[pre [rest [Hr [Hc Hk]]]]|[body [Hr [Hc Hk]]]]].
  - split; [exact Hl|]. left. exists pre, rest. repeat split; auto. lia.
  - split; [exact Hl|]. right. exists body. repeat split; auto.
    rewrite skipn_length in Hk. assert (length (skipn (lt_start t) s) <> 0%nat) by (rewrite Hr; discriminate).
    rewrite skipn_length in H. lia.
Qed.

Lemma lex_all_illegal lm s t :
  In t (lex_all lm s) -> lt_type t = token_ILLEGAL ->
  (exists ch, nth_error s (lt_start t) = Some ch /\ lt_end t = S (lt_start t) /\ lt_lit t = encode_rune ch) \/
  (lm = false /\ exists q r1, skipn (lt_start t) s = q :: r1 /\ (q = 34 \/ q = 96) /\ unterminated q r1 /\
                              lt_end t = length s /\ lt_lit t = skipn (lt_start t) s).
Proof.
  intros Hin Ht. destruct (lex_all_tok_at lm s t Hin) as [Hle C]. rewrite Ht in C.
  destruct (scan_case_illegal _ _ _ _ C) as [[ch [r1 [Hr [Hk Hl]]]]|[Hlm [q [r1 [Hr [Hq [Hu [Hk Hl]]]]]]]].
  - left. exists ch. repeat split; auto; [|lia].
    replace (lt_start t) with (lt_start t + 0)%nat by lia. rewrite <- nth_error_skipn', Hr. reflexivity.
  - right. split; [exact Hlm|]. exists q, r1. repeat split; auto.
    rewrite skipn_length in Hk. assert (length (skipn (lt_start t) s) <> 0%nat) by (rewrite Hr; discriminate).
    rewrite skipn_length in H. lia.
Qed.

Lemma lex_all_keywords_not_idents lm s t :
  In t (lex_all lm s) -> lt_type t = token_IDENT -> forall ty, ~ In (lt_lit t, ty) keyword_tokens.
Proof.
  intros Hin Ht. destruct (lex_all_tok_at lm s t Hin) as [Hle C]. rewrite Ht in C.
  exact (scan_case_ident _ _ _ _ C).
Qed.

Lemma intern_after_init h :
  let ids := fst (intern_all i_init h) in
  forall a b ka kb ia ib,
    nth_error h a = Some ka -> nth_error h b = Some kb ->
    nth_error ids a = Some ia -> nth_error ids b = Some ib ->
    (ia = ib <-> ka = kb).
Proof. exact (intern_injective_functional i_init h i_init_wf). Qed.
(* file mode: the end marker stands at the end of the input, so every non-whitespace byte is in a token *)
Lemma lex_all_file_mode_cover (s : list N) (j : nat) (c : N) :
  nth_error s j = Some c -> isWhiteSpace c = false ->
  exists t, In t (lex_all false s) /\ is_end t = false /\ (lt_start t <= j < lt_end t)%nat.
Proof.
  intros Hj Hw. destruct (lex_all_tiling false s) as [body [e [E [Hb [_ [_ [_ [_ [_ [Hcov [Hend _]]]]]]]]]]].
  assert (Hlt : (j < length s)%nat) by (apply nth_error_Some; congruence).
  destruct Hend as [Hend|[Hend _]]; [|discriminate].
  destruct (Hcov j c Hj Hw) as [t [Hin Ht]]; [lia|].
  exists t. rewrite E. split; [apply in_or_app; now left|]. split; [|exact Ht].
  rewrite Forall_forall in Hb. now destruct (Hb t Hin).
Qed.

(* ================================================================ 10. the whitespace class is pinned *)
(* "every byte is whitespace or in exactly one token" only means something for a FIXED whitespace class: the
   generated isWhiteSpace (skipWhitespace's predicate) is exactly {space, tab, LF, CR} on all 256 byte values.
   A theorem about the generated table: any change of the class in lexer.go breaks it. *)
Definition all_bytes : list N := map N.of_nat (seq 0 256).
Definition is_space_tab_lf_cr (b : N) : bool := (b =? 32) || (b =? 9) || (b =? 10) || (b =? 13).

Lemma whitespace_table :
  forallb (fun b => Bool.eqb (isWhiteSpace b) (is_space_tab_lf_cr b)) all_bytes = true.
Proof. vm_compute. reflexivity. Qed.

Lemma whitespace_pinned (b : N) : b < 256 -> isWhiteSpace b = is_space_tab_lf_cr b.
Proof.
  intros H. pose proof whitespace_table as T. rewrite forallb_forall in T.
  apply Bool.eqb_prop. apply T. unfold all_bytes. apply in_map_iff.
  exists (N.to_nat b). split; [apply N2Nat.id|]. apply in_seq. lia.
Qed.
(* ================================================================ 11. the unbounded stream of NextToken results *)
(* [call_seq m s pos k] = result of the (k+1)-th NextToken call of a lexer standing at pos (no fuel: k calls are
   made whatever they return); [nth_call m s k] = the token returned by call number k (from 0) of a fresh lexer. *)
Fixpoint call_seq (m : bool) (s : list N) (pos : nat) (k : nat) : ltok * nat :=
  match k with
  | O => next_token m s pos
  | S k' => call_seq m s (snd (next_token m s pos)) k'
  end.

Definition nth_call (m : bool) (s : list N) (k : nat) : ltok := fst (call_seq m s 0 k).

Definition end_marker_at (m : bool) (p : nat) : ltok := mkLtok (end_type m) [] p (S p) false false.

Lemma call_seq_past_end m s : forall k p,
  (length s <= p)%nat -> call_seq m s p k = (end_marker_at m (p + k), S (p + k)).
Proof.
  induction k as [|k IH]; intros p Hp; cbn [call_seq].
  - rewrite next_token_at_end by exact Hp. now rewrite Nat.add_0_r.
  - rewrite next_token_at_end by exact Hp. cbn [snd]. rewrite IH by lia.
    now replace (S p + k)%nat with (p + S k)%nat by lia.
Qed.

Lemma lex_from_stream : forall fuel m s pos,
  (length s - pos < fuel)%nat ->
  forall k,
    ((k < length (lex_from fuel m s pos))%nat ->
       nth_error (lex_from fuel m s pos) k = Some (fst (call_seq m s pos k))) /\
    ((length (lex_from fuel m s pos) - 1 <= k)%nat ->
       lt_type (fst (call_seq m s pos k)) = end_type m /\ lt_lit (fst (call_seq m s pos k)) = []).
Proof.
  induction fuel as [|f IH]; intros m s pos Hf k; [lia|].
  cbn [lex_from]. pose proof (next_token_spec m s pos) as N.
  destruct (next_token m s pos) as [t pos'] eqn:Ent. destruct N as [-> [Hle [Hws [Hnws Hat]]]].
  pose proof (tok_at_facts m s t Hat) as [Hty [Hlt Hk]].
  assert (Hneg : Z.ltb (lt_type t) 0 = false) by (apply Z.ltb_ge; exact Hty). rewrite Hneg, orb_false_r.
  destruct (is_end t) eqn:Eend.
  - destruct Hk as [K1 [K2 [K3 K4]]]. cbn [length]. destruct k as [|k]; cbn [call_seq nth_error].
    + rewrite Ent. cbn [fst]. split; auto.
    + rewrite Ent. cbn [snd]. rewrite call_seq_past_end by lia. cbn [fst end_marker_at lt_type lt_lit].
      split; [lia|auto].
  - cbn [length]. destruct k as [|k]; cbn [call_seq nth_error].
    + rewrite Ent. cbn [fst]. split; [auto|].
      intros Hk0. exfalso.
      destruct (lex_from_spec f m s (lt_end t)) as [body [e [E _]]]; [lia|].
      rewrite E, app_length in Hk0. cbn [length] in Hk0. lia.
    + rewrite Ent. cbn [snd]. destruct (IH m s (lt_end t)) with (k := k) as [A B]; [lia|].
      split; [intros; apply A; lia|intros; apply B; lia].
Qed.

(* The results of the successive NextToken calls of a fresh lexer are exactly lex_all followed by the end marker
   for ever: call k returns the k-th element of lex_all while there is one, and from the last element of lex_all on
   every call returns the end marker of the mode (empty literal), at positions that keep growing by one. *)
Lemma token_stream m s :
  (forall k, (k < length (lex_all m s))%nat -> nth_error (lex_all m s) k = Some (nth_call m s k)) /\
  (forall k, (length (lex_all m s) - 1 <= k)%nat ->
             lt_type (nth_call m s k) = end_type m /\ lt_lit (nth_call m s k) = []) /\
  (forall k, (length s < k)%nat -> lt_type (nth_call m s k) = end_type m).
Proof.
  unfold lex_all, nth_call.
  assert (F : (length s - 0 < length s + 2)%nat) by lia.
  split; [|split].
  - intros k Hk. now apply (lex_from_stream _ m s 0 F k).
  - intros k Hk. now apply (lex_from_stream _ m s 0 F k).
  - intros k Hk. apply (lex_from_stream _ m s 0 F k).
    pose proof (lex_all_end_marker m s) as [L _]. unfold lex_all in L. lia.
Qed.

(* the fuel of lex_all is immaterial: any larger fuel gives the same list *)
Lemma lex_from_fuel : forall f1 f2 m s pos,
  (length s - pos < f1)%nat -> (length s - pos < f2)%nat -> lex_from f1 m s pos = lex_from f2 m s pos.
Proof.
  induction f1 as [|f1 IH]; intros f2 m s pos H1 H2; [lia|]. destruct f2 as [|f2]; [lia|].
  cbn [lex_from]. pose proof (next_token_spec m s pos) as N.
  destruct (next_token m s pos) as [t pos']. destruct N as [-> [Hle [Hws [Hnws Hat]]]].
  pose proof (tok_at_facts m s t Hat) as [Hty [Hlt Hk]].
  destruct (is_end t || Z.ltb (lt_type t) 0) eqn:E; [reflexivity|].
  apply orb_false_elim in E. destruct E as [E _]. rewrite E in Hk.
  f_equal. apply IH; lia.
Qed.

(* ================================================================ 12. HadWhitespace / HadNewline *)
Lemma existsb_firstn_nl n : forall r,
  existsb (N.eqb 10) (firstn n r) = true <-> exists i, (i < n)%nat /\ nth_error r i = Some 10.
Proof.
  induction n as [|n IH]; intros r; cbn [firstn existsb].
  - split; [discriminate|intros [i [Hi _]]; lia].
  - destruct r as [|c r]; cbn [existsb].
    + split; [discriminate|intros [i [_ Hi]]; now destruct i].
    + rewrite orb_true_iff, IH. split.
      * intros [H|[i [Hi Hn]]].
        -- apply N.eqb_eq in H. subst c. exists 0%nat. split; [lia|reflexivity].
        -- exists (S i). split; [lia|exact Hn].
      * intros [[|i] [Hi Hn]]; cbn [nth_error] in Hn.
        -- left. inversion Hn. reflexivity.
        -- right. exists i. split; [lia|exact Hn].
Qed.

(* flags of the tokens scanned one after the other from position p: HadWhitespace tells whether the token is
   separated from the previous one, HadNewline whether a newline byte lies in between *)
Fixpoint flags_chain (s : list N) (p : nat) (toks : list ltok) : Prop :=
  match toks with
  | [] => True
  | t :: rest =>
    (lt_ws t = true <-> (p < lt_start t)%nat) /\
    (lt_nl t = true <-> exists j, (p <= j < lt_start t)%nat /\ nth_error s j = Some 10) /\
    flags_chain s (lt_end t) rest
  end.

Lemma next_token_flags m s pos :
  let t := fst (next_token m s pos) in
  (lt_ws t = true <-> (pos < lt_start t)%nat) /\
  (lt_nl t = true <-> exists j, (pos <= j < lt_start t)%nat /\ nth_error s j = Some 10).
Proof.
  unfold next_token. set (r0 := skipn pos s). set (nws := span_len isWhiteSpace r0).
  destruct (scan_token m (skipn nws r0)) as [[ty lit] k]. cbn [fst lt_ws lt_nl lt_start]. split.
  - rewrite Nat.ltb_lt. lia.
  - rewrite existsb_firstn_nl. split.
    + intros [i [Hi Hn]]. exists (pos + i)%nat. split; [lia|]. unfold r0 in Hn. now rewrite nth_error_skipn' in Hn.
    + intros [j [Hj Hn]]. exists (j - pos)%nat. split; [lia|]. unfold r0. rewrite nth_error_skipn'.
      now replace (pos + (j - pos))%nat with j by lia.
Qed.

Lemma lex_from_flags : forall fuel m s pos, flags_chain s pos (lex_from fuel m s pos).
Proof.
  induction fuel as [|f IH]; intros m s pos; cbn [lex_from flags_chain]; [exact I|].
  pose proof (next_token_flags m s pos) as Fl. pose proof (next_token_spec m s pos) as N.
  destruct (next_token m s pos) as [t pos']. cbn [fst] in Fl. destruct N as [-> _]. destruct Fl as [F1 F2].
  destruct (is_end t || Z.ltb (lt_type t) 0); cbn [flags_chain]; repeat split; auto; try apply F1; try apply F2.
Qed.

Lemma lex_all_flags m s : flags_chain s 0 (lex_all m s).
Proof. apply lex_from_flags. Qed.
(* ================================================================ 13. the objects of the tokens a process lexes *)
(* Which *token.Token the lexer hands out.  Tokens of a value type (ILLEGAL, IDENT, INT, FLOAT, STRING, comments) come
   from token.Intern / LookupIdent: object number given by the interning table.  All other tokens are the objects
   made once by token.Init (cTokens / c2Tokens / keywords maps) or the package variables EOFT / EOLT: one object
   per type, [OConst ty]. *)
Inductive tobj : Type := OConst (ty : Z) | OValue (id : nat).

Definition is_value_type (ty : Z) : bool :=
  existsb (Z.eqb ty) [token_ILLEGAL; token_IDENT; token_INT; token_FLOAT; token_STRING; token_LINECOMMENT;
                      token_BLOCKCOMMENT].

Definition obj_of (st : istate) (t : ltok) : tobj * istate :=
  if is_value_type (lt_type t) then
    let '(id, st') := intern st (lt_type t, lt_lit t) in (OValue id, st')
  else (OConst (lt_type t), st).

Fixpoint objs_of (st : istate) (toks : list ltok) : list (ltok * tobj) * istate :=
  match toks with
  | [] => ([], st)
  | t :: rest =>
    let '(o, st1) := obj_of st t in
    let '(os, st2) := objs_of st1 rest in ((t, o) :: os, st2)
  end.

(* a process lexes the inputs of h one after the other (each with its own lexer, in its own mode); all the tokens it
   ever receives, with their objects, in order *)
Fixpoint lex_history (st : istate) (h : list (bool * list N)) : list (ltok * tobj) * istate :=
  match h with
  | [] => ([], st)
  | (m, s) :: h' =>
    let '(os, st1) := objs_of st (lex_all m s) in
    let '(os', st2) := lex_history st1 h' in (os ++ os', st2)
  end.

(* literal of the tokens of a constant type *)
Definition const_table : list (Z * list N) :=
  map (fun e => (fst e, [snd e])) single_char_tokens ++
  map (fun e => (fst e, [fst (snd e); snd (snd e)])) two_char_tokens ++
  map (fun e => (snd e, fst e)) keyword_tokens ++
  [(token_EOF, []); (token_EOL, [])].

Fixpoint keys_distinct (l : list Z) : bool :=
  match l with
  | [] => true
  | k :: l' => negb (existsb (Z.eqb k) l') && keys_distinct l'
  end.

(* every constant token type has exactly one literal (side condition on the generated tables) *)
Lemma const_table_functional : keys_distinct (map fst const_table) = true.
Proof. vm_compute. reflexivity. Qed.

Lemma keys_distinct_functional (l : list (Z * list N)) :
  keys_distinct (map fst l) = true -> forall k a b, In (k, a) l -> In (k, b) l -> a = b.
Proof.
  induction l as [|[k0 a0] l IH]; cbn [map fst keys_distinct]; intros H k a b Ha Hb; [destruct Ha|].
  apply andb_prop in H. destruct H as [H1 H2]. apply negb_true_iff in H1.
  assert (Hno : forall x, In (k0, x) l -> False).
  { intros x Hx. assert (E : existsb (Z.eqb k0) (map fst l) = true).
    { apply existsb_exists. exists k0. split; [|apply Z.eqb_refl]. apply in_map_iff. exists (k0, x). auto. }
    congruence. }
  destruct Ha as [Ha|Ha], Hb as [Hb|Hb].
  - congruence.
  - inversion Ha; subst. exfalso. eapply Hno; eauto.
  - inversion Hb; subst. exfalso. eapply Hno; eauto.
  - eapply IH; eauto.
Qed.

Lemma value_types_not_op ty : is_op_type ty = true -> is_value_type ty = false.
Proof.
  intros H. destruct (is_op_type_not_special ty H) as (A1 & A2 & A3 & A4 & A5 & A6 & A7 & A8 & A9 & _).
  unfold is_value_type. cbn [existsb].
  repeat match goal with Hn : ty <> ?c |- _ => apply Z.eqb_neq in Hn; try rewrite Hn; clear Hn end.
  reflexivity.
Qed.

(* a token of a constant type carries the literal of the table *)
Lemma scan_case_const lm r ty lit k :
  scan_case lm r ty lit k -> is_value_type ty = false -> In (ty, lit) const_table.
Proof.
  intros H V. unfold const_table. destruct H; try (vm_compute in V; discriminate V).
  - apply in_or_app. left. apply in_map_iff. exists (ty, ch). auto.
  - apply in_or_app. right. apply in_or_app. left. apply in_map_iff. exists (ty, (c1, c2)). auto.
  - apply in_or_app. right. apply in_or_app. right. apply in_or_app. right. right. now left.
  - apply in_or_app. right. apply in_or_app. right. apply in_or_app. right.
    destruct lm; [right|]; now left.
  - destruct H as [H|H]; subst ty; vm_compute in V; discriminate V.
  - apply in_or_app. right. apply in_or_app. right. apply in_or_app. left.
    unfold lookup_ident, lookup_keyword in *.
    destruct (lookup_keyword_in keyword_tokens (firstn k r)) as [t|] eqn:E; [|vm_compute in V; discriminate V].
    apply lookup_keyword_in_spec in E. destruct E as [kw [Hin Hk]]. apply bytes_eqb_eq in Hk. subst kw.
    apply in_map_iff. exists (firstn k r, t). auto.
Qed.

Lemma lex_all_const_lit m s t :
  In t (lex_all m s) -> is_value_type (lt_type t) = false -> In (lt_type t, lt_lit t) const_table.
Proof. intros Hin V. destruct (lex_all_tok_at m s t Hin) as [_ C]. exact (scan_case_const _ _ _ _ _ C V). Qed.

(* what is needed of a token for the object theorem *)
Definition tok_lit_ok (t : ltok) : Prop :=
  is_value_type (lt_type t) = false -> In (lt_type t, lt_lit t) const_table.

Definition obj_inv (st : istate) (p : ltok * tobj) : Prop :=
  match snd p with
  | OConst ty => is_value_type (lt_type (fst p)) = false /\ ty = lt_type (fst p)
  | OValue id => is_value_type (lt_type (fst p)) = true /\
                 i_lookup (i_tbl st) (lt_type (fst p), lt_lit (fst p)) = Some id
  end.

Lemma obj_inv_mono st st' p :
  (forall k id, i_lookup (i_tbl st) k = Some id -> i_lookup (i_tbl st') k = Some id) ->
  obj_inv st p -> obj_inv st' p.
Proof. intros M. unfold obj_inv. destruct (snd p); intros [A B]; split; auto. Qed.

Lemma objs_of_spec toks : forall st,
  i_wf st ->
  let '(os, st') := objs_of st toks in
  i_wf st' /\
  (forall k id, i_lookup (i_tbl st) k = Some id -> i_lookup (i_tbl st') k = Some id) /\
  Forall (obj_inv st') os /\ map fst os = toks.
Proof.
  induction toks as [|t toks IH]; intros st W; cbn [objs_of].
  - split; [exact W|]. split; [auto|]. split; [constructor|reflexivity].
  - unfold obj_of. destruct (is_value_type (lt_type t)) eqn:V.
    + pose proof (intern_spec st (lt_type t, lt_lit t) W) as I.
      destruct (intern st (lt_type t, lt_lit t)) as [id st1]. destruct I as [W1 [L1 M1]].
      specialize (IH st1 W1). destruct (objs_of st1 toks) as [os st2]. destruct IH as [W2 [M2 [F2 E2]]].
      split; [exact W2|]. split; [auto|]. split; [|cbn [map fst]; now rewrite E2].
      constructor; [|exact F2]. unfold obj_inv. cbn [fst snd]. auto.
    + specialize (IH st W). destruct (objs_of st toks) as [os st2]. destruct IH as [W2 [M2 [F2 E2]]].
      split; [exact W2|]. split; [auto|]. split; [|cbn [map fst]; now rewrite E2].
      constructor; [|exact F2]. unfold obj_inv. cbn [fst snd]. auto.
Qed.

Lemma lex_history_spec h : forall st,
  i_wf st ->
  let '(os, st') := lex_history st h in
  i_wf st' /\
  (forall k id, i_lookup (i_tbl st) k = Some id -> i_lookup (i_tbl st') k = Some id) /\
  Forall (obj_inv st') os /\ Forall (fun p => tok_lit_ok (fst p)) os.
Proof.
  induction h as [|[m s] h IH]; intros st W; cbn [lex_history].
  - split; [exact W|]. split; [auto|]. split; constructor.
  - pose proof (objs_of_spec (lex_all m s) st W) as O. destruct (objs_of st (lex_all m s)) as [os st1].
    destruct O as [W1 [M1 [F1 E1]]]. specialize (IH st1 W1). destruct (lex_history st1 h) as [os' st2].
    destruct IH as [W2 [M2 [F2 G2]]]. split; [exact W2|]. split; [auto|]. split.
    + apply Forall_app. split; [|exact F2]. eapply Forall_impl; [|exact F1]. intros p. now apply obj_inv_mono.
    + apply Forall_app. split; [|exact G2]. rewrite Forall_forall. intros p Hp. unfold tok_lit_ok. intros V.
      apply (lex_all_const_lit m s); [|exact V]. rewrite <- E1. now apply in_map.
Qed.

(* After token.Init, whatever inputs a process lexes, in whatever modes and order: two tokens it received are the
   same object iff they have the same type and literal. *)
Lemma lex_history_objects h :
  let os := fst (lex_history i_init h) in
  forall a b ta oa tb ob,
    nth_error os a = Some (ta, oa) -> nth_error os b = Some (tb, ob) ->
    (oa = ob <-> (lt_type ta = lt_type tb /\ lt_lit ta = lt_lit tb)).
Proof.
  pose proof (lex_history_spec h i_init i_init_wf) as H. destruct (lex_history i_init h) as [os st].
  destruct H as [[W1 W2] [_ [F G]]]. cbn [fst]. intros a b ta oa tb ob Ha Hb.
  rewrite Forall_forall in F, G.
  pose proof (F _ (nth_error_In _ _ Ha)) as Fa. pose proof (F _ (nth_error_In _ _ Hb)) as Fb.
  pose proof (G _ (nth_error_In _ _ Ha)) as Ga. pose proof (G _ (nth_error_In _ _ Hb)) as Gb.
  unfold obj_inv, tok_lit_ok in *. cbn [fst snd] in *.
  destruct oa as [tya|ida], ob as [tyb|idb].
  - destruct Fa as [Va ->], Fb as [Vb ->]. split.
    + intros E. injection E as E'. split; [exact E'|].
      specialize (Ga Va). specialize (Gb Vb). rewrite E' in Ga.
      exact (keys_distinct_functional _ const_table_functional _ _ _ Ga Gb).
    + intros [E _]. now rewrite E.
  - destruct Fa as [Va _], Fb as [Vb _]. split; [discriminate|]. intros [E _]. rewrite E in Va. congruence.
  - destruct Fa as [Va _], Fb as [Vb _]. split; [discriminate|]. intros [E _]. rewrite E in Va. congruence.
  - destruct Fa as [_ La], Fb as [_ Lb]. split.
    + intros E. injection E as E'. subst idb. pose proof (W2 _ _ _ La Lb) as K. injection K as K1 K2. auto.
    + intros [E1 E2]. rewrite E1, E2 in La. congruence.
Qed.
