(* Lemmas about coq/model/Lexer.v for property C16 (the lexer is lossless: tokens tile the input).

   Plan: (1) specification vocabulary; (2) side conditions on the generated tables and byte predicates,
   recomputed by vm_compute / reflexivity on every run; (3) one lemma per readX function; (4) scan_token_case:
   every result of scan_token is described by one constructor of [scan_case]; (5) next_token / lex_from
   induction: tiling, end marker; (6) the per-token theorems by inversion of scan_case; (7) interning. *)
From Coq Require Import List ZArith NArith Bool Arith Lia.
From Coq Require Import ZifyN ZifyNat ZifyBool.
From GrolGen Require Import Gen_Consts Gen_Token Gen_ByteClass.
From GrolModel Require Import Lexer.
Import ListNotations.
Local Open Scope N_scope.

(* ================================================================ 1. specification vocabulary *)

(* the bytes a token spans: input[lt_start : lt_end] *)
Definition span (s : list N) (t : ltok) : list N :=
  firstn (lt_end t - lt_start t) (skipn (lt_start t) s).

(* every position in [a, b) holds a whitespace byte of the input *)
Definition ws_only (s : list N) (a b : nat) : Prop :=
  forall i, (a <= i < b)%nat -> exists c, nth_error s i = Some c /\ isWhiteSpace c = true.

(* tokens scanned one after the other starting at position p: each starts at or after the end of the previous
   one, the bytes in between are whitespace, and no span is empty *)
Fixpoint chain (s : list N) (p : nat) (toks : list ltok) : Prop :=
  match toks with
  | [] => True
  | t :: rest =>
    (p <= lt_start t)%nat /\ ws_only s p (lt_start t) /\ (lt_start t < lt_end t)%nat /\ chain s (lt_end t) rest
  end.

Definition end_type (lineMode : bool) : Z := if lineMode then token_EOL else token_EOF.

(* hex digits, most significant first (readHex / readUnicode16 / readUnicode32) *)
Definition hex_value (h : list N) : N := fold_left (fun acc c => acc * 16 + hex_val c) h 0.

(* [str_body dq sep raw content]: raw (the bytes between the delimiters) contains no unescaped delimiter and
   decodes to content.  dq = the delimiter is the double quote (escapes are interpreted). *)
Inductive str_body (dq : bool) (sep : N) : list N -> list N -> Prop :=
| sb_nil : str_body dq sep [] []
| sb_char : forall c raw out,
    (dq && (c =? 92)) = false -> c <> sep -> str_body dq sep raw out -> str_body dq sep (c :: raw) (c :: out)
| sb_simple : forall e v raw out,
    dq = true -> assoc_byte simple_escapes e = Some v -> str_body dq sep raw out ->
    str_body dq sep (92 :: e :: raw) (v :: out)
| sb_u16 : forall h raw out,
    dq = true -> assoc_byte simple_escapes 117 = None -> length h = 4%nat -> str_body dq sep raw out ->
    str_body dq sep (92 :: 117 :: h ++ raw) (encode_rune (hex_value h) ++ out)
| sb_u32 : forall h raw out,
    dq = true -> assoc_byte simple_escapes 85 = None -> length h = 8%nat -> str_body dq sep raw out ->
    str_body dq sep (92 :: 85 :: h ++ raw) (encode_rune (hex_value h) ++ out)
| sb_hex : forall h raw out,
    dq = true -> assoc_byte simple_escapes 120 = None -> length h = 2%nat -> str_body dq sep raw out ->
    str_body dq sep (92 :: 120 :: h ++ raw) (hex_value h :: out)
| sb_other : forall e raw out,
    dq = true -> assoc_byte simple_escapes e = None -> e <> 117 -> e <> 85 -> e <> 120 ->
    str_body dq sep raw out -> str_body dq sep (92 :: e :: raw) (e :: out).

(* no closing delimiter: r (the input after an opening delimiter sep) cannot be split into a string body,
   the delimiter, and a rest *)
Definition unterminated (sep : N) (r : list N) : Prop :=
  forall raw rest content, r = raw ++ sep :: rest -> ~ str_body (sep =? 34) sep raw content.

(* "*/" occurs in l (the byte following the last one taken as not '/') *)
Fixpoint has_close (l : list N) : bool :=
  match l with
  | a :: l' => ((a =? 42) && (hd0 l' =? 47)) || has_close l'
  | [] => false
  end.

(* operator / keyword token types: strictly between endValueTokens and EOF *)
Definition is_op_type (ty : Z) : bool := (Z.ltb token_endValueTokens ty && Z.ltb ty token_EOF)%Z.

(* What NextToken did at a token start.  r = input from the token start, result (type, literal, k) with
   k = l.pos - start after the call. *)
Inductive scan_case (lm : bool) (r : list N) : Z -> list N -> nat -> Prop :=
| SC_const1 : forall ch r1 ty,
    r = ch :: r1 -> In (ty, ch) single_char_tokens -> is_op_type ty = true ->
    scan_case lm r ty [ch] 1
| SC_const2 : forall c1 c2 r2 ty,
    r = c1 :: c2 :: r2 -> In (ty, (c1, c2)) two_char_tokens -> is_op_type ty = true ->
    scan_case lm r ty [c1; c2] 2
| SC_line : forall body rest,
    r = 47 :: 47 :: body ++ rest -> Forall (fun c => c <> 10) body -> (rest = [] \/ hd0 rest = 10 /\ rest <> []) ->
    scan_case lm r token_LINECOMMENT (trim_space (47 :: 47 :: body)) (2 + length body)
| SC_block_closed : forall pre rest,
    r = 47 :: 42 :: pre ++ 42 :: 47 :: rest -> has_close (pre ++ [42]) = false ->
    scan_case lm r token_BLOCKCOMMENT (47 :: 42 :: pre ++ [42; 47]) (4 + length pre)
| SC_block_open : forall body,
    r = 47 :: 42 :: body -> has_close body = false ->
    scan_case lm r token_BLOCKCOMMENT r (length r)
| SC_string : forall q raw rest content,
    q = 34 \/ q = 96 -> r = q :: raw ++ q :: rest -> str_body (q =? 34) q raw content ->
    scan_case lm r token_STRING content (length raw + 2)
| SC_unterminated_line : forall q r1 k,
    lm = true -> q = 34 \/ q = 96 -> r = q :: r1 -> unterminated q r1 -> (length r < k)%nat ->
    scan_case lm r token_EOL [] k
| SC_unterminated_file : forall q r1,
    lm = false -> q = 34 \/ q = 96 -> r = q :: r1 -> unterminated q r1 ->
    scan_case lm r token_ILLEGAL r (length r)
| SC_end :
    r = [] -> scan_case lm r (end_type lm) [] 1
| SC_illegal : forall ch r1,
    r = ch :: r1 -> scan_case lm r token_ILLEGAL (encode_rune ch) 1
| SC_number : forall k ty,
    ty = token_INT \/ ty = token_FLOAT -> (1 <= k <= length r)%nat ->
    scan_case lm r ty (firstn k r) k
| SC_ident : forall k,
    (1 <= k <= length r)%nat ->
    scan_case lm r (lookup_ident (firstn k r)) (firstn k r) k.

(* ================================================================ 2. side conditions on generated data *)

(* the loops `for p(l.peekChar()) { l.pos++ }` terminate at the end of input: p 0 = false *)
Lemma byte_class_sane :
  isWhiteSpace 0 = false /\ IsAlphaNum 0 = false /\ isDigitOrUnderscore 0 = false /\ isHexDigit 0 = false /\
  isBinaryDigit 0 = false /\ notEOL 0 = false /\ isDigit 0 = false /\ isLetter 0 = false.
Proof. vm_compute. repeat split. Qed.

(* the token types with a special role are not operator/keyword types *)
Lemma special_types_not_op :
  forallb (fun t => negb (is_op_type t))
    [token_ILLEGAL; token_EOL; token_IDENT; token_INT; token_FLOAT; token_STRING; token_LINECOMMENT;
     token_BLOCKCOMMENT; token_EOF] = true.
Proof. vm_compute. reflexivity. Qed.

Lemma special_types_nonneg :
  forallb (fun t => Z.leb 0 t)
    [token_ILLEGAL; token_EOL; token_IDENT; token_INT; token_FLOAT; token_STRING; token_LINECOMMENT;
     token_BLOCKCOMMENT; token_EOF] = true.
Proof. vm_compute. reflexivity. Qed.

(* the bytes for which NextToken returns ConstantTokenChar(ch) *)
Definition single_starts : list N :=
  [61; 33; 58; 43; 45; 37; 42; 59; 44; 123; 125; 40; 41; 91; 93; 94; 126; 47; 124; 38; 60; 62; 46].
(* the byte pairs for which NextToken returns ConstantTokenChar2(ch, nextChar) *)
Definition double_starts : list (N * N) :=
  [(61, 61); (33, 61); (58, 61); (61, 62); (43, 43); (45, 45); (124, 124); (38, 38); (60, 60); (62, 62);
   (60, 61); (62, 61); (46, 46)].

Definition single_ok (c : N) : bool :=
  match lookup_single c with
  | Some t => existsb (fun e => Z.eqb (fst e) t && (snd e =? c)) single_char_tokens && is_op_type t && (c <=? 127)
  | None => false
  end.

Definition double_ok (p : N * N) : bool :=
  match lookup_double (fst p) (snd p) with
  | Some t => existsb (fun e => Z.eqb (fst e) t && (fst (snd e) =? fst p) && (snd (snd e) =? snd p)) two_char_tokens
              && is_op_type t && negb (snd p =? 0)
  | None => false
  end.

(* every byte / byte pair the switch of NextToken sends to a constant token has a table entry, of operator type *)
Lemma single_starts_ok : forallb single_ok single_starts = true.
Proof. vm_compute. reflexivity. Qed.

Lemma double_starts_ok : forallb double_ok double_starts = true.
Proof. vm_compute. reflexivity. Qed.

(* keyword types are operator/keyword types (so never IDENT, EOF, ...) *)
Lemma keyword_types_ok : forallb (fun e => is_op_type (snd e)) keyword_tokens = true.
Proof. vm_compute. reflexivity. Qed.

(* ================================================================ basic list facts *)

Lemma skipn_add {A} (a b : nat) (l : list A) : skipn b (skipn a l) = skipn (a + b) l.
Proof.
  revert l. induction a; intros l; cbn [skipn plus]; [reflexivity|].
  destruct l; [now rewrite skipn_nil|]. apply IHa.
Qed.

Lemma nth_error_skipn' {A} (a i : nat) (l : list A) : nth_error (skipn a l) i = nth_error l (a + i).
Proof.
  revert l. induction a; intros l; cbn [skipn plus]; [reflexivity|].
  destruct l; [now destruct i|]. apply IHa.
Qed.

Lemma hd0_nz r : hd0 r <> 0 -> exists c r', r = c :: r' /\ c = hd0 r.
Proof. destruct r as [|c r']; cbn; [congruence|]. intros _. eauto. Qed.

Lemma tl_length {A} (l : list A) : length (tl l) = (length l - 1)%nat.
Proof. destruct l; cbn; lia. Qed.

Lemma skipn_S_tl {A} n (l : list A) : skipn (S n) l = skipn n (tl l).
Proof. destruct l; cbn [skipn tl]; [now rewrite skipn_nil|reflexivity]. Qed.

Lemma skipn_cons_hd (r : list N) n c r' : skipn n r = c :: r' -> skipn (S n) r = r'.
Proof.
  intros H. replace (S n) with (n + 1)%nat by lia. rewrite <- skipn_add, H. reflexivity.
Qed.

Lemma span_len_le p r : (span_len p r <= length r)%nat.
Proof. induction r as [|c r IH]; cbn; [lia|]. destruct (p c); cbn; lia. Qed.

Lemma span_len_all p r i :
  (i < span_len p r)%nat -> exists c, nth_error r i = Some c /\ p c = true.
Proof.
  revert i. induction r as [|c r IH]; intros i; cbn; [lia|].
  destruct (p c) eqn:E; [|lia]. destruct i; cbn; [eauto|]. intros. apply IH. lia.
Qed.

Lemma span_len_stop p r :
  skipn (span_len p r) r = [] \/ exists c r', skipn (span_len p r) r = c :: r' /\ p c = false.
Proof.
  induction r as [|c r IH]; cbn; [now left|].
  destruct (p c) eqn:E; cbn [skipn]; [exact IH|]. right. eauto.
Qed.

Lemma span_len_split p r :
  r = firstn (span_len p r) r ++ skipn (span_len p r) r /\
  Forall (fun c => p c = true) (firstn (span_len p r) r) /\
  length (firstn (span_len p r) r) = span_len p r.
Proof.
  split; [now rewrite firstn_skipn|]. split.
  - induction r as [|c r IH]; cbn; [constructor|]. destruct (p c) eqn:E; cbn; [|constructor].
    constructor; assumption.
  - rewrite firstn_length. pose proof (span_len_le p r). lia.
Qed.

Lemma one_of_forallb ch l P : one_of ch l = true -> forallb P l = true -> P ch = true.
Proof.
  unfold one_of. rewrite existsb_exists, forallb_forall. intros [x [Hin Hx]] H.
  apply N.eqb_eq in Hx. subst. auto.
Qed.

Lemma is_op_type_not_special ty :
  is_op_type ty = true ->
  ty <> token_ILLEGAL /\ ty <> token_EOL /\ ty <> token_IDENT /\ ty <> token_INT /\ ty <> token_FLOAT /\
  ty <> token_STRING /\ ty <> token_LINECOMMENT /\ ty <> token_BLOCKCOMMENT /\ ty <> token_EOF /\ (0 <= ty)%Z.
Proof.
  intros H. pose proof special_types_not_op as S. cbn [forallb] in S.
  repeat (apply andb_prop in S; destruct S as [?S0 S]).
  repeat split; try (intros ->; rewrite H in *; discriminate).
  unfold is_op_type in H. apply andb_prop in H. destruct H as [H _].
  assert (0 <= token_endValueTokens)%Z by (vm_compute; discriminate). lia.
Qed.
