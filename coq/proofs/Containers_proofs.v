(* Lemmas about the container machine (coq/model/Containers.v): the heap model with the repairs (cow = true)
   refines the pure, threshold-free value model, for every capacity oracle that returns at least what is needed. *)
From Coq Require Import List ZArith Bool Arith Lia.
From GrolModel Require Import Containers.
Import ListNotations.

(* ------------------------------------------------------------------ generic list facts *)

Lemma firstn_skipn_comm' : forall {A} (a b : nat) (l : list A),
  skipn a (firstn (a + b) l) = firstn b (skipn a l).
Proof.
  induction a; intros; simpl; auto.
  destruct l; simpl; auto. now rewrite firstn_nil.
Qed.

Lemma skipn_skipn' : forall {A} (a b : nat) (l : list A), skipn a (skipn b l) = skipn (b + a) l.
Proof.
  intros A a b. revert a. induction b; intros; simpl; auto.
  destruct l; simpl; auto. now rewrite skipn_nil.
Qed.

Lemma window_some : forall {A} (l : list A) off len w,
  window l off len = Some w <-> off + len <= length l /\ w = firstn len (skipn off l).
Proof.
  intros. unfold window. destruct (off + len <=? length l) eqn:E.
  - apply Nat.leb_le in E. split; [intros H; inversion H; auto | intros [_ ->]; auto].
  - apply Nat.leb_gt in E. split; [discriminate | intros [H _]; lia].
Qed.

Lemma window_length : forall {A} (l : list A) off len w, window l off len = Some w -> length w = len.
Proof.
  intros. apply window_some in H as [H ->]. rewrite firstn_length, skipn_length. lia.
Qed.

Lemma window_decomp : forall {A} (l : list A) off len w,
  window l off len = Some w ->
  l = firstn off l ++ w ++ skipn (off + len) l /\ length (firstn off l) = off /\ length w = len.
Proof.
  intros. pose proof (window_length _ _ _ _ H) as HL.
  apply window_some in H as [H ->]. repeat split; auto.
  - rewrite <- (firstn_skipn off l) at 1. f_equal.
    rewrite <- (firstn_skipn len (skipn off l)) at 1. f_equal. now rewrite skipn_skipn'.
  - rewrite firstn_length. lia.
Qed.

Lemma window_of_decomp : forall {A} (pre w post : list A) n,
  n = length w -> window (pre ++ w ++ post) (length pre) n = Some w.
Proof.
  intros. subst. apply window_some. split.
  - rewrite !app_length. lia.
  - rewrite skipn_app, skipn_all, Nat.sub_diag. simpl.
    rewrite firstn_app, Nat.sub_diag, firstn_all. simpl. now rewrite app_nil_r.
Qed.

(* splicing inside / at the end of a window *)
Lemma splice_window : forall {A} (l : list A) off len w i new,
  window l off len = Some w -> i <= len ->
  exists l', splice l (off + i) new = Some l' /\
    window l' off (i + length new) = Some (firstn i w ++ new) /\
    (i + length new <= len -> window l' off len = Some (firstn i w ++ new ++ skipn (i + length new) w)) /\
    length l <= length l'.
Proof.
  intros A l off len w i new H Hi.
  destruct (window_decomp _ _ _ _ H) as (Hl & Hpre & Hw).
  set (pre := firstn off l) in *. set (post := skipn (off + len) l) in *.
  assert (Hlen : length l = off + len + length post) by (rewrite Hl at 1; rewrite !app_length; lia).
  unfold splice. replace (off + i <=? length l) with true by (symmetry; apply Nat.leb_le; lia).
  eexists. split; [reflexivity|].
  assert (F : firstn (off + i) l = pre ++ firstn i w).
  { rewrite Hl at 1. rewrite firstn_app, Hpre.
    replace (off + i - off) with i by lia.
    rewrite firstn_app, (firstn_all2 (n := off + i) pre) by lia.
    f_equal. rewrite Hw. replace (i - len) with 0 by lia. simpl. now rewrite app_nil_r. }
  rewrite F.
  assert (Hfi : length (firstn i w) = i) by (rewrite firstn_length; lia).
  rewrite <- app_assoc.
  replace off with (length pre) at 2 4 by auto.
  split; [|split].
  - rewrite app_assoc with (l := firstn i w). rewrite <- (app_nil_r ((firstn i w ++ new) ++ _)).
    rewrite <- app_assoc.
    replace (skipn (off + i + length new) l ++ []) with (skipn (off + i + length new) l) by now rewrite app_nil_r.
    apply window_of_decomp. rewrite app_length. lia.
  - intros Hle.
    assert (S : skipn (off + i + length new) l = skipn (i + length new) w ++ post).
    { rewrite Hl at 1. rewrite skipn_app, Hpre, (skipn_all2 (n := off + i + length new) pre) by lia. simpl.
      replace (off + i + length new - off) with (i + length new) by lia.
      rewrite skipn_app. f_equal. rewrite Hw. replace (i + length new - len) with 0 by lia. reflexivity. }
    rewrite S.
    replace (firstn i w ++ new ++ skipn (i + length new) w ++ post)
      with ((firstn i w ++ new ++ skipn (i + length new) w) ++ post)
      by (now rewrite <- !app_assoc).
    apply window_of_decomp. rewrite !app_length, skipn_length. lia.
  - rewrite !app_length, skipn_length. rewrite Hlen. lia.
Qed.

Lemma set_nth_spec : forall {A} (l : list A) k x,
  k < length l -> set_nth l k x = Some (firstn k l ++ [x] ++ skipn (S k) l).
Proof.
  induction l; intros; simpl in *; [lia|].
  destruct k; simpl; auto. rewrite IHl by lia. reflexivity.
Qed.

Lemma set_nth_none : forall {A} (l : list A) k x, length l <= k -> set_nth l k x = None.
Proof.
  induction l; intros; simpl in *; auto.
  destruct k; [lia|]. rewrite IHl by lia. reflexivity.
Qed.

Lemma set_nth_length : forall {A} (l : list A) k x l', set_nth l k x = Some l' -> length l' = length l.
Proof.
  induction l; intros; simpl in *; [discriminate|].
  destruct k; [inversion H; auto|].
  destruct (set_nth l k x) eqn:E; [|discriminate]. inversion H. simpl. f_equal. eauto.
Qed.

Lemma set_nth_same : forall {A} (l : list A) k x l', set_nth l k x = Some l' -> nth_error l' k = Some x.
Proof.
  induction l; intros; simpl in *; [discriminate|].
  destruct k; [inversion H; auto|].
  destruct (set_nth l k x) eqn:E; [|discriminate]. inversion H. simpl. eauto.
Qed.

Lemma set_nth_other : forall {A} (l : list A) k x l' j, set_nth l k x = Some l' -> j <> k -> nth_error l' j = nth_error l j.
Proof.
  induction l; intros; simpl in *; [discriminate|].
  destruct k.
  - inversion H. destruct j; [congruence|reflexivity].
  - destruct (set_nth l k x) eqn:E; [|discriminate]. inversion H. destruct j; simpl; auto.
    eapply IHl; eauto.
Qed.

Lemma set_nth_some : forall {A} (l : list A) k x, k < length l -> exists l', set_nth l k x = Some l'.
Proof. intros. rewrite set_nth_spec by auto. eauto. Qed.

(* Forall2 transport *)
Section F2.
  Context {A B : Type} (R : A -> B -> Prop).

  Lemma F2_length : forall l pl, Forall2 R l pl -> length l = length pl.
  Proof. induction 1; simpl; auto. Qed.

  Lemma F2_firstn : forall n l pl, Forall2 R l pl -> Forall2 R (firstn n l) (firstn n pl).
  Proof. induction n; intros; simpl; [constructor|]. destruct H; constructor; auto. Qed.

  Lemma F2_skipn : forall n l pl, Forall2 R l pl -> Forall2 R (skipn n l) (skipn n pl).
  Proof. induction n; intros; simpl; auto. destruct H; [constructor|auto]. Qed.

  Lemma F2_app : forall l pl l' pl', Forall2 R l pl -> Forall2 R l' pl' -> Forall2 R (l ++ l') (pl ++ pl').
  Proof. induction 1; simpl; auto. Qed.

  Lemma F2_nth : forall l pl i x, Forall2 R l pl -> nth_error l i = Some x -> exists y, nth_error pl i = Some y /\ R x y.
  Proof.
    intros l pl i x H. revert i. induction H; intros; destruct i; simpl in *; try discriminate.
    - inversion H1; subst. eauto.
    - eauto.
  Qed.

  Lemma F2_nth_none : forall l pl i, Forall2 R l pl -> nth_error l i = None -> nth_error pl i = None.
  Proof.
    intros. apply nth_error_None. apply nth_error_None in H0. rewrite <- (F2_length _ _ H). auto.
  Qed.

  Lemma F2_window : forall l pl off len w, Forall2 R l pl -> window l off len = Some w ->
    exists pw, window pl off len = Some pw /\ Forall2 R w pw.
  Proof.
    intros. apply window_some in H0 as [H0 ->].
    exists (firstn len (skipn off pl)). split.
    - apply window_some. split; auto. rewrite <- (F2_length _ _ H). auto.
    - apply F2_firstn, F2_skipn; auto.
  Qed.

  Lemma F2_window_none : forall l pl off len, Forall2 R l pl -> window l off len = None -> window pl off len = None.
  Proof.
    intros. unfold window in *. rewrite <- (F2_length _ _ H).
    destruct (off + len <=? length l); [discriminate|auto].
  Qed.

  Lemma F2_set_nth : forall l pl k x y l', Forall2 R l pl -> R x y -> set_nth l k x = Some l' ->
    exists pl', set_nth pl k y = Some pl' /\ Forall2 R l' pl'.
  Proof.
    intros l pl k x y l' H. revert k l'. induction H; intros; simpl in *; [discriminate|].
    destruct k.
    - inversion H2; subst. eexists; split; eauto.
    - destruct (set_nth l k x) eqn:E; [|discriminate]. inversion H2; subst.
      destruct (IHForall2 _ _ H1 E) as (pl' & -> & HF). eexists; split; eauto.
  Qed.

  Lemma F2_repeat_list : forall n l pl, Forall2 R l pl -> Forall2 R (repeat_list l n) (repeat_list pl n).
  Proof. induction n; intros; simpl; [constructor|]. apply F2_app; auto. Qed.
End F2.

Lemma F2_impl : forall {A B} (R R' : A -> B -> Prop) l pl,
  (forall a b, R a b -> R' a b) -> Forall2 R l pl -> Forall2 R' l pl.
Proof. induction 2; constructor; auto. Qed.

(* pair lists with equal keys *)
Definition RKV {A B} (R : A -> B -> Prop) (a : Z * A) (b : Z * B) : Prop := fst a = fst b /\ R (snd a) (snd b).

Section KV.
  Context {A B : Type} (R : A -> B -> Prop).

  Lemma kv_find_rel : forall (l : list (Z * A)) (pl : list (Z * B)) k i,
    Forall2 (RKV R) l pl -> kv_find l k i = kv_find pl k i.
  Proof.
    intros l pl k i H. revert i. induction H; intros; simpl; auto.
    destruct x as [k1 v1], y as [k2 v2]. destruct H as [H _]. simpl in H. subst.
    destruct (k2 ?= k)%Z; auto.
  Qed.

  Lemma F2_insert_at : forall l pl i x y, Forall2 (RKV R) l pl -> RKV R x y ->
    Forall2 (RKV R) (insert_at l i x) (insert_at pl i y).
  Proof.
    intros. unfold insert_at. apply F2_app; [apply F2_firstn; auto|]. constructor; auto. apply F2_skipn; auto.
  Qed.

  Lemma F2_remove_at : forall l pl i, Forall2 (RKV R) l pl -> Forall2 (RKV R) (remove_at l i) (remove_at pl i).
  Proof. intros. unfold remove_at. apply F2_app; [apply F2_firstn|apply F2_skipn]; auto. Qed.

  Lemma F2_set_val_at : forall l pl i x y, Forall2 (RKV R) l pl -> R x y ->
    Forall2 (RKV R) (set_val_at l i x) (set_val_at pl i y).
  Proof.
    intros l pl i x y H. revert i. induction H; intros; simpl; [constructor|].
    destruct x0 as [k1 v1], y0 as [k2 v2]. destruct H as [H H']. simpl in *. subst.
    destruct i; constructor; auto; split; auto.
  Qed.

  Lemma F2_kv_set : forall l pl k x y, Forall2 (RKV R) l pl -> R x y ->
    Forall2 (RKV R) (kv_set l k x) (kv_set pl k y).
  Proof.
    intros. unfold kv_set. rewrite (kv_find_rel _ _ k 0 H).
    destruct (kv_find pl k 0) as [[|] i].
    - apply F2_set_val_at; auto.
    - apply F2_insert_at; auto. split; auto.
  Qed.

  Lemma F2_kv_del : forall l pl k, Forall2 (RKV R) l pl ->
    match kv_del l k, kv_del pl k with
    | Some l', Some pl' => Forall2 (RKV R) l' pl'
    | None, None => True
    | _, _ => False
    end.
  Proof.
    intros. unfold kv_del. rewrite (kv_find_rel _ _ k 0 H).
    destruct (kv_find pl k 0) as [[|] i]; auto. apply F2_remove_at; auto.
  Qed.

  Lemma F2_kv_get : forall l pl k, Forall2 (RKV R) l pl ->
    match kv_get l k, kv_get pl k with
    | Some v, Some p => R v p
    | None, None => True
    | _, _ => False
    end.
  Proof.
    intros. unfold kv_get. rewrite (kv_find_rel _ _ k 0 H).
    destruct (kv_find pl k 0) as [[|] i]; auto.
    destruct (nth_error l i) eqn:E.
    - destruct (F2_nth _ _ _ _ _ H E) as (y & -> & HR). simpl. apply HR.
    - rewrite (F2_nth_none _ _ _ _ H E). simpl. auto.
  Qed.

  Lemma F2_fold_kv_set : forall r pr l pl, Forall2 (RKV R) r pr -> Forall2 (RKV R) l pl ->
    Forall2 (RKV R) (fold_left (fun m kv => kv_set m (fst kv) (snd kv)) r l)
                    (fold_left (fun m kv => kv_set m (fst kv) (snd kv)) pr pl).
  Proof.
    intros r pr l pl H. revert l pl. induction H; intros; simpl; auto.
    apply IHForall2. destruct H as [H H']. rewrite H. apply F2_kv_set; auto.
  Qed.
End KV.

(* kv_find: position facts *)
Lemma kv_find_bounds : forall {A} (l : list (Z * A)) k j b i,
  kv_find l k j = (b, i) -> j <= i <= j + length l /\ (b = true -> i < j + length l).
Proof.
  induction l; intros; simpl in *.
  - inversion H; subst. split; [lia|discriminate].
  - destruct a as [k' v']. destruct (k' ?= k)%Z.
    + inversion H; subst. split; lia.
    + apply IHl in H. destruct H. split; [lia|intros; specialize (H0 H1); lia].
    + inversion H; subst. split; [lia|discriminate].
Qed.

Lemma kv_find_found : forall {A} (l : list (Z * A)) k j i,
  kv_find l k j = (true, i) -> exists v, nth_error l (i - j) = Some (k, v).
Proof.
  induction l; intros; simpl in *; [discriminate|].
  destruct a as [k' v']. destruct (k' ?= k)%Z eqn:E.
  - inversion H; subst. apply Z.compare_eq in E. subst. rewrite Nat.sub_diag. simpl. eauto.
  - pose proof (kv_find_bounds _ _ _ _ _ H) as [Hb _].
    apply IHl in H. destruct H as [v Hv]. replace (i - j) with (S (i - S j)) by lia. simpl. eauto.
  - discriminate.
Qed.

Lemma set_val_at_splice : forall {A} (l : list (Z * A)) i k v0 v,
  nth_error l i = Some (k, v0) -> set_val_at l i v = firstn i l ++ [(k, v)] ++ skipn (S i) l.
Proof.
  induction l; intros; destruct i; simpl in *; try discriminate.
  - inversion H; subst. reflexivity.
  - destruct a. f_equal. eauto.
Qed.

(* ------------------------------------------------------------------ heap facts *)

Definition keeps (n : nat) (h h' : heap) : Prop :=
  length h <= length h' /\ forall id, id < n -> nth_error h' id = nth_error h id.

Lemma keeps_refl : forall n h, keeps n h h.
Proof. split; auto. Qed.

Lemma keeps_trans : forall n h1 h2 h3, keeps n h1 h2 -> keeps n h2 h3 -> keeps n h1 h3.
Proof. intros n h1 h2 h3 [L1 K1] [L2 K2]. split; [lia|]. intros. rewrite K2, K1; auto. Qed.

Lemma keeps_le : forall n m h h', keeps n h h' -> m <= n -> keeps m h h'.
Proof. intros n m h h' [L K] Hm. split; auto. intros. apply K. lia. Qed.

Lemma keeps_alloc : forall n h c, n <= length h -> keeps n h (fst (alloc h c)).
Proof.
  intros. unfold alloc. simpl. split; [rewrite app_length; lia|].
  intros. rewrite nth_error_app1; auto. lia.
Qed.

Lemma alloc_new : forall h c, nth_error (fst (alloc h c)) (length h) = Some c.
Proof. intros. unfold alloc. simpl. rewrite nth_error_app2, Nat.sub_diag; auto. Qed.

Lemma alloc_old : forall h c id, id < length h -> nth_error (fst (alloc h c)) id = nth_error h id.
Proof. intros. unfold alloc. simpl. apply nth_error_app1. auto. Qed.

Lemma alloc_length : forall h c, length (fst (alloc h c)) = S (length h).
Proof. intros. unfold alloc. simpl. rewrite app_length. simpl. lia. Qed.

Lemma keeps_set : forall n h id c h', set_nth h id c = Some h' -> n <= id -> keeps n h h'.
Proof.
  intros. split.
  - rewrite (set_nth_length _ _ _ _ H). auto.
  - intros. eapply set_nth_other; eauto. lia.
Qed.

Lemma read_arr_keeps : forall n h h' s, keeps n h h' -> sid s < n -> read_arr h' s = read_arr h s.
Proof. intros n h h' s [_ K] Hs. unfold read_arr. rewrite K; auto. Qed.
Lemma read_kv_keeps : forall n h h' s, keeps n h h' -> sid s < n -> read_kv h' s = read_kv h s.
Proof. intros n h h' s [_ K] Hs. unfold read_kv. rewrite K; auto. Qed.
Lemma map_hdr_keeps : forall n h h' p, keeps n h h' -> p < n -> map_hdr h' p = map_hdr h p.
Proof. intros n h h' p [_ K] Hs. unfold map_hdr. rewrite K; auto. Qed.

Lemma read_arr_lt : forall h s l, read_arr h s = Some l -> sid s < length h.
Proof.
  unfold read_arr. intros. destruct (nth_error h (sid s)) eqn:E; [|discriminate].
  apply nth_error_Some. congruence.
Qed.
Lemma read_kv_lt : forall h s l, read_kv h s = Some l -> sid s < length h.
Proof.
  unfold read_kv. intros. destruct (nth_error h (sid s)) eqn:E; [|discriminate].
  apply nth_error_Some. congruence.
Qed.
Lemma map_hdr_lt : forall h p s, map_hdr h p = Some s -> p < length h.
Proof.
  unfold map_hdr. intros. destruct (nth_error h p) eqn:E; [|discriminate].
  apply nth_error_Some. congruence.
Qed.

Lemma keeps_len : forall n h h', keeps n h h' -> length h <= length h'.
Proof. intros n h h' [L _]. auto. Qed.
Lemma keeps_nth : forall n h h' id, keeps n h h' -> id < n -> nth_error h' id = nth_error h id.
Proof. intros n h h' id [_ K]. auto. Qed.
Lemma keeps_of_others : forall n h h' id, length h' = length h -> n <= id ->
  (forall j, j <> id -> nth_error h' j = nth_error h j) -> keeps n h h'.
Proof. intros. split; [lia|]. intros. apply H1. lia. Qed.
Global Opaque keeps.

(* ------------------------------------------------------------------ abstraction relation *)

Section ABS.
  (* wf = Some m: the machine invariant (m = MaxSmallArray): an inline array has at most m elements, a large-array
     header has more than m elements, headers have len <= cap.  wf = None: no assumption (used by the reader). *)
  Variable wf : option nat.
  Definition wf_small (l : list val) : Prop := match wf with Some m => length l <= m | None => True end.
  Definition wf_big (s : slice) : Prop := match wf with Some m => m < slen s /\ slen s <= scap s | None => True end.
  Definition wf_hdr (s : slice) : Prop := match wf with Some _ => slen s <= scap s | None => True end.

  Inductive Abs (h : heap) : val -> pval -> Prop :=
  | Abs_int : forall z, Abs h (VInt z) (PInt z)
  | Abs_nil : Abs h VNil PNil
  | Abs_arrS : forall l pl, wf_small l -> AbsL h l pl -> Abs h (VArrS l) (PArr pl)
  | Abs_arrB : forall s l pl, wf_big s -> read_arr h s = Some l -> AbsL h l pl -> Abs h (VArrB s) (PArr pl)
  | Abs_mapS : forall l pl, AbsM h l pl -> Abs h (VMapS l) (PMap pl)
  | Abs_mapB : forall p s l pl, wf_hdr s -> map_hdr h p = Some s -> read_kv h s = Some l -> AbsM h l pl -> Abs h (VMapB p) (PMap pl)
  with AbsL (h : heap) : list val -> list pval -> Prop :=
  | AbsL_nil : AbsL h [] []
  | AbsL_cons : forall v p l pl, Abs h v p -> AbsL h l pl -> AbsL h (v :: l) (p :: pl)
  with AbsM (h : heap) : list (Z * val) -> list (Z * pval) -> Prop :=
  | AbsM_nil : AbsM h [] []
  | AbsM_cons : forall k v p l pl, Abs h v p -> AbsM h l pl -> AbsM h ((k, v) :: l) ((k, p) :: pl).

  Scheme Abs_ind' := Minimality for Abs Sort Prop
    with AbsL_ind' := Minimality for AbsL Sort Prop
    with AbsM_ind' := Minimality for AbsM Sort Prop.
  Combined Scheme Abs_mutind from Abs_ind', AbsL_ind', AbsM_ind'.

  Lemma AbsL_F2 : forall h l pl, AbsL h l pl <-> Forall2 (Abs h) l pl.
  Proof.
    split; induction 1; constructor; auto.
  Qed.

  Lemma AbsM_F2 : forall h l pl, AbsM h l pl <-> Forall2 (RKV (Abs h)) l pl.
  Proof.
    split.
    - induction 1; constructor; auto. split; auto.
    - induction 1; [constructor|]. destruct x, y. destruct H as [H1 H2]. simpl in *. subst. constructor; auto.
  Qed.

  Lemma Abs_keeps_all :
    (forall h v p, Abs h v p -> forall h', keeps (length h) h h' -> Abs h' v p) /\
    (forall h l pl, AbsL h l pl -> forall h', keeps (length h) h h' -> AbsL h' l pl) /\
    (forall h l pl, AbsM h l pl -> forall h', keeps (length h) h h' -> AbsM h' l pl).
  Proof.
    assert (X : forall h,
      (forall v p, Abs h v p -> forall h', keeps (length h) h h' -> Abs h' v p) /\
      (forall l pl, AbsL h l pl -> forall h', keeps (length h) h h' -> AbsL h' l pl) /\
      (forall l pl, AbsM h l pl -> forall h', keeps (length h) h h' -> AbsM h' l pl)).
    { intro h. apply Abs_mutind; intros; try (constructor; auto; fail).
      - econstructor; eauto.
        match goal with K : keeps _ _ _ |- _ => rewrite (read_arr_keeps _ _ _ _ K); auto end. eapply read_arr_lt; eauto.
      - match goal with K : keeps _ _ _ |- _ => econstructor; eauto;
          [rewrite (map_hdr_keeps _ _ _ _ K); eauto; eapply map_hdr_lt; eauto
          |rewrite (read_kv_keeps _ _ _ _ K); eauto; eapply read_kv_lt; eauto] end. }
    repeat split; intros h; destruct (X h) as (X1 & X2 & X3); eauto.
  Qed.

  Lemma Abs_keeps : forall h v p h', Abs h v p -> keeps (length h) h h' -> Abs h' v p.
  Proof. intros. eapply (proj1 Abs_keeps_all); eauto. Qed.

  Lemma Abs_fun_all : forall h,
    (forall v p, Abs h v p -> forall p', Abs h v p' -> p = p') /\
    (forall l pl, AbsL h l pl -> forall pl', AbsL h l pl' -> pl = pl') /\
    (forall l pl, AbsM h l pl -> forall pl', AbsM h l pl' -> pl = pl').
  Proof.
    intro h.
    assert (same : forall {X} (a : option X) x y, a = Some x -> a = Some y -> x = y) by (intros; congruence).
    apply Abs_mutind.
    - intros z p' H; inversion H; auto.
    - intros p' H; inversion H; auto.
    - intros l pl Hwf HL IH p' H; inversion H; subst; f_equal; auto.
    - intros s l pl Hok Hr HL IH p' H; inversion H; subst.
      match goal with H2 : read_arr h s = Some ?b |- _ => tryif constr_eq b l then fail else (pose proof (same _ _ _ _ Hr H2); subst) end. f_equal; auto.
    - intros l pl HL IH p' H; inversion H; subst; f_equal; auto.
    - intros p s l pl Hwf Hh Hr HL IH p' H; inversion H; subst.
      match goal with H2 : map_hdr h p = Some ?b |- _ => tryif constr_eq b s then fail else (pose proof (same _ _ _ _ Hh H2); subst) end.
      match goal with H1 : read_kv h ?x = Some ?a, H2 : read_kv h ?x = Some ?b |- _ =>
        tryif constr_eq a b then fail else (pose proof (same _ _ _ _ H1 H2); subst) end. f_equal; auto.
    - intros pl' H; inversion H; auto.
    - intros v p l pl HA IHA HL IHL pl' H; inversion H; subst. f_equal; auto.
    - intros pl' H; inversion H; auto.
    - intros k v p l pl HA IHA HL IHL pl' H; inversion H; subst. f_equal; auto. f_equal; auto.
  Qed.

  Lemma Abs_fun : forall h v p p', Abs h v p -> Abs h v p' -> p = p'.
  Proof. intros. eapply (proj1 (Abs_fun_all h)); eauto. Qed.
End ABS.

Lemma Abs_forget_all : forall wf h,
  (forall v p, Abs wf h v p -> Abs None h v p) /\
  (forall l pl, AbsL wf h l pl -> AbsL None h l pl) /\
  (forall l pl, AbsM wf h l pl -> AbsM None h l pl).
Proof.
  intros wf h. apply Abs_mutind; intros; try (econstructor; eauto; simpl; auto; fail).
Qed.

(* the executable reader is sound for the relation (no assumption on headers) *)
Lemma read_sound : forall fuel h v p, read fuel h v = Some p -> Abs None h v p.
Proof.
  induction fuel; intros h v p H; simpl in H; [discriminate|].
  set (rl := fix rl (l : list val) : option (list pval) :=
      match l with
      | [] => Some []
      | x :: t => match read fuel h x, rl t with Some p, Some ps => Some (p :: ps) | _, _ => None end
      end) in *.
  set (rm := fix rm (l : list (Z * val)) : option (list (Z * pval)) :=
      match l with
      | [] => Some []
      | (k, x) :: t => match read fuel h x, rm t with Some p, Some ps => Some ((k, p) :: ps) | _, _ => None end
      end) in *.
  assert (RL : forall l pl, rl l = Some pl -> AbsL None h l pl).
  { induction l; intros pl E; simpl in E.
    - inversion E. constructor.
    - destruct (read fuel h a) eqn:E1; [|discriminate]. destruct (rl l) eqn:E2; [|discriminate].
      inversion E; subst. constructor; auto. }
  assert (RM : forall l pl, rm l = Some pl -> AbsM None h l pl).
  { induction l; intros pl E; simpl in E.
    - inversion E. constructor.
    - destruct a as [k x]. destruct (read fuel h x) eqn:E1; [|discriminate]. destruct (rm l) eqn:E2; [|discriminate].
      inversion E; subst. constructor; auto. }
  destruct v.
  - inversion H. constructor.
  - inversion H. constructor.
  - destruct (rl l) eqn:E; inversion H. constructor; simpl; auto.
  - destruct (read_arr h s) eqn:E0; [|discriminate]. destruct (rl l) eqn:E; inversion H.
    econstructor; simpl; eauto.
  - destruct (rm l) eqn:E; inversion H. constructor; auto.
  - destruct (map_hdr h p0) eqn:E0; [|discriminate]. destruct (read_kv h s) eqn:E1; [|discriminate].
    destruct (rm l) eqn:E; inversion H. econstructor; simpl; eauto.
Qed.

(* ------------------------------------------------------------------ the machine with the repairs refines the pure model *)

Ltac splits := repeat match goal with |- _ /\ _ => split end.

(* what Go guarantees of a grown slice: at least the requested length *)
Definition good (o : oracle) : Prop := forall kv c n, n <= o kv c n.

Lemma store_arr_spec : forall h id l pos xs l',
  nth_error h id = Some (CArr l) -> splice l pos xs = Some l' ->
  exists h', store_arr h id pos xs = Some h' /\ nth_error h' id = Some (CArr l') /\
    (forall j, j <> id -> nth_error h' j = nth_error h j) /\ length h' = length h.
Proof.
  intros. unfold store_arr. rewrite H, H0.
  assert (id < length h) by (apply nth_error_Some; congruence).
  destruct (set_nth_some h id (CArr l') H1) as [h' Hh]. exists h'. rewrite Hh.
  splits; auto.
  - eapply set_nth_same; eauto.
  - intros. eapply set_nth_other; eauto.
  - eapply set_nth_length; eauto.
Qed.

Lemma store_kv_spec : forall h id l pos xs l',
  nth_error h id = Some (CKV l) -> splice l pos xs = Some l' ->
  exists h', store_kv h id pos xs = Some h' /\ nth_error h' id = Some (CKV l') /\
    (forall j, j <> id -> nth_error h' j = nth_error h j) /\ length h' = length h.
Proof.
  intros. unfold store_kv. rewrite H, H0.
  assert (id < length h) by (apply nth_error_Some; congruence).
  destruct (set_nth_some h id (CKV l') H1) as [h' Hh]. exists h'. rewrite Hh.
  splits; auto.
  - eapply set_nth_same; eauto.
  - intros. eapply set_nth_other; eauto.
  - eapply set_nth_length; eauto.
Qed.

(* a store inside / at the end of the window of s *)
Lemma store_arr_window : forall h s l k new,
  read_arr h s = Some l -> k <= slen s ->
  exists h', store_arr h (sid s) (soff s + k) new = Some h' /\
    read_arr h' (mkslice (sid s) (soff s) (k + length new) (scap s)) = Some (firstn k l ++ new) /\
    (k + length new <= slen s -> read_arr h' s = Some (firstn k l ++ new ++ skipn (k + length new) l)) /\
    (forall j, j <> sid s -> nth_error h' j = nth_error h j) /\ length h' = length h.
Proof.
  intros h s l k new H Hk. unfold read_arr in H.
  destruct (nth_error h (sid s)) as [[cl| |]|] eqn:E; try discriminate.
  destruct (splice_window cl (soff s) (slen s) l k new H Hk) as (cl' & Hs & Hw1 & Hw2 & _).
  destruct (store_arr_spec _ _ _ _ _ _ E Hs) as (h' & Hst & Hn & Ho & Hl).
  exists h'. splits; auto.
  - unfold read_arr. simpl. rewrite Hn. auto.
  - intros. unfold read_arr. rewrite Hn. auto.
Qed.

Lemma store_kv_window : forall h s l k new,
  read_kv h s = Some l -> k <= slen s ->
  exists h', store_kv h (sid s) (soff s + k) new = Some h' /\
    read_kv h' (mkslice (sid s) (soff s) (k + length new) (scap s)) = Some (firstn k l ++ new) /\
    (k + length new <= slen s -> read_kv h' s = Some (firstn k l ++ new ++ skipn (k + length new) l)) /\
    (forall j, j <> sid s -> nth_error h' j = nth_error h j) /\ length h' = length h.
Proof.
  intros h s l k new H Hk. unfold read_kv in H.
  destruct (nth_error h (sid s)) as [[|cl|]|] eqn:E; try discriminate.
  destruct (splice_window cl (soff s) (slen s) l k new H Hk) as (cl' & Hs & Hw1 & Hw2 & _).
  destruct (store_kv_spec _ _ _ _ _ _ E Hs) as (h' & Hst & Hn & Ho & Hl).
  exists h'. splits; auto.
  - unfold read_kv. simpl. rewrite Hn. auto.
  - intros. unfold read_kv. rewrite Hn. auto.
Qed.

Lemma read_arr_len : forall h s l, read_arr h s = Some l -> length l = slen s.
Proof.
  unfold read_arr. intros. destruct (nth_error h (sid s)) as [[| |]|]; try discriminate.
  eapply window_length; eauto.
Qed.
Lemma read_kv_len : forall h s l, read_kv h s = Some l -> length l = slen s.
Proof.
  unfold read_kv. intros. destruct (nth_error h (sid s)) as [[| |]|]; try discriminate.
  eapply window_length; eauto.
Qed.

Lemma read_arr_alloc : forall h l n cap, n = length l ->
  read_arr (fst (alloc h (CArr l))) (mkslice (length h) 0 n cap) = Some l.
Proof.
  intros. unfold read_arr. simpl sid. rewrite alloc_new. simpl. subst.
  unfold window. simpl. rewrite Nat.leb_refl. now rewrite firstn_all.
Qed.
Lemma read_kv_alloc : forall h l n cap, n = length l ->
  read_kv (fst (alloc h (CKV l))) (mkslice (length h) 0 n cap) = Some l.
Proof.
  intros. unfold read_kv. simpl sid. rewrite alloc_new. simpl. subst.
  unfold window. simpl. rewrite Nat.leb_refl. now rewrite firstn_all.
Qed.

Section SIM.
  Variable c : cfg.
  Variable o : oracle.
  Hypothesis Hcow : cow c = true.
  Hypothesis Hgood : good o.

  Notation A := (Abs (Some (msa c))).
  Notation AL := (AbsL (Some (msa c))).
  Notation AM := (AbsM (Some (msa c))).

  (* append: the slice is private to the current statement (allocated at or after n0) or has no spare capacity *)
  Lemma go_append_spec : forall n0 h s l xs,
    read_arr h s = Some l -> n0 <= length h -> slen s <= scap s -> (n0 <= sid s \/ scap s <= slen s) ->
    exists h' s', go_append o h s xs = Ok (h', s') /\ keeps n0 h h' /\ read_arr h' s' = Some (l ++ xs) /\
      slen s' = slen s + length xs /\ slen s' <= scap s' /\ (n0 <= sid s' \/ (xs = [] /\ s' = s)) /\
      (forall j, j < length h -> j <> sid s -> nth_error h' j = nth_error h j) /\
      (sid s' = sid s \/ sid s' = length h).
  Proof.
    intros n0 h s l xs Hr Hn0 Hcap Hown. unfold go_append.
    destruct (length xs =? 0) eqn:E0.
    { apply Nat.eqb_eq in E0. destruct xs; [|discriminate]. exists h, s. rewrite app_nil_r. simpl.
      splits; auto using keeps_refl; lia. }
    apply Nat.eqb_neq in E0.
    destruct (slen s + length xs <=? scap s) eqn:E1.
    - apply Nat.leb_le in E1. destruct Hown as [Hown|Hown]; [|lia].
      destruct (store_arr_window h s l (slen s) xs Hr (le_n _)) as (h' & Hst & Hrd & _ & Ho & Hl).
      rewrite Hst. simpl. eexists _, _. split; [reflexivity|].
      rewrite firstn_all2 in Hrd by (rewrite (read_arr_len _ _ _ Hr); lia).
      splits; simpl; auto; try lia; try (intros; apply Ho; auto);
        try (eapply (keeps_of_others n0 h h' (sid s)); eauto).
    - apply Nat.leb_gt in E1.
      pose proof (Hgood false (scap s) (slen s + length xs)) as Hg.
      destruct (o false (scap s) (slen s + length xs) <? slen s + length xs) eqn:E2;
        [apply Nat.ltb_lt in E2; lia|].
      rewrite Hr. simpl.
      eexists _, _. split; [reflexivity|]. splits; simpl; auto; try lia;
        try (apply (keeps_alloc n0 h); auto; fail);
        try (apply read_arr_alloc; rewrite app_length, (read_arr_len _ _ _ Hr); auto; fail);
        try (intros; apply nth_error_app1; auto).
  Qed.

  Lemma go_append_kv_spec : forall n0 h s l xs,
    read_kv h s = Some l -> n0 <= length h -> slen s <= scap s -> (n0 <= sid s \/ scap s <= slen s) ->
    exists h' s', go_append_kv o h s xs = Ok (h', s') /\ keeps n0 h h' /\ read_kv h' s' = Some (l ++ xs) /\
      slen s' = slen s + length xs /\ slen s' <= scap s' /\ (n0 <= sid s' \/ (xs = [] /\ s' = s)) /\
      (forall j, j < length h -> j <> sid s -> nth_error h' j = nth_error h j) /\
      (sid s' = sid s \/ sid s' = length h).
  Proof.
    intros n0 h s l xs Hr Hn0 Hcap Hown. unfold go_append_kv.
    destruct (length xs =? 0) eqn:E0.
    { apply Nat.eqb_eq in E0. destruct xs; [|discriminate]. exists h, s. rewrite app_nil_r. simpl.
      splits; auto using keeps_refl; lia. }
    apply Nat.eqb_neq in E0.
    destruct (slen s + length xs <=? scap s) eqn:E1.
    - apply Nat.leb_le in E1. destruct Hown as [Hown|Hown]; [|lia].
      destruct (store_kv_window h s l (slen s) xs Hr (le_n _)) as (h' & Hst & Hrd & _ & Ho & Hl).
      rewrite Hst. simpl. eexists _, _. split; [reflexivity|].
      rewrite firstn_all2 in Hrd by (rewrite (read_kv_len _ _ _ Hr); lia).
      splits; simpl; auto; try lia; try (intros; apply Ho; auto);
        try (eapply (keeps_of_others n0 h h' (sid s)); eauto).
    - apply Nat.leb_gt in E1.
      pose proof (Hgood true (scap s) (slen s + length xs)) as Hg.
      destruct (o true (scap s) (slen s + length xs) <? slen s + length xs) eqn:E2;
        [apply Nat.ltb_lt in E2; lia|].
      rewrite Hr. simpl.
      eexists _, _. split; [reflexivity|]. splits; simpl; auto; try lia;
        try (apply (keeps_alloc n0 h); auto; fail);
        try (apply read_kv_alloc; rewrite app_length, (read_kv_len _ _ _ Hr); auto; fail);
        try (intros; apply nth_error_app1; auto).
  Qed.

  Lemma read_arr_zero : forall h s l, read_arr h s = Some l -> read_arr h (mkslice (sid s) (soff s) 0 0) = Some [].
  Proof.
    unfold read_arr. simpl. intros. destruct (nth_error h (sid s)) as [[cl| |]|]; try discriminate.
    apply window_some in H as [H _]. apply window_some. split; [lia|reflexivity].
  Qed.
  Lemma read_kv_zero : forall h s l, read_kv h s = Some l -> read_kv h (mkslice (sid s) (soff s) 0 0) = Some [].
  Proof.
    unfold read_kv. simpl. intros. destruct (nth_error h (sid s)) as [[|cl|]|]; try discriminate.
    apply window_some in H as [H _]. apply window_some. split; [lia|reflexivity].
  Qed.

  (* slices.Clone *)
  Lemma go_clone_spec : forall h s l, read_arr h s = Some l ->
    exists h' s', go_clone o h s = Ok (h', s') /\ keeps (length h) h h' /\ read_arr h' s' = Some l /\
      slen s' = slen s /\ slen s' <= scap s' /\ (length h <= sid s' \/ (l = [] /\ scap s' = 0)).
  Proof.
    intros. unfold go_clone. rewrite H. simpl.
    destruct (go_append_spec (length h) h _ [] l (read_arr_zero _ _ _ H) (le_n _)) as (h' & s' & Ha & Hk & Hr & Hl & Hc & Hf & _ & _);
      simpl; auto.
    exists h', s'. simpl in *. splits; auto.
    - rewrite Hl. eapply read_arr_len; eauto.
    - destruct Hf as [Hf|[-> ->]]; auto.
  Qed.
  Lemma go_clone_kv_spec : forall h s l, read_kv h s = Some l ->
    exists h' s', go_clone_kv o h s = Ok (h', s') /\ keeps (length h) h h' /\ read_kv h' s' = Some l /\
      slen s' = slen s /\ slen s' <= scap s' /\ (length h <= sid s' \/ (l = [] /\ scap s' = 0)).
  Proof.
    intros. unfold go_clone_kv. rewrite H. simpl.
    destruct (go_append_kv_spec (length h) h _ [] l (read_kv_zero _ _ _ H) (le_n _)) as (h' & s' & Ha & Hk & Hr & Hl & Hc & Hf & _ & _);
      simpl; auto.
    exists h', s'. simpl in *. splits; auto.
    - rewrite Hl. eapply read_kv_len; eauto.
    - destruct Hf as [Hf|[-> ->]]; auto.
  Qed.

  Lemma AL_keeps : forall hb h l pl, Forall2 (A hb) l pl -> keeps (length hb) hb h -> AL h l pl.
  Proof.
    intros. apply AbsL_F2. eapply F2_impl; [|eauto]. intros. eapply Abs_keeps; eauto.
  Qed.

  (* object.NewArray over a slice whose elements are values of the base heap hb *)
  Lemma new_array_spec : forall hb h s l pl,
    read_arr h s = Some l -> slen s <= scap s -> Forall2 (A hb) l pl -> keeps (length hb) hb h ->
    exists r, new_array c h s = Ok r /\ A h r (PArr pl).
  Proof.
    intros hb h s l pl Hr Hcap HF HK. unfold new_array.
    pose proof (read_arr_len _ _ _ Hr) as HL.
    destruct (slen s =? 0) eqn:E0.
    - apply Nat.eqb_eq in E0. destruct l; [|simpl in HL; lia]. inversion HF; subst.
      eexists; split; eauto. constructor; [simpl; lia|constructor].
    - destruct (slen s <=? msa c) eqn:E1.
      + apply Nat.leb_le in E1. rewrite Hr. simpl. eexists; split; eauto.
        constructor; [simpl; lia|]. eapply AL_keeps; eauto.
      + apply Nat.leb_gt in E1. eexists; split; eauto.
        econstructor; eauto; [simpl; lia|]. eapply AL_keeps; eauto.
  Qed.

  (* object.Elements: hb is the heap the value was read in, h the current one *)
  Lemma elements_spec : forall hb h v pl, A hb v (PArr pl) -> keeps (length hb) hb h ->
    exists h1 s l, elements c h v = Ok (h1, s) /\ keeps (length h) h h1 /\ read_arr h1 s = Some l /\
      Forall2 (A hb) l pl /\ slen s <= scap s /\ arr_len v = length pl /\
      ((sid s = length h /\ scap s = msa c /\ msa c <? slen s = false) \/ (h1 = h /\ msa c < slen s /\ sid s < length hb)).
  Proof.
    intros hb h v pl HA HK. inversion HA; subst.
    - match goal with H : AbsL _ _ l pl |- _ => pose proof (proj1 (AbsL_F2 _ _ _ _) H) as HF end.
      match goal with H : wf_small _ l |- _ => simpl in H; rename H into Hw end.
      simpl. eexists _, _, l. split; [reflexivity|].
      splits; simpl; auto.
      + apply (keeps_alloc (length h) h (CArr l)). auto.
      + apply (read_arr_alloc h l). auto.
      + apply (F2_length _ _ _ HF).
      + left. splits; auto. apply Nat.ltb_ge. auto.
    - match goal with H : AbsL _ _ l pl |- _ => pose proof (proj1 (AbsL_F2 _ _ _ _) H) as HF end.
      match goal with H : wf_big _ s |- _ => simpl in H; destruct H as [Hm Hc] end.
      match goal with H : read_arr hb s = Some l |- _ => rename H into Hr end.
      simpl. exists h, s, l.
      splits; auto using keeps_refl.
      + rewrite (read_arr_keeps _ _ _ _ HK); auto. eapply read_arr_lt; eauto.
      + rewrite <- (F2_length _ _ _ HF). symmetry. eapply read_arr_len; eauto.
      + right. splits; auto. eapply read_arr_lt; eauto.
  Qed.

  Lemma idx_norm_lt : forall n i k, idx_norm n i = Some k -> k < n.
  Proof.
    unfold idx_norm. intros n i k. 
    destruct (i <? 0)%Z eqn:E; destruct (_ || _) eqn:E2; intros H; inversion H; subst;
      apply orb_false_iff in E2 as [E3 E4]; apply Z.ltb_ge in E3; apply Z.leb_gt in E4; lia.
  Qed.

  Lemma set_nth_as_splice : forall {X} (l : list X) k x, k < length l ->
    set_nth l k x = Some (firstn k l ++ [x] ++ skipn (k + 1) l).
  Proof. intros. rewrite set_nth_spec by auto. now rewrite Nat.add_1_r. Qed.

  Definition res_rel {X Y} (R : X -> Y -> Prop) (m : res X) (p : res Y) : Prop :=
    match p with
    | Ok b => exists a, m = Ok a /\ R a b
    | Err => m = Err
    | Dom => m = Dom
    | Stuck => m = Stuck
    end.

  (* result of a value-level operation started in heap h *)
  Definition VR (h : heap) (a : heap * val) (p : pval) : Prop :=
    keeps (length h) h (fst a) /\ A (fst a) (snd a) p.

  Lemma arr_idx_set_sim : forall h xv pl i v pv,
    A h xv (PArr pl) -> A h v pv ->
    res_rel (VR h) (arr_idx_set c o h xv i v) (p_idx_set (PArr pl) i pv).
  Proof.
    intros h xv pl i v pv HX HV.
    destruct (elements_spec h h xv pl HX (keeps_refl _ _)) as (h1 & s & l & He & K1 & R1 & F1 & C1 & Hlen & Hk).
    unfold arr_idx_set, p_idx_set. rewrite Hlen.
    destruct (idx_norm (length pl) i) as [k|] eqn:EI; [|reflexivity].
    pose proof (idx_norm_lt _ _ _ EI) as Hklt.
    rewrite He. simpl. rewrite Hcow. simpl.
    pose proof (read_arr_len _ _ _ R1) as HL1.
    assert (Hkl : k < length l) by (rewrite (F2_length _ _ _ F1); auto).
    (* after the optional clone: a private slice s2 reading l *)
    assert (X : exists h2 s2, (if msa c <? slen s then go_clone o h1 s else Ok (h1, s)) = Ok (h2, s2) /\
              keeps (length h) h h2 /\ read_arr h2 s2 = Some l /\ slen s2 = slen s /\ slen s2 <= scap s2 /\ length h <= sid s2).
    { destruct Hk as [(Hs & Hc & Hb)|(-> & Hb & Hs)].
      - rewrite Hb. exists h1, s. splits; auto. lia.
      - replace (msa c <? slen s) with true by (symmetry; apply Nat.ltb_lt; auto).
        destruct (go_clone_spec h s l R1) as (h2 & s2 & Hc & K2 & R2 & L2 & C2 & F2).
        exists h2, s2. splits; auto. destruct F2 as [F2|[-> _]]; auto. simpl in HL1. lia. }
    destruct X as (h2 & s2 & -> & K2 & R2 & L2 & C2 & F2). simpl.
    destruct (store_arr_window h2 s2 l k [v] R2) as (h3 & Hst & _ & Hrd & Ho & Hl3); [lia|].
    rewrite Hst. simpl.
    assert (K3 : keeps (length h) h h3).
    { eapply keeps_trans; eauto. eapply (keeps_of_others (length h) h2 h3 (sid s2)); eauto. }
    rewrite (set_nth_as_splice pl k pv Hklt). simpl.
    specialize (Hrd ltac:(simpl; lia)). simpl in Hrd.
    destruct (new_array_spec h h3 s2 _ (firstn k pl ++ [pv] ++ skipn (k + 1) pl) Hrd C2) as (r & Hn & HA); auto.
    { apply F2_app; [apply F2_firstn; auto|]. constructor; auto. apply F2_skipn; auto. }
    rewrite Hn. simpl. eexists; split; [reflexivity|]. split; simpl; auto.
  Qed.

  Lemma is_array_abs : forall h v p, A h v p -> is_array v = p_is_array p.
  Proof. intros. inversion H; reflexivity. Qed.
  Lemma is_map_abs : forall h v p, A h v p -> is_map v = p_is_map p.
  Proof. intros. inversion H; reflexivity. Qed.

  Lemma read_arr_clip : forall h s, read_arr h (clip s) = read_arr h s.
  Proof. reflexivity. Qed.

  Lemma arr_plus_sim : forall h lv pl rv prv,
    A h lv (PArr pl) -> A h rv prv ->
    res_rel (VR h) (arr_plus c o h lv rv) (p_plus (PArr pl) prv).
  Proof.
    intros h lv pl rv prv HL HRV.
    destruct (elements_spec h h lv pl HL (keeps_refl _ _)) as (h1 & ls & l & He & K1 & R1 & F1 & C1 & Hlen & Hk).
    unfold arr_plus. rewrite He. simpl. rewrite Hcow. simpl.
    set (ls' := if msa c <? slen ls then clip ls else ls).
    assert (X : read_arr h1 ls' = Some l /\ slen ls' <= scap ls' /\ (length h <= sid ls' \/ scap ls' <= slen ls')).
    { unfold ls'. destruct Hk as [(Hs & Hc & Hb)|(-> & Hb & Hs)].
      - rewrite Hb. splits; auto. left. lia.
      - replace (msa c <? slen ls) with true by (symmetry; apply Nat.ltb_lt; auto).
        rewrite read_arr_clip. splits; auto. }
    destruct X as (R1' & C1' & O1). clearbody ls'.
    pose proof (keeps_len _ _ _ K1) as L1.
    rewrite (is_array_abs _ _ _ HRV).
    destruct prv as [z| |pr|pm]; simpl.
    1,2,4:
      (destruct (go_append_spec (length h) h1 ls' l [rv] R1' L1 C1' O1) as (h3 & s3 & Ha & K3 & R3 & L3 & C3 & _);
       rewrite Ha; simpl;
       match goal with |- context [PArr (?ppl ++ [?q])] =>
         destruct (new_array_spec h h3 s3 _ (ppl ++ [q]) R3 C3) as (r & Hn & HA);
           [apply F2_app; auto | eapply keeps_trans; eauto |] end;
       rewrite Hn; simpl; eexists; split; [reflexivity|]; split; simpl; auto; eapply keeps_trans; eauto).
    destruct (elements_spec h h1 rv pr HRV K1) as (h2 & rs & xs & He2 & K2 & R2 & F2 & C2 & _ & _).
    rewrite He2. simpl. rewrite R2. simpl.
    assert (K12 : keeps (length h) h h2) by (eapply keeps_trans; eauto; eapply keeps_le; eauto).
    assert (R1'' : read_arr h2 ls' = Some l).
    { rewrite (read_arr_keeps _ _ _ _ K2); auto. eapply read_arr_lt; eauto. }
    pose proof (keeps_len _ _ _ K12) as L2.
    destruct (go_append_spec (length h) h2 ls' l xs R1'' L2 C1' O1) as (h3 & s3 & Ha & K3 & R3 & L3 & C3 & _).
    rewrite Ha. simpl.
    destruct (new_array_spec h h3 s3 _ (pl ++ pr) R3 C3) as (r & Hn & HA);
      [apply F2_app; auto | eapply keeps_trans; eauto |].
    rewrite Hn. simpl. eexists; split; [reflexivity|]. split; simpl; auto. eapply keeps_trans; eauto.
  Qed.

  Lemma append_times_spec : forall n0 n h r ls l acc,
    read_arr h ls = Some l -> read_arr h r = Some acc -> n0 <= length h -> slen r <= scap r ->
    n0 <= sid r -> sid ls <> sid r ->
    exists h' r', append_times o h r ls n = Ok (h', r') /\ keeps n0 h h' /\
      read_arr h' r' = Some (acc ++ repeat_list l n) /\ slen r' <= scap r'.
  Proof.
    induction n; intros h r ls l acc Rl Rr Hn0 Hc Hown Hne; simpl.
    - exists h, r. rewrite app_nil_r. splits; auto using keeps_refl.
    - rewrite Rl. simpl.
      destruct (go_append_spec n0 h r acc l Rr Hn0 Hc (or_introl Hown)) as (h1 & r1 & Ha & K1 & R1 & L1 & C1 & O1 & Oth & Sid).
      rewrite Ha. simpl.
      assert (Rl1 : read_arr h1 ls = Some l).
      { unfold read_arr. rewrite Oth; auto. eapply read_arr_lt; eauto. }
      assert (Hown1 : n0 <= sid r1) by (destruct O1 as [|[_ ->]]; auto).
      assert (Hne1 : sid ls <> sid r1).
      { destruct Sid as [->| ->]; auto. pose proof (read_arr_lt _ _ _ Rl). lia. }
      pose proof (keeps_len _ _ _ K1).
      destruct (IHn h1 r1 ls l (acc ++ l) Rl1 R1 ltac:(lia) C1 Hown1 Hne1) as (h2 & r2 & Hb & K2 & R2 & C2).
      exists h2, r2. rewrite Hb. splits; auto.
      + eapply keeps_trans; eauto.
      + rewrite R2. now rewrite <- app_assoc.
  Qed.

  Lemma arr_repeat_sim : forall h lv pl n,
    A h lv (PArr pl) ->
    res_rel (VR h) (arr_repeat c o h lv n)
            (if (n <? 0)%Z then Err else Ok (PArr (repeat_list pl (Z.to_nat n)))).
  Proof.
    intros h lv pl n HL.
    destruct (elements_spec h h lv pl HL (keeps_refl _ _)) as (h1 & ls & l & He & K1 & R1 & F1 & C1 & Hlen & Hk).
    unfold arr_repeat. rewrite He. simpl.
    destruct (n <? 0)%Z; [reflexivity|].
    unfold make_arr. simpl.
    set (h2 := h1 ++ [CArr []]).
    pose proof (keeps_len _ _ _ K1) as L1.
    assert (K2 : keeps (length h) h h2).
    { eapply keeps_trans; eauto. apply (keeps_alloc (length h) h1 (CArr [])). auto. }
    assert (Rl : read_arr h2 ls = Some l).
    { unfold read_arr, h2. rewrite nth_error_app1 by (eapply read_arr_lt; eauto). apply R1. }
    assert (Rr : read_arr h2 (mkslice (length h1) 0 0 (slen ls * Z.to_nat n)) = Some []).
    { apply (read_arr_alloc h1 []). reflexivity. }
    destruct (append_times_spec (length h) (Z.to_nat n) h2 _ ls l [] Rl Rr) as (h3 & r3 & Ha & K3 & R3 & C3);
      simpl; try lia.
    { unfold h2. rewrite app_length. simpl. lia. }
    { pose proof (read_arr_lt _ _ _ R1). lia. }
    rewrite Ha. simpl. simpl in R3.
    destruct (new_array_spec h h3 r3 _ (repeat_list pl (Z.to_nat n)) R3 C3) as (r & Hn & HA);
      [apply F2_repeat_list; auto | eapply keeps_trans; eauto |].
    rewrite Hn. simpl. eexists; split; [reflexivity|]. split; simpl; auto. eapply keeps_trans; eauto.
  Qed.

  Lemma window_sub : forall {X} (cl : list X) off len w l n,
    window cl off len = Some w -> l + n <= len -> window cl (off + l) n = window w l n.
  Proof.
    intros. pose proof (window_length _ _ _ _ H).
    apply window_some in H as [H ->].
    unfold window.
    replace (off + l + n <=? length cl) with true by (symmetry; apply Nat.leb_le; lia).
    replace (l + n <=? length (firstn len (skipn off cl))) with true by (symmetry; apply Nat.leb_le; lia).
    f_equal. rewrite <- (skipn_skipn' l off cl).
    rewrite <- (firstn_skipn_comm' l n (firstn len (skipn off cl))).
    rewrite firstn_firstn. replace (Nat.min (l + n) len) with (l + n) by lia.
    now rewrite firstn_skipn_comm'.
  Qed.

  Lemma arr_slice_sim : forall h v pl l r, A h v (PArr pl) -> l <= r -> r <= length pl ->
    exists w, window pl l (r - l) = Some w /\
      res_rel (VR h) (arr_slice c h v l r) (Ok (PArr w)).
  Proof.
    intros h v pl l r HV Hlr Hr.
    destruct (elements_spec h h v pl HV (keeps_refl _ _)) as (h1 & s & l0 & He & K1 & R1 & F1 & C1 & Hlen & Hk).
    pose proof (read_arr_len _ _ _ R1) as HL0. pose proof (F2_length _ _ _ F1) as HLp.
    assert (Hw : exists w0, window l0 l (r - l) = Some w0).
    { eexists. apply window_some. split; [lia|reflexivity]. }
    destruct Hw as [w0 Hw0].
    destruct (F2_window _ _ _ _ _ _ F1 Hw0) as (w & Hw & FW).
    exists w. split; auto.
    unfold arr_slice. rewrite He. simpl. unfold reslice.
    replace ((l <=? r) && (r <=? scap s)) with true
      by (symmetry; apply andb_true_iff; split; apply Nat.leb_le; lia).
    simpl.
    assert (R2 : read_arr h1 (mkslice (sid s) (soff s + l) (r - l) (scap s - l)) = Some w0).
    { unfold read_arr in *. simpl. destruct (nth_error h1 (sid s)) as [[cl| |]|]; try discriminate.
      rewrite (window_sub cl _ _ _ l (r - l) R1) by lia. auto. }
    destruct (new_array_spec h h1 _ w0 w R2) as (x & Hn & HA); simpl; auto; try lia.
    rewrite Hn. simpl. eexists; split; [reflexivity|]. split; auto.
  Qed.

  Lemma window_skip1 : forall {X} (l : list X), 1 < length l -> window l 1 (length l - 1) = Some (skipn 1 l).
  Proof.
    intros. apply window_some. split; [lia|]. rewrite firstn_all2; auto. rewrite skipn_length. lia.
  Qed.

  Lemma arr_rest_sim : forall h v pl, A h v (PArr pl) ->
    res_rel (VR h) (arr_rest c h v) (p_rest (PArr pl)).
  Proof.
    intros h v pl HV.
    assert (Hlen : arr_len v = length pl).
    { destruct (elements_spec h h v pl HV (keeps_refl _ _)) as (_ & _ & _ & _ & _ & _ & _ & _ & Hlen & _). auto. }
    unfold arr_rest, p_rest. rewrite Hlen.
    destruct (length pl <=? 1) eqn:E.
    - eexists; split; [reflexivity|]. split; simpl; auto using keeps_refl. constructor.
    - apply Nat.leb_gt in E.
      destruct (arr_slice_sim h v pl 1 (length pl) HV) as (w & Hw & HR); try lia.
      rewrite window_skip1 in Hw by auto. inversion Hw; subst. apply HR.
  Qed.

  Lemma arr_read_spec : forall h v pl, A h v (PArr pl) -> exists l, arr_read h v = Ok l /\ Forall2 (A h) l pl.
  Proof.
    intros. inversion H; subst; simpl.
    - eexists; split; eauto. apply AbsL_F2; auto.
    - match goal with H : read_arr h s = Some _ |- _ => rewrite H end. simpl. eexists; split; eauto. apply AbsL_F2; auto.
  Qed.

  Lemma arr_len_abs : forall h v pl, A h v (PArr pl) -> arr_len v = length pl.
  Proof.
    intros. destruct (elements_spec h h v pl H (keeps_refl _ _)) as (_ & _ & _ & _ & _ & _ & _ & _ & Hlen & _). auto.
  Qed.

  Lemma arr_get_sim : forall h v pl i, A h v (PArr pl) ->
    res_rel (A h) (arr_get h v i) (p_get (PArr pl) i).
  Proof.
    intros h v pl i HV. unfold arr_get, p_get. rewrite (arr_len_abs _ _ _ HV).
    destruct (idx_norm (length pl) i) as [k|] eqn:E.
    - pose proof (idx_norm_lt _ _ _ E) as Hk.
      destruct (arr_read_spec _ _ _ HV) as (l & -> & HF). simpl.
      destruct (nth_error l k) eqn:En.
      + destruct (F2_nth _ _ _ _ _ HF En) as (y & -> & HA). simpl. eauto.
      + apply nth_error_None in En. rewrite (F2_length _ _ _ HF) in En. lia.
    - simpl. eexists; split; eauto. constructor.
  Qed.

  (* ---------------- maps *)

  (* the pair array of header s can be written by the statement started at n0 without being seen by anyone else *)
  Definition own (n0 : nat) (s : slice) : Prop := n0 <= sid s \/ (slen s = 0 /\ scap s = 0).

  (* m is a map value with pairs l whose storage, if any, is private to the statement started at n0 *)
  Definition fresh_map (n0 : nat) (h : heap) (m : val) (l : list (Z * val)) : Prop :=
    match m with
    | VMapS l' => l' = l
    | VMapB p => n0 <= p /\ exists s, map_hdr h p = Some s /\ own n0 s /\ slen s <= scap s /\ read_kv h s = Some l
    | _ => False
    end.

  Lemma insert_at_length : forall {X} (l : list X) i x, i <= length l -> length (insert_at l i x) = S (length l).
  Proof.
    intros. unfold insert_at. rewrite app_length, firstn_length. simpl. rewrite skipn_length. lia.
  Qed.

  Lemma map_hdr_set : forall h p s h', set_nth h p (CMap s) = Some h' -> map_hdr h' p = Some s.
  Proof. intros. unfold map_hdr. rewrite (set_nth_same _ _ _ _ H). reflexivity. Qed.

  Lemma read_kv_other : forall h h' s, (forall j, j <> sid s -> True) ->
    nth_error h' (sid s) = nth_error h (sid s) -> read_kv h' s = read_kv h s.
  Proof. intros. unfold read_kv. rewrite H0. reflexivity. Qed.

  Lemma hdr_ne_kv : forall h p s l, map_hdr h p = Some s -> read_kv h s = Some l -> p <> sid s.
  Proof.
    unfold map_hdr, read_kv. intros h p s l H1 H2 E. subst.
    destruct (nth_error h (sid s)) as [[| |]|]; discriminate.
  Qed.

  Lemma big_set_fresh : forall n0 h p s l k v,
    n0 <= p -> map_hdr h p = Some s -> own n0 s -> slen s <= scap s -> read_kv h s = Some l -> n0 <= length h ->
    exists h', big_set o h p k v = Ok h' /\ keeps n0 h h' /\ fresh_map n0 h' (VMapB p) (kv_set l k v).
  Proof.
    intros n0 h p s l k v Hp Hh Hown Hcap Hr Hn0.
    pose proof (hdr_ne_kv _ _ _ _ Hh Hr) as Hne.
    pose proof (map_hdr_lt _ _ _ Hh) as Hplt.
    pose proof (read_kv_len _ _ _ Hr) as HL.
    unfold big_set, kv_set. rewrite Hh. simpl. rewrite Hr. simpl.
    destruct (kv_find l k 0) as [found i] eqn:EF.
    pose proof (kv_find_bounds _ _ _ _ _ EF) as [Hb1 Hb2]. simpl in Hb1.
    destruct found.
    - (* m.kv[i].Value = value *)
      specialize (Hb2 eq_refl). simpl in Hb2.
      destruct (kv_find_found _ _ _ _ EF) as [v0 Hv0]. rewrite Nat.sub_0_r in Hv0. rewrite Hv0.
      assert (Hs : n0 <= sid s) by (destruct Hown as [|[Hz _]]; auto; lia).
      destruct (store_kv_window h s l i [(k, v)] Hr) as (h' & Hst & _ & Hrd & Ho & Hl); [lia|].
      rewrite Hst. simpl. exists h'. split; auto. split.
      + eapply (keeps_of_others n0 h h' (sid s)); eauto.
      + simpl. split; auto. exists s. splits; auto.
        * unfold map_hdr. rewrite Ho; auto.
        * rewrite Hrd by (simpl; lia). f_equal. symmetry. rewrite (set_val_at_splice l i k v0 v Hv0).
          simpl. now rewrite Nat.add_1_r.
    - destruct (slen s + 1 <=? scap s) eqn:E1.
      + (* slices.Insert in place *)
        apply Nat.leb_le in E1.
        assert (Hs : n0 <= sid s) by (destruct Hown as [|[Hz Hz']]; auto; lia).
        destruct (store_kv_window h s l i ((k, v) :: skipn i l) Hr) as (h1 & Hst & Hrd & _ & Ho & Hl); [lia|].
        rewrite Hst. simpl.
        destruct (set_nth_some h1 p (CMap (mkslice (sid s) (soff s) (slen s + 1) (scap s)))) as [h2 Hh2]; [lia|].
        rewrite Hh2. simpl. exists h2. split; auto. split.
        * eapply keeps_trans; [eapply (keeps_of_others n0 h h1 (sid s)); eauto | eapply keeps_set; eauto].
        * simpl. split; auto. eexists. splits; [eapply map_hdr_set; eauto| | |]; simpl; auto.
          -- left. auto.
          -- unfold read_kv in *. simpl in *. rewrite (set_nth_other _ _ _ _ _ Hh2) by auto.
             replace (slen s + 1) with (i + length ((k, v) :: skipn i l)); [apply Hrd|].
             simpl. rewrite skipn_length. lia.
      + (* moves to a new array *)
        apply Nat.leb_gt in E1.
        pose proof (Hgood true (scap s) (slen s + 1)) as Hg.
        destruct (o true (scap s) (slen s + 1) <? slen s + 1) eqn:E2; [apply Nat.ltb_lt in E2; lia|].
        simpl.
        destruct (set_nth_some (h ++ [CKV (insert_at l i (k, v))]) p
                   (CMap (mkslice (length h) 0 (slen s + 1) (o true (scap s) (slen s + 1))))) as [h2 Hh2];
          [rewrite app_length; simpl; lia|].
        rewrite Hh2. simpl. exists h2. split; auto. split.
        * eapply keeps_trans; [apply (keeps_alloc n0 h (CKV (insert_at l i (k, v)))); auto | eapply keeps_set; eauto].
        * simpl. split; auto. eexists. splits; [eapply map_hdr_set; eauto| | |]; simpl; auto.
          -- left. auto.
          -- unfold read_kv. simpl. rewrite (set_nth_other _ _ _ _ _ Hh2) by lia.
             rewrite nth_error_app2, Nat.sub_diag by auto. simpl.
             apply window_some. split.
             ++ rewrite insert_at_length by lia. lia.
             ++ simpl. rewrite firstn_all2; auto. rewrite insert_at_length by lia. lia.
  Qed.

  Lemma map_set_fresh : forall n0 h m l k v, fresh_map n0 h m l -> n0 <= length h ->
    exists h' m', map_set c o h m k v = Ok (h', m') /\ keeps n0 h h' /\ fresh_map n0 h' m' (kv_set l k v).
  Proof.
    intros n0 h m l k v HF Hn0. destruct m; simpl in HF; try contradiction.
    - subst l0. simpl. unfold small_set, kv_set.
      destruct (kv_find l k 0) as [found i] eqn:EF.
      pose proof (kv_find_bounds _ _ _ _ _ EF) as [Hb1 _]. simpl in Hb1.
      destruct found.
      + eexists _, _. split; [reflexivity|]. split; [apply keeps_refl|reflexivity].
      + destruct (msm c <? length l + 1).
        * unfold new_bigmap. simpl. eexists _, _. split; [reflexivity|]. split.
          -- eapply keeps_trans; [apply (keeps_alloc n0 h (CKV (insert_at l i (k, v)))); auto|].
             apply (keeps_alloc n0 (h ++ [CKV (insert_at l i (k, v))])). rewrite app_length. simpl. lia.
          -- simpl. split; [rewrite app_length; simpl; lia|].
             eexists. splits.
             ++ unfold map_hdr. rewrite nth_error_app2 by (rewrite app_length; simpl; lia).
                rewrite app_length. simpl. replace (length h + 1 - (length h + 1)) with 0 by lia. reflexivity.
             ++ left. simpl. auto.
             ++ simpl. lia.
             ++ unfold read_kv. simpl. rewrite nth_error_app1 by (rewrite app_length; simpl; lia).
                rewrite nth_error_app2, Nat.sub_diag by auto. simpl.
                apply window_some. rewrite insert_at_length by lia. split; [lia|].
                simpl. rewrite firstn_all2; auto. rewrite insert_at_length by lia. lia.
        * eexists _, _. split; [reflexivity|]. split; [apply keeps_refl|reflexivity].
    - destruct HF as (Hp & s & Hh & Hown & Hcap & Hr). simpl.
      destruct (big_set_fresh n0 h p s l k v Hp Hh Hown Hcap Hr Hn0) as (h' & Hb & K & F).
      rewrite Hb. simpl. eauto.
  Qed.

  Lemma set_all_fresh : forall n0 kvs h m l, fresh_map n0 h m l -> n0 <= length h ->
    exists h' m', set_all c o h m kvs = Ok (h', m') /\ keeps n0 h h' /\
      fresh_map n0 h' m' (fold_left (fun m kv => kv_set m (fst kv) (snd kv)) kvs l).
  Proof.
    induction kvs as [|[k v] t IH]; intros h m l HF Hn0; simpl.
    - eexists _, _. split; [reflexivity|]. split; auto using keeps_refl.
    - destruct (map_set_fresh n0 h m l k v HF Hn0) as (h1 & m1 & Hs & K1 & F1).
      rewrite Hs. simpl. pose proof (keeps_len _ _ _ K1).
      destruct (IH h1 m1 _ F1 ltac:(lia)) as (h2 & m2 & Hs2 & K2 & F2).
      rewrite Hs2. eexists _, _. split; [reflexivity|]. split; auto. eapply keeps_trans; eauto.
  Qed.

  Lemma AM_keeps : forall hb h l pl, Forall2 (RKV (A hb)) l pl -> keeps (length hb) hb h -> AM h l pl.
  Proof.
    intros. apply AbsM_F2. eapply F2_impl; [|eauto]. intros a b [H1 H2]. split; auto. eapply Abs_keeps; eauto.
  Qed.

  Lemma fresh_map_abs : forall n0 hb h m l pl,
    fresh_map n0 h m l -> Forall2 (RKV (A hb)) l pl -> keeps (length hb) hb h -> A h m (PMap pl).
  Proof.
    intros n0 hb h m l pl HF HR HK. destruct m; simpl in HF; try contradiction.
    - subst. constructor. eapply AM_keeps; eauto.
    - destruct HF as (Hp & s & Hh & Hown & Hcap & Hr). econstructor; eauto. eapply AM_keeps; eauto.
  Qed.

  Lemma map_read_spec : forall h m pl, A h m (PMap pl) -> exists l, map_read h m = Ok l /\ Forall2 (RKV (A h)) l pl.
  Proof.
    intros. inversion H; subst; simpl.
    - eexists; split; eauto. apply AbsM_F2; auto.
    - match goal with H : map_hdr h p = Some _ |- _ => rewrite H end. simpl.
      match goal with H : read_kv h s = Some _ |- _ => rewrite H end. simpl.
      eexists; split; eauto. apply AbsM_F2; auto.
  Qed.

  Lemma big_clone_spec : forall h p s l, map_hdr h p = Some s -> read_kv h s = Some l ->
    exists h' q, big_clone o h p = Ok (h', q) /\ keeps (length h) h h' /\ fresh_map (length h) h' (VMapB q) l.
  Proof.
    intros h p s l Hh Hr. unfold big_clone. rewrite Hh. simpl.
    destruct (go_clone_kv_spec h s l Hr) as (h1 & s1 & Hc & K1 & R1 & L1 & C1 & F1).
    rewrite Hc. simpl. eexists _, _. split; [reflexivity|].
    pose proof (keeps_len _ _ _ K1) as Hl1.
    split.
    - eapply keeps_trans; eauto. apply (keeps_alloc (length h) h1). auto.
    - simpl. split; auto. exists s1. splits; auto.
      + unfold map_hdr. rewrite nth_error_app2, Nat.sub_diag by auto. reflexivity.
      + destruct F1 as [F1|[-> F1]]; [left; auto|right]. split; auto. rewrite L1.
        symmetry. apply (read_kv_len _ _ _ Hr).
      + unfold read_kv. rewrite nth_error_app1 by (eapply read_kv_lt; eauto). apply R1.
  Qed.

  (* eval.writableMap: a private copy (or the value itself when small) *)
  Lemma writable_map_spec : forall h m pl, A h m (PMap pl) ->
    exists h1 m1 l, writable_map c o h m = Ok (h1, m1) /\ keeps (length h) h h1 /\
      fresh_map (length h) h1 m1 l /\ Forall2 (RKV (A h)) l pl.
  Proof.
    intros h m pl HA. inversion HA; subst; simpl.
    - eexists _, _, l. split; [reflexivity|]. splits; auto using keeps_refl. reflexivity. apply AbsM_F2; auto.
    - rewrite Hcow.
      match goal with H1 : map_hdr h p = Some s, H2 : read_kv h s = Some l |- _ =>
        destruct (big_clone_spec h p s l H1 H2) as (h1 & q & Hc & K1 & F1) end.
      rewrite Hc. simpl. eexists _, _, l. split; [reflexivity|]. splits; auto. apply AbsM_F2; auto.
  Qed.

  Lemma map_idx_set_sim : forall h m pl k v pv, A h m (PMap pl) -> A h v pv ->
    res_rel (VR h) (map_idx_set c o h m k v) (Ok (PMap (kv_set pl k pv))).
  Proof.
    intros h m pl k v pv HM HV.
    destruct (writable_map_spec h m pl HM) as (h1 & m1 & l & Hw & K1 & F1 & R1).
    unfold map_idx_set. rewrite Hw. simpl.
    destruct (map_set_fresh (length h) h1 m1 l k v F1 (keeps_len _ _ _ K1)) as (h2 & m2 & Hs & K2 & F2).
    rewrite Hs. eexists; split; [reflexivity|].
    assert (K : keeps (length h) h h2) by (eapply keeps_trans; eauto).
    split; simpl; auto.
    eapply fresh_map_abs; eauto. apply F2_kv_set; auto.
  Qed.

  Lemma remove_at_length : forall {X} (l : list X) i, i < length l -> length (remove_at l i) = length l - 1.
  Proof. intros. unfold remove_at. rewrite app_length, firstn_length, skipn_length. lia. Qed.

  Lemma map_delete_sim : forall h m pl k, A h m (PMap pl) ->
    exists h' m' ch, map_delete c o h m k = Ok (h', m', ch) /\ keeps (length h) h h' /\
      match kv_del pl k with
      | Some pl' => ch = true /\ A h' m' (PMap pl')
      | None => ch = false
      end.
  Proof.
    intros h m pl k HM.
    destruct (writable_map_spec h m pl HM) as (h1 & m1 & l & Hw & K1 & F1 & R1).
    unfold map_delete. rewrite Hw. simpl.
    pose proof (F2_kv_del _ _ _ k R1) as HD.
    destruct m1; simpl in F1; try contradiction.
    - subst l0. destruct (kv_del l k) as [l'|] eqn:E1; destruct (kv_del pl k) as [pl'|] eqn:E2; try contradiction.
      + eexists _, _, _. split; [reflexivity|]. splits; auto. constructor. eapply AM_keeps; eauto.
      + eexists _, _, _. split; [reflexivity|]. splits; auto.
    - destruct F1 as (Hp & s & Hh & Hown & Hcap & Hr).
      unfold big_delete. rewrite Hh. cbn [bind lift]. rewrite Hr. cbn [bind lift].
      unfold kv_del in *. rewrite <- (kv_find_rel _ _ _ k 0 R1) in *.
      destruct (kv_find l k 0) as [found i] eqn:EF.
      pose proof (kv_find_bounds _ _ _ _ _ EF) as [Hb1 Hb2]. simpl in Hb1.
      pose proof (read_kv_len _ _ _ Hr) as HL.
      pose proof (hdr_ne_kv _ _ _ _ Hh Hr) as Hne.
      pose proof (map_hdr_lt _ _ _ Hh) as Hplt.
      destruct found.
      + specialize (Hb2 eq_refl). simpl in Hb2.
        assert (Hs : length h <= sid s) by (destruct Hown as [|[Hz _]]; auto; lia).
        destruct (store_kv_window h1 s l i (skipn (S i) l) Hr) as (h2 & Hst & Hrd & _ & Ho & Hl2); [lia|].
        rewrite Hst. cbn [bind lift].
        destruct (set_nth_some h2 p (CMap (mkslice (sid s) (soff s) (slen s - 1) (scap s)))) as [h3 Hh3]; [lia|].
        rewrite Hh3. cbn [bind lift]. eexists _, _, _. split; [reflexivity|].
        assert (K3 : keeps (length h) h h3).
        { eapply keeps_trans; [eauto|]. eapply keeps_trans;
            [eapply (keeps_of_others (length h) h1 h2 (sid s)); eauto | eapply keeps_set; eauto]. }
        splits; auto.
        eapply (fresh_map_abs (length h) h h3 (VMapB p) (remove_at l i)); eauto.
        simpl. split; auto. eexists. splits; [eapply map_hdr_set; eauto| | |]; simpl; auto; try lia.
        * left. auto.
        * unfold read_kv in *. simpl in *. rewrite (set_nth_other _ _ _ _ _ Hh3) by auto.
          replace (slen s - 1) with (i + length (skipn (S i) l)) by (rewrite skipn_length; lia).
          apply Hrd.
      + eexists _, _, _. split; [reflexivity|]. splits; auto.
  Qed.

  Lemma map_append_sim : forall h lm pl rm pr, A h lm (PMap pl) -> A h rm (PMap pr) ->
    res_rel (VR h) (map_append c o h lm rm)
            (Ok (PMap (fold_left (fun m kv => kv_set m (fst kv) (snd kv)) pr pl))).
  Proof.
    intros h lm pl rm pr HL HR.
    destruct (map_read_spec _ _ _ HR) as (rl & Hrl & FR).
    destruct (map_read_spec _ _ _ HL) as (ll & Hll & FL).
    unfold map_append. rewrite Hrl. simpl.
    (* in every case: a private map with the left pairs, then Set of each right pair *)
    assert (X : forall h1 m1, keeps (length h) h h1 -> fresh_map (length h) h1 m1 ll ->
              res_rel (VR h) (set_all c o h1 m1 rl) (Ok (PMap (fold_left (fun m kv => kv_set m (fst kv) (snd kv)) pr pl)))).
    { intros h1 m1 K1 F1.
      destruct (set_all_fresh (length h) rl h1 m1 ll F1 (keeps_len _ _ _ K1)) as (h2 & m2 & Hs & K2 & F2).
      rewrite Hs. eexists; split; [reflexivity|].
      assert (K : keeps (length h) h h2) by (eapply keeps_trans; eauto).
      split; simpl; auto. eapply fresh_map_abs; eauto. apply F2_fold_kv_set; auto. }
    assert (Y : forall l, l = ll ->
      res_rel (VR h)
        (let (h1, id) := alloc h (CKV l) in
         let (h2, m) := new_bigmap h1 (mkslice id 0 (length l) (length l + length rl)) in set_all c o h2 m rl)
        (Ok (PMap (fold_left (fun m kv => kv_set m (fst kv) (snd kv)) pr pl)))).
    { intros l ->. unfold new_bigmap. simpl. apply X.
      - eapply keeps_trans; [apply (keeps_alloc (length h) h (CKV ll)); auto|].
        apply (keeps_alloc (length h) (h ++ [CKV ll])). rewrite app_length. simpl. lia.
      - simpl. split; [rewrite app_length; simpl; lia|]. eexists. splits.
        + unfold map_hdr. rewrite nth_error_app2 by (rewrite app_length; simpl; lia).
          rewrite app_length. simpl. replace (length h + 1 - (length h + 1)) with 0 by lia. reflexivity.
        + left. simpl. auto.
        + simpl. lia.
        + unfold read_kv. simpl. rewrite nth_error_app1 by (rewrite app_length; simpl; lia).
          rewrite nth_error_app2, Nat.sub_diag by auto. simpl.
          apply window_some. split; [simpl; lia|]. simpl. now rewrite firstn_all. }
    inversion HL; subst; simpl in Hll.
    - inversion Hll; subst. destruct (length rl <=? msm c).
      + apply X; auto using keeps_refl. reflexivity.
      + apply Y. reflexivity.
    - match goal with H : map_hdr h p = Some s |- _ => rewrite H in * end. simpl in *.
      match goal with H : read_kv h s = Some _ |- _ => rewrite H in * end. simpl in *.
      inversion Hll; subst. apply Y. reflexivity.
  Qed.

  Lemma map_range_sim : forall h m pl l r, A h m (PMap pl) -> l <= r -> r <= length pl ->
    exists w, window pl l (r - l) = Some w /\
      res_rel (VR h) (map_range c h m l r) (Ok (PMap w)).
  Proof.
    intros h m pl l r HM Hlr Hr.
    destruct (map_read_spec _ _ _ HM) as (kv & Hkv & FK).
    pose proof (F2_length _ _ _ FK) as HLk.
    assert (Hw : exists w0, window kv l (r - l) = Some w0).
    { eexists. apply window_some. split; [lia|reflexivity]. }
    destruct Hw as [w0 Hw0].
    destruct (F2_window _ _ _ _ _ _ FK Hw0) as (w & Hw & FW).
    exists w. split; auto.
    inversion HM; subst; simpl in Hkv.
    - inversion Hkv; subst. simpl. rewrite Hw0. simpl. eexists; split; [reflexivity|].
      split; simpl; auto using keeps_refl. constructor. apply AbsM_F2. auto.
    - match goal with H : map_hdr h p = Some s |- _ => rename H into Hh end.
      match goal with H : read_kv h s = Some _ |- _ => rename H into Hrk end.
      match goal with H : wf_hdr _ s |- _ => simpl in H; rename H into Hwf end.
      rewrite Hh in Hkv. simpl in Hkv. rewrite Hrk in Hkv. simpl in Hkv. inversion Hkv; subst.
      pose proof (read_kv_len _ _ _ Hrk) as HLs.
      simpl. rewrite Hh. simpl.
      destruct (msm c <? r - l).
      + unfold reslice.
        replace ((l <=? r) && (r <=? scap s)) with true
          by (symmetry; apply andb_true_iff; split; apply Nat.leb_le; lia).
        simpl. unfold new_bigmap. simpl. eexists; split; [reflexivity|]. split; simpl.
        * apply (keeps_alloc (length h) h). auto.
        * apply Abs_mapB with (s := mkslice (sid s) (soff s + l) (r - l) (scap s - l)) (l := w0).
          -- simpl. lia.
          -- unfold map_hdr. rewrite nth_error_app2, Nat.sub_diag by auto. reflexivity.
          -- unfold read_kv in *. simpl.
             rewrite nth_error_app1 by (apply nth_error_Some; destruct (nth_error h (sid s)); congruence).
             destruct (nth_error h (sid s)) as [[|cl|]|]; try discriminate.
             rewrite (window_sub cl _ _ _ l (r - l) Hrk) by lia. apply Hw0.
          -- eapply AM_keeps; eauto. apply (keeps_alloc (length h) h). auto.
      + rewrite Hrk. simpl. rewrite Hw0. simpl. eexists; split; [reflexivity|].
        split; simpl; auto using keeps_refl. constructor. apply AbsM_F2. auto.
  Qed.

  Lemma map_len_abs : forall h m pl, A h m (PMap pl) -> map_len h m = Ok (length pl).
  Proof.
    intros. destruct (map_read_spec _ _ _ H) as (l & Hl & F). unfold map_len. rewrite Hl. simpl.
    now rewrite (F2_length _ _ _ F).
  Qed.

  Lemma map_rest_sim : forall h m pl, A h m (PMap pl) ->
    res_rel (VR h) (map_rest c h m) (p_rest (PMap pl)).
  Proof.
    intros h m pl HM. unfold map_rest, p_rest. rewrite (map_len_abs _ _ _ HM). simpl.
    destruct (length pl <=? 1) eqn:E.
    - eexists; split; [reflexivity|]. split; simpl; auto using keeps_refl. constructor.
    - apply Nat.leb_gt in E.
      destruct (map_range_sim h m pl 1 (length pl) HM) as (w & Hw & HR); try lia.
      rewrite window_skip1 in Hw by auto. inversion Hw; subst. apply HR.
  Qed.

  Lemma map_get_sim : forall h m pl k, A h m (PMap pl) ->
    res_rel (A h) (map_get h m k) (p_get (PMap pl) k).
  Proof.
    intros h m pl k HM. destruct (map_read_spec _ _ _ HM) as (l & Hl & F).
    unfold map_get, p_get. rewrite Hl. simpl. eexists; split; [reflexivity|].
    pose proof (F2_kv_get _ _ _ k F) as HG.
    destruct (kv_get l k), (kv_get pl k); try contradiction; auto. constructor.
  Qed.

  (* ---------------- statements *)

  Lemma res_rel_bind : forall {X Y X' Y'} (R : X -> Y -> Prop) (R' : X' -> Y' -> Prop) m p f g,
    res_rel R m p -> (forall a b, R a b -> res_rel R' (f a) (g b)) -> res_rel R' (bind m f) (bind p g).
  Proof.
    intros. destruct p; simpl in *.
    - destruct H as (a0 & -> & HR). simpl. auto.
    - subst. reflexivity.
    - subst. reflexivity.
    - subst. reflexivity.
  Qed.

  Lemma val_plus_sim : forall h lv plv rv prv, A h lv plv -> A h rv prv ->
    res_rel (VR h) (val_plus c o h lv rv) (p_plus plv prv).
  Proof.
    intros h lv plv rv prv HL HR.
    inversion HL; subst.
    - inversion HR; subst; simpl; auto.
      destruct (int64_ok (z + z0)); simpl; auto.
      eexists; split; [reflexivity|]. split; simpl; auto using keeps_refl. constructor.
    - simpl. destruct rv; reflexivity.
    - apply (arr_plus_sim h (VArrS l) pl rv prv); auto.
    - apply (arr_plus_sim h (VArrB s) pl rv prv); auto.
    - simpl. rewrite (is_map_abs _ _ _ HR). destruct prv; simpl; auto.
      apply (map_append_sim h (VMapS l) pl rv l0); auto.
    - simpl. rewrite (is_map_abs _ _ _ HR). destruct prv; simpl; auto.
      apply (map_append_sim h (VMapB p) pl rv l0); auto.
  Qed.

  Lemma val_idx_set_sim : forall h xv pxv i v pv, A h xv pxv -> A h v pv ->
    res_rel (VR h) (val_idx_set c o h xv i v) (p_idx_set pxv i pv).
  Proof.
    intros h xv pxv i v pv HX HV. inversion HX; subst; simpl; auto.
    - apply (arr_idx_set_sim h (VArrS l) pl i v pv); auto.
    - apply (arr_idx_set_sim h (VArrB s) pl i v pv); auto.
    - apply (map_idx_set_sim h (VMapS l) pl i v pv); auto.
    - apply (map_idx_set_sim h (VMapB p) pl i v pv); auto.
  Qed.

  Lemma val_get_sim : forall h yv pyv i, A h yv pyv ->
    res_rel (A h) (val_get h yv i) (p_get pyv i).
  Proof.
    intros h yv pyv i HY. inversion HY; subst; simpl; auto.
    - eexists; split; eauto; constructor.
    - apply (arr_get_sim h (VArrS l) pl i); auto.
    - apply (arr_get_sim h (VArrB s) pl i); auto.
    - apply (map_get_sim h (VMapS l) pl i); auto.
    - apply (map_get_sim h (VMapB p) pl i); auto.
  Qed.

  Lemma val_len_abs : forall h v p, A h v p -> val_len h v = Ok (p_len p).
  Proof.
    intros h v p H. inversion H; subst; simpl; auto.
    - f_equal. apply (arr_len_abs h (VArrS l) pl H).
    - f_equal. apply (arr_len_abs h (VArrB s) pl H).
    - apply (map_len_abs h (VMapS l) pl H).
    - apply (map_len_abs h (VMapB p0) pl H).
  Qed.

  Lemma range_norm_ok : forall n l r a b, range_norm n l r = Ok (a, b) -> a <= b /\ b <= n.
  Proof.
    unfold range_norm. intros n l r a b.
    set (l1 := if (l <? 0)%Z then (Z.of_nat n + l)%Z else l).
    set (r1 := if (r <? 0)%Z then (Z.of_nat n + r)%Z else r).
    destruct (r1 <? l1)%Z eqn:E; [discriminate|].
    intros H. inversion H; subst. clear H. apply Z.ltb_ge in E.
    split; lia.
  Qed.

  (* binding stores *)
  Definition AbsStore (h : heap) (s : list (var * val)) (ps : list (var * pval)) : Prop :=
    Forall2 (fun a b => fst a = fst b /\ A h (snd a) (snd b)) s ps.

  Lemma AbsStore_keeps : forall h h' s ps, AbsStore h s ps -> keeps (length h) h h' -> AbsStore h' s ps.
  Proof.
    intros. eapply F2_impl; [|eauto]. intros a b [H1 H2]. split; auto. eapply Abs_keeps; eauto.
  Qed.

  Lemma lookup_abs : forall h s ps x, AbsStore h s ps ->
    match lookup s x, lookup ps x with
    | Some v, Some p => A h v p
    | None, None => True
    | _, _ => False
    end.
  Proof.
    intros h s ps x H. induction H as [|[k1 v1] [k2 p2] t pt [H1 H2] HF IH]; simpl; auto.
    simpl in *. subst. destruct (Nat.eqb k2 x); auto.
  Qed.

  Lemma bind_var_abs : forall h s ps x v p, AbsStore h s ps -> A h v p -> AbsStore h (bind_var s x v) (bind_var ps x p).
  Proof.
    intros h s ps x v p H HV. induction H as [|[k1 v1] [k2 p2] t pt [H1 H2] HF IH]; simpl.
    - constructor; [split; auto|constructor].
    - simpl in *. subst. destruct (Nat.eqb k2 x); constructor; auto; split; auto.
  Qed.

  Lemma unbind_abs : forall h s ps x, AbsStore h s ps -> AbsStore h (unbind s x) (unbind ps x).
  Proof.
    intros h s ps x H. induction H as [|[k1 v1] [k2 p2] t pt [H1 H2] HF IH]; simpl; [constructor|].
    simpl in *. subst. destruct (Nat.eqb k2 x); auto. constructor; auto.
  Qed.

  Lemma lookup_bind_other : forall {X} (s : list (var * X)) x v y, y <> x -> lookup (bind_var s x v) y = lookup s y.
  Proof.
    induction s as [|[z w] t IH]; intros; simpl.
    - destruct (Nat.eqb x y) eqn:E; auto. apply Nat.eqb_eq in E. congruence.
    - destruct (Nat.eqb z x) eqn:E; simpl.
      + apply Nat.eqb_eq in E. subst. destruct (Nat.eqb x y) eqn:E2; auto. apply Nat.eqb_eq in E2. congruence.
      + destruct (Nat.eqb z y); auto.
  Qed.

  Lemma lookup_bind_same : forall {X} (s : list (var * X)) x v, lookup (bind_var s x v) x = Some v.
  Proof.
    induction s as [|[z w] t IH]; intros; simpl.
    - now rewrite Nat.eqb_refl.
    - destruct (Nat.eqb z x) eqn:E; simpl; rewrite E; auto.
  Qed.

  Lemma lookup_unbind_other : forall {X} (s : list (var * X)) x y, y <> x -> lookup (unbind s x) y = lookup s y.
  Proof.
    induction s as [|[z w] t IH]; intros; simpl; auto.
    destruct (Nat.eqb z x) eqn:E; simpl.
    - apply Nat.eqb_eq in E. subst. destruct (Nat.eqb x y) eqn:E2; auto. apply Nat.eqb_eq in E2. congruence.
    - destruct (Nat.eqb z y); auto.
  Qed.

  Lemma eval_elem_sim : forall h s ps e, AbsStore h s ps -> res_rel (A h) (eval_elem s e) (p_eval_elem ps e).
  Proof.
    intros. destruct e; simpl.
    - eexists; split; eauto; constructor.
    - pose proof (lookup_abs h s ps y H). destruct (lookup s y), (lookup ps y); try contradiction; simpl; eauto.
  Qed.

  Lemma eval_elems_sim : forall h s ps es, AbsStore h s ps ->
    res_rel (Forall2 (A h)) (eval_elems s es) (p_eval_elems ps es).
  Proof.
    intros h s ps es H. induction es; simpl.
    - eexists; split; eauto.
    - apply (res_rel_bind (A h)); [apply eval_elem_sim; auto|]. intros v pv HV.
      apply (res_rel_bind (Forall2 (A h))); [apply IHes|]. intros vs pvs HVS. simpl. eexists; split; eauto.
  Qed.

  Lemma eval_pairs_sim : forall h s ps kvs, AbsStore h s ps ->
    res_rel (Forall2 (RKV (A h))) (eval_pairs s kvs) (p_eval_pairs ps kvs).
  Proof.
    intros h s ps kvs H. induction kvs as [|[k e] t IH]; simpl.
    - eexists; split; eauto.
    - apply (res_rel_bind (A h)); [apply eval_elem_sim; auto|]. intros v pv HV.
      apply (res_rel_bind (Forall2 (RKV (A h)))); [apply IH|]. intros vs pvs HVS. simpl. eexists; split; eauto.
      constructor; auto. split; auto.
  Qed.

  Lemma eval_elems_length : forall s es vs, eval_elems s es = Ok vs -> length vs = length es.
  Proof.
    induction es; simpl; intros.
    - inversion H; auto.
    - destruct (eval_elem s a); try discriminate. simpl in H.
      destruct (eval_elems s es); try discriminate. simpl in H. inversion H. simpl. f_equal. auto.
  Qed.

  Lemma target_ok_abs : forall infn h s ps x, AbsStore h s ps -> target_ok infn (mkst h s) x = p_target_ok infn ps x.
  Proof.
    intros. unfold target_ok, p_target_ok. destruct infn; auto. simpl.
    pose proof (lookup_abs h s ps x H). destruct (lookup s x), (lookup ps x); try contradiction; auto.
  Qed.

  Definition AbsR (h : heap) (r : rout) (pr : prout) : Prop :=
    match r, pr with
    | RV v, PRV p => A h v p
    | RB b, PRB b' => b = b'
    | _, _ => False
    end.

  (* outcome of a statement run from state st that may write only the binding x *)
  Definition StepR (h0 : heap) (s0 : list (var * val)) (x : var) (a : state * rout) (b : list (var * pval) * prout) : Prop :=
    keeps (length h0) h0 (sheap (fst a)) /\
    AbsStore (sheap (fst a)) (sstore (fst a)) (fst b) /\
    AbsR (sheap (fst a)) (snd a) (snd b) /\
    (forall y, y <> x -> lookup (sstore (fst a)) y = lookup s0 y).

  Lemma assign_sim : forall infn h s ps x h1 v pv,
    AbsStore h s ps -> keeps (length h) h h1 -> A h1 v pv ->
    res_rel (StepR h s x)
      (if negb (target_ok infn (mkst h s) x) then Dom else assign (mkst h s) h1 x v)
      (if negb (p_target_ok infn ps x) then Dom else p_assign ps x pv).
  Proof.
    intros. rewrite (target_ok_abs infn h s ps x H).
    destruct (p_target_ok infn ps x); simpl; auto.
    eexists; split; [reflexivity|]. unfold StepR. simpl. splits; auto.
    - apply bind_var_abs; auto. eapply AbsStore_keeps; eauto.
    - intros. apply lookup_bind_other. auto.
  Qed.

  Lemma finish_sim : forall infn h s ps x m p,
    AbsStore h s ps -> res_rel (VR h) m p ->
    res_rel (StepR h s x) (finish infn (mkst h s) x m) (p_finish infn ps x p).
  Proof.
    intros. unfold finish, p_finish. apply (res_rel_bind (VR h)); auto. intros [h1 v] pv [K HA]. simpl in *.
    apply assign_sim; auto.
  Qed.

  Lemma arr_literal_sim : forall h vs pvs, Forall2 (A h) vs pvs ->
    res_rel (VR h) (arr_literal c o h vs) (Ok (PArr pvs)).
  Proof.
    intros h vs pvs HF. unfold arr_literal, make_arr. simpl. set (n := length vs).
    assert (R0 : read_arr (h ++ [CArr []]) (mkslice (length h) 0 0 n) = Some []).
    { apply (read_arr_alloc h []). reflexivity. }
    destruct (go_append_spec (length h) (h ++ [CArr []]) _ [] vs R0) as (h2 & s2 & Ha & K2 & R2 & L2 & C2 & _);
      simpl; try lia; auto.
    { rewrite app_length. simpl. lia. }
    rewrite Ha. simpl. simpl in R2.
    assert (K : keeps (length h) h h2).
    { eapply keeps_trans; [apply (keeps_alloc (length h) h (CArr [])); auto|eauto]. }
    destruct (new_array_spec h h2 s2 vs pvs R2 C2 HF K) as (r & Hnw & HA).
    rewrite Hnw. simpl. eexists; split; [reflexivity|]. split; auto.
  Qed.

  Lemma map_literal_sim : forall h vs pvs, Forall2 (RKV (A h)) vs pvs ->
    res_rel (VR h) (map_literal c o h vs) (Ok (p_map_literal pvs)).
  Proof.
    intros h vs pvs HF. unfold map_literal, p_map_literal, new_map_size. set (n := length vs).
    assert (X : forall h1 m1, keeps (length h) h h1 -> fresh_map (length h) h1 m1 [] ->
              res_rel (VR h) (set_all c o h1 m1 vs) (Ok (PMap (fold_left (fun m kv => kv_set m (fst kv) (snd kv)) pvs [])))).
    { intros h1 m1 K1 F1.
      destruct (set_all_fresh (length h) vs h1 m1 [] F1 (keeps_len _ _ _ K1)) as (h2 & m2 & Hs & K2 & F2).
      rewrite Hs. eexists; split; [reflexivity|].
      assert (K : keeps (length h) h h2) by (eapply keeps_trans; eauto).
      split; simpl; auto. eapply fresh_map_abs; eauto. apply F2_fold_kv_set; auto. }
    destruct (n <=? msm c).
    - apply X; auto using keeps_refl. reflexivity.
    - unfold new_bigmap. simpl. apply X.
      + eapply keeps_trans; [apply (keeps_alloc (length h) h (CKV [])); auto|].
        apply (keeps_alloc (length h) (h ++ [CKV []])). rewrite app_length. simpl. lia.
      + simpl. split; [rewrite app_length; simpl; lia|]. eexists. splits.
        * unfold map_hdr. rewrite nth_error_app2 by (rewrite app_length; simpl; lia).
          rewrite app_length. simpl. replace (length h + 1 - (length h + 1)) with 0 by lia. reflexivity.
        * left. simpl. auto.
        * simpl. lia.
        * unfold read_kv. simpl. rewrite nth_error_app1 by (rewrite app_length; simpl; lia).
          rewrite nth_error_app2, Nat.sub_diag by auto. reflexivity.
  Qed.

  Lemma VR_here : forall h v p, A h v p -> VR h (h, v) p.
  Proof. intros. split; simpl; auto using keeps_refl. Qed.

  Lemma val_slice_sim : forall h yv pyv l r, A h yv pyv ->
    res_rel (VR h) (val_slice c h yv l r) (p_slice pyv l r).
  Proof.
    intros h yv pyv l r HY. unfold val_slice, p_slice.
    pose proof (val_len_abs _ _ _ HY) as HL.
    inversion HY; subst; try reflexivity; rewrite HL; simpl.
    - (* nil *)
      destruct (range_norm 0 l r) as [[a b]| | |]; simpl; auto.
      eexists; split; [reflexivity|]. apply VR_here. constructor.
    - destruct (range_norm (length pl) l r) as [[a b]| | |] eqn:E; simpl; auto.
      destruct (range_norm_ok _ _ _ _ _ E) as [Hab Hbn].
      destruct (arr_slice_sim h (VArrS l0) pl a b HY Hab Hbn) as (w & Hw & HR). rewrite Hw. simpl. apply HR.
    - destruct (range_norm (length pl) l r) as [[a b]| | |] eqn:E; simpl; auto.
      destruct (range_norm_ok _ _ _ _ _ E) as [Hab Hbn].
      destruct (arr_slice_sim h (VArrB s) pl a b HY Hab Hbn) as (w & Hw & HR). rewrite Hw. simpl. apply HR.
    - destruct (range_norm (length pl) l r) as [[a b]| | |] eqn:E; simpl; auto.
      destruct (range_norm_ok _ _ _ _ _ E) as [Hab Hbn].
      destruct (map_range_sim h (VMapS l0) pl a b HY Hab Hbn) as (w & Hw & HR). rewrite Hw. simpl. apply HR.
    - destruct (range_norm (length pl) l r) as [[a b]| | |] eqn:E; simpl; auto.
      destruct (range_norm_ok _ _ _ _ _ E) as [Hab Hbn].
      destruct (map_range_sim h (VMapB p) pl a b HY Hab Hbn) as (w & Hw & HR). rewrite Hw. simpl. apply HR.
  Qed.

  Lemma val_rest_sim : forall h yv pyv, A h yv pyv ->
    res_rel (VR h) (val_rest c h yv) (p_rest pyv).
  Proof.
    intros h yv pyv HY. inversion HY; subst; try reflexivity.
    - simpl. eexists; split; [reflexivity|]. apply VR_here. constructor.
    - apply (arr_rest_sim h (VArrS l) pl HY).
    - apply (arr_rest_sim h (VArrB s) pl HY).
    - apply (map_rest_sim h (VMapS l) pl HY).
    - apply (map_rest_sim h (VMapB p) pl HY).
  Qed.

  Lemma val_times_sim : forall h lv plv n, A h lv plv ->
    res_rel (VR h) (val_times c o h lv n) (p_times plv n).
  Proof.
    intros h lv plv n HL. inversion HL; subst; try reflexivity.
    - simpl. destruct (int64_ok (z * n)); simpl; auto. eexists; split; [reflexivity|]. apply VR_here. constructor.
    - apply (arr_repeat_sim h (VArrS l) pl n HL).
    - apply (arr_repeat_sim h (VArrB s) pl n HL).
  Qed.

  Lemma prim_step_sim : forall infn h s ps p, AbsStore h s ps ->
    res_rel (StepR h s (prim_target p)) (prim_step c o infn (mkst h s) p) (p_prim_step infn ps p).
  Proof.
    intros infn h s ps p HS.
    destruct p; unfold prim_step, p_prim_step, prim_target; cbn [sheap sstore].
    - (* PArrLit *)
      apply finish_sim; auto.
      apply (res_rel_bind (Forall2 (A h))); [apply eval_elems_sim; auto|]. intros vs pvs HF.
      apply arr_literal_sim; auto.
    - (* PMapLit *)
      apply finish_sim; auto.
      apply (res_rel_bind (Forall2 (RKV (A h)))); [apply eval_pairs_sim; auto|]. intros vs pvs HF.
      apply map_literal_sim; auto.
    - (* PCopy *)
      apply finish_sim; auto.
      pose proof (eval_elem_sim h s ps (EVar y) HS) as HE.
      destruct (p_eval_elem ps (EVar y)); simpl in *; try (rewrite HE; reflexivity).
      destruct HE as (v & -> & HA). simpl. eexists; split; [reflexivity|]. apply VR_here; auto.
    - (* PIdxSet *)
      apply (res_rel_bind (A h)); [apply eval_elem_sim; auto|]. intros v pv HV.
      apply (res_rel_bind (A h)); [apply eval_elem_sim; auto|]. intros xv pxv HX.
      apply (res_rel_bind (VR h)); [apply val_idx_set_sim; auto|]. intros [h1 nv] pnv [K HA]. simpl in *.
      eexists; split; [reflexivity|]. unfold StepR. simpl. splits; auto.
      + apply bind_var_abs; auto. eapply AbsStore_keeps; eauto.
      + eapply Abs_keeps; eauto.
      + intros. apply lookup_bind_other. auto.
    - (* PPlus *)
      apply finish_sim; auto.
      apply (res_rel_bind (A h)); [apply eval_elem_sim; auto|]. intros lv plv HL.
      apply (res_rel_bind (A h)); [apply eval_elem_sim; auto|]. intros rv prv HR.
      apply val_plus_sim; auto.
    - (* PRepeat *)
      apply finish_sim; auto.
      apply (res_rel_bind (A h)); [apply eval_elem_sim; auto|]. intros lv plv HL.
      apply val_times_sim; auto.
    - (* PSlice *)
      apply finish_sim; auto.
      apply (res_rel_bind (A h)); [apply eval_elem_sim; auto|]. intros yv pyv HY.
      apply val_slice_sim; auto.
    - (* PRest *)
      apply finish_sim; auto.
      apply (res_rel_bind (A h)); [apply eval_elem_sim; auto|]. intros yv pyv HY.
      apply val_rest_sim; auto.
    - (* PGet *)
      apply finish_sim; auto.
      apply (res_rel_bind (A h)); [apply eval_elem_sim; auto|]. intros yv pyv HY.
      pose proof (val_get_sim h yv pyv i HY) as HG.
      destruct (p_get pyv i); simpl in *; try (rewrite HG; reflexivity).
      destruct HG as (v & -> & HA). simpl. eexists; split; [reflexivity|]. apply VR_here; auto.
    - (* PDel *)
      pose proof (lookup_abs h s ps x HS) as HL.
      destruct (lookup s x) as [xv|], (lookup ps x) as [pxv|]; try contradiction.
      + rewrite (is_map_abs _ _ _ HL).
        destruct pxv; simpl; auto.
        destruct (map_delete_sim h xv l k HL) as (h1 & m1 & ch & Hd & K & HM).
        rewrite Hd. simpl.
        destruct (kv_del l k) as [l'|].
        * destruct HM as [-> HM]. eexists; split; [reflexivity|]. unfold StepR. simpl. splits; auto.
          -- apply bind_var_abs; auto. eapply AbsStore_keeps; eauto.
          -- intros. apply lookup_bind_other. auto.
        * subst ch. eexists; split; [reflexivity|]. unfold StepR. simpl. splits; auto.
          eapply AbsStore_keeps; eauto.
      + eexists; split; [reflexivity|]. unfold StepR. simpl. splits; auto using keeps_refl.
    - (* PIncr *)
      apply (res_rel_bind (A h)); [apply eval_elem_sim; auto|]. intros xv pxv HX.
      apply (res_rel_bind (A h)); [apply val_get_sim; auto|]. intros ev pev HE.
      apply (res_rel_bind (VR h)); [apply val_plus_sim; auto; constructor|]. intros [h1 nv] pnv [K1 HN]. simpl in *.
      apply (res_rel_bind (VR h1)); [apply val_idx_set_sim; auto; eapply Abs_keeps; eauto|].
      intros [h2 nx] pnx [K2 HNX]. simpl in *.
      assert (K : keeps (length h) h h2).
      { eapply keeps_trans; eauto. eapply keeps_le; eauto. eapply keeps_len; eauto. }
      eexists; split; [reflexivity|]. unfold StepR. simpl. splits; auto.
      + apply bind_var_abs; auto. eapply AbsStore_keeps; eauto.
      + eapply Abs_keeps; eauto.
      + intros. apply lookup_bind_other. auto.
    - (* PUnbind *)
      destruct infn; simpl; auto.
      pose proof (lookup_abs h s ps x HS) as HL.
      destruct (lookup s x) as [xv|], (lookup ps x) as [pxv|]; try contradiction.
      + eexists; split; [reflexivity|]. unfold StepR. simpl. splits; auto using keeps_refl.
        * apply unbind_abs; auto.
        * intros. apply lookup_unbind_other. auto.
      + eexists; split; [reflexivity|]. unfold StepR. simpl. splits; auto using keeps_refl.
  Qed.

  Definition StatR (h : heap) (a : status) (b : pstatus) : Prop :=
    match a, b with
    | Done r, PDone pr => AbsR h r pr
    | Failed, PFailed | OutDom, POutDom | IsStuck, PIsStuck => True
    | _, _ => False
    end.

  (* what a run of statements guarantees, from heap h and store s, when only the bindings in ws may be written *)
  Definition RunR (h : heap) (s : list (var * val)) (ws : list var)
             (a : state * status) (b : list (var * pval) * pstatus) : Prop :=
    keeps (length h) h (sheap (fst a)) /\
    AbsStore (sheap (fst a)) (sstore (fst a)) (fst b) /\
    StatR (sheap (fst a)) (snd a) (snd b) /\
    (forall y, ~ In y ws -> lookup (sstore (fst a)) y = lookup s y).

  Lemma AbsR_keeps : forall h h' r pr, AbsR h r pr -> keeps (length h) h h' -> AbsR h' r pr.
  Proof. intros. destruct r, pr; simpl in *; auto. eapply Abs_keeps; eauto. Qed.

  Lemma exec_prims_sim : forall infn body h s ps last plast,
    AbsStore h s ps -> AbsR h last plast ->
    RunR h s (map prim_target body) (exec_prims c o infn (mkst h s) body last) (p_exec_prims infn ps body plast).
  Proof.
    intros infn body. induction body as [|p t IH]; intros h s ps last plast HS HL; simpl.
    - unfold RunR. simpl. splits; auto using keeps_refl.
    - pose proof (prim_step_sim infn h s ps p HS) as HP.
      destruct (p_prim_step infn ps p) as [[ps1 pr]| | |]; simpl in HP.
      + destruct HP as ([[h1 s1] r] & -> & K & HS1 & HR & HF). simpl in *.
        specialize (IH h1 s1 ps1 r pr HS1 HR). destruct IH as (K2 & HS2 & HST & HF2).
        unfold RunR. splits; auto.
        * eapply keeps_trans; eauto. eapply keeps_le; eauto. eapply keeps_len; eauto.
        * intros y Hy. rewrite HF2 by (intro; apply Hy; right; auto). apply HF. intro; apply Hy; left; auto.
      + rewrite HP. unfold RunR. simpl. splits; auto using keeps_refl.
      + rewrite HP. unfold RunR. simpl. splits; auto using keeps_refl.
      + rewrite HP. unfold RunR. simpl. splits; auto using keeps_refl.
  Qed.

  Lemma RunR_weaken : forall h s ws ws' a b, RunR h s ws a b -> (forall y, In y ws -> In y ws') -> RunR h s ws' a b.
  Proof. intros h s ws ws' a b (K & HS & HST & HF) Hin. unfold RunR. splits; auto. Qed.

  Lemma for_loop_sim : forall e body rem fuel h s ps cur last plast,
    AbsStore h s ps -> AbsR h last plast ->
    (A h cur (PArr rem) \/ (cur = VNil /\ rem = [])) -> fuel = length rem ->
    RunR h s (e :: map prim_target body)
         (for_loop c o fuel (mkst h s) e cur body last) (p_for_loop ps e rem body plast).
  Proof.
    intros e body rem. induction rem as [|pv t IH]; intros fuel h s ps cur last plast HS HL HC Hf; subst fuel; simpl.
    - unfold RunR. simpl. splits; auto using keeps_refl.
    - destruct HC as [HC|[_ HC]]; [|discriminate].
      pose proof (arr_len_abs _ _ _ HC) as Hlen. simpl in Hlen. rewrite Hlen. simpl.
      pose proof (arr_get_sim h cur (pv :: t) 0 HC) as HG. unfold p_get, idx_norm in HG. simpl in HG.
      destruct HG as (v & Hg & HV). simpl. rewrite Hg.
      pose proof (arr_rest_sim h cur (pv :: t) HC) as HRs. unfold p_rest in HRs. simpl length in HRs.
      assert (HRs' : exists h1 rest, arr_rest c h cur = Ok (h1, rest) /\ keeps (length h) h h1 /\
                      (A h1 rest (PArr t) \/ (rest = VNil /\ t = []))).
      { destruct t as [|q t']; simpl in HRs; destruct HRs as ([h1 rest] & Hr & K & HA); simpl in *;
          exists h1, rest; splits; auto.
        right. inversion HA; auto. }
      destruct HRs' as (h1 & rest & -> & K1 & HRest).
      set (s1 := bind_var s e v).
      assert (HS1 : AbsStore h1 s1 (bind_var ps e pv)).
      { apply bind_var_abs; [eapply AbsStore_keeps; eauto|eapply Abs_keeps; eauto]. }
      pose proof (exec_prims_sim false body h1 s1 (bind_var ps e pv) (RV VNil) (PRV PNil) HS1 ltac:(constructor)) as HE.
      destruct (exec_prims c o false (mkst h1 s1) body (RV VNil)) as [[h2 s2] status] eqn:E1.
      destruct (p_exec_prims false (bind_var ps e pv) body (PRV PNil)) as [ps2 pstatus] eqn:E2.
      destruct HE as (K2 & HS2 & HST & HF). simpl in *.
      assert (K12 : keeps (length h) h h2).
      { eapply keeps_trans; eauto. eapply keeps_le; eauto. eapply keeps_len; eauto. }
      assert (HFr : forall y, ~ In y (e :: map prim_target body) -> lookup s2 y = lookup s y).
      { intros y Hy. rewrite HF by (intro; apply Hy; right; auto). unfold s1. apply lookup_bind_other.
        intro; apply Hy; left; auto. }
      destruct status as [r| | |], pstatus as [pr| | |]; simpl in HST; try contradiction;
        try (unfold RunR; simpl; splits; auto; fail).
      assert (HC2 : A h2 rest (PArr t) \/ (rest = VNil /\ t = [])).
      { destruct HRest as [HA|HA]; auto. left. eapply Abs_keeps; eauto. }
      specialize (IH (length t) h2 s2 ps2 rest r pr HS2 HST HC2 eq_refl).
      destruct IH as (K3 & HS3 & HST3 & HF3).
      unfold RunR. splits; auto.
      + eapply keeps_trans; eauto. eapply keeps_le; eauto. eapply keeps_len; eauto.
      + intros y Hy. rewrite HF3; auto.
  Qed.

  Lemma is_array_PArr : forall h v p, A h v p -> is_array v = true -> exists l, p = PArr l.
  Proof. intros. inversion H; subst; simpl in *; try discriminate; eauto. Qed.

  Opaque param_var.

  Lemma op_step_sim : forall op h s ps, AbsStore h s ps ->
    RunR h s (op_writes op) (op_step c o (mkst h s) op) (p_op_step ps op).
  Proof.
    intros op h s ps HS. destruct op as [p|e y body|r y body]; simpl.
    - apply (exec_prims_sim false [p] h s ps (RV VNil) (PRV PNil)); auto. constructor.
    - pose proof (lookup_abs h s ps y HS) as HL.
      destruct (lookup s y) as [yv|], (lookup ps y) as [pyv|]; try contradiction.
      + destruct (is_array yv) eqn:EA.
        * destruct (is_array_PArr _ _ _ HL EA) as [l ->].
          apply for_loop_sim; auto; [constructor|]. apply (arr_len_abs _ _ _ HL).
        * rewrite (is_array_abs _ _ _ HL) in EA. destruct pyv; simpl in EA; try discriminate;
            unfold RunR; simpl; splits; auto using keeps_refl.
      + unfold RunR; simpl; splits; auto using keeps_refl.
    - pose proof (lookup_abs h s ps y HS) as HL.
      destruct (lookup s y) as [yv|] eqn:Ey, (lookup ps y) as [pyv|] eqn:Epy; try contradiction;
        [|unfold RunR; simpl; splits; auto using keeps_refl].
      assert (Hint : (exists z, yv = VInt z /\ pyv = PInt z) \/ ((forall z, yv <> VInt z) /\ (forall z, pyv <> PInt z))).
      { inversion HL; subst; [left; eauto| right; split; intros; discriminate ..]. }
      destruct Hint as [(z & -> & ->)|[Hn1 Hn2]]; [unfold RunR; simpl; splits; auto using keeps_refl|].
      pose proof (lookup_abs h s ps param_var HS) as HP.
      assert (Hbody :
        RunR h s (r :: param_var :: map prim_target body)
          (match lookup s param_var with
           | Some _ => (mkst h s, OutDom)
           | None =>
             match exec_prims c o true (mkst h ((param_var, yv) :: s)) body (RV VNil) with
             | (st2, Done _) =>
               match lookup (sstore st2) param_var with
               | Some pv => (mkst (sheap st2) (bind_var (unbind (sstore st2) param_var) r pv), Done (RV pv))
               | None => (st2, IsStuck)
               end
             | (st2, st) => (mkst (sheap st2) (unbind (sstore st2) param_var), st)
             end
           end)
          (match lookup ps param_var with
           | Some _ => (ps, POutDom)
           | None =>
             match p_exec_prims true ((param_var, pyv) :: ps) body (PRV PNil) with
             | (s2, PDone _) =>
               match lookup s2 param_var with
               | Some pv => (bind_var (unbind s2 param_var) r pv, PDone (PRV pv))
               | None => (s2, PIsStuck)
               end
             | (s2, st) => (unbind s2 param_var, st)
             end
           end)).
      { destruct (lookup s param_var), (lookup ps param_var); try contradiction;
          [unfold RunR; simpl; splits; auto using keeps_refl|].
        assert (HS1 : AbsStore h ((param_var, yv) :: s) ((param_var, pyv) :: ps)).
        { constructor; auto; split; auto. }
        pose proof (exec_prims_sim true body h _ _ (RV VNil) (PRV PNil) HS1 ltac:(constructor)) as HE.
        destruct (exec_prims c o true (mkst h ((param_var, yv) :: s)) body (RV VNil)) as [[h2 s2] status].
        destruct (p_exec_prims true ((param_var, pyv) :: ps) body (PRV PNil)) as [ps2 pstatus].
        destruct HE as (K2 & HS2 & HST & HF). simpl in *.
        assert (HFr : forall y0, ~ In y0 (r :: param_var :: map prim_target body) ->
                      lookup (unbind s2 param_var) y0 = lookup s y0).
        { intros y0 Hy. rewrite lookup_unbind_other by (intro; apply Hy; right; left; auto).
          rewrite HF by (intro; apply Hy; right; right; auto).
          destruct (Nat.eqb param_var y0) eqn:E; auto. apply Nat.eqb_eq in E. exfalso. apply Hy. right; left; auto. }
        destruct status as [r0| | |], pstatus as [pr0| | |]; simpl in HST; try contradiction;
          try (unfold RunR; simpl; splits; auto using unbind_abs; fail).
        pose proof (lookup_abs h2 s2 ps2 param_var HS2) as HP2.
        destruct (lookup s2 param_var) as [pv|], (lookup ps2 param_var) as [ppv|]; try contradiction.
        - unfold RunR; simpl; splits; auto.
          + apply bind_var_abs; auto. apply unbind_abs; auto.
          + intros y0 Hy. rewrite lookup_bind_other by (intro; apply Hy; left; auto). apply HFr; auto.
        - unfold RunR; simpl; splits; auto.
          intros y0 Hy. rewrite HF by (intro; apply Hy; right; right; auto).
          destruct (Nat.eqb param_var y0) eqn:E; auto. apply Nat.eqb_eq in E. exfalso. apply Hy. right; left; auto. }
      destruct yv; try (exfalso; eapply Hn1; reflexivity); destruct pyv; try (exfalso; eapply Hn2; reflexivity);
        apply Hbody.
  Qed.

  Lemma run_from_sim : forall ops h s ps, AbsStore h s ps ->
    AbsStore (sheap (run_from c o (mkst h s) ops)) (sstore (run_from c o (mkst h s) ops)) (p_run_from ps ops).
  Proof.
    induction ops as [|op t IH]; intros h s ps HS; simpl; auto.
    pose proof (op_step_sim op h s ps HS) as (K & HS1 & _ & _).
    destruct (op_step c o (mkst h s) op) as [[h1 s1] status]. simpl in *.
    apply IH. auto.
  Qed.
End SIM.

(* ------------------------------------------------------------------ the statements used by props/C06.v *)

Definition AbsState (c : cfg) (st : state) (ps : list (var * pval)) : Prop :=
  AbsStore c (sheap st) (sstore st) ps.

(* what binding y evaluates to in state st *)
Definition reads (c : cfg) (st : state) (y : var) (p : pval) : Prop :=
  exists v, lookup (sstore st) y = Some v /\ Abs (Some (msa c)) (sheap st) v p.

Lemma reads_fun : forall c st y p p', reads c st y p -> reads c st y p' -> p = p'.
Proof.
  intros c st y p p' (v & Hv & HA) (v' & Hv' & HA'). rewrite Hv in Hv'. inversion Hv'; subst.
  eapply Abs_fun; eauto.
Qed.

Lemma refinement : forall c o, cow c = true -> good o -> forall ops,
  AbsState c (run c o ops) (run_pure ops).
Proof.
  intros c o Hc Hg ops. unfold AbsState, run, run_pure, empty_state.
  apply (run_from_sim c o Hc Hg ops [] [] []). constructor.
Qed.

Lemma AbsState_reads : forall c st ps y, AbsState c st ps ->
  forall p, reads c st y p <-> lookup ps y = Some p.
Proof.
  intros c st ps y HS p. pose proof (lookup_abs c (sheap st) (sstore st) ps y HS) as HL.
  split.
  - intros (v & Hv & HA). rewrite Hv in HL. destruct (lookup ps y); [|contradiction].
    f_equal. eapply Abs_fun; eauto.
  - intros Hp. rewrite Hp in HL. destruct (lookup (sstore st) y) eqn:E; [|contradiction].
    exists v. split; auto.
Qed.

Lemma step_frame : forall c o, cow c = true -> good o -> forall ops op y,
  ~ In y (op_writes op) ->
  let st := run c o ops in
  let st' := fst (op_step c o st op) in
  forall p, reads c st y p -> reads c st' y p.
Proof.
  intros c o Hc Hg ops op y Hy st st' p (v & Hv & HA).
  pose proof (refinement c o Hc Hg ops) as HS. fold st in HS. unfold AbsState in HS.
  destruct st as [h s] eqn:Est. simpl in *.
  pose proof (op_step_sim c o Hc Hg op h s (run_pure ops) HS) as (K & _ & _ & HF).
  exists v. split.
  - unfold st'. rewrite HF; auto.
  - eapply Abs_keeps; eauto.
Qed.

Lemma read_store_sound : forall fuel h s ps, read_store fuel h s = Some ps ->
  Forall2 (fun a b => fst a = fst b /\ Abs None h (snd a) (snd b)) s ps.
Proof.
  induction s as [|[x v] t IH]; intros ps H; simpl in H.
  - inversion H. constructor.
  - destruct (read fuel h v) eqn:E1; [|discriminate]. destruct (read_store fuel h t) eqn:E2; [|discriminate].
    inversion H; subst. constructor; auto. split; auto. simpl. eapply read_sound; eauto.
Qed.

Lemma refinement_exec : forall c o, cow c = true -> good o -> forall ops fuel ps,
  let st := run c o ops in
  read_store fuel (sheap st) (sstore st) = Some ps -> ps = run_pure ops.
Proof.
  intros c o Hc Hg ops fuel ps st H.
  pose proof (refinement c o Hc Hg ops) as HS. fold st in HS. unfold AbsState, AbsStore in HS.
  pose proof (read_store_sound _ _ _ _ H) as HR.
  revert HS HR. generalize (run_pure ops) as qs. generalize (sstore st) as s. clear H.
  intros s qs HS. revert ps. induction HS as [|[x v] [x' q] t qt [H1 H2] HF IH]; intros ps HR; inversion HR; subst; auto.
  destruct y as [x'' p'']. simpl in *. destruct H3 as [H3 H4]. subst.
  f_equal; auto. f_equal.
  eapply Abs_fun; eauto. eapply (proj1 (Abs_forget_all _ _)); eauto.
Qed.

Lemma plus_frame : forall c o, cow c = true -> good o -> forall ops x y z,
  z <> x -> z <> y ->
  let st := run c o ops in
  let st' := fst (op_step c o st (OPrim (PPlus z x (EVar y)))) in
  forall p, (reads c st x p -> reads c st' x p) /\ (reads c st y p -> reads c st' y p).
Proof.
  intros c o Hc Hg ops x y z Hx Hy st st' p. split; intros HR.
  - apply (step_frame c o Hc Hg ops (OPrim (PPlus z x (EVar y))) x); auto. simpl. intros [H|[]]. congruence.
  - apply (step_frame c o Hc Hg ops (OPrim (PPlus z x (EVar y))) y); auto. simpl. intros [H|[]]. congruence.
Qed.

Lemma reads_pure : forall c o, cow c = true -> good o -> forall ops y p,
  reads c (run c o ops) y p <-> lookup (run_pure ops) y = Some p.
Proof. intros. apply AbsState_reads. apply refinement; auto. Qed.
